(* KeyCbor.v — the CBOR leg of the COSE_Key round trip (C14): what Key.MarshalCBOR
   emits for an EC2 / OKP key is a canonical map whose coordinates have full width,
   and Key.UnmarshalCBOR gives back exactly the same key, for every coordinate value. *)
From Coq Require Import Ascii String ZArith List Lia Bool ZifyBool.
From GoCose Require Import Bytes Cbor CborProofs Res GoVal Fx Headers Enc HashEnv Key TbsProofs KeyProofs.
From GoCose.Gen Require Import Generated.
Import ListNotations.
Open Scope Z_scope.

(* keys as the constructors build them *)
Definition ec2_key (crv alg : Z) (cx cy : bytes) (od : gobytes) : key :=
  mkKey c_KeyTypeEC2 None alg None None
        (Some ([lbl c_KeyLabelEC2Curve; GInt KCurve crv] ++ opt_entry c_KeyLabelEC2X (Some cx) ++
               opt_entry c_KeyLabelEC2Y (Some cy) ++ opt_entry c_KeyLabelEC2D od)).

Definition okp_key (ox od : gobytes) : key :=
  mkKey c_KeyTypeOKP None c_AlgorithmEdDSA None None
        (Some ([lbl c_KeyLabelOKPCurve; GInt KCurve c_CurveEd25519] ++
               opt_entry c_KeyLabelOKPX ox ++ opt_entry c_KeyLabelOKPD od)).

(* the wire form: { 1: kty, 3: alg, -1: crv, -2: x, -3: y [, -4: d] }, keys in bytewise order *)
Definition wopt (l : Z) (b : gobytes) : list wire :=
  match b with None => [] | Some v => [WInt true W0 (-1 - l); tbstr v] end.

Definition alg_wire (alg : Z) : wire := WInt true (minw (-1 - alg)) (-1 - alg).

Definition ec2_wire (crv alg : Z) (cx cy : bytes) (od : gobytes) : wire :=
  let l := [WInt false W0 1; WInt false W0 2; WInt false W0 3; alg_wire alg; WInt true W0 0; WInt false W0 crv;
            WInt true W0 1; tbstr cx; WInt true W0 2; tbstr cy] ++ wopt (-4) od in
  WMap W0 l.

Definition okp_wire (ox od : gobytes) : wire :=
  let l := [WInt false W0 1; WInt false W0 1; WInt false W0 3; WInt true W0 7; WInt true W0 0; WInt false W0 6] ++
           wopt (-2) ox ++ wopt (-4) od in
  WMap W0 l.

Definition short_opt (o : gobytes) : Prop := match o with Some b => short b | None => True end.

Lemma lib_wf_ser tags w : wf w = true -> depth_ok tags w 0 = true -> lib_wf tags (ser w) = Some w.
Proof. intros Hw Hd. unfold lib_wf. rewrite parse_full_ser by auto. rewrite Hd. reflexivity. Qed.

(* evaluate the duplicate-label pass on the (concrete) labels with the virtual machine; the byte strings stay symbolic *)
Ltac eval_merge :=
  match goal with |- context [merge_params ?a ?b ?c] =>
    let r := eval vm_compute in (merge_params a b c) in
    replace (merge_params a b c) with r by (vm_compute; reflexivity) end.

Ltac finish_marshal HR :=
  cbn [k_type k_id k_alg k_ops k_baseiv kparams k_params hmap]; eval_merge;
  cbn -[enc]; cbn -[enc_bstr]; rewrite ?enc_bstr_ser; rewrite HR; clear HR.

(* ---------- EC2 ---------- *)
Theorem ec2_key_marshal crv alg bits cx cy od :
  curve_triple crv alg bits -> len cx = field_size bits -> len cy = field_size bits ->
  key_marshal (ec2_key crv alg cx cy od) = Acc (ser (ec2_wire crv alg cx cy od)).
Proof.
  intros Ht Hx Hy.
  destruct Ht as [(-> & -> & ->)|[(-> & -> & ->)|(-> & -> & ->)]]; destruct od as [d|];
    match goal with |- _ = Acc ?r => remember r as R eqn:HR end;
    unfold key_marshal;
    match goal with |- context [key_x ?k] =>
      change (key_x k) with (Some cx); change (key_y k) with (Some cy);
      match goal with |- context [curve_size (key_crv k)] =>
        let sz := eval vm_compute in (curve_size (key_crv k)) in change (curve_size (key_crv k)) with sz end
    end;
    cbv beta iota; change (field_size 256) with 32 in *; change (field_size 384) with 48 in *; change (field_size 521) with 66 in *;
    rewrite Hx, Hy, !Z.ltb_irrefl, !andb_false_r; unfold ec2_key; finish_marshal HR;
    unfold ec2_wire, wopt; generalize (tbstr cx) (tbstr cy); intros X Y;
    try (generalize (tbstr d); intros D); reflexivity.
Qed.

Theorem ec2_key_unmarshal crv alg bits cx cy od :
  curve_triple crv alg bits -> len cx = field_size bits -> len cy = field_size bits ->
  short cx -> short cy -> short_opt od ->
  match od with Some d => len d <= field_size bits | None => True end ->
  key_unmarshal (ser (ec2_wire crv alg cx cy od)) = Acc (ec2_key crv alg cx cy od).
Proof.
  intros Ht Hx Hy Sx Sy Sd Ld. unfold key_unmarshal.
  assert (W : wf (ec2_wire crv alg cx cy od) = true).
  { destruct Ht as [(-> & -> & ->)|[(-> & -> & ->)|(-> & -> & ->)]]; destruct od as [d|];
      cbn [ec2_wire wopt app wf forallb length Nat.even]; rewrite ?tbstr_wf by auto; reflexivity. }
  assert (D : depth_ok true (ec2_wire crv alg cx cy od) 0 = true).
  { destruct Ht as [(-> & -> & ->)|[(-> & -> & ->)|(-> & -> & ->)]]; destruct od as [d|]; reflexivity. }
  rewrite (lib_wf_ser _ _ W D). clear W D.
  destruct Ht as [(-> & -> & ->)|[(-> & -> & ->)|(-> & -> & ->)]]; destruct od as [d|];
    change (field_size 256) with 32 in *; change (field_size 384) with 48 in *; change (field_size 521) with 66 in *;
    cbn -[key_validate];
    match goal with |- (let* _ := key_validate ?k 0 in _) = _ =>
      assert (V : key_validate k 0 = Acc tt)
        by (unfold key_validate, key_crv, key_x, key_y, key_d, param_int, param_bytes, decode_int, decode_bytes, kparams;
            cbn; rewrite ?Hx, ?Hy; cbn;
            repeat match goal with |- context [?a <? ?b] => destruct (Z.ltb_spec a b); try lia end; reflexivity);
      rewrite V end; reflexivity.
Qed.

(* ---------- OKP (Ed25519) ---------- *)
Definition len_opt (n : Z) (o : gobytes) : Prop := match o with Some b => len b = n | None => True end.

Theorem okp_key_marshal ox od :
  key_marshal (okp_key ox od) = Acc (ser (okp_wire ox od)).
Proof.
  destruct ox as [x|]; destruct od as [d|];
    match goal with |- _ = Acc ?r => remember r as R eqn:HR end;
    unfold key_marshal, okp_key; cbn [k_type]; change (c_KeyTypeOKP =? c_KeyTypeEC2) with false; cbv beta iota;
    finish_marshal HR; unfold okp_wire, wopt;
    try (generalize (tbstr x); intros X); try (generalize (tbstr d); intros D); reflexivity.
Qed.

Theorem okp_key_unmarshal ox od :
  short_opt ox -> short_opt od -> len_opt 32 ox -> len_opt 32 od -> (ox <> None \/ od <> None) ->
  key_unmarshal (ser (okp_wire ox od)) = Acc (okp_key ox od).
Proof.
  intros Sx Sd Lx Ld Hne. unfold key_unmarshal.
  assert (W : wf (okp_wire ox od) = true).
  { destruct ox as [x|]; destruct od as [d|]; cbn [okp_wire wopt app wf forallb length Nat.even];
      cbn in Sx, Sd; rewrite ?tbstr_wf by auto; reflexivity. }
  assert (D : depth_ok true (okp_wire ox od) 0 = true).
  { destruct ox as [x|]; destruct od as [d|]; reflexivity. }
  rewrite (lib_wf_ser _ _ W D). clear W D.
  destruct ox as [x|]; destruct od as [d|]; cbn in Lx, Ld; try (destruct Hne as [Hne|Hne]; congruence);
    cbn -[key_validate];
    match goal with |- (let* _ := key_validate ?k 0 in _) = _ =>
      assert (V : key_validate k 0 = Acc tt)
        by (unfold key_validate, key_crv, key_x, key_y, key_d, param_int, param_bytes, decode_int, decode_bytes, kparams;
            cbn; rewrite ?Lx, ?Ld; reflexivity);
      rewrite V end; reflexivity.
Qed.

(* ---------- the whole conversion, Go key -> COSE_Key -> CBOR -> COSE_Key -> Go key ---------- *)
Lemma pow256 n : 0 <= n -> 256 ^ n = 2 ^ (8 * n).
Proof. intros H. rewrite Z.pow_mul_r by lia. reflexivity. Qed.

(* big.Int.Bytes(): minimal big-endian bytes *)
Lemma zbytes_spec d : 0 < d ->
  bytes_ok (zbytes d) = true /\ be_dec (zbytes d) = d /\ 0 < len (zbytes d) /\
  (forall n, 0 <= n -> d < 256 ^ n -> len (zbytes d) <= n).
Proof.
  intros Hd. unfold zbytes. destruct (d <=? 0) eqn:E; [lia|].
  pose proof (Z.log2_nonneg d) as Hl.
  assert (Hk : 0 <= Z.log2 d / 8) by (apply Z.div_pos; lia).
  split; [apply be_enc_ok|]. split; [|split].
  - apply be_dec_enc. rewrite Z2Nat.id by lia. split; [lia|].
    rewrite pow256 by lia. apply Z.log2_lt_pow2; [lia|].
    pose proof (Z.mod_pos_bound (Z.log2 d) 8 ltac:(lia)). pose proof (Z.div_mod (Z.log2 d) 8 ltac:(lia)). lia.
  - unfold len. rewrite be_enc_length, Z2Nat.id by lia. lia.
  - intros n Hn Hlt. unfold len. rewrite be_enc_length, Z2Nat.id by lia.
    rewrite pow256 in Hlt by lia. apply Z.log2_lt_pow2 in Hlt; [|lia].
    pose proof (Z.mod_pos_bound (Z.log2 d) 8 ltac:(lia)). pose proof (Z.div_mod (Z.log2 d) 8 ltac:(lia)). lia.
Qed.

Lemma ec2_key_valid crv alg bits cx cy od op :
  curve_triple crv alg bits -> len cx = field_size bits -> len cy = field_size bits ->
  match od with Some d => 0 < len d <= field_size bits | None => op <> c_KeyOpSign end ->
  key_validate (ec2_key crv alg cx cy od) op = Acc tt.
Proof.
  intros Ht Hx Hy Hd.
  destruct Ht as [(-> & -> & ->)|[(-> & -> & ->)|(-> & -> & ->)]]; destruct od as [d|];
    change (field_size 256) with 32 in *; change (field_size 384) with 48 in *; change (field_size 521) with 66 in *;
    unfold key_validate, ec2_key, key_crv, key_x, key_y, key_d, param_int, param_bytes, decode_int, decode_bytes, kparams;
    cbn; rewrite ?Hx, ?Hy; cbn;
    repeat match goal with
           | |- context [?a <? ?b] => destruct (Z.ltb_spec a b); try lia
           | |- context [?a =? ?b] => destruct (Z.eqb_spec a b); try lia
           end; cbn; try reflexivity; try contradiction.
Qed.

Lemma triple_facts crv alg bits : curve_triple crv alg bits ->
  alg_from_curve bits = alg /\ tbl_lookup tbl_NewKeyEC2_curve alg = Some crv /\ (alg =? c_AlgorithmReserved) = false /\
  0 <= field_size bits /\ bits_of_alg alg = bits /\ derive_lookup tbl_deriveAlgorithm c_KeyTypeEC2 crv = Some alg.
Proof. intros [(-> & -> & ->)|[(-> & -> & ->)|(-> & -> & ->)]]; repeat split; try reflexivity; cbv; discriminate. Qed.

Lemma size_small bits : supported_bits bits -> field_size bits < two64.
Proof. intros [->|[->| ->]]; reflexivity. Qed.

Lemma triple_bits crv alg bits : curve_triple crv alg bits -> supported_bits bits.
Proof. intros [(_ & _ & ->)|[(_ & _ & ->)|(_ & _ & ->)]]; cbv; auto. Qed.

(* everything about a public EC2 key with full-width coordinates, the coordinates being arbitrary *)
Lemma ec2_public_cbor crv alg bits cx cy :
  curve_triple crv alg bits -> len cx = field_size bits -> len cy = field_size bits ->
  bytes_ok cx = true -> bytes_ok cy = true ->
  key_validate (ec2_key crv alg cx cy None) 0 = Acc tt /\
  key_marshal (ec2_key crv alg cx cy None) = Acc (ser (ec2_wire crv alg cx cy None)) /\
  key_unmarshal (ser (ec2_wire crv alg cx cy None)) = Acc (ec2_key crv alg cx cy None) /\
  key_public (ec2_key crv alg cx cy None) = Acc (PubEC bits (be_dec cx) (be_dec cy)).
Proof.
  intros Ht Lx Ly Ox Oy. pose proof (size_small _ (triple_bits _ _ _ Ht)) as Hsm.
  split; [apply (ec2_key_valid crv alg bits); auto; cbv; discriminate|].
  split; [apply (ec2_key_marshal crv alg bits); auto|].
  split.
  - apply (ec2_key_unmarshal crv alg bits); auto; try exact I; split; auto; lia.
  - destruct (ec2_public_key_converts crv alg bits cx cy Ht Lx Ly) as (_ & P & _). exact P.
Qed.

(* C14, public half, through the wire: every valid point of the three curves *)
Theorem go_public_key_cbor_roundtrip crv alg bits x y :
  curve_triple crv alg bits ->
  0 <= x < 256 ^ field_size bits -> 0 <= y < 256 ^ field_size bits ->
  exists k cx cy,
    new_key_from_public (PubEC bits x y) = Acc k /\
    key_marshal k = Acc (ser (ec2_wire crv alg cx cy None)) /\      (* x and y travel as bstr of ... *)
    len cx = field_size bits /\ len cy = field_size bits /\        (* ... exactly the field size *)
    be_dec cx = x /\ be_dec cy = y /\
    key_unmarshal (ser (ec2_wire crv alg cx cy None)) = Acc k /\   (* parsing gives the same COSE_Key *)
    key_public k = Acc (PubEC bits x y).                            (* which converts back to the same Go key *)
Proof.
  intros Ht Hx Hy. destruct (triple_facts _ _ _ Ht) as (A1 & A2 & A3 & Hs & _ & _).
  destruct (ec_coord_full_width x _ Hs Hx) as (Lx & Ox & Dx).
  destruct (ec_coord_full_width y _ Hs Hy) as (Ly & Oy & Dy).
  assert (N : new_key_from_public (PubEC bits x y) =
              (let* _ := key_validate (ec2_key crv alg (ec_coord x (field_size bits)) (ec_coord y (field_size bits)) None) 0 in
               Acc (ec2_key crv alg (ec_coord x (field_size bits)) (ec_coord y (field_size bits)) None))).
  { unfold new_key_from_public. rewrite A1, A3. unfold new_key_ec2. rewrite A2. reflexivity. }
  revert N Lx Ox Dx Ly Oy Dy. generalize (ec_coord x (field_size bits)) (ec_coord y (field_size bits)).
  intros cx cy N Lx Ox Dx Ly Oy Dy.
  destruct (ec2_public_cbor crv alg bits cx cy Ht Lx Ly Ox Oy) as (V & M & U & P).
  exists (ec2_key crv alg cx cy None), cx, cy. rewrite V in N.
  repeat (split; auto). rewrite P, Dx, Dy. reflexivity.
Qed.

(* the same with private material *)
Lemma ec2_private_cbor crv alg bits cx cy dd :
  curve_triple crv alg bits -> len cx = field_size bits -> len cy = field_size bits ->
  bytes_ok cx = true -> bytes_ok cy = true -> bytes_ok dd = true -> 0 < len dd <= field_size bits ->
  key_validate (ec2_key crv alg cx cy (Some dd)) 0 = Acc tt /\
  key_marshal (ec2_key crv alg cx cy (Some dd)) = Acc (ser (ec2_wire crv alg cx cy (Some dd))) /\
  key_unmarshal (ser (ec2_wire crv alg cx cy (Some dd))) = Acc (ec2_key crv alg cx cy (Some dd)) /\
  key_private (ec2_key crv alg cx cy (Some dd)) = Acc (PrivEC bits (be_dec cx) (be_dec cy) (be_dec dd)).
Proof.
  intros Ht Lx Ly Ox Oy Od Ld. pose proof (size_small _ (triple_bits _ _ _ Ht)) as Hsm.
  split; [apply (ec2_key_valid crv alg bits); auto|].
  split; [apply (ec2_key_marshal crv alg bits); auto|].
  split.
  - apply (ec2_key_unmarshal crv alg bits); auto; try (split; auto; lia); lia.
  - unfold key_private. rewrite (ec2_key_valid crv alg bits) by auto. cbn [bind].
    destruct (triple_facts _ _ _ Ht) as (_ & _ & _ & _ & B & Dl).
    unfold derive_alg. change (k_type (ec2_key crv alg cx cy (Some dd))) with c_KeyTypeEC2.
    replace (key_crv (ec2_key crv alg cx cy (Some dd))) with crv
      by (destruct Ht as [(-> & _)|[(-> & _)|(-> & _)]]; reflexivity).
    rewrite Dl. cbn [bind].
    replace ((alg =? c_AlgorithmES256) || (alg =? c_AlgorithmES384) || (alg =? c_AlgorithmES512)) with true
      by (destruct Ht as [(_ & -> & _)|[(_ & -> & _)|(_ & -> & _)]]; reflexivity).
    change (key_x (ec2_key crv alg cx cy (Some dd))) with (Some cx).
    change (key_y (ec2_key crv alg cx cy (Some dd))) with (Some cy).
    change (key_d (ec2_key crv alg cx cy (Some dd))) with (Some dd).
    cbn [glen gor]. rewrite Lx, Ly, B.
    replace (field_size bits =? 0) with false
      by (destruct Ht as [(_ & _ & ->)|[(_ & _ & ->)|(_ & _ & ->)]]; reflexivity).
    reflexivity.
Qed.

Theorem go_private_key_cbor_roundtrip crv alg bits x y d :
  curve_triple crv alg bits ->
  0 <= x < 256 ^ field_size bits -> 0 <= y < 256 ^ field_size bits -> 0 < d < 256 ^ field_size bits ->
  exists k cx cy dd,
    new_key_from_private (PrivEC bits x y d) = Acc k /\
    key_marshal k = Acc (ser (ec2_wire crv alg cx cy (Some dd))) /\
    len cx = field_size bits /\ len cy = field_size bits /\
    key_unmarshal (ser (ec2_wire crv alg cx cy (Some dd))) = Acc k /\
    key_private k = Acc (PrivEC bits x y d).
Proof.
  intros Ht Hx Hy Hd. destruct (triple_facts _ _ _ Ht) as (A1 & A2 & A3 & Hs & _ & _).
  destruct (ec_coord_full_width x _ Hs Hx) as (Lx & Ox & Dx).
  destruct (ec_coord_full_width y _ Hs Hy) as (Ly & Oy & Dy).
  destruct (zbytes_spec d ltac:(lia)) as (Od & Dd & Pd & Bd). specialize (Bd _ Hs ltac:(lia)).
  assert (N : new_key_from_private (PrivEC bits x y d) =
              (let* _ := key_validate (ec2_key crv alg (ec_coord x (field_size bits)) (ec_coord y (field_size bits)) (Some (zbytes d))) 0 in
               Acc (ec2_key crv alg (ec_coord x (field_size bits)) (ec_coord y (field_size bits)) (Some (zbytes d))))).
  { unfold new_key_from_private. rewrite A1, A3. unfold new_key_ec2. rewrite A2. reflexivity. }
  revert N Lx Ox Dx Ly Oy Dy Od Dd Pd Bd.
  generalize (ec_coord x (field_size bits)) (ec_coord y (field_size bits)) (zbytes d).
  intros cx cy dd N Lx Ox Dx Ly Oy Dy Od Dd Pd Bd.
  destruct (ec2_private_cbor crv alg bits cx cy dd Ht Lx Ly Ox Oy Od ltac:(lia)) as (V & M & U & P).
  exists (ec2_key crv alg cx cy (Some dd)), cx, cy, dd. rewrite V in N.
  repeat (split; auto). rewrite P, Dx, Dy, Dd. reflexivity.
Qed.

(* Ed25519: private key = seed ++ public key, 64 bytes *)
Theorem go_ed25519_key_cbor_roundtrip sk :
  length sk = 64%nat -> bytes_ok sk = true ->
  exists k,
    new_key_from_private (PrivEd sk) = Acc k /\
    key_marshal k = Acc (ser (okp_wire (Some (skipn 32 sk)) (Some (firstn 32 sk)))) /\
    key_unmarshal (ser (okp_wire (Some (skipn 32 sk)) (Some (firstn 32 sk)))) = Acc k /\
    key_private k = Acc (PrivEd sk) /\ key_public k = Acc (PubEd (skipn 32 sk)).
Proof.
  intros Hl Ho.
  assert (Lx : len (skipn 32 sk) = 32) by (unfold len; rewrite skipn_length, Hl; reflexivity).
  assert (Ld : len (firstn 32 sk) = 32) by (unfold len; rewrite firstn_length, Hl; reflexivity).
  pose proof (bytes_ok_skipn 32 sk Ho) as Ox. pose proof (bytes_ok_firstn 32 sk Ho) as Od.
  assert (E : firstn 32 sk ++ skipn 32 sk = sk) by apply firstn_skipn.
  unfold new_key_from_private.
  revert Lx Ld Ox Od E. generalize (skipn 32 sk) (firstn 32 sk). intros x d Lx Ld Ox Od E.
  assert (V : forall op, key_validate (okp_key (Some x) (Some d)) op = Acc tt).
  { intros op. unfold key_validate, okp_key, key_crv, key_x, key_y, key_d, param_int, param_bytes, decode_int, decode_bytes, kparams.
    cbn. rewrite Lx, Ld. cbn. rewrite !andb_false_r. reflexivity. }
  exists (okp_key (Some x) (Some d)).
  split; [unfold new_key_okp; cbn [negb Z.eqb c_AlgorithmEdDSA Pos.eqb];
          change (mkKey c_KeyTypeOKP None c_AlgorithmEdDSA None None _) with (okp_key (Some x) (Some d)); rewrite V; reflexivity|].
  split; [apply okp_key_marshal|].
  split; [apply okp_key_unmarshal; cbn; auto; try (split; auto; rewrite ?Lx, ?Ld; reflexivity); left; discriminate|].
  assert (F : forall l, len l = 32 -> firstn 32 (l ++ repeat 0 32) = l).
  { intros l H. replace 32%nat with (length l + 0)%nat at 1 by (unfold len in H; lia).
    rewrite firstn_app_2. cbn. apply app_nil_r. }
  split.
  - unfold key_private. rewrite V. cbn [bind]. unfold derive_alg.
    change (derive_lookup tbl_deriveAlgorithm (k_type (okp_key (Some x) (Some d))) (key_crv (okp_key (Some x) (Some d)))) with (Some c_AlgorithmEdDSA).
    cbn [bind]. change (key_x (okp_key (Some x) (Some d))) with (Some x). change (key_d (okp_key (Some x) (Some d))) with (Some d).
    cbn [glen gor]. rewrite Lx.
    change ((c_AlgorithmEdDSA =? c_AlgorithmES256) || (c_AlgorithmEdDSA =? c_AlgorithmES384) || (c_AlgorithmEdDSA =? c_AlgorithmES512)) with false.
    change (c_AlgorithmEdDSA =? c_AlgorithmEdDSA) with true. change (32 =? 0) with false. cbv iota.
    rewrite (F x Lx), (F d Ld), E. reflexivity.
  - unfold key_public. rewrite V. cbn [bind]. unfold derive_alg.
    change (derive_lookup tbl_deriveAlgorithm (k_type (okp_key (Some x) (Some d))) (key_crv (okp_key (Some x) (Some d)))) with (Some c_AlgorithmEdDSA).
    reflexivity.
Qed.

(* the premises are satisfiable and the statement is about real bytes: P-256, x = 1, y = 2 *)
Example key_cbor_example :
  new_key_from_public (PubEC 256 1 2) = Acc (ec2_key 1 (-7) (repeat 0 31 ++ [1]) (repeat 0 31 ++ [2]) None) /\
  key_marshal (ec2_key 1 (-7) (repeat 0 31 ++ [1]) (repeat 0 31 ++ [2]) None) =
    Acc (x "a5010203262001215820" ++ repeat 0 31 ++ [1] ++ x "225820" ++ repeat 0 31 ++ [2]).
Proof. split; vm_compute; reflexivity. Qed.
