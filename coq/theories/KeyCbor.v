(* KeyCbor.v — the CBOR leg of the COSE_Key round trip (C14): what Key.MarshalCBOR
   emits for an EC2 / OKP key is a canonical map whose coordinates have full width,
   and Key.UnmarshalCBOR gives back exactly the same key, for every coordinate value. *)
From Coq Require Import Ascii String ZArith List Lia Bool ZifyBool.
From GoCose Require Import Bytes Cbor CborProofs Res GoVal Fx Headers Enc HashEnv Key TbsProofs KeyProofs.
From GoCose.Gen Require Import Generated.
Import ListNotations.
Open Scope Z_scope.

(* keys as the constructors build them *)
Definition ec2_key (crv alg : Z) (cx cy : bytes) (od : gobytes) : key :=
  mkKey c_KeyTypeEC2 None alg None None
        (Some ([lbl c_KeyLabelEC2Curve; GInt KCurve crv] ++ opt_entry c_KeyLabelEC2X (Some cx) ++
               opt_entry c_KeyLabelEC2Y (Some cy) ++ opt_entry c_KeyLabelEC2D od)).

Definition okp_key (ox od : gobytes) : key :=
  mkKey c_KeyTypeOKP None c_AlgorithmEdDSA None None
        (Some ([lbl c_KeyLabelOKPCurve; GInt KCurve c_CurveEd25519] ++
               opt_entry c_KeyLabelOKPX ox ++ opt_entry c_KeyLabelOKPD od)).

(* the wire form: { 1: kty, 3: alg, -1: crv, -2: x, -3: y [, -4: d] }, keys in bytewise order *)
Definition wopt (l : Z) (b : gobytes) : list wire :=
  match b with None => [] | Some v => [WInt true W0 (-1 - l); tbstr v] end.

Definition alg_wire (alg : Z) : wire := WInt true (minw (-1 - alg)) (-1 - alg).

Definition ec2_wire (crv alg : Z) (cx cy : bytes) (od : gobytes) : wire :=
  let l := [WInt false W0 1; WInt false W0 2; WInt false W0 3; alg_wire alg; WInt true W0 0; WInt false W0 crv;
            WInt true W0 1; tbstr cx; WInt true W0 2; tbstr cy] ++ wopt (-4) od in
  WMap W0 l.

Definition okp_wire (ox od : gobytes) : wire :=
  let l := [WInt false W0 1; WInt false W0 1; WInt false W0 3; WInt true W0 7; WInt true W0 0; WInt false W0 6] ++
           wopt (-2) ox ++ wopt (-4) od in
  WMap W0 l.

Definition short_opt (o : gobytes) : Prop := match o with Some b => short b | None => True end.

Lemma lib_wf_ser tags w : wf w = true -> depth_ok tags w 0 = true -> lib_wf tags (ser w) = Some w.
Proof. intros Hw Hd. unfold lib_wf. rewrite parse_full_ser by auto. rewrite Hd. reflexivity. Qed.

(* evaluate the duplicate-label pass on the (concrete) labels with the virtual machine; the byte strings stay symbolic *)
Ltac eval_merge :=
  match goal with |- context [merge_params ?a ?b ?c] =>
    let r := eval vm_compute in (merge_params a b c) in
    replace (merge_params a b c) with r by (vm_compute; reflexivity) end.

Ltac finish_marshal HR :=
  cbn [k_type k_id k_alg k_ops k_baseiv kparams k_params hmap]; eval_merge;
  cbn -[enc]; cbn -[enc_bstr]; rewrite ?enc_bstr_ser; rewrite HR; clear HR.

(* ---------- EC2 ---------- *)
Lemma pad_to_id size b : len b = size -> pad_to size b = b.
Proof. intros H. unfold pad_to. rewrite H, Z.sub_diag. reflexivity. Qed.

(* MarshalCBOR: whatever length (1 .. field size) the stored coordinates have, x and y go out as byte strings of
   exactly the field size *)
Theorem ec2_key_marshal crv alg bits cx cy od :
  curve_triple crv alg bits -> 0 < len cx <= field_size bits -> 0 < len cy <= field_size bits ->
  key_marshal (ec2_key crv alg cx cy od) =
    Acc (ser (ec2_wire crv alg (pad_to (field_size bits) cx) (pad_to (field_size bits) cy) od)).
Proof.
  intros Ht Hx Hy.
  destruct Ht as [(-> & -> & ->)|[(-> & -> & ->)|(-> & -> & ->)]]; destruct od as [d|];
    change (field_size 256) with 32 in *; change (field_size 384) with 48 in *; change (field_size 521) with 66 in *;
    match goal with |- _ = Acc (ser (ec2_wire _ _ (pad_to ?S _) _ _)) =>
      remember (pad_to S cx) as PX eqn:EPX; remember (pad_to S cy) as PY eqn:EPY;
      assert (IX : len cx = S -> PX = cx) by (intros HH; subst PX; apply pad_to_id; exact HH);
      assert (IY : len cy = S -> PY = cy) by (intros HH; subst PY; apply pad_to_id; exact HH)
    end;
    match goal with |- _ = Acc ?r => remember r as R eqn:HR end;
    unfold key_marshal;
    match goal with |- context [key_x ?k] =>
      change (key_x k) with (Some cx); change (key_y k) with (Some cy);
      match goal with |- context [curve_size (key_crv k)] =>
        let sz := eval vm_compute in (curve_size (key_crv k)) in change (curve_size (key_crv k)) with sz end
    end;
    cbv beta iota; rewrite <- ?EPX, <- ?EPY;
    replace (0 <? len cx) with true by lia; replace (0 <? len cy) with true by lia; cbn [andb];
    match goal with |- context [len cx <? ?S] => destruct (Z.ltb_spec (len cx) S) as [Lx|Lx] end;
    match goal with |- context [len cy <? ?S] => destruct (Z.ltb_spec (len cy) S) as [Ly|Ly] end;
    try (rewrite (IX ltac:(lia)) in HR); try (rewrite (IY ltac:(lia)) in HR); clear IX IY EPX EPY;
    unfold ec2_key; cbn [k_type k_id k_alg k_ops k_baseiv kparams k_params hmap]; eval_merge;
    cbn -[enc]; cbn -[enc_bstr]; rewrite ?enc_bstr_ser; rewrite HR; clear HR;
    unfold ec2_wire, wopt;
    repeat match goal with |- context [tbstr ?b] => generalize (tbstr b); intro end; reflexivity.
Qed.

Theorem ec2_key_unmarshal crv alg bits cx cy od :
  curve_triple crv alg bits -> len cx = field_size bits -> len cy = field_size bits ->
  short cx -> short cy -> short_opt od ->
  match od with Some d => len d <= field_size bits | None => True end ->
  key_unmarshal (ser (ec2_wire crv alg cx cy od)) = Acc (ec2_key crv alg cx cy od).
Proof.
  intros Ht Hx Hy Sx Sy Sd Ld. unfold key_unmarshal.
  assert (W : wf (ec2_wire crv alg cx cy od) = true).
  { destruct Ht as [(-> & -> & ->)|[(-> & -> & ->)|(-> & -> & ->)]]; destruct od as [d|];
      cbn [ec2_wire wopt app wf forallb length Nat.even]; rewrite ?tbstr_wf by auto; reflexivity. }
  assert (D : depth_ok true (ec2_wire crv alg cx cy od) 0 = true).
  { destruct Ht as [(-> & -> & ->)|[(-> & -> & ->)|(-> & -> & ->)]]; destruct od as [d|]; reflexivity. }
  rewrite (lib_wf_ser _ _ W D). clear W D.
  destruct Ht as [(-> & -> & ->)|[(-> & -> & ->)|(-> & -> & ->)]]; destruct od as [d|];
    change (field_size 256) with 32 in *; change (field_size 384) with 48 in *; change (field_size 521) with 66 in *;
    cbn -[key_validate];
    match goal with |- (let* _ := key_validate ?k 0 in _) = _ =>
      assert (V : key_validate k 0 = Acc tt)
        by (unfold key_validate, key_crv, key_x, key_y, key_d, param_int, param_bytes, decode_int, decode_bytes, kparams;
            cbn; rewrite ?Hx, ?Hy; cbn;
            repeat match goal with |- context [?a <? ?b] => destruct (Z.ltb_spec a b); try lia end; reflexivity);
      rewrite V end; reflexivity.
Qed.

(* ---------- OKP (Ed25519) ---------- *)
Definition len_opt (n : Z) (o : gobytes) : Prop := match o with Some b => len b = n | None => True end.

Theorem okp_key_marshal ox od :
  key_marshal (okp_key ox od) = Acc (ser (okp_wire ox od)).
Proof.
  destruct ox as [x|]; destruct od as [d|];
    match goal with |- _ = Acc ?r => remember r as R eqn:HR end;
    unfold key_marshal, okp_key; cbn [k_type]; change (c_KeyTypeOKP =? c_KeyTypeEC2) with false; cbv beta iota;
    finish_marshal HR; unfold okp_wire, wopt;
    try (generalize (tbstr x); intros X); try (generalize (tbstr d); intros D); reflexivity.
Qed.

Theorem okp_key_unmarshal ox od :
  short_opt ox -> short_opt od -> len_opt 32 ox -> len_opt 32 od -> (ox <> None \/ od <> None) ->
  key_unmarshal (ser (okp_wire ox od)) = Acc (okp_key ox od).
Proof.
  intros Sx Sd Lx Ld Hne. unfold key_unmarshal.
  assert (W : wf (okp_wire ox od) = true).
  { destruct ox as [x|]; destruct od as [d|]; cbn [okp_wire wopt app wf forallb length Nat.even];
      cbn in Sx, Sd; rewrite ?tbstr_wf by auto; reflexivity. }
  assert (D : depth_ok true (okp_wire ox od) 0 = true).
  { destruct ox as [x|]; destruct od as [d|]; reflexivity. }
  rewrite (lib_wf_ser _ _ W D). clear W D.
  destruct ox as [x|]; destruct od as [d|]; cbn in Lx, Ld; try (destruct Hne as [Hne|Hne]; congruence);
    cbn -[key_validate];
    match goal with |- (let* _ := key_validate ?k 0 in _) = _ =>
      assert (V : key_validate k 0 = Acc tt)
        by (unfold key_validate, key_crv, key_x, key_y, key_d, param_int, param_bytes, decode_int, decode_bytes, kparams;
            cbn; rewrite ?Lx, ?Ld; reflexivity);
      rewrite V end; reflexivity.
Qed.

(* ---------- the whole conversion, Go key -> COSE_Key -> CBOR -> COSE_Key -> Go key ---------- *)
Lemma ec2_key_valid crv alg bits cx cy od op :
  curve_triple crv alg bits -> 0 < len cx <= field_size bits -> 0 < len cy <= field_size bits ->
  match od with Some d => 0 < len d <= field_size bits | None => op <> c_KeyOpSign end ->
  key_validate (ec2_key crv alg cx cy od) op = Acc tt.
Proof.
  intros Ht Hx Hy Hd.
  destruct Ht as [(-> & -> & ->)|[(-> & -> & ->)|(-> & -> & ->)]]; destruct od as [d|];
    change (field_size 256) with 32 in *; change (field_size 384) with 48 in *; change (field_size 521) with 66 in *;
    unfold key_validate, ec2_key, key_crv, key_x, key_y, key_d, param_int, param_bytes, decode_int, decode_bytes, kparams;
    cbn;
    repeat match goal with
           | |- context [?a <? ?b] => destruct (Z.ltb_spec a b); try lia
           | |- context [?a =? ?b] => destruct (Z.eqb_spec a b); try lia
           end; cbn; try reflexivity; try contradiction.
Qed.

Lemma triple_facts crv alg bits : curve_triple crv alg bits ->
  alg_from_curve bits = alg /\ tbl_lookup tbl_NewKeyEC2_curve alg = Some crv /\ (alg =? c_AlgorithmReserved) = false /\
  0 < field_size bits /\ bits_of_alg alg = bits /\ derive_lookup tbl_deriveAlgorithm c_KeyTypeEC2 crv = Some alg.
Proof. intros [(-> & -> & ->)|[(-> & -> & ->)|(-> & -> & ->)]]; repeat split; reflexivity. Qed.

Lemma size_small bits : supported_bits bits -> field_size bits < two64.
Proof. intros [->|[->| ->]]; reflexivity. Qed.

Lemma triple_bits crv alg bits : curve_triple crv alg bits -> supported_bits bits.
Proof. intros [(_ & _ & ->)|[(_ & _ & ->)|(_ & _ & ->)]]; cbv; auto. Qed.

Lemma pad_ok size b : bytes_ok b = true -> bytes_ok (pad_to size b) = true.
Proof.
  intros H. unfold pad_to. rewrite bytes_ok_app, H, andb_true_r.
  induction (Z.to_nat (size - len b)); cbn; auto.
Qed.

(* everything about a public EC2 key whose stored coordinates have any admissible length *)
Lemma ec2_public_cbor crv alg bits cx cy :
  curve_triple crv alg bits -> 0 < len cx <= field_size bits -> 0 < len cy <= field_size bits ->
  bytes_ok cx = true -> bytes_ok cy = true ->
  let px := pad_to (field_size bits) cx in let py := pad_to (field_size bits) cy in
  key_validate (ec2_key crv alg cx cy None) 0 = Acc tt /\
  key_marshal (ec2_key crv alg cx cy None) = Acc (ser (ec2_wire crv alg px py None)) /\
  len px = field_size bits /\ len py = field_size bits /\
  key_unmarshal (ser (ec2_wire crv alg px py None)) = Acc (ec2_key crv alg px py None) /\
  key_public (ec2_key crv alg cx cy None) = Acc (PubEC bits (be_dec cx) (be_dec cy)) /\
  key_public (ec2_key crv alg px py None) = Acc (PubEC bits (be_dec cx) (be_dec cy)).
Proof.
  intros Ht Lx Ly Ox Oy px py. pose proof (size_small _ (triple_bits _ _ _ Ht)) as Hsm.
  destruct (pad_to_spec (field_size bits) cx ltac:(lia)) as [Lpx Dpx].
  destruct (pad_to_spec (field_size bits) cy ltac:(lia)) as [Lpy Dpy]. fold px in Lpx, Dpx. fold py in Lpy, Dpy.
  split; [apply (ec2_key_valid crv alg bits); auto; cbv; discriminate|].
  split; [apply (ec2_key_marshal crv alg bits); auto|].
  split; [exact Lpx|]. split; [exact Lpy|].
  split.
  - apply (ec2_key_unmarshal crv alg bits); auto; try exact I; split; try lia; apply pad_ok; auto.
  - split.
    + destruct (ec2_public_key_converts crv alg bits cx cy Ht Lx Ly) as (_ & P & _). exact P.
    + destruct (ec2_public_key_converts crv alg bits px py Ht ltac:(lia) ltac:(lia)) as (_ & P & _).
      rewrite <- Dpx, <- Dpy. exact P.
Qed.

(* C14, public half, through the wire: every valid point of the three curves *)
Theorem go_public_key_cbor_roundtrip crv alg bits x y :
  curve_triple crv alg bits ->
  0 <= x < 256 ^ field_size bits -> 0 <= y < 256 ^ field_size bits ->
  exists k k' px py,
    new_key_from_public (PubEC bits x y) = Acc k /\
    key_marshal k = Acc (ser (ec2_wire crv alg px py None)) /\      (* x and y travel as bstr of ... *)
    len px = field_size bits /\ len py = field_size bits /\        (* ... exactly the field size *)
    be_dec px = x /\ be_dec py = y /\
    key_unmarshal (ser (ec2_wire crv alg px py None)) = Acc k' /\   (* parsing gives a COSE_Key ... *)
    key_public k' = Acc (PubEC bits x y) /\                          (* ... that converts back to the same Go key *)
    key_public k = Acc (PubEC bits x y).
Proof.
  intros Ht Hx Hy. destruct (triple_facts _ _ _ Ht) as (A1 & A2 & A3 & Hs & _ & _).
  destruct (ec_coord_spec x _ Hs Hx) as (Lx & Ox & Dx).
  destruct (ec_coord_spec y _ Hs Hy) as (Ly & Oy & Dy).
  assert (N : new_key_from_public (PubEC bits x y) =
              (let* _ := key_validate (ec2_key crv alg (ec_coord x (field_size bits)) (ec_coord y (field_size bits)) None) 0 in
               Acc (ec2_key crv alg (ec_coord x (field_size bits)) (ec_coord y (field_size bits)) None))).
  { unfold new_key_from_public. rewrite A1, A3. unfold new_key_ec2. rewrite A2. reflexivity. }
  revert N Lx Ox Dx Ly Oy Dy. generalize (ec_coord x (field_size bits)) (ec_coord y (field_size bits)).
  intros cx cy N Lx Ox Dx Ly Oy Dy.
  destruct (ec2_public_cbor crv alg bits cx cy Ht Lx Ly Ox Oy) as (V & M & Lpx & Lpy & U & P & P').
  destruct (pad_to_spec (field_size bits) cx ltac:(lia)) as [_ Dpx].
  destruct (pad_to_spec (field_size bits) cy ltac:(lia)) as [_ Dpy].
  exists (ec2_key crv alg cx cy None), (ec2_key crv alg (pad_to (field_size bits) cx) (pad_to (field_size bits) cy) None),
         (pad_to (field_size bits) cx), (pad_to (field_size bits) cy).
  rewrite V in N. rewrite Dx, Dy in P, P'.
  repeat (split; auto); congruence.
Qed.

(* the same with private material *)
Lemma ec2_private_cbor crv alg bits cx cy dd :
  curve_triple crv alg bits -> 0 < len cx <= field_size bits -> 0 < len cy <= field_size bits ->
  bytes_ok cx = true -> bytes_ok cy = true -> bytes_ok dd = true -> 0 < len dd <= field_size bits ->
  let px := pad_to (field_size bits) cx in let py := pad_to (field_size bits) cy in
  key_validate (ec2_key crv alg cx cy (Some dd)) 0 = Acc tt /\
  key_marshal (ec2_key crv alg cx cy (Some dd)) = Acc (ser (ec2_wire crv alg px py (Some dd))) /\
  len px = field_size bits /\ len py = field_size bits /\
  key_unmarshal (ser (ec2_wire crv alg px py (Some dd))) = Acc (ec2_key crv alg px py (Some dd)) /\
  (forall ax ay, 0 < len ax <= field_size bits -> 0 < len ay <= field_size bits ->
     key_private (ec2_key crv alg ax ay (Some dd)) = Acc (PrivEC bits (be_dec ax) (be_dec ay) (be_dec dd))).
Proof.
  intros Ht Lx Ly Ox Oy Od Ld px py. pose proof (size_small _ (triple_bits _ _ _ Ht)) as Hsm.
  destruct (pad_to_spec (field_size bits) cx ltac:(lia)) as [Lpx Dpx].
  destruct (pad_to_spec (field_size bits) cy ltac:(lia)) as [Lpy Dpy]. fold px in Lpx, Dpx. fold py in Lpy, Dpy.
  split; [apply (ec2_key_valid crv alg bits); auto|].
  split; [apply (ec2_key_marshal crv alg bits); auto|].
  split; [exact Lpx|]. split; [exact Lpy|].
  split.
  - apply (ec2_key_unmarshal crv alg bits); auto; try (split; try lia; try apply pad_ok; auto); lia.
  - intros ax ay Lax Lay. unfold key_private. rewrite (ec2_key_valid crv alg bits) by auto. cbn [bind].
    destruct (triple_facts _ _ _ Ht) as (_ & _ & _ & _ & B & Dl).
    unfold derive_alg. change (k_type (ec2_key crv alg ax ay (Some dd))) with c_KeyTypeEC2.
    replace (key_crv (ec2_key crv alg ax ay (Some dd))) with crv
      by (destruct Ht as [(-> & _)|[(-> & _)|(-> & _)]]; reflexivity).
    rewrite Dl. cbn [bind].
    replace ((alg =? c_AlgorithmES256) || (alg =? c_AlgorithmES384) || (alg =? c_AlgorithmES512)) with true
      by (destruct Ht as [(_ & -> & _)|[(_ & -> & _)|(_ & -> & _)]]; reflexivity).
    change (key_x (ec2_key crv alg ax ay (Some dd))) with (Some ax).
    change (key_y (ec2_key crv alg ax ay (Some dd))) with (Some ay).
    change (key_d (ec2_key crv alg ax ay (Some dd))) with (Some dd).
    cbn [glen gor]. rewrite B.
    replace (len ax =? 0) with false by lia. replace (len ay =? 0) with false by lia. reflexivity.
Qed.

Theorem go_private_key_cbor_roundtrip crv alg bits x y d :
  curve_triple crv alg bits ->
  0 <= x < 256 ^ field_size bits -> 0 <= y < 256 ^ field_size bits -> 0 < d < 256 ^ field_size bits ->
  exists k k' px py dd,
    new_key_from_private (PrivEC bits x y d) = Acc k /\
    key_marshal k = Acc (ser (ec2_wire crv alg px py (Some dd))) /\
    len px = field_size bits /\ len py = field_size bits /\
    key_unmarshal (ser (ec2_wire crv alg px py (Some dd))) = Acc k' /\
    key_private k' = Acc (PrivEC bits x y d) /\ key_private k = Acc (PrivEC bits x y d).
Proof.
  intros Ht Hx Hy Hd. destruct (triple_facts _ _ _ Ht) as (A1 & A2 & A3 & Hs & _ & _).
  destruct (ec_coord_spec x _ Hs Hx) as (Lx & Ox & Dx).
  destruct (ec_coord_spec y _ Hs Hy) as (Ly & Oy & Dy).
  destruct (zbytes_spec d ltac:(lia)) as (Od & Dd & Pd & Bd). specialize (Bd (field_size bits) ltac:(lia) ltac:(lia)).
  assert (N : new_key_from_private (PrivEC bits x y d) =
              (let* _ := key_validate (ec2_key crv alg (ec_coord x (field_size bits)) (ec_coord y (field_size bits)) (Some (zbytes d))) 0 in
               Acc (ec2_key crv alg (ec_coord x (field_size bits)) (ec_coord y (field_size bits)) (Some (zbytes d))))).
  { unfold new_key_from_private. rewrite A1, A3. unfold new_key_ec2. rewrite A2. reflexivity. }
  revert N Lx Ox Dx Ly Oy Dy Od Dd Pd Bd.
  generalize (ec_coord x (field_size bits)) (ec_coord y (field_size bits)) (zbytes d).
  intros cx cy dd N Lx Ox Dx Ly Oy Dy Od Dd Pd Bd.
  destruct (ec2_private_cbor crv alg bits cx cy dd Ht Lx Ly Ox Oy Od ltac:(lia)) as (V & M & Lpx & Lpy & U & P).
  destruct (pad_to_spec (field_size bits) cx ltac:(lia)) as [_ Dpx].
  destruct (pad_to_spec (field_size bits) cy ltac:(lia)) as [_ Dpy].
  exists (ec2_key crv alg cx cy (Some dd)), (ec2_key crv alg (pad_to (field_size bits) cx) (pad_to (field_size bits) cy) (Some dd)),
         (pad_to (field_size bits) cx), (pad_to (field_size bits) cy), dd.
  rewrite V in N.
  repeat (split; auto).
  - cbv zeta in Lpx, Lpy.
    rewrite (P (pad_to (field_size bits) cx) (pad_to (field_size bits) cy)) by (rewrite ?Lpx, ?Lpy; lia).
    rewrite Dpx, Dpy, Dx, Dy, Dd. reflexivity.
  - rewrite (P _ _ Lx Ly), Dx, Dy, Dd. reflexivity.
Qed.

(* Ed25519: private key = seed ++ public key, 64 bytes *)
Theorem go_ed25519_key_cbor_roundtrip sk :
  length sk = 64%nat -> bytes_ok sk = true ->
  exists k,
    new_key_from_private (PrivEd sk) = Acc k /\
    key_marshal k = Acc (ser (okp_wire (Some (skipn 32 sk)) (Some (firstn 32 sk)))) /\
    key_unmarshal (ser (okp_wire (Some (skipn 32 sk)) (Some (firstn 32 sk)))) = Acc k /\
    key_private k = Acc (PrivEd sk) /\ key_public k = Acc (PubEd (skipn 32 sk)).
Proof.
  intros Hl Ho.
  assert (Lx : len (skipn 32 sk) = 32) by (unfold len; rewrite skipn_length, Hl; reflexivity).
  assert (Ld : len (firstn 32 sk) = 32) by (unfold len; rewrite firstn_length, Hl; reflexivity).
  pose proof (bytes_ok_skipn 32 sk Ho) as Ox. pose proof (bytes_ok_firstn 32 sk Ho) as Od.
  assert (E : firstn 32 sk ++ skipn 32 sk = sk) by apply firstn_skipn.
  unfold new_key_from_private.
  revert Lx Ld Ox Od E. generalize (skipn 32 sk) (firstn 32 sk). intros x d Lx Ld Ox Od E.
  assert (V : forall op, key_validate (okp_key (Some x) (Some d)) op = Acc tt).
  { intros op. unfold key_validate, okp_key, key_crv, key_x, key_y, key_d, param_int, param_bytes, decode_int, decode_bytes, kparams.
    cbn. rewrite Lx, Ld. cbn. rewrite !andb_false_r. reflexivity. }
  exists (okp_key (Some x) (Some d)).
  split; [unfold new_key_okp; cbn [negb Z.eqb c_AlgorithmEdDSA Pos.eqb];
          change (mkKey c_KeyTypeOKP None c_AlgorithmEdDSA None None _) with (okp_key (Some x) (Some d)); rewrite V; reflexivity|].
  split; [apply okp_key_marshal|].
  split; [apply okp_key_unmarshal; cbn; auto; try (split; auto; rewrite ?Lx, ?Ld; reflexivity); left; discriminate|].
  assert (F : forall l, len l = 32 -> firstn 32 (l ++ repeat 0 32) = l).
  { intros l H. replace 32%nat with (length l + 0)%nat at 1 by (unfold len in H; lia).
    rewrite firstn_app_2. cbn. apply app_nil_r. }
  split.
  - unfold key_private. rewrite V. cbn [bind]. unfold derive_alg.
    change (derive_lookup tbl_deriveAlgorithm (k_type (okp_key (Some x) (Some d))) (key_crv (okp_key (Some x) (Some d)))) with (Some c_AlgorithmEdDSA).
    cbn [bind]. change (key_x (okp_key (Some x) (Some d))) with (Some x). change (key_d (okp_key (Some x) (Some d))) with (Some d).
    cbn [glen gor]. rewrite Lx.
    change ((c_AlgorithmEdDSA =? c_AlgorithmES256) || (c_AlgorithmEdDSA =? c_AlgorithmES384) || (c_AlgorithmEdDSA =? c_AlgorithmES512)) with false.
    change (c_AlgorithmEdDSA =? c_AlgorithmEdDSA) with true. change (32 =? 0) with false. cbv iota.
    rewrite (F x Lx), (F d Ld), E. reflexivity.
  - unfold key_public. rewrite V. cbn [bind]. unfold derive_alg.
    change (derive_lookup tbl_deriveAlgorithm (k_type (okp_key (Some x) (Some d))) (key_crv (okp_key (Some x) (Some d)))) with (Some c_AlgorithmEdDSA).
    reflexivity.
Qed.

(* the premises are satisfiable and the statement is about real bytes: P-256, x = 1, y = 2 *)
Example key_cbor_example :
  new_key_from_public (PubEC 256 1 2) = Acc (ec2_key 1 (-7) [1] [2] None) /\
  key_marshal (ec2_key 1 (-7) [1] [2] None) =
    Acc (x "a5010203262001215820" ++ repeat 0 31 ++ [1] ++ x "225820" ++ repeat 0 31 ++ [2]) /\
  new_key_from_public (PubEC 256 0 2) = Acc (ec2_key 1 (-7) (repeat 0 32) [2] None).
Proof. repeat split; vm_compute; reflexivity. Qed.
