(* DecProofs.v — what the decoders accept (C05), what re-encoding an accepted
   message yields (C09), decode histories (C19). *)
From Coq Require Import Ascii String ZArith List Lia Bool Arith ZifyBool.
From GoCose Require Import Bytes Cbor CborProofs Res GoVal Obs Fx Headers Enc Dec Msg Run TbsProofs FlowProofs.
From GoCose.Gen Require Import Generated.
Import ListNotations.
Open Scope Z_scope.

(* ---------- tags are forbidden in the envelope ---------- *)
Lemma depth_ok_notags : forall x d, depth_ok false x d = true -> notags x = true.
Proof.
  induction x using wire_ind'; intros d Hd; cbn [depth_ok notags] in *; auto.
  - apply andb_true_iff in Hd as [_ Hd]. revert Hd. induction H as [|y l Hy Hl IH]; cbn; auto.
    intros Hd. apply andb_true_iff in Hd as [H1 H2]. rewrite (Hy _ H1). cbn. apply IH. exact H2.
  - apply andb_true_iff in Hd as [_ Hd]. revert Hd. induction H as [|y l Hy Hl IH]; cbn; auto.
    intros Hd. apply andb_true_iff in Hd as [H1 H2]. rewrite (Hy _ H1). cbn. apply IH. exact H2.
Qed.

Lemma lib_wf_inv tags b x : lib_wf tags b = Some x -> b = ser x /\ wf x = true /\ depth_ok tags x 0 = true.
Proof.
  unfold lib_wf. destruct (parse_full b) as [w|] eqn:P; [|discriminate].
  destruct (depth_ok tags w 0) eqn:D; [|discriminate]. intros H; inversion H; subst.
  apply parse_full_inv in P as [-> Hw]. auto.
Qed.

(* ---------- byteString ---------- *)
Lemma bstr_or_nil_inv x r : bstr_or_nil x = Acc r ->
  (x = WSim W0 22 /\ r = None) \/ (exists w b, x = WStr false w b /\ r = Some b).
Proof.
  destruct x; cbn; try discriminate.
  - destruct text; try discriminate. intros H; inversion H; subst. right. eauto.
  - destruct w; try discriminate. destruct v as [|v|v]; try discriminate.
    do 5 (destruct v as [v|v|]; try discriminate). intros H; inversion H. left. auto.
Qed.

(* ---------- headers of an accepted layer ---------- *)
(* the protected bucket is a bstr that is empty or wraps exactly one map (within
   the library limits, tags allowed inside, labels int/tstr, unique, 3.1 rules) *)
Definition protected_wellformed (p : wire) (pm : list gv) : Prop :=
  exists w c, p = WStr false w c /\
    ((c = [] /\ pm = []) \/
     exists wm l ks vs, lib_wf true c = Some (WMap wm l) /\ labels_pass l = Acc ks /\ keys_nodup ks = true /\
                        values_pass l = Acc vs /\ validate_params (zip_flat ks vs) true = true /\
                        pm = cast_alg (zip_flat ks vs)).

Lemma dec_protected_inv p pm : dec_protected p = Acc pm -> protected_wellformed p pm.
Proof.
  unfold dec_protected. destruct p; try discriminate. destruct text; try discriminate.
  destruct b as [|a rest].
  - intros H; inversion H; subst. exists w, []. split; auto.
  - destruct (negb (a / 32 =? 5)); [discriminate|].
    destruct (lib_wf true (a :: rest)) as [x|] eqn:L; [|discriminate].
    destruct x; try discriminate.
    destruct (labels_pass l) as [ks| | |] eqn:LP; cbn [bind]; try discriminate.
    destruct (keys_nodup ks) eqn:ND; cbn [negb]; [|discriminate].
    destruct (values_pass l) as [vs| | |] eqn:VP; cbn [bind]; try discriminate.
    destruct (validate_params (zip_flat ks vs) true) eqn:V; [|discriminate].
    intros H; inversion H; subst. exists w, (a :: rest). split; auto. right.
    exists w0, l, ks, vs. repeat split; auto.
Qed.

Definition unprotected_is_map (u : wire) : Prop := exists w l, u = WMap w l.

Lemma dec_unprotected_is_map f u um : dec_unprotected f u = Acc um -> unprotected_is_map u /\ validate_params um false = true.
Proof.
  destruct f as [|f]; [discriminate|]. cbn [dec_unprotected].
  destruct u; try discriminate.
  destruct (labels_pass l) as [ks| | |]; cbn [bind]; try discriminate.
  destruct (keys_nodup ks); cbn [negb]; [|discriminate].
  match goal with |- context [bind ?X _] => destruct X as [vs| | |] end; cbn [bind]; try discriminate.
  destruct (validate_params (zip_flat ks vs) false) eqn:V; [|discriminate].
  intros H; inversion H; subst. split; [exists w, l; reflexivity|exact V].
Qed.

Lemma dec_headers_inv p u h :
  dec_headers p u = Acc h ->
  exists pm um,
    h = mkH (Some (ser p)) (Some pm) (Some (ser u)) (Some um) /\
    protected_wellformed p pm /\ unprotected_is_map u /\ validate_params um false = true /\
    ensure_iv h = true.
Proof.
  unfold dec_headers. destruct (dec_protected p) as [pm| | |] eqn:P; cbn [bind]; try discriminate.
  destruct (dec_unprotected csig_fuel u) as [um| | |] eqn:U; cbn [bind]; try discriminate.
  destruct (ensure_iv _) eqn:IV; [|discriminate]. intros H; inversion H; subst.
  destruct (dec_unprotected_is_map _ _ _ U) as [Hm Hv].
  exists pm, um. repeat split; auto using dec_protected_inv.
Qed.

(* ---------- COSE_Sign1 (C05) ---------- *)
Lemma has_prefix_2 a b data : has_prefix [a; b] data = true -> exists rest, data = a :: b :: rest.
Proof.
  destruct data as [|x [|y rest]]; cbn; try discriminate.
  - rewrite andb_false_r. discriminate.
  - intros H. apply andb_true_iff in H as [H1 H2]. apply andb_true_iff in H2 as [H2 _].
    exists rest. f_equal; [lia|f_equal; lia].
Qed.

Lemma dec_sign1_arr_inv x m :
  dec_sign1_arr x = Acc m ->
  exists p u pl sg, x = WArr W0 [p; u; pl; sg] /\
    bstr_or_nil pl = Acc (s1_payload m) /\ bstr_or_nil sg = Acc (s1_sig m) /\ glen (s1_sig m) <> 0 /\
    dec_headers p u = Acc (s1_h m).
Proof.
  unfold dec_sign1_arr. destruct x; try discriminate. destruct w; try discriminate.
  destruct l as [|p [|u [|pl [|sg [|? ?]]]]]; try discriminate.
  destruct (bstr_or_nil pl) as [payload| | |] eqn:B1; cbn [bind]; try discriminate.
  destruct (bstr_or_nil sg) as [sig| | |] eqn:B2; cbn [bind]; try discriminate.
  destruct (glen sig =? 0) eqn:G; [discriminate|].
  destruct (dec_headers p u) as [h| | |] eqn:H; cbn [bind]; try discriminate.
  intros E; inversion E; subst. exists p, u, pl, sg. cbn. repeat split; auto. lia.
Qed.

(* An accepted byte string is exactly: tag 18, a definite-length 4-array with a
   one-byte head, nothing after it; no tag anywhere inside; payload bstr or nil;
   signature a non-empty bstr; protected a bstr that is empty or wraps one map;
   unprotected a map; both buckets pass the parameter rules; IV/Partial IV not split. *)
Theorem unmarshal_sign1_wellformed data m :
  unmarshal_sign1 data = Acc m ->
  exists p u pl sg,
    data = 210 :: ser (WArr W0 [p; u; pl; sg]) /\
    wf (WArr W0 [p; u; pl; sg]) = true /\
    notags (WArr W0 [p; u; pl; sg]) = true /\
    depth_ok false (WArr W0 [p; u; pl; sg]) 0 = true /\
    bstr_or_nil pl = Acc (s1_payload m) /\
    (exists w b, sg = WStr false w b /\ s1_sig m = Some b /\ b <> []) /\
    exists pm um, s1_h m = mkH (Some (ser p)) (Some pm) (Some (ser u)) (Some um) /\
                  protected_wellformed p pm /\ unprotected_is_map u /\
                  validate_params um false = true /\ ensure_iv (s1_h m) = true.
Proof.
  unfold unmarshal_sign1. destruct (has_prefix v_sign1MessagePrefix data) eqn:HP; cbn [negb]; [|discriminate].
  apply has_prefix_2 in HP as [rest ->]. cbn [tl].
  destruct (lib_wf false (132 :: rest)) as [x|] eqn:L; [|discriminate].
  intros H. apply lib_wf_inv in L as (E & Hwf & Hd).
  apply dec_sign1_arr_inv in H as (p & u & pl & sg & -> & B1 & B2 & G & Hh).
  exists p, u, pl, sg. rewrite E. split; [reflexivity|]. split; auto.
  split; [eapply depth_ok_notags; eauto|]. split; auto. split; auto. split.
  - apply bstr_or_nil_inv in B2 as [[-> Hn]|(w & b & -> & Hs)].
    + rewrite Hn in G. cbn in G. lia.
    + exists w, b. repeat split; auto. intros ->. rewrite Hs in G. cbn in G. lia.
  - apply dec_headers_inv in Hh as (pm & um & Hh & Hp & Hu & Hv & Hiv).
    exists pm, um. rewrite Hh in *. auto.
Qed.

Theorem unmarshal_sign1_untagged_wellformed data m :
  unmarshal_sign1_untagged data = Acc m ->
  exists p u pl sg,
    data = ser (WArr W0 [p; u; pl; sg]) /\ wf (WArr W0 [p; u; pl; sg]) = true /\
    notags (WArr W0 [p; u; pl; sg]) = true /\
    bstr_or_nil pl = Acc (s1_payload m) /\ bstr_or_nil sg = Acc (s1_sig m) /\ glen (s1_sig m) <> 0 /\
    dec_headers p u = Acc (s1_h m).
Proof.
  unfold unmarshal_sign1_untagged. destruct data as [|a rest]; [discriminate|].
  destruct (negb (a =? nth 1 v_sign1MessagePrefix 0)); [discriminate|].
  destruct (lib_wf false (a :: rest)) as [x|] eqn:L; [|discriminate].
  intros H. apply lib_wf_inv in L as (E & Hwf & Hd).
  apply dec_sign1_arr_inv in H as (p & u & pl & sg & -> & B1 & B2 & G & Hh).
  exists p, u, pl, sg. rewrite E. repeat split; auto. eapply depth_ok_notags; eauto.
Qed.

(* COSE_Signature / COSE_Countersignature *)
Theorem unmarshal_signature_wellformed data s :
  unmarshal_signature data = Acc s ->
  exists p u sg,
    data = ser (WArr W0 [p; u; sg]) /\ wf (WArr W0 [p; u; sg]) = true /\
    notags (WArr W0 [p; u; sg]) = true /\
    bstr_or_nil sg = Acc (sg_sig s) /\ glen (sg_sig s) <> 0 /\ dec_headers p u = Acc (sg_h s).
Proof.
  unfold unmarshal_signature. destruct (has_prefix v_signaturePrefix data); cbn [negb]; [|discriminate].
  destruct (lib_wf false data) as [x|] eqn:L; [|discriminate].
  intros H. apply lib_wf_inv in L as (E & Hwf & Hd).
  unfold dec_signature_item, is_arr3 in H. destruct x; try discriminate. destruct w; try discriminate.
  destruct l as [|p [|u [|sg [|? ?]]]]; try discriminate.
  destruct (bstr_or_nil sg) as [sig| | |] eqn:B; cbn [bind] in H; try discriminate.
  destruct (glen sig =? 0) eqn:G; [discriminate|].
  destruct (dec_headers p u) as [h| | |] eqn:Hh; cbn [bind] in H; try discriminate.
  inversion H; subst. exists p, u, sg. split; [reflexivity|]. split; [exact Hwf|].
  split; [eapply depth_ok_notags; exact Hd|]. cbn [sg_sig sg_h]. repeat split; auto. lia.
Qed.

(* the four shapes are pairwise disjoint: no decoder accepts another kind's encoding *)
Theorem sign1_tagged_vs_untagged data m m' :
  unmarshal_sign1 data = Acc m -> unmarshal_sign1_untagged data = Acc m' -> False.
Proof.
  intros H1 H2. apply unmarshal_sign1_wellformed in H1 as (p & u & pl & sg & E & _).
  apply unmarshal_sign1_untagged_wellformed in H2 as (p' & u' & pl' & sg' & E' & _).
  rewrite E in E'. cbn in E'. discriminate.
Qed.

Theorem sign1_vs_signature data m s :
  unmarshal_sign1 data = Acc m -> unmarshal_signature data = Acc s -> False.
Proof.
  intros H1 H2. apply unmarshal_sign1_wellformed in H1 as (p & u & pl & sg & E & _).
  apply unmarshal_signature_wellformed in H2 as (p' & u' & sg' & E' & _).
  rewrite E in E'. cbn in E'. discriminate.
Qed.

Theorem untagged_vs_signature data m s :
  unmarshal_sign1_untagged data = Acc m -> unmarshal_signature data = Acc s -> False.
Proof.
  intros H1 H2. apply unmarshal_sign1_untagged_wellformed in H1 as (p & u & pl & sg & E & _).
  apply unmarshal_signature_wellformed in H2 as (p' & u' & sg' & E' & _).
  rewrite E in E'. cbn in E'. discriminate.
Qed.

Theorem signmsg_vs_others data m :
  unmarshal_signmsg data = Acc m ->
  (forall x, unmarshal_sign1 data <> Acc x) /\ (forall x, unmarshal_sign1_untagged data <> Acc x) /\
  (forall x, unmarshal_signature data <> Acc x).
Proof.
  unfold unmarshal_signmsg. destruct (has_prefix v_signMessagePrefix data) eqn:HP; cbn [negb]; [|discriminate].
  assert (Hd : exists rest, data = 216 :: rest).
  { unfold v_signMessagePrefix in HP. destruct data as [|a rest]; [discriminate|]. cbn [has_prefix] in HP.
    apply andb_true_iff in HP as [Ha _]. exists rest. f_equal. lia. }
  destruct Hd as [rest ->]. intros _.
  repeat split; intros x Hx.
  - apply unmarshal_sign1_wellformed in Hx as (? & ? & ? & ? & E & _). discriminate.
  - apply unmarshal_sign1_untagged_wellformed in Hx as (? & ? & ? & ? & E & _). cbn in E. discriminate.
  - apply unmarshal_signature_wellformed in Hx as (? & ? & ? & E & _). cbn in E. discriminate.
Qed.

(* ---------- re-encoding a decoded message (C09) ---------- *)
Lemma headers_marshal_decoded p u pm um :
  ensure_iv (mkH (Some (ser p)) (Some pm) (Some (ser u)) (Some um)) = true ->
  headers_marshal (mkH (Some (ser p)) (Some pm) (Some (ser u)) (Some um)) = Acc (ser p, ser u).
Proof.
  intros Hiv. unfold headers_marshal. rewrite Hiv. cbn [negb].
  unfold marshal_protected, marshal_unprotected. cbn [rawP rawU glen gor].
  pose proof (ser_nonempty p). pose proof (ser_nonempty u).
  replace (0 <? len (ser p)) with true by (unfold len; lia).
  replace (0 <? len (ser u)) with true by (unfold len; lia).
  reflexivity.
Qed.

(* the payload / signature fields with their heads rewritten to shortest form *)
Definition renorm_field (x : wire) : bytes :=
  match x with
  | WStr false _ b => enc_bstr b
  | _ => ser x
  end.

Lemma enc_gobytes_renorm pl r : bstr_or_nil pl = Acc r -> enc_gobytes r = renorm_field pl.
Proof.
  intros H. apply bstr_or_nil_inv in H as [[-> ->]|(w & b & -> & ->)]; reflexivity.
Qed.

(* Decoding and encoding again reproduces both header buckets byte for byte and
   changes at most the heads of payload and signature. *)
Theorem sign1_reencode data m :
  unmarshal_sign1 data = Acc m ->
  exists p u pl sg,
    data = 210 :: 132 :: ser p ++ ser u ++ ser pl ++ ser sg /\
    marshal_sign1 m = Acc (210 :: 132 :: ser p ++ ser u ++ renorm_field pl ++ renorm_field sg).
Proof.
  intros H. apply unmarshal_sign1_wellformed in H
    as (p & u & pl & sg & E & Hwf & _ & _ & B1 & (w & b & -> & Hs & Hb) & pm & um & Hh & _ & _ & _ & Hiv).
  exists p, u, pl, (WStr false w b). split.
  - rewrite E. cbn [ser flat_map]. rewrite app_nil_r. reflexivity.
  - unfold marshal_sign1, sign1_content. rewrite Hs.
    assert (G : glen (Some b) =? 0 = false).
    { cbn. destruct b; [contradiction|]. rewrite len_cons. pose proof (len_nonneg b). lia. }
    rewrite G. rewrite Hh in *. rewrite (headers_marshal_decoded _ _ _ _ Hiv). cbn [bind fst snd gor].
    rewrite (enc_gobytes_renorm _ _ B1). cbn [renorm_field]. reflexivity.
Qed.

(* deterministic input (payload and signature heads already shortest) is reproduced identically *)
Corollary sign1_reencode_canonical data m :
  unmarshal_sign1 data = Acc m ->
  exists p u pl sg,
    data = 210 :: 132 :: ser p ++ ser u ++ ser pl ++ ser sg /\
    (renorm_field pl = ser pl -> renorm_field sg = ser sg -> marshal_sign1 m = Acc data).
Proof.
  intros H. destruct (sign1_reencode data m H) as (p & u & pl & sg & E & M).
  exists p, u, pl, sg. split; auto. intros H1 H2. rewrite M, H1, H2, E. reflexivity.
Qed.

(* renorm_field is idempotent on what it produces: a second cycle changes nothing *)
Lemma renorm_field_shortest b : short b -> parse_full (enc_bstr b) = Some (tbstr b) /\ renorm_field (tbstr b) = enc_bstr b.
Proof. intros H. split; [apply parse_full_enc_bstr; auto|reflexivity]. Qed.

(* ---------- decode histories (C19) ---------- *)
(* In the model a decoder is a function of the input bytes alone: the value a
   history leaves in the destination is the decoding of the last accepted input. *)
Definition step_dest (k : deckind) (dest : ot) (data : bytes) : ot :=
  match dec_value k data with Acc v => v | _ => dest end.

Definition no_unm_panic (k : deckind) (datas : list bytes) : Prop :=
  Forall (fun d => dec_value k d <> Unm /\ dec_value k d <> Panic) datas.

Theorem run_seq_final k : forall datas dest vs,
  no_unm_panic k datas ->
  exists vs', run_seq k datas dest vs = OT "seq" [fold_left (step_dest k) datas dest; OT "verdicts" vs'].
Proof.
  induction datas as [|d datas IH]; intros dest vs Hn.
  - cbn. eexists. reflexivity.
  - inversion Hn as [|? ? [H1 H2] Hn']; subst. cbn [run_seq fold_left]. unfold step_dest at 2.
    destruct (dec_value k d) as [v|e| |]; try contradiction; apply IH; auto.
Qed.

(* a refused input leaves the destination as it was *)
Theorem history_atomic k dest data e : dec_value k data = Rej e -> step_dest k dest data = dest.
Proof. intros H. unfold step_dest. rewrite H. reflexivity. Qed.

(* an accepted input overwrites it with a value that does not depend on what was there *)
Theorem history_free k dest dest' data v :
  dec_value k data = Acc v -> step_dest k dest data = v /\ step_dest k dest' data = v.
Proof. intros H. unfold step_dest. rewrite H. auto. Qed.

(* hence after any history the destination equals a fresh decode of the last accepted input *)
Theorem history_last_accepted k : forall datas dest d v,
  dec_value k d = Acc v ->
  Forall (fun x => exists e, dec_value k x = Rej e) datas ->
  fold_left (step_dest k) (d :: datas) dest = v.
Proof.
  intros datas dest d v Hd Hr. cbn [fold_left]. unfold step_dest at 2. rewrite Hd.
  induction Hr as [|x l [e Hx] Hl IH]; cbn [fold_left]; auto.
  rewrite (history_atomic k v x e Hx). exact IH.
Qed.

(* ---------- the converse of C05 for COSE_Sign1 (C07): every spelling of a
   conforming message is accepted, whatever head widths the sender chose for
   payload, signature and the protected bstr, and the decoded fields are the
   sender's ---------- *)
Theorem sign1_conforming_accepted p u pl sg h payload b w :
  wf (WArr W0 [p; u; pl; sg]) = true ->
  depth_ok false (WArr W0 [p; u; pl; sg]) 0 = true ->       (* no tags, library limits *)
  bstr_or_nil pl = Acc payload ->                          (* payload: bstr (any head width) or nil *)
  sg = WStr false w b -> b <> [] ->                        (* signature: non-empty bstr, any head width *)
  dec_headers p u = Acc h ->                               (* both buckets conform *)
  unmarshal_sign1 (210 :: ser (WArr W0 [p; u; pl; sg])) = Acc (mkS1 h payload (Some b)) /\
  unmarshal_sign1_untagged (ser (WArr W0 [p; u; pl; sg])) = Acc (mkS1 h payload (Some b)).
Proof.
  intros Hwf Hd Hpl -> Hb Hh.
  assert (L : lib_wf false (ser (WArr W0 [p; u; pl; WStr false w b])) = Some (WArr W0 [p; u; pl; WStr false w b])).
  { unfold lib_wf. rewrite parse_full_ser by auto. rewrite Hd. reflexivity. }
  assert (A : dec_sign1_arr (WArr W0 [p; u; pl; WStr false w b]) = Acc (mkS1 h payload (Some b))).
  { unfold dec_sign1_arr. rewrite Hpl. cbn [bind bstr_or_nil].
    replace (glen (Some b) =? 0) with false.
    - rewrite Hh. reflexivity.
    - symmetry. cbn. destruct b; [contradiction|]. rewrite len_cons. pose proof (len_nonneg b). lia. }
  assert (S : ser (WArr W0 [p; u; pl; WStr false w b]) = 132 :: flat_map ser [p; u; pl; WStr false w b]) by reflexivity.
  split.
  - unfold unmarshal_sign1. rewrite S. cbn [v_sign1MessagePrefix has_prefix Z.eqb Pos.eqb andb negb tl].
    rewrite <- S, L. exact A.
  - unfold unmarshal_sign1_untagged. rewrite S. cbn [v_sign1MessagePrefix nth Z.eqb Pos.eqb negb].
    rewrite <- S, L. exact A.
Qed.

(* ... and what is then verified is the RFC structure over the sender's own protected bytes *)
Corollary sign1_conforming_verifies p u pl sg h payload b w ext vf c wp :
  wf (WArr W0 [p; u; pl; sg]) = true -> depth_ok false (WArr W0 [p; u; pl; sg]) 0 = true ->
  bstr_or_nil pl = Acc (Some payload) -> sg = WStr false w b -> b <> [] -> dec_headers p u = Acc h ->
  p = WStr false wp c ->
  ensure_verification_alg h (vf_alg vf) ext = Acc tt ->
  vf_run vf (ser (sig1_tree "Signature1" c (gor ext) payload)) (Some b) = Acc tt ->
  fst (sign1_verify (mkS1 h (Some payload) (Some b)) ext vf) = Acc tt.
Proof.
  intros Hwf Hd Hpl Hsg Hb Hh Hp Hg Hv.
  apply sign1_verify_iff. cbn [s1_payload s1_sig s1_h].
  split; [eauto|]. split; [cbn; destruct b; [contradiction|rewrite len_cons; pose proof (len_nonneg b); lia]|].
  split; auto.
  apply dec_headers_inv in Hh as (pm & um & -> & _).
  exists (ser (sig1_tree "Signature1" c (gor ext) payload)). split; auto.
  unfold tbs_sign1, marshal_protected. cbn [rawP glen gor].
  pose proof (ser_nonempty p). replace (0 <? len (ser p)) with true by (unfold len; lia). cbn [bind].
  subst p. cbn [wf forallb] in Hwf. apply andb_true_iff in Hwf as [_ Hwf]. apply andb_true_iff in Hwf as [Hwp _].
  cbn [wf] in Hwp. apply andb_true_iff in Hwp as [Hf Hok].
  rewrite det_bstr_any_width by auto. cbn [bind]. cbn [sig1_tree ser flat_map]. rewrite app_nil_r. reflexivity.
Qed.

(* ---------- COSE_Sign (C05) ---------- *)
Theorem unmarshal_signmsg_wellformed data m :
  unmarshal_signmsg data = Acc m ->
  exists p u pl ws items,
    data = 216 :: 98 :: ser (WArr W0 [p; u; pl; WArr ws items]) /\
    wf (WArr W0 [p; u; pl; WArr ws items]) = true /\
    notags (WArr W0 [p; u; pl; WArr ws items]) = true /\
    bstr_or_nil pl = Acc (sm_payload m) /\ items <> [] /\
    dec_headers p u = Acc (sm_h m) /\
    exists sigs, mapM dec_signature_item items = Acc sigs /\ sm_sigs m = map Some sigs.
Proof.
  unfold unmarshal_signmsg. destruct (has_prefix v_signMessagePrefix data) eqn:HP; cbn [negb]; [|discriminate].
  assert (Hd : exists rest, data = 216 :: 98 :: rest).
  { unfold v_signMessagePrefix in HP. destruct data as [|a [|b rest]]; try discriminate.
    - cbn in HP. rewrite andb_false_r in HP. discriminate.
    - cbn [has_prefix] in HP. apply andb_true_iff in HP as [Ha HP]. apply andb_true_iff in HP as [Hb _].
      exists rest. f_equal; [lia|f_equal; lia]. }
  destruct Hd as [rest ->]. cbn [tl].
  destruct (lib_wf false rest) as [x|] eqn:L; [|discriminate].
  apply lib_wf_inv in L as (E & Hwf & Hdp).
  destruct x; try discriminate. destruct w; try discriminate.
  destruct l as [|p [|u [|pl [|sgs [|? ?]]]]]; try discriminate.
  destruct (bstr_or_nil pl) as [payload| | |] eqn:B; cbn [bind]; try discriminate.
  destruct sgs as [| |ws items| | |wsim v]; cbn [bind]; try discriminate.
  - destruct items as [|i0 items']; [discriminate|].
    destruct (mapM dec_signature_item (i0 :: items')) as [sigs| | |] eqn:Ms; cbn [bind]; try discriminate.
    destruct (dec_headers p u) as [h| | |] eqn:Hh; cbn [bind]; try discriminate.
    intros H; inversion H; subst. exists p, u, pl, ws, (i0 :: items'). cbn [sm_payload sm_h sm_sigs].
    split; [reflexivity|]. split; auto. split; [eapply depth_ok_notags; eauto|]. split; auto.
    split; [discriminate|]. split; auto. exists sigs. auto.
  - destruct wsim; try discriminate. destruct v as [|v|v]; try discriminate.
    do 5 (destruct v as [v|v|]; try discriminate).
Qed.

(* ---------- re-encoding COSE_Signature / COSE_Countersignature (C09) ---------- *)
Theorem signature_reencode data s :
  unmarshal_signature data = Acc s ->
  exists p u sg,
    data = 131 :: ser p ++ ser u ++ ser sg /\
    marshal_signature s = Acc (131 :: ser p ++ ser u ++ renorm_field sg).
Proof.
  intros H. apply unmarshal_signature_wellformed in H as (p & u & sg & E & Hwf & _ & B & G & Hh).
  exists p, u, sg. split.
  - rewrite E. cbn [ser flat_map]. rewrite app_nil_r. reflexivity.
  - apply dec_headers_inv in Hh as (pm & um & Hh & _ & _ & _ & Hiv).
    unfold marshal_signature. replace (glen (sg_sig s) =? 0) with false by (symmetry; lia).
    rewrite Hh in *. rewrite (headers_marshal_decoded _ _ _ _ Hiv). cbn [bind fst snd].
    apply bstr_or_nil_inv in B as [[-> Hn]|(w & b & -> & Hs)].
    + rewrite Hn in G. cbn in G. lia.
    + rewrite Hs. reflexivity.
Qed.
