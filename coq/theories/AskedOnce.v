(* Who is asked, how often, about what - and what signing leaves in the holder.

   - a verifier of a COSE_Signature is asked at most once, about that signer's own Sig_structure and signature;
   - SignMessage.Verify asks the verifiers in order, each at most once and only about the signature at its own
     position, and asks nobody after the first refusal;
   - Sign / Countersign never write the retained protected or unprotected bytes of the holder, and change its
     decoded protected bucket only by inserting the signer's algorithm. *)
From Coq Require Import ZArith List Bool Lia.
From GoCose Require Import Bytes Cbor Res GoVal Obs Fx Headers Enc Dec Msg HashEnv FlowProofs.
Import ListNotations.
Open Scope Z_scope.

(* ---------------- one COSE_Signature ---------------- *)
Theorem signature_verify_asks_once : forall s vf bp pl ext,
  snd (signature_verify s vf bp pl ext) = [] \/
  exists t, tbs_signature (sg_h s) bp pl ext = Acc t /\
            snd (signature_verify s vf bp pl ext) = [(t, sg_sig s)] /\
            fst (signature_verify s vf bp pl ext) = vf_run vf t (sg_sig s).
Proof.
  intros s vf bp pl ext. unfold signature_verify.
  destruct pl as [pl|]; [|left; reflexivity].
  destruct (glen (sg_sig s) =? 0); [left; reflexivity|].
  destruct (negb (body_protected_ok bp)); [left; reflexivity|].
  destruct (ensure_verification_alg (sg_h s) (vf_alg vf) ext); try (left; reflexivity).
  destruct (tbs_signature (sg_h s) bp (Some pl) ext) as [t| | |] eqn:T; try (left; reflexivity).
  right. exists t. repeat split; reflexivity.
Qed.

Corollary signature_verify_calls_le1 : forall s vf bp pl ext,
  (length (snd (signature_verify s vf bp pl ext)) <= 1)%nat.
Proof.
  intros. destruct (signature_verify_asks_once s vf bp pl ext) as [E|[t [_ [E _]]]]; rewrite E; cbn; lia.
Qed.

(* a refusal that comes from the verifier was a refusal of this signer's own structure *)
Corollary signature_verify_accepts_only_own : forall s vf bp pl ext,
  fst (signature_verify s vf bp pl ext) = Acc tt ->
  exists t, tbs_signature (sg_h s) bp pl ext = Acc t /\ vf_run vf t (sg_sig s) = Acc tt.
Proof.
  intros s vf bp pl ext H. unfold signature_verify in H.
  destruct pl as [pl|]; [|discriminate].
  destruct (glen (sg_sig s) =? 0); [discriminate|].
  destruct (negb (body_protected_ok bp)); [discriminate|].
  destruct (ensure_verification_alg (sg_h s) (vf_alg vf) ext); try discriminate.
  destruct (tbs_signature (sg_h s) bp (Some pl) ext) as [t| | |] eqn:T; try discriminate.
  exists t. split; [reflexivity|exact H].
Qed.

(* ---------------- the loop of SignMessage.Verify ---------------- *)
Lemma verify_loop_cons : forall s rest vf vfs bp pl ext,
  verify_loop (Some s :: rest) (vf :: vfs) bp pl ext =
  match fst (signature_verify s vf bp pl ext) with
  | Acc _ => (fst (verify_loop rest vfs bp pl ext),
              snd (signature_verify s vf bp pl ext) ++ snd (verify_loop rest vfs bp pl ext))
  | r => (r, snd (signature_verify s vf bp pl ext))
  end.
Proof.
  intros. cbn [verify_loop].
  destruct (signature_verify s vf bp pl ext) as [r calls]. cbn [fst snd].
  destruct r; try reflexivity.
  destruct (verify_loop rest vfs bp pl ext) as [r' calls']. reflexivity.
Qed.

Theorem verify_loop_calls_own : forall bp pl ext sigs vfs c,
  In c (snd (verify_loop sigs vfs bp pl ext)) ->
  exists i s vf, nth_error sigs i = Some (Some s) /\ nth_error vfs i = Some vf /\
                 In c (snd (signature_verify s vf bp pl ext)).
Proof.
  intros bp pl ext. induction sigs as [|o sigs IH]; intros vfs c H.
  - destruct vfs; cbn in H; contradiction.
  - destruct o as [s|]; [|destruct vfs; cbn in H; contradiction].
    destruct vfs as [|vf vfs]; [cbn in H; contradiction|].
    rewrite verify_loop_cons in H.
    destruct (fst (signature_verify s vf bp pl ext)) eqn:F; cbn [snd] in H.
    + apply in_app_or in H. destruct H as [H|H].
      * exists 0%nat, s, vf. repeat split; assumption.
      * destruct (IH vfs c H) as [i [s' [vf' [A [B C]]]]].
        exists (S i), s', vf'. repeat split; assumption.
    + exists 0%nat, s, vf. repeat split; assumption.
    + exists 0%nat, s, vf. repeat split; assumption.
    + exists 0%nat, s, vf. repeat split; assumption.
Qed.

Theorem verify_loop_calls_count : forall bp pl ext sigs vfs,
  (length (snd (verify_loop sigs vfs bp pl ext)) <= length sigs)%nat.
Proof.
  intros bp pl ext. induction sigs as [|o sigs IH]; intros vfs.
  - destruct vfs; cbn; lia.
  - destruct o as [s|]; [|destruct vfs; cbn; lia].
    destruct vfs as [|vf vfs]; [cbn; lia|].
    rewrite verify_loop_cons.
    pose proof (signature_verify_calls_le1 s vf bp pl ext) as L1.
    destruct (fst (signature_verify s vf bp pl ext)); cbn [snd length].
    + rewrite app_length. specialize (IH vfs). lia.
    + lia.
    + lia.
    + lia.
Qed.

(* after the first position that does not verify nobody else is asked: the calls are those of the positions before
   it (all accepted) followed by the failing position's own *)
Theorem verify_loop_stops_at_refusal : forall bp pl ext pre vpre s vf post vpost,
  Forall2 (sig_ok bp pl ext) pre vpre ->
  fst (signature_verify s vf bp pl ext) <> Acc tt ->
  snd (verify_loop (pre ++ Some s :: post) (vpre ++ vf :: vpost) bp pl ext) =
  snd (verify_loop pre vpre bp pl ext) ++ snd (signature_verify s vf bp pl ext).
Proof.
  intros bp pl ext pre vpre s vf post vpost F. revert s vf post vpost.
  induction F as [|o v pre vpre [s0 [-> Hok]] F IH]; intros s vf post vpost Hbad.
  - cbn [app]. rewrite verify_loop_cons.
    destruct (fst (signature_verify s vf bp pl ext)) as [[]| | |] eqn:E; try reflexivity.
    exfalso. apply Hbad. reflexivity.
  - cbn [app]. rewrite !verify_loop_cons. rewrite Hok. cbn [snd].
    rewrite (IH s vf post vpost Hbad). rewrite app_assoc. reflexivity.
Qed.

(* the whole operation: never more questions than signatures, every question about the asked verifier's own position *)
Theorem signmsg_verify_calls : forall m ext vfs,
  (length (snd (signmsg_verify m ext vfs)) <= length (sm_sigs m))%nat /\
  forall c, In c (snd (signmsg_verify m ext vfs)) ->
    exists bp i s vf, marshal_protected (sm_h m) = Acc bp /\
      nth_error (sm_sigs m) i = Some (Some s) /\ nth_error vfs i = Some vf /\
      In c (snd (signature_verify s vf bp (sm_payload m) ext)).
Proof.
  intros m ext vfs. unfold signmsg_verify.
  destruct (sm_payload m) as [pl|] eqn:P; [|split; [cbn; lia|intros c []]].
  destruct (sm_sigs m) as [|o sigs] eqn:S; [split; [cbn; lia|intros c []]|].
  destruct (negb (Nat.eqb (length (o :: sigs)) (length vfs))); [split; [cbn; lia|intros c []]|].
  destruct (marshal_protected (sm_h m)) as [bp| | |] eqn:M; try (split; [cbn; lia|intros c []]).
  split.
  - apply verify_loop_calls_count.
  - intros c H. destruct (verify_loop_calls_own _ _ _ _ _ _ H) as [i [s [vf [A [B C]]]]].
    exists bp, i, s, vf. repeat split; assumption.
Qed.

(* ---------------- no algorithm named, no external data: nobody is asked ---------------- *)
Lemma ensure_verification_alg_absent : forall h alg,
  alg_of (hP h) = Rej EAlgNotFound -> ensure_verification_alg h alg None = Rej EAlgNotFound.
Proof. intros h alg A. unfold ensure_verification_alg. rewrite A. reflexivity. Qed.

Theorem sign1_verify_without_alg : forall m vf,
  alg_of (hP (s1_h m)) = Rej EAlgNotFound ->
  snd (sign1_verify m None vf) = [] /\ fst (sign1_verify m None vf) <> Acc tt.
Proof.
  intros m vf A. unfold sign1_verify.
  destruct (s1_payload m); [|split; [reflexivity|discriminate]].
  destruct (glen (s1_sig m) =? 0); [split; [reflexivity|discriminate]|].
  rewrite (ensure_verification_alg_absent _ _ A). split; [reflexivity|discriminate].
Qed.

(* VerifyHashEnvelope offers no external data: an envelope whose protected bucket names no algorithm is never
   returned and its verifier is never consulted, whatever algorithm the verifier is for *)
Theorem verify_he_without_alg : forall vf env m0,
  unmarshal_sign1 env = Acc m0 -> alg_of (hP (s1_h m0)) = Rej EAlgNotFound ->
  snd (verify_he vf env) = [] /\ forall m, fst (verify_he vf env) <> Acc m.
Proof.
  intros vf env m0 U A. unfold verify_he. rewrite U.
  destruct (negb (validate_he_headers (s1_h m0))); [split; [reflexivity|intros; discriminate]|].
  destruct (sign1_verify_without_alg m0 vf A) as [C R].
  destruct (sign1_verify m0 None vf) as [r calls]. cbn [fst snd] in C, R. subst calls.
  destruct r as [[]| | |]; try (split; [reflexivity|intros; discriminate]).
  exfalso. apply R. reflexivity.
Qed.

(* ---------------- what signing leaves in the holder ---------------- *)
Lemma ensure_signing_alg_keeps_raw : forall h alg ext h',
  ensure_signing_alg h alg ext = Acc h' ->
  rawP h' = rawP h /\ rawU h' = rawU h /\ hU h' = hU h /\
  (hP h' = hP h \/ (rawP h = None /\ hP h' = Some (set_alg (hmap (hP h)) alg))).
Proof.
  intros h alg ext h' H. unfold ensure_signing_alg in H.
  destruct (alg_of (hP h)) as [cand|e| |].
  - destruct (cand =? alg); inversion H; subst. repeat split; auto.
  - destruct e; try discriminate.
    destruct (0 <? glen ext).
    + inversion H; subst. repeat split; auto.
    + destruct (rawP h) eqn:R; [discriminate|].
      inversion H; subst. cbn. repeat split; auto.
  - discriminate.
  - discriminate.
Qed.

Theorem csig_sign_keeps_holder : forall s sg target ext,
  let o := csig_sign s sg target ext in
  rawP (sg_h (out_post o)) = rawP (sg_h s) /\
  rawU (sg_h (out_post o)) = rawU (sg_h s) /\
  hU (sg_h (out_post o)) = hU (sg_h s) /\
  (hP (sg_h (out_post o)) = hP (sg_h s) \/
   (rawP (sg_h s) = None /\ hP (sg_h (out_post o)) = Some (set_alg (hmap (hP (sg_h s))) (sg_alg sg)))).
Proof.
  intros s sg target ext. cbv zeta. unfold csig_sign.
  assert (Same : rawP (sg_h s) = rawP (sg_h s) /\ rawU (sg_h s) = rawU (sg_h s) /\ hU (sg_h s) = hU (sg_h s) /\
                 (hP (sg_h s) = hP (sg_h s) \/
                  (rawP (sg_h s) = None /\ hP (sg_h s) = Some (set_alg (hmap (hP (sg_h s))) (sg_alg sg)))))
    by (repeat split; auto).
  destruct (0 <? glen (sg_sig s)); [exact Same|].
  destruct (ensure_signing_alg (sg_h s) (sg_alg sg) ext) as [h'| | |] eqn:E; try exact Same.
  apply ensure_signing_alg_keeps_raw in E.
  destruct (csig_tbs (mkSig h' (sg_sig s)) target ext) as [t| | |]; try exact E.
  destruct (sg_run sg t); exact E.
Qed.

Theorem signature_sign_keeps_holder : forall s sg bp pl ext,
  let o := signature_sign s sg bp pl ext in
  rawP (sg_h (out_post o)) = rawP (sg_h s) /\
  rawU (sg_h (out_post o)) = rawU (sg_h s) /\
  hU (sg_h (out_post o)) = hU (sg_h s) /\
  (hP (sg_h (out_post o)) = hP (sg_h s) \/
   (rawP (sg_h s) = None /\ hP (sg_h (out_post o)) = Some (set_alg (hmap (hP (sg_h s))) (sg_alg sg)))).
Proof.
  intros s sg bp pl ext. cbv zeta. unfold signature_sign.
  assert (Same : rawP (sg_h s) = rawP (sg_h s) /\ rawU (sg_h s) = rawU (sg_h s) /\ hU (sg_h s) = hU (sg_h s) /\
                 (hP (sg_h s) = hP (sg_h s) \/
                  (rawP (sg_h s) = None /\ hP (sg_h s) = Some (set_alg (hmap (hP (sg_h s))) (sg_alg sg)))))
    by (repeat split; auto).
  destruct pl as [pl|]; [|exact Same].
  destruct (0 <? glen (sg_sig s)); [exact Same|].
  destruct (negb (body_protected_ok bp)); [exact Same|].
  destruct (ensure_signing_alg (sg_h s) (sg_alg sg) ext) as [h'| | |] eqn:E; try exact Same.
  apply ensure_signing_alg_keeps_raw in E.
  destruct (tbs_signature h' bp (Some pl) ext) as [t| | |]; try exact E.
  destruct (sg_run sg t); exact E.
Qed.

(* a concrete holder: signed twice with an edit in between, the second structure is over the edited bucket *)
Example asked_once_example :
  let vf_bad := mkVerifier (-7) (fun _ _ => Rej EVerification) in
  let vf_ok := mkVerifier (-7) (fun _ _ => Acc tt) in
  let h := mkH None (Some [GInt KInt64 1; GInt KAlg (-7)]) None None in
  let s1 := mkSig h (Some [1]) in
  let s2 := mkSig h (Some [2]) in
  let r := verify_loop [Some s1; Some s2] [vf_bad; vf_ok] [64] (Some [112]) None in
  fst r = Rej EVerification /\ length (snd r) = 1%nat /\
  snd r = snd (signature_verify s1 vf_bad [64] (Some [112]) None).
Proof. vm_compute. repeat split. Qed.
