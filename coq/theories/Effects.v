(* Effects.v — the logical core of C18: read-only operations commute with every
   schedule; writes to distinct locations commute.  In the model every
   Verify / Marshal / VerifyHashEnvelope / Key.Verifier is a function of its
   arguments that returns no new state for them, and built-in signers carry no
   state.  What the model cannot exhibit (the Go memory model, hidden writes
   that leave the snapshot unchanged, races inside dependencies) is covered
   only by the harness built with the race detector. *)
From Coq Require Import ZArith List Lia Bool Arith Permutation.
From GoCose Require Import Bytes Res GoVal Headers Dec Msg HashEnv Key.
Import ListNotations.

Section Schedules.
  Variable state result : Type.
  (* the i-th operation of the workload is a read: its result is a function of the shared state *)
  Variable rd : nat -> state -> result.

  (* run a schedule (a list of operation ids, any interleaving of the threads' programs) *)
  Fixpoint exec (sched : list nat) (s : state) : state * list (nat * result) :=
    match sched with
    | [] => (s, [])
    | i :: r => let '(s', log) := exec r s in (s', (i, rd i s) :: log)
    end.

  (* whatever the schedule, the shared state is untouched and every operation
     returns what it returns when run alone on the initial state *)
  Theorem readonly_any_schedule sched s :
    fst (exec sched s) = s /\ Forall (fun p => snd p = rd (fst p) s) (snd (exec sched s)).
  Proof.
    induction sched as [|i r [IH1 IH2]]; cbn; [split; constructor|].
    destruct (exec r s) as [s' log]. cbn in *. split; auto.
  Qed.

  (* two schedules over the same operations give the same multiset of results *)
  Corollary readonly_schedules_agree sched sched' s :
    Permutation sched sched' -> Permutation (snd (exec sched s)) (snd (exec sched' s)).
  Proof.
    intros HP. induction HP as [|x l l' HP IH|x y l|l l' l'' H1 IH1 H2 IH2]; cbn.
    - constructor.
    - destruct (exec l s), (exec l' s). cbn in *. constructor; auto.
    - destruct (exec l s). cbn. apply perm_swap.
    - eapply perm_trans; eauto.
  Qed.
End Schedules.

Section Writes.
  (* a store of locations; concurrent Sign calls on distinct messages write distinct locations *)
  Variable value : Type.
  Definition store := nat -> value.
  Definition upd (l : nat) (v : value) (s : store) : store := fun x => if Nat.eqb x l then v else s x.

  Lemma upd_commute l1 v1 l2 v2 s x : l1 <> l2 -> upd l1 v1 (upd l2 v2 s) x = upd l2 v2 (upd l1 v1 s) x.
  Proof.
    intros H. unfold upd. destruct (Nat.eqb x l1) eqn:E1, (Nat.eqb x l2) eqn:E2; auto.
    apply Nat.eqb_eq in E1, E2. subst. contradiction.
  Qed.

  Definition apply_writes (ws : list (nat * value)) (s : store) : store :=
    fold_right (fun w acc => upd (fst w) (snd w) acc) s ws.

  Lemma apply_writes_other ws s x : ~ In x (map fst ws) -> apply_writes ws s x = s x.
  Proof.
    induction ws as [|[l v] ws IH]; cbn; auto. intros H. unfold upd at 1.
    destruct (Nat.eqb x l) eqn:E; [apply Nat.eqb_eq in E; subst; exfalso; apply H; left; auto|].
    apply IH. intros Hin. apply H. right; auto.
  Qed.

  (* writes to pairwise distinct locations: every order yields the same store *)
  Theorem disjoint_writes_any_order ws ws' s :
    NoDup (map fst ws) -> Permutation ws ws' -> forall x, apply_writes ws s x = apply_writes ws' s x.
  Proof.
    intros Hnd HP. induction HP as [|[l v] a b HP IH|[l1 v1] [l2 v2] a|a b c H1 IH1 H2 IH2]; intros x; cbn.
    - reflexivity.
    - cbn in Hnd. inversion Hnd; subst. unfold upd. destruct (Nat.eqb x l); auto. apply IH; auto.
    - cbn in Hnd. inversion Hnd as [|? ? Hn Hnd']; subst. apply upd_commute. intros ->. apply Hn. left; auto.
    - rewrite IH1 by auto. apply IH2. eapply Permutation_NoDup; [apply Permutation_map; exact H1|auto].
  Qed.
End Writes.

(* the model's read paths return no post-state for their arguments: their types say so *)
Definition verify_is_a_function := sign1_verify.
Definition marshal_is_a_function := marshal_sign1.
Definition verify_he_is_a_function := verify_he.
Definition key_verifier_is_a_function := key_verifier.
