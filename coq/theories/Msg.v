(* Msg.v — model of sign1.go, sign.go, countersign.go: to-be-signed builders,
   Sign / Verify flows, encoders.  Signers and verifiers are oracles: arbitrary
   functions, whose every call is recorded (content handed over). *)
From Coq Require Import Ascii String ZArith List Lia Bool.
From GoCose Require Import Bytes Cbor Res GoVal Fx Headers Enc Dec.
From GoCose.Gen Require Import Generated.
Import ListNotations.
Open Scope Z_scope.

(* what Signer.Sign returned: (sig, nil) / (nil, err) / (sig, err) *)
Inductive sigout := SOk (s : gobytes) | SErr | SErrWith (s : gobytes).
Record signer := mkSigner { sg_alg : Z; sg_run : bytes -> sigout }.
Record verifier := mkVerifier { vf_alg : Z; vf_run : bytes -> gobytes -> res unit }.

(* outcome of a signing call: verdict, post-state of the receiver, contents
   handed to the key (in order) *)
Record outcome (A : Type) := mkOut { out_res : res unit; out_post : A; out_calls : list bytes }.
Arguments mkOut {A}.
Arguments out_res {A}.
Arguments out_post {A}.
Arguments out_calls {A}.

Definition ctx (s : string) : bytes := enc_tstr (str_bytes s).

(* ---------------- COSE_Sign1 ---------------- *)
Definition tbs_sign1 (h : headers) (payload ext : gobytes) : res bytes :=
  let* prot := marshal_protected h in
  let* p := det_bstr prot in
  Acc (enc_head 4 tbs_sign1_arity ++ ctx tbs_sign1_context ++ p ++ enc_bstr (gor ext) ++ enc_bstr (gor payload)).

Definition sign1_sign (m : sign1) (ext : gobytes) (sg : signer) : outcome sign1 :=
  match s1_payload m with
  | None => mkOut (Rej EMissingPayload) m []
  | Some _ =>
    if 0 <? glen (s1_sig m) then mkOut (Rej EOther) m []
    else match ensure_signing_alg (s1_h m) (sg_alg sg) ext with
         | Acc h' =>
           let m' := mkS1 h' (s1_payload m) (s1_sig m) in
           match tbs_sign1 h' (s1_payload m) ext with
           | Acc t =>
             match sg_run sg t with
             | SOk s => mkOut (Acc tt) (mkS1 h' (s1_payload m) s) [t]
             | _ => mkOut (Rej ESigner) m' [t]
             end
           | Rej e => mkOut (Rej e) m' []
           | Panic => mkOut Panic m' []
           | Unm => mkOut Unm m' []
           end
         | Rej e => mkOut (Rej e) m []
         | Panic => mkOut Panic m []
         | Unm => mkOut Unm m []
         end
  end.

(* verdict and the (content, signature) pairs handed to the verifier *)
Definition sign1_verify (m : sign1) (ext : gobytes) (vf : verifier) : res unit * list (bytes * gobytes) :=
  match s1_payload m with
  | None => (Rej EMissingPayload, [])
  | Some _ =>
    if glen (s1_sig m) =? 0 then (Rej EEmptySig, [])
    else match ensure_verification_alg (s1_h m) (vf_alg vf) ext with
         | Acc _ =>
           match tbs_sign1 (s1_h m) (s1_payload m) ext with
           | Acc t => (vf_run vf t (s1_sig m), [(t, s1_sig m)])
           | Rej e => (Rej e, []) | Panic => (Panic, []) | Unm => (Unm, [])
           end
         | Rej e => (Rej e, []) | Panic => (Panic, []) | Unm => (Unm, [])
         end
  end.

Definition sign1_content (m : sign1) : res bytes :=
  if glen (s1_sig m) =? 0 then Rej EEmptySig
  else let* pu := headers_marshal (s1_h m) in
       Acc (enc_head 4 4 ++ fst pu ++ snd pu ++ enc_gobytes (s1_payload m) ++ enc_bstr (gor (s1_sig m))).

Definition marshal_sign1 (m : sign1) : res bytes :=
  let* c := sign1_content m in Acc (enc_head 6 c_CBORTagSign1Message ++ c).
Definition marshal_sign1_untagged (m : sign1) : res bytes := sign1_content m.

(* Sign1 / Sign1Untagged helpers: bytes, plus the post-state of the caller's
   Protected map (shared by reference when non-nil) *)
Definition helper_sign1 (tagged : bool) (h : headers) (payload ext : gobytes) (sg : signer)
  : res bytes * option (list gv) * list bytes :=
  let o := sign1_sign (mkS1 h payload None) ext sg in
  let callerP := match hP h with None => None | Some _ => hP (s1_h (out_post o)) end in
  match out_res o with
  | Acc _ => ((if tagged then marshal_sign1 (out_post o) else marshal_sign1_untagged (out_post o)), callerP, out_calls o)
  | Rej e => (Rej e, callerP, out_calls o)
  | Panic => (Panic, callerP, out_calls o)
  | Unm => (Unm, callerP, out_calls o)
  end.

(* ---------------- COSE_Signature ---------------- *)
Definition body_protected_ok (b : bytes) : bool :=
  match b with [] => false | a :: _ => a / 32 =? 2 end.

Definition tbs_signature (h : headers) (bodyprot : bytes) (payload ext : gobytes) : res bytes :=
  let* bp := det_bstr bodyprot in
  let* sp0 := marshal_protected h in
  let* sp := det_bstr sp0 in
  Acc (enc_head 4 tbs_signature_arity ++ ctx tbs_signature_context ++ bp ++ sp ++ enc_bstr (gor ext) ++ enc_bstr (gor payload)).

Definition signature_sign (s : sigv) (sg : signer) (bodyprot : bytes) (payload ext : gobytes) : outcome sigv :=
  match payload with
  | None => mkOut (Rej EMissingPayload) s []
  | Some _ =>
    if 0 <? glen (sg_sig s) then mkOut (Rej EOther) s []
    else if negb (body_protected_ok bodyprot) then mkOut (Rej EOther) s []
    else match ensure_signing_alg (sg_h s) (sg_alg sg) ext with
         | Acc h' =>
           let s' := mkSig h' (sg_sig s) in
           match tbs_signature h' bodyprot payload ext with
           | Acc t =>
             match sg_run sg t with
             | SOk sig => mkOut (Acc tt) (mkSig h' sig) [t]
             | _ => mkOut (Rej ESigner) s' [t]
             end
           | Rej e => mkOut (Rej e) s' [] | Panic => mkOut Panic s' [] | Unm => mkOut Unm s' []
           end
         | Rej e => mkOut (Rej e) s [] | Panic => mkOut Panic s [] | Unm => mkOut Unm s []
         end
  end.

Definition signature_verify (s : sigv) (vf : verifier) (bodyprot : bytes) (payload ext : gobytes)
  : res unit * list (bytes * gobytes) :=
  match payload with
  | None => (Rej EMissingPayload, [])
  | Some _ =>
    if glen (sg_sig s) =? 0 then (Rej EEmptySig, [])
    else if negb (body_protected_ok bodyprot) then (Rej EOther, [])
    else match ensure_verification_alg (sg_h s) (vf_alg vf) ext with
         | Acc _ =>
           match tbs_signature (sg_h s) bodyprot payload ext with
           | Acc t => (vf_run vf t (sg_sig s), [(t, sg_sig s)])
           | Rej e => (Rej e, []) | Panic => (Panic, []) | Unm => (Unm, [])
           end
         | Rej e => (Rej e, []) | Panic => (Panic, []) | Unm => (Unm, [])
         end
  end.

Definition marshal_signature (s : sigv) : res bytes :=
  if glen (sg_sig s) =? 0 then Rej EEmptySig
  else let* pu := headers_marshal (sg_h s) in
       Acc (enc_head 4 3 ++ fst pu ++ snd pu ++ enc_bstr (gor (sg_sig s))).

(* ---------------- COSE_Sign ---------------- *)
(* the per-signature loop of SignMessage.Sign: stops at the first error *)
Fixpoint sign_loop (sigs : list (option sigv)) (sgs : list signer) (bodyprot : bytes) (payload ext : gobytes)
  : res unit * list (option sigv) * list bytes :=
  match sigs, sgs with
  | [], _ => (Acc tt, [], [])
  | None :: _, _ => (Rej EOther, sigs, [])          (* nil *Signature: "signing nil Signature" *)
  | Some s :: rest, sg :: sgs' =>
      let o := signature_sign s sg bodyprot payload ext in
      match out_res o with
      | Acc _ =>
          let '(r, rest', calls) := sign_loop rest sgs' bodyprot payload ext in
          (r, Some (out_post o) :: rest', out_calls o ++ calls)
      | r => (r, Some (out_post o) :: rest, out_calls o)
      end
  | Some _ :: _, [] => (Panic, sigs, [])            (* unreachable: lengths are checked first *)
  end.

Definition signmsg_sign (m : signmsg) (ext : gobytes) (sgs : list signer) : outcome signmsg :=
  match sm_payload m with
  | None => mkOut (Rej EMissingPayload) m []
  | Some _ =>
    match sm_sigs m with
    | [] => mkOut (Rej ENoSigs) m []
    | _ =>
      if negb (Nat.eqb (length (sm_sigs m)) (length sgs)) then mkOut (Rej EOther) m []
      else match marshal_protected (sm_h m) with
           | Acc bp =>
             let '(r, sigs', calls) := sign_loop (sm_sigs m) sgs bp (sm_payload m) ext in
             mkOut r (mkSM (sm_h m) (sm_payload m) sigs') calls
           | Rej e => mkOut (Rej e) m [] | Panic => mkOut Panic m [] | Unm => mkOut Unm m []
           end
    end
  end.

Fixpoint verify_loop (sigs : list (option sigv)) (vfs : list verifier) (bodyprot : bytes) (payload ext : gobytes)
  : res unit * list (bytes * gobytes) :=
  match sigs, vfs with
  | [], _ => (Acc tt, [])
  | None :: _, _ => (Rej EOther, [])
  | Some s :: rest, vf :: vfs' =>
      let '(r, calls) := signature_verify s vf bodyprot payload ext in
      match r with
      | Acc _ => let '(r', calls') := verify_loop rest vfs' bodyprot payload ext in (r', calls ++ calls')
      | _ => (r, calls)
      end
  | Some _ :: _, [] => (Panic, [])
  end.

Definition signmsg_verify (m : signmsg) (ext : gobytes) (vfs : list verifier) : res unit * list (bytes * gobytes) :=
  match sm_payload m with
  | None => (Rej EMissingPayload, [])
  | Some _ =>
    match sm_sigs m with
    | [] => (Rej ENoSigs, [])
    | _ =>
      if negb (Nat.eqb (length (sm_sigs m)) (length vfs)) then (Rej EOther, [])
      else match marshal_protected (sm_h m) with
           | Acc bp => verify_loop (sm_sigs m) vfs bp (sm_payload m) ext
           | Rej e => (Rej e, []) | Panic => (Panic, []) | Unm => (Unm, [])
           end
    end
  end.

Definition marshal_opt_signature (s : option sigv) : res bytes :=
  match s with None => Rej EOther | Some s => marshal_signature s end.

Definition marshal_signmsg (m : signmsg) : res bytes :=
  match sm_sigs m with
  | [] => Rej ENoSigs
  | _ =>
    let* pu := headers_marshal (sm_h m) in
    let* ss := mapM marshal_opt_signature (sm_sigs m) in
    Acc (enc_head 6 c_CBORTagSignMessage ++ enc_head 4 4 ++ fst pu ++ snd pu ++ enc_gobytes (sm_payload m) ++
         enc_head 4 (len ss) ++ concat ss)
  end.

(* ---------------- countersignatures ---------------- *)
Inductive parent :=
| PSign1 (m : sign1)       (* Sign1Message or *Sign1Message *)
| PSignMsg (m : signmsg)   (* SignMessage or *SignMessage *)
| PSig (s : sigv)          (* Signature or *Signature *)
| PCsig (s : sigv)         (* Countersignature or *Countersignature *)
| POther.                  (* any other Go type *)

Definition countersign_tbs (abbreviated : bool) (target : parent) (signprot : bytes) (ext : gobytes) : res bytes :=
  let* parts :=
    match target with
    | PSignMsg t =>
        match sm_sigs t with
        | [] => Rej EOther
        | _ => let* bp := marshal_protected (sm_h t) in
               match sm_payload t with
               | None => Rej EMissingPayload
               | Some pl => Acc (bp, pl, @None bytes)
               end
        end
    | PSign1 t =>
        if glen (s1_sig t) =? 0 then Rej EOther
        else let* bp := marshal_protected (s1_h t) in
             match s1_payload t with
             | None => Rej EMissingPayload
             | Some pl => let* sg := det_bstr (enc_bstr (gor (s1_sig t))) in Acc (bp, pl, Some sg)
             end
    | PSig t | PCsig t =>
        let* bp := marshal_protected (sg_h t) in
        if glen (sg_sig t) =? 0 then Rej EOther else Acc (bp, gor (sg_sig t), @None bytes)
    | POther => Rej EOther
    end in
  let '(bodyprot, payload, other) := parts in
  let has_other := match other with Some _ => true | None => false end in
  let* bp := det_bstr bodyprot in
  let* sp := det_bstr signprot in
  Acc (enc_head 4 (tbs_countersign_arity + (if has_other then 1 else 0)) ++
       ctx (ctx_countersign abbreviated has_other) ++ bp ++ sp ++ enc_bstr (gor ext) ++ enc_bstr payload ++
       match other with Some sg => enc_head 4 1 ++ sg | None => [] end).

Definition csig_tbs (s : sigv) (target : parent) (ext : gobytes) : res bytes :=
  let* sp := marshal_protected (sg_h s) in countersign_tbs false target sp ext.

Definition csig_sign (s : sigv) (sg : signer) (target : parent) (ext : gobytes) : outcome sigv :=
  if 0 <? glen (sg_sig s) then mkOut (Rej EOther) s []
  else match ensure_signing_alg (sg_h s) (sg_alg sg) ext with
       | Acc h' =>
         let s' := mkSig h' (sg_sig s) in
         match csig_tbs s' target ext with
         | Acc t =>
           match sg_run sg t with
           | SOk sig => mkOut (Acc tt) (mkSig h' sig) [t]
           | _ => mkOut (Rej ESigner) s' [t]
           end
         | Rej e => mkOut (Rej e) s' [] | Panic => mkOut Panic s' [] | Unm => mkOut Unm s' []
         end
       | Rej e => mkOut (Rej e) s [] | Panic => mkOut Panic s [] | Unm => mkOut Unm s []
       end.

Definition csig_verify (s : sigv) (vf : verifier) (target : parent) (ext : gobytes)
  : res unit * list (bytes * gobytes) :=
  if glen (sg_sig s) =? 0 then (Rej EEmptySig, [])
  else match ensure_verification_alg (sg_h s) (vf_alg vf) ext with
       | Acc _ =>
         match csig_tbs s target ext with
         | Acc t => (vf_run vf t (sg_sig s), [(t, sg_sig s)])
         | Rej e => (Rej e, []) | Panic => (Panic, []) | Unm => (Unm, [])
         end
       | Rej e => (Rej e, []) | Panic => (Panic, []) | Unm => (Unm, [])
       end.

(* Countersign0 returns whatever the signer returned *)
Definition countersign0 (sg : signer) (target : parent) (ext : gobytes) : res gobytes * list bytes :=
  match countersign_tbs true target abbrev_sign_protected_Countersign0 ext with
  | Acc t =>
    match sg_run sg t with
    | SOk s => (Acc s, [t])
    | _ => (Rej ESigner, [t])
    end
  | Rej e => (Rej e, []) | Panic => (Panic, []) | Unm => (Unm, [])
  end.

Definition verify_countersign0 (vf : verifier) (target : parent) (ext sig : gobytes)
  : res unit * list (bytes * gobytes) :=
  match countersign_tbs true target abbrev_sign_protected_VerifyCountersign0 ext with
  | Acc t => (vf_run vf t sig, [(t, sig)])
  | Rej e => (Rej e, []) | Panic => (Panic, []) | Unm => (Unm, [])
  end.
