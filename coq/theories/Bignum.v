(* Big integers in header values (C09, cleared re-encoding; C08 decodability).

   A header value outside int64 is a big.Int in memory.  The protected bucket is encoded with BigIntConvertNone
   (tag 2 / tag 3 bignum: its content may carry tags), every other encoder with BigIntConvertShortest (a plain
   integer when it fits 64 bits: the message decoders forbid tags in the unprotected bucket).  The theorems say
   that in both buckets the re-encoding of every big integer the decoder can have produced decodes to the same
   big integer, and name the one range that does not (a caller-built positive value in [2^63, 2^64) outside the
   protected bucket: a data-model boundary, the decoder refuses plain integers above MaxInt64). *)
From Coq Require Import ZArith List Bool Lia.
From GoCose Require Import Bytes Cbor CborProofs Res GoVal Fx Headers Enc TbsProofs KeyProofs EncCanon EncDec.
Import ListNotations.
Open Scope Z_scope.

Definition big_wire_tag (n : Z) : wire :=
  if 0 <=? n then WTag W0 2 (tbstr (zbytes n)) else WTag W0 3 (tbstr (zbytes (-1 - n))).

Definition big_wire_int (n : Z) : wire :=
  if 0 <=? n then WInt false (minw n) n else WInt true (minw (-1 - n)) (-1 - n).

Lemma zbytes_nonneg_spec d : 0 <= d -> bytes_ok (zbytes d) = true /\ be_dec (zbytes d) = d.
Proof.
  intros H. destruct (Z.eq_dec d 0) as [->|Hn]; [split; reflexivity|].
  destruct (zbytes_spec d ltac:(lia)) as (A & B & _). auto.
Qed.

(* protected bucket: always a bignum, which decodes to the same big integer *)
Theorem big_protected_roundtrip n :
  len (zbytes (if 0 <=? n then n else -1 - n)) < two64 ->
  enc true (GBig n) = Acc (ser (big_wire_tag n)) /\ wf (big_wire_tag n) = true /\ canonical (big_wire_tag n) = true /\
  dec true (big_wire_tag n) = Acc (GBig n).
Proof.
  intros Hl. cbn [enc]. unfold enc_big, big_wire_tag. destruct (0 <=? n) eqn:E.
  - apply Z.leb_le in E. destruct (zbytes_nonneg_spec n E) as [Ok Bd].
    split; [reflexivity|]. split; [cbn [wf fits]; rewrite (tbstr_wf (zbytes n) (conj Ok Hl)); reflexivity|].
    split; [cbn; rewrite width_eqb_refl; reflexivity|]. cbn -[zbytes be_dec Z.sub]. rewrite Bd. reflexivity.
  - apply Z.leb_gt in E. destruct (zbytes_nonneg_spec (-1 - n) ltac:(lia)) as [Ok Bd].
    split; [reflexivity|]. split; [cbn [wf fits]; rewrite (tbstr_wf _ (conj Ok Hl)); reflexivity|].
    split; [cbn; rewrite width_eqb_refl; reflexivity|]. cbn -[zbytes be_dec Z.sub]. rewrite Bd. f_equal. f_equal. lia.
Qed.

(* every other bucket: a plain integer where 64 bits suffice; tag-free *)
Theorem big_unprotected_encoding n :
  - two64 <= n < two64 ->
  enc false (GBig n) = Acc (ser (big_wire_int n)) /\ good (big_wire_int n) /\ notags (big_wire_int n) = true.
Proof.
  intros H. cbn [enc]. unfold enc_big, big_wire_int. change (2 ^ 64) with two64. unfold two64 in *. destruct (0 <=? n) eqn:E.
  - apply Z.leb_le in E. replace (n <? 18446744073709551616) with true by (symmetry; apply Z.ltb_lt; lia). cbn [andb].
    split; [reflexivity|]. split; [|reflexivity]. split; cbn [wf canonical]; [apply minw_fits; unfold two64; lia|apply width_eqb_refl].
  - apply Z.leb_gt in E. cbn [andb]. replace (n <? 0) with true by (symmetry; apply Z.ltb_lt; lia).
    match goal with |- context [?a <=? n] => destruct (a <=? n) eqn:E2; [|apply Z.leb_gt in E2; lia] end. cbn [andb].
    split; [reflexivity|]. split; [|reflexivity]. split; cbn [wf canonical]; [apply minw_fits; unfold two64; lia|apply width_eqb_refl].
Qed.

(* what that plain integer decodes to: the same big integer below -2^63, an int64 in the int64 range, and a refusal for a
   positive value above MaxInt64 (which no tag-free input can have produced, see big_from_tagfree) *)
Theorem big_unprotected_decoding n :
  - two64 <= n < two64 ->
  (n < - 2 ^ 63 -> dec true (big_wire_int n) = Acc (GBig n)) /\
  (- 2 ^ 63 <= n <= maxint64 -> dec true (big_wire_int n) = Acc (GInt KInt64 n)) /\
  (maxint64 < n -> dec true (big_wire_int n) = Rej EOther).
Proof.
  intros H. unfold big_wire_int, maxint64, two64 in *. change (2 ^ 63) with 9223372036854775808.
  repeat split; intros Hn.
  - replace (0 <=? n) with false by (symmetry; apply Z.leb_gt; lia). cbn [dec]. unfold maxint64.
    replace (-1 - n <=? 9223372036854775807) with false by (symmetry; apply Z.leb_gt; lia). cbv iota. f_equal. f_equal. lia.
  - destruct (0 <=? n) eqn:E; cbn [dec]; unfold maxint64.
    + replace (n <=? 9223372036854775807) with true by (symmetry; apply Z.leb_le; lia). reflexivity.
    + apply Z.leb_gt in E. replace (-1 - n <=? 9223372036854775807) with true by (symmetry; apply Z.leb_le; lia).
      cbv iota. f_equal. f_equal. lia.
  - replace (0 <=? n) with true by (symmetry; apply Z.leb_le; lia). cbn [dec]. unfold maxint64.
    replace (n <=? 9223372036854775807) with false by (symmetry; apply Z.leb_gt; lia). reflexivity.
Qed.

(* a big integer decoded from a tag-free item (all the message decoders admit in the unprotected bucket) is a negative
   integer below -2^63 that fits 64 bits: exactly the range that big_unprotected_decoding maps back to itself *)
Theorem big_from_tagfree w n :
  wf w = true -> notags w = true -> dec true w = Acc (GBig n) -> - two64 <= n < - 2 ^ 63.
Proof.
  intros W N D. destruct w as [neg ww v|t ww b|ww l|ww l|ww t c|ww v]; cbn [notags] in N; try discriminate.
  - cbn [dec] in D. destruct neg.
    + destruct (v <=? maxint64) eqn:E; [discriminate|]. assert (Hn : n = -1 - v) by congruence. subst n. clear D. apply Z.leb_gt in E.
      cbn [wf] in W.
      assert (B : 0 <= v < two64).
      { destruct (fits_bound ww v W) as [B|[_ B]]; [|unfold two64; lia]. split; [lia|].
        apply Z.lt_le_trans with (1 := proj2 B). destruct ww; vm_compute; discriminate. }
      unfold maxint64, two64 in *. change (2 ^ 63) with 9223372036854775808. lia.
    + destruct (v <=? maxint64); discriminate.
  - cbn [dec] in D. destruct t; [destruct (utf8_valid b)|]; discriminate.
  - cbn [dec] in D. match type of D with (let* _ := ?X in _) = _ => destruct X; cbn [bind] in D; discriminate end.
  - cbn [dec] in D. match type of D with (let* _ := ?X in _) = _ => destruct X as [kvs| | |]; cbn [bind] in D; try discriminate end.
    destruct (keys_nodup (gkeys kvs)); discriminate.
  - cbn [dec] in D. destruct ww; try discriminate.
    destruct (v =? 20); [discriminate|]. destruct (v =? 21); [discriminate|]. destruct ((v =? 22) || (v =? 23)); discriminate.
Qed.

(* C09, the cleared re-encoding of a big integer is a fixed point in both buckets *)
Corollary big_reencode_fixed_point :
  (forall n, len (zbytes (if 0 <=? n then n else -1 - n)) < two64 ->
     exists w, enc true (GBig n) = Acc (ser w) /\ wf w = true /\ dec true w = Acc (GBig n)) /\
  (forall w n, wf w = true -> notags w = true -> dec true w = Acc (GBig n) ->
     exists w', enc false (GBig n) = Acc (ser w') /\ wf w' = true /\ notags w' = true /\ dec true w' = Acc (GBig n)).
Proof.
  split.
  - intros n Hl. destruct (big_protected_roundtrip n Hl) as (A & B & _ & D). eauto.
  - intros w n W N D. pose proof (big_from_tagfree w n W N D) as R.
    assert (R' : - two64 <= n < two64) by (unfold two64 in *; change (2 ^ 63) with 9223372036854775808 in R; lia).
    destruct (big_unprotected_encoding n R') as (A & [B _] & C). destruct (big_unprotected_decoding n R') as (D' & _ & _).
    exists (big_wire_int n). repeat split; auto. apply D'. lia.
Qed.

Example big_examples :
  enc true (GBig (2 ^ 63)) = Acc [194; 72; 128; 0; 0; 0; 0; 0; 0; 0] /\
  enc false (GBig (- 2 ^ 63 - 1)) = Acc [59; 128; 0; 0; 0; 0; 0; 0; 0] /\
  dec true (WInt true W8 (2 ^ 63)) = Acc (GBig (- 2 ^ 63 - 1)) /\
  enc true (GBig (- 2 ^ 63 - 1)) = Acc [195; 72; 128; 0; 0; 0; 0; 0; 0; 0].
Proof. repeat split; vm_compute; reflexivity. Qed.
Print Assumptions big_reencode_fixed_point.
