(* ProtectedHeader.UnmarshalCBOR re-types the decoded alg value (h[1] = Algorithm(alg)).  That cast changes neither the
   verdict of the validator nor the bytes the bucket encodes to; with ClearedForm this closes C09's last sentence for the
   protected bucket as UnmarshalCBOR really returns it. *)
From Coq Require Import ZArith List Bool Lia Permutation.
From GoCose Require Import Bytes Cbor CborProofs Res GoVal Fx Headers Enc Dec TbsProofs FlowProofs HdrProofs EncProofs EncCanon EncDec
  FixedPoint HdrRoundTrip WireLeg HeWire ClearedForm.
From GoCose.Gen Require Import Generated.
Import ListNotations.
Open Scope Z_scope.

Definition present (lab : gv) (h : list gv) : bool := match nlookup lab h with Some _ => true | None => false end.

Lemma forallb_ext' {A} (f g : A -> bool) l : (forall x, f x = g x) -> forallb f l = forallb g l.
Proof. intros H. induction l as [|x l IH]; cbn; [reflexivity|rewrite H, IH; reflexivity]. Qed.

(* the per-label rule looks at the rest of the bucket only through the presence of labels *)
Lemma check_param_present p w1 w2 k v :
  (forall lab, present lab w1 = present lab w2) -> check_param p w1 k v = check_param p w2 k v.
Proof.
  intros H. unfold check_param. destruct k as [kk n| | | | | | | | | | | | | | | |]; auto. destruct kk; auto.
  assert (HL : forall m, has_label w1 m = has_label w2 m) by (intros m; exact (H (lbl m))).
  assert (HC : ensure_critical v w1 = ensure_critical v w2).
  { unfold ensure_critical. destruct v; auto. f_equal. apply forallb_ext'. intros l0. f_equal. exact (H l0). }
  rewrite !HL, HC. reflexivity.
Qed.

Lemma nlookup_via_norm lab want h : normalize_label lab = Some want ->
  nlookup lab h = match glookup want h with Some v => Some v | None => nfind want h end.
Proof. intros N. unfold nlookup. rewrite N. reflexivity. Qed.

Lemma lbl_alg_norm : normalize_label (lbl c_HeaderLabelAlgorithm) = Some (lbl c_HeaderLabelAlgorithm).
Proof. reflexivity. Qed.

Lemma alg_present dl a : alg_of (Some dl) = Acc a -> exists v0, nlookup (lbl c_HeaderLabelAlgorithm) dl = Some v0 /\ alg_value true (Some v0) = Acc a.
Proof.
  unfold alg_of. cbn [hmap]. destruct (nlookup (lbl c_HeaderLabelAlgorithm) dl) as [v0|]; [eauto|discriminate].
Qed.

Lemma cast_alg_present dl lab : present lab (cast_alg dl) = present lab dl.
Proof.
  unfold cast_alg. destruct (alg_of (Some dl)) as [a| | |] eqn:A; try reflexivity.
  destruct (alg_present dl a A) as (v0 & L0 & _).
  unfold present. destruct (normalize_label lab) as [want|] eqn:N; [|unfold nlookup; rewrite N; reflexivity].
  pose proof (normalize_label_is_label _ _ N) as Lw.
  destruct (gv_eqb want (lbl c_HeaderLabelAlgorithm)) eqn:E.
  - assert (want = lbl c_HeaderLabelAlgorithm).
    { destruct Lw as [[n ->]|[s ->]]; cbn in E; try discriminate. unfold lbl. f_equal. apply Z.eqb_eq in E. exact E. }
    subst want. rewrite (nlookup_via_norm lab _ _ N), <- (nlookup_via_norm _ _ _ lbl_alg_norm), nlookup_set_alg.
    rewrite (nlookup_via_norm lab _ _ N), <- (nlookup_via_norm _ _ _ lbl_alg_norm), L0. reflexivity.
  - assert (Ne : want <> lbl c_HeaderLabelAlgorithm).
    { intros ->. cbn in E. discriminate. }
    assert (Ek : key_eqb want (lbl c_HeaderLabelAlgorithm) = false).
    { destruct (key_eqb want (lbl c_HeaderLabelAlgorithm)) eqn:K; auto. apply key_eqb_label_eq in K; auto. congruence. }
    rewrite !(nlookup_via_norm lab _ _ N). unfold set_alg.
    rewrite glookup_gset_other; [|exact Ek|].
    + assert (La : is_label (lbl c_HeaderLabelAlgorithm)) by (left; eexists; reflexivity).
      rewrite (nfind_gset_other want _ (GInt KAlg a) Lw La eq_refl Ne). reflexivity.
    + intros k Hk. apply key_eqb_label_eq in Hk; [|left; eexists; reflexivity]. subst k. exact Ek.
Qed.

(* keys *)
Lemma gset_gkeys key v : is_label key -> forall h, (exists x, entry_in key x h) -> gkeys (gset key v h) = gkeys h.
Proof.
  intros Lk. induction h as [| |k0 v0 r IH] using pair_ind; intros (x & Hx); try contradiction.
  cbn [gset]. destruct (key_eqb key k0) eqn:E; [reflexivity|]. cbn [gkeys]. f_equal. apply IH.
  destruct Hx as [[-> ->]|Hx]; [rewrite key_eqb_refl_label in E by exact Lk; discriminate|eauto].
Qed.

Lemma glookup_of_entry key : is_label key -> forall h x, entry_in key x h -> exists y, glookup key h = Some y.
Proof.
  intros Lk. induction h as [| |k0 v0 r IH] using pair_ind; intros x Hx; try contradiction.
  cbn [glookup]. destruct (key_eqb key k0) eqn:E; [eauto|].
  destruct Hx as [[-> ->]|Hx]; [rewrite key_eqb_refl_label in E by exact Lk; discriminate|eauto].
Qed.

Lemma glookup_entry key : forall h y, glookup key h = Some y -> exists k, entry_in k y h /\ key_eqb key k = true.
Proof.
  induction h as [| |k0 v0 r IH] using pair_ind; intros y H; try discriminate.
  cbn [glookup] in H. destruct (key_eqb key k0) eqn:E.
  - inversion H; subst. exists k0. split; [left; auto|exact E].
  - destruct (IH y H) as (k & Hi & Hk). exists k. split; [right; exact Hi|exact Hk].
Qed.

(* replacing the first value stored under a key by one with the same encoding does not change the encoded pairs *)
Lemma gset_enc kb key v : forall h v0, glookup key h = Some v0 -> enc kb v0 = enc kb v ->
  enc_pairs kb (gset key v h) = enc_pairs kb h.
Proof.
  induction h as [| |k0 v0' r IH] using pair_ind; intros v0 H E; try discriminate.
  cbn [glookup] in H. cbn [gset]. destruct (key_eqb key k0) eqn:K.
  - inversion H; subst v0'.
    change (enc_pairs kb (k0 :: v :: r)) with (let* a := enc kb k0 in let* b := enc kb v in let* c := enc_pairs kb r in Acc ((a, b) :: c)).
    change (enc_pairs kb (k0 :: v0 :: r)) with (let* a := enc kb k0 in let* b := enc kb v0 in let* c := enc_pairs kb r in Acc ((a, b) :: c)).
    rewrite E. reflexivity.
  - change (enc_pairs kb (k0 :: v0' :: gset key v r)) with (let* a := enc kb k0 in let* b := enc kb v0' in let* c := enc_pairs kb (gset key v r) in Acc ((a, b) :: c)).
    rewrite (IH v0 H E). reflexivity.
Qed.

Section Decoded.
  Variable dl : list gv.
  Hypothesis Ev : Nat.even (length dl) = true.
  Hypothesis KN : forall k v, entry_in k v dl -> normalize_label k = Some k /\ is_label k.
  Hypothesis V : validate_params dl true = true.

  Let Lalg : is_label (lbl c_HeaderLabelAlgorithm). Proof. left; eexists; reflexivity. Qed.

  Lemma dl_norm : norm_labels dl = Some (gkeys dl) /\ labels_nodup (gkeys dl) = true.
  Proof.
    assert (N : norm_labels dl = Some (gkeys dl)) by (apply norm_labels_self; [exact Ev|intros k v H; apply (KN k v H)]).
    split; [exact N|]. unfold validate_params in V. rewrite N in V. apply andb_true_iff in V as [V1 _]. exact V1.
  Qed.

  Lemma alg_entry a : alg_of (Some dl) = Acc a ->
    exists v0, glookup (lbl c_HeaderLabelAlgorithm) dl = Some v0 /\ alg_value true (Some v0) = Acc a /\ entry_in (lbl c_HeaderLabelAlgorithm) v0 dl.
  Proof.
    intros A. destruct (alg_present dl a A) as (v0 & L0 & Av). destruct dl_norm as [N D].
    pose proof L0 as L1. rewrite (nlookup_norm dl _ _ N D), lbl_alg_norm in L1.
    destruct (nfind_some _ Lalg dl v0 L1) as (k & Hin & Hk). destruct (KN k v0 Hin) as [Nk _]. rewrite Nk in Hk. inversion Hk; subst k.
    destruct (glookup_of_entry _ Lalg dl v0 Hin) as (y & Gy). exists y. split; [exact Gy|].
    rewrite (nlookup_via_norm _ _ _ lbl_alg_norm), Gy in L0. inversion L0; subst y. auto.
  Qed.

  Lemma validate_cast_alg_sec : validate_params (cast_alg dl) true = true.
  Proof.
    pose proof cast_alg_present as CP. unfold cast_alg in *. destruct (alg_of (Some dl)) as [a| | |] eqn:A; try exact V.
    destruct (alg_entry a A) as (v0 & G0 & Av & Hin). destruct dl_norm as [N D].
    set (cd := set_alg dl a) in *.
    assert (Ecd : Nat.even (length cd) = true) by (apply gset_even; exact Ev).
    assert (Kcd : gkeys cd = gkeys dl) by (apply gset_gkeys; [exact Lalg|eauto]).
    assert (KNcd : forall k v, entry_in k v cd -> normalize_label k = Some k).
    { intros k v H. destruct (gset_entry_cases _ _ _ _ _ H) as [H1|[_ [->|H1]]].
      - apply (KN k v H1).
      - reflexivity.
      - apply key_eqb_label_eq in H1; [|exact Lalg]. subst k. reflexivity. }
    unfold validate_params. rewrite (norm_labels_self cd Ecd KNcd), Kcd, D. cbn [andb].
    apply check_entries_intro; [exact Ecd|]. intros k v H.
    destruct (gset_entry_cases _ _ _ _ _ H) as [H1|[-> Hk]].
    - unfold validate_params in V. rewrite N in V. apply andb_true_iff in V as [_ Vc].
      destruct (check_entries_in true dl dl k v Vc H1) as (k' & Nk & Ck). exists k'. split; [exact Nk|].
      rewrite (check_param_present true cd dl k' v); [exact Ck|]. intros lab. specialize (CP dl lab). rewrite A in CP. exact CP.
    - exists (lbl c_HeaderLabelAlgorithm). assert (k = lbl c_HeaderLabelAlgorithm).
      { destruct Hk as [->|Hk]; [reflexivity|]. apply key_eqb_label_eq in Hk; [exact Hk|exact Lalg]. }
      subst k. split; reflexivity.
  Qed.

  Lemma enc_cast_alg_sec kb : enc_hmap kb (cast_alg dl) = enc_hmap kb dl.
  Proof.
    unfold cast_alg. destruct (alg_of (Some dl)) as [a| | |] eqn:A; try reflexivity.
    destruct (alg_entry a A) as (v0 & G0 & Av & _). unfold enc_hmap, set_alg.
    rewrite (gset_enc kb _ _ dl v0 G0); [reflexivity|].
    destruct v0 as [kk n| | | | | | | | | | | | | | | |]; cbn in Av; try discriminate.
    destruct kk; inversion Av; subst; reflexivity.
  Qed.
End Decoded.

(* the decoder's Algorithm cast keeps the bucket valid ... *)
Lemma validate_cast_alg dl :
  Nat.even (length dl) = true -> (forall k v, entry_in k v dl -> normalize_label k = Some k /\ is_label k) ->
  validate_params dl true = true -> validate_params (cast_alg dl) true = true.
Proof. exact (validate_cast_alg_sec dl). Qed.

(* ... and does not change what it encodes to *)
Lemma enc_cast_alg dl :
  Nat.even (length dl) = true -> (forall k v, entry_in k v dl -> normalize_label k = Some k /\ is_label k) ->
  validate_params dl true = true -> forall kb, enc_hmap kb (cast_alg dl) = enc_hmap kb dl.
Proof. exact (enc_cast_alg_sec dl). Qed.

Lemma gset_nonempty key v h : gset key v h <> [].
Proof. destruct h as [|k0 [|v0 r]]; cbn [gset]; try discriminate. destruct (key_eqb key k0); discriminate. Qed.

Lemma cast_alg_nonempty dl : dl <> [] -> cast_alg dl <> [].
Proof. intros H. unfold cast_alg. destruct (alg_of (Some dl)); auto. apply gset_nonempty. Qed.

(* C09: the protected bucket as ProtectedHeader.UnmarshalCBOR returns it is accepted by the validator and encodes to
   the bytes it was decoded from: the cleared form is a fixed point of decode / encode *)
Theorem protected_cleared_fixed_point_decoded l pb :
  l <> [] -> simple (GMap l) = true -> (forall k v, entry_in k v l -> okval v) ->
  enc_protected (Some l) = Acc pb ->
  (forall m, enc_hmap true l = Acc m -> within_limits m) ->
  exists dp, unmarshal_protected pb = Acc dp /\ validate_params dp true = true /\ enc_protected (Some dp) = Acc pb.
Proof.
  intros Hne Hs Hok He Hlim.
  destruct (protected_cleared_fixed_point l pb Hne Hs Hok He Hlim) as (dl & U & V & E & HR & Dne).
  pose proof (even_pairs_len l dl HR) as Ev. pose proof (hrel_keys_normal l dl HR) as KN.
  exists (cast_alg dl). split; [exact U|]. split; [exact (validate_cast_alg dl Ev KN V)|].
  unfold enc_protected in *. destruct dl as [|y0 d0]; [contradiction|]. rewrite V in E.
  pose proof (cast_alg_nonempty (y0 :: d0) Dne) as Cne. destruct (cast_alg (y0 :: d0)) as [|z0 c0] eqn:Ec; [contradiction|].
  rewrite <- Ec, (validate_cast_alg _ Ev KN V), (enc_cast_alg _ Ev KN V true). exact E.
Qed.
Print Assumptions protected_cleared_fixed_point_decoded.
