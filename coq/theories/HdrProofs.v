(* HdrProofs.v — header parameter rules (C13) and hash envelopes (C12). *)
From Coq Require Import Ascii String ZArith List Lia Bool Arith ZifyBool.
From GoCose Require Import Bytes Cbor Res GoVal Fx Headers Enc Dec Msg HashEnv DecProofs FlowProofs.
From GoCose.Gen Require Import Generated.
Import ListNotations.
Open Scope Z_scope.

(* entries of a flat map *)
Fixpoint entry_in (k v : gv) (h : list gv) : Prop :=
  match h with
  | k' :: v' :: r => (k = k' /\ v = v') \/ entry_in k v r
  | _ => False
  end.

Lemma check_entries_in prot whole : forall h k v,
  check_entries prot whole h = true -> entry_in k v h ->
  exists k', normalize_label k = Some k' /\ check_param prot whole k' v = true.
Proof.
  fix IH 1. intros [|k0 [|v0 r]] k v Hc Hin; try contradiction.
  cbn [check_entries] in Hc. destruct (normalize_label k0) as [k0'|] eqn:N; [|discriminate].
  apply andb_true_iff in Hc as [H1 H2]. destruct Hin as [[-> ->]|Hin].
  - exists k0'. auto.
  - apply (IH r k v H2 Hin).
Qed.

Lemma norm_labels_in : forall h ks k v,
  norm_labels h = Some ks -> entry_in k v h -> exists k', normalize_label k = Some k' /\ In k' ks.
Proof.
  fix IH 1. intros [|k0 [|v0 r]] ks k v Hn Hin; try contradiction.
  cbn [norm_labels] in Hn. destruct (normalize_label k0) as [k0'|] eqn:N; [|discriminate].
  destruct (norm_labels r) as [ks'|] eqn:R; [|discriminate]. inversion Hn; subst.
  destruct Hin as [[-> ->]|Hin].
  - exists k0'. split; auto. left; auto.
  - destruct (IH r ks' k v R Hin) as (k' & Hk & Hi). exists k'. split; auto. right; auto.
Qed.

(* ---- what an accepted bucket satisfies (RFC 9052 section 3.1), both directions ---- *)
Definition is_label (k' : gv) : Prop := (exists n, k' = GInt KInt64 n) \/ (exists s, k' = GStr s).

Lemma normalize_label_is_label k k' : normalize_label k = Some k' -> is_label k'.
Proof.
  destruct k; cbn; try discriminate.
  - destruct (is_signed_kind k || is_unsigned_kind k); [|discriminate]. intros H; inversion H. left; eauto.
  - intros H; inversion H. right; eauto.
Qed.

Theorem validated_labels h prot k v :
  validate_params h prot = true -> entry_in k v h ->
  exists k', normalize_label k = Some k' /\ is_label k' /\ check_param prot h k' v = true.
Proof.
  unfold validate_params. destruct (norm_labels h) as [ks|] eqn:N; [|discriminate].
  intros H Hin. apply andb_true_iff in H as [_ Hc].
  destruct (check_entries_in prot h h k v Hc Hin) as (k' & Hk & Hp).
  exists k'. split; auto. split; auto. eapply normalize_label_is_label; eauto.
Qed.

(* the individual rules, read off an accepted bucket *)
Theorem validated_rules h prot k v n :
  validate_params h prot = true -> entry_in k v h -> normalize_label k = Some (lbl n) ->
  (n = c_HeaderLabelAlgorithm -> is_alg_typed v = true \/ can_int v = true \/ can_tstr v = true) /\
  (n = c_HeaderLabelCritical -> prot = true /\ ensure_critical v h = true) /\
  (n = c_HeaderLabelContentType \/ n = c_HeaderLabelType -> uint_or_media v = true) /\
  (n = c_HeaderLabelKeyID -> can_bstr v = true) /\
  (n = c_HeaderLabelIV -> can_bstr v = true /\ has_label h c_HeaderLabelPartialIV = false) /\
  (n = c_HeaderLabelPartialIV -> can_bstr v = true /\ has_label h c_HeaderLabelIV = false) /\
  (n = c_HeaderLabelCounterSignature \/ n = c_HeaderLabelCounterSignatureV2 -> prot = false /\ is_csig_value v = true) /\
  (n = c_HeaderLabelCounterSignature0 \/ n = c_HeaderLabelCounterSignature0V2 -> prot = false /\ can_bstr v = true).
Proof.
  intros Hv Hin Hn. destruct (validated_labels h prot k v Hv Hin) as (k' & Hk & _ & Hp).
  rewrite Hn in Hk. inversion Hk; subst k'. unfold check_param, lbl in Hp.
  unfold c_HeaderLabelAlgorithm, c_HeaderLabelCritical, c_HeaderLabelContentType, c_HeaderLabelType, c_HeaderLabelKeyID,
    c_HeaderLabelIV, c_HeaderLabelPartialIV, c_HeaderLabelCounterSignature, c_HeaderLabelCounterSignatureV2,
    c_HeaderLabelCounterSignature0, c_HeaderLabelCounterSignature0V2 in *.
  repeat split; intros; repeat match goal with H : _ \/ _ |- _ => destruct H end; subst n; cbn in Hp;
    rewrite ?andb_true_iff, ?orb_true_iff, ?negb_true_iff in Hp; tauto.
Qed.

(* crit: a non-empty array of labels, each present in the same bucket *)
Theorem critical_rule v h :
  ensure_critical v h = true ->
  exists labels, v = GArr labels /\ labels <> [] /\
    forall l, In l labels -> (can_int l = true \/ can_tstr l = true) /\ exists x, nlookup l h = Some x.
Proof.
  unfold ensure_critical. destruct v; try discriminate. intros H. apply andb_true_iff in H as [Hn Hf].
  exists l. split; auto. split; [destruct l; [discriminate|discriminate]|].
  intros x Hx. rewrite forallb_forall in Hf. specialize (Hf x Hx). apply andb_true_iff in Hf as [H1 H2].
  split; [apply orb_true_iff; exact H1|]. destruct (nlookup x h); [eauto|discriminate].
Qed.

(* normalised labels of an accepted bucket are pairwise different *)
Lemma labels_nodup_spec : forall ks, labels_nodup ks = true -> forall a b r1 r2, ks = r1 ++ a :: r2 -> In b r2 -> key_eqb a b = false.
Proof.
  induction ks as [|k ks IH]; intros H a b r1 r2 E Hb.
  - destruct r1; discriminate.
  - cbn in H. apply andb_true_iff in H as [H1 H2]. destruct r1 as [|x r1]; cbn in E; inversion E; subst.
    + apply negb_true_iff in H1. destruct (key_eqb a b) eqn:K; auto.
      assert (existsb (key_eqb a) r2 = true) by (apply existsb_exists; eauto). congruence.
    + eapply IH; eauto.
Qed.

(* ---- the same validation guards both directions, in every layer ---- *)
Theorem encode_protected_validated l b : l <> [] -> enc_protected (Some l) = Acc b -> validate_params l true = true.
Proof.
  intros Hl. unfold enc_protected. destruct l; [contradiction|]. destruct (validate_params (g :: l) true); auto. discriminate.
Qed.

Theorem encode_unprotected_validated l b : l <> [] -> enc_unprotected (Some l) = Acc b -> validate_params l false = true.
Proof.
  intros Hl. unfold enc_unprotected. destruct l; [contradiction|]. destruct (validate_params (g :: l) false); auto. discriminate.
Qed.

Theorem decode_protected_validated p pm :
  dec_protected p = Acc pm -> pm = [] \/ exists m, validate_params m true = true /\ pm = cast_alg m.
Proof.
  intros H. apply dec_protected_inv in H as (w & c & _ & [[_ ->]|(wm & l & ks & vs & _ & _ & _ & _ & V & ->)]); eauto.
Qed.

Theorem decode_unprotected_validated f u um : dec_unprotected f u = Acc um -> validate_params um false = true.
Proof. intros H. apply dec_unprotected_is_map in H as [_ V]. exact V. Qed.

(* IV and Partial IV never coexist in one layer: within a bucket (rule above) and across the two buckets *)
Theorem iv_across_buckets_encode h pu : headers_marshal h = Acc pu -> ensure_iv h = true.
Proof. unfold headers_marshal. destruct (ensure_iv h); auto. discriminate. Qed.

Theorem iv_across_buckets_decode p u h : dec_headers p u = Acc h -> ensure_iv h = true.
Proof. intros H. apply dec_headers_inv in H as (pm & um & _ & _ & _ & _ & Hiv). exact Hiv. Qed.

(* every structure's encoder goes through headers_marshal, every decoder through dec_headers *)
Theorem layers_share_validation :
  (forall m b, marshal_sign1 m = Acc b -> exists pu, headers_marshal (s1_h m) = Acc pu) /\
  (forall s b, marshal_signature s = Acc b -> exists pu, headers_marshal (sg_h s) = Acc pu) /\
  (forall m b, marshal_signmsg m = Acc b -> exists pu, headers_marshal (sm_h m) = Acc pu).
Proof.
  repeat split.
  - intros m b. unfold marshal_sign1, sign1_content. destruct (glen (s1_sig m) =? 0); [discriminate|].
    destruct (headers_marshal (s1_h m)) as [pu| | |]; cbn [bind]; try discriminate. eauto.
  - intros s b. unfold marshal_signature. destruct (glen (sg_sig s) =? 0); [discriminate|].
    destruct (headers_marshal (sg_h s)) as [pu| | |]; cbn [bind]; try discriminate. eauto.
  - intros m b. unfold marshal_signmsg. destruct (sm_sigs m); [discriminate|].
    destruct (headers_marshal (sm_h m)) as [pu| | |]; cbn [bind]; try discriminate. eauto.
Qed.

(* ---- spelling: every Go integer type that spells the same number is the same label ---- *)
Definition int_kind (k : ikind) : Prop := is_signed_kind k || is_unsigned_kind k = true.

Theorem normalize_spelling k k' n :
  int_kind k -> int_kind k' -> normalize_label (GInt k n) = normalize_label (GInt k' n).
Proof. unfold int_kind. intros H H'. cbn. rewrite H, H'. reflexivity. Qed.

(* two buckets that differ only in the Go integer type of their labels *)
Fixpoint respelled (h h' : list gv) : Prop :=
  match h, h' with
  | k :: v :: r, k' :: v' :: r' => normalize_label k = normalize_label k' /\ v = v' /\ respelled r r'
  | [], [] => True
  | _, _ => False
  end.

Lemma respelled_norm_labels : forall h h', respelled h h' -> norm_labels h = norm_labels h'.
Proof.
  fix IH 1. intros [|k [|v r]] [|k' [|v' r']] H; try contradiction; try reflexivity.
  destruct H as (Hk & _ & Hr). cbn [norm_labels]. rewrite Hk, (IH r r' Hr). reflexivity.
Qed.

Lemma respelled_nfind want : forall h h', respelled h h' -> nfind want h = nfind want h'.
Proof.
  fix IH 1. intros [|k [|v r]] [|k' [|v' r']] H; try contradiction; try reflexivity.
  destruct H as (Hk & -> & Hr). cbn [nfind]. rewrite Hk, (IH r r' Hr). reflexivity.
Qed.

(* ---- full spelling invariance of the validator ---- *)
Lemma key_eqb_sym a b : key_eqb a b = key_eqb b a.
Proof.
  destruct a, b; cbn; auto.
  - destruct k, k0; cbn; auto; apply Z.eqb_sym.
  - revert s0. induction s as [|x s IH]; intros [|y t]; cbn; auto. rewrite Z.eqb_sym, IH. reflexivity.
  - destruct b, b0; reflexivity.
  - revert b0. induction b as [|x s IH]; intros [|y t]; cbn; auto. rewrite Z.eqb_sym, IH. reflexivity.
  - apply Z.eqb_sym.
Qed.

Lemma key_eqb_refl_label k : is_label k -> key_eqb k k = true.
Proof. intros [[n ->]|[s ->]]; cbn; [rewrite Z.eqb_refl; reflexivity|apply bytes_eqb_refl]. Qed.

(* a normalised label is its own normal form *)
Lemma normalize_label_idem k k' : normalize_label k = Some k' -> normalize_label k' = Some k'.
Proof.
  destruct k; cbn; try discriminate.
  - destruct (is_signed_kind k || is_unsigned_kind k); [|discriminate]. intros H; inversion H; subst.
    cbn. rewrite wrap64_idem. reflexivity.
  - intros H; inversion H; subst. reflexivity.
Qed.

Lemma key_eqb_label_eq want k : is_label want -> key_eqb want k = true -> k = want.
Proof.
  intros [[n ->]|[s ->]]; destruct k; cbn; try discriminate.
  - destruct k; cbn; try discriminate. intros H. f_equal. lia.
  - intros H. apply bytes_eqb_eq in H. subst. reflexivity.
Qed.

(* with unique normalised labels, every entry is what a by-value look-up of its label finds *)
Lemma nfind_entry : forall h ks k v want,
  norm_labels h = Some ks -> labels_nodup ks = true ->
  entry_in k v h -> normalize_label k = Some want -> nfind want h = Some v.
Proof.
  fix IH 1. intros [|k0 [|v0 r]] ks k v want Hn Hd Hin Hk; try contradiction.
  cbn [norm_labels] in Hn. destruct (normalize_label k0) as [k0'|] eqn:N0; [|discriminate].
  destruct (norm_labels r) as [ks'|] eqn:Nr; [|discriminate]. inversion Hn; subst ks; clear Hn.
  cbn [labels_nodup] in Hd. apply andb_true_iff in Hd as [Hd1 Hd2]. apply negb_true_iff in Hd1.
  cbn [nfind]. rewrite N0. destruct Hin as [[-> ->]|Hin].
  - rewrite N0 in Hk. inversion Hk; subst. rewrite key_eqb_refl_label by (eapply normalize_label_is_label; eauto). reflexivity.
  - destruct (norm_labels_in r ks' k v Nr Hin) as (w' & Hw & Hi). rewrite Hk in Hw. inversion Hw; subst w'.
    assert (E : key_eqb want k0' = false).
    { destruct (key_eqb want k0') eqn:E; auto. exfalso.
      rewrite key_eqb_sym in E. assert (existsb (key_eqb k0') ks' = true) by (apply existsb_exists; eauto). congruence. }
    rewrite E. eapply IH; eauto.
Qed.

Lemma glookup_entry want : forall h v, glookup want h = Some v -> exists k, entry_in k v h /\ key_eqb want k = true.
Proof.
  fix IH 1. intros [|k0 [|v0 r]] v H; try discriminate.
  cbn [glookup] in H. destruct (key_eqb want k0) eqn:E.
  - inversion H; subst. exists k0. split; [left; auto|exact E].
  - destruct (IH r v H) as (k & Hi & Hk). exists k. split; [right; exact Hi|exact Hk].
Qed.

(* lookupLabel's direct-hit shortcut agrees with its scan when labels are unique *)
Lemma nlookup_is_nfind h ks l :
  norm_labels h = Some ks -> labels_nodup ks = true ->
  nlookup l h = match normalize_label l with Some want => nfind want h | None => None end.
Proof.
  intros Hn Hd. unfold nlookup. destruct (normalize_label l) as [want|] eqn:Nl; auto.
  destruct (glookup want h) as [v|] eqn:G; auto.
  destruct (glookup_entry want h v G) as (k & Hin & Hk).
  assert (Hl : is_label want) by (eapply normalize_label_is_label; eauto).
  apply key_eqb_label_eq in Hk; auto. subst k.
  symmetry. eapply nfind_entry; eauto. eapply normalize_label_idem; eauto.
Qed.

Lemma respelled_nlookup h h' ks l :
  respelled h h' -> norm_labels h = Some ks -> labels_nodup ks = true -> nlookup l h = nlookup l h'.
Proof.
  intros Hr Hn Hd. rewrite (nlookup_is_nfind h ks l Hn Hd).
  rewrite (nlookup_is_nfind h' ks l); auto; [|rewrite <- (respelled_norm_labels _ _ Hr); auto].
  destruct (normalize_label l); auto. apply respelled_nfind; auto.
Qed.

Lemma check_param_ext prot whole whole' k' v :
  (forall l, nlookup l whole = nlookup l whole') -> check_param prot whole k' v = check_param prot whole' k' v.
Proof.
  intros H. unfold check_param, has_label, ensure_critical. destruct k'; auto. destruct k; auto.
  rewrite !H. destruct v; auto.
  repeat match goal with |- context [if ?c then _ else _] => destruct c; auto end.
  f_equal. f_equal. induction l as [|x l IHl]; cbn [forallb]; auto. rewrite H, IHl. reflexivity.
Qed.

Lemma check_entries_respelled prot whole whole' : forall h h',
  (forall l, nlookup l whole = nlookup l whole') -> respelled h h' ->
  check_entries prot whole h = check_entries prot whole' h'.
Proof.
  fix IH 1. intros [|k [|v r]] [|k' [|v' r']] Hw Hr; try contradiction; try reflexivity.
  destruct Hr as (Hk & -> & Hr). cbn [check_entries]. rewrite Hk.
  destruct (normalize_label k'); auto. rewrite (check_param_ext prot whole whole' _ _ Hw), (IH r r' Hw Hr). reflexivity.
Qed.

(* C13: the verdict of validateHeaderParameters does not depend on which Go integer type spells a label *)
Theorem validate_params_spelling h h' prot :
  respelled h h' -> validate_params h prot = validate_params h' prot.
Proof.
  intros Hr. unfold validate_params. rewrite <- (respelled_norm_labels _ _ Hr).
  destruct (norm_labels h) as [ks|] eqn:Hn; auto.
  destruct (labels_nodup ks) eqn:Hd; auto. cbn [andb].
  apply check_entries_respelled; auto. intros l. eapply respelled_nlookup; eauto.
Qed.

(* non-vacuity: the same bucket spelled with int8 / uint16 labels *)
Example respelled_example :
  respelled [GInt KInt64 4; GBytes [1]; GInt KInt64 2; GArr [GInt KInt64 4]]
            [GInt KInt8 4; GBytes [1]; GInt KUint16 2; GArr [GInt KInt64 4]] /\
  validate_params [GInt KInt8 4; GBytes [1]; GInt KUint16 2; GArr [GInt KInt64 4]] true = true.
Proof. split; [cbn; auto|reflexivity]. Qed.

(* ------------------------------------------------------------------ *)
(* C12: hash envelopes                                                  *)
(* ------------------------------------------------------------------ *)
Lemma he_prot_ok_in : forall h k v n,
  he_prot_ok h = true -> entry_in k v h -> normalize_label k = Some (lbl n) ->
  n <> c_HeaderLabelContentType /\
  (n = c_HeaderLabelPayloadHashAlgorithm -> is_alg_typed v = true \/ can_int v = true) /\
  (n = c_HeaderLabelPayloadPreimageContentType -> can_uint v = true \/ can_tstr v = true) /\
  (n = c_HeaderLabelPayloadLocation -> can_tstr v = true).
Proof.
  fix IH 1. intros [|k0 [|v0 r]] k v n Hc Hin Hn; try contradiction.
  cbn [he_prot_ok] in Hc. destruct Hin as [[-> ->]|Hin].
  - rewrite Hn in Hc. unfold lbl in Hc.
    unfold c_HeaderLabelContentType, c_HeaderLabelPayloadHashAlgorithm, c_HeaderLabelPayloadPreimageContentType, c_HeaderLabelPayloadLocation in *.
    destruct (n =? 3) eqn:E3; [discriminate|].
    apply andb_true_iff in Hc as [Hc _].
    split; [lia|]. repeat split; intros ->; cbn in Hc; apply orb_true_iff in Hc || idtac; auto.
  - destruct (normalize_label k0) as [k0'|]; [|discriminate].
    destruct k0'; try (apply (IH r k v n Hc Hin Hn)).
    destruct k1; try (apply (IH r k v n Hc Hin Hn)).
    apply andb_true_iff in Hc as [_ Hc]. apply (IH r k v n Hc Hin Hn).
Qed.

Lemma he_unprot_ok_in : forall h k v n,
  he_unprot_ok h = true -> entry_in k v h -> normalize_label k = Some (lbl n) ->
  n <> c_HeaderLabelContentType /\ n <> c_HeaderLabelPayloadHashAlgorithm /\
  n <> c_HeaderLabelPayloadPreimageContentType /\ n <> c_HeaderLabelPayloadLocation.
Proof.
  fix IH 1. intros [|k0 [|v0 r]] k v n Hc Hin Hn; try contradiction.
  cbn [he_unprot_ok] in Hc. destruct Hin as [[-> ->]|Hin].
  - rewrite Hn in Hc. unfold lbl in Hc. apply andb_true_iff in Hc as [Hc _]. apply negb_true_iff in Hc.
    unfold c_HeaderLabelContentType, c_HeaderLabelPayloadHashAlgorithm, c_HeaderLabelPayloadPreimageContentType, c_HeaderLabelPayloadLocation in *.
    lia.
  - destruct (normalize_label k0) as [k0'|]; [|discriminate].
    destruct k0'; try (apply (IH r k v n Hc Hin Hn)).
    destruct k1; try (apply (IH r k v n Hc Hin Hn)).
    apply andb_true_iff in Hc as [_ Hc]. apply (IH r k v n Hc Hin Hn).
Qed.

Lemma he_has_hash_alg_in : forall h, he_has_hash_alg h = true ->
  exists k v, entry_in k v h /\ normalize_label k = Some (lbl c_HeaderLabelPayloadHashAlgorithm).
Proof.
  fix IH 1. intros [|k0 [|v0 r]] H; try discriminate.
  cbn [he_has_hash_alg] in H.
  assert (Rec : he_has_hash_alg r = true ->
                exists k v, entry_in k v (k0 :: v0 :: r) /\ normalize_label k = Some (lbl c_HeaderLabelPayloadHashAlgorithm)).
  { intros Hr. destruct (IH r Hr) as (k & v & Hi & Hn). exists k, v. split; [right; exact Hi|exact Hn]. }
  destruct (normalize_label k0) as [k0'|] eqn:N; [|apply Rec; exact H].
  destruct k0'; try (apply Rec; exact H).
  destruct k; try (apply Rec; exact H).
  apply orb_true_iff in H as [H|H]; [|apply Rec; exact H].
  exists k0, v0. split; [left; auto|]. rewrite N. unfold lbl. f_equal. f_equal. lia.
Qed.

(* the envelope rules, as read off validate_he_headers *)
Theorem he_rules h :
  validate_he_headers h = true ->
  (exists k v, entry_in k v (hmap (hP h)) /\ normalize_label k = Some (lbl c_HeaderLabelPayloadHashAlgorithm) /\
               (is_alg_typed v = true \/ can_int v = true)) /\
  (forall k v n, entry_in k v (hmap (hP h)) -> normalize_label k = Some (lbl n) ->
                 n <> c_HeaderLabelContentType /\
                 (n = c_HeaderLabelPayloadPreimageContentType -> can_uint v = true \/ can_tstr v = true) /\
                 (n = c_HeaderLabelPayloadLocation -> can_tstr v = true)) /\
  (forall k v n, entry_in k v (hmap (hU h)) -> normalize_label k = Some (lbl n) ->
                 n <> c_HeaderLabelContentType /\ n <> c_HeaderLabelPayloadHashAlgorithm /\
                 n <> c_HeaderLabelPayloadPreimageContentType /\ n <> c_HeaderLabelPayloadLocation).
Proof.
  unfold validate_he_headers. intros H. apply andb_true_iff in H as [H Hu]. apply andb_true_iff in H as [Hp Hh].
  split.
  - destruct (he_has_hash_alg_in _ Hh) as (k & v & Hi & Hn). exists k, v. split; auto. split; auto.
    destruct (he_prot_ok_in _ k v _ Hp Hi Hn) as (_ & Ha & _). auto.
  - split.
    + intros k v n Hi Hn. destruct (he_prot_ok_in _ k v n Hp Hi Hn) as (A & _ & B & C). auto.
    + intros k v n Hi Hn. apply (he_unprot_ok_in _ k v n Hu Hi Hn).
Qed.

(* digest length of the known hash algorithms *)
Theorem validate_hash_length a v :
  validate_hash a v = true ->
  (hash_func a = std_crypto_SHA256 -> glen v = 32) /\ (hash_func a = std_crypto_SHA384 -> glen v = 48) /\
  (hash_func a = std_crypto_SHA512 -> glen v = 64).
Proof.
  unfold validate_hash. intros H. repeat split; intros E; rewrite E in H.
  - change (std_crypto_SHA256 =? 0) with false in H. cbv iota in H. unfold hash_size in H.
    change (std_crypto_SHA256 =? std_crypto_SHA256) with true in H. cbv iota in H.
    apply Z.eqb_eq in H. rewrite <- H. reflexivity.
  - change (std_crypto_SHA384 =? 0) with false in H. cbv iota in H. unfold hash_size in H.
    change (std_crypto_SHA384 =? std_crypto_SHA256) with false in H.
    change (std_crypto_SHA384 =? std_crypto_SHA384) with true in H. cbv iota in H.
    apply Z.eqb_eq in H. rewrite <- H. reflexivity.
  - change (std_crypto_SHA512 =? 0) with false in H. cbv iota in H. unfold hash_size in H.
    change (std_crypto_SHA512 =? std_crypto_SHA256) with false in H.
    change (std_crypto_SHA512 =? std_crypto_SHA384) with false in H.
    change (std_crypto_SHA512 =? std_crypto_SHA512) with true in H. cbv iota in H.
    apply Z.eqb_eq in H. rewrite <- H. reflexivity.
Qed.

(* VerifyHashEnvelope returns a message only if the signature check passed and the envelope obeys the rules *)
Theorem verify_he_accepts vf env m calls :
  verify_he vf env = (Acc m, calls) ->
  exists m0 a,
    unmarshal_sign1 env = Acc m0 /\ validate_he_headers (s1_h m0) = true /\
    fst (sign1_verify m0 None vf) = Acc tt /\
    payload_hash_alg_of (hP (s1_h m0)) = Acc a /\ validate_hash a (s1_payload m0) = true /\
    s1_payload m = s1_payload m0 /\ s1_sig m = s1_sig m0 /\ rawP (s1_h m) = rawP (s1_h m0).
Proof.
  unfold verify_he. destruct (unmarshal_sign1 env) as [m0| | |] eqn:U; try discriminate.
  destruct (validate_he_headers (s1_h m0)) eqn:V; cbn [negb]; [|discriminate].
  destruct (sign1_verify m0 None vf) as [r c] eqn:S. destruct r as [[]| | |]; try discriminate.
  destruct (payload_hash_alg_of (hP (s1_h m0))) as [a| | |] eqn:P; try discriminate.
  destruct (validate_hash a (s1_payload m0)) eqn:Hh; [|discriminate].
  intros H; inversion H; subst. exists m0, a. rewrite S. cbn. repeat split; auto.
Qed.

(* ... and exactly then: the five conditions are also sufficient (C03 for hash envelopes: what is accepted is decided by
   the decoder, the rules, the signature check over the received bytes and the digest length, and by nothing else) *)
Theorem verify_he_iff vf env :
  (exists m calls, verify_he vf env = (Acc m, calls)) <->
  (exists m0 a,
    unmarshal_sign1 env = Acc m0 /\ validate_he_headers (s1_h m0) = true /\
    fst (sign1_verify m0 None vf) = Acc tt /\
    payload_hash_alg_of (hP (s1_h m0)) = Acc a /\ validate_hash a (s1_payload m0) = true).
Proof.
  split.
  - intros (m & calls & H). destruct (verify_he_accepts vf env m calls H) as (m0 & a & U & V & S & P & Hh & _).
    exists m0, a. auto.
  - intros (m0 & a & U & V & S & P & Hh). unfold verify_he. rewrite U, V. cbn [negb].
    destruct (sign1_verify m0 None vf) as [r c]. cbn [fst] in S. subst r. rewrite P, Hh. eauto.
Qed.

(* SignHashEnvelope returns bytes only for a valid digest and headers that obey the rules; the
   bytes are the encoding of a COSE_Sign1 over exactly those headers with the hash value as payload *)
Theorem sign_he_produces sg h p b calls :
  sign_he sg h p = (Acc b, calls) ->
  let h' := mkH None (Some (set_he_protected (hP h) p)) (rawU h) (hU h) in
  validate_hash (he_alg p) (he_value p) = true /\ validate_he_headers h' = true /\
  out_res (sign1_sign (mkS1 h' (he_value p) None) None sg) = Acc tt /\
  marshal_sign1 (out_post (sign1_sign (mkS1 h' (he_value p) None) None sg)) = Acc b /\
  s1_payload (out_post (sign1_sign (mkS1 h' (he_value p) None) None sg)) = he_value p.
Proof.
  cbv zeta. unfold sign_he. destruct (validate_hash (he_alg p) (he_value p)) eqn:V; cbn [negb]; [|discriminate].
  destruct (validate_he_headers _) eqn:W; cbn [negb]; [|discriminate].
  unfold helper_sign1.
  pose proof (sign1_sign_cases (mkS1 (mkH None (Some (set_he_protected (hP h) p)) (rawU h) (hU h)) (he_value p) None) None sg) as C.
  cbv zeta in C.
  remember (sign1_sign (mkS1 (mkH None (Some (set_he_protected (hP h) p)) (rawU h) (hU h)) (he_value p) None) None sg) as o eqn:Ho.
  destruct C as [(Hok & h2 & t & s & pl & _ & _ & _ & _ & _ & Post & _)|(Hbad & _ & Hp)].
  - rewrite Hok. intros H; inversion H; subst. repeat split; auto. rewrite Post. reflexivity.
  - destruct (out_res o) as [[]| | |]; try contradiction; discriminate.
Qed.

(* ... and exactly then (C12 "only conforming envelopes are produced", both directions) *)
Theorem sign_he_iff sg h p :
  let h' := mkH None (Some (set_he_protected (hP h) p)) (rawU h) (hU h) in
  let o := sign1_sign (mkS1 h' (he_value p) None) None sg in
  (exists b calls, sign_he sg h p = (Acc b, calls)) <->
  (validate_hash (he_alg p) (he_value p) = true /\ validate_he_headers h' = true /\
   out_res o = Acc tt /\ exists b, marshal_sign1 (out_post o) = Acc b).
Proof.
  cbv zeta. split.
  - intros (b & calls & H). destruct (sign_he_produces sg h p b calls H) as (A & B & C & D & _). eauto 6.
  - intros (A & B & C & b & D). unfold sign_he. rewrite A, B. cbn [negb]. unfold helper_sign1. rewrite C, D. eauto.
Qed.

(* the payload hash algorithm the caller asked for is what the signed protected map carries *)
Theorem set_he_protected_carries base p :
  he_ctype p = GNil -> he_loc p = [] ->
  glookup (lbl c_HeaderLabelPayloadHashAlgorithm) (set_he_protected base p) = Some (GInt KAlg (he_alg p)).
Proof.
  intros Hc Hl. unfold set_he_protected. rewrite Hc, Hl. apply glookup_gset_lbl.
Qed.

(* C04, decoded messages: the alg consulted by Sign / Verify is the alg entry of
   the protected bytes that are signed (the map decoded from exactly those bytes) *)
Theorem decoded_alg_is_wire_alg p pm :
  dec_protected p = Acc pm ->
  (exists w, p = WStr false w [] /\ alg_of (Some pm) = Rej EAlgNotFound) \/
  (exists w c wm l ks vs, p = WStr false w c /\ lib_wf true c = Some (WMap wm l) /\
                          labels_pass l = Acc ks /\ values_pass l = Acc vs /\
                          alg_of (Some pm) = alg_of (Some (zip_flat ks vs))).
Proof.
  intros H. apply dec_protected_inv in H as (w & c & -> & [[-> ->]|(wm & l & ks & vs & L & LP & _ & VP & _ & ->)]).
  - left. exists w. split; reflexivity.
  - right. exists w, c, wm, l, ks, vs. repeat split; auto. apply alg_of_cast_alg.
Qed.
