(* RulesTie.v — the per-label switch of validateHeaderParameters, as translated from /repo on this run
   (Generated.tbl_header_rules), prescribes exactly the rules of the model's check_param.  A change of
   the switch in the source changes the table and this theorem stops checking. *)
From Coq Require Import Ascii String ZArith List Lia Bool.
From GoCose Require Import Bytes Cbor Res GoVal Headers.
From GoCose.Gen Require Import Generated.
Import ListNotations.
Open Scope Z_scope.

Definition has_type (t : Z) (v : gv) : bool :=
  if t =? 1 then is_alg_typed v else if t =? 2 then can_int v else if t =? 3 then can_tstr v
  else if t =? 4 then can_uint v else if t =? 5 then can_bstr v else if t =? 6 then is_csig_value v else false.

Definition interp_atom (prot : bool) (h : list gv) (v : gv) (a : Z * list Z) : bool :=
  let '(code, args) := a in
  if code =? 1 then prot
  else if code =? 2 then negb prot
  else if code =? 3 then existsb (fun t => has_type t v) args
  else if code =? 4 then negb (has_label h (hd 0 args))
  else if code =? 5 then ensure_critical v h
  else if code =? 6 then match v with GStr s => media_text_ok s | _ => true end
  else false.

Fixpoint rules_of (t : list (Z * list (Z * list Z))) (n : Z) : option (list (Z * list Z)) :=
  match t with
  | [] => None
  | (l, atoms) :: r => if n =? l then Some atoms else rules_of r n
  end.

Definition check_param_tbl (t : list (Z * list (Z * list Z))) (prot : bool) (h : list gv) (label value : gv) : bool :=
  match label with
  | GInt KInt64 n => match rules_of t n with Some atoms => forallb (interp_atom prot h value) atoms | None => true end
  | _ => true
  end.

Lemma uint_or_media_split v :
  uint_or_media v = (can_tstr v || can_uint v) && match v with GStr s => media_text_ok s | _ => true end.
Proof. destruct v; cbn; try reflexivity; try (rewrite andb_true_r; reflexivity). Qed.

(* the translated table and the model prescribe the same rule for every label, bucket and value *)
Theorem translated_rules_agree prot h label value :
  check_param_tbl tbl_header_rules prot h label value = check_param prot h label value.
Proof.
  unfold check_param_tbl, check_param. destruct label as [k n| | | | | | | | | | | | | | | |]; try reflexivity.
  destruct k; try reflexivity. unfold tbl_header_rules. cbn [rules_of].
  unfold c_HeaderLabelAlgorithm, c_HeaderLabelCritical, c_HeaderLabelType, c_HeaderLabelContentType, c_HeaderLabelKeyID,
    c_HeaderLabelIV, c_HeaderLabelPartialIV, c_HeaderLabelCounterSignature, c_HeaderLabelCounterSignature0,
    c_HeaderLabelCounterSignatureV2, c_HeaderLabelCounterSignature0V2.
  repeat match goal with
         | |- context [n =? ?c] => destruct (Z.eqb_spec n c) as [->|?]
         end;
    cbn -[media_text_ok ensure_critical has_label uint_or_media];
    rewrite ?uint_or_media_split, ?andb_true_r, ?orb_false_r; try reflexivity; try lia;
    try (destruct prot; reflexivity);
    try (rewrite andb_comm; reflexivity).
  rewrite orb_assoc. reflexivity.
Qed.
Print Assumptions translated_rules_agree.
