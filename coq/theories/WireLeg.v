(* WireLeg.v — the wire leg of C01 for COSE_Sign1 as a theorem: a message with typed header
   buckets that MarshalCBOR serialises is accepted by UnmarshalCBOR, the decoded message carries
   the emitted protected bytes, the same payload and signature, hence the same to-be-signed bytes
   and the same algorithm gate; therefore what Sign produced still verifies after the round trip. *)
From Coq Require Import Ascii String ZArith List Lia Bool Arith ZifyBool Permutation.
From GoCose Require Import Bytes Cbor CborProofs Res GoVal Fx Headers Enc Dec Msg TbsProofs FlowProofs DecProofs HdrProofs EncProofs EncCanon EncDec HdrRoundTrip MoreProofs.
From GoCose.Gen Require Import Generated.
Import ListNotations.
Open Scope Z_scope.

(* ---------- presence of a label, through nfind ---------- *)
Lemma glookup_some_nfind want : is_label want -> normalize_label want = Some want ->
  forall h v, glookup want h = Some v -> nfind want h <> None.
Proof.
  intros Hl Hn. induction h as [| |k0 v0 r IH] using pair_ind; intros v H; try discriminate.
  cbn [glookup] in H. cbn [nfind]. destruct (key_eqb want k0) eqn:E.
  - apply key_eqb_label_eq in E; auto. subst k0. rewrite Hn, key_eqb_refl_label by auto. discriminate.
  - destruct (normalize_label k0) as [k0'|]; [destruct (key_eqb want k0'); [discriminate|]|]; eapply IH; eauto.
Qed.

Definition present (want : gv) (h : list gv) : bool := match nfind want h with Some _ => true | None => false end.

Lemma has_label_present h n : has_label h n = present (GInt KInt64 (wrap64 n)) h.
Proof.
  unfold has_label, present, nlookup. rewrite normalize_lbl.
  destruct (glookup (GInt KInt64 (wrap64 n)) h) as [v|] eqn:G; [|reflexivity].
  assert (Hl : is_label (GInt KInt64 (wrap64 n))) by (left; eauto).
  assert (Hn : normalize_label (GInt KInt64 (wrap64 n)) = Some (GInt KInt64 (wrap64 n))) by (cbn; rewrite wrap64_idem; reflexivity).
  pose proof (glookup_some_nfind _ Hl Hn h v G). destruct (nfind (GInt KInt64 (wrap64 n)) h); [reflexivity|contradiction].
Qed.

Lemma present_gset want k v : is_label want -> normalize_label k = Some k ->
  forall h, present want (gset k v h) = present want h || key_eqb want k.
Proof.
  intros Hl Hk. unfold present. induction h as [| |k0 v0 r IH] using pair_ind.
  - cbn [gset nfind]. rewrite Hk. destruct (key_eqb want k); reflexivity.
  - cbn [gset nfind]. rewrite Hk. destruct (key_eqb want k); reflexivity.
  - cbn [gset]. destruct (key_eqb k k0) eqn:E.
    + cbn [nfind]. destruct (normalize_label k0) as [k0'|] eqn:N0.
      * destruct (key_eqb want k0') eqn:E2; [reflexivity|].
        destruct (nfind want r); [reflexivity|]. cbn [orb].
        (* k = k0 (both labels), so normalize k0 = Some k, k0' = k *)
        assert (is_label k) by (eapply normalize_label_is_label; eauto).
        apply key_eqb_label_eq in E; auto. subst k0. rewrite Hk in N0. inversion N0; subst k0'. rewrite E2. reflexivity.
      * assert (is_label k) by (eapply normalize_label_is_label; eauto).
        apply key_eqb_label_eq in E; auto. subst k0. rewrite Hk in N0. discriminate.
    + cbn [nfind]. destruct (normalize_label k0) as [k0'|]; [destruct (key_eqb want k0'); [reflexivity|]|]; exact IH.
Qed.

Lemma cast_alg_has_label dl n : has_label (cast_alg dl) n = has_label dl n.
Proof.
  unfold cast_alg. destruct (alg_of (Some dl)) as [a| | |] eqn:A; try reflexivity.
  rewrite !has_label_present. unfold set_alg.
  rewrite present_gset; [|left; eauto|reflexivity].
  destruct (key_eqb (GInt KInt64 (wrap64 n)) (lbl c_HeaderLabelAlgorithm)) eqn:E; [|apply orb_false_r].
  rewrite orb_true_r.
  (* the alg label is present in dl, because alg_of found it *)
  unfold alg_of, alg_value in A. cbn [hmap] in A.
  destruct (nlookup (lbl c_HeaderLabelAlgorithm) dl) as [v|] eqn:L; [|discriminate].
  assert (HL : has_label dl c_HeaderLabelAlgorithm = true) by (unfold has_label; rewrite L; reflexivity).
  rewrite has_label_present in HL.
  cbn in E. apply Z.eqb_eq in E. rewrite E. change (wrap64 c_HeaderLabelAlgorithm) with c_HeaderLabelAlgorithm in HL. symmetry. exact HL.
Qed.

Lemma cast_alg_alg_of dl : alg_of (Some (cast_alg dl)) = alg_of (Some dl).
Proof.
  unfold cast_alg. destruct (alg_of (Some dl)) as [a| | |] eqn:A; try exact A.
  apply alg_of_set_alg.
Qed.

(* ---------- one bucket, empty or not ---------- *)
Definition bucket_ok (o : option (list gv)) : Prop :=
  match o with
  | Some (x :: r) => simple (GMap (x :: r)) = true /\ (forall k v, entry_in k v (x :: r) -> okval v)
  | _ => True
  end.

Definition prot_limits (o : option (list gv)) : Prop :=
  match o with Some (x :: r) => forall m, enc_hmap true (x :: r) = Acc m -> within_limits m | _ => True end.
Definition unprot_limits (o : option (list gv)) : Prop :=
  match o with Some (x :: r) => forall ub, enc_unprotected o = Acc ub -> within_limits ub | _ => True end.

(* what the decoded bucket says about labels and alg *)
Definition same_view (src dec : list gv) : Prop :=
  (forall n, has_label dec n = has_label src n) /\
  (forall a, alg_of (Some src) = Acc a -> alg_of (Some dec) = Acc a) /\
  (alg_of (Some src) = Rej EAlgNotFound -> alg_of (Some dec) = Rej EAlgNotFound).

Lemma hrel_same_view l dl prot : hrel l dl -> validate_params l prot = true -> same_view l dl.
Proof.
  intros H V. unfold validate_params in V. destruct (norm_labels l) as [ks|] eqn:Hn; [|discriminate].
  apply andb_true_iff in V as [Hd _].
  split; [intros n; eapply hrel_has_label; eauto|].
  pose proof (hrel_lookup l dl ks (lbl c_HeaderLabelAlgorithm) H Hn Hd) as L.
  unfold alg_of. cbn [hmap]. split.
  - intros a A. destruct (nlookup (lbl c_HeaderLabelAlgorithm) l) as [v|]; [|discriminate].
    destruct L as (v' & -> & R). inversion R; subst; cbn in A |- *; try discriminate.
    destruct k; try discriminate; exact A.
  - intros A. destruct (nlookup (lbl c_HeaderLabelAlgorithm) l) as [v|].
    + destruct v; try discriminate A. destruct k; discriminate A.
    + rewrite L. reflexivity.
Qed.

Lemma same_view_cast src dl : same_view src dl -> same_view src (cast_alg dl).
Proof.
  intros (A & B & C). split; [intros n; rewrite cast_alg_has_label; apply A|].
  rewrite cast_alg_alg_of. auto.
Qed.

Lemma same_view_refl l : same_view l l.
Proof. repeat split; auto. Qed.

(* how the decoded bucket is related to the source bucket *)
Definition brel (o : option (list gv)) (dp : list gv) : Prop :=
  match o with
  | Some (x :: r) => exists dl, dp = cast_alg dl /\ hrel (x :: r) dl /\ validate_params (x :: r) true = true
  | _ => dp = []
  end.
Definition urel (o : option (list gv)) (du : list gv) : Prop :=
  match o with
  | Some (x :: r) => hrel (x :: r) du /\ validate_params (x :: r) false = true
  | _ => du = []
  end.

Lemma prot_case o pb :
  bucket_ok o -> prot_limits o -> enc_protected o = Acc pb ->
  exists m dl, pb = ser (tbstr m) /\ short m /\ dec_protected (tbstr m) = Acc dl /\ same_view (hmap o) dl /\ brel o dl.
Proof.
  intros Hok Hlim He. destruct o as [[|x r]|].
  - inversion He; subst. exists [], []. repeat split; auto.
  - destruct Hok as [Hs Hv].
    destruct (dec_protected_of_enc (x :: r) pb ltac:(discriminate) Hs Hv He Hlim) as (m & dl & _ & -> & Sm & _ & D & HR & _ & V & _).
    exists m, (cast_alg dl). split; [reflexivity|]. split; [exact Sm|]. split; [exact D|].
    split; [apply same_view_cast; eapply hrel_same_view; eauto|]. exists dl. auto.
  - inversion He; subst. exists [], []. repeat split; auto.
Qed.

Lemma unprot_case o ub fuel :
  bucket_ok o -> unprot_limits o -> enc_unprotected o = Acc ub ->
  exists w dl, ub = ser w /\ wf w = true /\ dec_unprotected (S fuel) w = Acc dl /\ same_view (hmap o) dl /\ urel o dl.
Proof.
  intros Hok Hlim He. destruct o as [[|x r]|].
  - inversion He; subst. exists (WMap W0 []), []. repeat split; auto.
  - destruct Hok as [Hs Hv].
    destruct (dec_unprotected_of_enc (x :: r) ub fuel ltac:(discriminate) Hs Hv He (Hlim _ He)) as (w & dl & -> & W & _ & _ & D & HR & _ & V & _).
    exists w, dl. split; [reflexivity|]. split; [exact W|]. split; [exact D|]. split; [eapply hrel_same_view; eauto|]. split; auto.
  - inversion He; subst. exists (WMap W0 []), []. repeat split; auto.
Qed.

(* ---------- the message ---------- *)
Lemma ensure_iv_same_view rp p ru u rp' p' ru' u' :
  same_view (hmap p) p' -> same_view (hmap u) u' ->
  ensure_iv (mkH rp' (Some p') ru' (Some u')) = ensure_iv (mkH rp p ru u).
Proof.
  intros (Ap & _) (Au & _). unfold ensure_iv. cbn [hP hU hmap]. rewrite !Ap, !Au. reflexivity.
Qed.

Definition payload_ok (p : gobytes) : Prop := match p with Some b => short b | None => True end.

(* C01, wire leg, COSE_Sign1 (tagged): a message with typed buckets that MarshalCBOR serialises is accepted by
   UnmarshalCBOR; the decoded message keeps the emitted bucket bytes, the payload and the signature, and says the
   same about every label and about alg *)
Theorem sign1_wire_roundtrip op ou payload sig out :
  let h := mkH None op None ou in
  bucket_ok op -> bucket_ok ou -> prot_limits op -> unprot_limits ou ->
  payload_ok payload -> short sig -> sig <> [] ->
  marshal_sign1 (mkS1 h payload (Some sig)) = Acc out ->
  lib_wf false (tl out) <> None ->                          (* the message is within the decoder's nesting / size limits *)
  exists pb ub dp du,
    marshal_protected h = Acc pb /\ marshal_unprotected h = Acc ub /\
    unmarshal_sign1 out = Acc (mkS1 (mkH (Some pb) (Some dp) (Some ub) (Some du)) payload (Some sig)) /\
    same_view (hmap op) dp /\ same_view (hmap ou) du /\ 0 < len pb /\ brel op dp /\ urel ou du.
Proof.
  intros h Hp Hu Lp Lu Hpl Hsg Hne Hm Hlim. subst h.
  unfold marshal_sign1, sign1_content in Hm. cbn [s1_sig s1_h s1_payload glen gor] in Hm.
  destruct (len sig =? 0) eqn:E0; [destruct sig; [contradiction|rewrite len_cons in E0; pose proof (len_nonneg sig); lia]|].
  unfold headers_marshal in Hm. destruct (ensure_iv (mkH None op None ou)) eqn:Iv; cbn [negb] in Hm; [|discriminate].
  unfold marshal_protected, marshal_unprotected in *. cbn [rawP rawU hP hU glen] in *. cbn [Z.ltb] in Hm.
  destruct (enc_protected op) as [pb| | |] eqn:Ep; cbn [bind] in Hm; try discriminate.
  destruct (enc_unprotected ou) as [ub| | |] eqn:Eu; cbn [bind] in Hm; try discriminate.
  cbn [fst snd] in Hm. injection Hm as <-.
  destruct (prot_case op pb Hp Lp Ep) as (m & dp & -> & Sm & Dp & Vp & Bp).
  destruct (unprot_case ou ub 19 Hu Lu Eu) as (wu & du & -> & Wu & Du & Vu & Bu).
  exists (ser (tbstr m)), (ser wu), dp, du. split; [reflexivity|]. split; [reflexivity|].
  set (plw := match payload with Some b => tbstr b | None => WSim W0 22 end).
  assert (Epl : enc_gobytes payload = ser plw) by (destruct payload; reflexivity).
  assert (Wpl : wf plw = true) by (destruct payload; [apply tbstr_wf; exact Hpl|reflexivity]).
  assert (Bpl : bstr_or_nil plw = Acc payload) by (destruct payload; reflexivity).
  set (env := WArr W0 [tbstr m; wu; plw; tbstr sig]).
  assert (Eo : 210 :: 132 :: ser (tbstr m) ++ ser wu ++ enc_gobytes payload ++ enc_bstr sig = 210 :: ser env).
  { rewrite Epl, enc_bstr_ser. unfold env. cbn [ser flat_map]. rewrite app_nil_r. reflexivity. }
  rewrite Eo in *. cbn [tl] in Hlim.
  assert (We : wf env = true).
  { unfold env. cbn [wf forallb length]. rewrite (tbstr_wf _ Sm), Wu, Wpl, (tbstr_wf _ Hsg). reflexivity. }
  assert (De : depth_ok false env 0 = true).
  { unfold lib_wf in Hlim. rewrite parse_full_ser in Hlim by exact We. destruct (depth_ok false env 0); [reflexivity|contradiction]. }
  assert (Dh : dec_headers (tbstr m) wu = Acc (mkH (Some (ser (tbstr m))) (Some dp) (Some (ser wu)) (Some du))).
  { unfold dec_headers. rewrite Dp. cbn [bind]. unfold csig_fuel. change 20%nat with (S 19). rewrite Du. cbn [bind].
    rewrite (ensure_iv_same_view None op None ou _ _ _ _ Vp Vu). rewrite Iv. reflexivity. }
  split.
  - destruct (sign1_conforming_accepted (tbstr m) wu plw (tbstr sig) _ payload sig (minw (len sig)) We De Bpl eq_refl Hne Dh) as [T _].
    exact T.
  - split; [exact Vp|]. split; [exact Vu|]. split; [pose proof (ser_nonempty (tbstr m)); unfold len; lia|]. auto.
Qed.

(* hence: the to-be-signed bytes and the algorithm gate of the decoded message are those of the original *)
Corollary sign1_wire_verifies op ou payload sig out ext vf :
  let h := mkH None op None ou in
  bucket_ok op -> bucket_ok ou -> prot_limits op -> unprot_limits ou ->
  payload_ok payload -> short sig -> sig <> [] ->
  marshal_sign1 (mkS1 h payload (Some sig)) = Acc out -> lib_wf false (tl out) <> None ->
  fst (sign1_verify (mkS1 h payload (Some sig)) ext vf) = Acc tt ->          (* verifies in memory *)
  exists m', unmarshal_sign1 out = Acc m' /\ fst (sign1_verify m' ext vf) = Acc tt.   (* ... and after the wire *)
Proof.
  intros h Hp Hu Lp Lu Hpl Hsg Hne Hm Hlim Hv. subst h.
  destruct (sign1_wire_roundtrip op ou payload sig out Hp Hu Lp Lu Hpl Hsg Hne Hm Hlim) as (pb & ub & dp & du & Mp & Mu & U & Vp & Vu & Lpb & _ & _).
  eexists. split; [exact U|].
  apply sign1_verify_iff in Hv. apply sign1_verify_iff. cbn [s1_payload s1_sig s1_h] in *.
  destruct Hv as (Hpay & Hsig & Hg & t & Ht & Hr). split; [exact Hpay|]. split; [exact Hsig|]. split.
  - (* gate *) unfold ensure_verification_alg in *. cbn [hP] in *. destruct Vp as (_ & Va & Vn).
    destruct (alg_of op) as [a|e| |] eqn:A; try discriminate.
    + replace (alg_of (Some dp)) with (@Acc Z a); [exact Hg|]. symmetry. apply Va. destruct op; exact A.
    + destruct e; try discriminate. replace (alg_of (Some dp)) with (@Rej Z EAlgNotFound); [exact Hg|]. symmetry. apply Vn. destruct op; exact A.
  - (* same bytes handed to the verifier *) exists t. split; [|exact Hr].
    unfold tbs_sign1 in *. unfold marshal_protected in *. cbn [rawP glen gor hP] in *.
    replace (0 <? len pb) with true by lia. cbn [Z.ltb] in Ht. rewrite Mp in Ht. exact Ht.
Qed.

(* C01 for COSE_Sign1, end to end: Sign, MarshalCBOR, UnmarshalCBOR, Verify.  The signer is an arbitrary function,
   the verifier any verifier that accepts the signer's output over the same bytes. *)
Theorem sign1_sign_marshal_unmarshal_verify m ext sg vf op ou payload sig out :
  accepts vf sg ->
  out_res (sign1_sign m ext sg) = Acc tt ->
  out_post (sign1_sign m ext sg) = mkS1 (mkH None op None ou) payload (Some sig) ->   (* typed buckets, as Sign left them *)
  bucket_ok op -> bucket_ok ou -> prot_limits op -> unprot_limits ou ->
  payload_ok payload -> short sig ->
  marshal_sign1 (mkS1 (mkH None op None ou) payload (Some sig)) = Acc out ->
  lib_wf false (tl out) <> None ->
  exists m', unmarshal_sign1 out = Acc m' /\ fst (sign1_verify m' ext vf) = Acc tt.
Proof.
  intros Hacc Hok Hpost Hp Hu Lp Lu Hpl Hsg Hm Hlim.
  assert (Hne : sig <> []).
  { intros ->. unfold marshal_sign1, sign1_content in Hm. cbn in Hm. discriminate. }
  apply (sign1_wire_verifies op ou payload sig out ext vf Hp Hu Lp Lu Hpl Hsg Hne Hm Hlim).
  rewrite <- Hpost. apply sign1_sign_then_verify; auto.
  rewrite Hpost. cbn. destruct sig; [contradiction|]. rewrite len_cons. pose proof (len_nonneg sig). lia.
Qed.

(* ---------- COSE_Sign ---------- *)
Record sig_typed := mkST { st_p : option (list gv); st_u : option (list gv); st_sig : bytes }.

Definition st_ok (s : sig_typed) : Prop :=
  bucket_ok (st_p s) /\ bucket_ok (st_u s) /\ prot_limits (st_p s) /\ unprot_limits (st_u s) /\ short (st_sig s) /\ st_sig s <> [].

Definition st_sigv (s : sig_typed) : sigv := mkSig (mkH None (st_p s) None (st_u s)) (Some (st_sig s)).

(* decoded counterpart of one signature *)
Definition sig_match (s : sig_typed) (s' : sigv) : Prop :=
  exists pb ub dp du,
    marshal_protected (sg_h (st_sigv s)) = Acc pb /\ 0 < len pb /\
    s' = mkSig (mkH (Some pb) (Some dp) (Some ub) (Some du)) (Some (st_sig s)) /\
    same_view (hmap (st_p s)) dp /\ same_view (hmap (st_u s)) du.

Lemma sig_item_roundtrip s bs :
  st_ok s -> marshal_signature (st_sigv s) = Acc bs ->
  exists item s', bs = ser item /\ wf item = true /\ dec_signature_item item = Acc s' /\ sig_match s s' /\
                  (depth_ok false item 1 = true -> True).
Proof.
  intros (Hp & Hu & Lp & Lu & Hsg & Hne) Hm. destruct s as [op ou sig]. unfold st_sigv in *. cbn [st_p st_u st_sig] in *.
  unfold marshal_signature in Hm. cbn [sg_sig sg_h glen gor] in Hm.
  destruct (len sig =? 0) eqn:E0; [destruct sig; [contradiction|rewrite len_cons in E0; pose proof (len_nonneg sig); lia]|].
  unfold headers_marshal in Hm. destruct (ensure_iv (mkH None op None ou)) eqn:Iv; cbn [negb] in Hm; [|discriminate].
  unfold marshal_protected, marshal_unprotected in *. cbn [rawP rawU hP hU glen] in *. cbn [Z.ltb] in Hm.
  destruct (enc_protected op) as [pb| | |] eqn:Ep; cbn [bind] in Hm; try discriminate.
  destruct (enc_unprotected ou) as [ub| | |] eqn:Eu; cbn [bind] in Hm; try discriminate.
  cbn [fst snd] in Hm. injection Hm as <-.
  destruct (prot_case op pb Hp Lp Ep) as (m & dp & -> & Sm & Dp & Vp & _).
  destruct (unprot_case ou ub 19 Hu Lu Eu) as (wu & du & -> & Wu & Du & Vu & _).
  exists (WArr W0 [tbstr m; wu; tbstr sig]), (mkSig (mkH (Some (ser (tbstr m))) (Some dp) (Some (ser wu)) (Some du)) (Some sig)).
  split; [cbn [ser flat_map]; rewrite app_nil_r, enc_bstr_ser; reflexivity|].
  split; [cbn [wf forallb length]; rewrite (tbstr_wf _ Sm), Wu, (tbstr_wf _ Hsg); reflexivity|].
  split.
  - unfold dec_signature_item, is_arr3. cbn [bstr_or_nil tbstr bind glen]. rewrite E0.
    unfold dec_headers. fold (tbstr m). rewrite Dp. cbn [bind]. unfold csig_fuel. change 20%nat with (S 19). rewrite Du. cbn [bind].
    rewrite (ensure_iv_same_view None op None ou _ _ _ _ Vp Vu). rewrite Iv. reflexivity.
  - split; [|auto]. exists (ser (tbstr m)), (ser wu), dp, du. unfold st_sigv. cbn [st_p st_u st_sig sg_h].
    unfold marshal_protected. cbn [rawP glen hP]. cbn [Z.ltb]. rewrite Ep.
    split; [reflexivity|]. split; [pose proof (ser_nonempty (tbstr m)); unfold len; lia|]. auto.
Qed.

Lemma sigs_roundtrip : forall sts bss,
  Forall st_ok sts -> mapM marshal_opt_signature (map (fun s => Some (st_sigv s)) sts) = Acc bss ->
  exists items sigs, bss = map ser items /\ forallb wf items = true /\ length items = length sts /\
                     mapM dec_signature_item items = Acc sigs /\ Forall2 sig_match sts sigs.
Proof.
  induction sts as [|s sts IH]; intros bss HF H; cbn [map mapM] in H.
  - inversion H; subst. exists [], []. repeat split; constructor.
  - inversion HF as [|? ? Hs HF']; subst. cbn [marshal_opt_signature] in H.
    destruct (marshal_signature (st_sigv s)) as [bs| | |] eqn:Ms; cbn [bind] in H; try discriminate.
    destruct (mapM marshal_opt_signature (map (fun s0 => Some (st_sigv s0)) sts)) as [bss'| | |] eqn:Mr; cbn [bind] in H; try discriminate.
    inversion H; subst. destruct (sig_item_roundtrip s bs Hs Ms) as (item & s' & -> & Wi & Di & Mi & _).
    destruct (IH bss' HF' eq_refl) as (items & sigs & -> & Ws & Ls & Ds & Fs).
    exists (item :: items), (s' :: sigs). cbn [map forallb length mapM]. rewrite Wi, Ws, Di, Ds. cbn [bind].
    repeat split; auto.
Qed.

(* one decoded signature verifies whenever its source does *)
Lemma sig_ok_transfer bp payload ext s s' vf :
  sig_match s s' -> sig_ok bp payload ext (Some (st_sigv s)) vf -> sig_ok bp payload ext (Some s') vf.
Proof.
  intros (pb & ub & dp & du & Mp & Lpb & -> & Vp & Vu) (s0 & E & Hv). inversion E; subst s0.
  eexists. split; [reflexivity|]. apply signature_verify_iff in Hv. apply signature_verify_iff.
  cbn [sg_sig sg_h st_sigv] in *. destruct Hv as (Hpay & Hsig & Hb & Hg & t & Ht & Hr).
  split; [exact Hpay|]. split; [exact Hsig|]. split; [exact Hb|]. split.
  - unfold ensure_verification_alg in *. cbn [hP] in *. destruct Vp as (_ & Va & Vn).
    destruct (alg_of (st_p s)) as [a|e| |] eqn:A; try discriminate.
    + replace (alg_of (Some dp)) with (@Acc Z a); [exact Hg|]. symmetry. apply Va. destruct (st_p s); exact A.
    + destruct e; try discriminate. replace (alg_of (Some dp)) with (@Rej Z EAlgNotFound); [exact Hg|]. symmetry. apply Vn. destruct (st_p s); exact A.
  - exists t. split; [|exact Hr]. unfold tbs_signature in *. unfold marshal_protected in *. cbn [rawP glen gor hP] in *.
    replace (0 <? len pb) with true by lia. cbn [Z.ltb] in Ht. rewrite Mp in Ht. exact Ht.
Qed.

Lemma sig_ok_all bp payload ext : forall sts sigs vfs,
  Forall2 sig_match sts sigs ->
  Forall2 (sig_ok bp payload ext) (map (fun s => Some (st_sigv s)) sts) vfs ->
  Forall2 (sig_ok bp payload ext) (map Some sigs) vfs.
Proof.
  induction sts as [|s sts IH]; intros sigs vfs HM HF; inversion HM; subst; cbn [map] in *.
  - exact HF.
  - inversion HF; subst. constructor; [eapply sig_ok_transfer; eauto|apply IH; auto].
Qed.

Lemma concat_map_ser items : concat (map ser items) = flat_map ser items.
Proof. induction items; cbn; auto. rewrite IHitems. reflexivity. Qed.

(* C01, wire leg, COSE_Sign with any number of signers *)
Theorem signmsg_wire_verifies op ou payload sts out ext vfs :
  let m := mkSM (mkH None op None ou) payload (map (fun s => Some (st_sigv s)) sts) in
  bucket_ok op -> bucket_ok ou -> prot_limits op -> unprot_limits ou -> payload_ok payload ->
  Forall st_ok sts -> len sts < two64 ->
  marshal_signmsg m = Acc out -> lib_wf false (tl (tl out)) <> None ->
  fst (signmsg_verify m ext vfs) = Acc tt ->
  exists m', unmarshal_signmsg out = Acc m' /\ fst (signmsg_verify m' ext vfs) = Acc tt.
Proof.
  intros m Hp Hu Lp Lu Hpl Hst Hlen Hm Hlim Hv. subst m.
  unfold marshal_signmsg in Hm. cbn [sm_sigs sm_h sm_payload] in Hm.
  destruct sts as [|s0 sts0]; [discriminate|]. remember (s0 :: sts0) as sts eqn:Es.
  assert (Hmm : (let* pu := headers_marshal (mkH None op None ou) in
                 let* ss := mapM marshal_opt_signature (map (fun s => Some (st_sigv s)) sts) in
                 Acc (enc_head 6 c_CBORTagSignMessage ++ enc_head 4 4 ++ fst pu ++ snd pu ++ enc_gobytes payload ++
                      enc_head 4 (len ss) ++ concat ss)) = Acc out).
  { rewrite Es in *. exact Hm. }
  clear Hm. unfold headers_marshal in Hmm. destruct (ensure_iv (mkH None op None ou)) eqn:Iv; cbn [negb] in Hmm; [|discriminate].
  unfold marshal_protected, marshal_unprotected in Hmm. cbn [rawP rawU hP hU glen] in Hmm. cbn [Z.ltb] in Hmm.
  destruct (enc_protected op) as [pb| | |] eqn:Ep; cbn [bind] in Hmm; try discriminate.
  destruct (enc_unprotected ou) as [ub| | |] eqn:Eu; cbn [bind] in Hmm; try discriminate.
  destruct (mapM marshal_opt_signature (map (fun s => Some (st_sigv s)) sts)) as [bss| | |] eqn:Ms; cbn [bind] in Hmm; try discriminate.
  cbn [fst snd] in Hmm.
  destruct (prot_case op pb Hp Lp Ep) as (mm & dp & -> & Sm & Dp & Vp & _).
  destruct (unprot_case ou ub 19 Hu Lu Eu) as (wu & du & -> & Wu & Du & Vu & _).
  destruct (sigs_roundtrip sts bss Hst Ms) as (items & sigs & -> & Wi & Li & Di & Fi).
  set (plw := match payload with Some b => tbstr b | None => WSim W0 22 end).
  assert (Epl : enc_gobytes payload = ser plw) by (destruct payload; reflexivity).
  assert (Wpl : wf plw = true) by (destruct payload; [apply tbstr_wf; exact Hpl|reflexivity]).
  assert (Bpl : bstr_or_nil plw = Acc payload) by (destruct payload; reflexivity).
  set (env := WArr W0 [tbstr mm; wu; plw; WArr (minw (len items)) items]).
  assert (Hni : items <> []) by (intros ->; rewrite Es in Li; discriminate Li).
  assert (Lit : 0 <= len items < two64) by (pose proof (len_nonneg items); unfold len in *; rewrite Li; lia).
  assert (Eo : out = 216 :: 98 :: ser env).
  { injection Hmm as <-. rewrite Epl. unfold env. cbn [ser flat_map]. rewrite app_nil_r, concat_map_ser.
    replace (len (map ser items)) with (len items) by (unfold len; rewrite map_length; reflexivity).
    unfold enc_head. cbn. rewrite <- !app_assoc. reflexivity. }
  subst out. cbn [tl] in Hlim.
  assert (We : wf env = true).
  { unfold env. cbn [wf forallb length]. rewrite (tbstr_wf _ Sm), Wu, Wpl, Wi, (minw_fits _ Lit). reflexivity. }
  assert (De : depth_ok false env 0 = true).
  { unfold lib_wf in Hlim. rewrite parse_full_ser in Hlim by exact We. destruct (depth_ok false env 0); [reflexivity|contradiction]. }
  assert (Dh : dec_headers (tbstr mm) wu = Acc (mkH (Some (ser (tbstr mm))) (Some dp) (Some (ser wu)) (Some du))).
  { unfold dec_headers. rewrite Dp. cbn [bind]. unfold csig_fuel. change 20%nat with (S 19). rewrite Du. cbn [bind].
    rewrite (ensure_iv_same_view None op None ou _ _ _ _ Vp Vu). rewrite Iv. reflexivity. }
  eexists. split.
  - apply (signmsg_conforming_accepted (tbstr mm) wu plw (minw (len items)) items _ payload sigs We De Bpl Hni Di Dh).
  - apply signmsg_verify_iff in Hv. apply signmsg_verify_iff. cbn [sm_payload sm_sigs sm_h] in *.
    destruct Hv as (Hpay & Hne & Hl & bp & Mbp & HF).
    split; [exact Hpay|]. split; [destruct sigs; [rewrite Es in Fi; inversion Fi|discriminate]|].
    split; [rewrite map_length in *; rewrite <- Hl; symmetry; apply (forall2_length _ _ _ Fi)|].
    exists bp. split.
    + unfold marshal_protected in *. cbn [rawP glen gor hP] in *. cbn [Z.ltb] in Mbp. rewrite Ep in Mbp. inversion Mbp; subst bp.
      pose proof (ser_nonempty (tbstr mm)). replace (0 <? len (ser (tbstr mm))) with true by (unfold len; lia). reflexivity.
    + eapply sig_ok_all; eauto.
Qed.
Print Assumptions signmsg_wire_verifies.

(* the premises are satisfiable: a message with alg and kid protected, a content type unprotected *)
Example wire_example :
  let op := Some [GInt KInt64 1; GInt KAlg (-7); GInt KInt64 4; GBytes [107]] in
  let ou := Some [GInt KInt 3; GStr (x "612f62")] in
  let sg := mkSigner (-7) (fun _ => SOk (Some [1; 2; 3])) in
  let m := mkS1 (mkH None op None ou) (Some [112]) None in
  out_res (sign1_sign m None sg) = Acc tt /\
  out_post (sign1_sign m None sg) = mkS1 (mkH None op None ou) (Some [112]) (Some [1; 2; 3]) /\
  bucket_ok op /\ bucket_ok ou /\
  marshal_sign1 (mkS1 (mkH None op None ou) (Some [112]) (Some [1; 2; 3])) = Acc (x "d28446a2012604416ba10363612f62417043010203").
Proof.
  cbv zeta. split; [vm_compute; reflexivity|]. split; [vm_compute; reflexivity|].
  split; [split; [vm_compute; reflexivity|]|].
  { intros k v [[-> ->]|[[-> ->]|[]]]; repeat split; try discriminate; vm_compute; reflexivity. }
  split; [split; [vm_compute; reflexivity|]|vm_compute; reflexivity].
  intros k v [[-> ->]|[]]; repeat split; try discriminate; vm_compute; reflexivity.
Qed.

Print Assumptions sign1_sign_marshal_unmarshal_verify.

(* ---------------- countersignatures through the wire ---------------- *)
(* the decoded holder verifies against the same parent whenever the holder it was serialised from does *)
Lemma csig_verify_transfer s s' vf target ext :
  sig_match s s' ->
  fst (csig_verify (st_sigv s) vf target ext) = Acc tt -> fst (csig_verify s' vf target ext) = Acc tt.
Proof.
  intros (pb & ub & dp & du & Mp & Lpb & -> & Vp & Vu) Hv.
  apply csig_verify_iff in Hv. apply csig_verify_iff.
  cbn [sg_sig sg_h st_sigv] in *. destruct Hv as (Hsig & Hg & t & Ht & Hr).
  split; [exact Hsig|]. split.
  - unfold ensure_verification_alg in *. cbn [hP] in *. destruct Vp as (_ & Va & Vn).
    destruct (alg_of (st_p s)) as [a|e| |] eqn:A; try discriminate.
    + replace (alg_of (Some dp)) with (@Acc Z a); [exact Hg|]. symmetry. apply Va. destruct (st_p s); exact A.
    + destruct e; try discriminate. replace (alg_of (Some dp)) with (@Rej Z EAlgNotFound); [exact Hg|]. symmetry. apply Vn. destruct (st_p s); exact A.
  - exists t. split; [|exact Hr]. unfold csig_tbs in *. unfold marshal_protected in *. cbn [sg_h rawP glen gor hP] in *.
    replace (0 <? len pb) with true by lia. unfold st_sigv in Ht. cbn [sg_h rawP hP glen gor Z.ltb Z.compare] in Ht, Mp.
    rewrite Mp in Ht. exact Ht.
Qed.

(* a COSE_Countersignature with typed buckets that verifies against its parent: its serialisation is accepted by the
   decoder, and the decoded holder verifies against the same parent, for every kind of parent and any verifier *)
Theorem csig_wire_verifies s bs vf target ext :
  st_ok s -> marshal_signature (st_sigv s) = Acc bs ->
  fst (csig_verify (st_sigv s) vf target ext) = Acc tt ->
  exists item s', bs = ser item /\ wf item = true /\ dec_signature_item item = Acc s' /\
                  sg_sig s' = Some (st_sig s) /\
                  fst (csig_verify s' vf target ext) = Acc tt.
Proof.
  intros Hok Hm Hv.
  destruct (sig_item_roundtrip s bs Hok Hm) as (item & s' & -> & Wi & Di & Mi & _).
  exists item, s'. repeat split; auto.
  - destruct Mi as (pb & ub & dp & du & _ & _ & -> & _). reflexivity.
  - eapply csig_verify_transfer; eauto.
Qed.
