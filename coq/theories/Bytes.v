(* Bytes.v — byte strings as lists of Z in [0,256), big-endian integers, hex. *)
From Coq Require Import Ascii String ZArith List Lia Bool.
Import ListNotations.
Open Scope Z_scope.

Definition bytes := list Z.

Definition byte_ok (b : Z) : bool := (0 <=? b) && (b <? 256).
Definition bytes_ok (l : bytes) : bool := forallb byte_ok l.

Definition len {A} (l : list A) : Z := Z.of_nat (length l).

Fixpoint bytes_eqb (a b : bytes) : bool :=
  match a, b with
  | [], [] => true
  | x :: a', y :: b' => (x =? y) && bytes_eqb a' b'
  | _, _ => false
  end.

(* lexicographic (bytewise) strict order, shorter prefix first *)
Fixpoint bytes_ltb (a b : bytes) : bool :=
  match a, b with
  | [], [] => false
  | [], _ :: _ => true
  | _ :: _, [] => false
  | x :: a', y :: b' => if x <? y then true else if y <? x then false else bytes_ltb a' b'
  end.

(* big-endian encoding of n on k bytes *)
Fixpoint be_enc (k : nat) (n : Z) : bytes :=
  match k with
  | O => []
  | S k' => be_enc k' (n / 256) ++ [n mod 256]
  end.

Fixpoint be_dec_acc (l : bytes) (acc : Z) : Z :=
  match l with
  | [] => acc
  | b :: r => be_dec_acc r (acc * 256 + b)
  end.
Definition be_dec (l : bytes) : Z := be_dec_acc l 0.

(* ---- hex (only used to write test vectors / correspondence cases) ---- *)
Definition hexval (c : ascii) : Z :=
  let n := Z.of_nat (nat_of_ascii c) in
  if (48 <=? n) && (n <=? 57) then n - 48
  else if (97 <=? n) && (n <=? 102) then n - 87
  else if (65 <=? n) && (n <=? 70) then n - 55
  else 0.

Fixpoint unhex (s : string) : bytes :=
  match s with
  | String a (String b r) => (hexval a * 16 + hexval b) :: unhex r
  | _ => []
  end.

Definition x := unhex.

(* n copies of byte b, n given as Z (for long test payloads) *)
Definition rep (n : Z) (b : Z) : bytes := repeat b (Z.to_nat n).

(* ASCII string to bytes *)
Fixpoint str_bytes (s : string) : bytes :=
  match s with
  | EmptyString => []
  | String a r => Z.of_nat (nat_of_ascii a) :: str_bytes r
  end.

(* ------------------------------------------------------------------ *)
(* Lemmas                                                             *)
(* ------------------------------------------------------------------ *)

Lemma byte_ok_iff b : byte_ok b = true <-> 0 <= b < 256.
Proof. unfold byte_ok. rewrite andb_true_iff, Z.leb_le, Z.ltb_lt. tauto. Qed.

Lemma bytes_ok_app a b : bytes_ok (a ++ b) = bytes_ok a && bytes_ok b.
Proof. apply forallb_app. Qed.

Lemma bytes_ok_firstn n l : bytes_ok l = true -> bytes_ok (firstn n l) = true.
Proof.
  revert l; induction n as [|n IH]; intros [|a l]; simpl; auto.
  rewrite !andb_true_iff. intros [H1 H2]. split; auto.
Qed.

Lemma bytes_ok_skipn n l : bytes_ok l = true -> bytes_ok (skipn n l) = true.
Proof.
  revert l; induction n as [|n IH]; intros [|a l]; simpl; auto.
  rewrite !andb_true_iff. intros [H1 H2]. auto.
Qed.

Lemma len_app {A} (a b : list A) : len (a ++ b) = len a + len b.
Proof. unfold len. rewrite app_length. lia. Qed.

Lemma len_nonneg {A} (a : list A) : 0 <= len a.
Proof. unfold len. lia. Qed.

Lemma len_cons {A} (a : A) l : len (a :: l) = 1 + len l.
Proof. unfold len. simpl length. lia. Qed.

Lemma len_nil {A} : len (@nil A) = 0.
Proof. reflexivity. Qed.

Lemma bytes_eqb_refl a : bytes_eqb a a = true.
Proof. induction a; simpl; auto. rewrite Z.eqb_refl. auto. Qed.

Lemma bytes_eqb_eq a b : bytes_eqb a b = true <-> a = b.
Proof.
  split.
  - revert b; induction a as [|x a IH]; intros [|y b]; simpl; try discriminate; auto.
    rewrite andb_true_iff, Z.eqb_eq. intros [-> H]. f_equal; auto.
  - intros ->. apply bytes_eqb_refl.
Qed.

Lemma bytes_ltb_irrefl a : bytes_ltb a a = false.
Proof. induction a; simpl; auto. rewrite Z.ltb_irrefl. auto. Qed.

Lemma bytes_ltb_trans a b c :
  bytes_ltb a b = true -> bytes_ltb b c = true -> bytes_ltb a c = true.
Proof.
  revert b c; induction a as [|x a IH]; intros [|y b] [|z c]; simpl; try discriminate; auto.
  destruct (x <? y) eqn:E1; destruct (y <? z) eqn:E2;
  destruct (y <? x) eqn:E3; destruct (z <? y) eqn:E4;
  destruct (x <? z) eqn:E5; destruct (z <? x) eqn:E6; try discriminate; auto;
  rewrite ?Z.ltb_lt, ?Z.ltb_ge in *; try lia.
  intros. eapply IH; eauto.
Qed.

Lemma bytes_ltb_total a b :
  bytes_ltb a b = false -> bytes_ltb b a = false -> a = b.
Proof.
  revert b; induction a as [|x a IH]; intros [|y b]; simpl; try discriminate; auto.
  destruct (x <? y) eqn:E1; destruct (y <? x) eqn:E2; try discriminate.
  rewrite Z.ltb_ge in *. intros. f_equal; [lia| auto].
Qed.

Lemma bytes_ltb_asym a b : bytes_ltb a b = true -> bytes_ltb b a = false.
Proof.
  intros H. destruct (bytes_ltb b a) eqn:E; auto.
  pose proof (bytes_ltb_trans _ _ _ H E) as T. rewrite bytes_ltb_irrefl in T. discriminate.
Qed.

Lemma be_enc_length k n : length (be_enc k n) = k.
Proof. revert n; induction k; intros; simpl; auto. rewrite app_length, IHk. simpl. lia. Qed.

Lemma be_enc_ok k n : bytes_ok (be_enc k n) = true.
Proof.
  revert n; induction k; intros; simpl; auto.
  rewrite bytes_ok_app, IHk. simpl. rewrite andb_true_r.
  apply byte_ok_iff. apply Z.mod_pos_bound. lia.
Qed.

Lemma be_dec_acc_app a b acc : be_dec_acc (a ++ b) acc = be_dec_acc b (be_dec_acc a acc).
Proof. revert acc; induction a; intros; simpl; auto. Qed.

Lemma be_dec_enc_acc k n acc :
  0 <= n < 256 ^ Z.of_nat k -> be_dec_acc (be_enc k n) acc = acc * 256 ^ Z.of_nat k + n.
Proof.
  revert n acc; induction k as [|k IH]; intros n acc H.
  - simpl in *. lia.
  - cbn [be_enc]. rewrite be_dec_acc_app.
    replace (Z.of_nat (S k)) with (Z.of_nat k + 1) in * by lia.
    rewrite Z.pow_add_r in * by lia. rewrite Z.pow_1_r in *.
    rewrite IH.
    + cbn [be_dec_acc]. pose proof (Z.div_mod n 256 ltac:(lia)). lia.
    + split. { apply Z.div_pos; lia. } apply Z.div_lt_upper_bound; lia.
Qed.

Lemma be_dec_enc k n : 0 <= n < 256 ^ Z.of_nat k -> be_dec (be_enc k n) = n.
Proof. intros. unfold be_dec. rewrite be_dec_enc_acc; auto. Qed.

Lemma be_dec_acc_bound l acc :
  bytes_ok l = true -> 0 <= acc ->
  acc * 256 ^ len l <= be_dec_acc l acc < (acc + 1) * 256 ^ len l.
Proof.
  revert acc; induction l as [|b l IH]; intros acc Hok Hacc.
  - cbn. lia.
  - cbn [bytes_ok forallb] in Hok. apply andb_true_iff in Hok as [Hb Hl].
    apply byte_ok_iff in Hb. cbn [be_dec_acc].
    rewrite len_cons. rewrite Z.pow_add_r by (pose proof (len_nonneg l); lia).
    specialize (IH (acc * 256 + b) Hl ltac:(lia)).
    pose proof (Z.pow_pos_nonneg 256 (len l) ltac:(lia) (len_nonneg l)). nia.
Qed.

Lemma be_dec_bound l : bytes_ok l = true -> 0 <= be_dec l < 256 ^ len l.
Proof. intros H. pose proof (be_dec_acc_bound l 0 H ltac:(lia)). unfold be_dec. lia. Qed.

Lemma be_enc_dec_acc l acc :
  bytes_ok l = true -> 0 <= acc ->
  be_enc (length l) (be_dec_acc l acc) = be_enc (length l) 0 ++ [] -> True.
Proof. auto. Qed.

(* be_enc on (length l) of the decoded value gives back l *)
Lemma be_enc_app_digit k n b :
  0 <= b < 256 -> be_enc (S k) (n * 256 + b) = be_enc k n ++ [b].
Proof.
  intros Hb. cbn [be_enc]. f_equal.
  - f_equal. rewrite Z.div_add_l by lia. rewrite Z.div_small by lia. lia.
  - f_equal. rewrite Z.add_comm, Z.mod_add by lia. apply Z.mod_small; lia.
Qed.

Lemma be_enc_dec_snoc l :
  bytes_ok l = true -> be_enc (length l) (be_dec l) = l.
Proof.
  induction l as [|b l IH] using rev_ind; intros Hok; [reflexivity|].
  rewrite bytes_ok_app in Hok. apply andb_true_iff in Hok as [Hl Hb].
  cbn in Hb. rewrite andb_true_r in Hb. apply byte_ok_iff in Hb.
  unfold be_dec. rewrite be_dec_acc_app. cbn [be_dec_acc].
  rewrite app_length. cbn [length]. replace (length l + 1)%nat with (S (length l)) by lia.
  rewrite be_enc_app_digit by lia. f_equal. apply IH; auto.
Qed.

Lemma firstn_skipn_len {A} (n : nat) (l : list A) :
  (n <= length l)%nat -> length (firstn n l) = n.
Proof. intros. rewrite firstn_length. lia. Qed.
