(* KeyProofs.v — COSE_Key: coordinates keep their full length and survive the
   conversion (C14), accepted keys are consistent and their restrictions are
   enforced (C15), built-in signers / verifiers exist only for matching,
   adequate keys (C17). *)
From Coq Require Import Ascii String ZArith List Lia Bool Arith ZifyBool.
From GoCose Require Import Bytes Cbor Res GoVal Fx Headers Enc HashEnv Key SigVer.
From GoCose.Gen Require Import Generated.
Import ListNotations.
Open Scope Z_scope.

(* ------------------------------------------------------------------ *)
(* C14: coordinates                                                     *)
(* ------------------------------------------------------------------ *)
Lemma pow256 n : 0 <= n -> 256 ^ n = 2 ^ (8 * n).
Proof. intros H. rewrite Z.pow_mul_r by lia. reflexivity. Qed.

(* big.Int.Bytes(): minimal big-endian bytes *)
Lemma zbytes_spec d : 0 < d ->
  bytes_ok (zbytes d) = true /\ be_dec (zbytes d) = d /\ 0 < len (zbytes d) /\
  (forall n, 0 <= n -> d < 256 ^ n -> len (zbytes d) <= n).
Proof.
  intros Hd. unfold zbytes. destruct (d <=? 0) eqn:E; [lia|].
  pose proof (Z.log2_nonneg d) as Hl.
  assert (Hk : 0 <= Z.log2 d / 8) by (apply Z.div_pos; lia).
  split; [apply be_enc_ok|]. split; [|split].
  - apply be_dec_enc. rewrite Z2Nat.id by lia. split; [lia|].
    rewrite pow256 by lia. apply Z.log2_lt_pow2; [lia|].
    pose proof (Z.mod_pos_bound (Z.log2 d) 8 ltac:(lia)). pose proof (Z.div_mod (Z.log2 d) 8 ltac:(lia)). lia.
  - unfold len. rewrite be_enc_length, Z2Nat.id by lia. lia.
  - intros n Hn Hlt. unfold len. rewrite be_enc_length, Z2Nat.id by lia.
    rewrite pow256 in Hlt by lia. apply Z.log2_lt_pow2 in Hlt; [|lia].
    pose proof (Z.mod_pos_bound (Z.log2 d) 8 ltac:(lia)). pose proof (Z.div_mod (Z.log2 d) 8 ltac:(lia)). lia.
Qed.

Lemma be_dec_acc_zeros n l acc : be_dec_acc (repeat 0 n ++ l) acc = be_dec_acc l (acc * 256 ^ Z.of_nat n).
Proof.
  revert acc; induction n as [|n IH]; intros acc.
  - cbn. f_equal. lia.
  - cbn [repeat app be_dec_acc]. rewrite IH. f_equal.
    replace (Z.of_nat (S n)) with (Z.of_nat n + 1) by lia. rewrite Z.pow_add_r by lia. lia.
Qed.

(* MarshalCBOR's padding: left-padding with zeros changes the length, not the value *)
Theorem pad_to_spec size b :
  len b <= size -> len (pad_to size b) = size /\ be_dec (pad_to size b) = be_dec b.
Proof.
  intros H. unfold pad_to. split.
  - rewrite len_app. unfold len at 1. rewrite repeat_length. pose proof (len_nonneg b). lia.
  - unfold be_dec. rewrite be_dec_acc_zeros. reflexivity.
Qed.

(* the constructors keep big.Int.Bytes() (minimal length) except for the value 0, which is stored as `size` zero
   octets; in every case the stored coordinate is non-empty, fits the field size and denotes the same integer *)
Theorem ec_coord_spec v size :
  0 < size -> 0 <= v < 256 ^ size ->
  0 < len (ec_coord v size) <= size /\ bytes_ok (ec_coord v size) = true /\ be_dec (ec_coord v size) = v.
Proof.
  intros Hs Hv. unfold ec_coord. destruct (v =? 0) eqn:E.
  - apply Z.eqb_eq in E. subst v. unfold len. rewrite repeat_length, Z2Nat.id by lia.
    split; [lia|]. split.
    + clear. induction (Z.to_nat size); cbn; auto.
    + unfold be_dec. rewrite <- (app_nil_r (repeat 0 _)), be_dec_acc_zeros. reflexivity.
  - apply Z.eqb_neq in E. replace (Z.abs v) with v by lia.
    destruct (zbytes_spec v ltac:(lia)) as (Ho & Hd & Hp & Hb). specialize (Hb size ltac:(lia) ltac:(lia)). auto.
Qed.

(* the field sizes come from the translated table *)
Example field_sizes : curve_size c_CurveP256 = 32 /\ curve_size c_CurveP384 = 48 /\ curve_size c_CurveP521 = 66 /\
                      field_size 256 = 32 /\ field_size 384 = 48 /\ field_size 521 = 66.
Proof. repeat split; reflexivity. Qed.

(* in-memory conversion of a public key and back, for the three curves *)
Definition supported_bits (bits : Z) : Prop := bits = 256 \/ bits = 384 \/ bits = 521.

Lemma len_glen b : glen (Some b) = len b.
Proof. reflexivity. Qed.

Definition curve_triple (crv alg bits : Z) : Prop :=
  (crv = 1 /\ alg = -7 /\ bits = 256) \/ (crv = 2 /\ alg = -35 /\ bits = 384) \/ (crv = 3 /\ alg = -36 /\ bits = 521).

Definition ec2_public_key (crv alg : Z) (cx cy : bytes) : key :=
  mkKey c_KeyTypeEC2 None alg None None
        (Some ([lbl c_KeyLabelEC2Curve; GInt KCurve crv] ++ opt_entry c_KeyLabelEC2X (Some cx) ++
               opt_entry c_KeyLabelEC2Y (Some cy) ++ opt_entry c_KeyLabelEC2D None)).

Lemma ec2_public_key_converts crv alg bits cx cy :
  curve_triple crv alg bits -> 0 < len cx <= field_size bits -> 0 < len cy <= field_size bits ->
  key_validate (ec2_public_key crv alg cx cy) 0 = Acc tt /\
  key_public (ec2_public_key crv alg cx cy) = Acc (PubEC bits (be_dec cx) (be_dec cy)) /\
  key_x (ec2_public_key crv alg cx cy) = Some cx /\ key_y (ec2_public_key crv alg cx cy) = Some cy.
Proof.
  intros Ht Hx Hy.
  assert (V : forall op, op = 0 \/ op = c_KeyOpVerify -> key_validate (ec2_public_key crv alg cx cy) op = Acc tt).
  { intros op Hop. destruct Ht as [(-> & -> & ->)|[(-> & -> & ->)|(-> & -> & ->)]]; destruct Hop as [-> | ->];
    change (field_size 256) with 32 in *; change (field_size 384) with 48 in *; change (field_size 521) with 66 in *;
    unfold key_validate, ec2_public_key, key_crv, key_x, key_y, key_d, param_int, param_bytes, decode_int, decode_bytes, kparams;
    cbn;
    repeat match goal with
           | |- context [?a <? ?b] => destruct (Z.ltb_spec a b); try lia
           | |- context [?a =? ?b] => destruct (Z.eqb_spec a b); try lia
           end; cbn; reflexivity. }
  split; [apply V; auto|]. split; [|split; reflexivity].
  unfold key_public. rewrite V by auto. cbn [bind].
  destruct Ht as [(-> & -> & ->)|[(-> & -> & ->)|(-> & -> & ->)]]; reflexivity.
Qed.

(* converting a Go public key to a COSE_Key and back gives the same key; the stored
   coordinates are non-empty, fit the field size and denote the same integers
   (MarshalCBOR pads them to exactly the field size: pad_to_spec, KeyCbor.v) *)
Theorem public_key_roundtrip crv alg bits x y :
  curve_triple crv alg bits ->
  0 <= x < 256 ^ field_size bits -> 0 <= y < 256 ^ field_size bits ->
  exists k, new_key_from_public (PubEC bits x y) = Acc k /\ key_public k = Acc (PubEC bits x y) /\
            (exists cx cy, key_x k = Some cx /\ key_y k = Some cy /\
                           0 < len cx <= field_size bits /\ 0 < len cy <= field_size bits /\ be_dec cx = x /\ be_dec cy = y).
Proof.
  intros Ht Hx Hy.
  assert (Hs : 0 < field_size bits) by (destruct Ht as [(_ & _ & ->)|[(_ & _ & ->)|(_ & _ & ->)]]; reflexivity).
  destruct (ec_coord_spec x _ Hs Hx) as (Lx & _ & Dx).
  destruct (ec_coord_spec y _ Hs Hy) as (Ly & _ & Dy).
  destruct (ec2_public_key_converts crv alg bits _ _ Ht Lx Ly) as (V & P & Kx & Ky).
  exists (ec2_public_key crv alg (ec_coord x (field_size bits)) (ec_coord y (field_size bits))).
  split.
  - unfold new_key_from_public.
    assert (A : alg_from_curve bits = alg /\ tbl_lookup tbl_NewKeyEC2_curve alg = Some crv)
      by (destruct Ht as [(-> & -> & ->)|[(-> & -> & ->)|(-> & -> & ->)]]; split; reflexivity).
    destruct A as [A1 A2]. rewrite A1.
    replace (alg =? c_AlgorithmReserved) with false
      by (destruct Ht as [(_ & -> & _)|[(_ & -> & _)|(_ & -> & _)]]; reflexivity).
    unfold new_key_ec2. rewrite A2. fold (ec2_public_key crv alg (ec_coord x (field_size bits)) (ec_coord y (field_size bits))).
    rewrite V. reflexivity.
  - split; [rewrite P, Dx, Dy; reflexivity|].
    eexists _, _. repeat split; eauto; lia.
Qed.

(* ------------------------------------------------------------------ *)
(* C15: accepted keys are consistent                                    *)
(* ------------------------------------------------------------------ *)
Ltac bstep :=
  match goal with
  | |- context [bind ?X _] => let E := fresh "E" in destruct X eqn:E; cbn [bind]; try discriminate
  end.

(* whatever the decoder accepts went through Key.validate and has a non-reserved key type *)
Theorem key_unmarshal_validated data k :
  key_unmarshal data = Acc k -> key_validate k 0 = Acc tt /\ k_type k <> c_KeyTypeReserved.
Proof.
  unfold key_unmarshal. destruct (lib_wf true data) as [w|]; [|discriminate].
  destruct (skip_tags (strip_sd w)) as [x|]; [|discriminate]. destruct x; try discriminate.
  bstep. destruct a; try discriminate.
  bstep. destruct (negb (snd a)); [discriminate|].
  destruct (fst a =? c_KeyTypeReserved) eqn:Kt; [discriminate|].
  repeat bstep.
  intros H; inversion H; subst.
  match goal with u : unit |- _ => destruct u end.
  split; auto. cbn [k_type]. unfold c_KeyTypeReserved in *. lia.
Qed.

(* what validation means for EC2 and OKP keys *)
Theorem key_validate_ec2 k op :
  key_validate k op = Acc tt -> k_type k = c_KeyTypeEC2 ->
  key_crv k <> c_CurveReserved /\
  ~ In (key_crv k) [c_CurveX25519; c_CurveX448; c_CurveEd25519; c_CurveEd448] /\
  (0 < curve_size (key_crv k) ->
     glen (key_x k) <= curve_size (key_crv k) /\ glen (key_y k) <= curve_size (key_crv k) /\
     glen (key_d k) <= curve_size (key_crv k)) /\
  (k_alg k <> c_AlgorithmReserved -> derive_alg k = Acc (k_alg k)) /\
  (op = c_KeyOpVerify -> glen (key_x k) <> 0 /\ glen (key_y k) <> 0) /\
  (op = c_KeyOpSign -> glen (key_d k) <> 0).
Proof.
  unfold key_validate. intros H Ht. rewrite Ht in H. cbn [Z.eqb c_KeyTypeEC2 Pos.eqb] in H.
  destruct ((op =? c_KeyOpVerify) && ((glen (key_x k) =? 0) || (glen (key_y k) =? 0))) eqn:C1; [discriminate|].
  destruct ((op =? c_KeyOpSign) && (glen (key_d k) =? 0)) eqn:C2; [discriminate|].
  destruct ((key_crv k =? c_CurveReserved) || ((glen (key_x k) =? 0) && (glen (key_y k) =? 0) && (glen (key_d k) =? 0))) eqn:C3; [discriminate|].
  destruct ((0 <? curve_size (key_crv k)) && ((curve_size (key_crv k) <? glen (key_x k)) || (curve_size (key_crv k) <? glen (key_y k)) || (curve_size (key_crv k) <? glen (key_d k)))) eqn:C4; [discriminate|].
  destruct (invalid_curve tbl_validate_invalid_curves c_KeyTypeEC2 (key_crv k)) eqn:C5; [discriminate|].
  cbn [bind] in H.
  split; [lia|]. split.
  { cbn in C5. cbn. intros [E|[E|[E|[E|[]]]]]; rewrite <- E in C5; cbn in C5; discriminate. }
  split; [intros Hs; lia|]. split.
  { intros Ha. destruct (k_alg k =? c_AlgorithmReserved) eqn:Ea; [lia|].
    destruct (derive_alg k) as [a| | |]; cbn [bind] in H; try discriminate.
    destruct (k_alg k =? a) eqn:Eq; [|discriminate]. f_equal. lia. }
  split; intros ->; [rewrite Z.eqb_refl in C1|rewrite Z.eqb_refl in C2]; lia.
Qed.

Theorem key_validate_okp k op :
  key_validate k op = Acc tt -> k_type k = c_KeyTypeOKP ->
  key_crv k <> c_CurveReserved /\
  ~ In (key_crv k) [c_CurveP256; c_CurveP384; c_CurveP521] /\
  (glen (key_x k) = 0 \/ glen (key_x k) = 32) /\ (glen (key_d k) = 0 \/ glen (key_d k) = 32) /\
  (k_alg k <> c_AlgorithmReserved -> derive_alg k = Acc (k_alg k)) /\
  (op = c_KeyOpVerify -> glen (key_x k) <> 0) /\ (op = c_KeyOpSign -> glen (key_d k) <> 0).
Proof.
  unfold key_validate. intros H Ht. rewrite Ht in H. cbn [Z.eqb c_KeyTypeEC2 c_KeyTypeOKP Pos.eqb] in H.
  destruct ((op =? c_KeyOpVerify) && (glen (key_x k) =? 0)) eqn:C1; [discriminate|].
  destruct ((op =? c_KeyOpSign) && (glen (key_d k) =? 0)) eqn:C2; [discriminate|].
  destruct ((key_crv k =? c_CurveReserved) || ((glen (key_x k) =? 0) && (glen (key_d k) =? 0))) eqn:C3; [discriminate|].
  destruct (((0 <? glen (key_x k)) && negb (glen (key_x k) =? std_ed25519_PublicKeySize)) || ((0 <? glen (key_d k)) && negb (glen (key_d k) =? std_ed25519_SeedSize))) eqn:C4; [discriminate|].
  destruct (invalid_curve tbl_validate_invalid_curves c_KeyTypeOKP (key_crv k)) eqn:C5; [discriminate|].
  cbn [bind] in H.
  assert (Gx : 0 <= glen (key_x k)) by (unfold glen; destruct (key_x k); [apply len_nonneg|lia]).
  assert (Gd : 0 <= glen (key_d k)) by (unfold glen; destruct (key_d k); [apply len_nonneg|lia]).
  unfold std_ed25519_PublicKeySize, std_ed25519_SeedSize in C4.
  split; [lia|]. split.
  { cbn in C5. cbn. intros [E|[E|[E|[]]]]; rewrite <- E in C5; cbn in C5; discriminate. }
  split; [lia|]. split; [lia|]. split.
  { intros Ha. destruct (k_alg k =? c_AlgorithmReserved) eqn:Ea; [lia|].
    destruct (derive_alg k) as [a| | |]; cbn [bind] in H; try discriminate.
    destruct (k_alg k =? a) eqn:Eq; [|discriminate]. f_equal. lia. }
  split; intros ->; [rewrite Z.eqb_refl in C1|rewrite Z.eqb_refl in C2]; lia.
Qed.

(* the algorithm a key fixes: only the four (key type, curve) pairs of the translated table *)
Theorem derive_alg_table k a :
  derive_alg k = Acc a ->
  (k_type k = c_KeyTypeEC2 /\ key_crv k = c_CurveP256 /\ a = c_AlgorithmES256) \/
  (k_type k = c_KeyTypeEC2 /\ key_crv k = c_CurveP384 /\ a = c_AlgorithmES384) \/
  (k_type k = c_KeyTypeEC2 /\ key_crv k = c_CurveP521 /\ a = c_AlgorithmES512) \/
  (k_type k = c_KeyTypeOKP /\ key_crv k = c_CurveEd25519 /\ a = c_AlgorithmEdDSA).
Proof.
  unfold derive_alg, tbl_deriveAlgorithm. cbn [derive_lookup].
  repeat match goal with
         | |- context [if ?c then _ else _] => destruct c eqn:?
         end; intros H; inversion H; subst; cbv [c_KeyTypeEC2 c_KeyTypeOKP c_CurveP256 c_CurveP384 c_CurveP521 c_CurveEd25519
                                                 c_AlgorithmES256 c_AlgorithmES384 c_AlgorithmES512 c_AlgorithmEdDSA]; lia.
Qed.

(* a signer is granted only with private material, when key_ops (if present)
   include sign, for the algorithm fixed by the key, never for symmetric or unsupported keys *)
Theorem key_signer_restrictions k a :
  key_signer k = Acc a ->
  can_op k c_KeyOpSign = true /\ key_validate k c_KeyOpSign = Acc tt /\ derive_alg k = Acc a /\
  (k_type k = c_KeyTypeEC2 \/ k_type k = c_KeyTypeOKP) /\ glen (key_d k) <> 0.
Proof.
  unfold key_signer. destruct (can_op k c_KeyOpSign) eqn:Co; cbn [negb]; [|discriminate].
  unfold key_private. destruct (key_validate k c_KeyOpSign) as [[]| | |] eqn:V; cbn [bind]; try discriminate.
  destruct (derive_alg k) as [d| | |] eqn:D; cbn [bind]; try discriminate.
  intros H.
  assert (Ha : a = d).
  { unfold alg_or_default in H. rewrite D in H.
    destruct (negb (k_alg k =? c_AlgorithmReserved)) eqn:Ea.
    - (* explicit alg: validation made it equal to the derived one *)
      unfold key_validate in V.
      match type of V with (let* _ := ?X in _) = _ => destruct X as [[]| | |]; cbn [bind] in V; try discriminate end.
      destruct (k_alg k =? c_AlgorithmReserved) eqn:Eb; [discriminate|]. rewrite D in V. cbn [bind] in V.
      destruct (k_alg k =? d) eqn:Ec; [|discriminate].
      repeat match type of H with context [if ?c then _ else _] => destruct c end; cbn [bind] in H;
        try discriminate; inversion H; lia.
    - repeat match type of H with context [if ?c then _ else _] => destruct c end; cbn [bind] in H;
        try discriminate; inversion H; reflexivity. }
  subst d. split; auto. split; auto. split; auto.
  apply derive_alg_table in D as [(T & _)|[(T & _)|[(T & _)|(T & _)]]]; (split; [auto|]).
  all: try (destruct (key_validate_ec2 k _ V T) as (_ & _ & _ & _ & _ & S); apply S; reflexivity).
  destruct (key_validate_okp k _ V T) as (_ & _ & _ & _ & _ & _ & S); apply S; reflexivity.
Qed.

Theorem key_verifier_restrictions k oc a :
  key_verifier k oc = Acc a ->
  can_op k c_KeyOpVerify = true /\ key_validate k c_KeyOpVerify = Acc tt /\ derive_alg k = Acc a /\
  (k_type k = c_KeyTypeEC2 \/ k_type k = c_KeyTypeOKP) /\ glen (key_x k) <> 0.
Proof.
  unfold key_verifier. destruct (can_op k c_KeyOpVerify) eqn:Co; cbn [negb]; [|discriminate].
  unfold key_public. destruct (key_validate k c_KeyOpVerify) as [[]| | |] eqn:V; cbn [bind]; try discriminate.
  destruct (derive_alg k) as [d| | |] eqn:D; cbn [bind]; try discriminate.
  intros H.
  assert (Ha : a = d).
  { unfold alg_or_default in H. rewrite D in H.
    destruct (negb (k_alg k =? c_AlgorithmReserved)) eqn:Ea.
    - unfold key_validate in V.
      match type of V with (let* _ := ?X in _) = _ => destruct X as [[]| | |]; cbn [bind] in V; try discriminate end.
      destruct (k_alg k =? c_AlgorithmReserved) eqn:Eb; [discriminate|]. rewrite D in V. cbn [bind] in V.
      destruct (k_alg k =? d) eqn:Ec; [|discriminate].
      repeat match type of H with context [if ?c then _ else _] => destruct c end; cbn [bind] in H;
        try discriminate; try (destruct oc; try discriminate); inversion H; lia.
    - repeat match type of H with context [if ?c then _ else _] => destruct c end; cbn [bind] in H;
        try discriminate; try (destruct oc; try discriminate); inversion H; reflexivity. }
  subst d. split; auto. split; auto. split; auto.
  apply derive_alg_table in D as [(T & _)|[(T & _)|[(T & _)|(T & _)]]]; (split; [auto|]).
  all: try (destruct (key_validate_ec2 k _ V T) as (_ & _ & _ & _ & S & _); apply S; reflexivity).
  destruct (key_validate_okp k _ V T) as (_ & _ & _ & _ & _ & S & _); apply S; reflexivity.
Qed.

(* key_ops present without the operation: refused with the documented error *)
Theorem key_ops_enforced k oc :
  (can_op k c_KeyOpSign = false -> key_signer k = Rej EOpNotSupported) /\
  (can_op k c_KeyOpVerify = false -> key_verifier k oc = Rej EOpNotSupported).
Proof. unfold key_signer, key_verifier. split; intros ->; reflexivity. Qed.

(* ------------------------------------------------------------------ *)
(* C17: built-in signers / verifiers                                    *)
(* ------------------------------------------------------------------ *)
Definition rsa_alg (a : Z) : Prop := a = c_AlgorithmPS256 \/ a = c_AlgorithmPS384 \/ a = c_AlgorithmPS512.
Definition ecdsa_alg (a : Z) : Prop := a = c_AlgorithmES256 \/ a = c_AlgorithmES384 \/ a = c_AlgorithmES512.

Definition signer_spec (alg : Z) (kd : keydesc) : Prop :=
  (rsa_alg alg /\ exists bits, kd = KRSA bits /\ 2048 <= bits) \/
  (ecdsa_alg alg /\ exists v, kd = KECDSA v) \/
  (alg = c_AlgorithmEdDSA /\ kd = KEd25519).

Definition verifier_spec (alg : Z) (kd : keydesc) : Prop :=
  (rsa_alg alg /\ exists bits, kd = KRSA bits /\ 2048 <= bits) \/
  (ecdsa_alg alg /\ kd = KECDSA true) \/
  (alg = c_AlgorithmEdDSA /\ kd = KEd25519).

Ltac alg_cases alg :=
  unfold family_lookup, tbl_NewSigner_family, tbl_NewVerifier_family; cbn [existsb];
  destruct (alg =? -37) eqn:?; cbn [orb];
  [|destruct (alg =? -38) eqn:?; cbn [orb];
    [|destruct (alg =? -39) eqn:?; cbn [orb];
      [|destruct (alg =? -7) eqn:?; cbn [orb];
        [|destruct (alg =? -35) eqn:?; cbn [orb];
          [|destruct (alg =? -36) eqn:?; cbn [orb];
            [|destruct (alg =? -8) eqn:?; cbn [orb];
              [|destruct (alg =? 0) eqn:?; cbn [orb];
                [|destruct (alg =? -257) eqn:?; cbn [orb];
                  [|destruct (alg =? -258) eqn:?; cbn [orb];
                    [|destruct (alg =? -259) eqn:?; cbn [orb]]]]]]]]]]].

Theorem new_signer_spec alg kd a : new_signer alg kd = Acc a <-> a = alg /\ signer_spec alg kd.
Proof.
  unfold new_signer, signer_spec, rsa_alg, ecdsa_alg,
    c_AlgorithmPS256, c_AlgorithmPS384, c_AlgorithmPS512, c_AlgorithmES256, c_AlgorithmES384, c_AlgorithmES512, c_AlgorithmEdDSA.
  alg_cases alg; cbn [String.eqb Ascii.eqb Bool.eqb andb];
    destruct kd as [bits|v| |]; try (destruct (bits <? 2048) eqn:?);
    (split; [intros H; inversion H; subst; split; auto; try (left; split; [lia|eexists; split; [reflexivity|lia]]);
                try (right; left; split; [lia|eexists; reflexivity]); try (right; right; split; [lia|reflexivity])
            |intros [-> [[Ha [b [Hk Hb]]]|[[Ha [v' Hk]]|[Ha Hk]]]]; try discriminate; try lia; try (inversion Hk; subst; try lia); try reflexivity]).
Qed.

Theorem new_verifier_spec alg kd a : new_verifier alg kd = Acc a <-> a = alg /\ verifier_spec alg kd.
Proof.
  unfold new_verifier, verifier_spec, rsa_alg, ecdsa_alg,
    c_AlgorithmPS256, c_AlgorithmPS384, c_AlgorithmPS512, c_AlgorithmES256, c_AlgorithmES384, c_AlgorithmES512, c_AlgorithmEdDSA.
  alg_cases alg; cbn [String.eqb Ascii.eqb Bool.eqb andb];
    destruct kd as [bits|v| |]; try (destruct (bits <? 2048) eqn:?); try destruct v;
    (split; [intros H; inversion H; subst; split; auto; try (left; split; [lia|eexists; split; [reflexivity|lia]]);
                try (right; left; split; [lia|reflexivity]); try (right; right; split; [lia|reflexivity])
            |intros [-> [[Ha [b [Hk Hb]]]|[[Ha Hk]|[Ha Hk]]]]; try discriminate; try lia; try (inversion Hk; subst; try lia); try reflexivity]).
Qed.

(* reserved, RS* and unknown algorithms: ErrAlgorithmNotSupported, whatever the key *)
Theorem unsupported_algorithms alg kd :
  ~ rsa_alg alg -> ~ ecdsa_alg alg -> alg <> c_AlgorithmEdDSA ->
  new_signer alg kd = Rej EAlgNotSupported /\ new_verifier alg kd = Rej EAlgNotSupported.
Proof.
  unfold rsa_alg, ecdsa_alg, new_signer, new_verifier,
    c_AlgorithmPS256, c_AlgorithmPS384, c_AlgorithmPS512, c_AlgorithmES256, c_AlgorithmES384, c_AlgorithmES512, c_AlgorithmEdDSA.
  intros H1 H2 H3. alg_cases alg; try lia; cbn [String.eqb Ascii.eqb Bool.eqb andb]; auto.
Qed.

(* the hash of each algorithm, total over all algorithm ids *)
Theorem hash_func_spec a :
  hash_func a = (if (a =? -37) || (a =? -7) || (a =? -16) then std_crypto_SHA256
                 else if (a =? -38) || (a =? -35) || (a =? -43) then std_crypto_SHA384
                 else if (a =? -39) || (a =? -36) || (a =? -44) then std_crypto_SHA512 else 0).
Proof.
  unfold hash_func, tbl_hashFunc, tbl_hashFunc_default. cbn [tbl_lookup existsb].
  repeat match goal with |- context [?x =? ?y] => destruct (x =? y) eqn:?; cbn [orb] end; reflexivity.
Qed.

(* signing a message is signing its digest under the algorithm's hash; verifying likewise *)
Theorem digest_equivalence (Hash : Z -> bytes -> bytes) (SD : Z -> bytes -> option bytes) (VD : Z -> bytes -> bytes -> bool) alg content sig :
  builtin_sign Hash SD alg content = SD alg (Hash (hash_func alg) content) /\
  builtin_verify Hash VD alg content sig = VD alg (Hash (hash_func alg) content) sig.
Proof. split; reflexivity. Qed.
