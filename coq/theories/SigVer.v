(* SigVer.v — model of signer.go / verifier.go: which (algorithm, key) pairs
   yield a built-in signer / verifier. *)
From Coq Require Import Ascii String ZArith List Lia Bool.
From GoCose Require Import Bytes Res HashEnv.
From GoCose.Gen Require Import Generated.
Import ListNotations.
Open Scope Z_scope.

(* what NewSigner / NewVerifier look at in a key *)
Inductive keydesc :=
| KRSA (bits : Z)                       (* RSA, modulus bit length *)
| KECDSA (valid_point : bool)           (* ECDSA; valid_point: PublicKey.ECDH() succeeds (on a supported curve, on the curve, not infinity) *)
| KEd25519
| KForeign.                             (* any other public key type *)

Fixpoint family_lookup (t : list (list Z * string * Z)) (alg : Z) : option (string * Z) :=
  match t with
  | [] => None
  | (algs, fam, minbits) :: r => if existsb (Z.eqb alg) algs then Some (fam, minbits) else family_lookup r alg
  end.

Definition new_signer (alg : Z) (kd : keydesc) : res Z :=
  match family_lookup tbl_NewSigner_family alg with
  | None => Rej EAlgNotSupported
  | Some (fam, minbits) =>
    if String.eqb fam "*rsa.PublicKey" then
      match kd with KRSA bits => if bits <? minbits then Rej EOther else Acc alg | _ => Rej EInvalidPubKey end
    else if String.eqb fam "*ecdsa.PublicKey" then
      match kd with KECDSA _ => Acc alg | _ => Rej EInvalidPubKey end
    else if String.eqb fam "ed25519.PublicKey" then
      match kd with KEd25519 => Acc alg | _ => Rej EInvalidPubKey end
    else Rej EAlgNotSupported
  end.

Definition new_verifier (alg : Z) (kd : keydesc) : res Z :=
  match family_lookup tbl_NewVerifier_family alg with
  | None => Rej EAlgNotSupported
  | Some (fam, minbits) =>
    if String.eqb fam "*rsa.PublicKey" then
      match kd with KRSA bits => if bits <? minbits then Rej EOther else Acc alg | _ => Rej EInvalidPubKey end
    else if String.eqb fam "*ecdsa.PublicKey" then
      match kd with KECDSA ok => if ok then Acc alg else Rej EInvalidPubKey | _ => Rej EInvalidPubKey end
    else if String.eqb fam "ed25519.PublicKey" then
      match kd with KEd25519 => Acc alg | _ => Rej EInvalidPubKey end
    else Rej EAlgNotSupported
  end.

(* Built-in Sign / Verify hash then call the digest entry point. *)
Section Digest.
  Variable Hash : Z -> bytes -> bytes.                  (* crypto.Hash id -> message -> digest *)
  Variable SignDigest : Z -> bytes -> option bytes.     (* alg -> digest -> signature (key and entropy fixed) *)
  Variable VerifyDigest : Z -> bytes -> bytes -> bool.  (* alg -> digest -> signature -> ok *)
  Definition builtin_sign (alg : Z) (content : bytes) : option bytes := SignDigest alg (Hash (hash_func alg) content).
  Definition builtin_verify (alg : Z) (content sig : bytes) : bool := VerifyDigest alg (Hash (hash_func alg) content) sig.
End Digest.
