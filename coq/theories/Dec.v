(* Dec.v — decode side of go-cose: byteString, header buckets (with nested
   countersignatures), COSE_Signature, COSE_Sign1 (tagged / untagged), COSE_Sign. *)
From Coq Require Import Ascii String ZArith List Lia Bool.
From GoCose Require Import Bytes Cbor Res GoVal Fx Headers.
From GoCose.Gen Require Import Generated.
Import ListNotations.
Open Scope Z_scope.

(* byteString.UnmarshalCBOR on one item: bstr, or exactly f6 *)
Definition bstr_or_nil (x : wire) : res gobytes :=
  match x with
  | WSim W0 22 => Acc None
  | WStr false _ b => Acc (Some b)
  | _ => Rej EOther
  end.

(* a header label on the wire (headerLabelValidator after the library stripped
   self-described tags): int within int64, or valid UTF-8 text *)
Definition label_of_wire (k : wire) : res gv :=
  match strip_sd k with
  | WInt false _ n => if n <=? maxint64 then Acc (GInt KInt64 n) else Rej EOther
  | WInt true _ n => if n <=? maxint64 then Acc (GInt KInt64 (-1 - n)) else Rej EOther
  | WStr true _ s => if utf8_valid s then Acc (GStr s) else Rej EOther
  | _ => Rej EOther
  end.

(* validateHeaderLabelCBOR: labels int/tstr and unique; every value passes the
   built-in tag check *)
Fixpoint labels_pass (l : list wire) : res (list gv) :=
  match l with
  | k :: v :: r =>
      comb (label_of_wire k)
           (comb (if builtin_tag_ok (strip_sd v) then Acc tt else Rej EOther) (labels_pass r) (fun _ ks => Acc ks))
           (fun k' ks => Acc (k' :: ks))
  | _ => Acc []
  end.

(* values of a generic bucket, decoded to `any` *)
Fixpoint values_pass (l : list wire) : res (list gv) :=
  match l with
  | _ :: v :: r => comb (dec true v) (values_pass r) (fun v' vs => Acc (v' :: vs))
  | _ => Acc []
  end.

Fixpoint zip_flat (ks vs : list gv) : list gv :=
  match ks, vs with
  | k :: ks', v :: vs' => k :: v :: zip_flat ks' vs'
  | _, _ => []
  end.

(* cast to type Algorithm if alg presents *)
Definition cast_alg (m : list gv) : list gv :=
  match alg_of (Some m) with
  | Acc a => set_alg m a
  | _ => m
  end.

(* ProtectedHeader.UnmarshalCBOR on the item p *)
Definition dec_protected (p : wire) : res (list gv) :=
  match p with
  | WStr false _ [] => Acc []
  | WStr false _ ((a :: _) as content) =>
      if negb (a / 32 =? 5) then Rej EOther
      else match lib_wf true content with
           | Some (WMap _ l) =>
               let* ks := labels_pass l in
               if negb (keys_nodup ks) then Rej EOther
               else
                 let* vs := values_pass l in
                 let m := zip_flat ks vs in
                 if validate_params m true then Acc (cast_alg m) else Rej EOther
           | _ => Rej EOther
           end
  | _ => Rej EOther
  end.

(* COSE_Signature / COSE_Countersignature fields, before header decoding *)
Definition is_arr3 (x : wire) : option (wire * wire * wire) :=
  match x with WArr W0 [p; u; s] => Some (p, u, s) | _ => None end.

(* UnprotectedHeader.UnmarshalCBOR on the map item u.  fuel bounds the nesting
   of countersignatures (each level costs two CBOR nesting levels, the library
   allows 32). *)
Fixpoint dec_unprotected (fuel : nat) (u : wire) {struct fuel} : res (list gv) :=
  match fuel with
  | O => Unm
  | S f =>
    let dec_sig (x : wire) : res gv :=
        (* Signature.UnmarshalCBOR on the item x (tags forbidden inside) *)
        match is_arr3 x with
        | None => Rej EOther
        | Some (p, uu, s) =>
            if negb (notags x && depth_ok false x 0) then Rej EOther
            else
              let* sg := bstr_or_nil s in
              if glen sg =? 0 then Rej EEmptySig
              else
                let* pm := dec_protected p in
                let* um := dec_unprotected f uu in
                let h := mkH (Some (ser p)) (Some pm) (Some (ser uu)) (Some um) in
                if ensure_iv h then Acc (GCsig (Some (ser p)) (Some pm) (Some (ser uu)) (Some um) sg)
                else Rej EOther
        end in
    let dec_csig_value (v : wire) : res gv :=
        (* unmarshalAsCountersignature: one object, else a non-empty list of objects *)
        let v := strip_sd v in
        if negb (builtin_tag_ok v) then Rej EOther
        else match dec_sig v with
             | Acc c => Acc c
             | Unm => Unm
             | Panic => Panic
             | Rej _ =>
                 match v with                  (* a list is an array: a tagged item is refused (fixed, F10) *)
                 | WArr _ ((_ :: _) as l) =>
                     (* whatever fails inside, the caller sees one generic error *)
                     match (fix go (l : list wire) : res (list gv) :=
                              match l with
                              | [] => Acc []
                              | y :: r =>
                                  let y := strip_sd y in
                                  comb (if builtin_tag_ok y then dec_sig y else Rej EOther) (go r)
                                       (fun c cs => Acc (c :: cs))
                              end) l with
                     | Acc cs => Acc (GCsigs cs)
                     | Rej _ => Rej EOther
                     | Panic => Panic
                     | Unm => Unm
                     end
                 | _ => Rej EOther
                 end
             end in
    match u with
    | WMap _ l =>
        let* ks := labels_pass l in
        if negb (keys_nodup ks) then Rej EOther
        else
          let* vs := (fix go (l : list wire) (ks : list gv) : res (list gv) :=
                        match l, ks with
                        | _ :: v :: r, k :: ks' =>
                            let is_cs := match k with
                                         | GInt KInt64 n => (n =? c_HeaderLabelCounterSignature) || (n =? c_HeaderLabelCounterSignatureV2)
                                         | _ => false
                                         end in
                            comb (if is_cs then dec_csig_value v else dec true v) (go r ks')
                                 (fun v' vs => Acc (v' :: vs))
                        | _, _ => Acc []
                        end) l ks in
          let m := zip_flat ks vs in
          if validate_params m false then Acc m else Rej EOther
    | _ => Rej EOther
    end
  end.

Definition csig_fuel : nat := 20.

(* Headers.UnmarshalFromRaw on the two raw items *)
Definition dec_headers (p u : wire) : res headers :=
  let* pm := dec_protected p in
  let* um := dec_unprotected csig_fuel u in
  let h := mkH (Some (ser p)) (Some pm) (Some (ser u)) (Some um) in
  if ensure_iv h then Acc h else Rej EOther.

(* ---- messages ---- *)
Record sign1 := mkS1 { s1_h : headers; s1_payload : gobytes; s1_sig : gobytes }.
Record sigv := mkSig { sg_h : headers; sg_sig : gobytes }.
(* SignMessage.Signatures: []*Signature, None = nil pointer *)
Record signmsg := mkSM { sm_h : headers; sm_payload : gobytes; sm_sigs : list (option sigv) }.

(* doUnmarshal on the 4-array item (already known well-formed, no tags) *)
Definition dec_sign1_arr (x : wire) : res sign1 :=
  match x with
  | WArr W0 [p; u; pl; sg] =>
      let* payload := bstr_or_nil pl in
      let* sig := bstr_or_nil sg in
      if glen sig =? 0 then Rej EEmptySig
      else let* h := dec_headers p u in Acc (mkS1 h payload sig)
  | _ => Rej EOther
  end.

Fixpoint has_prefix (p b : bytes) : bool :=
  match p, b with
  | [], _ => true
  | x :: p', y :: b' => (x =? y) && has_prefix p' b'
  | _, _ => false
  end.

(* Sign1Message.UnmarshalCBOR *)
Definition unmarshal_sign1 (data : bytes) : res sign1 :=
  if negb (has_prefix v_sign1MessagePrefix data) then Rej EOther
  else match lib_wf false (tl data) with
       | Some x => dec_sign1_arr x
       | None => Rej EOther
       end.

(* UntaggedSign1Message.UnmarshalCBOR *)
Definition unmarshal_sign1_untagged (data : bytes) : res sign1 :=
  match data with
  | [] => Rej EOther
  | a :: _ =>
      if negb (a =? nth 1 v_sign1MessagePrefix 0) then Rej EOther
      else match lib_wf false data with
           | Some x => dec_sign1_arr x
           | None => Rej EOther
           end
  end.

(* Signature.UnmarshalCBOR / Countersignature.UnmarshalCBOR *)
Definition dec_signature_item (x : wire) : res sigv :=
  match is_arr3 x with
  | None => Rej EOther
  | Some (p, u, s) =>
      let* sg := bstr_or_nil s in
      if glen sg =? 0 then Rej EEmptySig
      else let* h := dec_headers p u in Acc (mkSig h sg)
  end.

Definition unmarshal_signature (data : bytes) : res sigv :=
  if negb (has_prefix v_signaturePrefix data) then Rej EOther
  else match lib_wf false data with
       | Some x => dec_signature_item x
       | None => Rej EOther
       end.

(* SignMessage.UnmarshalCBOR *)
Definition unmarshal_signmsg (data : bytes) : res signmsg :=
  if negb (has_prefix v_signMessagePrefix data) then Rej EOther
  else match lib_wf false (tl (tl data)) with
       | Some (WArr W0 [p; u; pl; sgs]) =>
           let* payload := bstr_or_nil pl in
           let* items := (match sgs with
                          | WArr _ l => Acc l
                          | WSim W0 22 | WSim W0 23 => Acc []       (* nil slice *)
                          | _ => Rej EOther
                          end) in
           match items with
           | [] => Rej ENoSigs
           | _ =>
               let* sigs := mapM dec_signature_item items in
               let* h := dec_headers p u in
               Acc (mkSM h payload (map Some sigs))
           end
       | _ => Rej EOther
       end.

(* standalone bucket decoders *)
Definition unmarshal_protected (data : bytes) : res (list gv) :=
  match data with
  | [] => Rej EOther
  | _ =>
    match lib_wf false data with
    | Some x => dec_protected x
    | None => Rej EOther
    end
  end.

Definition unmarshal_unprotected (data : bytes) : res (list gv) :=
  match data with
  | [] => Rej EOther
  | a :: _ =>
    if negb (a / 32 =? 5) then Rej EOther
    else match lib_wf true data with
         | Some x => dec_unprotected csig_fuel x
         | None => Rej EOther
         end
  end.
