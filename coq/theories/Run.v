(* Run.v — the operations the correspondence check runs on both sides, and how
   model results are rendered as observation trees. *)
From Coq Require Import Ascii String ZArith List Bool.
From GoCose Require Import Bytes Cbor Res GoVal Obs Ecdsa Fx Headers Enc Dec Msg HashEnv Key SigVer.
Import ListNotations.
Open Scope Z_scope.

(* scripted keys *)
Definition sspec := (Z * sigout)%type.               (* algorithm, what Sign returns *)
Definition vspec := (Z * res unit)%type.             (* algorithm, what Verify returns *)
Definition mk_signer (s : sspec) : signer := mkSigner (fst s) (fun _ => snd s).
Definition mk_verifier (v : vspec) : verifier := mkVerifier (fst v) (fun _ _ => snd v).

Inductive deckind := DSign1 | DSign1U | DSignature | DSignMsg | DProt | DUnprot | DKey.

Inductive op :=
(* ECDSA framing (C16) *)
| OpEcdsaSign (n : Z) (src : option (Z * Z))
| OpEcdsaVerify (n : Z) (sig : bytes) (oracle : bool)
(* decoders: value, then its re-encoding *)
| OpDec (k : deckind) (data : bytes)
(* a history of decodes into one destination variable *)
| OpDecSeq (k : deckind) (datas : list bytes)
(* encoders on in-memory values *)
| OpEncSign1 (tagged : bool) (m : sign1)
| OpEncSignature (s : sigv)
| OpEncSignMsg (m : signmsg)
| OpEncProt (p : option (list gv))
| OpEncUnprot (u : option (list gv))
| OpEncKey (k : key)
(* sign / verify *)
| OpSign1 (m : sign1) (ext : gobytes) (sg : sspec)
| OpVerify1 (m : sign1) (ext : gobytes) (vf : vspec)
| OpHelperSign1 (tagged : bool) (h : headers) (payload ext : gobytes) (sg : sspec)
| OpSigSign (s : sigv) (sg : sspec) (bodyprot : bytes) (payload ext : gobytes)
| OpSigVerify (s : sigv) (vf : vspec) (bodyprot : bytes) (payload ext : gobytes)
| OpSignMsg (m : signmsg) (ext : gobytes) (sgs : list sspec)
| OpVerifyMsg (m : signmsg) (ext : gobytes) (vfs : list vspec)
| OpCsign (s : sigv) (sg : sspec) (target : parent) (ext : gobytes)
| OpCverify (s : sigv) (vf : vspec) (target : parent) (ext : gobytes)
| OpCsign0 (sg : sspec) (target : parent) (ext : gobytes)
| OpCverify0 (vf : vspec) (target : parent) (ext sig : gobytes)
| OpSignHE (sg : sspec) (h : headers) (p : hepayload)
| OpVerifyHE (vf : vspec) (data : bytes)
(* keys *)
| OpKeyFromPub (p : pubkey)
| OpKeyFromPriv (p : privkey)
| OpKeyPublic (k : key)
| OpKeyPrivate (k : key)
| OpKeySigner (k : key)
| OpKeyVerifier (k : key) (on_curve : bool)
| OpNewSigner (alg : Z) (kd : keydesc)
| OpNewVerifier (alg : Z) (kd : keydesc)
(* library-level probes used to keep the CBOR model honest *)
| OpDecAny (data : bytes)                      (* decMode.Unmarshal(data, &any) *)
| OpEncAny (g : gv)                            (* encMode.Marshal(g) *)
.

(* ---------------- renderers ---------------- *)
Definition o_map (m : option (list gv)) : ot :=
  match m with None => OT "nil" [] | Some l => OG (GMap l) end.
Definition o_headers (h : headers) : ot :=
  OT "H" [o_gobytes (rawP h); o_map (hP h); o_gobytes (rawU h); o_map (hU h)].
Definition o_sign1 (m : sign1) : ot := OT "S1" [o_headers (s1_h m); o_gobytes (s1_payload m); o_gobytes (s1_sig m)].
Definition o_sigv (s : sigv) : ot := OT "SG" [o_headers (sg_h s); o_gobytes (sg_sig s)].
Definition o_optsig (s : option sigv) : ot := match s with None => OT "nil" [] | Some s => o_sigv s end.
Definition o_signmsg (m : signmsg) : ot :=
  OT "SM" [o_headers (sm_h m); o_gobytes (sm_payload m); OT "sigs" (map o_optsig (sm_sigs m))].
Definition o_key (k : key) : ot :=
  OT "K" [OZ (k_type k); o_gobytes (k_id k); OZ (k_alg k);
          match k_ops k with None => OT "nil" [] | Some l => OT "ops" (map OZ l) end;
          o_gobytes (k_baseiv k); o_map (k_params k)].
Definition r_calls (l : list bytes) : ot := OT "calls" (map OB l).
Definition r_vcalls (l : list (bytes * gobytes)) : ot :=
  OT "vcalls" (map (fun c => OT "c" [OB (fst c); o_gobytes (snd c)]) l).
Definition o_unit_res (r : res unit) : ot := o_res (fun _ => []) r.
Definition o_bytes_res (r : res bytes) : ot := o_res (fun b => [OB b]) r.
Definition o_pub (p : pubkey) : ot :=
  match p with
  | PubEC b x y => OT "ec" [OZ b; OZ x; OZ y]
  | PubEd x => OT "ed" [OB x]
  | PubOther => OT "other" []
  end.
Definition o_priv (p : privkey) : ot :=
  match p with
  | PrivEC b x y d => OT "ec" [OZ b; OZ x; OZ y; OZ d]
  | PrivEd sk => OT "ed" [OB (firstn 32 sk)]       (* seed; the public half comes from the primitive *)
  | PrivOther => OT "other" []
  end.

(* decode + re-encode *)
Definition run_dec (k : deckind) (data : bytes) : ot :=
  match k with
  | DSign1 => o_res (fun m => [o_sign1 m; o_bytes_res (marshal_sign1 m)]) (unmarshal_sign1 data)
  | DSign1U => o_res (fun m => [o_sign1 m; o_bytes_res (marshal_sign1_untagged m)]) (unmarshal_sign1_untagged data)
  | DSignature => o_res (fun s => [o_sigv s; o_bytes_res (marshal_signature s)]) (unmarshal_signature data)
  | DSignMsg => o_res (fun m => [o_signmsg m; o_bytes_res (marshal_signmsg m)]) (unmarshal_signmsg data)
  | DProt => o_res (fun p => [OG (GMap p); o_bytes_res (enc_protected (Some p))]) (unmarshal_protected data)
  | DUnprot => o_res (fun u => [OG (GMap u); o_bytes_res (enc_unprotected (Some u))]) (unmarshal_unprotected data)
  | DKey => o_res (fun k => [o_key k; o_bytes_res (key_marshal k)]) (key_unmarshal data)
  end.

(* destination after a history of decodes: the last accepted value, else "zero" *)
Definition dec_value (k : deckind) (data : bytes) : res ot :=
  match k with
  | DSign1 => rmap o_sign1 (unmarshal_sign1 data)
  | DSign1U => rmap o_sign1 (unmarshal_sign1_untagged data)
  | DSignature => rmap o_sigv (unmarshal_signature data)
  | DSignMsg => rmap o_signmsg (unmarshal_signmsg data)
  | DProt => rmap (fun p => OG (GMap p)) (unmarshal_protected data)
  | DUnprot => rmap (fun p => OG (GMap p)) (unmarshal_unprotected data)
  | DKey => rmap o_key (key_unmarshal data)
  end.

Fixpoint run_seq (k : deckind) (datas : list bytes) (dest : ot) (verdicts : list ot) : ot :=
  match datas with
  | [] => OT "seq" [dest; OT "verdicts" (rev verdicts)]
  | d :: r =>
      match dec_value k d with
      | Acc v => run_seq k r v (OT "ok" [] :: verdicts)
      | Rej e => run_seq k r dest (o_err e :: verdicts)
      | Panic => o_panic
      | Unm => o_unm
      end
  end.

Definition o_outcome {A} (f : A -> ot) (o : outcome A) : ot :=
  match out_res o with
  | Unm => o_unm
  | Panic => o_panic
  | r => OT "out" [o_unit_res r; f (out_post o); r_calls (out_calls o)]
  end.

Definition o_verify (p : res unit * list (bytes * gobytes)) : ot :=
  match fst p with
  | Unm => o_unm
  | Panic => o_panic
  | r => OT "ver" [o_unit_res r; r_vcalls (snd p)]
  end.

Definition run (o : op) : ot :=
  match o with
  | OpEcdsaSign n src => o_res (fun b => [OB b]) (sign_digest (Z.to_nat n) src)
  | OpEcdsaVerify n sig oracle => o_unit_res (verify_digest (Z.to_nat n) (fun _ _ => oracle) sig)
  | OpDec k data => run_dec k data
  | OpDecSeq k datas => run_seq k datas (OT "zero" []) []
  | OpEncSign1 tagged m => o_bytes_res (if tagged then marshal_sign1 m else marshal_sign1_untagged m)
  | OpEncSignature s => o_bytes_res (marshal_signature s)
  | OpEncSignMsg m => o_bytes_res (marshal_signmsg m)
  | OpEncProt p => o_bytes_res (enc_protected p)
  | OpEncUnprot u => o_bytes_res (enc_unprotected u)
  | OpEncKey k => o_bytes_res (key_marshal k)
  | OpSign1 m ext sg => o_outcome o_sign1 (sign1_sign m ext (mk_signer sg))
  | OpVerify1 m ext vf => o_verify (sign1_verify m ext (mk_verifier vf))
  | OpHelperSign1 tagged h payload ext sg =>
      let '(r, callerP, calls) := helper_sign1 tagged h payload ext (mk_signer sg) in
      match r with
      | Unm => o_unm | Panic => o_panic
      | _ => OT "helper" [o_bytes_res r; o_map callerP; r_calls calls]
      end
  | OpSigSign s sg bp payload ext => o_outcome o_sigv (signature_sign s (mk_signer sg) bp payload ext)
  | OpSigVerify s vf bp payload ext => o_verify (signature_verify s (mk_verifier vf) bp payload ext)
  | OpSignMsg m ext sgs => o_outcome o_signmsg (signmsg_sign m ext (map mk_signer sgs))
  | OpVerifyMsg m ext vfs => o_verify (signmsg_verify m ext (map mk_verifier vfs))
  | OpCsign s sg target ext => o_outcome o_sigv (csig_sign s (mk_signer sg) target ext)
  | OpCverify s vf target ext => o_verify (csig_verify s (mk_verifier vf) target ext)
  | OpCsign0 sg target ext =>
      let '(r, calls) := countersign0 (mk_signer sg) target ext in
      match r with
      | Unm => o_unm | Panic => o_panic
      | _ => OT "cs0" [o_res (fun b => [o_gobytes b]) r; r_calls calls]
      end
  | OpCverify0 vf target ext sig => o_verify (verify_countersign0 (mk_verifier vf) target ext sig)
  | OpSignHE sg h p =>
      let '(r, calls) := sign_he (mk_signer sg) h p in
      match r with
      | Unm => o_unm | Panic => o_panic
      | _ => OT "he" [o_bytes_res r; r_calls calls]
      end
  | OpVerifyHE vf data =>
      let '(r, calls) := verify_he (mk_verifier vf) data in
      match r with
      | Unm => o_unm | Panic => o_panic
      | _ => OT "vhe" [o_res (fun m => [o_sign1 m]) r; r_vcalls calls]
      end
  | OpKeyFromPub p => o_res (fun k => [o_key k; o_bytes_res (key_marshal k)]) (new_key_from_public p)
  | OpKeyFromPriv p => o_res (fun k => [o_key k; o_bytes_res (key_marshal k)]) (new_key_from_private p)
  | OpKeyPublic k => o_res (fun p => [o_pub p]) (key_public k)
  | OpKeyPrivate k => o_res (fun p => [o_priv p]) (key_private k)
  | OpKeySigner k => o_res (fun a => [OZ a]) (key_signer k)
  | OpKeyVerifier k oc => o_res (fun a => [OZ a]) (key_verifier k oc)
  | OpNewSigner alg kd => o_res (fun a => [OZ a]) (new_signer alg kd)
  | OpNewVerifier alg kd => o_res (fun a => [OZ a]) (new_verifier alg kd)
  | OpDecAny data =>
      match lib_wf true data with
      | Some w => o_res (fun g => [OG g]) (dec true w)
      | None => o_err EOther
      end
  | OpEncAny g => o_bytes_res (enc false g)
  end.

(* indices of mismatching cases, and of cases the model declines (Unm) *)
Fixpoint scan (i : Z) (cs : list (op * ot)) : list Z * list Z :=
  match cs with
  | [] => ([], [])
  | (o, expected) :: r =>
    let '(bad, unm) := scan (i + 1) r in
    let got := run o in
    if is_unm got then (bad, i :: unm)
    else if ot_eqb got expected then (bad, unm)
    else (i :: bad, unm)
  end.

Definition mismatches (cs : list (op * ot)) : list Z * list Z := scan 0 cs.
