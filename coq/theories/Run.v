(* Run.v — the operations the correspondence check runs on both sides. *)
From Coq Require Import Ascii String ZArith List Bool.
From GoCose Require Import Bytes Res GoVal Obs Ecdsa.
Import ListNotations.
Open Scope Z_scope.

Inductive op :=
(* ECDSA framing (C16) *)
| OpEcdsaSign (n : Z) (src : option (Z * Z))            (* NewSigner(ES*, crypto.Signer stub).Sign: stub returns DER(r,s) or fails *)
| OpEcdsaVerify (n : Z) (sig : bytes) (oracle : bool)   (* NewVerifier(ES*, pub).Verify; oracle = crypto/ecdsa.Verify on the halves *)
.

Definition run (o : op) : ot :=
  match o with
  | OpEcdsaSign n src => o_res (fun b => [OB b]) (sign_digest (Z.to_nat n) src)
  | OpEcdsaVerify n sig oracle =>
      o_res (fun _ => []) (verify_digest (Z.to_nat n) (fun _ _ => oracle) sig)
  end.

(* indices of mismatching cases, and of cases the model declines (Unm) *)
Fixpoint scan (i : Z) (cs : list (op * ot)) : list Z * list Z :=
  match cs with
  | [] => ([], [])
  | (o, expected) :: r =>
    let '(bad, unm) := scan (i + 1) r in
    let got := run o in
    if is_unm got then (bad, i :: unm)
    else if ot_eqb got expected then (bad, unm)
    else (i :: bad, unm)
  end.

Definition mismatches (cs : list (op * ot)) : list Z * list Z := scan 0 cs.
