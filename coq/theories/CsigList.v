(* Lists of countersignatures are decoded position by position.

   The countersignature part of UnprotectedHeader.UnmarshalCBOR, which Dec.v defines with local fixpoints, restated as
   top-level functions (the unfolding lemma is by computation, so the two cannot drift apart), and then:
   a list under label 7 / 11 is accepted exactly when every element is, and the decoded list holds, at every position,
   the countersignature decoded from the element at that position - same length, same order, nothing shared. *)
From Coq Require Import ZArith List Bool Lia.
From GoCose Require Import Bytes Cbor Res GoVal Obs Fx Headers Enc Dec.
From GoCose.Gen Require Import Generated.
Import ListNotations.
Open Scope Z_scope.

(* Signature.UnmarshalCBOR on one element, nested buckets decoded with fuel f *)
Definition dec_sig_at (f : nat) (x : wire) : res gv :=
  match is_arr3 x with
  | None => Rej EOther
  | Some (p, uu, s) =>
      if negb (notags x && depth_ok false x 0) then Rej EOther
      else
        let* sg := bstr_or_nil s in
        if glen sg =? 0 then Rej EEmptySig
        else
          let* pm := dec_protected p in
          let* um := dec_unprotected f uu in
          let h := mkH (Some (ser p)) (Some pm) (Some (ser uu)) (Some um) in
          if ensure_iv h then Acc (GCsig (Some (ser p)) (Some pm) (Some (ser uu)) (Some um) sg)
          else Rej EOther
  end.

Fixpoint dec_sig_list (f : nat) (l : list wire) : res (list gv) :=
  match l with
  | [] => Acc []
  | y :: r =>
      let y := strip_sd y in
      comb (if builtin_tag_ok y then dec_sig_at f y else Rej EOther) (dec_sig_list f r)
           (fun c cs => Acc (c :: cs))
  end.

Definition dec_csig_value_at (f : nat) (v : wire) : res gv :=
  let v := strip_sd v in
  if negb (builtin_tag_ok v) then Rej EOther
  else match dec_sig_at f v with
       | Acc c => Acc c
       | Unm => Unm
       | Panic => Panic
       | Rej _ =>
           match v with
           | WArr _ ((_ :: _) as l) =>
               match dec_sig_list f l with
               | Acc cs => Acc (GCsigs cs)
               | Rej _ => Rej EOther
               | Panic => Panic
               | Unm => Unm
               end
           | _ => Rej EOther
           end
       end.

Definition is_cs_label (k : gv) : bool :=
  match k with
  | GInt KInt64 n => (n =? c_HeaderLabelCounterSignature) || (n =? c_HeaderLabelCounterSignatureV2)
  | _ => false
  end.

Fixpoint dec_uvalues (f : nat) (l : list wire) (ks : list gv) : res (list gv) :=
  match l, ks with
  | _ :: v :: r, k :: ks' =>
      comb (if is_cs_label k then dec_csig_value_at f v else dec true v) (dec_uvalues f r ks')
           (fun v' vs => Acc (v' :: vs))
  | _, _ => Acc []
  end.

(* the restatement is the definition: both sides compute to the same term *)
Lemma dec_unprotected_unfold : forall f u,
  dec_unprotected (S f) u =
  match u with
  | WMap _ l =>
      let* ks := labels_pass l in
      if negb (keys_nodup ks) then Rej EOther
      else
        let* vs := dec_uvalues f l ks in
        let m := zip_flat ks vs in
        if validate_params m false then Acc m else Rej EOther
  | _ => Rej EOther
  end.
Proof.
  intros f u. destruct u as [| | |w l| |]; try reflexivity.
  cbn [dec_unprotected].
  destruct (labels_pass l) as [ks| | |]; try reflexivity. cbn [bind].
  destruct (negb (keys_nodup ks)); [reflexivity|].
  match goal with |- bind ?a _ = bind ?b _ => assert (Hab : a = b); [|rewrite Hab; reflexivity] end.
  revert ks. revert l. fix IH 1. intros [|a0 [|v r]] ks; try reflexivity.
  destruct ks as [|k ks']; [reflexivity|].
  cbn [dec_uvalues]. rewrite <- (IH r ks'). clear IH.
  match goal with |- comb ?x _ _ = comb ?y _ _ => assert (Hxy : x = y); [|rewrite Hxy; reflexivity] end.
  unfold is_cs_label.
  match goal with |- (if ?c then _ else _) = _ => destruct c end; [|reflexivity].
  unfold dec_csig_value_at. cbv zeta.
  destruct (negb (builtin_tag_ok (strip_sd v))); [reflexivity|].
  change (match is_arr3 (strip_sd v) with
          | Some (p, uu, s) => _ | None => Rej EOther end) with (dec_sig_at f (strip_sd v)).
  destruct (dec_sig_at f (strip_sd v)); try reflexivity.
  destruct (strip_sd v) as [| |w0 l0| | |]; try reflexivity.
  destruct l0 as [|y0 l0]; [reflexivity|].
  cbn [dec_sig_list].
  match goal with |- match comb _ ?gl _ with _ => _ end = match comb _ ?gl' _ with _ => _ end =>
    assert (Hg : gl = gl'); [|rewrite Hg; reflexivity] end.
  clear. induction l0 as [|y r IHl]; [reflexivity|].
  cbn [dec_sig_list]. rewrite <- IHl. reflexivity.
Qed.

(* ---------------- position by position ---------------- *)
Definition elem_ok (f : nat) (y : wire) (c : gv) : Prop :=
  builtin_tag_ok (strip_sd y) = true /\ dec_sig_at f (strip_sd y) = Acc c.

Theorem dec_sig_list_positional : forall f l cs,
  dec_sig_list f l = Acc cs <-> Forall2 (elem_ok f) l cs.
Proof.
  intros f. induction l as [|y r IH]; intros cs; cbn [dec_sig_list].
  - split.
    + intros H. inversion H; subst. constructor.
    + intros H. inversion H. reflexivity.
  - split.
    + intros H.
      destruct (builtin_tag_ok (strip_sd y)) eqn:B.
      * destruct (dec_sig_at f (strip_sd y)) as [c| | |] eqn:D;
          destruct (dec_sig_list f r) as [cs'| | |] eqn:R; cbn [comb] in H; try discriminate.
        inversion H; subst. constructor; [split; assumption|]. apply IH. reflexivity.
      * destruct (dec_sig_list f r) as [cs'| | |]; cbn [comb] in H; discriminate.
    + intros H. inversion H as [|y0 c l0 cs' [B D] F]; subst.
      rewrite B, D. apply IH in F. rewrite F. reflexivity.
Qed.

Corollary dec_sig_list_length : forall f l cs, dec_sig_list f l = Acc cs -> length cs = length l.
Proof.
  intros f l cs H. apply dec_sig_list_positional in H.
  induction H; cbn; [reflexivity|]. rewrite IHForall2. reflexivity.
Qed.

Corollary dec_sig_list_nth : forall f l cs i y,
  dec_sig_list f l = Acc cs -> nth_error l i = Some y ->
  exists c, nth_error cs i = Some c /\ dec_sig_at f (strip_sd y) = Acc c.
Proof.
  intros f l cs i y H. apply dec_sig_list_positional in H. revert i.
  induction H as [|y0 c l0 cs0 [B D] F IH]; intros i Hn.
  - destruct i; discriminate.
  - destruct i as [|i]; cbn in Hn.
    + inversion Hn; subst. exists c. split; [reflexivity|exact D].
    + destruct (IH i Hn) as [c' [A B']]. exists c'. split; [exact A|exact B'].
Qed.

(* a decoded element is made of the element's own bytes: its retained protected and unprotected bytes are the
   serialisations of that element's first two items and its signature is that element's third *)
Theorem dec_sig_at_own_bytes : forall f x c,
  dec_sig_at f x = Acc c ->
  exists p uu s pm um sg,
    x = WArr W0 [p; uu; s] /\ bstr_or_nil s = Acc sg /\
    c = GCsig (Some (ser p)) (Some pm) (Some (ser uu)) (Some um) sg.
Proof.
  intros f x c H. unfold dec_sig_at in H.
  destruct (is_arr3 x) as [[[p uu] s]|] eqn:A; [|discriminate].
  assert (X : x = WArr W0 [p; uu; s]).
  { unfold is_arr3 in A. destruct x; try discriminate. destruct w; try discriminate.
    destruct l as [|a [|b [|d [|]]]]; try discriminate. inversion A; subst. reflexivity. }
  destruct (negb (notags x && depth_ok false x 0)); [discriminate|].
  destruct (bstr_or_nil s) as [sg| | |] eqn:S; cbn [bind] in H; try discriminate.
  destruct (glen sg =? 0); [discriminate|].
  destruct (dec_protected p) as [pm| | |]; cbn [bind] in H; try discriminate.
  destruct (dec_unprotected f uu) as [um| | |]; cbn [bind] in H; try discriminate.
  destruct (ensure_iv _); [|discriminate].
  inversion H; subst c. exists p, uu, s, pm, um, sg. repeat split; assumption.
Qed.

(* the value under a countersignature label: one object, or the list of the objects decoded from the elements *)
Theorem dec_csig_value_cases : forall f v g,
  dec_csig_value_at f v = Acc g ->
  dec_sig_at f (strip_sd v) = Acc g \/
  exists w y l cs, strip_sd v = WArr w (y :: l) /\ g = GCsigs cs /\ Forall2 (elem_ok f) (y :: l) cs.
Proof.
  intros f v g H. unfold dec_csig_value_at in H.
  destruct (negb (builtin_tag_ok (strip_sd v))); [discriminate|].
  destruct (dec_sig_at f (strip_sd v)) as [c|e| |] eqn:D; try discriminate.
  - left. exact H.
  - right. destruct (strip_sd v) as [| |w l| | |] eqn:V; try discriminate.
    destruct l as [|y l]; [discriminate|].
    destruct (dec_sig_list f (y :: l)) as [cs| | |] eqn:L; try discriminate.
    inversion H; subst g. exists w, y, l, cs. split; [reflexivity|]. split; [reflexivity|].
    apply dec_sig_list_positional. exact L.
Qed.

(* three different elements decode to three different countersignatures, in order *)
Example csig_list_example :
  let el k := WArr W0 [WStr false W0 [161; 4; 65; k]; WMap W0 []; WStr false W0 [k; 238]] in
  match dec_csig_value_at 5 (WArr W0 [el 97; el 98; el 99]) with
  | Acc (GCsigs [GCsig _ _ _ _ (Some [97; 238]); GCsig _ _ _ _ (Some [98; 238]); GCsig _ _ _ _ (Some [99; 238])]) => True
  | _ => False
  end.
Proof. vm_compute. exact I. Qed.
