(* EcdsaProofs.v — fixed-width r||s framing (C16). *)
From Coq Require Import Ascii String ZArith List Lia Bool Arith.
From GoCose Require Import Bytes Res Ecdsa.
From GoCose.Gen Require Import Generated.
Import ListNotations.
Open Scope Z_scope.

Lemma i2osp_ok v n : 0 <= v < 256 ^ Z.of_nat n -> i2osp v n = Acc (be_enc n v).
Proof.
  intros H. unfold i2osp.
  destruct (v <? 0) eqn:E1; [apply Z.ltb_lt in E1; lia|].
  destruct (256 ^ Z.of_nat n <=? v) eqn:E2; [apply Z.leb_le in E2; lia|]. reflexivity.
Qed.

Lemma i2osp_rej v n : v < 0 \/ 256 ^ Z.of_nat n <= v -> i2osp v n = Rej EOther.
Proof.
  intros H. unfold i2osp.
  destruct (v <? 0) eqn:E1; auto.
  destruct (256 ^ Z.of_nat n <=? v) eqn:E2; auto.
  apply Z.ltb_ge in E1. apply Z.leb_gt in E2. lia.
Qed.

Lemma i2osp_acc_inv v n b : i2osp v n = Acc b -> 0 <= v < 256 ^ Z.of_nat n /\ b = be_enc n v.
Proof.
  unfold i2osp.
  destruct (v <? 0) eqn:E1; [discriminate|].
  destruct (256 ^ Z.of_nat n <=? v) eqn:E2; [discriminate|].
  intros H; inversion H. apply Z.ltb_ge in E1. apply Z.leb_gt in E2. auto.
Qed.

Lemma decode_sig_app n a b :
  length a = n -> length b = n -> decode_sig n (a ++ b) = Some (os2ip a, os2ip b).
Proof.
  intros Ha Hb. unfold decode_sig. rewrite app_length, Ha, Hb.
  replace (n + n =? 2 * n)%nat with true by (symmetry; apply Nat.eqb_eq; lia).
  rewrite <- Ha at 1. rewrite firstn_app, Nat.sub_diag, firstn_all. cbn [firstn]. rewrite app_nil_r.
  rewrite <- Ha at 1. rewrite skipn_app, Nat.sub_diag, skipn_all. reflexivity.
Qed.

(* every in-range (r,s) is encoded on exactly 2n bytes, r then s, and decodes back *)
Theorem encode_sig_spec n r s :
  0 <= r < 256 ^ Z.of_nat n -> 0 <= s < 256 ^ Z.of_nat n ->
  encode_sig n r s = Acc (be_enc n r ++ be_enc n s) /\
  length (be_enc n r ++ be_enc n s) = (2 * n)%nat /\
  bytes_ok (be_enc n r ++ be_enc n s) = true /\
  decode_sig n (be_enc n r ++ be_enc n s) = Some (r, s).
Proof.
  intros Hr Hs. unfold encode_sig. rewrite (i2osp_ok r n Hr), (i2osp_ok s n Hs). cbn [bind].
  split; [reflexivity|]. split; [rewrite app_length, !be_enc_length; lia|].
  split; [rewrite bytes_ok_app, !be_enc_ok; reflexivity|].
  rewrite decode_sig_app by apply be_enc_length. unfold os2ip. rewrite !be_dec_enc; auto.
Qed.

Theorem encode_sig_rejects n r s :
  (r < 0 \/ 256 ^ Z.of_nat n <= r \/ s < 0 \/ 256 ^ Z.of_nat n <= s) ->
  encode_sig n r s = Rej EOther.
Proof.
  intros H. unfold encode_sig.
  destruct (i2osp r n) eqn:E1; try (cbn; unfold i2osp in E1;
    destruct (r <? 0); try discriminate; destruct (256 ^ Z.of_nat n <=? r); discriminate).
  - apply i2osp_acc_inv in E1 as [Hr _]. cbn [bind].
    rewrite i2osp_rej by lia. reflexivity.
  - unfold i2osp in E1. destruct (r <? 0); [inversion E1; reflexivity|].
    destruct (256 ^ Z.of_nat n <=? r); inversion E1; reflexivity.
Qed.

Theorem encode_sig_acc_inv n r s b :
  encode_sig n r s = Acc b ->
  0 <= r < 256 ^ Z.of_nat n /\ 0 <= s < 256 ^ Z.of_nat n /\ b = be_enc n r ++ be_enc n s /\ length b = (2 * n)%nat.
Proof.
  unfold encode_sig. destruct (i2osp r n) eqn:E1; cbn [bind]; try discriminate.
  destruct (i2osp s n) eqn:E2; cbn [bind]; try discriminate.
  intros H; inversion H; subst.
  apply i2osp_acc_inv in E1 as [Hr ->]. apply i2osp_acc_inv in E2 as [Hs ->].
  repeat split; try lia. rewrite app_length, !be_enc_length. lia.
Qed.

(* the only byte string that denotes (r,s) is its fixed-width encoding *)
Theorem decode_then_encode n sig r s :
  bytes_ok sig = true -> decode_sig n sig = Some (r, s) -> encode_sig n r s = Acc sig.
Proof.
  intros Hok. unfold decode_sig. destruct (length sig =? 2 * n)%nat eqn:E; [|discriminate].
  apply Nat.eqb_eq in E. intros H; inversion H; subst; clear H.
  assert (L1 : length (firstn n sig) = n) by (rewrite firstn_length; lia).
  assert (L2 : length (skipn n sig) = n) by (rewrite skipn_length; lia).
  pose proof (bytes_ok_firstn n sig Hok) as O1. pose proof (bytes_ok_skipn n sig Hok) as O2.
  pose proof (be_dec_bound _ O1) as B1. pose proof (be_dec_bound _ O2) as B2.
  unfold len in B1, B2. rewrite L1 in B1. rewrite L2 in B2.
  unfold os2ip. destruct (encode_sig_spec n (be_dec (firstn n sig)) (be_dec (skipn n sig)) B1 B2) as (-> & _).
  f_equal.
  assert (A1 : be_enc n (be_dec (firstn n sig)) = firstn n sig).
  { pose proof (be_enc_dec_snoc _ O1) as A. rewrite L1 in A. exact A. }
  assert (A2 : be_enc n (be_dec (skipn n sig)) = skipn n sig).
  { pose proof (be_enc_dec_snoc _ O2) as A. rewrite L2 in A. exact A. }
  rewrite A1, A2. apply firstn_skipn.
Qed.

Corollary decode_sig_inj n a b p :
  bytes_ok a = true -> bytes_ok b = true ->
  decode_sig n a = Some p -> decode_sig n b = Some p -> a = b.
Proof.
  destruct p as [r s]. intros Ha Hb Da Db.
  pose proof (decode_then_encode n a r s Ha Da) as Ea.
  pose proof (decode_then_encode n b r s Hb Db) as Eb.
  rewrite Ea in Eb. inversion Eb; auto.
Qed.

(* verification: nothing but an exactly-2n-byte string can be accepted, and a
   refusal is always the verification error *)
Theorem verify_digest_acc n ok sig :
  verify_digest n ok sig = Acc tt <->
  length sig = (2 * n)%nat /\ ok (os2ip (firstn n sig)) (os2ip (skipn n sig)) = true.
Proof.
  unfold verify_digest, decode_sig. destruct (length sig =? 2 * n)%nat eqn:E.
  - apply Nat.eqb_eq in E. destruct (ok _ _); split; intros H; try discriminate; auto.
    destruct H; discriminate.
  - apply Nat.eqb_neq in E. split; [discriminate|]. intros [H _]. contradiction.
Qed.

Theorem verify_digest_rej n ok sig e : verify_digest n ok sig = Rej e -> e = EVerification.
Proof.
  unfold verify_digest. destruct (decode_sig n sig) as [[r s]|]; [destruct (ok r s)|]; intros H; inversion H; auto.
Qed.

Theorem verify_digest_total n ok sig :
  verify_digest n ok sig = Acc tt \/ verify_digest n ok sig = Rej EVerification.
Proof.
  unfold verify_digest. destruct (decode_sig n sig) as [[r s]|]; [destruct (ok r s)|]; auto.
Qed.

Theorem verify_wrong_length n ok sig : length sig <> (2 * n)%nat -> verify_digest n ok sig = Rej EVerification.
Proof.
  intros H. unfold verify_digest, decode_sig. apply Nat.eqb_neq in H. rewrite H. reflexivity.
Qed.

(* what the library signs verifies, when the primitive accepts its own (r,s) *)
Theorem sign_then_verify n r s ok b :
  sign_digest n (Some (r, s)) = Acc b -> ok r s = true -> verify_digest n ok b = Acc tt.
Proof.
  cbn [sign_digest]. intros H Hok. apply encode_sig_acc_inv in H as (Hr & Hs & -> & _).
  destruct (encode_sig_spec n r s Hr Hs) as (_ & _ & _ & D).
  unfold verify_digest. rewrite D, Hok. reflexivity.
Qed.

(* the curve-order byte lengths used by the harness are the translated ones *)
Definition sig_half (bits : Z) : nat := Z.to_nat ((bits + 7) / 8).
Example sig_half_values :
  sig_half std_elliptic_P256_Params_N_BitLen = 32%nat /\
  sig_half std_elliptic_P384_Params_N_BitLen = 48%nat /\
  sig_half std_elliptic_P521_Params_N_BitLen = 66%nat.
Proof. vm_compute. auto. Qed.

(* non-vacuity: a P-256-sized pair with a leading zero byte in r *)
Example encode_sig_example :
  encode_sig 2 5 258 = Acc [0; 5; 1; 2] /\ decode_sig 2 [0; 5; 1; 2] = Some (5, 258).
Proof. vm_compute. auto. Qed.
