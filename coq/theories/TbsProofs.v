(* TbsProofs.v — the to-be-signed bytes are the deterministic encoding of the
   RFC 9052 Sig_structure / RFC 9338 Countersign_structure (C02, C10), they
   determine every field (C03), and they do not depend on how the sender
   spelled bstr heads (C07). *)
From Coq Require Import Ascii String ZArith List Lia Bool Arith ZifyBool.
From GoCose Require Import Bytes Cbor CborProofs Res GoVal Fx Headers Enc Dec Msg.
From GoCose.Gen Require Import Generated.
Import ListNotations.
Open Scope Z_scope.

Definition two64 : Z := 18446744073709551616.

Lemma minw_fits n : 0 <= n < two64 -> fits (minw n) n = true.
Proof.
  unfold two64, minw. intros H.
  destruct (n <? 24) eqn:E1; [cbn; lia|].
  destruct (n <? 256) eqn:E2; [cbn; lia|].
  destruct (n <? 65536) eqn:E3; [cbn; lia|].
  destruct (n <? 4294967296) eqn:E4; cbn; lia.
Qed.

(* the shortest-form spelling of a byte / text string as a syntax tree *)
Definition tbstr (b : bytes) : wire := WStr false (minw (len b)) b.
Definition ttstr (b : bytes) : wire := WStr true (minw (len b)) b.

Lemma enc_bstr_ser b : enc_bstr b = ser (tbstr b).
Proof. reflexivity. Qed.
Lemma enc_tstr_ser b : enc_tstr b = ser (ttstr b).
Proof. reflexivity. Qed.

Definition short (b : bytes) : Prop := bytes_ok b = true /\ len b < two64.

Lemma tbstr_wf b : short b -> wf (tbstr b) = true.
Proof. intros [H1 H2]. cbn. rewrite H1, minw_fits; auto. pose proof (len_nonneg b). lia. Qed.
Lemma ttstr_wf b : short b -> wf (ttstr b) = true.
Proof. intros [H1 H2]. cbn. rewrite H1, minw_fits; auto. pose proof (len_nonneg b). lia. Qed.

(* ---------- deterministicBinaryString ---------- *)
Lemma dbs_fast_minw w n : fits w n = true -> dbs_fast w n = true -> w = minw n.
Proof. unfold minw; destruct w; cbn; intros; repeat match goal with |- context [if ?c then _ else _] => destruct c eqn:? end; try reflexivity; lia. Qed.

(* whatever head width the sender chose, the result is the shortest-form bstr
   with the same content *)
Theorem det_bstr_spec data r :
  det_bstr data = Acc r ->
  exists w b, parse_full data = Some (WStr false w b) /\ r = enc_bstr b.
Proof.
  unfold det_bstr. destruct data as [|a rest]; [discriminate|].
  destruct (negb (a / 32 =? 2)); [discriminate|].
  unfold lib_wf. destruct (parse_full (a :: rest)) as [x|] eqn:P; [|discriminate].
  destruct (depth_ok false x 0); [|discriminate].
  destruct x; try discriminate. destruct text; try discriminate.
  destruct (dbs_fast w (len b)) eqn:F; intros H; inversion H; subst; exists w, b; split; auto.
  apply parse_full_inv in P as [E Hwf]. rewrite E. cbn [ser bmaj]. cbn [wf] in Hwf.
  apply andb_true_iff in Hwf as [Hf _]. rewrite (dbs_fast_minw _ _ Hf F). reflexivity.
Qed.

Lemma lib_wf_leaf_str t w b :
  fits w (len b) = true -> bytes_ok b = true ->
  lib_wf false (ser (WStr t w b)) = Some (WStr t w b).
Proof.
  intros Hf Hb. unfold lib_wf. rewrite parse_full_ser by (cbn; rewrite Hf, Hb; reflexivity). reflexivity.
Qed.

(* C07: every valid spelling of the same bstr normalises to the same bytes *)
Theorem det_bstr_any_width w b :
  fits w (len b) = true -> bytes_ok b = true ->
  det_bstr (ser (WStr false w b)) = Acc (enc_bstr b).
Proof.
  intros Hf Hb. unfold det_bstr.
  assert (Hs : ser (WStr false w b) = (2 * 32 + ai_of w (len b)) :: be_enc (wlen w) (len b) ++ b) by reflexivity.
  rewrite Hs. rewrite <- Hs.
  assert (Hai : 0 <= ai_of w (len b) < 32) by (destruct w; cbn in *; lia).
  replace ((2 * 32 + ai_of w (len b)) / 32 =? 2) with true by (symmetry; apply Z.eqb_eq; lia).
  cbn [negb]. rewrite lib_wf_leaf_str by auto.
  destruct (dbs_fast w (len b)) eqn:F; auto.
  rewrite (dbs_fast_minw _ _ Hf F). reflexivity.
Qed.

(* ---------- the RFC structures as syntax trees ---------- *)
Definition sig1_tree (ctxs : string) (bp ext payload : bytes) : wire :=
  WArr W0 [ttstr (str_bytes ctxs); tbstr bp; tbstr ext; tbstr payload].
Definition sign_tree (ctxs : string) (bp sp ext payload : bytes) : wire :=
  WArr W0 [ttstr (str_bytes ctxs); tbstr bp; tbstr sp; tbstr ext; tbstr payload].
Definition csign_tree (ctxs : string) (bp sp ext payload : bytes) (other : option bytes) : wire :=
  WArr W0 ([ttstr (str_bytes ctxs); tbstr bp; tbstr sp; tbstr ext; tbstr payload] ++
           match other with Some sg => [WArr W0 [tbstr sg]] | None => [] end).

(* the protected field the RFC puts into the structure: content of the
   protected bstr the message carries (raw bytes when retained), else the
   encoding of the typed map; h'' for an empty map *)
Definition prot_content (h : headers) (c : bytes) : Prop :=
  exists item, marshal_protected h = Acc item /\
               exists w, parse_full item = Some (WStr false w c).

Theorem tbs_sign1_spec h payload ext t :
  tbs_sign1 h payload ext = Acc t ->
  exists c, prot_content h c /\ t = ser (sig1_tree "Signature1" c (gor ext) (gor payload)).
Proof.
  unfold tbs_sign1. destruct (marshal_protected h) as [item| | |] eqn:M; cbn [bind]; try discriminate.
  destruct (det_bstr item) as [p| | |] eqn:D; cbn [bind]; try discriminate.
  intros H; inversion H; subst; clear H.
  apply det_bstr_spec in D as (w & c & P & ->).
  exists c. split; [exists item; split; auto; exists w; auto|].
  cbn [sig1_tree ser flat_map]. rewrite app_nil_r. reflexivity.
Qed.

Theorem tbs_signature_spec h bodyprot payload ext t :
  tbs_signature h bodyprot payload ext = Acc t ->
  exists wb cb c, parse_full bodyprot = Some (WStr false wb cb) /\ prot_content h c /\
                  t = ser (sign_tree "Signature" cb c (gor ext) (gor payload)).
Proof.
  unfold tbs_signature. destruct (det_bstr bodyprot) as [bp| | |] eqn:D1; cbn [bind]; try discriminate.
  destruct (marshal_protected h) as [item| | |] eqn:M; cbn [bind]; try discriminate.
  destruct (det_bstr item) as [sp| | |] eqn:D2; cbn [bind]; try discriminate.
  intros H; inversion H; subst; clear H.
  apply det_bstr_spec in D1 as (wb & cb & P1 & ->).
  apply det_bstr_spec in D2 as (w & c & P2 & ->).
  exists wb, cb, c. split; auto. split; [exists item; split; auto; exists w; auto|].
  cbn [sign_tree ser flat_map]. rewrite app_nil_r. reflexivity.
Qed.

(* nil and empty external data are the same thing *)
Theorem tbs_sign1_ext_nil_empty h payload : tbs_sign1 h payload None = tbs_sign1 h payload (Some []).
Proof. reflexivity. Qed.
Theorem tbs_signature_ext_nil_empty h bp payload : tbs_signature h bp payload None = tbs_signature h bp payload (Some []).
Proof. reflexivity. Qed.

(* the unprotected bucket (typed or raw) contributes nothing *)
Theorem tbs_sign1_unprot_irrelevant rp p ru u ru' u' payload ext :
  tbs_sign1 (mkH rp p ru u) payload ext = tbs_sign1 (mkH rp p ru' u') payload ext.
Proof. reflexivity. Qed.
Theorem tbs_signature_unprot_irrelevant rp p ru u ru' u' bp payload ext :
  tbs_signature (mkH rp p ru u) bp payload ext = tbs_signature (mkH rp p ru' u') bp payload ext.
Proof. reflexivity. Qed.

(* ---------- the structure determines its fields (C03, C10) ---------- *)
Lemma tbstr_inj a b : tbstr a = tbstr b -> a = b.
Proof. intros H; inversion H; auto. Qed.

Lemma str_bytes_ok s : bytes_ok (str_bytes s) = true.
Proof.
  induction s as [|a s IH]; [reflexivity|]. cbn [str_bytes]. unfold bytes_ok in *. cbn [forallb].
  rewrite IH, andb_true_r. apply byte_ok_iff. pose proof (nat_ascii_bounded a). lia.
Qed.

Lemma str_bytes_length s : length (str_bytes s) = String.length s.
Proof. induction s as [|a s IH]; cbn [str_bytes length String.length]; [reflexivity|]. rewrite IH. reflexivity. Qed.

Lemma ctx_short s : (String.length s < 1000)%nat -> short (str_bytes s).
Proof.
  intros H. split; [apply str_bytes_ok|].
  unfold len, two64. rewrite str_bytes_length. lia.
Qed.

Lemma sig1_tree_wf s bp e p :
  (String.length s < 1000)%nat -> short bp -> short e -> short p -> wf (sig1_tree s bp e p) = true.
Proof.
  intros Hs Hb He Hp. cbn [sig1_tree wf forallb]. rewrite (ttstr_wf _ (ctx_short _ Hs)), !tbstr_wf by auto. reflexivity.
Qed.

Theorem sig1_injective s bp e p s' bp' e' p' :
  (String.length s < 1000)%nat -> (String.length s' < 1000)%nat ->
  short bp -> short e -> short p -> short bp' -> short e' -> short p' ->
  ser (sig1_tree s bp e p) = ser (sig1_tree s' bp' e' p') ->
  str_bytes s = str_bytes s' /\ bp = bp' /\ e = e' /\ p = p'.
Proof.
  intros. assert (E : sig1_tree s bp e p = sig1_tree s' bp' e' p').
  { apply ser_inj0; auto using sig1_tree_wf. }
  unfold sig1_tree in E. inversion E; subst. auto.
Qed.

Lemma sign_tree_wf s bp sp e p :
  (String.length s < 1000)%nat -> short bp -> short sp -> short e -> short p -> wf (sign_tree s bp sp e p) = true.
Proof.
  intros Hs Hb Hsp He Hp. cbn [sign_tree wf forallb]. rewrite (ttstr_wf _ (ctx_short _ Hs)), !tbstr_wf by auto. reflexivity.
Qed.

Lemma csign_tree_wf s bp sp e p o :
  (String.length s < 1000)%nat -> short bp -> short sp -> short e -> short p ->
  (match o with Some sg => short sg | None => True end) -> wf (csign_tree s bp sp e p o) = true.
Proof.
  intros Hs Hb Hsp He Hp Ho. destruct o as [sg|]; cbn [csign_tree wf forallb app];
  rewrite (ttstr_wf _ (ctx_short _ Hs)), !tbstr_wf by auto; reflexivity.
Qed.

Theorem csign_injective s bp sp e p o s' bp' sp' e' p' o' :
  (String.length s < 1000)%nat -> (String.length s' < 1000)%nat ->
  short bp -> short sp -> short e -> short p -> (match o with Some sg => short sg | None => True end) ->
  short bp' -> short sp' -> short e' -> short p' -> (match o' with Some sg => short sg | None => True end) ->
  ser (csign_tree s bp sp e p o) = ser (csign_tree s' bp' sp' e' p' o') ->
  str_bytes s = str_bytes s' /\ bp = bp' /\ sp = sp' /\ e = e' /\ p = p' /\ o = o'.
Proof.
  intros. assert (E : csign_tree s bp sp e p o = csign_tree s' bp' sp' e' p' o').
  { apply ser_inj0; auto using csign_tree_wf. }
  unfold csign_tree in E. destruct o, o'; cbn [app] in E; inversion E; subst; auto 10.
Qed.

(* structures of different kinds never collide: different arity or different context *)
Theorem sig1_vs_sign s bp e p s' bp' sp' e' p' :
  (String.length s < 1000)%nat -> (String.length s' < 1000)%nat ->
  short bp -> short e -> short p -> short bp' -> short sp' -> short e' -> short p' ->
  ser (sig1_tree s bp e p) <> ser (sign_tree s' bp' sp' e' p').
Proof.
  intros ? ? ? ? ? ? ? ? ? E.
  apply ser_inj0 in E; auto using sig1_tree_wf, sign_tree_wf. discriminate.
Qed.

Theorem sign_vs_csign_ctx s bp sp e p s' bp' sp' e' p' o' :
  (String.length s < 1000)%nat -> (String.length s' < 1000)%nat ->
  short bp -> short sp -> short e -> short p ->
  short bp' -> short sp' -> short e' -> short p' -> (match o' with Some sg => short sg | None => True end) ->
  str_bytes s <> str_bytes s' ->
  ser (sign_tree s bp sp e p) <> ser (csign_tree s' bp' sp' e' p' o').
Proof.
  intros ? ? ? ? ? ? ? ? ? ? ? Hne E.
  apply ser_inj0 in E; auto using csign_tree_wf, sign_tree_wf.
  unfold sign_tree, csign_tree in E. destruct o'; cbn [app] in E; inversion E; subst; contradiction.
Qed.

(* the six context strings, pairwise different *)
Example contexts_distinct :
  let cs := map str_bytes ["Signature1"; "Signature"; "CounterSignature"; "CounterSignatureV2";
                            "CounterSignature0"; "CounterSignature0V2"]%string in
  NoDup cs.
Proof.
  cbv zeta. repeat constructor; cbn; intuition discriminate.
Qed.

(* the translated literals are the RFC ones *)
Example translated_contexts :
  tbs_sign1_context = "Signature1"%string /\ tbs_sign1_arity = 4 /\
  tbs_signature_context = "Signature"%string /\ tbs_signature_arity = 5 /\
  tbs_countersign_arity = 5 /\
  ctx_countersign false false = "CounterSignature"%string /\
  ctx_countersign false true = "CounterSignatureV2"%string /\
  ctx_countersign true false = "CounterSignature0"%string /\
  ctx_countersign true true = "CounterSignature0V2"%string /\
  countersign_other_fields = ["Sign1Message"%string] /\
  abbrev_sign_protected_Countersign0 = [64] /\ abbrev_sign_protected_VerifyCountersign0 = [64].
Proof. repeat split; reflexivity. Qed.

(* ---------- countersignatures (C10) ---------- *)
(* what the structure covers, per parent kind *)
Definition parent_fields (target : parent) : res (headers * bytes * option bytes) :=
  match target with
  | PSign1 t =>
      if glen (s1_sig t) =? 0 then Rej EOther
      else match s1_payload t with
           | None => Rej EMissingPayload
           | Some pl => Acc (s1_h t, pl, Some (gor (s1_sig t)))
           end
  | PSignMsg t =>
      match sm_sigs t with
      | [] => Rej EOther
      | _ => match sm_payload t with None => Rej EMissingPayload | Some pl => Acc (sm_h t, pl, None) end
      end
  | PSig t | PCsig t => if glen (sg_sig t) =? 0 then Rej EOther else Acc (sg_h t, gor (sg_sig t), None)
  | POther => Rej EOther
  end.

Lemma parse_full_enc_bstr b : short b -> parse_full (enc_bstr b) = Some (tbstr b).
Proof. intros H. rewrite enc_bstr_ser. apply parse_full_ser. apply tbstr_wf; auto. Qed.

(* other_fields as seen through the bstr normalisation: the content of the
   (already shortest-form) encoding of the parent signature *)
Definition other_seen (other other' : option bytes) : Prop :=
  match other, other' with
  | Some sg, Some c => exists w, parse_full (enc_bstr sg) = Some (WStr false w c)
  | None, None => True
  | _, _ => False
  end.

Lemma other_seen_short other other' :
  (match other with Some sg => short sg | None => True end) -> other_seen other other' -> other' = other.
Proof.
  destruct other as [sg|], other' as [c|]; unfold other_seen; try tauto.
  intros Hs [w P]. rewrite (parse_full_enc_bstr _ Hs) in P. inversion P; auto.
Qed.

Lemma csign_tree_ser_some s bp sp e p sg :
  ser (csign_tree s bp sp e p (Some sg)) =
  enc_head 4 (tbs_countersign_arity + 1) ++ ctx s ++ enc_bstr bp ++ enc_bstr sp ++ enc_bstr e ++ enc_bstr p ++
  (enc_head 4 1 ++ enc_bstr sg).
Proof.
  unfold csign_tree. cbn [app ser flat_map]. rewrite !app_nil_r. reflexivity.
Qed.

Lemma csign_tree_ser_none s bp sp e p :
  ser (csign_tree s bp sp e p None) =
  enc_head 4 (tbs_countersign_arity + 0) ++ ctx s ++ enc_bstr bp ++ enc_bstr sp ++ enc_bstr e ++ enc_bstr p ++ [].
Proof.
  unfold csign_tree. cbn [app ser flat_map]. rewrite !app_nil_r. reflexivity.
Qed.

Theorem countersign_tbs_spec abbreviated target signprot ext t :
  countersign_tbs abbreviated target signprot ext = Acc t ->
  exists h pl other other' cb ws cs,
    parent_fields target = Acc (h, pl, other) /\
    other_seen other other' /\
    prot_content h cb /\
    parse_full signprot = Some (WStr false ws cs) /\
    t = ser (csign_tree (ctx_countersign abbreviated (match other with Some _ => true | None => false end))
                        cb cs (gor ext) pl other').
Proof.
  unfold countersign_tbs.
  destruct target as [m|m|s|s|]; cbn [parent_fields].
  - (* Sign1 *)
    destruct (glen (s1_sig m) =? 0); [discriminate|].
    destruct (marshal_protected (s1_h m)) as [item| | |] eqn:M; cbn [bind]; try discriminate.
    destruct (s1_payload m) as [pl|]; [|discriminate].
    destruct (det_bstr (enc_bstr (gor (s1_sig m)))) as [sg| | |] eqn:Dsg; cbn [bind]; try discriminate.
    destruct (det_bstr item) as [bp| | |] eqn:D1; cbn [bind]; try discriminate.
    destruct (det_bstr signprot) as [sp| | |] eqn:D2; cbn [bind]; try discriminate.
    intros H; injection H as <-.
    apply det_bstr_spec in D1 as (w1 & cb & P1 & ->).
    apply det_bstr_spec in D2 as (ws & cs & P2 & ->).
    apply det_bstr_spec in Dsg as (w3 & c3 & P3 & ->).
    exists (s1_h m), pl, (Some (gor (s1_sig m))), (Some c3), cb, ws, cs.
    split; [reflexivity|]. split; [exists w3; exact P3|].
    split; [exists item; split; auto; exists w1; auto|]. split; [exact P2|].
    rewrite csign_tree_ser_some. reflexivity.
  - (* SignMessage *)
    destruct (sm_sigs m) as [|s0 rest] eqn:Es; [discriminate|].
    destruct (marshal_protected (sm_h m)) as [item| | |] eqn:M; cbn [bind]; try discriminate.
    destruct (sm_payload m) as [pl|]; [|discriminate]. cbn [bind].
    destruct (det_bstr item) as [bp| | |] eqn:D1; cbn [bind]; try discriminate.
    destruct (det_bstr signprot) as [sp| | |] eqn:D2; cbn [bind]; try discriminate.
    intros H; injection H as <-.
    apply det_bstr_spec in D1 as (w1 & cb & P1 & ->).
    apply det_bstr_spec in D2 as (ws & cs & P2 & ->).
    exists (sm_h m), pl, None, None, cb, ws, cs.
    split; [reflexivity|]. split; [exact I|].
    split; [exists item; split; auto; exists w1; auto|]. split; [exact P2|].
    rewrite csign_tree_ser_none. reflexivity.
  - (* Signature *)
    destruct (marshal_protected (sg_h s)) as [item| | |] eqn:M; cbn [bind]; try discriminate.
    destruct (glen (sg_sig s) =? 0); [discriminate|]. cbn [bind].
    destruct (det_bstr item) as [bp| | |] eqn:D1; cbn [bind]; try discriminate.
    destruct (det_bstr signprot) as [sp| | |] eqn:D2; cbn [bind]; try discriminate.
    intros H; injection H as <-.
    apply det_bstr_spec in D1 as (w1 & cb & P1 & ->).
    apply det_bstr_spec in D2 as (ws & cs & P2 & ->).
    exists (sg_h s), (gor (sg_sig s)), None, None, cb, ws, cs.
    split; [reflexivity|]. split; [exact I|].
    split; [exists item; split; auto; exists w1; auto|]. split; [exact P2|].
    rewrite csign_tree_ser_none. reflexivity.
  - (* Countersignature *)
    destruct (marshal_protected (sg_h s)) as [item| | |] eqn:M; cbn [bind]; try discriminate.
    destruct (glen (sg_sig s) =? 0); [discriminate|]. cbn [bind].
    destruct (det_bstr item) as [bp| | |] eqn:D1; cbn [bind]; try discriminate.
    destruct (det_bstr signprot) as [sp| | |] eqn:D2; cbn [bind]; try discriminate.
    intros H; injection H as <-.
    apply det_bstr_spec in D1 as (w1 & cb & P1 & ->).
    apply det_bstr_spec in D2 as (ws & cs & P2 & ->).
    exists (sg_h s), (gor (sg_sig s)), None, None, cb, ws, cs.
    split; [reflexivity|]. split; [exact I|].
    split; [exists item; split; auto; exists w1; auto|]. split; [exact P2|].
    rewrite csign_tree_ser_none. reflexivity.
  - discriminate.
Qed.

(* refusals: no structure is built for unsigned / payload-less / foreign parents *)
Theorem countersign_refuses abbreviated target signprot ext :
  (forall x, parent_fields target <> Acc x) ->
  forall t, countersign_tbs abbreviated target signprot ext <> Acc t.
Proof.
  intros Hn t Ht. apply countersign_tbs_spec in Ht as (h & pl & o & o' & cb & ws & cs & Hp & _).
  exact (Hn _ Hp).
Qed.

(* pointer and value parents are the same model value; the abbreviated form
   differs from the full one only in the context string and h'' sign_protected *)
Theorem csig_tbs_unprot_irrelevant rp p ru u ru' u' sg target ext :
  csig_tbs (mkSig (mkH rp p ru u) sg) target ext = csig_tbs (mkSig (mkH rp p ru' u') sg) target ext.
Proof. reflexivity. Qed.
