(* Cbor.v — byte-exact syntax trees of definite-length CBOR, serialiser, parser. *)
From Coq Require Import Ascii String ZArith List Lia Bool.
From GoCose Require Import Bytes.
Import ListNotations.
Open Scope Z_scope.

(* Width of the argument that follows the initial byte. W0: the value sits in
   the additional-information bits (< 24). *)
Inductive width := W0 | W1 | W2 | W4 | W8.

Definition wlen (w : width) : nat :=
  match w with W0 => 0 | W1 => 1 | W2 => 2 | W4 => 4 | W8 => 8 end%nat.

Definition width_eqb (a b : width) : bool :=
  match a, b with
  | W0, W0 | W1, W1 | W2, W2 | W4, W4 | W8, W8 => true
  | _, _ => false
  end.

(* does value n fit the argument width w *)
Definition fits (w : width) (n : Z) : bool :=
  match w with
  | W0 => (0 <=? n) && (n <? 24)
  | W1 => (0 <=? n) && (n <? 256)
  | W2 => (0 <=? n) && (n <? 65536)
  | W4 => (0 <=? n) && (n <? 4294967296)
  | W8 => (0 <=? n) && (n <? 18446744073709551616)
  end.

(* the shortest width that holds n (n assumed in [0, 2^64)) *)
Definition minw (n : Z) : width :=
  if n <? 24 then W0 else if n <? 256 then W1 else if n <? 65536 then W2
  else if n <? 4294967296 then W4 else W8.

Definition ai_of (w : width) (n : Z) : Z :=
  match w with W0 => n | W1 => 24 | W2 => 25 | W4 => 26 | W8 => 27 end.

(* initial byte + argument *)
Definition head (major : Z) (w : width) (n : Z) : bytes :=
  (major * 32 + ai_of w n) :: be_enc (wlen w) n.

(* The syntax tree.  Maps carry a flat list k1,v1,k2,v2,... (even length). *)
Inductive wire :=
| WInt (neg : bool) (w : width) (n : Z)      (* major 0 / 1; value n or -1-n *)
| WStr (text : bool) (w : width) (b : bytes) (* major 2 / 3 *)
| WArr (w : width) (l : list wire)           (* major 4 *)
| WMap (w : width) (l : list wire)           (* major 5, flat pairs *)
| WTag (w : width) (t : Z) (c : wire)        (* major 6 *)
| WSim (w : width) (v : Z).                  (* major 7: W0 simple<24, W1 simple>=32, W2/4/8 float bits *)

Section WireInd.
  Variable P : wire -> Prop.
  Hypothesis HInt : forall neg w n, P (WInt neg w n).
  Hypothesis HStr : forall t w b, P (WStr t w b).
  Hypothesis HArr : forall w l, Forall P l -> P (WArr w l).
  Hypothesis HMap : forall w l, Forall P l -> P (WMap w l).
  Hypothesis HTag : forall w t c, P c -> P (WTag w t c).
  Hypothesis HSim : forall w v, P (WSim w v).
  Fixpoint wire_ind' (x : wire) : P x :=
    match x with
    | WInt neg w n => HInt neg w n
    | WStr t w b => HStr t w b
    | WArr w l => HArr w l ((fix go l := match l return Forall P l with
                                         | [] => Forall_nil _
                                         | y :: r => Forall_cons _ (wire_ind' y) (go r) end) l)
    | WMap w l => HMap w l ((fix go l := match l return Forall P l with
                                         | [] => Forall_nil _
                                         | y :: r => Forall_cons _ (wire_ind' y) (go r) end) l)
    | WTag w t c => HTag w t c (wire_ind' c)
    | WSim w v => HSim w v
    end.
End WireInd.

Definition bmaj (b : bool) (m0 m1 : Z) : Z := if b then m1 else m0.

Fixpoint ser (x : wire) : bytes :=
  match x with
  | WInt neg w n => head (bmaj neg 0 1) w n
  | WStr t w b => head (bmaj t 2 3) w (len b) ++ b
  | WArr w l => head 4 w (len l) ++ flat_map ser l
  | WMap w l => head 5 w (len l / 2) ++ flat_map ser l
  | WTag w t c => head 6 w t ++ ser c
  | WSim w v => head 7 w v
  end.

Notation sers l := (flat_map ser l) (only parsing).

(* well-formedness of a tree (so that ser is a faithful spelling) *)
Definition sim_ok (w : width) (v : Z) : bool :=
  match w with
  | W0 => (0 <=? v) && (v <? 24)
  | W1 => (32 <=? v) && (v <? 256)
  | _ => fits w v
  end.

Fixpoint wf (x : wire) : bool :=
  match x with
  | WInt _ w n => fits w n
  | WStr _ w b => fits w (len b) && bytes_ok b
  | WArr w l => fits w (len l) && forallb wf l
  | WMap w l => Nat.even (length l) && fits w (len l / 2) && forallb wf l
  | WTag w t c => fits w t && wf c
  | WSim w v => sim_ok w v
  end.

(* ---------------- parser ---------------- *)

(* split k bytes off the front, checking range *)
Definition take (k : nat) (b : bytes) : option (bytes * bytes) :=
  if (k <=? length b)%nat then
    let s := firstn k b in
    if bytes_ok s then Some (s, skipn k b) else None
  else None.

Definition width_of_ai (ai : Z) : option width :=
  if ai <? 24 then Some W0
  else if ai =? 24 then Some W1
  else if ai =? 25 then Some W2
  else if ai =? 26 then Some W4
  else if ai =? 27 then Some W8
  else None.   (* 28..30 reserved; 31 indefinite length / break: forbidden *)

(* (major, width, argument, rest) *)
Definition parse_head (b : bytes) : option (Z * width * Z * bytes) :=
  match b with
  | [] => None
  | i :: r =>
    if byte_ok i then
      let m := i / 32 in let ai := i mod 32 in
      match width_of_ai ai with
      | None => None
      | Some W0 => Some (m, W0, ai, r)
      | Some w =>
        match take (wlen w) r with
        | Some (a, r') => Some (m, w, be_dec a, r')
        | None => None
        end
      end
    else None
  end.

Fixpoint parse_seq (p : bytes -> option (wire * bytes)) (n : nat) (b : bytes)
  : option (list wire * bytes) :=
  match n with
  | O => Some ([], b)
  | S n' =>
    match p b with
    | Some (x, r) =>
      match parse_seq p n' r with
      | Some (l, r') => Some (x :: l, r')
      | None => None
      end
    | None => None
    end
  end.

Fixpoint parse (d : nat) (b : bytes) {struct d} : option (wire * bytes) :=
  match d with
  | O => None
  | S d' =>
    match parse_head b with
    | None => None
    | Some (m, w, v, r) =>
      if m =? 0 then Some (WInt false w v, r)
      else if m =? 1 then Some (WInt true w v, r)
      else if (m =? 2) || (m =? 3) then
        if v <=? len r then
          match take (Z.to_nat v) r with
          | Some (s, r') => Some (WStr (m =? 3) w s, r')
          | None => None
          end
        else None
      else if m =? 4 then
        if v <=? len r then
          match parse_seq (parse d') (Z.to_nat v) r with
          | Some (l, r') => Some (WArr w l, r')
          | None => None
          end
        else None
      else if m =? 5 then
        if 2 * v <=? len r then
          match parse_seq (parse d') (Z.to_nat (2 * v)) r with
          | Some (l, r') => Some (WMap w l, r')
          | None => None
          end
        else None
      else if m =? 6 then
        match parse d' r with
        | Some (c, r') => Some (WTag w v c, r')
        | None => None
        end
      else (* 7 *)
        if sim_ok w v then Some (WSim w v, r) else None
    end
  end.

(* parse a complete input: one item, nothing after it *)
Definition parse_full (b : bytes) : option wire :=
  match parse (S (length b)) b with
  | Some (x, []) => Some x
  | _ => None
  end.

(* ---------------- pairs view of a flat map ---------------- *)
Fixpoint pairs {A} (l : list A) : list (A * A) :=
  match l with
  | k :: v :: r => (k, v) :: pairs r
  | _ => []
  end.

Fixpoint unpairs {A} (l : list (A * A)) : list A :=
  match l with
  | [] => []
  | (k, v) :: r => k :: v :: unpairs r
  end.

(* ---------------- size ---------------- *)
Fixpoint wsize (x : wire) : nat :=
  match x with
  | WArr _ l | WMap _ l => S (fold_right (fun y a => wsize y + a)%nat O l)
  | WTag _ _ c => S (wsize c)
  | _ => 1%nat
  end.
