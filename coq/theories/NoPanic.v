(* NoPanic.v — no input makes a decoder of the model reach a panic site (C06).
   The model returns Panic exactly where the Go code would panic (unchecked
   type assertion, index out of range, ed25519.NewKeyFromSeed with a seed of
   the wrong length); every model function is a total Coq function, so it also
   terminates on every input. *)
From Coq Require Import Ascii String ZArith List Lia Bool Arith ZifyBool.
From GoCose Require Import Bytes Cbor CborProofs Res GoVal Fx Headers Enc Dec Msg HashEnv Key KeyProofs.
From GoCose.Gen Require Import Generated.
Import ListNotations.
Open Scope Z_scope.

Definition np {A} (r : res A) : Prop := r <> Panic.

Lemma np_bind {A B} (r : res A) (f : A -> res B) : np r -> (forall a, np (f a)) -> np (bind r f).
Proof. unfold np. destruct r; cbn; auto; discriminate. Qed.

Lemma np_comb {A B C} (ra : res A) (rb : res B) (f : A -> B -> res C) :
  np ra -> np rb -> (forall a b, np (f a b)) -> np (comb ra rb f).
Proof. unfold np. destruct ra, rb; cbn; auto; try discriminate; try contradiction. Qed.

Lemma np_acc {A} (a : A) : np (Acc a). Proof. discriminate. Qed.
Lemma np_rej {A} e : np (@Rej A e). Proof. discriminate. Qed.
Lemma np_unm {A} : np (@Unm A). Proof. discriminate. Qed.
Lemma np_if {A} (c : bool) (x y : res A) : np x -> np y -> np (if c then x else y).
Proof. destruct c; auto. Qed.
#[local] Hint Resolve np_acc np_rej np_unm np_if : np.

Lemma as_map_key_np k : np (as_map_key k).
Proof. destruct k; cbn; auto with np. Qed.

Lemma dec_np : forall x strip, np (dec strip x).
Proof.
  induction x using wire_ind'; intros strip; cbn [dec].
  - destruct neg; apply np_if; auto with np.
  - destruct t; [apply np_if|]; auto with np.
  - apply np_bind; auto with np. induction H as [|y l Hy Hl IH]; auto with np.
    apply np_comb; auto with np.
  - apply np_bind; [|intros; apply np_if; auto with np].
    assert (G : forall l0, Forall (fun x => forall strip, np (dec strip x)) l0 ->
              np ((fix go (l : list wire) : res (list gv) :=
                     match l with
                     | k :: v :: r =>
                         comb (let* k' := dec true k in as_map_key k') (comb (dec true v) (go r) (fun v0 vs => Acc (v0, vs)))
                              (fun k' p => Acc (k' :: fst p :: snd p))
                     | _ => Acc []
                     end) l0)).
    { fix IH 1. intros [|k [|v r]] HF; auto with np.
      inversion HF as [|? ? Hk HF']; subst. inversion HF' as [|? ? Hv HF'']; subst.
      apply np_comb; auto with np.
      - apply np_bind; auto. intros; apply as_map_key_np.
      - apply np_comb; auto with np. }
    apply G. exact H.
  - repeat match goal with |- np (if ?c then _ else _) => destruct c end; auto with np;
      try (destruct x; try destruct text; try destruct w0; auto with np; fail);
      try (apply np_bind; auto with np).
  - destruct w; auto with np.
Qed.

Lemma bstr_or_nil_np x : np (bstr_or_nil x).
Proof.
  destruct x as [neg w n|text w b|w l|w l|w t c|w v]; cbn; auto with np.
  destruct w; auto with np. destruct v as [|v|v]; auto with np.
  do 5 (destruct v as [v|v|]; auto with np).
Qed.

Lemma label_of_wire_np k : np (label_of_wire k).
Proof.
  unfold label_of_wire. destruct (strip_sd k) as [neg w n|text w b|w l|w l|w t c|w v]; auto with np;
    try (destruct neg; apply np_if; auto with np); try (destruct text; auto with np).
Qed.

Lemma labels_pass_np : forall l, np (labels_pass l).
Proof.
  fix IH 1. intros [|k [|v r]]; cbn [labels_pass]; auto with np.
  apply np_comb; auto using label_of_wire_np with np. apply np_comb; auto with np.
Qed.

Lemma values_pass_np : forall l, np (values_pass l).
Proof.
  fix IH 1. intros [|k [|v r]]; cbn [values_pass]; auto with np.
  apply np_comb; auto using dec_np with np.
Qed.

Lemma dec_protected_np p : np (dec_protected p).
Proof.
  unfold dec_protected. destruct p; auto with np. destruct text; auto with np. destruct b as [|a rest]; auto with np.
  apply np_if; auto with np. destruct (lib_wf true (a :: rest)) as [x|]; auto with np.
  destruct x; auto with np. apply np_bind; [apply labels_pass_np|]. intros ks. apply np_if; auto with np.
  apply np_bind; [apply values_pass_np|]. intros vs. apply np_if; auto with np.
Qed.

Lemma dec_unprotected_np : forall f u, np (dec_unprotected f u).
Proof.
  induction f as [|f IH]; intros u; cbn [dec_unprotected]; auto with np.
  destruct u; auto with np.
  apply np_bind; [apply labels_pass_np|]. intros ks. apply np_if; auto with np.
  assert (Hsig : forall x, np (match is_arr3 x with
                               | None => Rej EOther
                               | Some (p, uu, s) =>
                                   if negb (notags x && depth_ok false x 0) then Rej EOther
                                   else let* sg := bstr_or_nil s in
                                        if glen sg =? 0 then Rej EEmptySig
                                        else let* pm := dec_protected p in
                                             let* um := dec_unprotected f uu in
                                             let h := mkH (Some (ser p)) (Some pm) (Some (ser uu)) (Some um) in
                                             if ensure_iv h then Acc (GCsig (Some (ser p)) (Some pm) (Some (ser uu)) (Some um) sg)
                                             else Rej EOther
                               end)).
  { intros x. destruct (is_arr3 x) as [[[p uu] s]|]; auto with np. apply np_if; auto with np.
    apply np_bind; [apply bstr_or_nil_np|]. intros sg. apply np_if; auto with np.
    apply np_bind; [apply dec_protected_np|]. intros pm. apply np_bind; [apply IH|]. intros um.
    apply np_if; auto with np. }
  apply np_bind; [|intros; apply np_if; auto with np].
  match goal with |- np (?F l ks) => assert (G : forall l0 ks0, np (F l0 ks0)); [|apply G] end.
  fix IHg 1. intros [|a [|v r]] ks0; try (destruct ks0; auto with np; fail).
  destruct ks0 as [|k ks']; auto with np.
  apply np_comb; auto with np.
  destruct (match k with GInt KInt64 n => (n =? c_HeaderLabelCounterSignature) || (n =? c_HeaderLabelCounterSignatureV2) | _ => false end);
    [|apply dec_np].
  cbv zeta. apply np_if; auto with np.
  match goal with |- np (match ?X with _ => _ end) => assert (HX : np X) by apply Hsig; destruct X; auto with np end.
  destruct (strip_sd v) as [| |? l0| | |]; auto with np. destruct l0; auto with np.
  match goal with |- np (match ?X with _ => _ end) => assert (HY : np X); [|destruct X; auto with np; contradiction] end.
  apply np_comb; auto with np.
  generalize l0. intros ll.
  induction ll as [|y ll IHll]; auto with np.
  apply np_comb; auto with np.
Qed.

Lemma dec_headers_np p u : np (dec_headers p u).
Proof.
  unfold dec_headers. apply np_bind; [apply dec_protected_np|]. intros pm.
  apply np_bind; [apply dec_unprotected_np|]. intros um. apply np_if; auto with np.
Qed.

Lemma dec_sign1_arr_np x : np (dec_sign1_arr x).
Proof.
  unfold dec_sign1_arr. destruct x; auto with np. destruct w; auto with np.
  destruct l as [|p [|u [|pl [|sg [|? ?]]]]]; auto with np.
  apply np_bind; [apply bstr_or_nil_np|]. intros. apply np_bind; [apply bstr_or_nil_np|]. intros.
  apply np_if; auto with np. apply np_bind; [apply dec_headers_np|]. auto with np.
Qed.

Ltac np_cases :=
  repeat match goal with
         | |- np (if _ then _ else _) => apply np_if
         | |- np (match ?x with _ => _ end) => destruct x
         end.

(* ---- the decoding entry points never reach a panic site ---- *)
Theorem unmarshal_sign1_never_panics data : unmarshal_sign1 data <> Panic.
Proof.
  change (np (unmarshal_sign1 data)). unfold unmarshal_sign1. np_cases; auto using dec_sign1_arr_np with np.
Qed.

Theorem unmarshal_sign1_untagged_never_panics data : unmarshal_sign1_untagged data <> Panic.
Proof.
  change (np (unmarshal_sign1_untagged data)). unfold unmarshal_sign1_untagged. np_cases; auto using dec_sign1_arr_np with np.
Qed.

Lemma dec_signature_item_np x : np (dec_signature_item x).
Proof.
  unfold dec_signature_item. destruct (is_arr3 x) as [[[p u] s]|]; auto with np.
  apply np_bind; [apply bstr_or_nil_np|]. intros. apply np_if; auto with np.
  apply np_bind; [apply dec_headers_np|]. auto with np.
Qed.

Theorem unmarshal_signature_never_panics data : unmarshal_signature data <> Panic.
Proof.
  change (np (unmarshal_signature data)). unfold unmarshal_signature. np_cases; auto using dec_signature_item_np with np.
Qed.

Lemma mapM_np {A B} (f : A -> res B) l : (forall a, np (f a)) -> np (mapM f l).
Proof.
  intros Hf. induction l as [|a l IH]; cbn; auto with np.
  apply np_bind; auto. intros. apply np_bind; auto with np.
Qed.

Theorem unmarshal_signmsg_never_panics data : unmarshal_signmsg data <> Panic.
Proof.
  change (np (unmarshal_signmsg data)). unfold unmarshal_signmsg. apply np_if; auto with np.
  destruct (lib_wf false (tl (tl data))) as [x|]; auto with np. destruct x; auto with np.
  destruct w; auto with np. destruct l as [|p [|u [|pl [|sgs [|? ?]]]]]; auto with np.
  apply np_bind; [apply bstr_or_nil_np|]. intros payload.
  apply np_bind.
  - destruct sgs; auto with np. destruct w; auto with np. destruct v as [|v|v]; auto with np.
    do 5 (destruct v as [v|v|]; auto with np).
  - intros items. destruct items; auto with np.
    apply np_bind; [apply mapM_np; apply dec_signature_item_np|]. intros.
    apply np_bind; [apply dec_headers_np|]. auto with np.
Qed.

Theorem unmarshal_protected_never_panics data : unmarshal_protected data <> Panic.
Proof.
  change (np (unmarshal_protected data)). unfold unmarshal_protected. np_cases; auto using dec_protected_np with np.
Qed.

Theorem unmarshal_unprotected_never_panics data : unmarshal_unprotected data <> Panic.
Proof.
  change (np (unmarshal_unprotected data)). unfold unmarshal_unprotected. np_cases; auto using dec_unprotected_np with np.
Qed.

(* COSE_Key: after the repair of the unchecked v.(int64) conversion *)
Lemma decode_ops_np l : np (decode_ops l).
Proof.
  induction l as [|g l IH]; cbn [decode_ops]; auto with np. destruct g; auto with np.
  - destruct k; auto with np; apply np_bind; auto with np.
  - destruct (keyop_of_string tbl_KeyOpFromString s); auto with np. apply np_bind; auto with np.
Qed.

Lemma key_params_pass_np kty : forall l, np (key_params_pass kty l).
Proof.
  fix IH 1. intros [|k [|v r]]; cbn [key_params_pass]; auto with np.
  apply np_bind; auto. intros rest. destruct k; auto with np. destruct k; auto with np.
  apply np_if; auto with np. destruct v; auto with np. destruct k; auto with np.
Qed.

Lemma key_validate_np k op : np (key_validate k op).
Proof.
  unfold key_validate. apply np_bind.
  - repeat (apply np_if; auto with np).
  - intros _. apply np_if; auto with np. apply np_bind; [unfold derive_alg; destruct (derive_lookup _ _ _); auto with np|].
    intros. apply np_if; auto with np.
Qed.

Theorem key_unmarshal_never_panics data : key_unmarshal data <> Panic.
Proof.
  change (np (key_unmarshal data)). unfold key_unmarshal. destruct (lib_wf true data); auto with np.
  destruct (skip_tags (strip_sd w)) as [x|]; auto with np. destruct x; auto with np.
  apply np_bind; [apply dec_np|]. intros g. destruct g; auto with np.
  apply np_bind; [unfold decode_int; destruct (glookup _ _) as [[]|]; auto with np; apply np_if; auto with np|]. intros kty.
  apply np_if; auto with np. apply np_if; auto with np.
  apply np_bind; [unfold decode_bytes; destruct (glookup _ _) as [[]|]; auto with np|]. intros id.
  apply np_bind; [unfold decode_int; destruct (glookup _ _) as [[]|]; auto with np; apply np_if; auto with np|]. intros alg.
  apply np_bind; [destruct (glookup _ _) as [[]|]; auto with np; apply np_bind; auto using decode_ops_np with np|]. intros ops.
  apply np_bind; [unfold decode_bytes; destruct (glookup _ _) as [[]|]; auto with np|]. intros biv.
  apply np_bind; [apply key_params_pass_np|]. intros params.
  apply np_bind; [apply key_validate_np|]. auto with np.
Qed.

(* follow-up conversions of an accepted key: the only panic site of the model
   (ed25519.NewKeyFromSeed) is guarded by validation *)
Theorem key_private_never_panics k : key_private k <> Panic.
Proof.
  unfold key_private. destruct (key_validate k c_KeyOpSign) as [[]|e| |] eqn:V; cbn [bind]; try discriminate.
  2:{ exfalso. exact (key_validate_np k c_KeyOpSign V). }
  destruct (derive_alg k) as [a| | |] eqn:D; cbn [bind]; try discriminate.
  2:{ unfold derive_alg in D. destruct (derive_lookup _ _ _); discriminate. }
  destruct ((a =? c_AlgorithmES256) || (a =? c_AlgorithmES384) || (a =? c_AlgorithmES512)) eqn:Ec.
  - destruct ((glen (key_x k) =? 0) || (glen (key_y k) =? 0)); discriminate.
  - destruct (a =? c_AlgorithmEdDSA) eqn:Ed; [|discriminate].
    destruct (glen (key_x k) =? 0) eqn:Gx; [|discriminate].
    (* the key is OKP/Ed25519 (only source of EdDSA) and validated for signing: d has 32 bytes *)
    apply derive_alg_table in D as [(T & _ & A)|[(T & _ & A)|[(T & _ & A)|(T & _ & A)]]];
      try (exfalso; subst a; cbv in Ed; discriminate).
    destruct (key_validate_okp k _ V T) as (_ & _ & _ & Hd & _ & _ & Hs).
    specialize (Hs eq_refl). assert (G : glen (key_d k) = 32) by lia.
    rewrite G. cbn. discriminate.
Qed.

Theorem key_public_never_panics k : key_public k <> Panic.
Proof.
  change (np (key_public k)). unfold key_public. apply np_bind; [apply key_validate_np|]. intros _.
  apply np_bind; [unfold derive_alg; destruct (derive_lookup _ _ _); auto with np|]. intros a.
  repeat (apply np_if; auto with np).
Qed.

Theorem key_signer_verifier_never_panic k oc : key_signer k <> Panic /\ key_verifier k oc <> Panic.
Proof.
  split.
  - change (np (key_signer k)). unfold key_signer. apply np_if; auto with np. apply np_bind; [apply key_private_never_panics|]. intros _.
    apply np_bind; auto with np. unfold alg_or_default. apply np_if; auto with np.
    unfold derive_alg; destruct (derive_lookup _ _ _); auto with np.
  - change (np (key_verifier k oc)). unfold key_verifier. apply np_if; auto with np. apply np_bind; [apply key_public_never_panics|]. intros p.
    apply np_bind; [unfold alg_or_default; apply np_if; auto with np; unfold derive_alg; destruct (derive_lookup _ _ _); auto with np|].
    intros a. destruct p; auto with np.
Qed.
