(* EncProofs.v — the encoder is independent of map iteration order and emits
   maps sorted bytewise on the encoded key with shortest heads (C08). *)
From Coq Require Import Ascii String ZArith List Lia Bool Arith ZifyBool Permutation.
From GoCose Require Import Bytes Cbor CborProofs Res GoVal Fx Headers Enc Dec Msg TbsProofs FlowProofs.
From GoCose.Gen Require Import Generated.
Import ListNotations.
Open Scope Z_scope.

Definition kv := (bytes * bytes)%type.
Definition klt (a b : kv) : Prop := bytes_ltb (fst a) (fst b) = true.

(* strictly increasing keys *)
Inductive ssorted : list kv -> Prop :=
| ss_nil : ssorted []
| ss_one a : ssorted [a]
| ss_cons a b l : klt a b -> ssorted (b :: l) -> ssorted (a :: b :: l).

(* non-strictly sorted (what insertion sort guarantees without assumptions) *)
Definition kle (a b : kv) : Prop := bytes_ltb (fst b) (fst a) = false.
Inductive wsorted : list kv -> Prop :=
| ws_nil : wsorted []
| ws_one a : wsorted [a]
| ws_cons a b l : kle a b -> wsorted (b :: l) -> wsorted (a :: b :: l).

Lemma insert_kv_perm x l : Permutation (insert_kv x l) (x :: l).
Proof.
  induction l as [|y l IH]; cbn; auto.
  destruct (bytes_ltb (fst y) (fst x)); auto.
  eapply perm_trans; [apply perm_skip; exact IH|apply perm_swap].
Qed.

Lemma sort_kv_perm l : Permutation (sort_kv l) l.
Proof.
  induction l as [|x l IH]; cbn; auto.
  eapply perm_trans; [apply insert_kv_perm|apply perm_skip; exact IH].
Qed.

Lemma kle_of_not_lt a b : bytes_ltb (fst a) (fst b) = false -> kle b a.
Proof. auto. Qed.

Lemma insert_kv_wsorted x l : wsorted l -> wsorted (insert_kv x l).
Proof.
  induction 1 as [|a|a b l Hab Hs IH]; cbn.
  - constructor.
  - destruct (bytes_ltb (fst a) (fst x)) eqn:E; constructor; try constructor; unfold kle.
    + apply bytes_ltb_asym; auto.
    + exact E.
  - cbn in IH. destruct (bytes_ltb (fst a) (fst x)) eqn:E1.
    + destruct (bytes_ltb (fst b) (fst x)) eqn:E2.
      * constructor; auto.
      * constructor; [unfold kle; apply bytes_ltb_asym; auto|]. constructor; auto.
    + constructor; auto. constructor; auto.
Qed.

Lemma sort_kv_wsorted l : wsorted (sort_kv l).
Proof. induction l; cbn; [constructor|apply insert_kv_wsorted; auto]. Qed.

(* sorted without adjacent equal keys = strictly sorted *)
Lemma wsorted_nodup_ssorted l : wsorted l -> adjacent_dup l = false -> ssorted l.
Proof.
  induction 1 as [|a|a b l Hab Hs IH]; intros Hd; try constructor.
  - cbn [adjacent_dup] in Hd. apply orb_false_iff in Hd as [Hne Hd].
    unfold klt. destruct (bytes_ltb (fst a) (fst b)) eqn:E; auto.
    exfalso. assert (fst a = fst b) by (apply bytes_ltb_total; auto).
    rewrite H in Hne. rewrite bytes_eqb_refl in Hne. discriminate.
  - apply IH. cbn [adjacent_dup] in Hd. apply orb_false_iff in Hd as [_ Hd]. exact Hd.
Qed.

Lemma ssorted_head_min a l : ssorted (a :: l) -> forall b, In b l -> klt a b.
Proof.
  revert a. induction l as [|x l IH]; intros a Hs b Hb; [contradiction|].
  inversion Hs; subst. destruct Hb as [->|Hb]; auto.
  unfold klt in *. eapply bytes_ltb_trans; [eassumption|]. apply (IH x); auto.
Qed.

Lemma ssorted_tail a l : ssorted (a :: l) -> ssorted l.
Proof. intros H; inversion H; subst; auto; constructor. Qed.

Lemma klt_irrefl a : ~ klt a a.
Proof. unfold klt. rewrite bytes_ltb_irrefl. discriminate. Qed.

(* a strictly sorted list is determined by its elements *)
Theorem ssorted_unique : forall l m, ssorted l -> ssorted m -> Permutation l m -> l = m.
Proof.
  induction l as [|a l IH]; intros m Hl Hm HP.
  - apply Permutation_nil in HP. auto.
  - destruct m as [|b m]; [apply Permutation_sym, Permutation_nil in HP; discriminate|].
    assert (a = b).
    { assert (Ha : In a (b :: m)) by (eapply Permutation_in; [exact HP|left; auto]).
      assert (Hb : In b (a :: l)) by (eapply Permutation_in; [apply Permutation_sym; exact HP|left; auto]).
      destruct Ha as [->|Ha]; auto. destruct Hb as [->|Hb]; auto.
      pose proof (ssorted_head_min _ _ Hm _ Ha) as H1. pose proof (ssorted_head_min _ _ Hl _ Hb) as H2.
      exfalso. apply (klt_irrefl a). unfold klt in *. eapply bytes_ltb_trans; eauto. }
    subst b. f_equal. apply IH; eauto using ssorted_tail. eapply Permutation_cons_inv; eauto.
Qed.

Lemma ssorted_nodup_keys l : ssorted l -> NoDup (map fst l).
Proof.
  induction 1 as [|a|x y r Hxy Hr IHr].
  - constructor.
  - cbn. constructor; [intros []|constructor].
  - cbn [map] in *. constructor; auto. intros Hin. destruct Hin as [Hin|Hin].
    + unfold klt in Hxy. rewrite Hin in Hxy. rewrite bytes_ltb_irrefl in Hxy. discriminate.
    + apply in_map_iff in Hin as (z & Hz & Hzin).
      pose proof (ssorted_head_min y r Hr z Hzin) as K. unfold klt in *.
      rewrite Hz in K. pose proof (bytes_ltb_trans _ _ _ Hxy K) as T. rewrite bytes_ltb_irrefl in T. discriminate.
Qed.

Lemma nodup_keys_no_adjacent : forall m, NoDup (map fst m) -> adjacent_dup m = false.
Proof.
  induction m as [|a l IH]; intros H; [reflexivity|]. destruct l as [|b r]; [reflexivity|].
  change (adjacent_dup (a :: b :: r)) with (bytes_eqb (fst a) (fst b) || adjacent_dup (b :: r)).
  cbn [map] in H. inversion H as [|? ? Hnin Hnd]; subst.
  apply orb_false_iff. split.
  - destruct (bytes_eqb (fst a) (fst b)) eqn:E; auto. apply bytes_eqb_eq in E. exfalso. apply Hnin. left. auto.
  - apply IH. exact Hnd.
Qed.

(* C08: the bytes of a map do not depend on the order in which Go iterates over it *)
Theorem enc_map_order_independent kvs kvs' b :
  Permutation kvs kvs' -> enc_map_of kvs = Acc b -> enc_map_of kvs' = Acc b.
Proof.
  intros HP. unfold enc_map_of.
  destruct (adjacent_dup (sort_kv kvs)) eqn:D; [discriminate|]. intros H.
  assert (S1 : ssorted (sort_kv kvs)) by (apply wsorted_nodup_ssorted; auto using sort_kv_wsorted).
  assert (P : Permutation (sort_kv kvs) (sort_kv kvs')).
  { eapply perm_trans; [apply sort_kv_perm|]. eapply perm_trans; [exact HP|]. apply Permutation_sym, sort_kv_perm. }
  assert (D' : adjacent_dup (sort_kv kvs') = false).
  { apply nodup_keys_no_adjacent. eapply Permutation_NoDup; [apply Permutation_map; exact P|].
    apply ssorted_nodup_keys; auto. }
  rewrite D'. rewrite <- H.
  replace (len kvs') with (len kvs) by (unfold len; f_equal; apply Permutation_length; auto).
  replace (sort_kv kvs') with (sort_kv kvs); [reflexivity|].
  apply ssorted_unique; auto. apply wsorted_nodup_ssorted; auto using sort_kv_wsorted.
Qed.

(* what the encoder emits for a map: shortest head, entries strictly increasing bytewise on the encoded key *)
Theorem enc_map_canonical kvs b :
  enc_map_of kvs = Acc b ->
  exists s, b = head 5 (minw (len kvs)) (len kvs) ++ flat_kv s /\ ssorted s /\ Permutation s kvs.
Proof.
  unfold enc_map_of. destruct (adjacent_dup (sort_kv kvs)) eqn:D; [discriminate|].
  intros H; inversion H; subst. exists (sort_kv kvs). split; [reflexivity|].
  split; [apply wsorted_nodup_ssorted; auto using sort_kv_wsorted|apply sort_kv_perm].
Qed.

(* heads are always the shortest ones *)
Theorem enc_heads_shortest :
  (forall n, enc_int n = if 0 <=? n then head 0 (minw n) n else head 1 (minw (-1 - n)) (-1 - n)) /\
  (forall b, enc_bstr b = head 2 (minw (len b)) (len b) ++ b) /\
  (forall b, enc_tstr b = head 3 (minw (len b)) (len b) ++ b).
Proof. repeat split. Qed.

Lemma minw_minimal n w : 0 <= n -> fits w n = true -> (wlen (minw n) <= wlen w)%nat.
Proof.
  intros Hn. unfold minw. destruct w; cbn; intros Hf;
  repeat match goal with |- context [if ?c then _ else _] => destruct c eqn:? end; cbn; lia.
Qed.

(* C08: the protected bytes emitted on the wire are the bytes that were signed.
   Library-generated protected buckets are already in shortest form, so the
   normalisation applied when signing leaves them unchanged. *)
Theorem generated_protected_is_normal m :
  short m -> det_bstr (enc_bstr m) = Acc (enc_bstr m).
Proof.
  intros [Hb Hl]. rewrite enc_bstr_ser. unfold tbstr.
  rewrite det_bstr_any_width; auto. apply minw_fits. pose proof (len_nonneg m). lia.
Qed.

Theorem empty_protected_is_normal : det_bstr [64] = Acc [64].
Proof. reflexivity. Qed.

(* every encoder splices marshal_protected verbatim; the signer saw det_bstr of the same bytes *)
Theorem sign1_emits_what_it_signed m b :
  marshal_sign1 m = Acc b ->
  exists p u, headers_marshal (s1_h m) = Acc (p, u) /\ marshal_protected (s1_h m) = Acc p /\
              b = enc_head 6 c_CBORTagSign1Message ++ enc_head 4 4 ++ p ++ u ++ enc_gobytes (s1_payload m) ++ enc_bstr (gor (s1_sig m)).
Proof.
  unfold marshal_sign1, sign1_content. destruct (glen (s1_sig m) =? 0); [discriminate|].
  destruct (headers_marshal (s1_h m)) as [[p u]| | |] eqn:Hm; cbn [bind]; try discriminate.
  intros H; inversion H; subst. exists p, u. split; auto. split; [|reflexivity].
  unfold headers_marshal in Hm. destruct (negb (ensure_iv (s1_h m))); [discriminate|].
  destruct (marshal_protected (s1_h m)) as [p'| | |]; cbn [bind] in Hm; try discriminate.
  destruct (marshal_unprotected (s1_h m)) as [u'| | |]; cbn [bind] in Hm; try discriminate.
  inversion Hm; subst. reflexivity.
Qed.
