(* Fx.v — the slice of github.com/fxamacker/cbor/v2 v2.5.0 that go-cose relies
   on, decode side: well-formedness limits, UTF-8, floats, decoding of an item
   into Go's default types (`any`), duplicate-key detection.
   MODELLED, NOT VERIFIED: this file restates library behaviour; it is kept
   honest only by the correspondence check. *)
From Coq Require Import Ascii String ZArith List Lia Bool.
From GoCose Require Import Bytes Cbor Res GoVal.
Import ListNotations.
Open Scope Z_scope.

Definition maxint64 : Z := 9223372036854775807.
Definition max_nested : Z := 32.          (* default MaxNestedLevels *)
Definition max_elems : Z := 131072.       (* default MaxArrayElements / MaxMapPairs *)
Definition selfdesc : Z := 55799.

(* ---------- well-formedness limits (valid.go: wellformedInternal) ---------- *)
Fixpoint depth_ok (tags : bool) (x : wire) (depth : Z) {struct x} : bool :=
  match x with
  | WArr _ l =>
      (depth + 1 <=? max_nested) && (len l <=? max_elems) &&
      (fix all (l : list wire) : bool :=
         match l with [] => true | y :: r => depth_ok tags y (depth + 1) && all r end) l
  | WMap _ l =>
      (depth + 1 <=? max_nested) && (len l / 2 <=? max_elems) &&
      (fix all (l : list wire) : bool :=
         match l with [] => true | y :: r => depth_ok tags y (depth + 1) && all r end) l
  | WTag _ _ c =>
      tags &&
      match c with
      | WTag _ _ _ => (depth + 1 <=? max_nested) && depth_ok tags c (depth + 1)
      | _ => depth_ok tags c depth
      end
  | _ => true
  end.

(* dm.Unmarshal's first pass: one complete definite-length item within limits *)
Definition lib_wf (tags : bool) (b : bytes) : option wire :=
  match parse_full b with
  | Some w => if depth_ok tags w 0 then Some w else None
  | None => None
  end.

(* ---------- UTF-8 (unicode/utf8.Valid) ---------- *)
Definition cont (b : Z) : bool := (128 <=? b) && (b <=? 191).
Definition inr (lo hi b : Z) : bool := (lo <=? b) && (b <=? hi).

Fixpoint utf8_valid (l : bytes) : bool :=
  match l with
  | [] => true
  | a :: r =>
    if a <? 128 then utf8_valid r
    else if inr 194 223 a then
      match r with b :: r1 => cont b && utf8_valid r1 | _ => false end
    else if a =? 224 then
      match r with b :: c :: r2 => inr 160 191 b && cont c && utf8_valid r2 | _ => false end
    else if inr 225 236 a || inr 238 239 a then
      match r with b :: c :: r2 => cont b && cont c && utf8_valid r2 | _ => false end
    else if a =? 237 then
      match r with b :: c :: r2 => inr 128 159 b && cont c && utf8_valid r2 | _ => false end
    else if a =? 240 then
      match r with b :: c :: d :: r3 => inr 144 191 b && cont c && cont d && utf8_valid r3 | _ => false end
    else if inr 241 243 a then
      match r with b :: c :: d :: r3 => cont b && cont c && cont d && utf8_valid r3 | _ => false end
    else if a =? 244 then
      match r with b :: c :: d :: r3 => inr 128 143 b && cont c && cont d && utf8_valid r3 | _ => false end
    else false
  end.

(* ---------- floats: widen half / single precision bits to double bits ---------- *)
Definition nan64 : Z := 9221120237041090561. (* 0x7FF8000000000001: every NaN is observed as this *)

Definition widen (ebits fbits : Z) (bits : Z) : Z :=
  let bias := 2 ^ (ebits - 1) - 1 in
  let sign := bits / 2 ^ (ebits + fbits) in
  let e := (bits / 2 ^ fbits) mod 2 ^ ebits in
  let f := bits mod 2 ^ fbits in
  let s64 := sign * 2 ^ 63 in
  if e =? 2 ^ ebits - 1 then
    if f =? 0 then s64 + 2047 * 2 ^ 52 else nan64
  else if e =? 0 then
    if f =? 0 then s64
    else (* subnormal: f * 2^(1-bias-fbits) *)
      let k := Z.log2 f in  (* f = 2^k * 1.xxx *)
      let e64 := k + 1 - bias - fbits + 1023 in
      s64 + e64 * 2 ^ 52 + (f - 2 ^ k) * 2 ^ (52 - k)
  else s64 + (e - bias + 1023) * 2 ^ 52 + f * 2 ^ (52 - fbits).

Definition f16_to_f64 := widen 5 10.
Definition f32_to_f64 := widen 8 23.
Definition is_nan64 (b : Z) : bool := ((b / 2 ^ 52) mod 2048 =? 2047) && negb (b mod 2 ^ 52 =? 0).
Definition norm_f64 (b : Z) : Z := if is_nan64 b then nan64 else b.

(* ---------- combining verdicts the way the library does: it keeps decoding
   after an error and reports the first error, so a rejection anywhere wins
   over "unmodelled" elsewhere ---------- *)
Definition comb {A B C} (ra : res A) (rb : res B) (f : A -> B -> res C) : res C :=
  match ra, rb with
  | Acc a, Acc b => f a b
  | Rej e, _ => Rej e
  | _, Rej e => Rej e
  | Panic, _ => Panic
  | _, Panic => Panic
  | _, _ => Unm
  end.

(* ---------- map keys ---------- *)
(* isHashableValue / convertByteSliceToByteString for a decoded key *)
Definition as_map_key (k : gv) : res gv :=
  match k with
  | GBytes b => Acc (GBStr b)
  | GInt _ _ | GStr _ | GBool _ | GNil | GSimple _ | GBStr _ => Acc k
  | GArr _ | GMap _ | GBig _ => Rej EOther       (* InvalidMapKeyTypeError *)
  | GFloat _ => Unm                              (* NaN != NaN, +0 == -0: not modelled *)
  | GTag _ _ => Unm
  | _ => Unm
  end.

Fixpoint key_in (k : gv) (keys : list gv) : bool :=
  match keys with [] => false | k' :: r => key_eqb k k' || key_in k r end.

(* DupMapKeyEnforcedAPF on decoded keys *)
Fixpoint keys_nodup (keys : list gv) : bool :=
  match keys with [] => true | k :: r => negb (key_in k r) && keys_nodup r end.

(* ---------- decoding one item to `any` (decode.go: parse) ---------- *)
(* strip: the caller strips leading self-described tags (55799) first *)
Fixpoint dec (strip : bool) (x : wire) {struct x} : res gv :=
  match x with
  | WInt false _ n => if n <=? maxint64 then Acc (GInt KInt64 n) else Rej EOther
  | WInt true _ n => if n <=? maxint64 then Acc (GInt KInt64 (-1 - n)) else Acc (GBig (-1 - n))
  | WStr false _ b => Acc (GBytes b)
  | WStr true _ b => if utf8_valid b then Acc (GStr b) else Rej EOther
  | WArr _ l =>
      let* vs := (fix go (l : list wire) : res (list gv) :=
                    match l with
                    | [] => Acc []
                    | y :: r => comb (dec true y) (go r) (fun v vs => Acc (v :: vs))
                    end) l in
      Acc (GArr vs)
  | WMap _ l =>
      let* kvs := (fix go (l : list wire) : res (list gv) :=
                     match l with
                     | k :: v :: r =>
                         comb (let* k' := dec true k in as_map_key k') (comb (dec true v) (go r) (fun v vs => Acc (v, vs)))
                              (fun k' p => Acc (k' :: fst p :: snd p))
                     | _ => Acc []
                     end) l in
      if keys_nodup (gkeys kvs) then Acc (GMap kvs) else Rej EOther
  | WTag _ t c =>
      if strip && (t =? selfdesc) then dec true c
      else if t =? 0 then
        match c with WStr true _ _ => Unm (* RFC 3339 parsing: not modelled *) | _ => Rej EOther end
      else if t =? 1 then
        match c with
        | WInt _ _ _ => Unm
        | WSim W2 _ | WSim W4 _ | WSim W8 _ => Unm
        | _ => Rej EOther
        end
      else if t =? 2 then
        match c with WStr false _ b => Acc (GBig (be_dec b)) | _ => Rej EOther end
      else if t =? 3 then
        match c with WStr false _ b => Acc (GBig (-1 - be_dec b)) | _ => Rej EOther end
      else let* v := dec false c in Acc (GTag t v)
  | WSim W0 v =>
      if v =? 20 then Acc (GBool false) else if v =? 21 then Acc (GBool true)
      else if (v =? 22) || (v =? 23) then Acc GNil else Acc (GSimple v)
  | WSim W1 v => Acc (GSimple v)
  | WSim W2 v => Acc (GFloat (f16_to_f64 v))
  | WSim W4 v => Acc (GFloat (f32_to_f64 v))
  | WSim W8 v => Acc (GFloat (norm_f64 v))
  end.

(* strip leading self-described tags of an item handed to an Unmarshaler /
   RawMessage (parseToValue does this before dispatching) *)
Fixpoint strip_sd (x : wire) : wire :=
  match x with
  | WTag _ t c => if t =? selfdesc then strip_sd c else x
  | _ => x
  end.

(* validBuiltinTag on the (already stripped) item about to be handed over *)
Definition builtin_tag_ok (x : wire) : bool :=
  match x with
  | WTag _ t c =>
      if t =? 0 then match c with WStr true _ _ => true | _ => false end
      else if t =? 1 then
        match c with WInt _ _ _ => true | WSim W2 _ | WSim W4 _ | WSim W8 _ => true | _ => false end
      else if (t =? 2) || (t =? 3) then match c with WStr false _ _ => true | _ => false end
      else true
  | _ => true
  end.

Fixpoint notags (x : wire) : bool :=
  match x with
  | WArr _ l | WMap _ l => (fix all (l : list wire) : bool := match l with [] => true | y :: r => notags y && all r end) l
  | WTag _ _ _ => false
  | _ => true
  end.

(* decoding into a typed Go value (slice, map, struct) transparently skips
   every tag that is not one of the built-in ones 0..3 (decode.go:
   parseToValue, case cborTypeTag) *)
Fixpoint skip_tags (x : wire) : option wire :=
  match x with
  | WTag _ t c => if (0 <=? t) && (t <=? 3) then None else skip_tags c
  | _ => Some x
  end.
