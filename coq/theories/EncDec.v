(* EncDec.v — what the deterministic encoder emits is accepted by the library decoder and
   decodes to an equivalent value (C08, and the wire leg of C01 / C13), by induction
   over arbitrarily nested values. *)
From Coq Require Import Ascii String ZArith List Lia Bool Arith ZifyBool Permutation.
From GoCose Require Import Bytes Cbor CborProofs Res GoVal Fx Headers Enc Dec TbsProofs EncProofs EncCanon.
From GoCose.Gen Require Import Generated.
Import ListNotations.
Open Scope Z_scope.

(* the values: integers of int64, valid UTF-8 text, byte strings, booleans, nil, float64 of any bit pattern,
   arrays and maps with integer / text keys (the keys a Go map[any]any of COSE headers has), at any nesting depth *)
Definition key_ok (g : gv) : bool := match g with GInt _ _ | GStr _ => true | _ => false end.

Fixpoint keys_ok (l : list gv) : bool :=
  match l with k :: _ :: r => key_ok k && keys_ok r | [] => true | _ => false end.

Fixpoint simple (g : gv) : bool :=
  match g with
  | GInt _ n => (- 2 ^ 63 <=? n) && (n <=? maxint64)
  | GStr s => bytes_ok s && (len s <? two64) && utf8_valid s
  | GBytes s => bytes_ok s && (len s <? two64)
  | GNilBytes | GBool _ | GNil => true
  | GArr l => (len l <? two64) && (fix all (l : list gv) : bool := match l with [] => true | y :: r => simple y && all r end) l
  | GMap l => (len l <? two64) && keys_ok l &&
              (fix all (l : list gv) : bool := match l with [] => true | y :: r => simple y && all r end) l
  | GFloat b => (0 <=? b) && (b <? two64)       (* float64, any bit pattern *)
  | _ => false
  end.

Lemma simple_plain : forall g, simple g = true -> gv_plain g = true.
Proof.
  induction g using gv_ind'; cbn [simple gv_plain]; intros Hs; try discriminate; auto.
  - unfold two64, maxint64 in *. change (2 ^ 63) with 9223372036854775808 in Hs. lia.
  - apply andb_true_iff in Hs as [Hs _]. exact Hs.
  - apply andb_true_iff in Hs as [Hl Ha]. rewrite Hl. cbn [andb]. clear Hl.
    induction H as [|y l Hy Hl' IH]; auto. apply andb_true_iff in Ha as [A1 A2]. rewrite (Hy A1), (IH A2). reflexivity.
  - apply andb_true_iff in Hs as [Hs Ha]. apply andb_true_iff in Hs as [Hl _]. rewrite Hl. cbn [andb]. clear Hl.
    induction H as [|y l Hy Hl' IH]; auto. apply andb_true_iff in Ha as [A1 A2]. rewrite (Hy A1), (IH A2). reflexivity.
Qed.

Fixpoint pairs (l : list gv) : list (gv * gv) :=
  match l with k :: v :: r => (k, v) :: pairs r | _ => [] end.

(* "the same value": what a Go caller gets back for what it put in *)
Inductive rel : gv -> gv -> Prop :=
| rel_int k n : rel (GInt k n) (GInt KInt64 n)            (* every integer kind comes back as int64 *)
| rel_str s : rel (GStr s) (GStr s)
| rel_bytes b : rel (GBytes b) (GBytes b)
| rel_nilbytes : rel GNilBytes GNil                        (* a nil []byte is encoded as null *)
| rel_nil : rel GNil GNil
| rel_bool b : rel (GBool b) (GBool b)
| rel_float b : rel (GFloat b) (GFloat (norm_f64 b))        (* the same float64; every NaN comes back as the one quiet NaN *)
| rel_arr l l' : Forall2 rel l l' -> rel (GArr l) (GArr l')
| rel_map l l' lp :                                         (* maps: the same entries, in some order *)
    Permutation (pairs l) lp ->
    Forall2 (fun p q => rel (fst p) (fst q) /\ rel (snd p) (snd q)) lp (pairs l') ->
    Nat.even (length l') = true ->
    rel (GMap l) (GMap l').

Definition dec_list (l : list wire) : res (list gv) :=
  (fix go (l : list wire) : res (list gv) :=
     match l with
     | [] => Acc []
     | y :: r => comb (dec true y) (go r) (fun v vs => Acc (v :: vs))
     end) l.

Definition dec_pairs (l : list wire) : res (list gv) :=
  (fix go (l : list wire) : res (list gv) :=
     match l with
     | k :: v :: r =>
         comb (let* k' := dec true k in as_map_key k') (comb (dec true v) (go r) (fun v vs => Acc (v, vs)))
              (fun k' p => Acc (k' :: fst p :: snd p))
     | _ => Acc []
     end) l.

Lemma dec_arr w l : dec true (WArr w l) = let* vs := dec_list l in Acc (GArr vs).
Proof. reflexivity. Qed.

Lemma dec_map w l : dec true (WMap w l) =
  let* kvs := dec_pairs l in if keys_nodup (gkeys kvs) then Acc (GMap kvs) else Rej EOther.
Proof. reflexivity. Qed.

Definition encdec (kb : bool) (g : gv) : Prop :=
  forall b, simple g = true -> enc kb g = Acc b ->
  exists w d, b = ser w /\ good w /\ notags w = true /\ dec true w = Acc d /\ rel g d.

Lemma simple_all_forall l :
  (fix all (l : list gv) : bool := match l with [] => true | y :: r => simple y && all r end) l = true ->
  Forall (fun y => simple y = true) l.
Proof.
  induction l as [|y l IH]; intros H; constructor.
  - apply andb_true_iff in H as [H _]. exact H.
  - apply IH. apply andb_true_iff in H as [_ H]. exact H.
Qed.

(* sequences *)
Lemma seq_encdec kb (f : list gv -> res bytes) :
  (forall l, f l = match l with [] => Acc [] | y :: r => let* a := enc kb y in let* b := f r in Acc (a ++ b) end) ->
  forall l bs, Forall (encdec kb) l -> Forall (fun y => simple y = true) l -> f l = Acc bs ->
  exists ws ds, bs = flat_map ser ws /\ length ws = length l /\ Forall good ws /\ forallb notags ws = true /\
                dec_list ws = Acc ds /\ Forall2 rel l ds.
Proof.
  intros Hf. induction l as [|y l IH]; intros bs He Hp H; rewrite Hf in H.
  - inversion H; subst. exists [], []. repeat split; constructor.
  - inversion He as [|? ? Hy He']; subst. inversion Hp as [|? ? Py Hp']; subst.
    destruct (enc kb y) as [a| | |] eqn:Ey; cbn [bind] in H; try discriminate.
    destruct (f l) as [b| | |] eqn:El; cbn [bind] in H; try discriminate.
    inversion H; subst. destruct (Hy a Py Ey) as (w & d & -> & Gw & Nw & Dw & Rw).
    destruct (IH b He' Hp' eq_refl) as (ws & ds & -> & Hl & Gs & Ns & Ds & Rs).
    exists (w :: ws), (d :: ds). cbn [flat_map length forallb]. rewrite Nw, Ns. repeat split; auto.
    unfold dec_list in *. rewrite Dw, Ds. reflexivity.
Qed.

(* ---------- map entries ---------- *)
(* the tree and the decoded form of a key *)
Definition kwire (k : gv) : wire :=
  match k with
  | GInt _ n => if 0 <=? n then WInt false (minw n) n else WInt true (minw (-1 - n)) (-1 - n)
  | GStr s => ttstr s
  | _ => WSim W0 22
  end.

Definition dkey (k : gv) : gv := match k with GInt _ n => GInt KInt64 n | _ => k end.

Lemma key_facts kb k a : key_ok k = true -> simple k = true -> enc kb k = Acc a ->
  a = ser (kwire k) /\ good (kwire k) /\ dec true (kwire k) = Acc (dkey k) /\ as_map_key (dkey k) = Acc (dkey k) /\ rel k (dkey k) /\
  notags (kwire k) = true.
Proof.
  intros Hk Hs He. destruct k; try discriminate; cbn [simple] in Hs; cbn [enc] in He; injection He as <-.
  - (* integer *)
    unfold maxint64 in Hs. change (2 ^ 63) with 9223372036854775808 in Hs.
    cbn [kwire dkey]. unfold enc_int. destruct (0 <=? n) eqn:E.
    + split; [reflexivity|]. split; [split; cbn [wf canonical]; [apply minw_fits; unfold two64; lia|apply width_eqb_refl]|].
      split; [cbn [dec]; unfold maxint64; replace (n <=? 9223372036854775807) with true by lia; reflexivity|].
      split; [reflexivity|]. split; [constructor|reflexivity].
    + split; [reflexivity|]. split; [split; cbn [wf canonical]; [apply minw_fits; unfold two64; lia|apply width_eqb_refl]|].
      split; [cbn [dec]; unfold maxint64; replace (-1 - n <=? 9223372036854775807) with true by lia;
              replace (-1 - (-1 - n)) with n by lia; reflexivity|].
      split; [reflexivity|]. split; [constructor|reflexivity].
  - (* text *)
    apply andb_true_iff in Hs as [Hs Hu]. apply andb_true_iff in Hs as [Ho Hl].
    cbn [kwire dkey]. split; [reflexivity|]. split; [split; [apply ttstr_wf; split; auto; lia|cbn; apply width_eqb_refl]|].
    split; [cbn [dec ttstr]; rewrite Hu; reflexivity|]. split; [reflexivity|]. split; [constructor|reflexivity].
Qed.

Lemma dkey_inj k1 k2 : key_ok k1 = true -> key_ok k2 = true -> key_eqb (dkey k1) (dkey k2) = true -> kwire k1 = kwire k2.
Proof.
  intros H1 H2 E. destruct k1; try discriminate; destruct k2; try discriminate; cbn in E.
  - apply Z.eqb_eq in E. subst. reflexivity.
  - apply bytes_eqb_eq in E. subst. reflexivity.
Qed.

Definition pairQ (p : gv * gv) (kv : bytes * bytes) : Prop :=
  key_ok (fst p) = true /\ fst kv = ser (kwire (fst p)) /\ good (kwire (fst p)) /\
  dec true (kwire (fst p)) = Acc (dkey (fst p)) /\
  exists wv dv, snd kv = ser wv /\ good wv /\ notags wv = true /\ dec true wv = Acc dv /\ rel (snd p) dv.

Lemma pairs_encdec kb (f : list gv -> res (list (bytes * bytes))) :
  (forall l, f l = match l with
                   | k :: v :: r => let* a := enc kb k in let* b := enc kb v in let* c := f r in Acc ((a, b) :: c)
                   | _ => Acc []
                   end) ->
  forall l kvs, Forall (encdec kb) l -> Forall (fun y => simple y = true) l -> keys_ok l = true -> f l = Acc kvs ->
  Forall2 pairQ (pairs l) kvs.
Proof.
  intros Hf. fix IH 1. intros [|k [|v r]] kvs He Hp Hk H; rewrite Hf in H.
  - inversion H; subst. constructor.
  - discriminate Hk.
  - inversion He as [|? ? Ek He']; subst. inversion He' as [|? ? Ev He'']; subst.
    inversion Hp as [|? ? Pk Hp']; subst. inversion Hp' as [|? ? Pv Hp'']; subst.
    cbn [keys_ok] in Hk. apply andb_true_iff in Hk as [Kk Kr].
    destruct (enc kb k) as [a| | |] eqn:Eka; cbn [bind] in H; try discriminate.
    destruct (enc kb v) as [b| | |] eqn:Eva; cbn [bind] in H; try discriminate.
    destruct (f r) as [c| | |] eqn:Er; cbn [bind] in H; try discriminate.
    inversion H; subst. destruct (key_facts kb k a Kk Pk Eka) as (-> & Gk & Dk & _ & _ & _).
    destruct (Ev b Pv Eva) as (wv & dv & -> & Gv & Nv & Dv & Rv).
    cbn [pairs]. constructor; [|apply IH; auto].
    split; [exact Kk|]. cbn [fst snd]. split; [reflexivity|]. split; [exact Gk|]. split; [exact Dk|]. exists wv, dv. auto.
Qed.

Definition pair_rel (p q : gv * gv) : Prop := rel (fst p) (fst q) /\ rel (snd p) (snd q).

Fixpoint gvals (l : list gv) : list gv :=
  match l with _ :: v :: r => v :: gvals r | _ => [] end.

Lemma zip_keys_vals : forall dl, Nat.even (length dl) = true -> zip_flat (gkeys dl) (gvals dl) = dl.
Proof.
  fix IH 1. intros [|k [|v r]] He; [reflexivity|discriminate|]. cbn [gkeys gvals zip_flat]. rewrite (IH r He). reflexivity.
Qed.

(* the header decoder reads a label exactly as the generic decoder reads a key *)
Lemma label_of_kwire k : key_ok k = true -> dec true (kwire k) = Acc (dkey k) -> label_of_wire (kwire k) = Acc (dkey k).
Proof.
  intros Hk D. destruct k; try discriminate; cbn [kwire dkey] in *.
  - destruct (0 <=? n); cbn [label_of_wire strip_sd dec] in *.
    + destruct (n <=? maxint64); [exact D|discriminate].
    + destruct (-1 - n <=? maxint64); [exact D|discriminate].
  - cbn [ttstr label_of_wire strip_sd dec] in *. exact D.
Qed.

Lemma notags_plain w : notags w = true -> strip_sd w = w /\ builtin_tag_ok w = true.
Proof. destruct w; cbn; try discriminate; auto. Qed.

(* a strictly sorted list of encoded entries is the flat serialisation of a sorted map that decodes entry by entry *)
Lemma sorted_pairs_dec : forall s lp,
  Forall2 pairQ lp s -> ssorted s ->
  exists tl dl, flat_kv s = flat_map ser tl /\ length tl = (2 * length s)%nat /\ Forall good tl /\ keys_sorted tl = true /\
                forallb notags tl = true /\ dec_pairs tl = Acc dl /\ Forall2 pair_rel lp (pairs dl) /\ Nat.even (length dl) = true /\
                gkeys dl = map (fun p => dkey (fst p)) lp /\
                labels_pass tl = Acc (gkeys dl) /\ values_pass tl = Acc (gvals dl) /\
                match s, tl with
                | kv :: _, k :: _ => fst kv = ser k
                | [], [] => True
                | _, _ => False
                end.
Proof.
  induction s as [|kv s IH]; intros lp HF Hs.
  - inversion HF; subst. exists [], []. cbn. repeat split; auto; constructor.
  - inversion HF as [|p ? lp' ? (Kk & Ek & Gk & Dk & wv & dv & Ev & Gv & Nv & Dv & Rv) HF']; subst.
    destruct (IH lp' HF' (ssorted_tail _ _ Hs)) as (tl & dl & El & Ll & Gl & Kl & Nl & Dl & Rl & Evn & Kd & LP & VP & Hd).
    exists (kwire (fst p) :: wv :: tl), (dkey (fst p) :: dv :: dl).
    unfold flat_kv, bytes in *. cbn [flat_map].
    split; [rewrite Ek, Ev, El, <- app_assoc; reflexivity|]. split; [cbn [length]; lia|].
    split; [constructor; [exact Gk|constructor; [exact Gv|exact Gl]]|].
    split.
    { destruct s as [|kv2 s'].
      - destruct tl; [reflexivity|discriminate].
      - destruct tl as [|k2 [|v2 tl']]; try contradiction; try (cbn in Ll; lia).
        change (keys_sorted (kwire (fst p) :: wv :: k2 :: v2 :: tl')) with (bytes_ltb (ser (kwire (fst p))) (ser k2) && keys_sorted (k2 :: v2 :: tl')).
        rewrite Kl, andb_true_r. inversion Hs; subst. unfold klt in *. rewrite <- Ek, <- Hd. assumption. }
    split.
    { cbn [forallb]. rewrite Nv, Nl. destruct (fst p); try discriminate; cbn [kwire notags]; [destruct (0 <=? n)|]; reflexivity. }
    split.
    { unfold dec_pairs in *. rewrite Dk. cbn [bind].
      replace (as_map_key (dkey (fst p))) with (Acc (dkey (fst p))) by (destruct (fst p); try discriminate; reflexivity).
      rewrite Dv, Dl. reflexivity. }
    split; [cbn [pairs]; constructor; auto; split; cbn [fst snd]; auto; destruct (fst p); try discriminate; constructor|].
    split; [cbn [length]; exact Evn|]. split; [cbn [gkeys map]; rewrite Kd; reflexivity|].
    split.
    { cbn [labels_pass gkeys]. rewrite (label_of_kwire _ Kk Dk). destruct (notags_plain wv Nv) as [-> ->]. rewrite LP. reflexivity. }
    split; [cbn [values_pass gvals]; rewrite Dv, VP; reflexivity|exact Ek].
Qed.

Lemma key_in_ex k l : key_in k l = true -> exists k', In k' l /\ key_eqb k k' = true.
Proof.
  induction l as [|x l IH]; cbn; [discriminate|]. intros H. apply orb_true_iff in H as [H|H].
  - exists x. auto.
  - destruct (IH H) as (k' & Hi & He). exists k'. auto.
Qed.

Lemma pairQ_in lp s : Forall2 pairQ lp s -> forall p, In p lp ->
  key_ok (fst p) = true /\ exists kv, In kv s /\ fst kv = ser (kwire (fst p)).
Proof.
  induction 1 as [|p kv lp s HQ HF IH]; intros q Hq; [contradiction|].
  destruct Hq as [<-|Hq].
  - destruct HQ as (Kk & Ek & _). split; auto. exists kv. split; [left; reflexivity|exact Ek].
  - destruct (IH q Hq) as (Kk & kv' & Hi & E). split; auto. exists kv'. split; [right; exact Hi|exact E].
Qed.

Lemma sorted_keys_nodup : forall lp s,
  Forall2 pairQ lp s -> ssorted s -> keys_nodup (map (fun p => dkey (fst p)) lp) = true.
Proof.
  induction 1 as [|p kv lp s HQ HF IH]; intros Hs; [reflexivity|].
  cbn [map keys_nodup]. rewrite (IH (ssorted_tail _ _ Hs)), andb_true_r.
  destruct (key_in (dkey (fst p)) (map (fun p0 => dkey (fst p0)) lp)) eqn:E; [|reflexivity]. exfalso.
  apply key_in_ex in E as (k' & Hi & He). apply in_map_iff in Hi as (q & <- & Hq).
  destruct (pairQ_in _ _ HF q Hq) as (Kq & kv' & Hkv' & Eq). destruct HQ as (Kp & Ep & _).
  pose proof (ssorted_head_min _ _ Hs kv' Hkv') as Hlt. unfold klt in Hlt.
  rewrite Ep, Eq, (dkey_inj _ _ Kp Kq He), bytes_ltb_irrefl in Hlt. discriminate.
Qed.

Lemma forall2_flip {A B} (R : A -> B -> Prop) l l' : Forall2 R l l' -> Forall2 (fun b a => R a b) l' l.
Proof. induction 1; constructor; auto. Qed.

Lemma forall2_length {A B} (R : A -> B -> Prop) l l' : Forall2 R l l' -> length l = length l'.
Proof. induction 1; cbn; auto. Qed.

(* the map case, with everything the header decoders need *)
Lemma map_encdec kb l out :
  Forall (encdec kb) l -> simple (GMap l) = true -> enc kb (GMap l) = Acc out ->
  exists ww tl dl lp,
    out = ser (WMap ww tl) /\ good (WMap ww tl) /\ forallb notags tl = true /\
    dec_pairs tl = Acc dl /\ keys_nodup (gkeys dl) = true /\
    Permutation (pairs l) lp /\ Forall2 pair_rel lp (pairs dl) /\ Nat.even (length dl) = true /\
    gkeys dl = map (fun p => dkey (fst p)) lp /\
    labels_pass tl = Acc (gkeys dl) /\ values_pass tl = Acc (gvals dl).
Proof.
  intros H Hp He. cbn [simple] in Hp.
  apply andb_true_iff in Hp as [Hp Hall]. apply andb_true_iff in Hp as [Hlen Hk]. apply simple_all_forall in Hall.
  cbn [enc] in He.
  match type of He with (let* kvs := ?F l in _) = _ => destruct (F l) as [kvs| | |] eqn:EL; cbn [bind] in He; try discriminate;
    pose proof (pairs_encdec kb F ltac:(intros [|k [|v r]]; reflexivity) l kvs H Hall Hk EL) as FQ end.
  apply enc_map_canonical in He as (s & -> & Ss & Ps).
  destruct (Permutation_Forall2 (Permutation_sym Ps) (forall2_flip _ _ _ FQ)) as (lp & Plp & FQ').
  apply forall2_flip in FQ'. cbn beta in FQ'.
  destruct (sorted_pairs_dec s lp FQ' Ss) as (tl & dl & El & Ll & Gl & Kl & Nl & Dl & Rl & Evn & Kd & LP & VP & _).
  exists (minw (len kvs)), tl, dl, lp.
  assert (Lt : len tl / 2 = len kvs).
  { unfold len. rewrite Ll, (Permutation_length Ps). lia. }
  destruct (forall_good_forallb tl Gl) as [F1 F2].
  split; [cbn [ser]; rewrite Lt, El; reflexivity|].
  assert (Hkv : 0 <= len kvs < two64).
  { pose proof (len_nonneg kvs). split; auto. pose proof (forall2_length _ _ _ FQ) as HL.
    assert (length (pairs l) <= length l)%nat.
    { clear. revert l. fix IH 1. intros [|k [|v r]]; cbn; try lia. specialize (IH r). lia. }
    unfold len in *. lia. }
  split; [split; cbn|].
  - rewrite Lt, F1, andb_true_r. rewrite minw_fits by auto. rewrite andb_true_r.
    rewrite Ll. apply Nat.even_spec. exists (length s). lia.
  - rewrite Lt, width_eqb_refl, F2, Kl. reflexivity.
  - split; [exact Nl|]. split; [exact Dl|]. split; [rewrite Kd; apply (sorted_keys_nodup lp s FQ' Ss)|].
    repeat (split; auto).
Qed.

(* ---------- the theorem ---------- *)
Theorem enc_dec : forall kb g, encdec kb g.
Proof.
  intros kb. induction g using gv_ind'; unfold encdec; intros out Hp He; cbn [simple] in Hp; try discriminate.
  - (* GInt *)
    destruct (key_facts kb (GInt k n) out eq_refl Hp He) as (-> & G & D & _ & R & N). exists (kwire (GInt k n)), (dkey (GInt k n)). auto.
  - (* GStr *)
    destruct (key_facts kb (GStr s) out eq_refl Hp He) as (-> & G & D & _ & R & N). exists (kwire (GStr s)), (dkey (GStr s)). auto.
  - (* GBytes *) cbn [enc] in He. inversion He; subst. exists (tbstr b), (GBytes b). split; [reflexivity|].
    apply andb_true_iff in Hp as [H1 H2]. split; [split; [apply tbstr_wf; split; auto; lia|cbn; apply width_eqb_refl]|].
    split; [reflexivity|]. split; [reflexivity|constructor].
  - (* GNilBytes *) cbn [enc] in He. inversion He; subst. exists (WSim W0 22), GNil. repeat split; try reflexivity; constructor.
  - (* GBool *) cbn [enc] in He. inversion He; subst.
    destruct b; [exists (WSim W0 21), (GBool true)|exists (WSim W0 20), (GBool false)]; repeat split; try reflexivity; constructor.
  - (* GNil *) cbn [enc] in He. inversion He; subst. exists (WSim W0 22), GNil. repeat split; try reflexivity; constructor.
  - (* GArr *) apply andb_true_iff in Hp as [Hlen Hall]. apply simple_all_forall in Hall.
    cbn [enc] in He.
    match type of He with (let* bs := ?F l in _) = _ => destruct (F l) as [bs| | |] eqn:EL; cbn [bind] in He; try discriminate;
      destruct (seq_encdec kb F ltac:(intros [|y r]; reflexivity) l bs H Hall EL) as (ws & ds & -> & Hl & Gs & Ns & Ds & Rs) end.
    inversion He; subst. exists (WArr (minw (len ws)) ws), (GArr ds).
    assert (Lw : len ws = len l) by (unfold len; rewrite Hl; reflexivity).
    destruct (forall_good_forallb ws Gs) as [F1 F2].
    split; [cbn [ser]; unfold enc_head; rewrite Lw; reflexivity|].
    split; [split; cbn; [rewrite F1, andb_true_r; apply minw_fits; pose proof (len_nonneg ws); lia|rewrite width_eqb_refl, F2; reflexivity]|].
    split; [cbn [notags]; clear -Ns; induction ws as [|w ws IH]; [reflexivity|]; cbn [forallb] in Ns; apply andb_true_iff in Ns as [A B]; rewrite A; apply IH; exact B|].
    split; [rewrite dec_arr, Ds; reflexivity|constructor; exact Rs].
  - (* GMap *)
    destruct (map_encdec kb l out H Hp He) as (ww & tl & dl & lp & -> & G & Nl & Dl & Nd & Plp & Rl & Evn & Kd & _ & _).
    exists (WMap ww tl), (GMap dl). split; [reflexivity|]. split; [exact G|].
    split; [cbn [notags]; clear -Nl; induction tl as [|w tl IH]; [reflexivity|]; cbn [forallb] in Nl; apply andb_true_iff in Nl as [A B]; rewrite A; apply IH; exact B|].
    split; [rewrite dec_map, Dl; cbn [bind]; rewrite Nd; reflexivity|econstructor; eauto].
  - (* GFloat *) cbn [enc] in He. inversion He; subst. apply andb_true_iff in Hp as [H1 H2].
    destruct (enc_float_ser b) as [(-> & En)|[(-> & En & Eb)|[(-> & En & Eb)|(-> & En & _)]]].
    + exists (WSim W2 32256), (GFloat nan64). repeat split; try reflexivity.
      replace nan64 with (norm_f64 b) by (unfold norm_f64; rewrite En; reflexivity). constructor.
    + exists (WSim W2 31744), (GFloat b). repeat split; try reflexivity; [subst b; reflexivity|].
      replace b with (norm_f64 b) at 2 by (unfold norm_f64; rewrite En; reflexivity). constructor.
    + exists (WSim W2 64512), (GFloat b). repeat split; try reflexivity; [subst b; reflexivity|].
      replace b with (norm_f64 b) at 2 by (unfold norm_f64; rewrite En; reflexivity). constructor.
    + exists (WSim W8 b), (GFloat b). repeat split; try reflexivity.
      * cbn [wf sim_ok fits]. unfold two64 in *. lia.
      * cbn [dec]. unfold norm_f64. rewrite En. reflexivity.
      * replace b with (norm_f64 b) at 2 by (unfold norm_f64; rewrite En; reflexivity). constructor.
Qed.

(* maps, with what the header decoders use *)
Theorem enc_map_dec kb l out :
  simple (GMap l) = true -> enc kb (GMap l) = Acc out ->
  exists ww tl dl lp,
    out = ser (WMap ww tl) /\ good (WMap ww tl) /\ forallb notags tl = true /\
    dec_pairs tl = Acc dl /\ keys_nodup (gkeys dl) = true /\
    Permutation (pairs l) lp /\ Forall2 pair_rel lp (pairs dl) /\ Nat.even (length dl) = true /\
    gkeys dl = map (fun p => dkey (fst p)) lp /\
    labels_pass tl = Acc (gkeys dl) /\ values_pass tl = Acc (gvals dl).
Proof. intros Hs He. apply (map_encdec kb); auto. apply Forall_forall. intros x _. apply enc_dec. Qed.

(* the output of the encoder, as bytes, is accepted by the library decoder *)
Corollary enc_dec_bytes kb g b :
  simple g = true -> enc kb g = Acc b ->
  exists w d, parse_full b = Some w /\ canonical w = true /\ dec true w = Acc d /\ rel g d.
Proof.
  intros Hs He. destruct (enc_dec kb g b Hs He) as (w & d & -> & [Hw Hc] & _ & D & R).
  exists w, d. split; [apply parse_full_ser; exact Hw|]. auto.
Qed.

Example enc_dec_example :
  let g := GMap [GInt KInt 256; GStr [97]; GInt KInt8 (-1); GArr [GBytes []; GBool true; GNilBytes]; GStr []; GMap [GInt KUint8 1; GNil]] in
  simple g = true /\
  match enc false g with
  | Acc b => match parse_full b with
             | Some w => dec true w = Acc (GMap [GInt KInt64 256; GStr [97]; GInt KInt64 (-1); GArr [GBytes []; GBool true; GNil];
                                                 GStr []; GMap [GInt KInt64 1; GNil]])
             | None => False
             end
  | _ => False
  end.
Proof. split; vm_compute; reflexivity. Qed.

(* floats inside nested values: a finite number keeps its 64 bits, the infinities travel in half precision, and a
   NaN with a payload comes back as the quiet NaN *)
Example enc_dec_float_example :
  let g := GMap [GInt KInt 33; GArr [GFloat 4609434218613702656; GFloat 9218868437227405312; GFloat 18442240474082181120;
                                     GFloat 9218868437227405313; GFloat 0; GFloat 9223372036854775808]] in
  simple g = true /\
  enc false g = Acc [161; 24; 33; 134; 251; 63; 248; 0; 0; 0; 0; 0; 0; 249; 124; 0; 249; 252; 0; 249; 126; 0;
                     251; 0; 0; 0; 0; 0; 0; 0; 0; 251; 128; 0; 0; 0; 0; 0; 0; 0] /\
  match enc false g with
  | Acc b => match parse_full b with
             | Some w => dec true w = Acc (GMap [GInt KInt64 33; GArr [GFloat 4609434218613702656; GFloat 9218868437227405312;
                                                 GFloat 18442240474082181120; GFloat nan64; GFloat 0; GFloat 9223372036854775808]])
             | None => False
             end
  | _ => False
  end.
Proof. split; [|split]; vm_compute; reflexivity. Qed.
Print Assumptions enc_dec.
