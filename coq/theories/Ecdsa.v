(* Ecdsa.v — model of ecdsa.go: I2OSP / OS2IP and the r||s signature framing. *)
From Coq Require Import Ascii String ZArith List Lia Bool.
From GoCose Require Import Bytes Res.
Import ListNotations.
Open Scope Z_scope.

(* I2OSP(x, buf) with len(buf) = n: refuses negative x and x.BitLen() > 8n *)
Definition i2osp (v : Z) (n : nat) : res bytes :=
  if v <? 0 then Rej EOther
  else if 256 ^ Z.of_nat n <=? v then Rej EOther
  else Acc (be_enc n v).

(* OS2IP = big.Int.SetBytes *)
Definition os2ip (b : bytes) : Z := be_dec b.

(* encodeECDSASignature(curve, r, s) with n = (curve.Params().N.BitLen()+7)/8 *)
Definition encode_sig (n : nat) (r s : Z) : res bytes :=
  let* a := i2osp r n in
  let* b := i2osp s n in
  Acc (a ++ b).

(* decodeECDSASignature *)
Definition decode_sig (n : nat) (sig : bytes) : option (Z * Z) :=
  if (length sig =? 2 * n)%nat
  then Some (os2ip (firstn n sig), os2ip (skipn n sig))
  else None.

(* ecdsaVerifier.VerifyDigest: [ok r s] is the verdict of crypto/ecdsa.Verify
   (an oracle: modelled, not verified). *)
Definition verify_digest (n : nat) (ok : Z -> Z -> bool) (sig : bytes) : res unit :=
  match decode_sig n sig with
  | None => Rej EVerification
  | Some (r, s) => if ok r s then Acc tt else Rej EVerification
  end.

(* the two signing paths: a native key gives (r,s) from crypto/ecdsa.Sign, a
   crypto.Signer gives ASN.1 that encoding/asn1 turns into (r,s); both then call
   encode_sig.  [src] is the oracle result: None = the key/entropy failed. *)
Definition sign_digest (n : nat) (src : option (Z * Z)) : res bytes :=
  match src with
  | None => Rej ESigner
  | Some (r, s) => encode_sig n r s
  end.
