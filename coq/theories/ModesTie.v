(* Tie of the CBOR encode / decode modes: the translator lists, from cbor.go's init(), the option set every
   package-level mode is built from, and every use of a mode variable in the package.  The model hard-wires what
   follows from them (Enc.v: bignums kept as bignums in the content of the protected bucket only; Dec.v / Msg.v:
   tags forbidden by the message decoders, duplicate keys refused, integers decoded as int64); the theorems below
   pin the translated facts, so that a change of an option or of the mode a function uses breaks this file. *)
From Coq Require Import String List Bool.
From GoCose.Gen Require Import Generated.
Import ListNotations.
Local Open Scope string_scope.

Definition mode_opts (m : string) : list string :=
  match find (fun p => String.eqb (fst p) m) cbor_modes with Some p => snd p | None => [] end.
Definition has_opt (m o : string) : bool := existsb (String.eqb o) (mode_opts m).
Definition uses_of (f : string) : list string := filter (fun u => String.prefix (f ++ ": ") u) cbor_mode_uses.

Definition expected_modes : list (string * list string) :=
  [("encMode", ["IndefLength=cbor.IndefLengthForbidden"; "Sort=cbor.SortCoreDeterministic"]);
   ("encModeProtected", ["BigIntConvert=cbor.BigIntConvertNone"; "IndefLength=cbor.IndefLengthForbidden"; "Sort=cbor.SortCoreDeterministic"]);
   ("decMode", ["DupMapKey=cbor.DupMapKeyEnforcedAPF"; "IndefLength=cbor.IndefLengthForbidden"; "IntDec=cbor.IntDecConvertSigned"]);
   ("decModeWithTagsForbidden", ["DupMapKey=cbor.DupMapKeyEnforcedAPF"; "IndefLength=cbor.IndefLengthForbidden"; "IntDec=cbor.IntDecConvertSigned"; "TagsMd=cbor.TagsForbidden"])].

Theorem modes_as_modelled : cbor_modes = expected_modes.
Proof. reflexivity. Qed.

Definition expected_mode_uses : list string :=
  ["Headers.MarshalProtected: encMode.Marshal(h.Protected)";
   "Headers.MarshalUnprotected: encMode.Marshal(h.Unprotected)";
   "Headers.UnmarshalFromRaw: decMode.Unmarshal(h.RawProtected)";
   "Headers.UnmarshalFromRaw: decMode.Unmarshal(h.RawUnprotected)";
   "Key.MarshalCBOR: encMode.Marshal(tmp)";
   "Key.UnmarshalCBOR: decMode.Unmarshal(data)";
   "ProtectedHeader.MarshalCBOR: encMode.Marshal(encoded)";
   "ProtectedHeader.MarshalCBOR: encModeProtected.Marshal(map[any]any(h))";
   "ProtectedHeader.UnmarshalCBOR: decMode.Unmarshal(encoded)";
   "Sign1Message.MarshalCBOR: encMode.Marshal(cbor.Tag{ Number: CBORTagSign1Message, Content: content, })";
   "Sign1Message.doUnmarshal: decModeWithTagsForbidden.Unmarshal(data)";
   "Sign1Message.toBeSigned: encMode.Marshal(sigStructure)";
   "SignMessage.MarshalCBOR: encMode.Marshal(cbor.Tag{ Number: CBORTagSignMessage, Content: content, })";
   "SignMessage.UnmarshalCBOR: decModeWithTagsForbidden.Unmarshal(data[2:])";
   "Signature.MarshalCBOR: encMode.Marshal(sig)";
   "Signature.UnmarshalCBOR: decModeWithTagsForbidden.Unmarshal(data)";
   "Signature.toBeSigned: encMode.Marshal(sigStructure)";
   "UnprotectedHeader.MarshalCBOR: encMode.Marshal(map[any]any(h))";
   "UnprotectedHeader.UnmarshalCBOR: decMode.Unmarshal(data)";
   "UntaggedSign1Message.MarshalCBOR: encMode.Marshal(content)";
   "byteString.UnmarshalCBOR: decModeWithTagsForbidden.Unmarshal(data)";
   "countersignToBeSigned: encMode.Marshal(countersigStructure)";
   "countersignToBeSigned: encMode.Marshal(t.Signature)";
   "deterministicBinaryString: decModeWithTagsForbidden.Unmarshal(data)";
   "deterministicBinaryString: decModeWithTagsForbidden.Wellformed(data)";
   "deterministicBinaryString: encMode.Marshal(s)";
   "headerLabelValidator.UnmarshalCBOR: decMode.Unmarshal(data)";
   "unmarshalAsAny: decMode.Unmarshal(value)";
   "unmarshalAsCountersignature: decMode.Unmarshal(value)";
   "unmarshalAsCountersignature: decMode.Unmarshal(value)";
   "validateHeaderLabelCBOR: decMode.Unmarshal(data)"].

Theorem mode_uses_as_modelled : cbor_mode_uses = expected_mode_uses.
Proof. reflexivity. Qed.

(* what Enc.v's flag stands for: the map inside the protected bucket is encoded by the mode that keeps big integers as
   bignums; the bstr around it, the unprotected bucket, COSE_Keys, messages and to-be-signed structures by the mode that
   does not *)
Definition bignum_modes_hold : Prop :=
  has_opt "encModeProtected" "BigIntConvert=cbor.BigIntConvertNone" = true /\
  has_opt "encMode" "BigIntConvert=cbor.BigIntConvertNone" = false /\
  uses_of "ProtectedHeader.MarshalCBOR" =
    ["ProtectedHeader.MarshalCBOR: encMode.Marshal(encoded)"; "ProtectedHeader.MarshalCBOR: encModeProtected.Marshal(map[any]any(h))"] /\
  uses_of "UnprotectedHeader.MarshalCBOR" = ["UnprotectedHeader.MarshalCBOR: encMode.Marshal(map[any]any(h))"] /\
  uses_of "Key.MarshalCBOR" = ["Key.MarshalCBOR: encMode.Marshal(tmp)"].

Theorem bignum_modes : bignum_modes_hold.
Proof. repeat split; reflexivity. Qed.

(* every encoder is deterministic (sorted keys, definite lengths); every decoder refuses duplicate keys and
   indefinite lengths and decodes integers as int64; the message decoders also refuse tags *)
Definition mode_options_hold : Prop :=
  forallb (fun m => has_opt m "Sort=cbor.SortCoreDeterministic" && has_opt m "IndefLength=cbor.IndefLengthForbidden") ["encMode"; "encModeProtected"] = true /\
  forallb (fun m => has_opt m "DupMapKey=cbor.DupMapKeyEnforcedAPF" && has_opt m "IndefLength=cbor.IndefLengthForbidden" && has_opt m "IntDec=cbor.IntDecConvertSigned")
          ["decMode"; "decModeWithTagsForbidden"] = true /\
  has_opt "decModeWithTagsForbidden" "TagsMd=cbor.TagsForbidden" = true /\ has_opt "decMode" "TagsMd=cbor.TagsForbidden" = false.

Theorem mode_options : mode_options_hold.
Proof. repeat split; reflexivity. Qed.
Print Assumptions modes_as_modelled.
