(* MoreProofs.v — (a) every map inside a decoded value has pairwise distinct
   keys, at any depth (C05); (b) encoders and the message-level follow-up
   operations never reach a panic site (C06). *)
From Coq Require Import Ascii String ZArith List Lia Bool Arith ZifyBool.
From GoCose Require Import Bytes Cbor CborProofs Res GoVal Fx Headers Enc Dec Msg HashEnv Key NoPanic.
From GoCose.Gen Require Import Generated.
Import ListNotations.
Open Scope Z_scope.

(* ---------- (a) no duplicate keys in any decoded map ---------- *)
Fixpoint gv_nodup (g : gv) : bool :=
  match g with
  | GArr l => (fix all (l : list gv) : bool := match l with [] => true | y :: r => gv_nodup y && all r end) l
  | GMap l => keys_nodup (gkeys l) &&
              (fix all (l : list gv) : bool := match l with [] => true | y :: r => gv_nodup y && all r end) l
  | GTag _ c => gv_nodup c
  | _ => true
  end.

Definition all_nodup (l : list gv) : bool :=
  (fix all (l : list gv) : bool := match l with [] => true | y :: r => gv_nodup y && all r end) l.

Lemma as_map_key_nodup k k' : as_map_key k = Acc k' -> gv_nodup k' = true.
Proof. destruct k; cbn; intros H; inversion H; subst; reflexivity. Qed.

Lemma comb_acc {A B C} (ra : res A) (rb : res B) (f : A -> B -> res C) c :
  comb ra rb f = Acc c -> exists a b, ra = Acc a /\ rb = Acc b /\ f a b = Acc c.
Proof. destruct ra, rb; cbn; try discriminate; eauto. Qed.

Theorem dec_nodup : forall x strip g, dec strip x = Acc g -> gv_nodup g = true.
Proof.
  induction x using wire_ind'; intros strip g Hd; cbn [dec] in Hd.
  - destruct neg; [destruct (n <=? maxint64)|destruct (n <=? maxint64)]; inversion Hd; reflexivity.
  - destruct t; [destruct (utf8_valid b); inversion Hd; reflexivity|inversion Hd; reflexivity].
  - match type of Hd with (let* vs := ?F l in _) = _ => destruct (F l) as [vs| | |] eqn:E; cbn [bind] in Hd; try discriminate;
      assert (G : all_nodup vs = true) end.
    { clear Hd. revert vs E. induction H as [|y l Hy Hl IH]; intros vs E.
      - inversion E; reflexivity.
      - apply comb_acc in E as (v & vs' & Ev & Evs & Ec). inversion Ec; subst.
        cbn. rewrite (Hy _ _ Ev). cbn. apply IH. exact Evs. }
    inversion Hd; subst. exact G.
  - match type of Hd with (let* kvs := ?F l in _) = _ => destruct (F l) as [kvs| | |] eqn:E; cbn [bind] in Hd; try discriminate;
      assert (G : all_nodup kvs = true) end.
    { clear Hd. revert kvs E.
      assert (Gen : forall l0, Forall (fun x => forall strip g, dec strip x = Acc g -> gv_nodup g = true) l0 ->
                forall kvs, (fix go (l : list wire) : res (list gv) :=
                     match l with
                     | k :: v :: r =>
                         comb (let* k' := dec true k in as_map_key k') (comb (dec true v) (go r) (fun v0 vs => Acc (v0, vs)))
                              (fun k' p => Acc (k' :: fst p :: snd p))
                     | _ => Acc []
                     end) l0 = Acc kvs -> all_nodup kvs = true).
      { fix IH 1. intros [|k [|v r]] HF kvs E; try (inversion E; reflexivity).
        inversion HF as [|? ? Hk HF']; subst. inversion HF' as [|? ? Hv HF'']; subst.
        apply comb_acc in E as (k' & p & Ek & Ep & Ec). inversion Ec; subst.
        apply comb_acc in Ep as (v' & vs & Ev & Evs & Ec2). inversion Ec2; subst.
        destruct (dec true k) as [k0| | |] eqn:Dk; cbn [bind] in Ek; try discriminate.
        cbn [fst snd]. change (all_nodup (k' :: v' :: vs)) with (gv_nodup k' && (gv_nodup v' && all_nodup vs)).
        rewrite (as_map_key_nodup _ _ Ek), (Hv _ _ Ev), (IH r HF'' vs Evs). reflexivity. }
      intros kvs E. apply (Gen l H kvs E). }
    destruct (keys_nodup (gkeys kvs)) eqn:K; [|discriminate]. inversion Hd; subst.
    cbn [gv_nodup]. rewrite K. exact G.
  - destruct (strip && (t =? selfdesc)); [eapply IHx; eauto|].
    repeat match type of Hd with context [if ?c then _ else _] => destruct c end;
      try (destruct x; try destruct text; try destruct w0; inversion Hd; reflexivity).
    destruct (dec false x) as [v| | |] eqn:E; cbn [bind] in Hd; try discriminate. inversion Hd; subst.
    cbn. eapply IHx; eauto.
  - destruct w; try (inversion Hd; reflexivity).
    repeat match type of Hd with context [if ?c then _ else _] => destruct c end; inversion Hd; reflexivity.
Qed.

(* ---------- (b) encoders never panic ---------- *)
Lemma enc_map_of_np kvs : np (enc_map_of kvs).
Proof. unfold enc_map_of. destruct (adjacent_dup _); discriminate. Qed.

Lemma enc_np : forall g kb, np (enc kb g).
Proof.
  induction g using gv_ind'; intros kb; cbn [enc]; try discriminate.
  - (* GArr *) apply np_bind; [|intros; discriminate].
    induction H as [|y l Hy Hl IH]; [discriminate|]. apply np_bind; auto. intros a. apply np_bind; auto. intros; discriminate.
  - (* GMap *) apply np_bind; [|intros; apply enc_map_of_np].
    revert H. generalize l. fix IH 1. intros [|k [|v r]] HF; try discriminate.
    inversion HF as [|? ? Hk HF']; subst. inversion HF' as [|? ? Hv HF'']; subst.
    apply np_bind; auto. intros a. apply np_bind; auto. intros b. apply np_bind; [apply IH; auto|]. intros; discriminate.
  - (* GTag *) apply np_bind; auto. intros; discriminate.
  - (* GSimple *) unfold enc_simple. repeat (apply np_if; try discriminate).
  - (* GCsig *)
    assert (Pairs : forall kb' l0, Forall (fun x => forall kb, np (enc kb x)) l0 ->
              np ((fix go (l : list gv) : res (list (bytes * bytes)) :=
                     match l with
                     | k :: v :: r => let* a := enc kb' k in let* b := enc kb' v in let* c := go r in Acc ((a, b) :: c)
                     | _ => Acc []
                     end) l0)).
    { intros kb'. fix IH 1. intros [|k [|v r]] HF; try discriminate.
      inversion HF as [|? ? Hk HF']; subst. inversion HF' as [|? ? Hv HF'']; subst.
      apply np_bind; auto. intros a. apply np_bind; auto. intros b. apply np_bind; [apply IH; auto|]. intros; discriminate. }
    apply np_if; [discriminate|]. apply np_if; [discriminate|].
    apply np_bind.
    { apply np_if; [discriminate|]. destruct p as [[|a0 l0]|]; try discriminate.
      apply np_if; [|discriminate]. apply np_bind; [exact (Pairs true _ H)|]. intros kvs. apply np_bind; [apply enc_map_of_np|]. intros; discriminate. }
    intros pb. apply np_bind.
    { apply np_if; [discriminate|]. destruct u as [[|a0 l0]|]; try discriminate.
      apply np_if; [|discriminate]. apply np_bind; [exact (Pairs false _ H0)|]. intros kvs. apply enc_map_of_np. }
    intros; discriminate.
  - (* GCsigs *) apply np_bind; [|intros; discriminate].
    induction H as [|y l Hy Hl IH]; [discriminate|]. apply np_bind; auto. intros a. apply np_bind; auto. intros; discriminate.
Qed.

Lemma enc_pairs_np kb l : np (enc_pairs kb l).
Proof.
  unfold enc_pairs. revert l. fix IH 1. intros [|k [|v r]]; try discriminate.
  apply np_bind; [apply enc_np|]. intros a. apply np_bind; [apply enc_np|]. intros b. apply np_bind; [apply IH|]. intros; discriminate.
Qed.

Lemma marshal_protected_np h : np (marshal_protected h).
Proof.
  unfold marshal_protected, enc_protected, enc_hmap. apply np_if; [discriminate|].
  destruct (hP h) as [[|a l]|]; try discriminate. apply np_if; [|discriminate].
  apply np_bind; [apply np_bind; [apply enc_pairs_np|intros; apply enc_map_of_np]|]. intros; discriminate.
Qed.

Lemma marshal_unprotected_np h : np (marshal_unprotected h).
Proof.
  unfold marshal_unprotected, enc_unprotected, enc_hmap. apply np_if; [discriminate|].
  destruct (hU h) as [[|a l]|]; try discriminate. apply np_if; [|discriminate].
  apply np_bind; [apply enc_pairs_np|intros; apply enc_map_of_np].
Qed.

Lemma det_bstr_np data : np (det_bstr data).
Proof.
  unfold det_bstr. destruct data; [discriminate|]. apply np_if; [discriminate|].
  destruct (lib_wf false (z :: data)) as [[]|]; try discriminate. destruct text; try discriminate. apply np_if; discriminate.
Qed.

Lemma headers_marshal_np h : np (headers_marshal h).
Proof.
  unfold headers_marshal. apply np_if; [discriminate|]. apply np_bind; [apply marshal_protected_np|]. intros p.
  apply np_bind; [apply marshal_unprotected_np|]. intros; discriminate.
Qed.

(* re-encoding any message value never panics *)
Theorem marshal_never_panics :
  (forall m, marshal_sign1 m <> Panic) /\ (forall m, marshal_sign1_untagged m <> Panic) /\
  (forall s, marshal_signature s <> Panic) /\ (forall m, marshal_signmsg m <> Panic).
Proof.
  repeat split; intros x.
  - change (np (marshal_sign1 x)). unfold marshal_sign1, sign1_content. apply np_bind; [|intros; discriminate].
    apply np_if; [discriminate|]. apply np_bind; [apply headers_marshal_np|]. intros; discriminate.
  - change (np (marshal_sign1_untagged x)). unfold marshal_sign1_untagged, sign1_content.
    apply np_if; [discriminate|]. apply np_bind; [apply headers_marshal_np|]. intros; discriminate.
  - change (np (marshal_signature x)). unfold marshal_signature.
    apply np_if; [discriminate|]. apply np_bind; [apply headers_marshal_np|]. intros; discriminate.
  - change (np (marshal_signmsg x)). unfold marshal_signmsg. destruct (sm_sigs x); [discriminate|].
    apply np_bind; [apply headers_marshal_np|]. intros pu. apply np_bind; [|intros; discriminate].
    apply mapM_np. intros [s|]; cbn; [|discriminate].
    change (np (marshal_signature s)). unfold marshal_signature.
    apply np_if; [discriminate|]. apply np_bind; [apply headers_marshal_np|]. intros; discriminate.
Qed.

Lemma tbs_sign1_np h p e : np (tbs_sign1 h p e).
Proof.
  unfold tbs_sign1. apply np_bind; [apply marshal_protected_np|]. intros a. apply np_bind; [apply det_bstr_np|]. intros; discriminate.
Qed.

Lemma ensure_verification_alg_np h a e : np (ensure_verification_alg h a e).
Proof.
  unfold ensure_verification_alg, alg_of, alg_value.
  destruct (nlookup _ _) as [[]|]; try discriminate; try (destruct k); try discriminate;
    try (apply np_if; discriminate); try (destruct (_ <? _); discriminate).
Qed.

(* verifying a message never panics unless the caller's verifier does *)
Theorem sign1_verify_never_panics m ext vf :
  (forall t s, vf_run vf t s <> Panic) -> fst (sign1_verify m ext vf) <> Panic.
Proof.
  intros Hv. unfold sign1_verify. destruct (s1_payload m); [|discriminate].
  destruct (glen (s1_sig m) =? 0); [discriminate|].
  pose proof (ensure_verification_alg_np (s1_h m) (vf_alg vf) ext) as N1.
  destruct (ensure_verification_alg (s1_h m) (vf_alg vf) ext); try discriminate; try contradiction.
  pose proof (tbs_sign1_np (s1_h m) (Some b) ext) as N2.
  destruct (tbs_sign1 (s1_h m) (Some b) ext); try discriminate; try contradiction. cbn. apply Hv.
Qed.

(* ---------- the remaining verification flows ---------- *)
Lemma tbs_signature_np h bp p e : np (tbs_signature h bp p e).
Proof.
  unfold tbs_signature. apply np_bind; [apply det_bstr_np|]. intros a.
  apply np_bind; [apply marshal_protected_np|]. intros b. apply np_bind; [apply det_bstr_np|]. intros; discriminate.
Qed.

Definition vf_total (vf : verifier) : Prop := forall t s, vf_run vf t s <> Panic.

Lemma signature_verify_np s vf bp p e : vf_total vf -> fst (signature_verify s vf bp p e) <> Panic.
Proof.
  intros Hv. unfold signature_verify. destruct p; [|discriminate].
  destruct (glen (sg_sig s) =? 0); [discriminate|]. destruct (negb (body_protected_ok bp)); [discriminate|].
  pose proof (ensure_verification_alg_np (sg_h s) (vf_alg vf) e) as N1.
  destruct (ensure_verification_alg (sg_h s) (vf_alg vf) e); try discriminate; try contradiction.
  pose proof (tbs_signature_np (sg_h s) bp (Some b) e) as N2.
  destruct (tbs_signature (sg_h s) bp (Some b) e); try discriminate; try contradiction. cbn. apply Hv.
Qed.

Lemma verify_loop_np : forall sigs vfs bp p e,
  length sigs = length vfs -> Forall vf_total vfs -> fst (verify_loop sigs vfs bp p e) <> Panic.
Proof.
  induction sigs as [|[s|] sigs IH]; intros vfs bp p e HL HF; cbn [verify_loop]; try discriminate.
  destruct vfs as [|vf vfs]; [discriminate HL|]. inversion HF as [|? ? Hvf HF']; subst.
  pose proof (signature_verify_np s vf bp p e Hvf) as N.
  destruct (signature_verify s vf bp p e) as [r calls]. cbn [fst] in N.
  destruct r; try discriminate; try contradiction.
  specialize (IH vfs bp p e ltac:(cbn in HL; lia) HF').
  destruct (verify_loop sigs vfs bp p e) as [r' c']. exact IH.
Qed.

Theorem signmsg_verify_never_panics m ext vfs :
  Forall vf_total vfs -> fst (signmsg_verify m ext vfs) <> Panic.
Proof.
  intros HF. unfold signmsg_verify. destruct (sm_payload m) eqn:P; [|discriminate].
  destruct (sm_sigs m) as [|s0 rest] eqn:S; [discriminate|].
  destruct (Nat.eqb (length (s0 :: rest)) (length vfs)) eqn:L; cbn [negb]; [|discriminate].
  pose proof (marshal_protected_np (sm_h m)) as N.
  destruct (marshal_protected (sm_h m)); try discriminate; try contradiction.
  apply verify_loop_np; auto. apply Nat.eqb_eq; exact L.
Qed.

Lemma countersign_tbs_np ab t sp e : np (countersign_tbs ab t sp e).
Proof.
  unfold countersign_tbs. apply np_bind.
  - destruct t as [m|m|s|s|]; try discriminate.
    + apply np_if; [discriminate|]. apply np_bind; [apply marshal_protected_np|]. intros bp.
      destruct (s1_payload m); [|discriminate]. apply np_bind; [apply det_bstr_np|]. intros; discriminate.
    + destruct (sm_sigs m); [discriminate|]. apply np_bind; [apply marshal_protected_np|]. intros bp.
      destruct (sm_payload m); discriminate.
    + apply np_bind; [apply marshal_protected_np|]. intros bp. apply np_if; discriminate.
    + apply np_bind; [apply marshal_protected_np|]. intros bp. apply np_if; discriminate.
  - intros [[bp pl] other]. apply np_bind; [apply det_bstr_np|]. intros a.
    apply np_bind; [apply det_bstr_np|]. intros; discriminate.
Qed.

Theorem csig_verify_never_panics s vf t e : vf_total vf -> fst (csig_verify s vf t e) <> Panic.
Proof.
  intros Hv. unfold csig_verify. destruct (glen (sg_sig s) =? 0); [discriminate|].
  pose proof (ensure_verification_alg_np (sg_h s) (vf_alg vf) e) as N1.
  destruct (ensure_verification_alg (sg_h s) (vf_alg vf) e); try discriminate; try contradiction.
  assert (N2 : np (csig_tbs s t e)).
  { unfold csig_tbs. apply np_bind; [apply marshal_protected_np|]. intros; apply countersign_tbs_np. }
  destruct (csig_tbs s t e); try discriminate; try contradiction. cbn. apply Hv.
Qed.

Theorem verify_countersign0_never_panics vf t e sig : vf_total vf -> fst (verify_countersign0 vf t e sig) <> Panic.
Proof.
  intros Hv. unfold verify_countersign0.
  pose proof (countersign_tbs_np true t abbrev_sign_protected_VerifyCountersign0 e) as N.
  destruct (countersign_tbs true t abbrev_sign_protected_VerifyCountersign0 e); try discriminate; try contradiction.
  cbn. apply Hv.
Qed.

(* the number of verifiers is checked before the loop: the model's out-of-range
   site in verify_loop is unreachable from signmsg_verify *)
Example verify_loop_site_exists : fst (verify_loop [Some (mkSig (mkH None None None None) None)] [] [64] (Some []) None) = Panic.
Proof. reflexivity. Qed.

(* ---------- re-encoding a decoded COSE_Sign (C09) ---------- *)
From GoCose Require Import FlowProofs DecProofs.

Definition renorm_sig_item (x : wire) : bytes :=
  match x with
  | WArr W0 [p; u; s] => 131 :: ser p ++ ser u ++ renorm_field s
  | _ => ser x
  end.

Lemma dec_signature_item_reencode x s :
  dec_signature_item x = Acc s -> marshal_signature s = Acc (renorm_sig_item x).
Proof.
  unfold dec_signature_item, is_arr3. intros H. destruct x; try discriminate. destruct w; try discriminate.
  destruct l as [|p [|u [|sg [|? ?]]]]; try discriminate.
  destruct (bstr_or_nil sg) as [sig| | |] eqn:B; cbn [bind] in H; try discriminate.
  destruct (glen sig =? 0) eqn:G; [discriminate|].
  destruct (dec_headers p u) as [h| | |] eqn:Hh; cbn [bind] in H; try discriminate.
  inversion H; subst. cbn [renorm_sig_item].
  apply dec_headers_inv in Hh as (pm & um & Hh & _ & _ & _ & Hiv).
  unfold marshal_signature. cbn [sg_sig sg_h]. rewrite G.
  rewrite Hh in *. rewrite (headers_marshal_decoded _ _ _ _ Hiv). cbn [bind fst snd].
  apply bstr_or_nil_inv in B as [[-> Hn]|(w & b & -> & Hs)].
  - rewrite Hn in G. cbn in G. discriminate.
  - rewrite Hs. reflexivity.
Qed.

Lemma mapM_signature_reencode : forall items sigs,
  mapM dec_signature_item items = Acc sigs ->
  mapM marshal_opt_signature (map Some sigs) = Acc (map renorm_sig_item items).
Proof.
  induction items as [|x items IH]; intros sigs H; cbn [mapM] in H.
  - inversion H; reflexivity.
  - destruct (dec_signature_item x) as [s| | |] eqn:D; cbn [bind] in H; try discriminate.
    destruct (mapM dec_signature_item items) as [ss| | |] eqn:M; cbn [bind] in H; try discriminate.
    inversion H; subst. cbn [map mapM marshal_opt_signature].
    rewrite (dec_signature_item_reencode _ _ D). cbn [bind]. rewrite (IH ss eq_refl). reflexivity.
Qed.

(* Decoding a COSE_Sign and encoding it again reproduces every header bucket
   (body and each signer) byte for byte; only the heads of the payload, of each
   signature and of the signature array are rewritten to shortest form. *)
Theorem signmsg_reencode data m :
  unmarshal_signmsg data = Acc m ->
  exists p u pl ws items,
    data = 216 :: 98 :: 132 :: ser p ++ ser u ++ ser pl ++ ser (WArr ws items) /\
    marshal_signmsg m =
      Acc (216 :: 98 :: 132 :: ser p ++ ser u ++ renorm_field pl ++
           enc_head 4 (len items) ++ concat (map renorm_sig_item items)).
Proof.
  intros H. apply unmarshal_signmsg_wellformed in H
    as (p & u & pl & ws & items & E & _ & _ & B & Hne & Hh & sigs & Ms & Hs).
  exists p, u, pl, ws, items. split.
  - rewrite E. cbn [ser flat_map]. rewrite app_nil_r. reflexivity.
  - unfold marshal_signmsg. rewrite Hs.
    destruct sigs as [|s0 sigs']; [destruct items; [contradiction|cbn in Ms;
      destruct (dec_signature_item w); cbn in Ms; try discriminate;
      destruct (mapM dec_signature_item items); cbn in Ms; discriminate]|].
    cbn [map]. change (Some s0 :: map Some sigs') with (map Some (s0 :: sigs')).
    apply dec_headers_inv in Hh as (pm & um & Hh & _ & _ & _ & Hiv).
    rewrite Hh in *. rewrite (headers_marshal_decoded _ _ _ _ Hiv). cbn [bind fst snd].
    rewrite (mapM_signature_reencode _ _ Ms). cbn [bind].
    rewrite (enc_gobytes_renorm _ _ B).
    replace (len (map renorm_sig_item items)) with (len items) by (unfold len; rewrite map_length; reflexivity).
    reflexivity.
Qed.

(* ---------- the converse of C05 for COSE_Signature and COSE_Sign (C07) ---------- *)
Theorem signature_conforming_accepted p u sg h b w :
  wf (WArr W0 [p; u; sg]) = true ->
  depth_ok false (WArr W0 [p; u; sg]) 0 = true ->
  sg = WStr false w b -> b <> [] ->
  dec_headers p u = Acc h ->
  unmarshal_signature (ser (WArr W0 [p; u; sg])) = Acc (mkSig h (Some b)).
Proof.
  intros Hwf Hd -> Hb Hh.
  assert (L : lib_wf false (ser (WArr W0 [p; u; WStr false w b])) = Some (WArr W0 [p; u; WStr false w b])).
  { unfold lib_wf. rewrite parse_full_ser by auto. rewrite Hd. reflexivity. }
  assert (S : ser (WArr W0 [p; u; WStr false w b]) = 131 :: flat_map ser [p; u; WStr false w b]) by reflexivity.
  unfold unmarshal_signature. rewrite S. cbn [v_signaturePrefix has_prefix Z.eqb Pos.eqb andb negb].
  rewrite <- S, L. unfold dec_signature_item, is_arr3. cbn [bstr_or_nil bind].
  replace (glen (Some b) =? 0) with false.
  - rewrite Hh. reflexivity.
  - symmetry. cbn. destruct b; [contradiction|]. rewrite len_cons. pose proof (len_nonneg b). lia.
Qed.

Theorem signmsg_conforming_accepted p u pl ws items h payload sigs :
  wf (WArr W0 [p; u; pl; WArr ws items]) = true ->
  depth_ok false (WArr W0 [p; u; pl; WArr ws items]) 0 = true ->
  bstr_or_nil pl = Acc payload ->
  items <> [] ->                                             (* at least one signer *)
  mapM dec_signature_item items = Acc sigs ->                (* every COSE_Signature conforms *)
  dec_headers p u = Acc h ->
  unmarshal_signmsg (216 :: 98 :: ser (WArr W0 [p; u; pl; WArr ws items])) = Acc (mkSM h payload (map Some sigs)).
Proof.
  intros Hwf Hd Hpl Hne Hs Hh.
  assert (L : lib_wf false (ser (WArr W0 [p; u; pl; WArr ws items])) = Some (WArr W0 [p; u; pl; WArr ws items])).
  { unfold lib_wf. rewrite parse_full_ser by auto. rewrite Hd. reflexivity. }
  assert (S : ser (WArr W0 [p; u; pl; WArr ws items]) = 132 :: flat_map ser [p; u; pl; WArr ws items]) by reflexivity.
  unfold unmarshal_signmsg. rewrite S. cbn [v_signMessagePrefix has_prefix Z.eqb Pos.eqb andb negb tl].
  rewrite <- S, L. rewrite Hpl. cbn [bind].
  destruct items as [|i0 items']; [contradiction|]. rewrite Hs. cbn [bind]. rewrite Hh. reflexivity.
Qed.
