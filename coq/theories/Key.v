(* Key.v — model of key.go: COSE_Key construction, validation, encoding,
   decoding and conversion to Go keys / signers / verifiers. *)
From Coq Require Import Ascii String ZArith List Lia Bool.
From GoCose Require Import Bytes Cbor Res GoVal Fx Headers Enc HashEnv.
From GoCose.Gen Require Import Generated.
Import ListNotations.
Open Scope Z_scope.

Record key := mkKey {
  k_type : Z;
  k_id : gobytes;
  k_alg : Z;
  k_ops : option (list Z);       (* None = nil slice *)
  k_baseiv : gobytes;
  k_params : option (list gv)    (* None = nil map *)
}.

Definition kparams (k : key) : list gv := hmap (k_params k).

(* decodeBytes / decodeInt on a map value (reflect-based conversions) *)
Definition decode_bytes (m : list gv) (l : Z) : res (gobytes * bool) :=
  match glookup (lbl l) m with
  | None => Acc (None, false)
  | Some (GBytes b) => Acc (Some b, true)
  | Some GNilBytes => Acc (None, true)
  | Some _ => Rej EOther
  end.

Definition decode_int (m : list gv) (l : Z) : res (Z * bool) :=
  match glookup (lbl l) m with
  | None => Acc (0, false)
  | Some (GInt k n) => if is_unsigned_kind k then Rej EOther else Acc (n, true)
  | Some _ => Rej EOther
  end.

(* ParamBytes / ParamInt: value if present and convertible *)
Definition param_bytes (k : key) (l : Z) : gobytes :=
  match decode_bytes (kparams k) l with Acc (b, true) => b | _ => None end.
Definition param_int (k : key) (l : Z) : option Z :=
  match decode_int (kparams k) l with Acc (n, true) => Some n | _ => None end.

Definition key_crv (k : key) : Z := match param_int k c_KeyLabelEC2Curve with Some n => n | None => 0 end.
Definition key_x (k : key) : gobytes := param_bytes k c_KeyLabelEC2X.
Definition key_y (k : key) : gobytes := param_bytes k c_KeyLabelEC2Y.
Definition key_d (k : key) : gobytes := param_bytes k c_KeyLabelEC2D.

(* curveSize *)
Definition curve_size (crv : Z) : Z :=
  match tbl_lookup tbl_curveSize_bits crv with
  | Some bits => (bits + 7) / 8
  | None => 0
  end.

(* deriveAlgorithm *)
Fixpoint derive_lookup (t : list (Z * Z * Z)) (kty crv : Z) : option Z :=
  match t with
  | [] => None
  | (a, b, c) :: r => if (a =? kty) && (b =? crv) then Some c else derive_lookup r kty crv
  end.
Definition derive_alg (k : key) : res Z :=
  match derive_lookup tbl_deriveAlgorithm (k_type k) (key_crv k) with
  | Some a => Acc a
  | None => Rej EOther
  end.

Fixpoint invalid_curve (t : list (Z * list Z)) (kty crv : Z) : bool :=
  match t with
  | [] => false
  | (a, cs) :: r => ((a =? kty) && existsb (Z.eqb crv) cs) || invalid_curve r kty crv
  end.

(* Key.validate(op); op: 0 none, c_KeyOpVerify, c_KeyOpSign *)
Definition key_validate (k : key) (op : Z) : res unit :=
  let* _ :=
    if k_type k =? c_KeyTypeEC2 then
      let crv := key_crv k in let x := key_x k in let y := key_y k in let d := key_d k in
      if (op =? c_KeyOpVerify) && ((glen x =? 0) || (glen y =? 0)) then Rej EEC2NoPub
      else if (op =? c_KeyOpSign) && (glen d =? 0) then Rej ENotPrivKey
      else if (crv =? c_CurveReserved) || ((glen x =? 0) && (glen y =? 0) && (glen d =? 0)) then Rej EInvalidKey
      else if (0 <? curve_size crv) &&
              ((curve_size crv <? glen x) || (curve_size crv <? glen y) || (curve_size crv <? glen d)) then Rej EInvalidKey
      else if invalid_curve tbl_validate_invalid_curves c_KeyTypeEC2 crv then Rej EInvalidKey
      else Acc tt
    else if k_type k =? c_KeyTypeOKP then
      let crv := key_crv k in let x := key_x k in let d := key_d k in
      if (op =? c_KeyOpVerify) && (glen x =? 0) then Rej EOKPNoPub
      else if (op =? c_KeyOpSign) && (glen d =? 0) then Rej ENotPrivKey
      else if (crv =? c_CurveReserved) || ((glen x =? 0) && (glen d =? 0)) then Rej EInvalidKey
      else if ((0 <? glen x) && negb (glen x =? std_ed25519_PublicKeySize)) ||
              ((0 <? glen d) && negb (glen d =? std_ed25519_SeedSize)) then Rej EInvalidKey
      else if invalid_curve tbl_validate_invalid_curves c_KeyTypeOKP crv then Rej EInvalidKey
      else Acc tt
    else if k_type k =? c_KeyTypeSymmetric then
      if glen (param_bytes k c_KeyLabelSymmetricK) =? 0 then Rej EInvalidKey else Acc tt
    else if k_type k =? c_KeyTypeReserved then Rej EInvalidKey
    else Acc tt in
  if k_alg k =? c_AlgorithmReserved then Acc tt
  else let* expected := derive_alg k in
       if k_alg k =? expected then Acc tt else Rej EOther.

Definition can_op (k : key) (op : Z) : bool :=
  match k_ops k with None => true | Some l => existsb (Z.eqb op) l end.

(* ---- constructors ---- *)
Definition opt_entry (l : Z) (b : gobytes) : list gv :=
  match b with None => [] | Some v => [lbl l; GBytes v] end.

Definition new_key_okp (alg : Z) (x d : gobytes) : res key :=
  if negb (alg =? c_AlgorithmEdDSA) then Rej EOther
  else
    let k := mkKey c_KeyTypeOKP None alg None None
                   (Some ([lbl c_KeyLabelOKPCurve; GInt KCurve c_CurveEd25519] ++
                          opt_entry c_KeyLabelOKPX x ++ opt_entry c_KeyLabelOKPD d)) in
    let* _ := key_validate k 0 in Acc k.

Definition new_key_ec2 (alg : Z) (x y d : gobytes) : res key :=
  match tbl_lookup tbl_NewKeyEC2_curve alg with
  | None => Rej EOther
  | Some crv =>
    let k := mkKey c_KeyTypeEC2 None alg None None
                   (Some ([lbl c_KeyLabelEC2Curve; GInt KCurve crv] ++
                          opt_entry c_KeyLabelEC2X x ++ opt_entry c_KeyLabelEC2Y y ++ opt_entry c_KeyLabelEC2D d)) in
    let* _ := key_validate k 0 in Acc k
  end.

(* Go keys, as far as go-cose looks at them.  bits names the curve
   (256/384/521; anything else: a curve go-cose does not support). *)
Inductive pubkey := PubEC (bits x y : Z) | PubEd (x : bytes) | PubOther.
Inductive privkey := PrivEC (bits x y d : Z) | PrivEd (sk : bytes) (* 64 bytes: seed ++ public *) | PrivOther.

Definition alg_from_curve (bits : Z) : Z :=
  match tbl_lookup tbl_algFromCurve bits with
  | Some a => a
  | None => match tbl_algFromCurve_default with Some d => d | None => 0 end
  end.

(* ecCoordinate: big.Int.Bytes() of x / y; the value 0, which has no bytes at all,
   is stored as size zero octets (F5; MarshalCBOR pads shorter coordinates) *)
Definition ec_coord (v size : Z) : bytes :=
  if v =? 0 then repeat 0 (Z.to_nat size) else zbytes (Z.abs v).
Definition field_size (bits : Z) : Z := (bits + 7) / 8.

Definition new_key_from_public (p : pubkey) : res key :=
  match p with
  | PubEC bits x y =>
      let alg := alg_from_curve bits in
      if alg =? c_AlgorithmReserved then Rej EOther
      else new_key_ec2 alg (Some (ec_coord x (field_size bits))) (Some (ec_coord y (field_size bits))) None
  | PubEd x => new_key_okp c_AlgorithmEdDSA (Some x) None
  | PubOther => Rej EInvalidPubKey
  end.

Definition new_key_from_private (p : privkey) : res key :=
  match p with
  | PrivEC bits x y d =>
      let alg := alg_from_curve bits in
      if alg =? c_AlgorithmReserved then Rej EOther
      else new_key_ec2 alg (Some (ec_coord x (field_size bits))) (Some (ec_coord y (field_size bits))) (Some (zbytes d))
  | PrivEd sk => new_key_okp c_AlgorithmEdDSA (Some (skipn 32 sk)) (Some (firstn 32 sk))
  | PrivOther => Rej EInvalidPrivKey
  end.

(* ---- MarshalCBOR ---- *)
Fixpoint merge_params (tmp : list gv) (params : list gv) (seen : list gv) : res (list gv) :=
  match params with
  | k :: v :: r =>
      match normalize_label k with
      | None => Rej EOther
      | Some k' =>
          if existsb (key_eqb k') seen then Rej EOther
          else merge_params (gset k' v tmp) r (k' :: seen)
      end
  | _ => Acc tmp
  end.

Definition pad_to (size : Z) (b : bytes) : bytes := repeat 0 (Z.to_nat (size - len b)) ++ b.

Definition key_marshal (k : key) : res bytes :=
  let t0 := [lbl c_keyLabelKeyType; GInt KKty (k_type k)] in
  let t1 := match k_id k with None => t0 | Some b => t0 ++ [lbl c_keyLabelKeyID; GBytes b] end in
  let t2 := if k_alg k =? c_AlgorithmReserved then t1 else t1 ++ [lbl c_keyLabelAlgorithm; GInt KAlg (k_alg k)] in
  let t3 := match k_ops k with None => t2 | Some l => t2 ++ [lbl c_keyLabelKeyOps; GOps l] end in
  let t4 := match k_baseiv k with None => t3 | Some b => t3 ++ [lbl c_keyLabelBaseIV; GBytes b] end in
  let* t5 := merge_params t4 (kparams k) [] in
  let t6 :=
    if k_type k =? c_KeyTypeEC2 then
      let size := curve_size (key_crv k) in
      if 0 <? size then
        let a := match key_x k with
                 | Some x => if (0 <? len x) && (len x <? size) then gset (lbl c_KeyLabelEC2X) (GBytes (pad_to size x)) t5 else t5
                 | None => t5 end in
        match key_y k with
        | Some y => if (0 <? len y) && (len y <? size) then gset (lbl c_KeyLabelEC2Y) (GBytes (pad_to size y)) a else a
        | None => a end
      else t5
    else t5 in
  enc false (GMap t6).

(* ---- UnmarshalCBOR ---- *)
Fixpoint keyop_of_string (t : list (string * Z)) (s : bytes) : option Z :=
  match t with
  | [] => None
  | (n, v) :: r => if bytes_eqb (str_bytes n) s then Some v else keyop_of_string r s
  end.

Fixpoint decode_ops (l : list gv) : res (list Z) :=
  match l with
  | [] => Acc []
  | GInt KInt64 n :: r => let* rest := decode_ops r in Acc (n :: rest)
  | GStr s :: r =>
      match keyop_of_string tbl_KeyOpFromString s with
      | Some v => let* rest := decode_ops r in Acc (v :: rest)
      | None => Rej EOther
      end
  | _ => Rej EOther
  end.

Fixpoint gdelete (k : gv) (l : list gv) : list gv :=
  match l with
  | k' :: v :: r => if key_eqb k k' then gdelete k r else k' :: v :: gdelete k r
  | _ => []
  end.

(* the loop over the remaining parameters *)
Fixpoint key_params_pass (kty : Z) (l : list gv) : res (list gv) :=
  match l with
  | k :: v :: r =>
      let* rest := key_params_pass kty r in
      match k with
      | GInt KInt64 n =>
          if ((kty =? c_KeyTypeEC2) || (kty =? c_KeyTypeOKP)) && (n =? c_KeyLabelEC2Curve) then
            match v with
            | GInt KInt64 c => Acc (k :: GInt KCurve c :: rest)
            | _ => Rej EOther            (* checked conversion (was an unchecked v.(int64): finding F1, fixed) *)
            end
          else Acc (k :: v :: rest)
      | GStr _ => Acc (k :: v :: rest)
      | _ => Rej EOther
      end
  | _ => Acc []
  end.

Definition key_unmarshal (data : bytes) : res key :=
  match lib_wf true data with
  | None => Rej EOther
  | Some w =>
    match skip_tags (strip_sd w) with
    | Some (WMap wd l) =>
      let* g := dec true (WMap wd l) in
      match g with
      | GMap tmp =>
        let* kty := decode_int tmp c_keyLabelKeyType in
        if negb (snd kty) then Rej EOther
        else if fst kty =? c_KeyTypeReserved then Rej EOther
        else
          let* id := decode_bytes tmp c_keyLabelKeyID in
          let* alg := decode_int tmp c_keyLabelAlgorithm in
          let* ops :=
            match glookup (lbl c_keyLabelKeyOps) tmp with
            | None => Acc None
            | Some (GArr l) => let* o := decode_ops l in Acc (Some o)
            | Some _ => Rej EOther
            end in
          let* biv := decode_bytes tmp c_keyLabelBaseIV in
          let rest := gdelete (lbl c_keyLabelBaseIV) (gdelete (lbl c_keyLabelKeyOps)
                      (gdelete (lbl c_keyLabelAlgorithm) (gdelete (lbl c_keyLabelKeyID)
                      (gdelete (lbl c_keyLabelKeyType) tmp)))) in
          let* params := key_params_pass (fst kty) rest in
          let k := mkKey (fst kty) (fst id) (fst alg) ops (fst biv)
                         (match params with [] => None | _ => Some params end) in
          let* _ := key_validate k 0 in Acc k
      | _ => Rej EOther
      end
    | _ => Rej EOther
    end
  end.

(* ---- conversions ---- *)
Definition bits_of_alg (alg : Z) : Z :=
  if alg =? c_AlgorithmES256 then 256 else if alg =? c_AlgorithmES384 then 384
  else if alg =? c_AlgorithmES512 then 521 else 0.

Definition key_public (k : key) : res pubkey :=
  let* _ := key_validate k c_KeyOpVerify in
  let* alg := derive_alg k in
  if (alg =? c_AlgorithmES256) || (alg =? c_AlgorithmES384) || (alg =? c_AlgorithmES512) then
    Acc (PubEC (bits_of_alg alg) (be_dec (gor (key_x k))) (be_dec (gor (key_y k))))
  else if alg =? c_AlgorithmEdDSA then Acc (PubEd (gor (key_x k)))
  else Rej EAlgNotSupported.

Definition key_private (k : key) : res privkey :=
  let* _ := key_validate k c_KeyOpSign in
  let* alg := derive_alg k in
  if (alg =? c_AlgorithmES256) || (alg =? c_AlgorithmES384) || (alg =? c_AlgorithmES512) then
    if (glen (key_x k) =? 0) || (glen (key_y k) =? 0) then Rej EInvalidPrivKey
    else Acc (PrivEC (bits_of_alg alg) (be_dec (gor (key_x k))) (be_dec (gor (key_y k))) (be_dec (gor (key_d k))))
  else if alg =? c_AlgorithmEdDSA then
    if glen (key_x k) =? 0 then
      (* ed25519.NewKeyFromSeed panics unless len(seed) = 32; the public half is an oracle *)
      if glen (key_d k) =? std_ed25519_SeedSize then Acc (PrivEd (gor (key_d k) ++ repeat 0 32)) else Panic
    else Acc (PrivEd (firstn 32 (gor (key_d k) ++ repeat 0 32) ++ firstn 32 (gor (key_x k) ++ repeat 0 32)))
  else Rej EAlgNotSupported.

Definition alg_or_default (k : key) : res Z :=
  if negb (k_alg k =? c_AlgorithmReserved) then Acc (k_alg k) else derive_alg k.

(* Key.Signer: the algorithm of the returned signer *)
Definition key_signer (k : key) : res Z :=
  if negb (can_op k c_KeyOpSign) then Rej EOpNotSupported
  else let* _ := key_private k in
       let* alg := alg_or_default k in Acc alg.

(* Key.Verifier; on_curve: verdict of ecdsa.PublicKey.ECDH() on the point (oracle) *)
Definition key_verifier (k : key) (on_curve : bool) : res Z :=
  if negb (can_op k c_KeyOpVerify) then Rej EOpNotSupported
  else let* p := key_public k in
       let* alg := alg_or_default k in
       match p with
       | PubEC _ _ _ => if on_curve then Acc alg else Rej EInvalidPubKey
       | _ => Acc alg
       end.
