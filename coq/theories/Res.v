(* Res.v — verdicts of model entry points. *)
From Coq Require Import Ascii String ZArith List Bool.
From GoCose Require Import Bytes.
Import ListNotations.

(* Error classes: the sentinel errors a caller can test with errors.Is; every
   other error is EOther (error text is never modelled). *)
Inductive ecls :=
| EAlgMismatch | EAlgNotFound | EAlgNotSupported | EInvalidAlg
| EEmptySig | ENoSigs | EMissingPayload | EVerification
| EInvalidKey | EInvalidPubKey | EInvalidPrivKey | ENotPrivKey
| EOpNotSupported | EEC2NoPub | EOKPNoPub
| ESigner            (* the error value returned by a (scripted) signer/verifier *)
| EOther.

Definition ecls_eqb (a b : ecls) : bool :=
  match a, b with
  | EAlgMismatch, EAlgMismatch | EAlgNotFound, EAlgNotFound
  | EAlgNotSupported, EAlgNotSupported | EInvalidAlg, EInvalidAlg
  | EEmptySig, EEmptySig | ENoSigs, ENoSigs | EMissingPayload, EMissingPayload
  | EVerification, EVerification | EInvalidKey, EInvalidKey
  | EInvalidPubKey, EInvalidPubKey | EInvalidPrivKey, EInvalidPrivKey
  | ENotPrivKey, ENotPrivKey | EOpNotSupported, EOpNotSupported
  | EEC2NoPub, EEC2NoPub | EOKPNoPub, EOKPNoPub | ESigner, ESigner
  | EOther, EOther => true
  | _, _ => false
  end.

(* Acc: returned a value.  Rej: returned an error.  Panic: Go would panic here.
   Unm: outside the modelled fragment of the CBOR library (no prediction). *)
Inductive res (A : Type) :=
| Acc (a : A)
| Rej (e : ecls)
| Panic
| Unm.
Arguments Acc {A} a.
Arguments Rej {A} e.
Arguments Panic {A}.
Arguments Unm {A}.

Definition bind {A B} (r : res A) (f : A -> res B) : res B :=
  match r with
  | Acc a => f a
  | Rej e => Rej e
  | Panic => Panic
  | Unm => Unm
  end.

Notation "'let*' x ':=' r 'in' k" := (bind r (fun x => k))
  (at level 200, x pattern, r at level 100, k at level 200, right associativity).

Definition rmap {A B} (f : A -> B) (r : res A) : res B := bind r (fun a => Acc (f a)).

Definition is_acc {A} (r : res A) : bool := match r with Acc _ => true | _ => false end.
Definition is_rej {A} (r : res A) : bool := match r with Rej _ => true | _ => false end.

(* map with early exit over a list *)
Fixpoint mapM {A B} (f : A -> res B) (l : list A) : res (list B) :=
  match l with
  | [] => Acc []
  | a :: r => let* b := f a in let* bs := mapM f r in Acc (b :: bs)
  end.

Definition guard (c : bool) (e : ecls) : res unit := if c then Acc tt else Rej e.

(* Go's []byte: None is the nil slice, Some [] the empty non-nil one. *)
Definition gobytes := option bytes.
Definition glen (b : gobytes) : Z := match b with None => 0%Z | Some l => len l end.
Definition gor (b : gobytes) : bytes := match b with None => [] | Some l => l end.
