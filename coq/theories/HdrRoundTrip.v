(* HdrRoundTrip.v — a header bucket the encoder accepts and emits is accepted by the
   decoder and comes back with the same parameters (C13: a header set accepted in the
   encode direction is accepted in the decode direction; C08: encoder output is
   decodable; the header part of the wire leg of C01). *)
From Coq Require Import Ascii String ZArith List Lia Bool Arith ZifyBool Permutation.
From GoCose Require Import Bytes Cbor CborProofs Res GoVal Fx Headers Enc Dec TbsProofs FlowProofs HdrProofs EncProofs EncCanon EncDec.
From GoCose.Gen Require Import Generated.
Import ListNotations.
Open Scope Z_scope.

(* ---------- entries of a flat map ---------- *)
Lemma pair_ind {A} (P : list A -> Prop) :
  P [] -> (forall a, P [a]) -> (forall k v r, P r -> P (k :: v :: r)) -> forall l, P l.
Proof. intros H0 H1 H2. fix IH 1. intros [|k [|v r]]; [exact H0|apply H1|apply H2; apply IH]. Qed.

Lemma entry_in_pairs k v h : entry_in k v h <-> In (k, v) (pairs h).
Proof.
  induction h as [| |k0 v0 r IH] using pair_ind; cbn [entry_in pairs In]; try tauto.
  rewrite IH. split; intros [H|H]; auto.
  - destruct H as [-> ->]. auto.
  - inversion H; subst. auto.
Qed.

(* decoded entry = (normalised label, related value) of a source entry *)
Definition ent_rel (p q : gv * gv) : Prop := normalize_label (fst p) = Some (fst q) /\ rel (snd p) (snd q).

Definition hrel (l dl : list gv) : Prop :=
  exists lp, Permutation (pairs l) lp /\ Forall2 ent_rel lp (pairs dl) /\ Nat.even (length dl) = true.

Lemma forall2_in_l {A B} (R : A -> B -> Prop) l l' a : Forall2 R l l' -> In a l -> exists b, In b l' /\ R a b.
Proof.
  induction 1 as [|x y l l' Hxy HF IH]; intros Hi; [contradiction|]. destruct Hi as [<-|Hi].
  - exists y. split; [left; reflexivity|exact Hxy].
  - destruct (IH Hi) as (b & Hb & Rb). exists b. split; [right; exact Hb|exact Rb].
Qed.

Lemma forall2_in_r {A B} (R : A -> B -> Prop) l l' b : Forall2 R l l' -> In b l' -> exists a, In a l /\ R a b.
Proof.
  induction 1 as [|x y l l' Hxy HF IH]; intros Hi; [contradiction|]. destruct Hi as [<-|Hi].
  - exists x. split; [left; reflexivity|exact Hxy].
  - destruct (IH Hi) as (a & Ha & Ra). exists a. split; [right; exact Ha|exact Ra].
Qed.

Lemma hrel_fwd l dl k v : hrel l dl -> entry_in k v l ->
  exists k' v', entry_in k' v' dl /\ normalize_label k = Some k' /\ rel v v'.
Proof.
  intros (lp & P & F & _) Hin. apply entry_in_pairs in Hin. apply (Permutation_in _ P) in Hin.
  destruct (forall2_in_l _ _ _ _ F Hin) as ([k' v'] & Hq & Hk & Hv). exists k', v'. split; [apply entry_in_pairs; exact Hq|]. auto.
Qed.

Lemma hrel_bwd l dl k' v' : hrel l dl -> entry_in k' v' dl ->
  exists k v, entry_in k v l /\ normalize_label k = Some k' /\ rel v v'.
Proof.
  intros (lp & P & F & _) Hin. apply entry_in_pairs in Hin.
  destruct (forall2_in_r _ _ _ _ F Hin) as ([k v] & Hp & Hk & Hv). exists k, v.
  split; [apply entry_in_pairs; apply (Permutation_in _ (Permutation_sym P)); exact Hp|]. auto.
Qed.

(* ---------- look-ups through entries ---------- *)
Lemma nfind_some want : is_label want -> forall h v, nfind want h = Some v ->
  exists k, entry_in k v h /\ normalize_label k = Some want.
Proof.
  intros Hl. fix IH 1. intros [|k0 [|v0 r]] v H; try discriminate. cbn [nfind] in H.
  destruct (normalize_label k0) as [k0'|] eqn:N.
  - destruct (key_eqb want k0') eqn:E.
    + inversion H; subst. exists k0. split; [left; auto|]. apply key_eqb_label_eq in E; auto. subst. exact N.
    + destruct (IH r v H) as (k & Hi & Hk). exists k. split; [right; exact Hi|exact Hk].
  - destruct (IH r v H) as (k & Hi & Hk). exists k. split; [right; exact Hi|exact Hk].
Qed.

Lemma key_eqb_refl_label want : is_label want -> key_eqb want want = true.
Proof. intros [[n ->]|[s ->]]; cbn; [apply Z.eqb_refl|apply bytes_eqb_refl]. Qed.

Lemma nfind_none want : is_label want -> forall h, nfind want h = None ->
  forall k v, entry_in k v h -> normalize_label k <> Some want.
Proof.
  intros Hl. fix IH 1. intros [|k0 [|v0 r]] H k v Hin; try contradiction. cbn [nfind] in H.
  destruct Hin as [[-> ->]|Hin].
  - destruct (normalize_label k0) as [k0'|] eqn:N; [|discriminate].
    destruct (key_eqb want k0') eqn:E; [discriminate|]. intros Heq. inversion Heq; subst.
    rewrite key_eqb_refl_label in E; auto. discriminate.
  - destruct (normalize_label k0) as [k0'|]; [destruct (key_eqb want k0'); [discriminate|]|]; eapply IH; eauto.
Qed.

(* unique labels: as a NoDup statement, so that it moves along permutations *)
Lemma existsb_key_in want ks : is_label want -> existsb (key_eqb want) ks = true -> In want ks.
Proof.
  intros Hl. induction ks as [|k ks IH]; cbn; [discriminate|]. intros H. apply orb_true_iff in H as [H|H].
  - left. apply key_eqb_label_eq in H; auto.
  - right. auto.
Qed.

Lemma in_existsb_key want ks : is_label want -> In want ks -> existsb (key_eqb want) ks = true.
Proof.
  intros Hl. induction ks as [|k ks IH]; cbn; [contradiction|]. intros [->|H].
  - rewrite key_eqb_refl_label; auto.
  - rewrite IH; auto. apply orb_true_r.
Qed.

Lemma labels_nodup_iff ks : Forall is_label ks -> (labels_nodup ks = true <-> NoDup ks).
Proof.
  induction 1 as [|k ks Hk HF IH]; cbn [labels_nodup]; [split; [constructor|reflexivity]|].
  split.
  - intros H. apply andb_true_iff in H as [H1 H2]. constructor; [|apply IH; exact H2].
    intros Hin. apply in_existsb_key in Hin; auto. rewrite Hin in H1. discriminate.
  - intros H. inversion H; subst. apply andb_true_iff. split; [|apply IH; assumption].
    destruct (existsb (key_eqb k) ks) eqn:E; [|reflexivity]. apply existsb_key_in in E; auto; try contradiction.
Qed.

Lemma norm_labels_map : forall h ks, norm_labels h = Some ks ->
  Forall is_label ks /\ map Some ks = map (fun p => normalize_label (fst p)) (pairs h) /\ Nat.even (length h) = true \/
  Forall is_label ks /\ map Some ks = map (fun p => normalize_label (fst p)) (pairs h).
Proof.
  fix IH 1. intros [|k0 [|v0 r]] ks H; cbn [norm_labels] in H.
  - inversion H; subst. left. repeat split; constructor.
  - inversion H; subst. right. split; constructor.
  - destruct (normalize_label k0) as [k0'|] eqn:N; [|discriminate].
    destruct (norm_labels r) as [ks'|] eqn:R; [|discriminate]. inversion H; subst.
    destruct (IH r ks' R) as [(F & M & E)|(F & M)].
    + left. split; [constructor; [eapply normalize_label_is_label; eauto|exact F]|]. split; [cbn [pairs map fst]; rewrite N, M; reflexivity|exact E].
    + right. split; [constructor; [eapply normalize_label_is_label; eauto|exact F]|]. cbn [pairs map fst]. rewrite N, M. reflexivity.
Qed.

(* ---------- the decoded bucket has the same (normalised) labels, still unique ---------- *)
Lemma hrel_keys_normal l dl : hrel l dl -> forall k' v', entry_in k' v' dl -> normalize_label k' = Some k' /\ is_label k'.
Proof.
  intros H k' v' Hin. destruct (hrel_bwd _ _ _ _ H Hin) as (k & v & _ & Hk & _).
  split; [eapply normalize_label_idem; eauto|eapply normalize_label_is_label; eauto].
Qed.

Lemma norm_labels_self : forall dl, Nat.even (length dl) = true ->
  (forall k' v', entry_in k' v' dl -> normalize_label k' = Some k') -> norm_labels dl = Some (gkeys dl).
Proof.
  induction dl as [| |k v r IH] using pair_ind; intros He Hn; [reflexivity|discriminate|].
  cbn [norm_labels gkeys]. rewrite (Hn k v) by (left; auto).
  rewrite IH; [reflexivity|exact He|]. intros k' v' Hin. apply (Hn k' v'). right; exact Hin.
Qed.

Lemma gkeys_pairs dl : gkeys dl = map fst (pairs dl).
Proof. induction dl as [| |k v r IH] using pair_ind; cbn; auto. rewrite IH. reflexivity. Qed.

Lemma forall2_ent_keys lp dl' : Forall2 ent_rel lp dl' -> map (fun p => normalize_label (fst p)) lp = map Some (map fst dl').
Proof. induction 1 as [|p q lp dl' [Hk _] HF IH]; cbn; auto. rewrite Hk, IH. reflexivity. Qed.

Lemma map_some_inj {A} (a b : list A) : map Some a = map Some b -> a = b.
Proof. revert b; induction a as [|x a IH]; intros [|y b]; cbn; try discriminate; auto. intros H; inversion H; subst. f_equal; auto. Qed.

Lemma map_some_perm {A} (a : list A) (ob : list (option A)) :
  Permutation (map Some a) ob -> exists b, ob = map Some b /\ Permutation a b.
Proof.
  intros H. remember (map Some a) as oa eqn:E. revert a E. induction H as [|x l l' HP IH|x y l|l l' l'' H1 IH1 H2 IH2]; intros a E.
  - destruct a; [|discriminate]. exists []. split; constructor.
  - destruct a as [|x0 a]; [discriminate|]. inversion E; subst. destruct (IH a eq_refl) as (b & -> & Pb).
    exists (x0 :: b). split; [reflexivity|constructor; exact Pb].
  - destruct a as [|x0 [|y0 a]]; try discriminate. inversion E; subst. exists (y0 :: x0 :: a). split; [reflexivity|constructor].
  - destruct (IH1 a E) as (b & -> & Pb). destruct (IH2 b eq_refl) as (c & -> & Pc). exists c. split; [reflexivity|eapply perm_trans; eauto].
Qed.

Lemma hrel_labels l dl ks :
  hrel l dl -> norm_labels l = Some ks -> labels_nodup ks = true ->
  norm_labels dl = Some (gkeys dl) /\ labels_nodup (gkeys dl) = true /\ Permutation ks (gkeys dl).
Proof.
  intros H Hn Hd. pose proof H as (lp & P & F & Ev).
  assert (N1 : norm_labels dl = Some (gkeys dl)).
  { apply norm_labels_self; auto. intros k' v' Hin. apply (hrel_keys_normal _ _ H k' v' Hin). }
  assert (FK : Forall is_label ks /\ map Some ks = map (fun p => normalize_label (fst p)) (pairs l)).
  { destruct (norm_labels_map l ks Hn) as [(A & B & _)|(A & B)]; auto. }
  destruct FK as [Fl Mk].
  assert (PK : Permutation ks (gkeys dl)).
  { pose proof (Permutation_map (fun p => normalize_label (fst p)) P) as PM. rewrite <- Mk in PM.
    rewrite (forall2_ent_keys _ _ F), <- gkeys_pairs in PM.
    destruct (map_some_perm _ _ PM) as (b & Eb & Pb). apply map_some_inj in Eb. subst b. exact Pb. }
  split; [exact N1|]. split; [|exact PK].
  apply labels_nodup_iff.
  - rewrite Forall_forall in *. intros x Hx. apply Fl. eapply Permutation_in; [apply Permutation_sym; exact PK|exact Hx].
  - eapply Permutation_NoDup; [exact PK|]. apply labels_nodup_iff; auto.
Qed.

(* look-ups: a label found in the source is found in the decoded bucket with a related value, and conversely a
   label absent from the source is absent from the decoded bucket *)
Lemma nlookup_norm h ks l :
  norm_labels h = Some ks -> labels_nodup ks = true ->
  nlookup l h = match normalize_label l with Some want => nfind want h | None => None end.
Proof. apply nlookup_is_nfind. Qed.

Lemma hrel_lookup l dl ks lab :
  hrel l dl -> norm_labels l = Some ks -> labels_nodup ks = true ->
  match nlookup lab l with
  | Some v => exists v', nlookup lab dl = Some v' /\ rel v v'
  | None => nlookup lab dl = None
  end.
Proof.
  intros H Hn Hd. destruct (hrel_labels _ _ _ H Hn Hd) as (Hn' & Hd' & _).
  rewrite (nlookup_norm l ks lab Hn Hd), (nlookup_norm dl (gkeys dl) lab Hn' Hd').
  destruct (normalize_label lab) as [want|] eqn:Nl; [|reflexivity].
  assert (Lw : is_label want) by (eapply normalize_label_is_label; eauto).
  destruct (nfind want l) as [v|] eqn:F.
  - destruct (nfind_some want Lw l v F) as (k & Hin & Hk).
    destruct (hrel_fwd _ _ _ _ H Hin) as (k' & v' & Hin' & Hk' & Rv). rewrite Hk in Hk'. inversion Hk'; subst k'.
    exists v'. split; [|exact Rv]. eapply nfind_entry; eauto.
    apply (hrel_keys_normal _ _ H want v' Hin').
  - destruct (nfind want dl) as [v'|] eqn:F'; [|reflexivity]. exfalso.
    destruct (nfind_some want Lw dl v' F') as (k' & Hin' & Hk').
    destruct (hrel_bwd _ _ _ _ H Hin') as (k & v & Hin & Hk & _).
    destruct (hrel_keys_normal _ _ H k' v' Hin') as [Hid _]. rewrite Hid in Hk'. inversion Hk'; subst k'.
    exact (nfind_none want Lw l F k v Hin Hk).
Qed.

Lemma hrel_has_label l dl ks n :
  hrel l dl -> norm_labels l = Some ks -> labels_nodup ks = true -> has_label dl n = has_label l n.
Proof.
  intros H Hn Hd. unfold has_label. pose proof (hrel_lookup l dl ks (lbl n) H Hn Hd) as L.
  destruct (nlookup (lbl n) l); [destruct L as (v' & -> & _); reflexivity|rewrite L; reflexivity].
Qed.

(* ---------- the rules move along ---------- *)
(* header values of the theorem: simple values; a nil []byte is excluded (it is encoded as null, which no bstr rule
   accepts back: a boundary of the data model), and unsigned Go kinds carry non-negative numbers *)
Definition okval (v : gv) : Prop :=
  simple v = true /\ v <> GNilBytes /\ match v with GInt k n => is_unsigned_kind k = true -> 0 <= n | _ => True end.

Lemma rel_same_want lab lab' : rel lab lab' -> (can_int lab || can_tstr lab) = true ->
  normalize_label lab' = normalize_label lab /\ (can_int lab' || can_tstr lab') = true.
Proof.
  intros R C. inversion R; subst; cbn in C; try discriminate.
  - cbn. apply orb_true_iff in C as [C|C]; [|discriminate]. rewrite orb_comm in C. rewrite C. auto.
  - auto.
Qed.

Lemma nlookup_same_want a b h : normalize_label a = normalize_label b -> nlookup a h = nlookup b h.
Proof. intros E. unfold nlookup. rewrite E. reflexivity. Qed.

Lemma simple_arr_elems labels : simple (GArr labels) = true -> Forall (fun y => simple y = true) labels.
Proof. cbn [simple]. intros H. apply andb_true_iff in H as [_ H]. apply simple_all_forall. exact H. Qed.

Lemma check_param_mono p l dl ks k' v v' :
  hrel l dl -> norm_labels l = Some ks -> labels_nodup ks = true ->
  okval v -> rel v v' -> check_param p l k' v = true -> check_param p dl k' v' = true.
Proof.
  intros H Hn Hd (Sv & Nn & Uk) R C.
  unfold check_param in *. destruct k' as [k n| | | | | | | | | | | | | | | |]; auto. destruct k; auto.
  rewrite !(hrel_has_label l dl ks _ H Hn Hd).
  repeat match goal with |- context [if ?c then _ else _] => destruct c eqn:? end; auto.
  - (* alg *) inversion R; subst; cbn in C |- *; try discriminate; auto.
  - (* crit *) apply andb_true_iff in C as [Cp Cc]. rewrite Cp. cbn [andb].
    destruct v; cbn [ensure_critical] in Cc; try discriminate. inversion R as [| | | | | | |la0 lb0 F2|]; subst.
    apply andb_true_iff in Cc as [Cl Cf]. cbn [ensure_critical]. apply andb_true_iff. split.
    { clear -Cl F2. destruct F2; [discriminate|reflexivity]. }
    pose proof (simple_arr_elems _ Sv) as Ss. clear Cl Sv Nn Uk R.
    induction F2 as [|a b la lb Rab F2 IH]; [reflexivity|]. cbn [forallb] in Cf |- *.
    apply andb_true_iff in Cf as [Ca Cr]. apply andb_true_iff in Ca as [Ci Cn]. inversion Ss; subst.
    destruct (rel_same_want a b Rab Ci) as [Ew Cb]. rewrite Cb. cbn [andb].
    rewrite (nlookup_same_want b a dl Ew).
    pose proof (hrel_lookup l dl ks a H Hn Hd) as L. destruct (nlookup a l); [|discriminate].
    destruct L as (v' & -> & _). cbn [andb]. apply IH; auto.
  - (* typ *) inversion R; subst; cbn in C |- *; try discriminate; auto.
    destruct (is_unsigned_kind k) eqn:Eu; cbn in C |- *; [specialize (Uk eq_refl); lia|].
    apply andb_true_iff in C as [_ C]. exact C.
  - (* content type *) inversion R; subst; cbn in C |- *; try discriminate; auto.
    destruct (is_unsigned_kind k) eqn:Eu; cbn in C |- *; [specialize (Uk eq_refl); lia|].
    apply andb_true_iff in C as [_ C]. exact C.
  - (* kid *) inversion R; subst; cbn in C |- *; try discriminate; auto; try contradiction.
  - (* IV *) apply andb_true_iff in C as [Cb Ch]. rewrite Ch, andb_true_r. inversion R; subst; cbn in Cb |- *; try discriminate; auto; try contradiction.
  - (* Partial IV *) apply andb_true_iff in C as [Cb Ch]. rewrite Ch, andb_true_r. inversion R; subst; cbn in Cb |- *; try discriminate; auto; try contradiction.
  - (* countersignature *) apply andb_true_iff in C as [_ Cc]. destruct v; cbn in Cc, Sv; discriminate.
  - (* countersignature0 *) apply andb_true_iff in C as [Cp Cb]. rewrite Cp. cbn [andb]. inversion R; subst; cbn in Cb |- *; try discriminate; auto; try contradiction.
  - (* countersignature V2 *) apply andb_true_iff in C as [_ Cc]. destruct v; cbn in Cc, Sv; discriminate.
  - (* countersignature0 V2 *) apply andb_true_iff in C as [Cp Cb]. rewrite Cp. cbn [andb]. inversion R; subst; cbn in Cb |- *; try discriminate; auto; try contradiction.
Qed.

Lemma check_entries_intro prot whole : forall h,
  Nat.even (length h) = true ->
  (forall k v, entry_in k v h -> exists k0, normalize_label k = Some k0 /\ check_param prot whole k0 v = true) ->
  check_entries prot whole h = true.
Proof.
  induction h as [| |k v r IH] using pair_ind; intros He Hall; [reflexivity|discriminate|].
  cbn [check_entries]. destruct (Hall k v) as (k0 & Hk & Hc); [left; auto|]. rewrite Hk, Hc. cbn [andb].
  apply IH; [exact He|]. intros k1 v1 Hin. apply Hall. right; exact Hin.
Qed.

(* RFC 9052 section 3.1 rules that hold for a bucket hold for the bucket the decoder rebuilds from its encoding *)
Theorem validate_params_transport l dl prot :
  hrel l dl -> (forall k v, entry_in k v l -> okval v) ->
  validate_params l prot = true -> validate_params dl prot = true.
Proof.
  intros H Hok V. unfold validate_params in *.
  destruct (norm_labels l) as [ks|] eqn:Hn; [|discriminate]. apply andb_true_iff in V as [Hd Hc].
  destruct (hrel_labels _ _ _ H Hn Hd) as (Hn' & Hd' & _). rewrite Hn', Hd'. cbn [andb].
  pose proof H as (_ & _ & _ & Ev).
  apply check_entries_intro; [exact Ev|]. intros k' v' Hin.
  destruct (hrel_bwd _ _ _ _ H Hin) as (k & v & Hin0 & Hk & Rv).
  destruct (check_entries_in prot l l k v Hc Hin0) as (k0 & Hk0 & Hc0). rewrite Hk in Hk0. inversion Hk0; subst k0.
  exists k'. split; [apply (hrel_keys_normal _ _ H k' v' Hin)|].
  eapply check_param_mono; eauto.
Qed.

(* ---------- from the encoder's tree to the decoders ---------- *)
Lemma map_eq_forall2 {A B C} (f : A -> C) (g : B -> C) : forall a b, map f a = map g b -> Forall2 (fun x y => f x = g y) a b.
Proof. induction a as [|x a IH]; intros [|y b] H; cbn in H; try discriminate; constructor; inversion H; auto. Qed.

Lemma forall2_and {A B} (R S : A -> B -> Prop) l l' : Forall2 R l l' -> Forall2 S l l' -> Forall2 (fun a b => R a b /\ S a b) l l'.
Proof. induction 1; intros H2; inversion H2; subst; constructor; auto. Qed.

Lemma forall2_impl_in {A B} (R S : A -> B -> Prop) l l' :
  (forall a b, In a l -> R a b -> S a b) -> Forall2 R l l' -> Forall2 S l l'.
Proof.
  intros H F. induction F as [|a b l l' Hab F IH]; constructor.
  - apply H; [left; reflexivity|exact Hab].
  - apply IH. intros x y Hx. apply H. right; exact Hx.
Qed.

Lemma simple_key_normal k : key_ok k = true -> simple k = true -> forall k0, normalize_label k = Some k0 -> k0 = dkey k.
Proof.
  intros Hk Hs k0 Hn. destruct k; try discriminate; cbn [simple] in Hs; cbn in Hn.
  - destruct (is_signed_kind k || is_unsigned_kind k); [|discriminate]. inversion Hn; subst. cbn [dkey]. f_equal.
    apply wrap64_id. unfold int64_range. unfold maxint64 in Hs. change (2 ^ 63) with 9223372036854775808 in Hs. lia.
  - inversion Hn; subst. reflexivity.
Qed.

Lemma simple_map_entries l : simple (GMap l) = true ->
  forall k v, entry_in k v l -> key_ok k = true /\ simple k = true /\ simple v = true.
Proof.
  cbn [simple]. intros H. apply andb_true_iff in H as [H Ha]. apply andb_true_iff in H as [_ Hk]. apply simple_all_forall in Ha.
  revert Hk Ha. induction l as [| |k0 v0 r IH] using pair_ind; intros Hk Ha k v Hin; try contradiction.
  cbn [keys_ok] in Hk. apply andb_true_iff in Hk as [K1 K2]. inversion Ha as [|? ? S1 Ha']; subst. inversion Ha' as [|? ? S2 Ha'']; subst.
  destruct Hin as [[-> ->]|Hin]; auto.
Qed.

Lemma hrel_from_tree l dl lp ks :
  simple (GMap l) = true -> norm_labels l = Some ks ->
  Permutation (pairs l) lp -> Forall2 pair_rel lp (pairs dl) -> Nat.even (length dl) = true ->
  gkeys dl = map (fun p => dkey (fst p)) lp -> hrel l dl.
Proof.
  intros Hs Hn P F Ev Kd. exists lp. split; [exact P|]. split; [|exact Ev].
  rewrite gkeys_pairs in Kd. apply map_eq_forall2 in Kd. apply forall2_flip in Kd. cbn beta in Kd.
  pose proof (forall2_and _ _ _ _ F Kd) as FA. revert FA. apply forall2_impl_in.
  intros [k v] [k' v'] Hin [[Rk Rv] Ek]. cbn [fst snd] in *. split; [|exact Rv]. cbn [fst].
  apply (Permutation_in _ (Permutation_sym P)) in Hin. apply entry_in_pairs in Hin.
  destruct (simple_map_entries l Hs k v Hin) as (Kk & Sk & _).
  destruct (norm_labels_in l ks k v Hn Hin) as (k0 & Hk0 & _). rewrite Hk0. f_equal.
  rewrite (simple_key_normal k Kk Sk k0 Hk0). symmetry. exact Ek.
Qed.

Lemma map_first_byte ww tl : wf (WMap ww tl) = true ->
  exists a rest, ser (WMap ww tl) = a :: rest /\ a / 32 = 5.
Proof.
  intros W. cbn [ser]. unfold head. eexists _, _. split; [reflexivity|].
  cbn [wf] in W. apply andb_true_iff in W as [W _]. apply andb_true_iff in W as [_ W].
  destruct ww; cbn [ai_of fits] in *; lia.
Qed.

(* every byte of a serialisation is a byte *)
Lemma head_ok m w n : 0 <= m < 8 -> fits w n = true -> bytes_ok (head m w n) = true.
Proof.
  intros Hm Hf. unfold head. cbn [bytes_ok forallb]. fold (bytes_ok (be_enc (wlen w) n)). rewrite be_enc_ok, andb_true_r.
  unfold byte_ok. destruct w; cbn [ai_of fits] in *; lia.
Qed.

Lemma ser_ok : forall w, wf w = true -> bytes_ok (ser w) = true.
Proof.
  induction w using wire_ind'; cbn [wf ser]; intros W.
  - apply head_ok; auto. unfold bmaj. destruct neg; lia.
  - apply andb_true_iff in W as [W1 W2]. rewrite bytes_ok_app, W2, andb_true_r. apply head_ok; auto. unfold bmaj. destruct t; lia.
  - apply andb_true_iff in W as [W1 W2]. rewrite bytes_ok_app, head_ok by (auto; lia). cbn [andb]. clear W1.
    induction H as [|y l Hy Hl IH]; [reflexivity|]. cbn [forallb flat_map] in *. apply andb_true_iff in W2 as [A B].
    rewrite bytes_ok_app, (Hy A), (IH B). reflexivity.
  - apply andb_true_iff in W as [W1 W2]. apply andb_true_iff in W1 as [_ W1]. rewrite bytes_ok_app, head_ok by (auto; lia). cbn [andb]. clear W1.
    induction H as [|y l Hy Hl IH]; [reflexivity|]. cbn [forallb flat_map] in *. apply andb_true_iff in W2 as [A B].
    rewrite bytes_ok_app, (Hy A), (IH B). reflexivity.
  - apply andb_true_iff in W as [W1 W2]. rewrite bytes_ok_app, head_ok, IHw by (auto; lia). reflexivity.
  - apply head_ok; [lia|]. destruct w; cbn [sim_ok fits] in *; auto; lia.
Qed.

(* the decoder's nesting / size limits, and a length that fits a CBOR head *)
Definition within_limits (m : bytes) : Prop := lib_wf true m <> None /\ len m < two64.

Lemma lib_wf_of_ser w : wf w = true -> within_limits (ser w) -> lib_wf true (ser w) = Some w.
Proof.
  intros W [L _]. unfold lib_wf in *. rewrite parse_full_ser in * by auto.
  destruct (depth_ok true w 0); [reflexivity|contradiction].
Qed.

(* tree level: the protected item the encoder emits decodes (dec_protected is what every message decoder calls) *)
Lemma dec_protected_of_enc l pb :
  l <> [] -> simple (GMap l) = true -> (forall k v, entry_in k v l -> okval v) ->
  enc_protected (Some l) = Acc pb ->
  (forall m, enc_hmap true l = Acc m -> within_limits m) ->
  exists m dl, enc_hmap true l = Acc m /\ pb = ser (tbstr m) /\ short m /\ m <> [] /\
               dec_protected (tbstr m) = Acc (cast_alg dl) /\ hrel l dl /\ validate_params dl true = true /\
               validate_params l true = true /\ rel (GMap l) (GMap dl).
Proof.
  intros Hne Hs Hok He Hlim. unfold enc_protected in He. destruct l as [|x0 l0]; [contradiction|].
  set (l := x0 :: l0) in *.
  destruct (validate_params l true) eqn:V; [|discriminate].
  destruct (enc_hmap true l) as [m| | |] eqn:Em; cbn [bind] in He; try discriminate. inversion He; subst pb.
  destruct (enc_map_dec true l m Hs Em) as (ww & tl & dl & lp & -> & [W Cn] & Nl & Dl & Nd & Plp & Rl & Evn & Kd & LP & VP).
  assert (Hn : exists ks, norm_labels l = Some ks).
  { unfold validate_params in V. destruct (norm_labels l); [eauto|discriminate]. }
  destruct Hn as [ks Hn].
  pose proof (hrel_from_tree l dl lp ks Hs Hn Plp Rl Evn Kd) as HR.
  pose proof (validate_params_transport l dl true HR Hok V) as V'.
  destruct (map_first_byte ww tl W) as (a & rest & Ea & Ha).
  assert (Sm : short (ser (WMap ww tl))).
  { split; [apply ser_ok; exact W|]. destruct (Hlim _ eq_refl) as [_ Hl]. exact Hl. }
  exists (ser (WMap ww tl)), dl. split; [reflexivity|]. split; [apply enc_bstr_ser|]. split; [exact Sm|].
  split; [rewrite Ea; discriminate|]. split; [|split; [exact HR|split; [exact V'|split; [reflexivity|econstructor; eauto]]]].
  unfold tbstr. rewrite Ea. cbn [dec_protected]. rewrite Ha. cbn [Z.eqb Pos.eqb negb]. rewrite <- Ea.
  rewrite (lib_wf_of_ser _ W (Hlim _ eq_refl)). rewrite LP. cbn [bind]. rewrite Nd. cbn [negb].
  rewrite VP. cbn [bind]. rewrite (zip_keys_vals dl Evn), V'. reflexivity.
Qed.

(* C13 / C08, protected bucket: what ProtectedHeader.MarshalCBOR emits, ProtectedHeader.UnmarshalCBOR accepts,
   and the decoded bucket has the same parameters *)
Theorem protected_roundtrip l pb :
  l <> [] -> simple (GMap l) = true -> (forall k v, entry_in k v l -> okval v) ->
  enc_protected (Some l) = Acc pb ->
  (forall m, enc_hmap true l = Acc m -> within_limits m) ->
  exists m dl, enc_hmap true l = Acc m /\ pb = enc_bstr m /\
               unmarshal_protected pb = Acc (cast_alg dl) /\ hrel l dl /\ validate_params dl true = true.
Proof.
  intros Hne Hs Hok He Hlim.
  destruct (dec_protected_of_enc l pb Hne Hs Hok He Hlim) as (m & dl & Em & -> & Sm & Mne & D & HR & V' & _).
  exists m, dl. split; [exact Em|]. split; [symmetry; apply enc_bstr_ser|]. split; [|auto].
  unfold unmarshal_protected.
  assert (Wb : wf (tbstr m) = true) by (apply tbstr_wf; exact Sm).
  destruct (ser (tbstr m)) as [|b0 bs] eqn:Eb; [pose proof (ser_nonempty (tbstr m)) as Hn; rewrite Eb in Hn; cbn in Hn; lia|].
  rewrite <- Eb. unfold lib_wf. rewrite parse_full_ser by exact Wb. cbn [depth_ok tbstr]. exact D.
Qed.

(* ---------- unprotected bucket ---------- *)
Definition is_cs_label (k : gv) : bool :=
  match k with
  | GInt KInt64 n => (n =? c_HeaderLabelCounterSignature) || (n =? c_HeaderLabelCounterSignatureV2)
  | _ => false
  end.

Lemma simple_not_csig v : simple v = true -> is_csig_value v = false.
Proof. destruct v; cbn; try discriminate; auto. Qed.

Lemma no_cs_labels l dl :
  hrel l dl -> (forall k v, entry_in k v l -> okval v) -> validate_params l false = true ->
  forall k', In k' (gkeys dl) -> is_cs_label k' = false.
Proof.
  intros H Hok V k' Hin. rewrite gkeys_pairs in Hin. apply in_map_iff in Hin as ([k1 v'] & <- & Hp). cbn [fst].
  apply entry_in_pairs in Hp. destruct (hrel_bwd _ _ _ _ H Hp) as (k & v & Hin0 & Hk & _).
  unfold validate_params in V. destruct (norm_labels l); [|discriminate]. apply andb_true_iff in V as [_ Hc].
  destruct (check_entries_in false l l k v Hc Hin0) as (k0 & Hk0 & Hc0). rewrite Hk in Hk0. inversion Hk0; subst k0.
  destruct (Hok k v Hin0) as (Sv & _). pose proof (simple_not_csig v Sv) as Nc.
  destruct k1 as [kk n| | | | | | | | | | | | | | | |]; auto. destruct kk; auto. cbn [is_cs_label].
  unfold check_param in Hc0.
  destruct (n =? c_HeaderLabelCounterSignature) eqn:E1.
  - apply Z.eqb_eq in E1. subst n. cbn in Hc0. rewrite Nc in Hc0. discriminate.
  - destruct (n =? c_HeaderLabelCounterSignatureV2) eqn:E2; [|reflexivity].
    apply Z.eqb_eq in E2. subst n. cbn in Hc0. rewrite Nc in Hc0. discriminate.
Qed.

Fixpoint npairs {A} (l : list A) : nat := match l with _ :: _ :: r => S (npairs r) | _ => O end.

Lemma labels_pass_length : forall tl ks, labels_pass tl = Acc ks -> length ks = npairs tl.
Proof.
  intros tl. induction tl as [| |k v r IH] using pair_ind; intros ks H; cbn [labels_pass] in H.
  - inversion H; reflexivity.
  - inversion H; reflexivity.
  - destruct (label_of_wire k) as [k'| | |]; cbn [comb] in H; try discriminate;
      destruct (builtin_tag_ok (strip_sd v)); cbn [comb] in H;
      destruct (labels_pass r) as [ks'| | |]; cbn [comb] in H; try discriminate.
    inversion H; subst. cbn [npairs length]. f_equal. apply IH. reflexivity.
Qed.

(* tree level *)
Lemma dec_unprotected_of_enc l ub fuel :
  l <> [] -> simple (GMap l) = true -> (forall k v, entry_in k v l -> okval v) ->
  enc_unprotected (Some l) = Acc ub -> within_limits ub ->
  exists w dl, ub = ser w /\ wf w = true /\ notags w = true /\ (exists ww tl, w = WMap ww tl) /\
               dec_unprotected (S fuel) w = Acc dl /\ hrel l dl /\ validate_params dl false = true /\
               validate_params l false = true /\ rel (GMap l) (GMap dl).
Proof.
  intros Hne Hs Hok He Hlim. unfold enc_unprotected in He. destruct l as [|x0 l0]; [contradiction|].
  set (l := x0 :: l0) in *.
  destruct (validate_params l false) eqn:V; [|discriminate].
  destruct (enc_map_dec false l ub Hs He) as (ww & tl & dl & lp & -> & [W Cn] & Nl & Dl & Nd & Plp & Rl & Evn & Kd & LP & VP).
  assert (Hn : exists ks, norm_labels l = Some ks).
  { unfold validate_params in V. destruct (norm_labels l); [eauto|discriminate]. }
  destruct Hn as [ks Hn].
  pose proof (hrel_from_tree l dl lp ks Hs Hn Plp Rl Evn Kd) as HR.
  pose proof (validate_params_transport l dl false HR Hok V) as V'.
  pose proof (no_cs_labels l dl HR Hok V) as NC.
  exists (WMap ww tl), dl. split; [reflexivity|]. split; [exact W|].
  split; [cbn [notags]; clear -Nl; induction tl as [|w tl IH]; [reflexivity|]; cbn [forallb] in Nl; apply andb_true_iff in Nl as [A B]; rewrite A; apply IH; exact B|].
  split; [eauto|]. split; [|split; [exact HR|split; [exact V'|split; [reflexivity|econstructor; eauto]]]].
  cbn [dec_unprotected]. rewrite LP. cbn [bind]. rewrite Nd. cbn [negb].
  match goal with |- (let* vs := ?G tl (gkeys dl) in _) = _ =>
    assert (EG : forall t ks0, length ks0 = npairs t -> (forall k', In k' ks0 -> is_cs_label k' = false) -> G t ks0 = values_pass t) end.
  { intros t. induction t as [| |k v r IH] using pair_ind; intros ks0 HL Hc.
    - reflexivity.
    - destruct ks0; reflexivity.
    - destruct ks0 as [|k0 ks0]; [discriminate HL|]. cbn [values_pass].
      pose proof (Hc k0 (or_introl eq_refl)) as C0. unfold is_cs_label in C0.
      destruct k0 as [kk n| | | | | | | | | | | | | | | |]; try destruct kk; try rewrite C0;
        (rewrite IH; [reflexivity|cbn in HL; lia|intros k' Hk'; apply Hc; right; exact Hk']). }
  rewrite EG; [|apply labels_pass_length; exact LP|exact NC].
  rewrite VP. cbn [bind]. rewrite (zip_keys_vals dl Evn), V'. reflexivity.
Qed.

(* C13 / C08, unprotected bucket *)
Theorem unprotected_roundtrip l ub :
  l <> [] -> simple (GMap l) = true -> (forall k v, entry_in k v l -> okval v) ->
  enc_unprotected (Some l) = Acc ub -> within_limits ub ->
  exists dl, unmarshal_unprotected ub = Acc dl /\ hrel l dl /\ validate_params dl false = true.
Proof.
  intros Hne Hs Hok He Hlim.
  destruct (dec_unprotected_of_enc l ub 19 Hne Hs Hok He Hlim) as (w & dl & -> & W & _ & (ww & tl & ->) & D & HR & V' & _).
  exists dl. split; [|auto].
  unfold unmarshal_unprotected. destruct (map_first_byte ww tl W) as (a & rest & Ea & Ha).
  rewrite Ea. rewrite Ha. cbn [Z.eqb Pos.eqb negb]. rewrite <- Ea.
  rewrite (lib_wf_of_ser _ W Hlim). exact D.
Qed.

(* the premises are satisfiable: {1: ES256, 4: h'0102', 2: [4]} with labels spelled by three Go integer kinds *)
Example roundtrip_example :
  let l := [GInt KInt 1; GInt KAlg (-7); GInt KInt8 4; GBytes [1; 2]; GInt KInt64 2; GArr [GInt KUint8 4]] in
  simple (GMap l) = true /\ validate_params l true = true /\
  enc_protected (Some l) = Acc (x "4aa3012602810404420102") /\
  unmarshal_protected (x "4aa3012602810404420102") =
    Acc [GInt KInt64 1; GInt KAlg (-7); GInt KInt64 2; GArr [GInt KInt64 4]; GInt KInt64 4; GBytes [1; 2]].
Proof. repeat split; vm_compute; reflexivity. Qed.

Print Assumptions protected_roundtrip.
Print Assumptions unprotected_roundtrip.
