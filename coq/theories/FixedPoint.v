(* C09, last sentence: "if the caller discards the retained raw bytes, the result is a canonical form: decoding and
   re-encoding it again changes nothing".

   rel_enc: two values that are "the same value" (EncDec.rel: integer kinds aside, nil []byte = nil, map entries in any
   order) encode to the same bytes.  With EncDec.enc_dec (the encoder output decodes to a related value) this makes the
   encoder output a fixed point of decode-then-encode, by induction over arbitrarily nested values, in both encoder
   modes. *)
From Coq Require Import ZArith List Bool Lia Permutation.
From GoCose Require Import Bytes Cbor CborProofs Res GoVal Fx Headers Enc TbsProofs EncProofs EncCanon EncDec.
Import ListNotations.
Open Scope Z_scope.

Definition enc_seq (kb : bool) (l : list gv) : res bytes :=
  (fix go (l : list gv) : res bytes :=
     match l with
     | [] => Acc []
     | y :: r => let* a := enc kb y in let* b := go r in Acc (a ++ b)
     end) l.

Lemma enc_arr kb l : enc kb (GArr l) = let* bs := enc_seq kb l in Acc (enc_head 4 (len l) ++ bs).
Proof. reflexivity. Qed.
Lemma enc_gmap kb l : enc kb (GMap l) = let* kvs := enc_pairs kb l in enc_map_of kvs.
Proof. reflexivity. Qed.

Lemma forall2_len {A B} (R : A -> B -> Prop) l l' : Forall2 R l l' -> len l = len l'.
Proof. intros H. unfold len. f_equal. induction H; cbn; auto. Qed.

(* sequences of related values encode alike *)
Lemma enc_seq_rel kb l : Forall (fun g => forall d b, rel g d -> enc kb g = Acc b -> enc kb d = Acc b) l ->
  forall l' bs, Forall2 rel l l' -> enc_seq kb l = Acc bs -> enc_seq kb l' = Acc bs.
Proof.
  induction 1 as [|y l Hy Hl IH]; intros l' bs HR He; inversion HR as [|? d ? r' Ry Rr]; subst.
  - exact He.
  - cbn [enc_seq] in *. destruct (enc kb y) as [a| | |] eqn:Ey; cbn [bind] in He; try discriminate.
    rewrite (Hy d a Ry eq_refl). cbn [bind].
    match type of He with (let* _ := ?X in _) = _ => destruct X as [b| | |] eqn:Er; cbn [bind] in He; try discriminate end.
    change (enc_seq kb l = Acc b) in Er. pose proof (IH r' b Rr Er) as E'. unfold enc_seq in E'. rewrite E'. exact He.
Qed.

(* the encoded pairs of a flat map, as a map over its pairs *)
Fixpoint enc_plist (kb : bool) (ps : list (gv * gv)) : res (list (bytes * bytes)) :=
  match ps with
  | [] => Acc []
  | (k, v) :: r => let* a := enc kb k in let* b := enc kb v in let* c := enc_plist kb r in Acc ((a, b) :: c)
  end.

Lemma enc_pairs_plist kb : forall l, enc_pairs kb l = enc_plist kb (pairs l).
Proof.
  fix IH 1. intros [|k [|v r]]; try reflexivity.
  change (enc_pairs kb (k :: v :: r)) with (let* a := enc kb k in let* b := enc kb v in let* c := enc_pairs kb r in Acc ((a, b) :: c)).
  cbn [pairs enc_plist]. rewrite (IH r). reflexivity.
Qed.

(* encoding a permuted list of pairs gives a permuted list of encoded pairs *)
Lemma enc_plist_perm kb ps ps' kvs : Permutation ps ps' -> enc_plist kb ps = Acc kvs ->
  exists kvs', enc_plist kb ps' = Acc kvs' /\ Permutation kvs kvs'.
Proof.
  intros HP. revert kvs. induction HP as [|[k v] ps ps' HP IH|[k1 v1] [k2 v2] ps|ps1 ps2 ps3 H12 IH12 H23 IH23]; intros kvs He.
  - exists kvs. split; auto.
  - cbn [enc_plist] in *. destruct (enc kb k) as [a| | |]; cbn [bind] in *; try discriminate.
    destruct (enc kb v) as [b| | |]; cbn [bind] in *; try discriminate.
    destruct (enc_plist kb ps) as [c| | |] eqn:Ec; cbn [bind] in He; try discriminate. inversion He; subst.
    destruct (IH c eq_refl) as (c' & -> & Pc). cbn [bind]. eexists. split; [reflexivity|]. constructor; auto.
  - cbn [enc_plist] in *.
    destruct (enc kb k2) as [a2| | |]; cbn [bind] in *; try discriminate.
    destruct (enc kb v2) as [b2| | |]; cbn [bind] in *; try discriminate.
    destruct (enc kb k1) as [a1| | |]; cbn [bind] in *; try discriminate.
    destruct (enc kb v1) as [b1| | |]; cbn [bind] in *; try discriminate.
    destruct (enc_plist kb ps) as [c| | |]; cbn [bind] in *; try discriminate. inversion He; subst.
    eexists. split; [reflexivity|]. apply perm_swap.
  - destruct (IH12 kvs He) as (k2 & E2 & P2). destruct (IH23 k2 E2) as (k3 & E3 & P3).
    exists k3. split; auto. eapply perm_trans; eauto.
Qed.

(* pairwise related pairs encode to the same list *)
Lemma enc_plist_rel kb ps : Forall (fun p => (forall d b, rel (fst p) d -> enc kb (fst p) = Acc b -> enc kb d = Acc b) /\
                                             (forall d b, rel (snd p) d -> enc kb (snd p) = Acc b -> enc kb d = Acc b)) ps ->
  forall qs kvs, Forall2 (fun p q => rel (fst p) (fst q) /\ rel (snd p) (snd q)) ps qs ->
  enc_plist kb ps = Acc kvs -> enc_plist kb qs = Acc kvs.
Proof.
  induction 1 as [|[k v] ps [Hk Hv] Hps IH]; intros qs kvs HR He; inversion HR as [|? [k' v'] ? qs' [Rk Rv] Rr]; subst.
  - exact He.
  - cbn [fst snd] in *. cbn [enc_plist] in *.
    destruct (enc kb k) as [a| | |] eqn:Ek; cbn [bind] in He; try discriminate. rewrite (Hk k' a Rk eq_refl). cbn [bind].
    destruct (enc kb v) as [b| | |] eqn:Ev; cbn [bind] in He; try discriminate. rewrite (Hv v' b Rv eq_refl). cbn [bind].
    destruct (enc_plist kb ps) as [c| | |] eqn:Ec; cbn [bind] in He; try discriminate.
    rewrite (IH qs' c Rr eq_refl). exact He.
Qed.

Lemma forall_pairs (P : gv -> Prop) : forall l, Forall P l -> Forall (fun p => P (fst p) /\ P (snd p)) (pairs l).
Proof.
  fix IH 1. intros [|k [|v r]] H; try constructor.
  - inversion H as [|? ? Hk H']; subst. inversion H' as [|? ? Hv H'']; subst. split; assumption.
  - inversion H as [|? ? Hk H']; subst. inversion H' as [|? ? Hv H'']; subst. apply IH. exact H''.
Qed.

Lemma forall_perm {A} (P : A -> Prop) l l' : Permutation l l' -> Forall P l -> Forall P l'.
Proof. intros HP H. rewrite Forall_forall in *. intros x Hx. apply H. eapply Permutation_in; [apply Permutation_sym; exact HP|exact Hx]. Qed.

Lemma len_pairs_even l' : Nat.even (length l') = true -> len (pairs l') = len l' / 2.
Proof.
  unfold len. revert l'. fix IH 1. intros [|k [|v r]] H; try reflexivity; try discriminate.
  cbn [pairs length]. cbn [Nat.even] in H. rewrite Nat2Z.inj_succ, (IH r H).
  change (Z.of_nat (S (S (length r)))) with (Z.of_nat (2 + length r)). rewrite Nat2Z.inj_add. change (Z.of_nat 2) with (1 * 2).
  rewrite Z.div_add_l by lia. lia.
Qed.

(* the decoder's normal form of a float64 encodes as the float itself *)
Lemma enc_float_norm b : enc_float (norm_f64 b) = enc_float b.
Proof.
  unfold norm_f64. destruct (is_nan64 b) eqn:En; [|reflexivity].
  unfold enc_float. rewrite En. reflexivity.
Qed.

(* "the same value" encodes to the same bytes *)
Theorem rel_enc kb : forall g d b, rel g d -> enc kb g = Acc b -> enc kb d = Acc b.
Proof.
  induction g using gv_ind'; intros d out HR He; inversion HR; subst; try exact He.
  - (* arrays *)
    rewrite enc_arr in *. destruct (enc_seq kb l) as [bs| | |] eqn:Es; cbn [bind] in He; try discriminate.
    match goal with HF : Forall2 rel l ?l' |- _ => rewrite (enc_seq_rel kb l H l' bs HF Es), <- (forall2_len _ _ _ HF) end. exact He.
  - (* maps *)
    rewrite enc_gmap in *. destruct (enc_pairs kb l) as [kvs| | |] eqn:Ep; cbn [bind] in He; try discriminate.
    rewrite enc_pairs_plist in *.
    match goal with HP : Permutation (pairs l) ?lp, HF : Forall2 _ ?lp (pairs ?l') |- _ =>
      destruct (enc_plist_perm kb _ _ kvs HP Ep) as (kvs' & E' & Pk);
      pose proof (forall_perm _ _ _ HP (forall_pairs _ l H)) as Hlp;
      rewrite (enc_plist_rel kb lp Hlp (pairs l') kvs' HF E') end.
    cbn [bind]. eapply enc_map_order_independent; [exact Pk|exact He].
  - (* floats *) cbn [enc] in *. rewrite enc_float_norm. exact He.
Qed.

(* C09: the encoder output is a canonical form.  Decoding it and encoding the decoded value again gives the same
   bytes, for every value of nested integers, text, byte strings, booleans, nil, arrays and maps, in both modes *)
Theorem canonical_fixed_point kb g b :
  simple g = true -> enc kb g = Acc b ->
  exists w d, parse_full b = Some w /\ dec true w = Acc d /\ enc kb d = Acc b.
Proof.
  intros Hs He. destruct (enc_dec kb g b Hs He) as (w & d & -> & [Hw _] & _ & D & R).
  exists w, d. split; [apply parse_full_ser; exact Hw|]. split; [exact D|]. exact (rel_enc kb g d _ R He).
Qed.

Example fixed_point_example :
  let g := GMap [GInt KInt 256; GStr [97]; GInt KInt8 (-1); GArr [GBytes []; GBool true; GNilBytes]; GStr []; GMap [GInt KUint8 1; GNil]] in
  match enc true g with
  | Acc b => match parse_full b with
             | Some w => match dec true w with Acc d => enc true d = Acc b /\ d <> g | _ => False end
             | None => False
             end
  | _ => False
  end.
Proof. vm_compute. split; [reflexivity|discriminate]. Qed.
Print Assumptions canonical_fixed_point.
