(* EncCanon.v — everything the encoder generates for a header / key value is
   deterministic CBOR (C08): the output is the serialisation of a well-formed
   syntax tree in which every head is the shortest one and every map has
   strictly increasing keys (bytewise, on the encoded key) — by induction over
   arbitrarily nested values. *)
From Coq Require Import Ascii String ZArith List Lia Bool Arith ZifyBool Permutation.
From GoCose Require Import Bytes Cbor CborProofs Res GoVal Fx Headers Enc TbsProofs EncProofs.
Import ListNotations.
Open Scope Z_scope.
Ltac Zify.zify_post_hook ::= Z.div_mod_to_equations.

(* strictly increasing encoded keys of a flat map *)
Fixpoint keys_sorted (l : list wire) : bool :=
  match l with
  | k :: _ :: ((k2 :: _ :: _) as r) => bytes_ltb (ser k) (ser k2) && keys_sorted r
  | _ => true
  end.

Fixpoint canonical (x : wire) : bool :=
  match x with
  | WInt _ w n => width_eqb w (minw n)
  | WStr _ w b => width_eqb w (minw (len b))
  | WArr w l => width_eqb w (minw (len l)) && forallb canonical l
  | WMap w l => width_eqb w (minw (len l / 2)) && forallb canonical l && keys_sorted l
  | WTag w t c => width_eqb w (minw t) && canonical c
  | WSim _ _ => true
  end.

Lemma width_eqb_refl w : width_eqb w w = true.
Proof. destruct w; reflexivity. Qed.

(* the values the theorem speaks about: integers of at most 64 bits, byte and
   text strings, booleans, nil, arrays, maps, tags — at any nesting depth *)
Fixpoint gv_plain (g : gv) : bool :=
  match g with
  | GInt _ n => (- two64 <=? n) && (n <? two64)
  | GStr s | GBytes s | GBStr s => bytes_ok s && (len s <? two64)
  | GNilBytes | GBool _ | GNil => true
  | GArr l => (len l <? two64) && (fix all (l : list gv) : bool := match l with [] => true | y :: r => gv_plain y && all r end) l
  | GMap l => (len l <? two64) && (fix all (l : list gv) : bool := match l with [] => true | y :: r => gv_plain y && all r end) l
  | GTag t c => (0 <=? t) && (t <? two64) && gv_plain c
  | GFloat b => (0 <=? b) && (b <? two64)
  | _ => false
  end.

Definition good (w : wire) : Prop := wf w = true /\ canonical w = true.

Definition encodes (kb : bool) (g : gv) : Prop :=
  forall b, gv_plain g = true -> enc kb g = Acc b -> exists w, b = ser w /\ good w.

Lemma enc_head_ser_int n : 0 <= n < two64 -> enc_head 0 n = ser (WInt false (minw n) n) /\ good (WInt false (minw n) n).
Proof. intros H. split; [reflexivity|]. split; cbn; [apply minw_fits; auto|apply width_eqb_refl]. Qed.

Lemma plain_all_forall l :
  (fix all (l : list gv) : bool := match l with [] => true | y :: r => gv_plain y && all r end) l = true ->
  Forall (fun y => gv_plain y = true) l.
Proof.
  induction l as [|y l IH]; intros H; constructor.
  - apply andb_true_iff in H as [H _]. exact H.
  - apply IH. apply andb_true_iff in H as [_ H]. exact H.
Qed.

(* sequences of encoded items *)
Lemma seq_encodes kb (f : list gv -> res bytes) :
  (forall l, f l = match l with [] => Acc [] | y :: r => let* a := enc kb y in let* b := f r in Acc (a ++ b) end) ->
  forall l bs, Forall (encodes kb) l -> Forall (fun y => gv_plain y = true) l -> f l = Acc bs ->
  exists ws, bs = flat_map ser ws /\ length ws = length l /\ Forall good ws.
Proof.
  intros Hf. induction l as [|y l IH]; intros bs He Hp H; rewrite Hf in H.
  - inversion H; subst. exists []. repeat split; constructor.
  - inversion He as [|? ? Hy He']; subst. inversion Hp as [|? ? Py Hp']; subst.
    destruct (enc kb y) as [a| | |] eqn:Ey; cbn [bind] in H; try discriminate.
    destruct (f l) as [b| | |] eqn:El; cbn [bind] in H; try discriminate.
    inversion H; subst. destruct (Hy a Py Ey) as (w & -> & Gw).
    destruct (IH b He' Hp' eq_refl) as (ws & -> & Hl & Gs).
    exists (w :: ws). cbn. repeat split; auto.
Qed.

(* pairs of encoded items *)
Lemma pairs_encode kb (f : list gv -> res (list (bytes * bytes))) :
  (forall l, f l = match l with
                   | k :: v :: r => let* a := enc kb k in let* b := enc kb v in let* c := f r in Acc ((a, b) :: c)
                   | _ => Acc []
                   end) ->
  forall l kvs, Forall (encodes kb) l -> Forall (fun y => gv_plain y = true) l -> f l = Acc kvs ->
  Forall (fun kv => exists wk wv, fst kv = ser wk /\ snd kv = ser wv /\ good wk /\ good wv) kvs /\
  (length kvs <= length l / 2)%nat.
Proof.
  intros Hf. fix IH 1. intros [|k [|v r]] kvs He Hp H; rewrite Hf in H.
  - inversion H; subst. split; [constructor|cbn; lia].
  - inversion H; subst. split; [constructor|cbn; lia].
  - inversion He as [|? ? Hk He']; subst. inversion He' as [|? ? Hv He'']; subst.
    inversion Hp as [|? ? Pk Hp']; subst. inversion Hp' as [|? ? Pv Hp'']; subst.
    destruct (enc kb k) as [a| | |] eqn:Ek; cbn [bind] in H; try discriminate.
    destruct (enc kb v) as [b| | |] eqn:Ev; cbn [bind] in H; try discriminate.
    destruct (f r) as [c| | |] eqn:Er; cbn [bind] in H; try discriminate.
    inversion H; subst. destruct (Hk a Pk Ek) as (wk & -> & Gk). destruct (Hv b Pv Ev) as (wv & -> & Gv).
    destruct (IH r c He'' Hp'' Er) as [Fc Lc]. split.
    + constructor; auto. exists wk, wv. auto.
    + cbn [length]. change (length (k :: v :: r)) with (S (S (length r))).
      replace (S (S (length r)) / 2)%nat with (S (length r / 2)) by (symmetry; apply (Nat.div_add_l 1 2 (length r)); lia).
      lia.
Qed.

(* a strictly sorted list of encoded pairs is the flat serialisation of a sorted flat map *)
Lemma sorted_pairs_tree : forall s,
  Forall (fun kv => exists wk wv, fst kv = ser wk /\ snd kv = ser wv /\ good wk /\ good wv) s -> ssorted s ->
  exists l, flat_kv s = flat_map ser l /\ length l = (2 * length s)%nat /\ Forall good l /\ keys_sorted l = true /\
            match s, l with
            | kv :: _, k :: _ => fst kv = ser k
            | [], [] => True
            | _, _ => False
            end.
Proof.
  induction s as [|kv s IH]; intros HF Hs.
  - exists []. cbn. repeat split; auto.
  - inversion HF as [|? ? (wk & wv & Ek & Ev & Gk & Gv) HF']; subst.
    destruct (IH HF' (ssorted_tail _ _ Hs)) as (l & El & Ll & Gl & Kl & Hd).
    exists (wk :: wv :: l). unfold flat_kv, bytes in *. cbn [flat_map].
    split; [rewrite Ek, Ev, El, <- app_assoc; reflexivity|]. split; [cbn [length]; lia|]. split; [constructor; [exact Gk|constructor; [exact Gv|exact Gl]]|]. split; [|exact Ek].
    destruct s as [|kv2 s'].
    + destruct l; [reflexivity|discriminate].
    + destruct l as [|k2 [|v2 l']]; try contradiction; try (cbn in Ll; lia).
      change (keys_sorted (wk :: wv :: k2 :: v2 :: l')) with (bytes_ltb (ser wk) (ser k2) && keys_sorted (k2 :: v2 :: l')).
      rewrite Kl, andb_true_r. inversion Hs; subst. unfold klt in *. rewrite <- Ek, <- Hd. assumption.
Qed.

Lemma forall_good_forallb l : Forall good l -> forallb wf l = true /\ forallb canonical l = true.
Proof.
  induction 1 as [|w l [Hw Hc] Hl [IH1 IH2]]; cbn; auto. rewrite Hw, Hc, IH1, IH2. auto.
Qed.

(* float64 (ShortestFloatNone, NaN -> f9 7e00, infinities -> half precision): the four shapes of the output *)
Lemma enc_float_ser b :
  (enc_float b = ser (WSim W2 32256) /\ is_nan64 b = true) \/
  (enc_float b = ser (WSim W2 31744) /\ is_nan64 b = false /\ b = 2047 * 2 ^ 52) \/
  (enc_float b = ser (WSim W2 64512) /\ is_nan64 b = false /\ b = 2 ^ 63 + 2047 * 2 ^ 52) \/
  (enc_float b = ser (WSim W8 b) /\ is_nan64 b = false /\ b <> 2047 * 2 ^ 52 /\ b <> 2 ^ 63 + 2047 * 2 ^ 52).
Proof.
  unfold enc_float. destruct (is_nan64 b) eqn:En; [left; split; reflexivity|].
  destruct (b =? 2047 * 2 ^ 52) eqn:E1; [apply Z.eqb_eq in E1; right; left; repeat split; auto|].
  destruct (b =? 2 ^ 63 + 2047 * 2 ^ 52) eqn:E2; [apply Z.eqb_eq in E2; right; right; left; repeat split; auto|].
  apply Z.eqb_neq in E1. apply Z.eqb_neq in E2. right; right; right. repeat split; auto.
Qed.

Theorem enc_canonical : forall kb g, encodes kb g.
Proof.
  intros kb. induction g using gv_ind'; unfold encodes; intros out Hp He; cbn [gv_plain] in Hp; try discriminate.
  - (* GInt *) cbn [enc] in He. inversion He; subst. unfold enc_int.
    apply andb_true_iff in Hp as [H1 H2]. apply Z.leb_le in H1. apply Z.ltb_lt in H2.
    destruct (0 <=? n) eqn:E.
    + apply Z.leb_le in E. destruct (enc_head_ser_int n (conj E H2)) as [S G]. eauto.
    + apply Z.leb_gt in E. exists (WInt true (minw (-1 - n)) (-1 - n)). split; [reflexivity|].
      split; cbn [wf canonical]; [apply minw_fits; unfold two64 in *; lia|apply width_eqb_refl].
  - (* GStr *) cbn [enc] in He. inversion He; subst. exists (ttstr s). split; [reflexivity|].
    apply andb_true_iff in Hp as [H1 H2]. split; [apply ttstr_wf; split; auto; lia|cbn; apply width_eqb_refl].
  - (* GBytes *) cbn [enc] in He. inversion He; subst. exists (tbstr b). split; [reflexivity|].
    apply andb_true_iff in Hp as [H1 H2]. split; [apply tbstr_wf; split; auto; lia|cbn; apply width_eqb_refl].
  - (* GNilBytes *) cbn [enc] in He. inversion He; subst. exists (WSim W0 22). repeat split; reflexivity.
  - (* GBool *) cbn [enc] in He. inversion He; subst. destruct b; [exists (WSim W0 21)|exists (WSim W0 20)]; repeat split; reflexivity.
  - (* GNil *) cbn [enc] in He. inversion He; subst. exists (WSim W0 22). repeat split; reflexivity.
  - (* GArr *) apply andb_true_iff in Hp as [Hlen Hall]. apply plain_all_forall in Hall.
    cbn [enc] in He.
    match type of He with (let* bs := ?F l in _) = _ => destruct (F l) as [bs| | |] eqn:EL; cbn [bind] in He; try discriminate;
      destruct (seq_encodes kb F ltac:(intros [|y r]; reflexivity) l bs H Hall EL) as (ws & -> & Hl & Gs) end.
    inversion He; subst. exists (WArr (minw (len ws)) ws).
    assert (Lw : len ws = len l) by (unfold len; rewrite Hl; reflexivity).
    destruct (forall_good_forallb ws Gs) as [F1 F2].
    split; [cbn [ser]; unfold enc_head; rewrite Lw; reflexivity|].
    split; cbn; [rewrite F1, andb_true_r; apply minw_fits; pose proof (len_nonneg ws); lia|rewrite width_eqb_refl, F2; reflexivity].
  - (* GMap *) apply andb_true_iff in Hp as [Hlen Hall]. apply plain_all_forall in Hall.
    cbn [enc] in He.
    match type of He with (let* kvs := ?F l in _) = _ => destruct (F l) as [kvs| | |] eqn:EL; cbn [bind] in He; try discriminate;
      destruct (pairs_encode kb F ltac:(intros [|k [|v r]]; reflexivity) l kvs H Hall EL) as [Fk Lk] end.
    apply enc_map_canonical in He as (s & -> & Ss & Ps).
    assert (Fs : Forall (fun kv => exists wk wv, fst kv = ser wk /\ snd kv = ser wv /\ good wk /\ good wv) s).
    { rewrite Forall_forall in *. intros x Hx. apply Fk. eapply Permutation_in; eauto. }
    destruct (sorted_pairs_tree s Fs Ss) as (tl & El & Ll & Gl & Kl & _).
    exists (WMap (minw (len kvs)) tl).
    assert (Lt : len tl / 2 = len kvs).
    { unfold len. rewrite Ll, (Permutation_length Ps). lia. }
    destruct (forall_good_forallb tl Gl) as [F1 F2].
    split; [cbn [ser]; rewrite Lt, El; reflexivity|].
    assert (Hk : 0 <= len kvs < two64).
    { pose proof (len_nonneg kvs). split; auto. unfold len in *.
      assert (Z.of_nat (length kvs) <= Z.of_nat (length l / 2)) by lia.
      assert (Z.of_nat (length l / 2) <= Z.of_nat (length l)) by (apply inj_le; apply Nat.div_le_upper_bound; lia). lia. }
    split; cbn.
    + rewrite Lt, F1, andb_true_r. rewrite minw_fits by auto. rewrite andb_true_r.
      rewrite Ll. apply Nat.even_spec. exists (length s). lia.
    + rewrite Lt, width_eqb_refl, F2, Kl. reflexivity.
  - (* GTag *) apply andb_true_iff in Hp as [Ht Hc]. cbn [enc] in He.
    destruct (enc kb g) as [bc| | |] eqn:Ec; cbn [bind] in He; try discriminate. inversion He; subst.
    destruct (IHg bc Hc Ec) as (w & -> & Gw & Cw).
    exists (WTag (minw t) t w). split; [reflexivity|].
    split; cbn; [rewrite Gw, andb_true_r; apply minw_fits; lia|rewrite width_eqb_refl, Cw; reflexivity].
  - (* GBStr *) cbn [enc] in He. inversion He; subst. exists (tbstr b). split; [reflexivity|].
    apply andb_true_iff in Hp as [H1 H2]. split; [apply tbstr_wf; split; auto; lia|cbn; apply width_eqb_refl].
  - (* GFloat *) cbn [enc] in He. inversion He; subst. apply andb_true_iff in Hp as [H1 H2].
    destruct (enc_float_ser b) as [(-> & _)|[(-> & _)|[(-> & _)|(-> & _)]]];
      [exists (WSim W2 32256)|exists (WSim W2 31744)|exists (WSim W2 64512)|exists (WSim W8 b)];
      (split; [reflexivity|]); split; try reflexivity.
    cbn [wf sim_ok fits]. unfold two64 in *. lia.
Qed.

(* C08: whatever the encoder returns for such a value parses back to exactly one canonical tree *)
Corollary enc_output_parses kb g b :
  gv_plain g = true -> enc kb g = Acc b -> exists w, parse_full b = Some w /\ canonical w = true.
Proof.
  intros Hp He. destruct (enc_canonical kb g b Hp He) as (w & -> & Hw & Hc). exists w. split; auto. apply parse_full_ser; auto.
Qed.

(* the same for a whole header bucket *)
Corollary enc_hmap_canonical kb l b :
  gv_plain (GMap l) = true -> enc_hmap kb l = Acc b -> exists w, b = ser w /\ wf w = true /\ canonical w = true.
Proof.
  intros Hp He. apply (enc_canonical kb (GMap l) b Hp). exact He.
Qed.

Example canonical_example :
  enc false (GMap [GInt KInt 256; GStr [97]; GInt KInt64 (-1); GArr [GBytes []; GBool true]; GStr []; GInt KUint8 24]) =
  Acc [163; 25; 1; 0; 97; 97; 32; 130; 64; 245; 96; 24; 24]. (* bytewise: 19 01 00 < 20 < 60 *)
Proof. vm_compute. reflexivity. Qed.
