(* SignNoPanic.v — C06 for the operations that follow a decode and produce something: Sign of the three structures,
   Countersign (full and abbreviated), the Sign1 helpers, SignHashEnvelope and VerifyHashEnvelope never reach one of
   Go's panic sites, for every message value, header content, external data and signer answer.  (A signer of the model
   returns bytes, an error, or both; a caller's signer that panics by itself is outside the statement, as the caller's
   verifier is for Verify: vf_total.) *)
From Coq Require Import ZArith List Bool Lia.
From GoCose Require Import Bytes Cbor Res GoVal Fx Headers Enc Dec Msg HashEnv NoPanic MoreProofs.
From GoCose.Gen Require Import Generated.
Import ListNotations.
Open Scope Z_scope.

Lemma alg_of_np p : np (alg_of p).
Proof.
  unfold alg_of, alg_value.
  destruct (nlookup _ _) as [[]|]; try discriminate; try (destruct k); try discriminate;
    try (apply np_if; discriminate); try (destruct (_ <? _); discriminate).
Qed.

Lemma ensure_signing_alg_np h a e : np (ensure_signing_alg h a e).
Proof.
  unfold ensure_signing_alg. pose proof (alg_of_np (hP h)) as N.
  destruct (alg_of (hP h)) as [c|er| |]; try discriminate; try contradiction.
  - destruct (c =? a); discriminate.
  - destruct er; try discriminate. destruct (0 <? glen e); [discriminate|]. destruct (rawP h); discriminate.
Qed.

Theorem sign1_sign_never_panics m ext sg : out_res (sign1_sign m ext sg) <> Panic.
Proof.
  unfold sign1_sign. destruct (s1_payload m) as [pl|]; [|discriminate].
  destruct (0 <? glen (s1_sig m)); [discriminate|].
  pose proof (ensure_signing_alg_np (s1_h m) (sg_alg sg) ext) as N1.
  destruct (ensure_signing_alg (s1_h m) (sg_alg sg) ext) as [h'| | |]; try discriminate; try contradiction.
  pose proof (tbs_sign1_np h' (Some pl) ext) as N2.
  destruct (tbs_sign1 h' (Some pl) ext) as [t| | |]; try discriminate; try contradiction.
  destruct (sg_run sg t); discriminate.
Qed.

Lemma signature_sign_np s sg bp p e : out_res (signature_sign s sg bp p e) <> Panic.
Proof.
  unfold signature_sign. destruct p as [pl|]; [|discriminate].
  destruct (0 <? glen (sg_sig s)); [discriminate|]. destruct (negb (body_protected_ok bp)); [discriminate|].
  pose proof (ensure_signing_alg_np (sg_h s) (sg_alg sg) e) as N1.
  destruct (ensure_signing_alg (sg_h s) (sg_alg sg) e) as [h'| | |]; try discriminate; try contradiction.
  pose proof (tbs_signature_np h' bp (Some pl) e) as N2.
  destruct (tbs_signature h' bp (Some pl) e) as [t| | |]; try discriminate; try contradiction.
  destruct (sg_run sg t); discriminate.
Qed.

(* the loop of SignMessage.Sign, entered with as many signers as signature slots *)
Lemma sign_loop_np : forall sigs sgs bp p e,
  length sigs = length sgs -> fst (fst (sign_loop sigs sgs bp p e)) <> Panic.
Proof.
  induction sigs as [|[s|] sigs IH]; intros sgs bp p e HL; cbn [sign_loop]; try discriminate.
  destruct sgs as [|sg sgs]; [discriminate HL|].
  pose proof (signature_sign_np s sg bp p e) as N.
  destruct (out_res (signature_sign s sg bp p e)) eqn:E; try discriminate; try contradiction.
  specialize (IH sgs bp p e ltac:(cbn in HL; lia)).
  destruct (sign_loop sigs sgs bp p e) as [[r rest'] calls]. exact IH.
Qed.

Theorem signmsg_sign_never_panics m ext sgs : out_res (signmsg_sign m ext sgs) <> Panic.
Proof.
  unfold signmsg_sign. destruct (sm_payload m) as [pl|] eqn:P; [|discriminate].
  destruct (sm_sigs m) as [|s0 rest] eqn:S; [discriminate|].
  destruct (Nat.eqb (length (s0 :: rest)) (length sgs)) eqn:L; cbn [negb]; [|discriminate].
  pose proof (marshal_protected_np (sm_h m)) as N.
  destruct (marshal_protected (sm_h m)) as [bp| | |]; try discriminate; try contradiction.
  pose proof (sign_loop_np (s0 :: rest) sgs bp (Some pl) ext ltac:(apply Nat.eqb_eq; exact L)) as N2.
  destruct (sign_loop (s0 :: rest) sgs bp (Some pl) ext) as [[r sigs'] calls]. exact N2.
Qed.

Theorem csig_sign_never_panics s sg t e : out_res (csig_sign s sg t e) <> Panic.
Proof.
  unfold csig_sign. destruct (0 <? glen (sg_sig s)); [discriminate|].
  pose proof (ensure_signing_alg_np (sg_h s) (sg_alg sg) e) as N1.
  destruct (ensure_signing_alg (sg_h s) (sg_alg sg) e) as [h'| | |]; try discriminate; try contradiction.
  assert (N2 : np (csig_tbs (mkSig h' (sg_sig s)) t e)).
  { unfold csig_tbs. apply np_bind; [apply marshal_protected_np|]. intros; apply countersign_tbs_np. }
  destruct (csig_tbs (mkSig h' (sg_sig s)) t e) as [tb| | |]; try discriminate; try contradiction.
  destruct (sg_run sg tb); discriminate.
Qed.

Theorem countersign0_never_panics sg t e : fst (countersign0 sg t e) <> Panic.
Proof.
  unfold countersign0.
  pose proof (countersign_tbs_np true t abbrev_sign_protected_Countersign0 e) as N.
  destruct (countersign_tbs true t abbrev_sign_protected_Countersign0 e) as [tb| | |]; try discriminate; try contradiction.
  destruct (sg_run sg tb); discriminate.
Qed.

(* cose.Sign1 / cose.Sign1Untagged *)
Theorem helper_sign1_never_panics tagged h p e sg : fst (fst (helper_sign1 tagged h p e sg)) <> Panic.
Proof.
  unfold helper_sign1. pose proof (sign1_sign_never_panics (mkS1 h p None) e sg) as N.
  destruct (out_res (sign1_sign (mkS1 h p None) e sg)); try discriminate; try contradiction. cbn [fst].
  destruct marshal_never_panics as (M1 & M2 & _). destruct tagged; [apply M1|apply M2].
Qed.

Theorem sign_he_never_panics sg h p : fst (sign_he sg h p) <> Panic.
Proof.
  unfold sign_he. destruct (negb (validate_hash (he_alg p) (he_value p))); [discriminate|].
  destruct (negb (validate_he_headers _)); [discriminate|].
  match goal with |- context [helper_sign1 ?a ?b ?c ?d ?e] =>
    pose proof (helper_sign1_never_panics a b c d e) as N; destruct (helper_sign1 a b c d e) as [[r cp] calls] end.
  exact N.
Qed.

Lemma payload_hash_alg_of_np p : np (payload_hash_alg_of p).
Proof.
  unfold payload_hash_alg_of, alg_value.
  destruct (nlookup _ _) as [[]|]; try discriminate; try (destruct k); try discriminate;
    try (apply np_if; discriminate); try (destruct (_ <? _); discriminate).
Qed.

(* VerifyHashEnvelope on arbitrary bytes *)
Theorem verify_he_never_panics vf envelope : vf_total vf -> fst (verify_he vf envelope) <> Panic.
Proof.
  intros Hv. unfold verify_he. pose proof (unmarshal_sign1_never_panics envelope) as N0.
  destruct (unmarshal_sign1 envelope) as [m| | |]; try discriminate; try contradiction.
  destruct (negb (validate_he_headers (s1_h m))); [discriminate|].
  pose proof (sign1_verify_never_panics m None vf Hv) as N1.
  destruct (sign1_verify m None vf) as [r calls]. cbn [fst] in N1.
  destruct r; try discriminate; try contradiction.
  pose proof (payload_hash_alg_of_np (hP (s1_h m))) as N2.
  destruct (payload_hash_alg_of (hP (s1_h m))); try discriminate; try contradiction.
  destruct (validate_hash _ _); discriminate.
Qed.

(* not vacuous: flows that get as far as the key *)
Example sign_flows_reach_the_signer :
  let sg := mkSigner (-7) (fun _ => SOk (Some [1; 2])) in
  let h := mkH None (Some [GInt KInt64 1; GInt KAlg (-7)]) None None in
  out_res (sign1_sign (mkS1 h (Some [112]) None) None sg) = Acc tt /\
  out_res (signmsg_sign (mkSM (mkH None None None None) (Some [112]) [Some (mkSig h None); Some (mkSig h None)]) None [sg; sg]) = Acc tt /\
  out_res (csig_sign (mkSig h None) sg (PSign1 (mkS1 h (Some [112]) (Some [9]))) None) = Acc tt /\
  fst (countersign0 sg (PSign1 (mkS1 h (Some [112]) (Some [9]))) None) = Acc (Some [1; 2]).
Proof. vm_compute. repeat split; reflexivity. Qed.
Print Assumptions verify_he_never_panics.
