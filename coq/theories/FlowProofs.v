(* FlowProofs.v — sign / verify control flow: the algorithm gate (C04), what
   Verify accepts (C03), sign-then-verify (C01), positional all-or-nothing
   COSE_Sign (C11), failing signers (C20). Signers and verifiers are arbitrary
   functions. *)
From Coq Require Import Ascii String ZArith List Lia Bool Arith ZifyBool.
From GoCose Require Import Bytes Cbor Res GoVal Fx Headers Enc Dec Msg.
From GoCose.Gen Require Import Generated.
Import ListNotations.
Open Scope Z_scope.

(* ------------------------------------------------------------------ *)
(* maps                                                                 *)
(* ------------------------------------------------------------------ *)
Lemma key_eqb_lbl n : key_eqb (lbl n) (lbl n) = true.
Proof. unfold lbl. cbn. rewrite Z.eqb_refl. reflexivity. Qed.

Lemma glookup_gset_lbl n v : forall l, glookup (lbl n) (gset (lbl n) v l) = Some v.
Proof.
  fix IH 1. intros [|k [|v' r]].
  - cbn [gset glookup]. rewrite key_eqb_lbl. reflexivity.
  - cbn [gset glookup]. rewrite key_eqb_lbl. reflexivity.
  - cbn [gset]. destruct (key_eqb (lbl n) k) eqn:E.
    + cbn [glookup]. rewrite E. reflexivity.
    + cbn [glookup]. rewrite E. apply IH.
Qed.

Lemma normalize_lbl n : normalize_label (lbl n) = Some (GInt KInt64 (wrap64 n)).
Proof. reflexivity. Qed.

Definition int64_range (n : Z) : Prop := - 9223372036854775808 <= n <= 9223372036854775807.

Lemma wrap64_id n : int64_range n -> wrap64 n = n.
Proof. unfold int64_range, wrap64. intros H. rewrite Z.mod_small; lia. Qed.

Lemma wrap64_idem n : wrap64 (wrap64 n) = wrap64 n.
Proof.
  apply wrap64_id. unfold int64_range, wrap64.
  pose proof (Z.mod_pos_bound (n + 9223372036854775808) 18446744073709551616 ltac:(lia)). lia.
Qed.

Lemma nlookup_set_alg p a : nlookup (lbl c_HeaderLabelAlgorithm) (set_alg p a) = Some (GInt KAlg a).
Proof.
  unfold nlookup, set_alg. rewrite normalize_lbl. rewrite wrap64_id by (unfold int64_range, c_HeaderLabelAlgorithm; lia).
  fold (lbl c_HeaderLabelAlgorithm). rewrite glookup_gset_lbl. reflexivity.
Qed.

Lemma alg_of_set_alg p a : alg_of (Some (set_alg p a)) = Acc a.
Proof. unfold alg_of. cbn [hmap]. rewrite nlookup_set_alg. reflexivity. Qed.

(* ------------------------------------------------------------------ *)
(* C04: the algorithm gate                                              *)
(* ------------------------------------------------------------------ *)
Theorem verification_gate h a ext :
  ensure_verification_alg h a ext = Acc tt <->
  alg_of (hP h) = Acc a \/ (alg_of (hP h) = Rej EAlgNotFound /\ 0 < glen ext).
Proof.
  unfold ensure_verification_alg. destruct (alg_of (hP h)) as [c|e| |] eqn:E.
  - destruct (c =? a) eqn:Ec; split; intros H; try discriminate.
    + left. f_equal. lia.
    + reflexivity.
    + destruct H as [H|[H _]]; [inversion H; lia|discriminate].
  - destruct e; try (split; [discriminate|intros [H|[H _]]; discriminate]).
    destruct (0 <? glen ext) eqn:G; split; intros H; try discriminate; auto.
    + right. split; auto. lia.
    + destruct H as [H|[_ H]]; [discriminate|lia].
  - split; [discriminate|intros [H|[H _]]; discriminate].
  - split; [discriminate|intros [H|[H _]]; discriminate].
Qed.

Theorem verification_mismatch h a a' ext :
  alg_of (hP h) = Acc a' -> a' <> a -> ensure_verification_alg h a ext = Rej EAlgMismatch.
Proof.
  intros H Hn. unfold ensure_verification_alg. rewrite H.
  destruct (a' =? a) eqn:E; [lia|reflexivity].
Qed.

Theorem verification_absent h a ext :
  alg_of (hP h) = Rej EAlgNotFound -> glen ext = 0 -> ensure_verification_alg h a ext = Rej EAlgNotFound.
Proof. intros H G. unfold ensure_verification_alg. rewrite H, G. reflexivity. Qed.

Theorem signing_mismatch h a a' ext :
  alg_of (hP h) = Acc a' -> a' <> a -> ensure_signing_alg h a ext = Rej EAlgMismatch.
Proof.
  intros H Hn. unfold ensure_signing_alg. rewrite H.
  destruct (a' =? a) eqn:E; [lia|reflexivity].
Qed.

(* what a successful gate guarantees about the headers that get signed *)
Theorem signing_gate h a ext h' :
  ensure_signing_alg h a ext = Acc h' ->
  (alg_of (hP h) = Acc a /\ h' = h) \/
  (alg_of (hP h) = Rej EAlgNotFound /\ 0 < glen ext /\ h' = h) \/
  (alg_of (hP h) = Rej EAlgNotFound /\ glen ext = 0 /\ rawP h = None /\
   alg_of (hP h') = Acc a /\ rawP h' = None /\ rawU h' = rawU h /\ hU h' = hU h).
Proof.
  unfold ensure_signing_alg. destruct (alg_of (hP h)) as [c|e| |] eqn:E; try discriminate.
  - destruct (c =? a) eqn:Ec; [|discriminate]. intros H; inversion H; subst. left. split; auto. f_equal. lia.
  - destruct e; try discriminate.
    destruct (0 <? glen ext) eqn:G.
    + intros H; inversion H; subst. right; left. repeat split; auto. lia.
    + destruct (rawP h) eqn:R; [discriminate|]. intros H; inversion H; subst.
      right; right. cbn [hP rawP rawU hU]. rewrite alg_of_set_alg.
      pose proof (len_nonneg (gor ext)). repeat split; auto.
      unfold glen in *. destruct ext; [pose proof (len_nonneg b)|]; lia.
Qed.

(* signing never proceeds past the gate with a protected alg other than the signer's *)
Corollary signing_gate_alg h a ext h' :
  ensure_signing_alg h a ext = Acc h' ->
  alg_of (hP h') = Acc a \/ (alg_of (hP h') = Rej EAlgNotFound /\ 0 < glen ext).
Proof.
  intros H. apply signing_gate in H as [[H1 ->]|[(H1 & H2 & ->)|(H1 & H2 & H3 & H4 & _)]]; auto.
Qed.

(* whoever passes the signing gate passes the verification gate *)
Lemma signing_then_verification h a ext h' :
  ensure_signing_alg h a ext = Acc h' -> ensure_verification_alg h' a ext = Acc tt.
Proof. intros H. apply verification_gate. apply signing_gate_alg in H. exact H. Qed.

(* ------------------------------------------------------------------ *)
(* COSE_Sign1                                                            *)
(* ------------------------------------------------------------------ *)
Theorem sign1_verify_iff m ext vf :
  fst (sign1_verify m ext vf) = Acc tt <->
  (exists pl, s1_payload m = Some pl) /\ glen (s1_sig m) <> 0 /\
  ensure_verification_alg (s1_h m) (vf_alg vf) ext = Acc tt /\
  exists t, tbs_sign1 (s1_h m) (s1_payload m) ext = Acc t /\ vf_run vf t (s1_sig m) = Acc tt.
Proof.
  unfold sign1_verify. destruct (s1_payload m) as [pl|] eqn:P.
  2:{ cbn. split; [discriminate|intros [[pl' H] _]; discriminate]. }
  destruct (glen (s1_sig m) =? 0) eqn:G.
  { cbn. split; [discriminate|]. intros (_ & H & _). lia. }
  destruct (ensure_verification_alg (s1_h m) (vf_alg vf) ext) as [[]|e| |] eqn:V;
    try (cbn; split; [discriminate|intros (_ & _ & H & _); discriminate]).
  destruct (tbs_sign1 (s1_h m) (Some pl) ext) as [t|e| |] eqn:T;
    try (cbn; split; [discriminate|intros (_ & _ & _ & t' & H & _); discriminate]).
  cbn [fst]. split.
  - intros H. split; [eauto|]. split; [lia|]. split; auto. exists t. auto.
  - intros (_ & _ & _ & t' & Ht & Hr). inversion Ht; subst. exact Hr.
Qed.

(* the verifier is consulted only after every check passed, exactly once, with the to-be-signed bytes *)
Theorem sign1_verify_calls m ext vf :
  snd (sign1_verify m ext vf) = [] \/
  exists t, snd (sign1_verify m ext vf) = [(t, s1_sig m)] /\
            tbs_sign1 (s1_h m) (s1_payload m) ext = Acc t /\
            ensure_verification_alg (s1_h m) (vf_alg vf) ext = Acc tt /\ glen (s1_sig m) <> 0.
Proof.
  unfold sign1_verify. destruct (s1_payload m) as [pl|]; [|left; reflexivity].
  destruct (glen (s1_sig m) =? 0) eqn:G; [left; reflexivity|].
  destruct (ensure_verification_alg (s1_h m) (vf_alg vf) ext) as [[]|e| |]; try (left; reflexivity).
  destruct (tbs_sign1 (s1_h m) (Some pl) ext) as [t|e| |]; try (left; reflexivity).
  right. exists t. cbn. repeat split; auto. lia.
Qed.

(* every way Sign can end *)
Theorem sign1_sign_cases m ext sg :
  let o := sign1_sign m ext sg in
  (out_res o = Acc tt /\ exists h' t s pl,
      s1_payload m = Some pl /\ glen (s1_sig m) = 0 /\
      ensure_signing_alg (s1_h m) (sg_alg sg) ext = Acc h' /\
      tbs_sign1 h' (s1_payload m) ext = Acc t /\ sg_run sg t = SOk s /\
      out_post o = mkS1 h' (s1_payload m) s /\ out_calls o = [t]) \/
  (out_res o <> Acc tt /\ s1_sig (out_post o) = s1_sig m /\ s1_payload (out_post o) = s1_payload m).
Proof.
  cbv zeta. unfold sign1_sign. destruct (s1_payload m) as [pl|] eqn:P.
  2:{ right. cbn. rewrite P. repeat split; auto; discriminate. }
  destruct (0 <? glen (s1_sig m)) eqn:G.
  { right. cbn. rewrite P. repeat split; auto; discriminate. }
  destruct (ensure_signing_alg (s1_h m) (sg_alg sg) ext) as [h'|e| |] eqn:E;
    try (right; cbn; rewrite P; repeat split; auto; discriminate).
  destruct (tbs_sign1 h' (Some pl) ext) as [t|e| |] eqn:T;
    try (right; cbn; repeat split; auto; discriminate).
  destruct (sg_run sg t) as [s| |s] eqn:R.
  - left. cbn. split; auto. exists h', t, s, pl. repeat split; auto.
    pose proof (len_nonneg (gor (s1_sig m))). unfold glen in *. destruct (s1_sig m); [pose proof (len_nonneg b)|]; lia.
  - right. cbn. repeat split; auto; discriminate.
  - right. cbn. repeat split; auto; discriminate.
Qed.

(* C01, in memory: what Sign produced verifies with a verifier that accepts the signer's output *)
Definition accepts (vf : verifier) (sg : signer) : Prop :=
  vf_alg vf = sg_alg sg /\ forall t s, sg_run sg t = SOk s -> vf_run vf t s = Acc tt.

Theorem sign1_sign_then_verify m ext sg vf :
  accepts vf sg ->
  out_res (sign1_sign m ext sg) = Acc tt ->
  glen (s1_sig (out_post (sign1_sign m ext sg))) <> 0 ->
  fst (sign1_verify (out_post (sign1_sign m ext sg)) ext vf) = Acc tt.
Proof.
  intros [Ha Hv] Hok Hne.
  destruct (sign1_sign_cases m ext sg) as [(_ & h' & t & s & pl & P & G & E & T & R & Post & _)|(Hbad & _)]; [|contradiction].
  rewrite Post in *. apply sign1_verify_iff. cbn [s1_payload s1_sig s1_h] in *.
  split; [rewrite P; eauto|]. split; [exact Hne|]. split.
  - rewrite Ha. eapply signing_then_verification; eauto.
  - exists t. split; auto.
Qed.

(* C20: a failing signer leaves no signature behind, and an unsigned message cannot be encoded *)
Theorem sign1_failure_stores_nothing m ext sg :
  out_res (sign1_sign m ext sg) <> Acc tt ->
  s1_sig (out_post (sign1_sign m ext sg)) = s1_sig m.
Proof.
  intros H. destruct (sign1_sign_cases m ext sg) as [(Hok & _)|(_ & Hs & _)]; [contradiction|exact Hs].
Qed.

Theorem sign1_signer_error_propagates m ext sg t :
  out_calls (sign1_sign m ext sg) = [t] -> (forall s, sg_run sg t <> SOk s) ->
  out_res (sign1_sign m ext sg) = Rej ESigner.
Proof.
  unfold sign1_sign. destruct (s1_payload m) as [pl|]; [|discriminate].
  destruct (0 <? glen (s1_sig m)); [discriminate|].
  destruct (ensure_signing_alg (s1_h m) (sg_alg sg) ext) as [h'|e| |]; try discriminate.
  destruct (tbs_sign1 h' (Some pl) ext) as [t'|e| |]; try discriminate.
  destruct (sg_run sg t') eqn:R; cbn; intros H Hn; inversion H; subst; auto.
  exfalso. exact (Hn _ R).
Qed.

Theorem sign1_unsigned_not_encodable m :
  glen (s1_sig m) = 0 -> marshal_sign1 m = Rej EEmptySig /\ marshal_sign1_untagged m = Rej EEmptySig.
Proof.
  intros H. unfold marshal_sign1, marshal_sign1_untagged, sign1_content. rewrite H. cbn. auto.
Qed.

Theorem sign1_encoded_has_signature m b (tagged : bool) :
  (if tagged then marshal_sign1 m else marshal_sign1_untagged m) = Acc b -> glen (s1_sig m) <> 0.
Proof.
  intros H G. destruct (sign1_unsigned_not_encodable m G) as [A B]. destruct tagged; congruence.
Qed.

(* the Sign1 helpers return no bytes unless signing succeeded with a non-empty signature *)
Theorem helper_sign1_bytes tagged h payload ext sg b :
  fst (fst (helper_sign1 tagged h payload ext sg)) = Acc b ->
  out_res (sign1_sign (mkS1 h payload None) ext sg) = Acc tt /\
  glen (s1_sig (out_post (sign1_sign (mkS1 h payload None) ext sg))) <> 0.
Proof.
  unfold helper_sign1. destruct (out_res (sign1_sign (mkS1 h payload None) ext sg)) as [[]|e| |] eqn:R;
    cbn [fst]; try discriminate.
  intros H. split; auto. eapply sign1_encoded_has_signature; eauto.
Qed.

(* ------------------------------------------------------------------ *)
(* COSE_Signature                                                        *)
(* ------------------------------------------------------------------ *)
Theorem signature_verify_iff s vf bp payload ext :
  fst (signature_verify s vf bp payload ext) = Acc tt <->
  (exists pl, payload = Some pl) /\ glen (sg_sig s) <> 0 /\ body_protected_ok bp = true /\
  ensure_verification_alg (sg_h s) (vf_alg vf) ext = Acc tt /\
  exists t, tbs_signature (sg_h s) bp payload ext = Acc t /\ vf_run vf t (sg_sig s) = Acc tt.
Proof.
  unfold signature_verify. destruct payload as [pl|].
  2:{ cbn. split; [discriminate|intros [[pl' H] _]; discriminate]. }
  destruct (glen (sg_sig s) =? 0) eqn:G.
  { cbn. split; [discriminate|]. intros (_ & H & _). lia. }
  destruct (body_protected_ok bp) eqn:B.
  2:{ cbn. split; [discriminate|]. intros (_ & _ & H & _). discriminate. }
  cbn [negb].
  destruct (ensure_verification_alg (sg_h s) (vf_alg vf) ext) as [[]|e| |] eqn:V;
    try (cbn; split; [discriminate|intros (_ & _ & _ & H & _); discriminate]).
  destruct (tbs_signature (sg_h s) bp (Some pl) ext) as [t|e| |] eqn:T;
    try (cbn; split; [discriminate|intros (_ & _ & _ & _ & t' & H & _); discriminate]).
  cbn [fst]. split.
  - intros H. split; [eauto|]. split; [lia|]. split; auto. split; auto. exists t. auto.
  - intros (_ & _ & _ & _ & t' & Ht & Hr). inversion Ht; subst. exact Hr.
Qed.

Theorem signature_sign_cases s sg bp payload ext :
  let o := signature_sign s sg bp payload ext in
  (out_res o = Acc tt /\ exists h' t sig,
      payload <> None /\ glen (sg_sig s) = 0 /\ body_protected_ok bp = true /\
      ensure_signing_alg (sg_h s) (sg_alg sg) ext = Acc h' /\
      tbs_signature h' bp payload ext = Acc t /\ sg_run sg t = SOk sig /\
      out_post o = mkSig h' sig /\ out_calls o = [t]) \/
  (out_res o <> Acc tt /\ sg_sig (out_post o) = sg_sig s).
Proof.
  cbv zeta. unfold signature_sign. destruct payload as [pl|].
  2:{ right. cbn. split; auto; discriminate. }
  destruct (0 <? glen (sg_sig s)) eqn:G.
  { right. cbn. split; auto; discriminate. }
  destruct (body_protected_ok bp) eqn:B; cbn [negb].
  2:{ right. cbn. split; auto; discriminate. }
  destruct (ensure_signing_alg (sg_h s) (sg_alg sg) ext) as [h'|e| |] eqn:E;
    try (right; cbn; split; auto; discriminate).
  destruct (tbs_signature h' bp (Some pl) ext) as [t|e| |] eqn:T;
    try (right; cbn; split; auto; discriminate).
  destruct (sg_run sg t) as [sig| |sig] eqn:R.
  - left. cbn. split; auto. exists h', t, sig. repeat split; auto; try discriminate.
    unfold glen in *. destruct (sg_sig s); [pose proof (len_nonneg b)|]; lia.
  - right. cbn. split; auto; discriminate.
  - right. cbn. split; auto; discriminate.
Qed.

Theorem signature_sign_then_verify s sg vf bp payload ext :
  accepts vf sg ->
  out_res (signature_sign s sg bp payload ext) = Acc tt ->
  glen (sg_sig (out_post (signature_sign s sg bp payload ext))) <> 0 ->
  fst (signature_verify (out_post (signature_sign s sg bp payload ext)) vf bp payload ext) = Acc tt.
Proof.
  intros [Ha Hv] Hok Hne.
  destruct (signature_sign_cases s sg bp payload ext) as [(_ & h' & t & sig & P & G & B & E & T & R & Post & _)|(Hbad & _)]; [|contradiction].
  rewrite Post in *. apply signature_verify_iff. cbn [sg_sig sg_h] in *.
  split; [destruct payload; [eauto|contradiction]|]. split; [exact Hne|]. split; auto. split.
  - rewrite Ha. eapply signing_then_verification; eauto.
  - exists t. split; auto.
Qed.

(* ------------------------------------------------------------------ *)
(* COSE_Sign: positional, all-or-nothing (C11), failing signers (C20)    *)
(* ------------------------------------------------------------------ *)
Definition sig_ok (bp : bytes) (payload ext : gobytes) (s : option sigv) (vf : verifier) : Prop :=
  exists s', s = Some s' /\ fst (signature_verify s' vf bp payload ext) = Acc tt.

Theorem verify_loop_iff bp payload ext : forall sigs vfs,
  length sigs = length vfs ->
  (fst (verify_loop sigs vfs bp payload ext) = Acc tt <-> Forall2 (sig_ok bp payload ext) sigs vfs).
Proof.
  induction sigs as [|s sigs IH]; intros [|vf vfs] Hl; try discriminate.
  - cbn. split; auto.
  - cbn [verify_loop]. destruct s as [s|].
    2:{ cbn. split; [discriminate|]. intros H. inversion H; subst. destruct H3 as (s' & E & _). discriminate. }
    destruct (signature_verify s vf bp payload ext) as [r calls] eqn:V.
    destruct r as [[]|e| |].
    + destruct (verify_loop sigs vfs bp payload ext) as [r' calls'] eqn:L. cbn [fst].
      specialize (IH vfs ltac:(cbn in Hl; lia)). rewrite L in IH. cbn [fst] in IH.
      split.
      * intros H. constructor; [exists s; split; auto; rewrite V; reflexivity|]. apply IH. exact H.
      * intros H. inversion H; subst. apply IH. assumption.
    + cbn. split; [discriminate|]. intros H. inversion H; subst. destruct H3 as (s' & E & Hs).
      inversion E; subst. rewrite V in Hs. discriminate.
    + cbn. split; [discriminate|]. intros H. inversion H; subst. destruct H3 as (s' & E & Hs).
      inversion E; subst. rewrite V in Hs. discriminate.
    + cbn. split; [discriminate|]. intros H. inversion H; subst. destruct H3 as (s' & E & Hs).
      inversion E; subst. rewrite V in Hs. discriminate.
Qed.

Theorem signmsg_verify_iff m ext vfs :
  fst (signmsg_verify m ext vfs) = Acc tt <->
  (exists pl, sm_payload m = Some pl) /\ sm_sigs m <> [] /\ length (sm_sigs m) = length vfs /\
  exists bp, marshal_protected (sm_h m) = Acc bp /\ Forall2 (sig_ok bp (sm_payload m) ext) (sm_sigs m) vfs.
Proof.
  unfold signmsg_verify. destruct (sm_payload m) as [pl|] eqn:P.
  2:{ cbn. split; [discriminate|intros [[pl' H] _]; discriminate]. }
  destruct (sm_sigs m) as [|s0 rest] eqn:S.
  { cbn. split; [discriminate|]. intros (_ & H & _). contradiction. }
  rewrite <- S.
  destruct (Nat.eqb (length (sm_sigs m)) (length vfs)) eqn:L; cbn [negb].
  2:{ cbn. split; [discriminate|]. intros (_ & _ & H & _). apply Nat.eqb_neq in L. contradiction. }
  apply Nat.eqb_eq in L.
  destruct (marshal_protected (sm_h m)) as [bp|e| |] eqn:M;
    try (cbn; split; [discriminate|intros (_ & _ & _ & bp' & H & _); discriminate]).
  rewrite (verify_loop_iff bp (Some pl) ext _ _ L). split.
  - intros H. split; [eauto|]. split; [rewrite S; discriminate|]. split; auto. exists bp. auto.
  - intros (_ & _ & _ & bp' & Hb & H). inversion Hb; subst. exact H.
Qed.

(* the first failing position decides the result *)
Theorem verify_loop_first_error bp payload ext : forall pre vpre s vf post vpost,
  Forall2 (sig_ok bp payload ext) pre vpre ->
  fst (signature_verify s vf bp payload ext) <> Acc tt ->
  fst (verify_loop (pre ++ Some s :: post) (vpre ++ vf :: vpost) bp payload ext) =
  fst (signature_verify s vf bp payload ext).
Proof.
  induction pre as [|p pre IH]; intros vpre s vf post vpost HF Hn.
  - inversion HF; subst. cbn [app verify_loop].
    destruct (signature_verify s vf bp payload ext) as [r' calls]. cbn [fst] in *.
    destruct r' as [[]|e| |]; try reflexivity. contradiction.
  - inversion HF as [|p0 y pre0 l' Hp HF']; subst. destruct Hp as (p' & -> & Hp). cbn [app verify_loop].
    destruct (signature_verify p' y bp payload ext) as [r' calls] eqn:V. cbn [fst] in Hp. subst r'.
    specialize (IH l' s vf post vpost HF' Hn).
    destruct (verify_loop (pre ++ Some s :: post) (l' ++ vf :: vpost) bp payload ext) as [r'' c'']. cbn [fst] in *. exact IH.
Qed.

(* signing: success means every slot was signed by the signer at its position *)
Definition slot_signed (bp : bytes) (payload ext : gobytes) (s : option sigv) (sg : signer) (s' : option sigv) : Prop :=
  exists a, s = Some a /\ out_res (signature_sign a sg bp payload ext) = Acc tt /\
            s' = Some (out_post (signature_sign a sg bp payload ext)).

Theorem sign_loop_success bp payload ext : forall sigs sgs sigs' calls,
  length sigs = length sgs ->
  sign_loop sigs sgs bp payload ext = (Acc tt, sigs', calls) ->
  length sigs' = length sigs /\
  forall i s sg, nth_error sigs i = Some s -> nth_error sgs i = Some sg ->
                 exists s', nth_error sigs' i = Some s' /\ slot_signed bp payload ext s sg s'.
Proof.
  induction sigs as [|s sigs IH]; intros [|sg sgs] sigs' calls Hl; try discriminate.
  - cbn. intros H; inversion H; subst. split; auto. intros [|i]; discriminate.
  - cbn [sign_loop]. destruct s as [a|]; [|discriminate].
    destruct (out_res (signature_sign a sg bp payload ext)) as [[]|e| |] eqn:R; try discriminate.
    destruct (sign_loop sigs sgs bp payload ext) as [[r rest'] calls'] eqn:L.
    intros H; inversion H; subst.
    destruct (IH sgs rest' calls' ltac:(cbn in Hl; lia) L) as [Hlen Hnth]. split; [cbn; lia|].
    intros [|i] s0 sg0; cbn [nth_error].
    + intros E1 E2; inversion E1; inversion E2; subst. eexists; split; [reflexivity|]. exists a. auto.
    + intros E1 E2. apply (Hnth i s0 sg0 E1 E2).
Qed.

(* signing: the first failing signer stops the loop; its slot and all later slots are untouched *)
Theorem sign_loop_failure bp payload ext : forall pre sgpre a sg post sgpost,
  length pre = length sgpre ->
  (forall i s g, nth_error pre i = Some s -> nth_error sgpre i = Some g ->
                 exists b, s = Some b /\ out_res (signature_sign b g bp payload ext) = Acc tt) ->
  out_res (signature_sign a sg bp payload ext) <> Acc tt ->
  exists pre' calls,
    sign_loop (pre ++ Some a :: post) (sgpre ++ sg :: sgpost) bp payload ext =
      (out_res (signature_sign a sg bp payload ext),
       pre' ++ Some (out_post (signature_sign a sg bp payload ext)) :: post, calls) /\
    length pre' = length pre /\
    sg_sig (out_post (signature_sign a sg bp payload ext)) = sg_sig a.
Proof.
  induction pre as [|p pre IH]; intros [|g sgpre] a sg post sgpost Hl Hpre Hbad; try discriminate.
  - cbn [app sign_loop]. exists [], (out_calls (signature_sign a sg bp payload ext)).
    destruct (signature_sign_cases a sg bp payload ext) as [(Hok & _)|(_ & Hs)]; [contradiction|].
    destruct (out_res (signature_sign a sg bp payload ext)) as [[]|e| |] eqn:R; try contradiction; cbn; auto.
  - destruct (Hpre 0%nat p g eq_refl eq_refl) as (b & -> & Hb).
    cbn [app sign_loop]. rewrite Hb.
    destruct (IH sgpre a sg post sgpost ltac:(cbn in Hl; lia)
                 (fun i s g' E1 E2 => Hpre (S i) s g' E1 E2) Hbad) as (pre' & calls & E & Hlen & Hs).
    rewrite E. eexists (Some (out_post (signature_sign b g bp payload ext)) :: pre'), _.
    split; [reflexivity|]. split; [cbn; lia|exact Hs].
Qed.

(* a COSE_Sign with no signature, a nil slot or an empty signature cannot be encoded *)
Theorem signmsg_empty_slot_not_encodable m :
  (sm_sigs m = [] \/ In None (sm_sigs m) \/ exists s, In (Some s) (sm_sigs m) /\ glen (sg_sig s) = 0) ->
  forall b, marshal_signmsg m <> Acc b.
Proof.
  intros H b. unfold marshal_signmsg. destruct (sm_sigs m) as [|s0 rest] eqn:S.
  { discriminate. }
  destruct H as [H|H]; [discriminate|].
  destruct (headers_marshal (sm_h m)) as [pu|e| |]; cbn [bind]; try discriminate.
  assert (Hm : forall l, (In None l \/ exists s, In (Some s) l /\ glen (sg_sig s) = 0) ->
                         forall ss, mapM marshal_opt_signature l <> Acc ss).
  { induction l as [|x l IHl]; intros Hx ss.
    - destruct Hx as [[]|[s [[] _]]].
    - cbn [mapM]. destruct x as [x|].
      + cbn [marshal_opt_signature]. destruct (marshal_signature x) as [bx|e| |] eqn:Mx; cbn [bind]; try discriminate.
        assert (Hl : In None l \/ exists s, In (Some s) l /\ glen (sg_sig s) = 0).
        { destruct Hx as [[Hx|Hx]|[s [[Hx|Hx] Hs]]]; [discriminate|auto| |right; eauto].
          inversion Hx; subst. unfold marshal_signature in Mx. rewrite Hs in Mx. discriminate. }
        destruct (mapM marshal_opt_signature l) as [bs|e| |] eqn:Ml; cbn [bind]; try discriminate.
        exfalso. exact (IHl Hl bs eq_refl).
      + cbn. discriminate. }
  destruct (mapM marshal_opt_signature (s0 :: rest)) as [ss|e| |] eqn:Mss; cbn [bind]; try discriminate.
  exfalso. exact (Hm _ H ss Mss).
Qed.

Theorem signmsg_no_signatures_errors m :
  sm_sigs m = [] -> marshal_signmsg m = Rej ENoSigs.
Proof. intros H. unfold marshal_signmsg. rewrite H. reflexivity. Qed.

(* ------------------------------------------------------------------ *)
(* countersignatures                                                    *)
(* ------------------------------------------------------------------ *)
Theorem csig_verify_iff s vf target ext :
  fst (csig_verify s vf target ext) = Acc tt <->
  glen (sg_sig s) <> 0 /\ ensure_verification_alg (sg_h s) (vf_alg vf) ext = Acc tt /\
  exists t, csig_tbs s target ext = Acc t /\ vf_run vf t (sg_sig s) = Acc tt.
Proof.
  unfold csig_verify. destruct (glen (sg_sig s) =? 0) eqn:G.
  { cbn. split; [discriminate|]. intros (H & _). lia. }
  destruct (ensure_verification_alg (sg_h s) (vf_alg vf) ext) as [[]|e| |] eqn:V;
    try (cbn; split; [discriminate|intros (_ & H & _); discriminate]).
  destruct (csig_tbs s target ext) as [t|e| |] eqn:T;
    try (cbn; split; [discriminate|intros (_ & _ & t' & H & _); discriminate]).
  cbn [fst]. split.
  - intros H. split; [lia|]. split; auto. exists t. auto.
  - intros (_ & _ & t' & Ht & Hr). inversion Ht; subst. exact Hr.
Qed.

Theorem csig_sign_cases s sg target ext :
  let o := csig_sign s sg target ext in
  (out_res o = Acc tt /\ exists h' t sig,
      glen (sg_sig s) = 0 /\ ensure_signing_alg (sg_h s) (sg_alg sg) ext = Acc h' /\
      csig_tbs (mkSig h' (sg_sig s)) target ext = Acc t /\ sg_run sg t = SOk sig /\
      out_post o = mkSig h' sig /\ out_calls o = [t]) \/
  (out_res o <> Acc tt /\ sg_sig (out_post o) = sg_sig s).
Proof.
  cbv zeta. unfold csig_sign. destruct (0 <? glen (sg_sig s)) eqn:G.
  { right. cbn. split; auto; discriminate. }
  destruct (ensure_signing_alg (sg_h s) (sg_alg sg) ext) as [h'|e| |] eqn:E;
    try (right; cbn; split; auto; discriminate).
  destruct (csig_tbs (mkSig h' (sg_sig s)) target ext) as [t|e| |] eqn:T;
    try (right; cbn; split; auto; discriminate).
  destruct (sg_run sg t) as [sig| |sig] eqn:R.
  - left. cbn. split; auto. exists h', t, sig. repeat split; auto.
    unfold glen in *. destruct (sg_sig s); [pose proof (len_nonneg b)|]; lia.
  - right. cbn. split; auto; discriminate.
  - right. cbn. split; auto; discriminate.
Qed.

Theorem csig_sign_then_verify s sg vf target ext :
  accepts vf sg ->
  out_res (csig_sign s sg target ext) = Acc tt ->
  glen (sg_sig (out_post (csig_sign s sg target ext))) <> 0 ->
  fst (csig_verify (out_post (csig_sign s sg target ext)) vf target ext) = Acc tt.
Proof.
  intros [Ha Hv] Hok Hne.
  destruct (csig_sign_cases s sg target ext) as [(_ & h' & t & sig & G & E & T & R & Post & _)|(Hbad & _)]; [|contradiction].
  rewrite Post in *. apply csig_verify_iff. cbn [sg_sig sg_h] in *.
  split; [exact Hne|]. split.
  - rewrite Ha. eapply signing_then_verification; eauto.
  - exists t. split; auto.
Qed.

Theorem countersign0_then_verify sg vf target ext s :
  accepts vf sg ->
  fst (countersign0 sg target ext) = Acc s ->
  fst (verify_countersign0 vf target ext s) = Acc tt.
Proof.
  intros [Ha Hv]. unfold countersign0, verify_countersign0.
  replace abbrev_sign_protected_VerifyCountersign0 with abbrev_sign_protected_Countersign0 by reflexivity.
  destruct (countersign_tbs true target abbrev_sign_protected_Countersign0 ext) as [t|e| |]; cbn [fst]; try discriminate.
  destruct (sg_run sg t) as [s'| |s'] eqn:R; cbn [fst]; try discriminate.
  intros H; inversion H; subst. apply Hv. exact R.
Qed.

(* the cast of the decoded alg value to type Algorithm does not change which algorithm is consulted *)
Lemma alg_of_cast_alg m : alg_of (Some (Dec.cast_alg m)) = alg_of (Some m).
Proof.
  unfold Dec.cast_alg. destruct (alg_of (Some m)) as [a| | |] eqn:E; auto.
  rewrite alg_of_set_alg. reflexivity.
Qed.
