(* CborProofs.v — parse/ser are mutually inverse on well-formed trees. *)
From Coq Require Import Ascii String ZArith List Lia Bool Arith ZifyBool.
From GoCose Require Import Bytes Cbor.
Import ListNotations.
Open Scope Z_scope.

Ltac Zify.zify_post_hook ::= Z.div_mod_to_equations.

(* ---------- take ---------- *)
Lemma take_app s r : bytes_ok s = true -> take (length s) (s ++ r) = Some (s, r).
Proof.
  intros H. unfold take. rewrite app_length.
  replace (length s <=? length s + length r)%nat with true by (symmetry; apply Nat.leb_le; lia).
  rewrite firstn_app, Nat.sub_diag, firstn_all. cbn [firstn]. rewrite app_nil_r, H.
  rewrite skipn_app, Nat.sub_diag, skipn_all. reflexivity.
Qed.

Lemma take_inv k b s r : take k b = Some (s, r) -> b = s ++ r /\ length s = k /\ bytes_ok s = true.
Proof.
  unfold take. destruct (k <=? length b)%nat eqn:E; [|discriminate].
  destruct (bytes_ok (firstn k b)) eqn:Ok; [|discriminate].
  intros H. inversion H; subst. apply Nat.leb_le in E.
  split; [symmetry; apply firstn_skipn|]. split; auto. rewrite firstn_length. lia.
Qed.

(* ---------- heads ---------- *)
Lemma fits_bound w n : fits w n = true -> 0 <= n < 256 ^ Z.of_nat (wlen w) \/ (w = W0 /\ 0 <= n < 24).
Proof.
  destruct w; cbn; rewrite andb_true_iff, Z.leb_le, Z.ltb_lt; intros; try (left; lia). right; split; auto.
Qed.

Lemma width_of_ai_ai w n : fits w n = true -> width_of_ai (ai_of w n) = Some w.
Proof.
  destruct w; cbn; intros H; try reflexivity.
  apply andb_true_iff in H as [H1 H2]. unfold width_of_ai. rewrite H2. reflexivity.
Qed.

Lemma parse_head_head m w n r :
  0 <= m < 8 -> fits w n = true -> parse_head (head m w n ++ r) = Some (m, w, n, r).
Proof.
  intros Hm Hf. unfold head. cbn [app parse_head].
  assert (Hai : 0 <= ai_of w n < 32).
  { destruct w; cbn in *; lia. }
  assert (Hb : byte_ok (m * 32 + ai_of w n) = true) by (apply byte_ok_iff; lia).
  rewrite Hb.
  replace ((m * 32 + ai_of w n) / 32) with m by lia.
  replace ((m * 32 + ai_of w n) mod 32) with (ai_of w n) by lia.
  rewrite (width_of_ai_ai _ _ Hf).
  destruct w.
  - cbn. reflexivity.
  - pose proof (take_app (be_enc (wlen W1) n) r (be_enc_ok _ _)) as T.
    rewrite be_enc_length in T. rewrite T. rewrite be_dec_enc; auto.
    cbn in *. lia.
  - pose proof (take_app (be_enc (wlen W2) n) r (be_enc_ok _ _)) as T.
    rewrite be_enc_length in T. rewrite T. rewrite be_dec_enc; auto.
    cbn in *. lia.
  - pose proof (take_app (be_enc (wlen W4) n) r (be_enc_ok _ _)) as T.
    rewrite be_enc_length in T. rewrite T. rewrite be_dec_enc; auto.
    cbn in *. lia.
  - pose proof (take_app (be_enc (wlen W8) n) r (be_enc_ok _ _)) as T.
    rewrite be_enc_length in T. rewrite T. rewrite be_dec_enc; auto.
    cbn in *. lia.
Qed.

Lemma width_of_ai_inv ai w : width_of_ai ai = Some w ->
  match w with W0 => ai < 24 | W1 => ai = 24 | W2 => ai = 25 | W4 => ai = 26 | W8 => ai = 27 end.
Proof.
  unfold width_of_ai.
  destruct (ai <? 24) eqn:E0; [intros H; inversion H; subst; apply Z.ltb_lt; auto|].
  destruct (ai =? 24) eqn:E1; [intros H; inversion H; subst; apply Z.eqb_eq; auto|].
  destruct (ai =? 25) eqn:E2; [intros H; inversion H; subst; apply Z.eqb_eq; auto|].
  destruct (ai =? 26) eqn:E3; [intros H; inversion H; subst; apply Z.eqb_eq; auto|].
  destruct (ai =? 27) eqn:E4; [intros H; inversion H; subst; apply Z.eqb_eq; auto|].
  discriminate.
Qed.

Lemma parse_head_inv b m w v r :
  parse_head b = Some (m, w, v, r) ->
  b = head m w v ++ r /\ fits w v = true /\ 0 <= m < 8.
Proof.
  unfold parse_head. destruct b as [|i b']; [discriminate|].
  destruct (byte_ok i) eqn:Hi; [|discriminate]. apply byte_ok_iff in Hi.
  destruct (width_of_ai (i mod 32)) as [w'|] eqn:Hw; [|discriminate].
  pose proof (width_of_ai_inv _ _ Hw) as Hai.
  destruct w'.
  - intros H; inversion H; subst. unfold head. cbn [ai_of wlen be_enc app].
    split; [f_equal; lia|]. split; [|lia]. cbn. apply andb_true_iff. rewrite Z.leb_le, Z.ltb_lt. lia.
  - destruct (take (wlen W1) b') as [[a r']|] eqn:T; [|discriminate].
    intros H; inversion H; subst. apply take_inv in T as (-> & Hl & Hok).
    unfold head. cbn [ai_of]. rewrite <- Hl, be_enc_dec_snoc by auto. cbn [app].
    split; [f_equal; lia|]. split; [|lia].
    pose proof (be_dec_bound a Hok) as B. unfold len in B. rewrite Hl in B. cbn in *. lia.
  - destruct (take (wlen W2) b') as [[a r']|] eqn:T; [|discriminate].
    intros H; inversion H; subst. apply take_inv in T as (-> & Hl & Hok).
    unfold head. cbn [ai_of]. rewrite <- Hl, be_enc_dec_snoc by auto. cbn [app].
    split; [f_equal; lia|]. split; [|lia].
    pose proof (be_dec_bound a Hok) as B. unfold len in B. rewrite Hl in B. cbn in *. lia.
  - destruct (take (wlen W4) b') as [[a r']|] eqn:T; [|discriminate].
    intros H; inversion H; subst. apply take_inv in T as (-> & Hl & Hok).
    unfold head. cbn [ai_of]. rewrite <- Hl, be_enc_dec_snoc by auto. cbn [app].
    split; [f_equal; lia|]. split; [|lia].
    pose proof (be_dec_bound a Hok) as B. unfold len in B. rewrite Hl in B. cbn in *. lia.
  - destruct (take (wlen W8) b') as [[a r']|] eqn:T; [|discriminate].
    intros H; inversion H; subst. apply take_inv in T as (-> & Hl & Hok).
    unfold head. cbn [ai_of]. rewrite <- Hl, be_enc_dec_snoc by auto. cbn [app].
    split; [f_equal; lia|]. split; [|lia].
    pose proof (be_dec_bound a Hok) as B. unfold len in B. rewrite Hl in B. cbn in *. lia.
Qed.

(* ---------- height and fuel ---------- *)
Fixpoint height (x : wire) : nat :=
  match x with
  | WArr _ l | WMap _ l => S (fold_right (fun y a => Nat.max (height y) a) O l)
  | WTag _ _ c => S (height c)
  | _ => 1%nat
  end.

Definition heights (l : list wire) : nat := fold_right (fun y a => Nat.max (height y) a) O l.

Lemma heights_in l y : In y l -> (height y <= heights l)%nat.
Proof. induction l; cbn; [tauto|]. intros [->|H]; [lia|]. specialize (IHl H). unfold heights in *. lia. Qed.

Lemma parse_seq_mono (p q : bytes -> option (wire * bytes)) n b y :
  (forall b y, p b = Some y -> q b = Some y) ->
  parse_seq p n b = Some y -> parse_seq q n b = Some y.
Proof.
  intros Hpq. revert b y. induction n as [|n IH]; intros b y; cbn; auto.
  destruct (p b) as [[x' r]|] eqn:E; [|discriminate]. rewrite (Hpq _ _ E).
  destruct (parse_seq p n r) as [[l r']|] eqn:E2; [|discriminate].
  rewrite (IH _ _ E2). auto.
Qed.

Lemma parse_mono d : forall d' b y, (d <= d')%nat -> parse d b = Some y -> parse d' b = Some y.
Proof.
  induction d as [|d IH]; intros d' b y Hle H; [discriminate|].
  destruct d' as [|d']; [lia|]. assert (Hle' : (d <= d')%nat) by lia.
  cbn [parse] in *. destruct (parse_head b) as [[[[m w] v] r]|]; [|discriminate].
  destruct (m =? 0); auto. destruct (m =? 1); auto.
  destruct ((m =? 2) || (m =? 3)); auto.
  destruct (m =? 4).
  { destruct (v <=? len r); auto.
    destruct (parse_seq (parse d) (Z.to_nat v) r) as [[l r']|] eqn:E; [|discriminate].
    rewrite (parse_seq_mono (parse d) (parse d') _ _ _ (fun b y => IH d' b y Hle') E). exact H. }
  destruct (m =? 5).
  { destruct (2 * v <=? len r); auto.
    destruct (parse_seq (parse d) (Z.to_nat (2 * v)) r) as [[l r']|] eqn:E; [|discriminate].
    rewrite (parse_seq_mono (parse d) (parse d') _ _ _ (fun b y => IH d' b y Hle') E). exact H. }
  destruct (m =? 6); auto.
  destruct (parse d r) as [[c r']|] eqn:E; [|discriminate]. rewrite (IH _ _ _ Hle' E). auto.
Qed.

(* ---------- ser then parse ---------- *)
Lemma ser_nonempty x : (1 <= length (ser x))%nat.
Proof. destruct x; cbn; lia. Qed.

Lemma sers_length_ge l : (length l <= length (sers l))%nat.
Proof.
  induction l; cbn; auto. rewrite app_length. pose proof (ser_nonempty a). lia.
Qed.

Lemma parse_seq_sers (p : bytes -> option (wire * bytes)) l r :
  Forall (fun y => forall r, p (ser y ++ r) = Some (y, r)) l ->
  parse_seq p (length l) (sers l ++ r) = Some (l, r).
Proof.
  induction 1 as [|y l Hy Hl IH]; cbn; auto.
  rewrite <- app_assoc, Hy. rewrite IH. reflexivity.
Qed.

Theorem parse_ser : forall x d r,
  wf x = true -> (height x <= d)%nat -> parse d (ser x ++ r) = Some (x, r).
Proof.
  induction x using wire_ind'; intros d r Hwf Hd; (destruct d as [|d]; [cbn in Hd; lia|]).
  - (* WInt *) cbn [ser wf parse] in *. rewrite parse_head_head by (auto; destruct neg; cbn; lia).
    destruct neg; cbn; reflexivity.
  - (* WStr *) cbn [ser wf parse] in *. apply andb_true_iff in Hwf as [Hf Hok].
    rewrite <- app_assoc. rewrite parse_head_head by (auto; destruct t; cbn; lia).
    assert (Hle : (len b <=? len (b ++ r)) = true) by (apply Z.leb_le; rewrite len_app; pose proof (len_nonneg r); lia).
    unfold len at 2. unfold len in Hle. destruct t; cbn [bmaj Z.eqb orb Pos.eqb]; unfold len; rewrite Hle, Nat2Z.id, take_app by auto; reflexivity.
  - (* WArr *) cbn [ser wf parse] in *. apply andb_true_iff in Hwf as [Hf Hall].
    rewrite <- app_assoc. rewrite parse_head_head by (auto; lia). cbn [Z.eqb Pos.eqb orb].
    assert (Hle : (len l <=? len (flat_map ser l ++ r)) = true).
    { apply Z.leb_le. rewrite len_app. pose proof (sers_length_ge l). pose proof (len_nonneg r). unfold len in *. lia. }
    rewrite Hle. unfold len. rewrite Nat2Z.id.
    rewrite (parse_seq_sers (parse d) l r); [reflexivity|].
    rewrite forallb_forall in Hall. rewrite Forall_forall in *. intros y Hy r0.
    apply H; auto. cbn in Hd. pose proof (heights_in l y Hy). unfold heights in *. lia.
  - (* WMap *) cbn [ser wf parse] in *. apply andb_true_iff in Hwf as [Hf Hall].
    apply andb_true_iff in Hf as [Hev Hf].
    rewrite <- app_assoc. rewrite parse_head_head by (auto; lia). cbn [Z.eqb Pos.eqb orb].
    apply Nat.even_spec in Hev. destruct Hev as [k Hk].
    assert (H2 : 2 * (len l / 2) = len l) by (unfold len; rewrite Hk; lia).
    rewrite H2.
    assert (Hle : (len l <=? len (flat_map ser l ++ r)) = true).
    { apply Z.leb_le. rewrite len_app. pose proof (sers_length_ge l). pose proof (len_nonneg r). unfold len in *. lia. }
    rewrite Hle. unfold len. rewrite Nat2Z.id.
    rewrite (parse_seq_sers (parse d) l r); [reflexivity|].
    rewrite forallb_forall in Hall. rewrite Forall_forall in *. intros y Hy r0.
    apply H; auto. cbn in Hd. pose proof (heights_in l y Hy). unfold heights in *. lia.
  - (* WTag *) cbn [ser wf parse] in *. apply andb_true_iff in Hwf as [Hf Hc].
    rewrite <- app_assoc. rewrite parse_head_head by (auto; lia). cbn [Z.eqb Pos.eqb orb].
    rewrite IHx; auto. cbn in Hd. lia.
  - (* WSim *) cbn [ser wf parse] in *.
    assert (Hf : fits w v = true).
    { destruct w; cbn in *; auto. apply andb_true_iff in Hwf as [H1 H2].
      apply andb_true_iff. rewrite Z.leb_le, Z.ltb_lt in *. lia. }
    rewrite parse_head_head by (auto; lia). cbn [Z.eqb Pos.eqb orb]. rewrite Hwf. reflexivity.
Qed.

Lemma height_le_length x : (height x <= length (ser x))%nat.
Proof.
  induction x using wire_ind'; cbn [height ser]; try (cbn; lia).
  - unfold head. cbn [app length]. rewrite app_length. apply le_n_S.
    assert (A : (fold_right (fun y a => Nat.max (height y) a) O l <= length (flat_map ser l))%nat).
    { induction H as [|y l Hy Hl IH]; cbn; [lia|]. rewrite app_length. lia. }
    lia.
  - unfold head. cbn [app length]. rewrite app_length. apply le_n_S.
    assert (A : (fold_right (fun y a => Nat.max (height y) a) O l <= length (flat_map ser l))%nat).
    { induction H as [|y l Hy Hl IH]; cbn; [lia|]. rewrite app_length. lia. }
    lia.
  - unfold head. cbn [app length]. rewrite app_length. lia.
Qed.

Theorem parse_full_ser x : wf x = true -> parse_full (ser x) = Some x.
Proof.
  intros H. unfold parse_full. rewrite <- (app_nil_r (ser x)) at 2.
  rewrite parse_ser; auto. pose proof (height_le_length x). lia.
Qed.

(* ---------- parse then ser ---------- *)
Lemma parse_seq_inv (p : bytes -> option (wire * bytes)) n :
  forall b l r,
  (forall b y r, p b = Some (y, r) -> b = ser y ++ r /\ wf y = true) ->
  parse_seq p n b = Some (l, r) ->
  b = sers l ++ r /\ forallb wf l = true /\ length l = n.
Proof.
  induction n as [|n IH]; intros b l r Hp; cbn.
  - intros H; inversion H; subst. auto.
  - destruct (p b) as [[y r1]|] eqn:E; [|discriminate].
    destruct (parse_seq p n r1) as [[l' r2]|] eqn:E2; [|discriminate].
    intros H; inversion H; subst.
    apply Hp in E as [-> Hy]. apply IH in E2 as (-> & Hl & Hn); auto.
    cbn. rewrite Hy, Hl, Hn, app_assoc. auto.
Qed.

Theorem ser_parse : forall d b x r,
  parse d b = Some (x, r) -> b = ser x ++ r /\ wf x = true.
Proof.
  induction d as [|d IH]; intros b x r H; [discriminate|].
  cbn [parse] in H.
  destruct (parse_head b) as [[[[m w] v] r0]|] eqn:Hh; [|discriminate].
  apply parse_head_inv in Hh as (-> & Hf & Hm).
  destruct (m =? 0) eqn:M0.
  { apply Z.eqb_eq in M0; subst. inversion H; subst. cbn. auto. }
  destruct (m =? 1) eqn:M1.
  { apply Z.eqb_eq in M1; subst. inversion H; subst. cbn. auto. }
  destruct ((m =? 2) || (m =? 3)) eqn:M23.
  { destruct (v <=? len r0) eqn:Hle; [|discriminate].
    destruct (take (Z.to_nat v) r0) as [[s r1]|] eqn:T; [|discriminate].
    inversion H; subst. apply take_inv in T as (-> & Hl & Hok).
    assert (Hv : len s = v).
    { unfold len. rewrite Hl. apply Z2Nat.id. destruct w; cbn in Hf; apply andb_true_iff in Hf as [A _]; apply Z.leb_le in A; lia. }
    cbn [ser wf]. rewrite Hv, Hf, Hok, <- app_assoc.
    apply orb_true_iff in M23 as [E|E]; apply Z.eqb_eq in E; subst; cbn; auto. }
  destruct (m =? 4) eqn:M4.
  { apply Z.eqb_eq in M4; subst.
    destruct (v <=? len r0) eqn:Hle; [|discriminate].
    destruct (parse_seq (parse d) (Z.to_nat v) r0) as [[l r1]|] eqn:E; [|discriminate].
    inversion H; subst. apply parse_seq_inv in E as (-> & Hl & Hn); auto.
    assert (Hv : len l = v).
    { unfold len. rewrite Hn. apply Z2Nat.id. destruct w; cbn in Hf; apply andb_true_iff in Hf as [A _]; apply Z.leb_le in A; lia. }
    cbn [ser wf]. rewrite Hv, Hf, Hl, <- app_assoc. auto. }
  destruct (m =? 5) eqn:M5.
  { apply Z.eqb_eq in M5; subst.
    destruct (2 * v <=? len r0) eqn:Hle; [|discriminate].
    destruct (parse_seq (parse d) (Z.to_nat (2 * v)) r0) as [[l r1]|] eqn:E; [|discriminate].
    inversion H; subst. apply parse_seq_inv in E as (-> & Hl & Hn); auto.
    assert (Hv0 : 0 <= v) by (destruct w; cbn in Hf; apply andb_true_iff in Hf as [A _]; apply Z.leb_le in A; lia).
    assert (Hv : len l / 2 = v) by (unfold len; rewrite Hn; lia).
    assert (Hev : Nat.even (length l) = true).
    { rewrite Hn. apply Nat.even_spec. exists (Z.to_nat v). lia. }
    cbn [ser wf]. rewrite Hv, Hf, Hl, Hev, <- app_assoc. auto. }
  destruct (m =? 6) eqn:M6.
  { apply Z.eqb_eq in M6; subst.
    destruct (parse d r0) as [[c r1]|] eqn:E; [|discriminate].
    inversion H; subst. apply IH in E as (-> & Hc).
    cbn [ser wf]. rewrite Hf, Hc, <- app_assoc. auto. }
  destruct (sim_ok w v) eqn:Hs; [|discriminate].
  inversion H; subst. cbn [ser wf]. split; auto.
  assert (m = 7) by (rewrite ?Z.eqb_neq in *; apply orb_false_iff in M23 as [A B]; rewrite Z.eqb_neq in *; lia).
  subst. reflexivity.
Qed.

Theorem parse_full_inv b x : parse_full b = Some x -> b = ser x /\ wf x = true.
Proof.
  unfold parse_full. destruct (parse (S (length b)) b) as [[y [|? ?]]|] eqn:E; try discriminate.
  intros H; inversion H; subst. apply ser_parse in E as [-> Hw]. rewrite app_nil_r. auto.
Qed.

(* ser is injective on well-formed trees, even with arbitrary continuations *)
Theorem ser_inj x y r r' : wf x = true -> wf y = true -> ser x ++ r = ser y ++ r' -> x = y /\ r = r'.
Proof.
  intros Hx Hy E.
  pose (d := Nat.max (height x) (height y)).
  pose proof (parse_ser x d r Hx ltac:(lia)) as P1.
  pose proof (parse_ser y d r' Hy ltac:(lia)) as P2.
  rewrite E in P1. rewrite P1 in P2. inversion P2; auto.
Qed.

Corollary ser_inj0 x y : wf x = true -> wf y = true -> ser x = ser y -> x = y.
Proof.
  intros Hx Hy E. apply (ser_inj x y [] []); auto. rewrite !app_nil_r. auto.
Qed.
