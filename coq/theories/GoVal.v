(* GoVal.v — the Go values go-cose looks at (what `any` can hold in a header,
   a COSE_Key parameter, or a decoded CBOR item). *)
From Coq Require Import Ascii String ZArith List Lia Bool.
From GoCose Require Import Bytes Res.
Import ListNotations.
Open Scope Z_scope.

(* Go integer kinds (and go-cose's named int64 types) *)
Inductive ikind :=
| KInt | KInt8 | KInt16 | KInt32 | KInt64
| KUint | KUint8 | KUint16 | KUint32 | KUint64
| KAlg | KCurve | KKty | KKeyOp.

Definition ikind_eqb (a b : ikind) : bool :=
  match a, b with
  | KInt, KInt | KInt8, KInt8 | KInt16, KInt16 | KInt32, KInt32 | KInt64, KInt64
  | KUint, KUint | KUint8, KUint8 | KUint16, KUint16 | KUint32, KUint32 | KUint64, KUint64
  | KAlg, KAlg | KCurve, KCurve | KKty, KKty | KKeyOp, KKeyOp => true
  | _, _ => false
  end.

Definition is_signed_kind (k : ikind) : bool :=
  match k with KInt | KInt8 | KInt16 | KInt32 | KInt64 => true | _ => false end.
Definition is_unsigned_kind (k : ikind) : bool :=
  match k with KUint | KUint8 | KUint16 | KUint32 | KUint64 => true | _ => false end.

(* A Go value.  Maps are association lists kept flat (k1,v1,k2,v2,...); the
   order of the list is Go's (unspecified) iteration order, and every function
   that ranges over a map must be shown independent of it. *)
Inductive gv :=
| GInt (k : ikind) (n : Z)
| GStr (s : bytes)                 (* string (any bytes; UTF-8 validity is checked where Go checks it) *)
| GBytes (b : bytes)               (* non-nil []byte *)
| GNilBytes                        (* []byte(nil) *)
| GBool (b : bool)
| GNil                             (* untyped nil *)
| GArr (l : list gv)               (* []any *)
| GMap (l : list gv)               (* map[any]any, flat pairs *)
| GBig (n : Z)                     (* big.Int *)
| GTag (t : Z) (c : gv)            (* cbor.Tag *)
| GBStr (b : bytes)                (* cbor.ByteString (map key) *)
| GSimple (v : Z)                  (* cbor.SimpleValue *)
| GFloat (bits : Z)                (* float64, IEEE bits *)
| GOps (l : list Z)                (* []KeyOp *)
| GCsig (rawP : gobytes) (P : option (list gv)) (rawU : gobytes) (U : option (list gv)) (sig : gobytes)
                                   (* *Countersignature: Headers{RawProtected,Protected,RawUnprotected,Unprotected}, Signature *)
| GCsigs (l : list gv)             (* []*Countersignature; elements are GCsig or GNil (nil pointer) *)
| GOther.                          (* any other Go type (struct, func, ...) *)

Definition OptForall (P : gv -> Prop) (o : option (list gv)) : Prop :=
  match o with Some l => Forall P l | None => True end.

Section GvInd.
  Variable P : gv -> Prop.
  Hypothesis HInt : forall k n, P (GInt k n).
  Hypothesis HStr : forall s, P (GStr s).
  Hypothesis HBytes : forall b, P (GBytes b).
  Hypothesis HNilBytes : P GNilBytes.
  Hypothesis HBool : forall b, P (GBool b).
  Hypothesis HNil : P GNil.
  Hypothesis HArr : forall l, Forall P l -> P (GArr l).
  Hypothesis HMap : forall l, Forall P l -> P (GMap l).
  Hypothesis HBig : forall n, P (GBig n).
  Hypothesis HTag : forall t c, P c -> P (GTag t c).
  Hypothesis HBStr : forall b, P (GBStr b).
  Hypothesis HSimple : forall v, P (GSimple v).
  Hypothesis HFloat : forall b, P (GFloat b).
  Hypothesis HOps : forall l, P (GOps l).
  Hypothesis HCsig : forall rp p ru u s,
      OptForall P p -> OptForall P u ->
      P (GCsig rp p ru u s).
  Hypothesis HCsigs : forall l, Forall P l -> P (GCsigs l).
  Hypothesis HOther : P GOther.

  Fixpoint gv_ind' (x : gv) : P x :=
    let go := (fix go (l : list gv) : Forall P l :=
                 match l with
                 | [] => Forall_nil _
                 | y :: r => Forall_cons _ (gv_ind' y) (go r)
                 end) in
    match x with
    | GInt k n => HInt k n
    | GStr s => HStr s
    | GBytes b => HBytes b
    | GNilBytes => HNilBytes
    | GBool b => HBool b
    | GNil => HNil
    | GArr l => HArr l (go l)
    | GMap l => HMap l (go l)
    | GBig n => HBig n
    | GTag t c => HTag t c (gv_ind' c)
    | GBStr b => HBStr b
    | GSimple v => HSimple v
    | GFloat b => HFloat b
    | GOps l => HOps l
    | GCsig rp p ru u s =>
        HCsig rp p ru u s
              (match p as p0 return OptForall P p0 with
               | Some l => go l | None => I end)
              (match u as u0 return OptForall P u0 with
               | Some l => go l | None => I end)
    | GCsigs l => HCsigs l (go l)
    | GOther => HOther
    end.
End GvInd.

Definition gobytes_eqb (a b : gobytes) : bool :=
  match a, b with
  | None, None => true
  | Some x, Some y => bytes_eqb x y
  | _, _ => false
  end.

Fixpoint zlist_eqb (a b : list Z) : bool :=
  match a, b with
  | [], [] => true
  | x :: a', y :: b' => (x =? y) && zlist_eqb a' b'
  | _, _ => false
  end.

(* Structural equality, order-sensitive (maps compared as lists). *)
Fixpoint gv_eqb (a b : gv) {struct a} : bool :=
  let fix list_eqb (l m : list gv) {struct l} : bool :=
      match l, m with
      | [], [] => true
      | x :: l', y :: m' => gv_eqb x y && list_eqb l' m'
      | _, _ => false
      end in
  let opt_eqb (p q : option (list gv)) : bool :=
      match p, q with
      | None, None => true
      | Some l, Some m => list_eqb l m
      | _, _ => false
      end in
  match a, b with
  | GInt k n, GInt k' n' => ikind_eqb k k' && (n =? n')
  | GStr s, GStr s' => bytes_eqb s s'
  | GBytes s, GBytes s' => bytes_eqb s s'
  | GNilBytes, GNilBytes => true
  | GBool x, GBool y => Bool.eqb x y
  | GNil, GNil => true
  | GArr l, GArr m => list_eqb l m
  | GMap l, GMap m => list_eqb l m
  | GBig n, GBig n' => n =? n'
  | GTag t c, GTag t' c' => (t =? t') && gv_eqb c c'
  | GBStr s, GBStr s' => bytes_eqb s s'
  | GSimple v, GSimple v' => v =? v'
  | GFloat v, GFloat v' => v =? v'
  | GOps l, GOps m => zlist_eqb l m
  | GCsig rp p ru u s, GCsig rp' p' ru' u' s' =>
      gobytes_eqb rp rp' && opt_eqb p p' && gobytes_eqb ru ru' && opt_eqb u u' && gobytes_eqb s s'
  | GCsigs l, GCsigs m => list_eqb l m
  | GOther, GOther => true
  | _, _ => false
  end.

(* Go's == on values that may be map keys (both hashable).  Used for duplicate
   detection and look-ups; kind-sensitive like Go. *)
Definition key_eqb (a b : gv) : bool :=
  match a, b with
  | GInt k n, GInt k' n' => ikind_eqb k k' && (n =? n')
  | GStr s, GStr s' => bytes_eqb s s'
  | GBStr s, GBStr s' => bytes_eqb s s'
  | GBool x, GBool y => Bool.eqb x y
  | GNil, GNil => true
  | GSimple v, GSimple v' => v =? v'
  | _, _ => false
  end.

(* look up key k in a flat map *)
Fixpoint glookup (k : gv) (l : list gv) : option gv :=
  match l with
  | k' :: v :: r => if key_eqb k k' then Some v else glookup k r
  | _ => None
  end.

Fixpoint gkeys (l : list gv) : list gv :=
  match l with
  | k :: _ :: r => k :: gkeys r
  | _ => []
  end.

(* map equality up to entry order, at every depth (used only to compare
   observations, because Go's iteration order is not observable) *)
Fixpoint gv_equiv (fuel : nat) (a b : gv) : bool :=
  match fuel with
  | O => false
  | S f =>
    let fix list_eq (l m : list gv) : bool :=
        match l, m with
        | [], [] => true
        | x :: l', y :: m' => gv_equiv f x y && list_eq l' m'
        | _, _ => false
        end in
    let fix find (k v : gv) (m : list gv) : bool :=
        match m with
        | k' :: v' :: r => (gv_equiv f k k' && gv_equiv f v v') || find k v r
        | _ => false
        end in
    let fix sub (l m : list gv) : bool :=
        match l with
        | k :: v :: r => find k v m && sub r m
        | _ => true
        end in
    let map_eq (l m : list gv) : bool := (length l =? length m)%nat && sub l m && sub m l in
    let opt_eq (p q : option (list gv)) : bool :=
        match p, q with
        | None, None => true
        | Some l, Some m => map_eq l m
        | _, _ => false
        end in
    match a, b with
    | GArr l, GArr m => list_eq l m
    | GMap l, GMap m => map_eq l m
    | GTag t c, GTag t' c' => (t =? t') && gv_equiv f c c'
    | GCsig rp p ru u s, GCsig rp' p' ru' u' s' =>
        gobytes_eqb rp rp' && opt_eq p p' && gobytes_eqb ru ru' && opt_eq u u' && gobytes_eqb s s'
    | GCsigs l, GCsigs m => list_eq l m
    | _, _ => gv_eqb a b
    end
  end.
