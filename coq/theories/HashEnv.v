(* HashEnv.v — model of hash_envelope.go. *)
From Coq Require Import Ascii String ZArith List Lia Bool.
From GoCose Require Import Bytes Cbor Res GoVal Fx Headers Enc Dec Msg.
From GoCose.Gen Require Import Generated.
Import ListNotations.
Open Scope Z_scope.

Fixpoint tbl_lookup (t : list (list Z * Z)) (k : Z) : option Z :=
  match t with
  | [] => None
  | (ks, v) :: r => if existsb (Z.eqb k) ks then Some v else tbl_lookup r k
  end.

(* Algorithm.hashFunc: crypto.Hash id (0 = none) *)
Definition hash_func (alg : Z) : Z :=
  match tbl_lookup tbl_hashFunc alg with
  | Some h => h
  | None => match tbl_hashFunc_default with Some d => d | None => 0 end
  end.

(* crypto.Hash.Size() for the three hashes the table can return *)
Definition hash_size (h : Z) : Z :=
  if h =? std_crypto_SHA256 then std_crypto_SHA256_Size
  else if h =? std_crypto_SHA384 then std_crypto_SHA384_Size
  else if h =? std_crypto_SHA512 then std_crypto_SHA512_Size
  else 0.

Definition validate_hash (alg : Z) (value : gobytes) : bool :=
  let h := hash_func alg in
  if h =? 0 then true else hash_size h =? glen value.

Record hepayload := mkHE {
  he_alg : Z;
  he_value : gobytes;
  he_ctype : gv;        (* GNil = not given *)
  he_loc : bytes        (* [] = not given *)
}.

(* setHashEnvelopeProtectedHeader: works on a clone of the caller's map *)
Definition set_he_protected (base : option (list gv)) (p : hepayload) : list gv :=
  let h0 := hmap base in
  let h1 := gset (lbl c_HeaderLabelPayloadHashAlgorithm) (GInt KAlg (he_alg p)) h0 in
  let h2 := match he_ctype p with GNil => h1 | v => gset (lbl c_HeaderLabelPayloadPreimageContentType) v h1 end in
  match he_loc p with [] => h2 | s => gset (lbl c_HeaderLabelPayloadLocation) (GStr s) h2 end.

(* validateHashEnvelopeHeaders *)
Fixpoint he_prot_ok (h : list gv) : bool :=
  match h with
  | k :: v :: r =>
      match normalize_label k with
      | None => false
      | Some (GInt KInt64 n) =>
          (if n =? c_HeaderLabelContentType then false
           else if n =? c_HeaderLabelPayloadHashAlgorithm then is_alg_typed v || can_int v
           else if n =? c_HeaderLabelPayloadPreimageContentType then can_uint v || can_tstr v
           else if n =? c_HeaderLabelPayloadLocation then can_tstr v
           else true) && he_prot_ok r
      | Some _ => he_prot_ok r
      end
  | _ => true
  end.

Fixpoint he_has_hash_alg (h : list gv) : bool :=
  match h with
  | k :: _ :: r =>
      match normalize_label k with
      | Some (GInt KInt64 n) => (n =? c_HeaderLabelPayloadHashAlgorithm) || he_has_hash_alg r
      | _ => he_has_hash_alg r
      end
  | _ => false
  end.

Fixpoint he_unprot_ok (h : list gv) : bool :=
  match h with
  | k :: _ :: r =>
      match normalize_label k with
      | None => false
      | Some (GInt KInt64 n) =>
          negb ((n =? c_HeaderLabelContentType) || (n =? c_HeaderLabelPayloadHashAlgorithm) ||
                (n =? c_HeaderLabelPayloadPreimageContentType) || (n =? c_HeaderLabelPayloadLocation))
          && he_unprot_ok r
      | Some _ => he_unprot_ok r
      end
  | _ => true
  end.

Definition validate_he_headers (h : headers) : bool :=
  he_prot_ok (hmap (hP h)) && he_has_hash_alg (hmap (hP h)) && he_unprot_ok (hmap (hU h)).

(* SignHashEnvelope: bytes and contents handed to the signer.  The caller's
   maps are not reachable from here: Protected is cloned, Unprotected only read. *)
Definition sign_he (sg : signer) (h : headers) (p : hepayload) : res bytes * list bytes :=
  if negb (validate_hash (he_alg p) (he_value p)) then (Rej EOther, [])
  else
    let h' := mkH None (Some (set_he_protected (hP h) p)) (rawU h) (hU h) in
    if negb (validate_he_headers h') then (Rej EOther, [])
    else let '(r, _, calls) := helper_sign1 true h' (he_value p) None sg in (r, calls).

(* VerifyHashEnvelope *)
Definition verify_he (vf : verifier) (envelope : bytes) : res sign1 * list (bytes * gobytes) :=
  match unmarshal_sign1 envelope with
  | Acc m =>
    if negb (validate_he_headers (s1_h m)) then (Rej EOther, [])
    else
      let '(r, calls) := sign1_verify m None vf in
      match r with
      | Acc _ =>
        match payload_hash_alg_of (hP (s1_h m)) with
        | Acc a =>
          let p' := gset (lbl c_HeaderLabelPayloadHashAlgorithm) (GInt KAlg a) (hmap (hP (s1_h m))) in
          let m' := mkS1 (mkH (rawP (s1_h m)) (Some p') (rawU (s1_h m)) (hU (s1_h m))) (s1_payload m) (s1_sig m) in
          if validate_hash a (s1_payload m) then (Acc m', calls) else (Rej EOther, calls)
        | Rej e => (Rej e, calls) | Panic => (Panic, calls) | Unm => (Unm, calls)
        end
      | Rej e => (Rej e, calls) | Panic => (Panic, calls) | Unm => (Unm, calls)
      end
  | Rej e => (Rej e, []) | Panic => (Panic, []) | Unm => (Unm, [])
  end.
