(* Obs.v — observation trees: what the harness records from the implementation
   and what the model predicts, compared by ot_eqb. *)
From Coq Require Import Ascii String ZArith List Bool.
From GoCose Require Import Bytes Res GoVal.
Import ListNotations.
Open Scope Z_scope.

Inductive ot :=
| OT (name : string) (kids : list ot)
| OB (b : bytes)
| OZ (z : Z)
| OG (g : gv).

Fixpoint ot_eqb (a b : ot) {struct a} : bool :=
  let fix list_eqb (l m : list ot) {struct l} : bool :=
      match l, m with
      | [], [] => true
      | x :: l', y :: m' => ot_eqb x y && list_eqb l' m'
      | _, _ => false
      end in
  match a, b with
  | OT n k, OT n' k' => String.eqb n n' && list_eqb k k'
  | OB x, OB y => bytes_eqb x y
  | OZ x, OZ y => x =? y
  | OG x, OG y => gv_equiv 64 x y
  | _, _ => false
  end.

Definition ecls_name (e : ecls) : string :=
  match e with
  | EAlgMismatch => "AlgMismatch" | EAlgNotFound => "AlgNotFound"
  | EAlgNotSupported => "AlgNotSupported" | EInvalidAlg => "InvalidAlg"
  | EEmptySig => "EmptySig" | ENoSigs => "NoSigs" | EMissingPayload => "MissingPayload"
  | EVerification => "Verification" | EInvalidKey => "InvalidKey"
  | EInvalidPubKey => "InvalidPubKey" | EInvalidPrivKey => "InvalidPrivKey"
  | ENotPrivKey => "NotPrivKey" | EOpNotSupported => "OpNotSupported"
  | EEC2NoPub => "EC2NoPub" | EOKPNoPub => "OKPNoPub" | ESigner => "Signer"
  | EOther => "Other"
  end%string.

Definition o_err (e : ecls) : ot := OT "err" [OT (ecls_name e) []].
Definition o_panic : ot := OT "panic" [].
Definition o_unm : ot := OT "unm" [].
Definition o_ok (k : list ot) : ot := OT "ok" k.

Definition o_gobytes (b : gobytes) : ot :=
  match b with None => OT "nil" [] | Some l => OB l end.

Definition o_bool (b : bool) : ot := OT (if b then "true" else "false")%string [].

(* result with a payload renderer *)
Definition o_res {A} (f : A -> list ot) (r : res A) : ot :=
  match r with
  | Acc a => o_ok (f a)
  | Rej e => o_err e
  | Panic => o_panic
  | Unm => o_unm
  end.

Definition is_unm (o : ot) : bool :=
  match o with OT n _ => String.eqb n "unm" | _ => false end.
