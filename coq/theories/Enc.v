(* Enc.v — encode side: the library's deterministic encoder on Go values
   (shortest heads, maps sorted bytewise on the encoded key), header bucket
   encoders, COSE_Signature / Countersignature encoder, and
   deterministicBinaryString. *)
From Coq Require Import Ascii String ZArith List Lia Bool.
From GoCose Require Import Bytes Cbor Res GoVal Fx Headers.
From GoCose.Gen Require Import Generated.
Import ListNotations.
Open Scope Z_scope.

Definition enc_head (major n : Z) : bytes := head major (minw n) n.
Definition enc_int (n : Z) : bytes := if 0 <=? n then enc_head 0 n else enc_head 1 (-1 - n).
Definition enc_bstr (b : bytes) : bytes := enc_head 2 (len b) ++ b.
Definition enc_tstr (b : bytes) : bytes := enc_head 3 (len b) ++ b.
Definition enc_null : bytes := [246].
Definition enc_gobytes (b : gobytes) : bytes := match b with None => enc_null | Some l => enc_bstr l end.

(* float64: ShortestFloatNone, NaNConvert7e00, InfConvertFloat16 *)
Definition enc_float (bits : Z) : bytes :=
  if is_nan64 bits then [249; 126; 0]
  else if bits =? 2047 * 2 ^ 52 then [249; 124; 0]
  else if bits =? 2 ^ 63 + 2047 * 2 ^ 52 then [249; 252; 0]
  else 251 :: be_enc 8 bits.

(* minimal big-endian bytes of a non-negative integer (big.Int.Bytes) *)
Definition zbytes (n : Z) : bytes :=
  if n <=? 0 then [] else be_enc (Z.to_nat (Z.log2 n / 8 + 1)) n.

(* big.Int.  kb = true: the encoder mode of the protected bucket (BigIntConvertNone), always a tag 2 / tag 3
   bignum.  kb = false: every other encoder (BigIntConvertShortest), a plain integer when it fits 64 bits. *)
Definition enc_big (kb : bool) (n : Z) : bytes :=
  if kb then
    if 0 <=? n then 194 :: enc_bstr (zbytes n)
    else 195 :: enc_bstr (zbytes (-1 - n))
  else
    if (0 <=? n) && (n <? 2 ^ 64) then enc_head 0 n
    else if (n <? 0) && (- 2 ^ 64 <=? n) then enc_head 1 (-1 - n)
    else if 0 <=? n then 194 :: enc_bstr (zbytes n)
    else 195 :: enc_bstr (zbytes (-1 - n)).

(* insertion sort of encoded (key,value) pairs, bytewise on the key *)
Fixpoint insert_kv (kv : bytes * bytes) (l : list (bytes * bytes)) : list (bytes * bytes) :=
  match l with
  | [] => [kv]
  | kv' :: r => if bytes_ltb (fst kv') (fst kv) then kv' :: insert_kv kv r else kv :: l
  end.
Definition sort_kv (l : list (bytes * bytes)) : list (bytes * bytes) := fold_right insert_kv [] l.

Fixpoint adjacent_dup (l : list (bytes * bytes)) : bool :=
  match l with
  | a :: ((b :: _) as r) => bytes_eqb (fst a) (fst b) || adjacent_dup r
  | _ => false
  end.

Definition flat_kv (l : list (bytes * bytes)) : bytes := flat_map (fun kv => fst kv ++ snd kv) l.

(* two Go-distinct keys with equal encodings: sort.Sort is not stable, order unmodelled *)
Definition enc_map_of (kvs : list (bytes * bytes)) : res bytes :=
  let s := sort_kv kvs in
  if adjacent_dup s then Unm else Acc (enc_head 5 (len kvs) ++ flat_kv s).

Definition enc_simple (v : Z) : res bytes :=
  if (0 <=? v) && (v <? 24) then Acc [224 + v]
  else if (32 <=? v) && (v <? 256) then Acc [248; v]
  else Unm.

Section Encoder.
  (* the encoder, the header-bucket encoders and the COSE_Signature encoder are
     mutually recursive through countersignature header values *)
  Fixpoint enc (kb : bool) (g : gv) {struct g} : res bytes :=
    let enc_pairs := (fix go (l : list gv) : res (list (bytes * bytes)) :=
                        match l with
                        | k :: v :: r =>
                            let* a := enc kb k in let* b := enc kb v in let* c := go r in Acc ((a, b) :: c)
                        | _ => Acc []
                        end) in
    let enc_pairs_p := (fix go (l : list gv) : res (list (bytes * bytes)) :=
                        match l with
                        | k :: v :: r =>
                            let* a := enc true k in let* b := enc true v in let* c := go r in Acc ((a, b) :: c)
                        | _ => Acc []
                        end) in
    let enc_pairs_u := (fix go (l : list gv) : res (list (bytes * bytes)) :=
                        match l with
                        | k :: v :: r =>
                            let* a := enc false k in let* b := enc false v in let* c := go r in Acc ((a, b) :: c)
                        | _ => Acc []
                        end) in
    let enc_list := (fix go (l : list gv) : res bytes :=
                       match l with
                       | [] => Acc []
                       | y :: r => let* a := enc kb y in let* b := go r in Acc (a ++ b)
                       end) in
    match g with
    | GInt _ n => Acc (enc_int n)
    | GStr s => Acc (enc_tstr s)
    | GBytes b => Acc (enc_bstr b)
    | GNilBytes => Acc enc_null
    | GBool b => Acc [if b then 245 else 244]
    | GNil => Acc enc_null
    | GArr l => let* bs := enc_list l in Acc (enc_head 4 (len l) ++ bs)
    | GMap l => let* kvs := enc_pairs l in enc_map_of kvs
    | GBig n => Acc (enc_big kb n)
    | GTag t c => let* b := enc kb c in Acc (enc_head 6 t ++ b)
    | GBStr b => Acc (enc_bstr b)
    | GSimple v => enc_simple v
    | GFloat bits => Acc (enc_float bits)
    | GOps l => Acc (enc_head 4 (len l) ++ flat_map enc_int l)
    | GCsig rp p ru u s =>
        (* Signature.MarshalCBOR *)
        if glen s =? 0 then Rej EEmptySig
        else if negb (ensure_iv (mkH rp p ru u)) then Rej EOther
        else
          let* pb := (if 0 <? glen rp then Acc (gor rp)
                      else match p with
                           | None | Some [] => Acc [64]
                           | Some l => if validate_params l true
                                       then let* kvs := enc_pairs_p l in let* m := enc_map_of kvs in Acc (enc_bstr m)
                                       else Rej EOther
                           end) in
          let* ub := (if 0 <? glen ru then Acc (gor ru)
                      else match u with
                           | None | Some [] => Acc [160]
                           | Some l => if validate_params l false
                                       then let* kvs := enc_pairs_u l in enc_map_of kvs
                                       else Rej EOther
                           end) in
          Acc ([131] ++ pb ++ ub ++ enc_bstr (gor s))
    | GCsigs l => let* bs := enc_list l in Acc (enc_head 4 (len l) ++ bs)
    | GOther => Unm
    end.
End Encoder.

Definition enc_pairs (kb : bool) (l : list gv) : res (list (bytes * bytes)) :=
  (fix go (l : list gv) : res (list (bytes * bytes)) :=
     match l with
     | k :: v :: r => let* a := enc kb k in let* b := enc kb v in let* c := go r in Acc ((a, b) :: c)
     | _ => Acc []
     end) l.

Definition enc_hmap (kb : bool) (l : list gv) : res bytes := let* kvs := enc_pairs kb l in enc_map_of kvs.

(* ProtectedHeader.MarshalCBOR *)
Definition enc_protected (p : option (list gv)) : res bytes :=
  match p with
  | None | Some [] => Acc [64]
  | Some l => if validate_params l true then let* m := enc_hmap true l in Acc (enc_bstr m) else Rej EOther
  end.

(* UnprotectedHeader.MarshalCBOR *)
Definition enc_unprotected (u : option (list gv)) : res bytes :=
  match u with
  | None | Some [] => Acc [160]
  | Some l => if validate_params l false then enc_hmap false l else Rej EOther
  end.

(* Headers.MarshalProtected / MarshalUnprotected / marshal *)
Definition marshal_protected (h : headers) : res bytes :=
  if 0 <? glen (rawP h) then Acc (gor (rawP h)) else enc_protected (hP h).
Definition marshal_unprotected (h : headers) : res bytes :=
  if 0 <? glen (rawU h) then Acc (gor (rawU h)) else enc_unprotected (hU h).
Definition headers_marshal (h : headers) : res (bytes * bytes) :=
  if negb (ensure_iv h) then Rej EOther
  else let* p := marshal_protected h in let* u := marshal_unprotected h in Acc (p, u).

(* deterministicBinaryString *)
Definition dbs_fast (w : width) (n : Z) : bool :=
  match w with
  | W0 => true
  | W1 => 24 <=? n
  | W2 => 256 <=? n
  | W4 => 65536 <=? n
  | W8 => 4294967296 <=? n
  end.

Definition det_bstr (data : bytes) : res bytes :=
  match data with
  | [] => Rej EOther
  | a :: _ =>
    if negb (a / 32 =? 2) then Rej EOther
    else match lib_wf false data with
         | Some (WStr false w b) => if dbs_fast w (len b) then Acc data else Acc (enc_bstr b)
         | _ => Rej EOther
         end
  end.
