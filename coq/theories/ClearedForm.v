(* C09, cleared raw bytes, at the level of a header bucket: what UnprotectedHeader.MarshalCBOR emits is a canonical
   form - UnprotectedHeader.UnmarshalCBOR accepts it and MarshalCBOR of the decoded bucket returns the same bytes
   again (so that any further decode / encode cycle changes nothing).  For the protected bucket the same holds for the
   decoded parameters before ProtectedHeader.UnmarshalCBOR re-types the alg value (Algorithm instead of int64), which
   does not change its encoding. *)
From Coq Require Import ZArith List Bool Lia Permutation.
From GoCose Require Import Bytes Cbor CborProofs Res GoVal Fx Headers Enc Dec TbsProofs FlowProofs HdrProofs EncProofs EncCanon EncDec FixedPoint HdrRoundTrip.
From GoCose.Gen Require Import Generated.
Import ListNotations.
Open Scope Z_scope.

Lemma enc_gmap_hmap kb l : enc kb (GMap l) = enc_hmap kb l.
Proof. reflexivity. Qed.

Lemma even_simple_map l : simple (GMap l) = true -> Nat.even (length l) = true.
Proof.
  cbn [simple]. intros H. apply andb_true_iff in H as [H _]. apply andb_true_iff in H as [_ Hk].
  revert Hk. induction l as [| |k v r IH] using pair_ind; intros Hk; [reflexivity|discriminate|].
  cbn [keys_ok] in Hk. apply andb_true_iff in Hk as [_ Hk]. exact (IH Hk).
Qed.

(* a non-empty source bucket does not decode to an empty one *)
Lemma rel_map_nonempty l : l <> [] -> simple (GMap l) = true -> ~ rel (GMap l) (GMap []).
Proof.
  intros Hne Hs R. pose proof (even_simple_map l Hs) as Ev. destruct l as [|k [|v r]]; [contradiction|discriminate|].
  inversion R as [| | | | | | | |? ? lp P F _]; subst. cbn [pairs] in F. inversion F; subst.
  apply Permutation_sym, Permutation_nil in P. discriminate.
Qed.

Theorem unprotected_cleared_fixed_point l ub :
  l <> [] -> simple (GMap l) = true -> (forall k v, entry_in k v l -> okval v) ->
  enc_unprotected (Some l) = Acc ub -> within_limits ub ->
  exists dl, unmarshal_unprotected ub = Acc dl /\ enc_unprotected (Some dl) = Acc ub.
Proof.
  intros Hne Hs Hok He Hlim.
  destruct (dec_unprotected_of_enc l ub 19 Hne Hs Hok He Hlim) as (w & dl & -> & W & _ & (ww & tl & ->) & D & HR & V' & V & R).
  exists dl. split.
  - unfold unmarshal_unprotected. destruct (map_first_byte ww tl W) as (a & rest & Ea & Ha).
    rewrite Ea. rewrite Ha. cbn [Z.eqb Pos.eqb negb]. rewrite <- Ea.
    rewrite (lib_wf_of_ser _ W Hlim). exact D.
  - unfold enc_unprotected in He. destruct l as [|x0 l0]; [contradiction|]. rewrite V in He.
    rewrite <- enc_gmap_hmap in He. pose proof (rel_enc false _ _ _ R He) as E'.
    unfold enc_unprotected. destruct dl as [|y0 d0]; [exact E'|]. rewrite V'. exact E'.
Qed.

Theorem protected_cleared_fixed_point l pb :
  l <> [] -> simple (GMap l) = true -> (forall k v, entry_in k v l -> okval v) ->
  enc_protected (Some l) = Acc pb ->
  (forall m, enc_hmap true l = Acc m -> within_limits m) ->
  exists dl, unmarshal_protected pb = Acc (cast_alg dl) /\ validate_params dl true = true /\ enc_protected (Some dl) = Acc pb /\
             hrel l dl /\ dl <> [].
Proof.
  intros Hne Hs Hok He Hlim.
  destruct (protected_roundtrip l pb Hne Hs Hok He Hlim) as (m0 & dl0 & Em0 & -> & U0 & _).
  destruct (dec_protected_of_enc l _ Hne Hs Hok He Hlim) as (m & dl & Em & E2 & Sm & Mne & D & HR & V' & V & R).
  rewrite Em in Em0. inversion Em0; subst m0.
  assert (Edl : unmarshal_protected (enc_bstr m) = Acc (cast_alg dl)).
  { unfold unmarshal_protected.
    assert (Wb : wf (tbstr m) = true) by (apply tbstr_wf; exact Sm).
    rewrite enc_bstr_ser.
    destruct (ser (tbstr m)) as [|b0 bs] eqn:Eb; [pose proof (ser_nonempty (tbstr m)) as Hn; rewrite Eb in Hn; cbn in Hn; lia|].
    rewrite <- Eb. unfold lib_wf. rewrite parse_full_ser by exact Wb. cbn [depth_ok tbstr]. exact D. }
  exists dl. split; [exact Edl|]. split; [exact V'|].
  assert (Dne : dl <> []) by (intros ->; exact (rel_map_nonempty l Hne Hs R)).
  split; [|split; [exact HR|exact Dne]].
  rewrite <- enc_gmap_hmap in Em. pose proof (rel_enc true _ _ _ R Em) as E'. rewrite enc_gmap_hmap in E'.
  unfold enc_protected. destruct dl as [|y0 d0].
  - destruct (rel_map_nonempty l Hne Hs R).
  - rewrite V', E'. reflexivity.
Qed.
Print Assumptions protected_cleared_fixed_point.
