(* Headers.v — model of headers.go: header maps, label normalisation,
   validateHeaderParameters, algorithm look-up and the alg / IV gates. *)
From Coq Require Import Ascii String ZArith List Lia Bool.
From GoCose Require Import Bytes Cbor Res GoVal.
From GoCose.Gen Require Import Generated.
Import ListNotations.
Open Scope Z_scope.

(* Headers{RawProtected, Protected, RawUnprotected, Unprotected}; None = nil *)
Record headers := mkH {
  rawP : gobytes;
  hP : option (list gv);
  rawU : gobytes;
  hU : option (list gv)
}.

Definition hmap (o : option (list gv)) : list gv := match o with Some l => l | None => [] end.

Definition lbl (n : Z) : gv := GInt KInt64 n.

(* ---- canUint / canInt / canTstr / canBstr ---- *)
Definition can_uint (v : gv) : bool :=
  match v with
  | GInt k n => is_unsigned_kind k || (is_signed_kind k && (0 <=? n))
  | _ => false
  end.
Definition can_int (v : gv) : bool :=
  match v with GInt k _ => is_unsigned_kind k || is_signed_kind k | _ => false end.
Definition can_tstr (v : gv) : bool := match v with GStr _ => true | _ => false end.
Definition can_bstr (v : gv) : bool := match v with GBytes _ => true | _ => false end. (* a nil []byte would be written as null: refused *)
Definition is_alg_typed (v : gv) : bool := match v with GInt KAlg _ => true | _ => false end.

(* normalizeLabel: any Go integer kind -> int64 (uint64 wraps like int64(v)) *)
(* int64(v): two's-complement wrap-around (the identity on every int64 value) *)
Definition wrap64 (n : Z) : Z := (n + 9223372036854775808) mod 18446744073709551616 - 9223372036854775808.
Definition normalize_label (l : gv) : option gv :=
  match l with
  | GInt k n => if is_signed_kind k || is_unsigned_kind k then Some (GInt KInt64 (wrap64 n)) else None
  | GStr s => Some (GStr s)
  | _ => None
  end.

(* ---- ProtectedHeader.Algorithm() / PayloadHashAlgorithm() ---- *)
Definition alg_value (allow_text : bool) (v : option gv) : res Z :=
  match v with
  | None => Rej EAlgNotFound
  | Some (GInt k n) =>
      match k with
      | KAlg | KInt | KInt8 | KInt16 | KInt32 | KInt64 => Acc n
      | _ => Rej EInvalidAlg
      end
  | Some (GStr _) => if allow_text then Rej EAlgNotSupported else Rej EInvalidAlg
  | Some _ => Rej EInvalidAlg
  end.

(* lookupLabel: integer labels are compared by value, whichever Go integer
   type spells them: a direct hit on the normalised key first, else any key
   that normalises to it (Go's map iteration picks one; the list order stands
   for it, and callers reject maps in which two keys normalise alike). *)
Fixpoint nfind (want : gv) (h : list gv) : option gv :=
  match h with
  | k :: v :: r =>
      match normalize_label k with
      | Some k' => if key_eqb want k' then Some v else nfind want r
      | None => nfind want r
      end
  | _ => None
  end.
Definition nlookup (l : gv) (h : list gv) : option gv :=
  match normalize_label l with
  | None => None
  | Some want => match glookup want h with Some v => Some v | None => nfind want h end
  end.

Definition alg_of (p : option (list gv)) : res Z :=
  alg_value true (nlookup (lbl c_HeaderLabelAlgorithm) (hmap p)).
Definition payload_hash_alg_of (p : option (list gv)) : res Z :=
  alg_value false (nlookup (lbl c_HeaderLabelPayloadHashAlgorithm) (hmap p)).

Definition has_label (h : list gv) (n : Z) : bool :=
  match nlookup (lbl n) h with Some _ => true | None => false end.

(* ---- ensureCritical ---- *)
Definition ensure_critical (value : gv) (h : list gv) : bool :=
  match value with
  | GArr labels =>
      negb (Nat.eqb (length labels) 0) &&
      forallb (fun l => (can_int l || can_tstr l) &&
                        match nlookup l h with Some _ => true | None => false end) labels
  | _ => false
  end.

(* content type / typ text rule: non-empty, no leading/trailing space, exactly one '/' *)
Definition count_byte (c : Z) (s : bytes) : Z := len (filter (fun b => b =? c) s).
Definition media_text_ok (s : bytes) : bool :=
  match s with
  | [] => false
  | a :: _ => negb (a =? 32) && negb (last s 0 =? 32) && (count_byte 47 s =? 1)
  end.
Definition uint_or_media (v : gv) : bool :=
  match v with GStr s => media_text_ok s | _ => can_uint v end.

(* a Countersignature object, or a non-empty list of them (no nil pointers) *)
Definition is_csig (v : gv) : bool := match v with GCsig _ _ _ _ _ => true | _ => false end.
Definition is_csig_value (v : gv) : bool :=
  match v with
  | GCsig _ _ _ _ _ => true
  | GCsigs l => negb (Nat.eqb (length l) 0) && forallb is_csig l
  | _ => false
  end.

(* the per-label switch of validateHeaderParameters (label already normalised) *)
Definition check_param (protected : bool) (h : list gv) (label value : gv) : bool :=
  match label with
  | GInt KInt64 n =>
      if n =? c_HeaderLabelAlgorithm then is_alg_typed value || can_int value || can_tstr value
      else if n =? c_HeaderLabelCritical then protected && ensure_critical value h
      else if n =? c_HeaderLabelType then uint_or_media value
      else if n =? c_HeaderLabelContentType then uint_or_media value
      else if n =? c_HeaderLabelKeyID then can_bstr value
      else if n =? c_HeaderLabelIV then can_bstr value && negb (has_label h c_HeaderLabelPartialIV)
      else if n =? c_HeaderLabelPartialIV then can_bstr value && negb (has_label h c_HeaderLabelIV)
      else if n =? c_HeaderLabelCounterSignature then negb protected && is_csig_value value
      else if n =? c_HeaderLabelCounterSignature0 then negb protected && can_bstr value
      else if n =? c_HeaderLabelCounterSignatureV2 then negb protected && is_csig_value value
      else if n =? c_HeaderLabelCounterSignature0V2 then negb protected && can_bstr value
      else true
  | _ => true
  end.

(* validateHeaderParameters: every entry has an int/tstr label, normalised
   labels are unique, each entry passes its rule.  (Go stops at the first
   failing entry it meets in iteration order; only accept/reject is modelled,
   every failure is an untyped error.) *)
Fixpoint norm_labels (h : list gv) : option (list gv) :=
  match h with
  | k :: _ :: r =>
      match normalize_label k, norm_labels r with
      | Some k', Some ks => Some (k' :: ks)
      | _, _ => None
      end
  | _ => Some []
  end.

Fixpoint labels_nodup (ks : list gv) : bool :=
  match ks with
  | [] => true
  | k :: r => negb (existsb (key_eqb k) r) && labels_nodup r
  end.

Fixpoint check_entries (protected : bool) (whole h : list gv) : bool :=
  match h with
  | k :: v :: r =>
      match normalize_label k with
      | Some k' => check_param protected whole k' v && check_entries protected whole r
      | None => false
      end
  | _ => true
  end.

Definition validate_params (h : list gv) (protected : bool) : bool :=
  match norm_labels h with
  | Some ks => labels_nodup ks && check_entries protected h h
  | None => false
  end.

(* ---- ensureIV ---- *)
Definition ensure_iv (h : headers) : bool :=
  negb (has_label (hmap (hP h)) c_HeaderLabelIV && has_label (hmap (hU h)) c_HeaderLabelPartialIV) &&
  negb (has_label (hmap (hP h)) c_HeaderLabelPartialIV && has_label (hmap (hU h)) c_HeaderLabelIV).

(* h.Protected.SetAlgorithm(alg): map assignment h[int64(1)] = Algorithm(alg) *)
Fixpoint gset (k v : gv) (l : list gv) : list gv :=
  match l with
  | k' :: v' :: r => if key_eqb k k' then k' :: v :: r else k' :: v' :: gset k v r
  | _ => [k; v]
  end.
Definition set_alg (p : list gv) (a : Z) : list gv := gset (lbl c_HeaderLabelAlgorithm) (GInt KAlg a) p.

(* ---- ensureSigningAlgorithm: returns the (possibly updated) headers ---- *)
Definition ensure_signing_alg (h : headers) (alg : Z) (external : gobytes) : res headers :=
  match alg_of (hP h) with
  | Acc cand => if cand =? alg then Acc h else Rej EAlgMismatch
  | Rej EAlgNotFound =>
      if 0 <? glen external then Acc h
      else match rawP h with
           | Some _ => Rej EAlgNotFound
           | None => Acc (mkH (rawP h) (Some (set_alg (hmap (hP h)) alg)) (rawU h) (hU h))
           end
  | Rej e => Rej e
  | Panic => Panic
  | Unm => Unm
  end.

(* ---- ensureVerificationAlgorithm ---- *)
Definition ensure_verification_alg (h : headers) (alg : Z) (external : gobytes) : res unit :=
  match alg_of (hP h) with
  | Acc cand => if cand =? alg then Acc tt else Rej EAlgMismatch
  | Rej EAlgNotFound => if 0 <? glen external then Acc tt else Rej EAlgNotFound
  | Rej e => Rej e
  | Panic => Panic
  | Unm => Unm
  end.
