(* HeWire.v — C12: an envelope SignHashEnvelope produced is accepted by VerifyHashEnvelope under an accepting
   verifier, and the returned message carries the same digest and payload hash algorithm. *)
From Coq Require Import Ascii String ZArith List Lia Bool Arith ZifyBool Permutation.
From GoCose Require Import Bytes Cbor CborProofs Res GoVal Fx Headers Enc Dec Msg HashEnv TbsProofs FlowProofs DecProofs HdrProofs EncProofs EncCanon EncDec HdrRoundTrip MoreProofs WireLeg.
From GoCose.Gen Require Import Generated.
Import ListNotations.
Open Scope Z_scope.

(* ---------- the envelope rules through entries ---------- *)
Definition he_entry_ok (k' v : gv) : bool :=
  match k' with
  | GInt KInt64 n =>
      if n =? c_HeaderLabelContentType then false
      else if n =? c_HeaderLabelPayloadHashAlgorithm then is_alg_typed v || can_int v
      else if n =? c_HeaderLabelPayloadPreimageContentType then can_uint v || can_tstr v
      else if n =? c_HeaderLabelPayloadLocation then can_tstr v
      else true
  | _ => true
  end.

Lemma he_prot_ok_spec : forall h, Nat.even (length h) = true ->
  (he_prot_ok h = true <-> forall k v, entry_in k v h -> exists k', normalize_label k = Some k' /\ he_entry_ok k' v = true).
Proof.
  induction h as [| |k0 v0 r IH] using pair_ind; intros He.
  - split; [intros _ k v []|reflexivity].
  - discriminate.
  - cbn [he_prot_ok]. split.
    + intros H k v [[-> ->]|Hin].
      * destruct (normalize_label k0) as [k0'|]; [|discriminate]. exists k0'. split; auto.
        unfold he_entry_ok. destruct k0'; try reflexivity. destruct k; try reflexivity.
        apply andb_true_iff in H as [H _]. exact H.
      * apply (proj1 (IH He)); auto. destruct (normalize_label k0) as [k0'|]; [|discriminate].
        destruct k0'; auto. destruct k1; auto. apply andb_true_iff in H as [_ H]. exact H.
    + intros H. destruct (H k0 v0 (or_introl (conj eq_refl eq_refl))) as (k0' & -> & Hk).
      assert (Hr : he_prot_ok r = true) by (apply (proj2 (IH He)); intros k v Hin; apply H; right; exact Hin).
      unfold he_entry_ok in Hk. destruct k0'; auto. destruct k; auto. rewrite Hk, Hr. reflexivity.
Qed.

Lemma he_has_spec : forall h,
  he_has_hash_alg h = true <-> exists k v, entry_in k v h /\ normalize_label k = Some (lbl c_HeaderLabelPayloadHashAlgorithm).
Proof.
  induction h as [| |k0 v0 r IH] using pair_ind.
  - split; [discriminate|intros (k & v & [] & _)].
  - split; [discriminate|intros (k & v & [] & _)].
  - cbn [he_has_hash_alg]. split.
    + intros H.
      assert (T : he_has_hash_alg r = true -> exists k v, entry_in k v (k0 :: v0 :: r) /\ normalize_label k = Some (lbl c_HeaderLabelPayloadHashAlgorithm)).
      { intros Hr. apply IH in Hr as (k & v & Hi & Hk). exists k, v. split; [right; exact Hi|exact Hk]. }
      destruct (normalize_label k0) as [k0'|] eqn:N; [|auto].
      destruct k0' as [kk n| | | | | | | | | | | | | | | |]; auto. destruct kk; auto.
      apply orb_true_iff in H as [H|H]; [|auto].
      apply Z.eqb_eq in H. subst n. exists k0, v0. split; [left; auto|exact N].
    + intros (k & v & [[-> ->]|Hi] & Hk).
      * rewrite Hk. unfold lbl. rewrite Z.eqb_refl. reflexivity.
      * assert (he_has_hash_alg r = true) by (apply IH; eauto).
        destruct (normalize_label k0) as [k0'|]; auto. destruct k0'; auto. destruct k1; auto. rewrite H. apply orb_true_r.
Qed.

Definition he_unprot_entry_ok (k' : gv) : bool :=
  match k' with
  | GInt KInt64 n => negb ((n =? c_HeaderLabelContentType) || (n =? c_HeaderLabelPayloadHashAlgorithm) ||
                           (n =? c_HeaderLabelPayloadPreimageContentType) || (n =? c_HeaderLabelPayloadLocation))
  | _ => true
  end.

Lemma he_unprot_ok_spec : forall h, Nat.even (length h) = true ->
  (he_unprot_ok h = true <-> forall k v, entry_in k v h -> exists k', normalize_label k = Some k' /\ he_unprot_entry_ok k' = true).
Proof.
  induction h as [| |k0 v0 r IH] using pair_ind; intros He.
  - split; [intros _ k v []|reflexivity].
  - discriminate.
  - cbn [he_unprot_ok]. split.
    + intros H k v [[-> ->]|Hin].
      * destruct (normalize_label k0) as [k0'|]; [|discriminate]. exists k0'. split; auto.
        unfold he_unprot_entry_ok. destruct k0'; try reflexivity. destruct k; try reflexivity.
        apply andb_true_iff in H as [H _]. exact H.
      * assert (Hr : he_unprot_ok r = true).
        { destruct (normalize_label k0) as [k0'|]; [|discriminate].
          destruct k0'; auto. destruct k1; auto. apply andb_true_iff in H as [_ H]. exact H. }
        exact (proj1 (IH He) Hr k v Hin).
    + intros H. destruct (H k0 v0 (or_introl (conj eq_refl eq_refl))) as (k0' & -> & Hk).
      assert (Hr : he_unprot_ok r = true) by (apply (proj2 (IH He)); intros k v Hin; apply (H k v); right; exact Hin).
      unfold he_unprot_entry_ok in Hk. destruct k0'; auto. destruct k; auto. rewrite Hk, Hr. reflexivity.
Qed.

(* ---------- the rules move along hrel ---------- *)
Lemma he_entry_mono k' v v' :
  rel v v' -> (match v with GInt k n => is_unsigned_kind k = true -> 0 <= n | _ => True end) ->
  he_entry_ok k' v = true -> he_entry_ok k' v' = true.
Proof.
  intros R U H. unfold he_entry_ok in *. destruct k' as [kk n| | | | | | | | | | | | | | | |]; auto. destruct kk; auto.
  repeat match goal with |- context [if ?c then _ else _] => destruct c eqn:? end; auto.
  - inversion R; subst; cbn in H |- *; try discriminate; auto.
  - inversion R; subst; cbn in H |- *; try discriminate; auto.
    destruct (is_unsigned_kind k) eqn:Eu; cbn in H |- *.
    + specialize (U eq_refl). rewrite orb_false_r. lia.
    + rewrite orb_false_r in *. apply andb_true_iff in H as [_ H]. exact H.
  - inversion R; subst; cbn in H |- *; try discriminate; auto.
Qed.

Lemma even_pairs_len l dl : hrel l dl -> Nat.even (length dl) = true.
Proof. intros (_ & _ & _ & E). exact E. Qed.

Lemma he_prot_transport l dl :
  hrel l dl -> Nat.even (length l) = true -> (forall k v, entry_in k v l -> okval v) ->
  he_prot_ok l = true -> he_prot_ok dl = true.
Proof.
  intros H El Hok Hp. apply he_prot_ok_spec; [eapply even_pairs_len; eauto|]. intros k' v' Hin.
  destruct (hrel_bwd _ _ _ _ H Hin) as (k & v & Hin0 & Hk & Rv).
  destruct (proj1 (he_prot_ok_spec l El) Hp k v Hin0) as (k0 & Hk0 & He). rewrite Hk in Hk0. inversion Hk0; subst k0.
  exists k'. split; [apply (hrel_keys_normal _ _ H k' v' Hin)|].
  destruct (Hok k v Hin0) as (_ & _ & U). eapply he_entry_mono; eauto.
Qed.

Lemma he_has_transport l dl : hrel l dl -> he_has_hash_alg l = true -> he_has_hash_alg dl = true.
Proof.
  intros H Hh. apply he_has_spec in Hh as (k & v & Hin & Hk). apply he_has_spec.
  destruct (hrel_fwd _ _ _ _ H Hin) as (k' & v' & Hin' & Hk' & _). rewrite Hk in Hk'. inversion Hk'; subst k'.
  exists (lbl c_HeaderLabelPayloadHashAlgorithm), v'. split; [exact Hin'|reflexivity].
Qed.

Lemma he_unprot_transport l dl :
  hrel l dl -> Nat.even (length l) = true -> he_unprot_ok l = true -> he_unprot_ok dl = true.
Proof.
  intros H El Hu. apply he_unprot_ok_spec; [eapply even_pairs_len; eauto|]. intros k' v' Hin.
  destruct (hrel_bwd _ _ _ _ H Hin) as (k & v & Hin0 & Hk & _).
  destruct (proj1 (he_unprot_ok_spec l El) Hu k v Hin0) as (k0 & Hk0 & He). rewrite Hk in Hk0. inversion Hk0; subst k0.
  exists k'. split; [apply (hrel_keys_normal _ _ H k' v' Hin)|exact He].
Qed.

(* ---------- through the Algorithm cast of the decoder (h[1] = Algorithm(alg)) ---------- *)
Lemma gset_even key v : forall h, Nat.even (length h) = true -> Nat.even (length (gset key v h)) = true.
Proof.
  induction h as [| |k0 v0 r IH] using pair_ind; intros He; [reflexivity|discriminate|].
  cbn [gset]. destruct (key_eqb key k0); [exact He|]. cbn [length]. apply IH. exact He.
Qed.

Lemma gset_entry_cases key v : forall h k x, entry_in k x (gset key v h) ->
  entry_in k x h \/ (x = v /\ (k = key \/ key_eqb key k = true)).
Proof.
  induction h as [| |k0 v0 r IH] using pair_ind; intros k x H.
  - cbn in H. destruct H as [[-> ->]|[]]. right. auto.
  - cbn in H. destruct H as [[-> ->]|[]]. right. auto.
  - cbn [gset] in H. destruct (key_eqb key k0) eqn:E.
    + destruct H as [[-> ->]|H]; [right; auto|left; right; exact H].
    + destruct H as [[-> ->]|H]; [left; left; auto|].
      destruct (IH k x H) as [H1|H1]; [left; right; exact H1|right; exact H1].
Qed.

Lemma gset_entry_keep key v : forall h k x, entry_in k x h -> key_eqb key k = false -> entry_in k x (gset key v h).
Proof.
  induction h as [| |k0 v0 r IH] using pair_ind; intros k x H E; try contradiction.
  cbn [gset]. destruct H as [[-> ->]|H].
  - rewrite E. left. auto.
  - destruct (key_eqb key k0); right; auto.
Qed.

Lemma glookup_gset_other want key v : key_eqb want key = false -> (forall k, key_eqb key k = true -> key_eqb want k = false) ->
  forall h, glookup want (gset key v h) = glookup want h.
Proof.
  intros E T. induction h as [| |k0 v0 r IH] using pair_ind.
  - cbn. rewrite E. reflexivity.
  - cbn. rewrite E. reflexivity.
  - cbn [gset]. destruct (key_eqb key k0) eqn:E0; cbn [glookup].
    + rewrite (T k0 E0). reflexivity.
    + destruct (key_eqb want k0); [reflexivity|exact IH].
Qed.

Lemma nfind_gset_other want key v : is_label want -> is_label key -> normalize_label key = Some key -> want <> key ->
  forall h, nfind want (gset key v h) = nfind want h.
Proof.
  intros Lw Lk Nk Ne. assert (E : key_eqb want key = false).
  { destruct (key_eqb want key) eqn:E; auto. apply key_eqb_label_eq in E; auto. congruence. }
  induction h as [| |k0 v0 r IH] using pair_ind.
  - cbn. rewrite Nk, E. reflexivity.
  - cbn. rewrite Nk, E. reflexivity.
  - cbn [gset]. destruct (key_eqb key k0) eqn:E0; cbn [nfind].
    + apply key_eqb_label_eq in E0; auto. subst k0. rewrite Nk, E. reflexivity.
    + destruct (normalize_label k0) as [k0'|]; [destruct (key_eqb want k0'); [reflexivity|]|]; exact IH.
Qed.

Lemma nlookup_gset_other n m v h : n <> m -> wrap64 n = n -> wrap64 m = m ->
  nlookup (lbl n) (gset (lbl m) v h) = nlookup (lbl n) h.
Proof.
  intros Ne Wn Wm. unfold nlookup. rewrite normalize_lbl, Wn.
  assert (Ln : is_label (GInt KInt64 n)) by (left; eauto). assert (Lm : is_label (lbl m)) by (left; eauto).
  rewrite glookup_gset_other.
  - rewrite nfind_gset_other; auto; [unfold lbl; cbn; rewrite Wm; reflexivity|unfold lbl; congruence].
  - cbn. lia.
  - intros k Hk. apply key_eqb_label_eq in Hk; auto. subst k. cbn. lia.
Qed.

Lemma he_prot_cast dl : Nat.even (length dl) = true -> he_prot_ok dl = true -> he_prot_ok (cast_alg dl) = true.
Proof.
  intros Ev H. unfold cast_alg. destruct (alg_of (Some dl)); auto. unfold set_alg.
  apply he_prot_ok_spec; [apply gset_even; exact Ev|]. intros k x Hin.
  destruct (gset_entry_cases _ _ _ _ _ Hin) as [H0|(-> & Hk)].
  - exact (proj1 (he_prot_ok_spec dl Ev) H k x H0).
  - assert (k = lbl c_HeaderLabelAlgorithm).
    { destruct Hk as [->|Hk]; auto. apply key_eqb_label_eq in Hk; [auto|left; eauto]. }
    subst k. exists (lbl c_HeaderLabelAlgorithm). split; reflexivity.
Qed.

Lemma he_has_cast l dl : hrel l dl -> he_has_hash_alg dl = true -> he_has_hash_alg (cast_alg dl) = true.
Proof.
  intros HR H. unfold cast_alg. destruct (alg_of (Some dl)); auto. unfold set_alg.
  apply he_has_spec in H as (k & v & Hin & Hk). apply he_has_spec.
  destruct (hrel_keys_normal _ _ HR k v Hin) as [Hid _]. rewrite Hid in Hk. inversion Hk; subst k.
  exists (lbl c_HeaderLabelPayloadHashAlgorithm), v. split; [|reflexivity].
  apply gset_entry_keep; [exact Hin|reflexivity].
Qed.

(* ---------- the envelope ---------- *)
Lemma pha_transport l dl ks a :
  hrel l dl -> norm_labels l = Some ks -> labels_nodup ks = true ->
  payload_hash_alg_of (Some l) = Acc a -> payload_hash_alg_of (Some (cast_alg dl)) = Acc a.
Proof.
  intros H Hn Hd A. unfold payload_hash_alg_of in *. cbn [hmap] in *.
  assert (E : nlookup (lbl c_HeaderLabelPayloadHashAlgorithm) (cast_alg dl) = nlookup (lbl c_HeaderLabelPayloadHashAlgorithm) dl).
  { unfold cast_alg. destruct (alg_of (Some dl)); auto. unfold set_alg. apply nlookup_gset_other; [discriminate|reflexivity|reflexivity]. }
  rewrite E. pose proof (hrel_lookup l dl ks (lbl c_HeaderLabelPayloadHashAlgorithm) H Hn Hd) as L.
  destruct (nlookup (lbl c_HeaderLabelPayloadHashAlgorithm) l) as [v|]; [|discriminate].
  destruct L as (v' & -> & R). inversion R; subst; cbn in A |- *; try discriminate.
  destruct k; try discriminate; exact A.
Qed.

Lemma even_of_simple_map l : simple (GMap l) = true -> Nat.even (length l) = true.
Proof.
  cbn [simple]. intros H. apply andb_true_iff in H as [H _]. apply andb_true_iff in H as [_ Hk].
  revert Hk. induction l as [| |k v r IH] using pair_ind; intros Hk; [reflexivity|discriminate|].
  cbn [keys_ok] in Hk. apply andb_true_iff in Hk as [_ Hk]. exact (IH Hk).
Qed.

(* C12: a serialised COSE_Sign1 that obeys the envelope rules and verifies in memory is accepted by
   VerifyHashEnvelope, which returns the digest and the payload hash algorithm that were put in *)
Theorem he_wire x r ou hv sig env vf a :
  let lp := x :: r in
  let m1 := mkS1 (mkH None (Some lp) None ou) (Some hv) (Some sig) in
  bucket_ok (Some lp) -> bucket_ok ou -> prot_limits (Some lp) -> unprot_limits ou ->
  short hv -> short sig -> sig <> [] ->
  validate_he_headers (s1_h m1) = true ->
  payload_hash_alg_of (Some lp) = Acc a -> validate_hash a (Some hv) = true ->
  marshal_sign1 m1 = Acc env -> lib_wf false (tl env) <> None ->
  fst (sign1_verify m1 None vf) = Acc tt ->
  exists m', fst (verify_he vf env) = Acc m' /\ s1_payload m' = Some hv /\ s1_sig m' = Some sig /\
             payload_hash_alg_of (hP (s1_h m')) = Acc a.
Proof.
  intros lp m1 Hp Hu Lp Lu Shv Ssg Hne Vh Pa Vd Hm Hlim Hv. subst m1. subst lp.
  destruct (sign1_wire_roundtrip (Some (x :: r)) ou (Some hv) sig env Hp Hu Lp Lu Shv Ssg Hne Hm Hlim)
    as (pb & ub & dp & du & Mp & Mu & U & Vp & Vu & Lpb & Bp & Bu).
  destruct (sign1_wire_verifies (Some (x :: r)) ou (Some hv) sig env None vf Hp Hu Lp Lu Shv Ssg Hne Hm Hlim Hv) as (m2 & U2 & Hv2).
  rewrite U in U2. inversion U2; subst m2; clear U2.
  cbn [brel] in Bp. destruct Bp as (dl & -> & HR & VP).
  unfold validate_he_headers in Vh. cbn [s1_h hP hU hmap] in Vh.
  apply andb_true_iff in Vh as [Vh Vu3]. apply andb_true_iff in Vh as [Vh1 Vh2].
  destruct Hp as [Sp Okp].
  pose proof (even_of_simple_map (x :: r) Sp) as Elp. pose proof (even_pairs_len _ _ HR) as Edl.
  assert (V2 : validate_he_headers (mkH (Some pb) (Some (cast_alg dl)) (Some ub) (Some du)) = true).
  { unfold validate_he_headers. cbn [hP hU hmap].
    rewrite (he_prot_cast dl Edl (he_prot_transport (x :: r) dl HR Elp Okp Vh1)).
    rewrite (he_has_cast (x :: r) dl HR (he_has_transport (x :: r) dl HR Vh2)). cbn [andb].
    destruct ou as [[|y s]|]; cbn [urel hmap] in Bu, Vu3; try (subst du; reflexivity).
    destruct Bu as [HRu _]. destruct Hu as [Su _]. apply (he_unprot_transport (y :: s) du HRu (even_of_simple_map _ Su) Vu3). }
  assert (P2 : payload_hash_alg_of (Some (cast_alg dl)) = Acc a).
  { unfold validate_params in VP. destruct (norm_labels (x :: r)) as [ks|] eqn:Hn; [|discriminate VP].
    apply andb_true_iff in VP as [Hd _]. eapply pha_transport; eauto. }
  unfold verify_he. rewrite U. cbn [s1_h]. rewrite V2. cbn [negb].
  destruct (sign1_verify (mkS1 (mkH (Some pb) (Some (cast_alg dl)) (Some ub) (Some du)) (Some hv) (Some sig)) None vf) as [rv calls] eqn:SV.
  cbn [fst] in Hv2. subst rv. cbn [hP s1_payload s1_sig rawP rawU hU]. rewrite P2, Vd. cbn [fst].
  eexists. split; [reflexivity|]. cbn [s1_payload s1_sig s1_h hP]. split; [reflexivity|]. split; [reflexivity|].
  unfold payload_hash_alg_of. cbn [hmap]. unfold nlookup. rewrite normalize_lbl.
  change (wrap64 c_HeaderLabelPayloadHashAlgorithm) with c_HeaderLabelPayloadHashAlgorithm.
  fold (lbl c_HeaderLabelPayloadHashAlgorithm). rewrite glookup_gset_lbl. reflexivity.
Qed.

(* composed with SignHashEnvelope: whatever it returns is accepted *)
Theorem sign_he_then_verify_he sg vf h p env calls x r sig :
  rawU h = None ->
  sign_he sg h p = (Acc env, calls) ->
  accepts vf sg ->
  let h' := mkH None (Some (set_he_protected (hP h) p)) None (hU h) in
  out_post (sign1_sign (mkS1 h' (he_value p) None) None sg) = mkS1 (mkH None (Some (x :: r)) None (hU h)) (he_value p) (Some sig) ->
  bucket_ok (Some (x :: r)) -> bucket_ok (hU h) -> prot_limits (Some (x :: r)) -> unprot_limits (hU h) ->
  (exists hv, he_value p = Some hv /\ short hv) -> short sig ->
  validate_he_headers (mkH None (Some (x :: r)) None (hU h)) = true ->
  payload_hash_alg_of (Some (x :: r)) = Acc (he_alg p) ->
  lib_wf false (tl env) <> None ->
  exists m', fst (verify_he vf env) = Acc m' /\ s1_payload m' = he_value p /\
             payload_hash_alg_of (hP (s1_h m')) = Acc (he_alg p).
Proof.
  intros Hru Hs Hacc h' Post Hp Hu Lp Lu (hv & Ehv & Shv) Ssg Vh Pa Hlim. subst h'.
  destruct (sign_he_produces sg h p env calls Hs) as (Vd & _ & Hok & Hm & _). cbv zeta in Hok, Hm. rewrite Hru in *.
  rewrite Post in Hm. rewrite Ehv in *.
  assert (Hne : sig <> []).
  { intros ->. unfold marshal_sign1, sign1_content in Hm. cbn in Hm. discriminate. }
  assert (Hv : fst (sign1_verify (mkS1 (mkH None (Some (x :: r)) None (hU h)) (Some hv) (Some sig)) None vf) = Acc tt).
  { rewrite <- Post. apply sign1_sign_then_verify; auto.
    rewrite Post. cbn. destruct sig; [contradiction|]. rewrite len_cons. pose proof (len_nonneg sig). lia. }
  destruct (he_wire x r (hU h) hv sig env vf (he_alg p) Hp Hu Lp Lu Shv Ssg Hne Vh Pa Vd Hm Hlim Hv) as (m' & A & B & _ & C).
  exists m'. auto.
Qed.
Print Assumptions sign_he_then_verify_he.

(* the premises are satisfiable: a SHA-256 envelope signed by a stub key and verified by an accepting verifier *)
Definition ex_sg : signer := mkSigner (-7) (fun _ => SOk (Some [9; 9])).
Definition ex_vf : verifier := mkVerifier (-7) (fun _ _ => Acc tt).
Definition ex_h : headers := mkH None (Some [lbl 1; GInt KAlg (-7)]) None None.
Definition ex_p : hepayload := mkHE (-16) (Some (repeat 7 32)) GNil [].
Definition ex_env : bytes := Eval vm_compute in match fst (sign_he ex_sg ex_h ex_p) with Acc e => e | _ => [] end.

Example he_example :
  fst (sign_he ex_sg ex_h ex_p) = Acc ex_env /\
  match fst (verify_he ex_vf ex_env) with
  | Acc m => s1_payload m = Some (repeat 7 32) /\ payload_hash_alg_of (hP (s1_h m)) = Acc (-16)
  | _ => False
  end.
Proof. split; vm_compute; [reflexivity|split; reflexivity]. Qed.
