(* C10 — Countersignatures sign the RFC 9338 structure and bind to their exact parent.
   Statements only (copied from coq/theories by bin/mkprops); each proof is `exact <lemma>`. *)
From Coq Require Import Ascii String ZArith List Bool Permutation.
From GoCose Require Import Bytes Cbor CborProofs Res GoVal Obs Ecdsa Fx Headers Enc Dec Msg HashEnv Key SigVer Run TbsProofs FlowProofs AskedOnce CsigList.
From GoCose.Gen Require Import Generated.
Import ListNotations.
Open Scope Z_scope.

Theorem C10_countersign_tbs_spec :
  forall abbreviated target signprot ext t,
  countersign_tbs abbreviated target signprot ext = Acc t ->
  exists h pl other other' cb ws cs,
    parent_fields target = Acc (h, pl, other) /\
    other_seen other other' /\
    prot_content h cb /\
    parse_full signprot = Some (WStr false ws cs) /\
    t = ser (csign_tree (ctx_countersign abbreviated (match other with Some _ => true | None => false end))
                        cb cs (gor ext) pl other').
Proof. exact countersign_tbs_spec. Qed.
Print Assumptions C10_countersign_tbs_spec.

Theorem C10_other_seen_short :
  forall other other',
  (match other with Some sg => short sg | None => True end) -> other_seen other other' -> other' = other.
Proof. exact other_seen_short. Qed.
Print Assumptions C10_other_seen_short.

(* unsigned, payload-less and foreign parents are refused *)
Theorem C10_countersign_refuses :
  forall abbreviated target signprot ext,
  (forall x, parent_fields target <> Acc x) ->
  forall t, countersign_tbs abbreviated target signprot ext <> Acc t.
Proof. exact countersign_refuses. Qed.
Print Assumptions C10_countersign_refuses.

(* binding: the signed bytes determine parent protected bytes, payload, signature, external data and form *)
Theorem C10_csign_injective :
  forall s bp sp e p o s' bp' sp' e' p' o',
  (String.length s < 1000)%nat -> (String.length s' < 1000)%nat ->
  short bp -> short sp -> short e -> short p -> (match o with Some sg => short sg | None => True end) ->
  short bp' -> short sp' -> short e' -> short p' -> (match o' with Some sg => short sg | None => True end) ->
  ser (csign_tree s bp sp e p o) = ser (csign_tree s' bp' sp' e' p' o') ->
  str_bytes s = str_bytes s' /\ bp = bp' /\ sp = sp' /\ e = e' /\ p = p' /\ o = o'.
Proof. exact csign_injective. Qed.
Print Assumptions C10_csign_injective.

(* not replayable as a message signature *)
Theorem C10_sign_vs_csign_ctx :
  forall s bp sp e p s' bp' sp' e' p' o',
  (String.length s < 1000)%nat -> (String.length s' < 1000)%nat ->
  short bp -> short sp -> short e -> short p ->
  short bp' -> short sp' -> short e' -> short p' -> (match o' with Some sg => short sg | None => True end) ->
  str_bytes s <> str_bytes s' ->
  ser (sign_tree s bp sp e p) <> ser (csign_tree s' bp' sp' e' p' o').
Proof. exact sign_vs_csign_ctx. Qed.
Print Assumptions C10_sign_vs_csign_ctx.

Theorem C10_contexts_distinct :
  let cs := map str_bytes ["Signature1"; "Signature"; "CounterSignature"; "CounterSignatureV2";
                            "CounterSignature0"; "CounterSignature0V2"]%string in
  NoDup cs.
Proof. exact contexts_distinct. Qed.
Print Assumptions C10_contexts_distinct.

Theorem C10_csig_tbs_unprot_irrelevant :
  forall rp p ru u ru' u' sg target ext,
  csig_tbs (mkSig (mkH rp p ru u) sg) target ext = csig_tbs (mkSig (mkH rp p ru' u') sg) target ext.
Proof. exact csig_tbs_unprot_irrelevant. Qed.
Print Assumptions C10_csig_tbs_unprot_irrelevant.

Theorem C10_csig_verify_iff :
  forall s vf target ext,
  fst (csig_verify s vf target ext) = Acc tt <->
  glen (sg_sig s) <> 0 /\ ensure_verification_alg (sg_h s) (vf_alg vf) ext = Acc tt /\
  exists t, csig_tbs s target ext = Acc t /\ vf_run vf t (sg_sig s) = Acc tt.
Proof. exact csig_verify_iff. Qed.
Print Assumptions C10_csig_verify_iff.

(* Countersignature.Sign never writes the holder's retained header bytes or its unprotected bucket, and changes the decoded protected bucket at most by inserting the signer's algorithm: a holder signed again after an edit is signed as edited *)
Theorem C10_csig_sign_keeps_holder :
  forall s sg target ext,
  let o := csig_sign s sg target ext in
  rawP (sg_h (out_post o)) = rawP (sg_h s) /\
  rawU (sg_h (out_post o)) = rawU (sg_h s) /\
  hU (sg_h (out_post o)) = hU (sg_h s) /\
  (hP (sg_h (out_post o)) = hP (sg_h s) \/
   (rawP (sg_h s) = None /\ hP (sg_h (out_post o)) = Some (set_alg (hmap (hP (sg_h s))) (sg_alg sg)))).
Proof. exact csig_sign_keeps_holder. Qed.
Print Assumptions C10_csig_sign_keeps_holder.

(* a parent decoded with a list of countersignatures: entry i is decoded from element i of the wire, so each entry is verified over its own protected bytes and signature *)
Theorem C10_dec_sig_list_nth :
  forall f l cs i y,
  dec_sig_list f l = Acc cs -> nth_error l i = Some y ->
  exists c, nth_error cs i = Some c /\ dec_sig_at f (strip_sd y) = Acc c.
Proof. exact dec_sig_list_nth. Qed.
Print Assumptions C10_dec_sig_list_nth.

(* a decoded countersignature retains the bytes of its own element: protected and unprotected items as serialised, its own signature *)
Theorem C10_dec_sig_at_own_bytes :
  forall f x c,
  dec_sig_at f x = Acc c ->
  exists p uu s pm um sg,
    x = WArr W0 [p; uu; s] /\ bstr_or_nil s = Acc sg /\
    c = GCsig (Some (ser p)) (Some pm) (Some (ser uu)) (Some um) sg.
Proof. exact dec_sig_at_own_bytes. Qed.
Print Assumptions C10_dec_sig_at_own_bytes.
