(* C15 — Accepted COSE_Keys are consistent and their restrictions are enforced.
   Statements only (copied from coq/theories by bin/mkprops); each proof is `exact <lemma>`. *)
From Coq Require Import Ascii String ZArith List Bool Permutation.
From GoCose Require Import Bytes Cbor Res GoVal Obs Ecdsa Fx Headers Enc Dec Msg HashEnv Key SigVer Run KeyProofs.
From GoCose.Gen Require Import Generated.
Import ListNotations.
Open Scope Z_scope.

Theorem C15_key_unmarshal_validated :
  forall data k,
  key_unmarshal data = Acc k -> key_validate k 0 = Acc tt /\ k_type k <> c_KeyTypeReserved.
Proof. exact key_unmarshal_validated. Qed.
Print Assumptions C15_key_unmarshal_validated.

Theorem C15_key_validate_ec2 :
  forall k op,
  key_validate k op = Acc tt -> k_type k = c_KeyTypeEC2 ->
  key_crv k <> c_CurveReserved /\
  ~ In (key_crv k) [c_CurveX25519; c_CurveX448; c_CurveEd25519; c_CurveEd448] /\
  (0 < curve_size (key_crv k) ->
     glen (key_x k) <= curve_size (key_crv k) /\ glen (key_y k) <= curve_size (key_crv k) /\
     glen (key_d k) <= curve_size (key_crv k)) /\
  (k_alg k <> c_AlgorithmReserved -> derive_alg k = Acc (k_alg k)) /\
  (op = c_KeyOpVerify -> glen (key_x k) <> 0 /\ glen (key_y k) <> 0) /\
  (op = c_KeyOpSign -> glen (key_d k) <> 0).
Proof. exact key_validate_ec2. Qed.
Print Assumptions C15_key_validate_ec2.

Theorem C15_key_validate_okp :
  forall k op,
  key_validate k op = Acc tt -> k_type k = c_KeyTypeOKP ->
  key_crv k <> c_CurveReserved /\
  ~ In (key_crv k) [c_CurveP256; c_CurveP384; c_CurveP521] /\
  (glen (key_x k) = 0 \/ glen (key_x k) = 32) /\ (glen (key_d k) = 0 \/ glen (key_d k) = 32) /\
  (k_alg k <> c_AlgorithmReserved -> derive_alg k = Acc (k_alg k)) /\
  (op = c_KeyOpVerify -> glen (key_x k) <> 0) /\ (op = c_KeyOpSign -> glen (key_d k) <> 0).
Proof. exact key_validate_okp. Qed.
Print Assumptions C15_key_validate_okp.

Theorem C15_derive_alg_table :
  forall k a,
  derive_alg k = Acc a ->
  (k_type k = c_KeyTypeEC2 /\ key_crv k = c_CurveP256 /\ a = c_AlgorithmES256) \/
  (k_type k = c_KeyTypeEC2 /\ key_crv k = c_CurveP384 /\ a = c_AlgorithmES384) \/
  (k_type k = c_KeyTypeEC2 /\ key_crv k = c_CurveP521 /\ a = c_AlgorithmES512) \/
  (k_type k = c_KeyTypeOKP /\ key_crv k = c_CurveEd25519 /\ a = c_AlgorithmEdDSA).
Proof. exact derive_alg_table. Qed.
Print Assumptions C15_derive_alg_table.

Theorem C15_key_signer_restrictions :
  forall k a,
  key_signer k = Acc a ->
  can_op k c_KeyOpSign = true /\ key_validate k c_KeyOpSign = Acc tt /\ derive_alg k = Acc a /\
  (k_type k = c_KeyTypeEC2 \/ k_type k = c_KeyTypeOKP) /\ glen (key_d k) <> 0.
Proof. exact key_signer_restrictions. Qed.
Print Assumptions C15_key_signer_restrictions.

Theorem C15_key_verifier_restrictions :
  forall k oc a,
  key_verifier k oc = Acc a ->
  can_op k c_KeyOpVerify = true /\ key_validate k c_KeyOpVerify = Acc tt /\ derive_alg k = Acc a /\
  (k_type k = c_KeyTypeEC2 \/ k_type k = c_KeyTypeOKP) /\ glen (key_x k) <> 0.
Proof. exact key_verifier_restrictions. Qed.
Print Assumptions C15_key_verifier_restrictions.

Theorem C15_key_ops_enforced :
  forall k oc,
  (can_op k c_KeyOpSign = false -> key_signer k = Rej EOpNotSupported) /\
  (can_op k c_KeyOpVerify = false -> key_verifier k oc = Rej EOpNotSupported).
Proof. exact key_ops_enforced. Qed.
Print Assumptions C15_key_ops_enforced.
