(* C17 — Built-in signers/verifiers exist only for matching, adequate keys.
   Statements only (copied from coq/theories by bin/mkprops); each proof is `exact <lemma>`. *)
From Coq Require Import Ascii String ZArith List Bool Permutation.
From GoCose Require Import Bytes Cbor Res GoVal Obs Ecdsa Fx Headers Enc Dec Msg HashEnv Key SigVer Run KeyProofs.
From GoCose.Gen Require Import Generated.
Import ListNotations.
Open Scope Z_scope.

Theorem C17_new_signer_spec :
  forall alg kd a,
  new_signer alg kd = Acc a <-> a = alg /\ signer_spec alg kd.
Proof. exact new_signer_spec. Qed.
Print Assumptions C17_new_signer_spec.

Theorem C17_new_verifier_spec :
  forall alg kd a,
  new_verifier alg kd = Acc a <-> a = alg /\ verifier_spec alg kd.
Proof. exact new_verifier_spec. Qed.
Print Assumptions C17_new_verifier_spec.

Theorem C17_unsupported_algorithms :
  forall alg kd,
  ~ rsa_alg alg -> ~ ecdsa_alg alg -> alg <> c_AlgorithmEdDSA ->
  new_signer alg kd = Rej EAlgNotSupported /\ new_verifier alg kd = Rej EAlgNotSupported.
Proof. exact unsupported_algorithms. Qed.
Print Assumptions C17_unsupported_algorithms.

Theorem C17_hash_func_spec :
  forall a,
  hash_func a = (if (a =? -37) || (a =? -7) || (a =? -16) then std_crypto_SHA256
                 else if (a =? -38) || (a =? -35) || (a =? -43) then std_crypto_SHA384
                 else if (a =? -39) || (a =? -36) || (a =? -44) then std_crypto_SHA512 else 0).
Proof. exact hash_func_spec. Qed.
Print Assumptions C17_hash_func_spec.

Theorem C17_digest_equivalence :
  forall (Hash : Z -> bytes -> bytes) (SD : Z -> bytes -> option bytes) (VD : Z -> bytes -> bytes -> bool) alg content sig,
  builtin_sign Hash SD alg content = SD alg (Hash (hash_func alg) content) /\
  builtin_verify Hash VD alg content sig = VD alg (Hash (hash_func alg) content) sig.
Proof. exact digest_equivalence. Qed.
Print Assumptions C17_digest_equivalence.
