(* C19 — Decoding depends only on the input bytes: atomic, history-free, no aliasing.
   Statements only (copied from coq/theories by bin/mkprops); each proof is `exact <lemma>`. *)
From Coq Require Import Ascii String ZArith List Bool Permutation.
From GoCose Require Import Bytes Cbor CborProofs Res GoVal Obs Ecdsa Fx Headers Enc Dec Msg HashEnv Key SigVer Run TbsProofs FlowProofs DecProofs.
From GoCose.Gen Require Import Generated.
Import ListNotations.
Open Scope Z_scope.

Theorem C19_run_seq_final :
  forall k,
  forall datas dest vs,
  no_unm_panic k datas ->
  exists vs', run_seq k datas dest vs = OT "seq" [fold_left (step_dest k) datas dest; OT "verdicts" vs'].
Proof. exact run_seq_final. Qed.
Print Assumptions C19_run_seq_final.

Theorem C19_history_atomic :
  forall k dest data e,
  dec_value k data = Rej e -> step_dest k dest data = dest.
Proof. exact history_atomic. Qed.
Print Assumptions C19_history_atomic.

Theorem C19_history_free :
  forall k dest dest' data v,
  dec_value k data = Acc v -> step_dest k dest data = v /\ step_dest k dest' data = v.
Proof. exact history_free. Qed.
Print Assumptions C19_history_free.

Theorem C19_history_last_accepted :
  forall k,
  forall datas dest d v,
  dec_value k d = Acc v ->
  Forall (fun x => exists e, dec_value k x = Rej e) datas ->
  fold_left (step_dest k) (d :: datas) dest = v.
Proof. exact history_last_accepted. Qed.
Print Assumptions C19_history_last_accepted.
