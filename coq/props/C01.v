(* C01 — Every signed message verifies, in memory and after a wire round trip.
   Statements only (copied from coq/theories by bin/mkprops); each proof is `exact <lemma>`. *)
From Coq Require Import Ascii String ZArith List Bool Permutation.
From GoCose Require Import Bytes Cbor CborProofs Res GoVal Obs Ecdsa Fx Headers Enc Dec Msg HashEnv Key SigVer Run TbsProofs FlowProofs DecProofs KeyProofs HdrProofs EncProofs EncCanon NoPanic MoreProofs EncDec HdrRoundTrip WireLeg.
From GoCose.Gen Require Import Generated.
Import ListNotations.
Open Scope Z_scope.

(* COSE_Sign1 (tagged and untagged share this flow): what Sign produced verifies, for any signer and any verifier that accepts that signer's output over the same bytes *)
Theorem C01_sign1_sign_then_verify :
  forall m ext sg vf,
  accepts vf sg ->
  out_res (sign1_sign m ext sg) = Acc tt ->
  glen (s1_sig (out_post (sign1_sign m ext sg))) <> 0 ->
  fst (sign1_verify (out_post (sign1_sign m ext sg)) ext vf) = Acc tt.
Proof. exact sign1_sign_then_verify. Qed.
Print Assumptions C01_sign1_sign_then_verify.

(* each COSE_Signature of a COSE_Sign *)
Theorem C01_signature_sign_then_verify :
  forall s sg vf bp payload ext,
  accepts vf sg ->
  out_res (signature_sign s sg bp payload ext) = Acc tt ->
  glen (sg_sig (out_post (signature_sign s sg bp payload ext))) <> 0 ->
  fst (signature_verify (out_post (signature_sign s sg bp payload ext)) vf bp payload ext) = Acc tt.
Proof. exact signature_sign_then_verify. Qed.
Print Assumptions C01_signature_sign_then_verify.

(* COSE_Sign with any number of signers: success means every slot was signed by the signer at its position *)
Theorem C01_sign_loop_success :
  forall bp payload ext,
  forall sigs sgs sigs' calls,
  length sigs = length sgs ->
  sign_loop sigs sgs bp payload ext = (Acc tt, sigs', calls) ->
  length sigs' = length sigs /\
  forall i s sg, nth_error sigs i = Some s -> nth_error sgs i = Some sg ->
                 exists s', nth_error sigs' i = Some s' /\ slot_signed bp payload ext s sg s'.
Proof. exact sign_loop_success. Qed.
Print Assumptions C01_sign_loop_success.

(* ... and verification succeeds iff every slot verifies under the verifier at its position *)
Theorem C01_verify_loop_iff :
  forall bp payload ext,
  forall sigs vfs,
  length sigs = length vfs ->
  (fst (verify_loop sigs vfs bp payload ext) = Acc tt <-> Forall2 (sig_ok bp payload ext) sigs vfs).
Proof. exact verify_loop_iff. Qed.
Print Assumptions C01_verify_loop_iff.

(* full countersignatures over every kind of parent *)
Theorem C01_csig_sign_then_verify :
  forall s sg vf target ext,
  accepts vf sg ->
  out_res (csig_sign s sg target ext) = Acc tt ->
  glen (sg_sig (out_post (csig_sign s sg target ext))) <> 0 ->
  fst (csig_verify (out_post (csig_sign s sg target ext)) vf target ext) = Acc tt.
Proof. exact csig_sign_then_verify. Qed.
Print Assumptions C01_csig_sign_then_verify.

(* abbreviated countersignatures *)
Theorem C01_countersign0_then_verify :
  forall sg vf target ext s,
  accepts vf sg ->
  fst (countersign0 sg target ext) = Acc s ->
  fst (verify_countersign0 vf target ext s) = Acc tt.
Proof. exact countersign0_then_verify. Qed.
Print Assumptions C01_countersign0_then_verify.

(* wire round trip: the decoded message retains the emitted protected bytes, payload and signature, hence the same to-be-signed bytes *)
Theorem C01_sign1_reencode :
  forall data m,
  unmarshal_sign1 data = Acc m ->
  exists p u pl sg,
    data = 210 :: 132 :: ser p ++ ser u ++ ser pl ++ ser sg /\
    marshal_sign1 m = Acc (210 :: 132 :: ser p ++ ser u ++ renorm_field pl ++ renorm_field sg).
Proof. exact sign1_reencode. Qed.
Print Assumptions C01_sign1_reencode.

(* the to-be-signed bytes do not depend on the head width the bytes arrive with *)
Theorem C01_det_bstr_any_width :
  forall w b,
  fits w (len b) = true -> bytes_ok b = true ->
  det_bstr (ser (WStr false w b)) = Acc (enc_bstr b).
Proof. exact det_bstr_any_width. Qed.
Print Assumptions C01_det_bstr_any_width.

(* end to end for COSE_Sign1 with typed header buckets of nested simple values: Sign succeeded, MarshalCBOR returned bytes => UnmarshalCBOR accepts them and Verify succeeds on the decoded message, for an arbitrary signer and any verifier accepting its output *)
Theorem C01_sign1_sign_marshal_unmarshal_verify :
  forall m ext sg vf op ou payload sig out,
  accepts vf sg ->
  out_res (sign1_sign m ext sg) = Acc tt ->
  out_post (sign1_sign m ext sg) = mkS1 (mkH None op None ou) payload (Some sig) ->   
  bucket_ok op -> bucket_ok ou -> prot_limits op -> unprot_limits ou ->
  payload_ok payload -> short sig ->
  marshal_sign1 (mkS1 (mkH None op None ou) payload (Some sig)) = Acc out ->
  lib_wf false (tl out) <> None ->
  exists m', unmarshal_sign1 out = Acc m' /\ fst (sign1_verify m' ext vf) = Acc tt.
Proof. exact sign1_sign_marshal_unmarshal_verify. Qed.
Print Assumptions C01_sign1_sign_marshal_unmarshal_verify.

(* the decoded message keeps the emitted bucket bytes, the payload and the signature, and says the same about every label and about alg *)
Theorem C01_sign1_wire_roundtrip :
  forall op ou payload sig out,
  let h := mkH None op None ou in
  bucket_ok op -> bucket_ok ou -> prot_limits op -> unprot_limits ou ->
  payload_ok payload -> short sig -> sig <> [] ->
  marshal_sign1 (mkS1 h payload (Some sig)) = Acc out ->
  lib_wf false (tl out) <> None ->                          
  exists pb ub dp du,
    marshal_protected h = Acc pb /\ marshal_unprotected h = Acc ub /\
    unmarshal_sign1 out = Acc (mkS1 (mkH (Some pb) (Some dp) (Some ub) (Some du)) payload (Some sig)) /\
    same_view (hmap op) dp /\ same_view (hmap ou) du /\ 0 < len pb /\ brel op dp /\ urel ou du.
Proof. exact sign1_wire_roundtrip. Qed.
Print Assumptions C01_sign1_wire_roundtrip.

Theorem C01_sign1_wire_verifies :
  forall op ou payload sig out ext vf,
  let h := mkH None op None ou in
  bucket_ok op -> bucket_ok ou -> prot_limits op -> unprot_limits ou ->
  payload_ok payload -> short sig -> sig <> [] ->
  marshal_sign1 (mkS1 h payload (Some sig)) = Acc out -> lib_wf false (tl out) <> None ->
  fst (sign1_verify (mkS1 h payload (Some sig)) ext vf) = Acc tt ->          
  exists m', unmarshal_sign1 out = Acc m' /\ fst (sign1_verify m' ext vf) = Acc tt.
Proof. exact sign1_wire_verifies. Qed.
Print Assumptions C01_sign1_wire_verifies.

Theorem C01_wire_example :
  let op := Some [GInt KInt64 1; GInt KAlg (-7); GInt KInt64 4; GBytes [107]] in
  let ou := Some [GInt KInt 3; GStr (x "612f62")] in
  let sg := mkSigner (-7) (fun _ => SOk (Some [1; 2; 3])) in
  let m := mkS1 (mkH None op None ou) (Some [112]) None in
  out_res (sign1_sign m None sg) = Acc tt /\
  out_post (sign1_sign m None sg) = mkS1 (mkH None op None ou) (Some [112]) (Some [1; 2; 3]) /\
  bucket_ok op /\ bucket_ok ou /\
  marshal_sign1 (mkS1 (mkH None op None ou) (Some [112]) (Some [1; 2; 3])) = Acc (x "d28446a2012604416ba10363612f62417043010203").
Proof. exact wire_example. Qed.
Print Assumptions C01_wire_example.

(* the same for COSE_Sign with any number of signers: what verifies in memory verifies after MarshalCBOR / UnmarshalCBOR, position by position *)
Theorem C01_signmsg_wire_verifies :
  forall op ou payload sts out ext vfs,
  let m := mkSM (mkH None op None ou) payload (map (fun s => Some (st_sigv s)) sts) in
  bucket_ok op -> bucket_ok ou -> prot_limits op -> unprot_limits ou -> payload_ok payload ->
  Forall st_ok sts -> len sts < two64 ->
  marshal_signmsg m = Acc out -> lib_wf false (tl (tl out)) <> None ->
  fst (signmsg_verify m ext vfs) = Acc tt ->
  exists m', unmarshal_signmsg out = Acc m' /\ fst (signmsg_verify m' ext vfs) = Acc tt.
Proof. exact signmsg_wire_verifies. Qed.
Print Assumptions C01_signmsg_wire_verifies.

(* countersignatures: a COSE_Countersignature (typed buckets) that verifies against its parent is serialised to bytes the decoder accepts, and the decoded holder verifies against the same parent, for every kind of parent and any verifier *)
Theorem C01_csig_wire_verifies :
  forall s bs vf target ext,
  st_ok s -> marshal_signature (st_sigv s) = Acc bs ->
  fst (csig_verify (st_sigv s) vf target ext) = Acc tt ->
  exists item s', bs = ser item /\ wf item = true /\ dec_signature_item item = Acc s' /\
                  sg_sig s' = Some (st_sig s) /\
                  fst (csig_verify s' vf target ext) = Acc tt.
Proof. exact csig_wire_verifies. Qed.
Print Assumptions C01_csig_wire_verifies.
