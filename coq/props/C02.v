(* C02 — Signer/verifier input is exactly the RFC 9052 Sig_structure.
   Statements only (copied from coq/theories by bin/mkprops); each proof is `exact <lemma>`. *)
From Coq Require Import Ascii String ZArith List Bool Permutation.
From GoCose Require Import Bytes Cbor CborProofs Res GoVal Obs Ecdsa Fx Headers Enc Dec Msg HashEnv Key SigVer Run TbsProofs FlowProofs AskedOnce.
From GoCose.Gen Require Import Generated.
Import ListNotations.
Open Scope Z_scope.

(* COSE_Sign1: deterministic encoding of ["Signature1", body_protected, external_aad, payload] *)
Theorem C02_tbs_sign1_spec :
  forall h payload ext t,
  tbs_sign1 h payload ext = Acc t ->
  exists c, prot_content h c /\ t = ser (sig1_tree "Signature1" c (gor ext) (gor payload)).
Proof. exact tbs_sign1_spec. Qed.
Print Assumptions C02_tbs_sign1_spec.

(* COSE_Sign signer: ["Signature", body_protected, sign_protected, external_aad, payload] *)
Theorem C02_tbs_signature_spec :
  forall h bodyprot payload ext t,
  tbs_signature h bodyprot payload ext = Acc t ->
  exists wb cb c, parse_full bodyprot = Some (WStr false wb cb) /\ prot_content h c /\
                  t = ser (sign_tree "Signature" cb c (gor ext) (gor payload)).
Proof. exact tbs_signature_spec. Qed.
Print Assumptions C02_tbs_signature_spec.

(* protected fields: content as on the wire, only the length prefix normalised *)
Theorem C02_det_bstr_spec :
  forall data r,
  det_bstr data = Acc r ->
  exists w b, parse_full data = Some (WStr false w b) /\ r = enc_bstr b.
Proof. exact det_bstr_spec. Qed.
Print Assumptions C02_det_bstr_spec.

(* every valid spelling of a bstr normalises to the shortest form *)
Theorem C02_det_bstr_any_width :
  forall w b,
  fits w (len b) = true -> bytes_ok b = true ->
  det_bstr (ser (WStr false w b)) = Acc (enc_bstr b).
Proof. exact det_bstr_any_width. Qed.
Print Assumptions C02_det_bstr_any_width.

(* nil and empty external data are equivalent *)
Theorem C02_tbs_sign1_ext_nil_empty :
  forall h payload,
  tbs_sign1 h payload None = tbs_sign1 h payload (Some []).
Proof. exact tbs_sign1_ext_nil_empty. Qed.
Print Assumptions C02_tbs_sign1_ext_nil_empty.

Theorem C02_tbs_signature_ext_nil_empty :
  forall h bp payload,
  tbs_signature h bp payload None = tbs_signature h bp payload (Some []).
Proof. exact tbs_signature_ext_nil_empty. Qed.
Print Assumptions C02_tbs_signature_ext_nil_empty.

(* unprotected headers contribute nothing *)
Theorem C02_tbs_sign1_unprot_irrelevant :
  forall rp p ru u ru' u' payload ext,
  tbs_sign1 (mkH rp p ru u) payload ext = tbs_sign1 (mkH rp p ru' u') payload ext.
Proof. exact tbs_sign1_unprot_irrelevant. Qed.
Print Assumptions C02_tbs_sign1_unprot_irrelevant.

Theorem C02_tbs_signature_unprot_irrelevant :
  forall rp p ru u ru' u' bp payload ext,
  tbs_signature (mkH rp p ru u) bp payload ext = tbs_signature (mkH rp p ru' u') bp payload ext.
Proof. exact tbs_signature_unprot_irrelevant. Qed.
Print Assumptions C02_tbs_signature_unprot_irrelevant.

(* the context strings and arities in /repo are the RFC ones (translated literals) *)
Theorem C02_translated_contexts :
  tbs_sign1_context = "Signature1"%string /\ tbs_sign1_arity = 4 /\
  tbs_signature_context = "Signature"%string /\ tbs_signature_arity = 5 /\
  tbs_countersign_arity = 5 /\
  ctx_countersign false false = "CounterSignature"%string /\
  ctx_countersign false true = "CounterSignatureV2"%string /\
  ctx_countersign true false = "CounterSignature0"%string /\
  ctx_countersign true true = "CounterSignature0V2"%string /\
  countersign_other_fields = ["Sign1Message"%string] /\
  abbrev_sign_protected_Countersign0 = [64] /\ abbrev_sign_protected_VerifyCountersign0 = [64].
Proof. exact translated_contexts. Qed.
Print Assumptions C02_translated_contexts.

(* a COSE_Signature's verifier is asked at most once, about that signer's own Sig_structure and signature bytes, and the verdict is its answer: no second attempt over other bytes *)
Theorem C02_signature_verify_asks_once :
  forall s vf bp pl ext,
  snd (signature_verify s vf bp pl ext) = [] \/
  exists t, tbs_signature (sg_h s) bp pl ext = Acc t /\
            snd (signature_verify s vf bp pl ext) = [(t, sg_sig s)] /\
            fst (signature_verify s vf bp pl ext) = vf_run vf t (sg_sig s).
Proof. exact signature_verify_asks_once. Qed.
Print Assumptions C02_signature_verify_asks_once.
