(* C07 — Any valid encoding of a conforming message is accepted and verifies.
   Statements only (copied from coq/theories by bin/mkprops); each proof is `exact <lemma>`. *)
From Coq Require Import Ascii String ZArith List Bool Permutation.
From GoCose Require Import Bytes Cbor CborProofs Res GoVal Obs Ecdsa Fx Headers Enc Dec Msg HashEnv Key SigVer Run TbsProofs FlowProofs DecProofs KeyProofs NoPanic MoreProofs.
From GoCose.Gen Require Import Generated.
Import ListNotations.
Open Scope Z_scope.

(* every spelling (head widths, map order) of a well-formed tree parses back to exactly that tree *)
Theorem C07_parse_ser :
  forall x d r,
  wf x = true -> (height x <= d)%nat -> parse d (ser x ++ r) = Some (x, r).
Proof. exact parse_ser. Qed.
Print Assumptions C07_parse_ser.

Theorem C07_parse_full_ser :
  forall x,
  wf x = true -> parse_full (ser x) = Some x.
Proof. exact parse_full_ser. Qed.
Print Assumptions C07_parse_full_ser.

(* the signed structure does not depend on the head width chosen by the sender *)
Theorem C07_det_bstr_any_width :
  forall w b,
  fits w (len b) = true -> bytes_ok b = true ->
  det_bstr (ser (WStr false w b)) = Acc (enc_bstr b).
Proof. exact det_bstr_any_width. Qed.
Print Assumptions C07_det_bstr_any_width.

(* verification recomputes the RFC structure over the received protected bytes *)
Theorem C07_tbs_sign1_spec :
  forall h payload ext t,
  tbs_sign1 h payload ext = Acc t ->
  exists c, prot_content h c /\ t = ser (sig1_tree "Signature1" c (gor ext) (gor payload)).
Proof. exact tbs_sign1_spec. Qed.
Print Assumptions C07_tbs_sign1_spec.

(* decoded messages keep the sender's header bytes *)
Theorem C07_headers_marshal_decoded :
  forall p u pm um,
  ensure_iv (mkH (Some (ser p)) (Some pm) (Some (ser u)) (Some um)) = true ->
  headers_marshal (mkH (Some (ser p)) (Some pm) (Some (ser u)) (Some um)) = Acc (ser p, ser u).
Proof. exact headers_marshal_decoded. Qed.
Print Assumptions C07_headers_marshal_decoded.

(* converse of C05 for COSE_Sign1: a well-formed envelope within the limits whose buckets conform is accepted, for every head width of payload / signature / protected bstr, tagged and untagged, and decodes to the sender's fields *)
Theorem C07_sign1_conforming_accepted :
  forall p u pl sg h payload b w,
  wf (WArr W0 [p; u; pl; sg]) = true ->
  depth_ok false (WArr W0 [p; u; pl; sg]) 0 = true ->       
  bstr_or_nil pl = Acc payload ->                          
  sg = WStr false w b -> b <> [] ->                        
  dec_headers p u = Acc h ->                               
  unmarshal_sign1 (210 :: ser (WArr W0 [p; u; pl; sg])) = Acc (mkS1 h payload (Some b)) /\
  unmarshal_sign1_untagged (ser (WArr W0 [p; u; pl; sg])) = Acc (mkS1 h payload (Some b)).
Proof. exact sign1_conforming_accepted. Qed.
Print Assumptions C07_sign1_conforming_accepted.

(* and a signature made by anyone over the RFC structure of the wire bytes verifies *)
Theorem C07_sign1_conforming_verifies :
  forall p u pl sg h payload b w ext vf c wp,
  wf (WArr W0 [p; u; pl; sg]) = true -> depth_ok false (WArr W0 [p; u; pl; sg]) 0 = true ->
  bstr_or_nil pl = Acc (Some payload) -> sg = WStr false w b -> b <> [] -> dec_headers p u = Acc h ->
  p = WStr false wp c ->
  ensure_verification_alg h (vf_alg vf) ext = Acc tt ->
  vf_run vf (ser (sig1_tree "Signature1" c (gor ext) payload)) (Some b) = Acc tt ->
  fst (sign1_verify (mkS1 h (Some payload) (Some b)) ext vf) = Acc tt.
Proof. exact sign1_conforming_verifies. Qed.
Print Assumptions C07_sign1_conforming_verifies.

(* the same converse for COSE_Signature / COSE_Countersignature *)
Theorem C07_signature_conforming_accepted :
  forall p u sg h b w,
  wf (WArr W0 [p; u; sg]) = true ->
  depth_ok false (WArr W0 [p; u; sg]) 0 = true ->
  sg = WStr false w b -> b <> [] ->
  dec_headers p u = Acc h ->
  unmarshal_signature (ser (WArr W0 [p; u; sg])) = Acc (mkSig h (Some b)).
Proof. exact signature_conforming_accepted. Qed.
Print Assumptions C07_signature_conforming_accepted.

(* and for COSE_Sign with any number of signers and any head width of the signature array *)
Theorem C07_signmsg_conforming_accepted :
  forall p u pl ws items h payload sigs,
  wf (WArr W0 [p; u; pl; WArr ws items]) = true ->
  depth_ok false (WArr W0 [p; u; pl; WArr ws items]) 0 = true ->
  bstr_or_nil pl = Acc payload ->
  items <> [] ->                                             
  mapM dec_signature_item items = Acc sigs ->                
  dec_headers p u = Acc h ->
  unmarshal_signmsg (216 :: 98 :: ser (WArr W0 [p; u; pl; WArr ws items])) = Acc (mkSM h payload (map Some sigs)).
Proof. exact signmsg_conforming_accepted. Qed.
Print Assumptions C07_signmsg_conforming_accepted.
