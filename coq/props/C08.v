(* C08 — Encoding is deterministic, canonical, and always decodable.
   Statements only (copied from coq/theories by bin/mkprops); each proof is `exact <lemma>`. *)
From Coq Require Import Ascii String ZArith List Bool Permutation.
From GoCose Require Import Bytes Cbor CborProofs Res GoVal Obs Ecdsa Fx Headers ModesTie Enc Dec Msg HashEnv Key SigVer Run TbsProofs FlowProofs DecProofs HdrProofs EncProofs EncCanon EncDec HdrRoundTrip.
From GoCose.Gen Require Import Generated.
Import ListNotations.
Open Scope Z_scope.

(* independent of Go's map iteration order *)
Theorem C08_enc_map_order_independent :
  forall kvs kvs' b,
  Permutation kvs kvs' -> enc_map_of kvs = Acc b -> enc_map_of kvs' = Acc b.
Proof. exact enc_map_order_independent. Qed.
Print Assumptions C08_enc_map_order_independent.

(* maps: shortest head, keys strictly increasing bytewise, no duplicates *)
Theorem C08_enc_map_canonical :
  forall kvs b,
  enc_map_of kvs = Acc b ->
  exists s, b = head 5 (minw (len kvs)) (len kvs) ++ flat_kv s /\ ssorted s /\ Permutation s kvs.
Proof. exact enc_map_canonical. Qed.
Print Assumptions C08_enc_map_canonical.

Theorem C08_enc_heads_shortest :
  (forall n, enc_int n = if 0 <=? n then head 0 (minw n) n else head 1 (minw (-1 - n)) (-1 - n)) /\
  (forall b, enc_bstr b = head 2 (minw (len b)) (len b) ++ b) /\
  (forall b, enc_tstr b = head 3 (minw (len b)) (len b) ++ b).
Proof. exact enc_heads_shortest. Qed.
Print Assumptions C08_enc_heads_shortest.

(* by induction over arbitrarily nested values: the output is the serialisation of a well-formed tree with shortest heads and strictly sorted map keys *)
Theorem C08_enc_canonical :
  forall kb g, encodes kb g.
Proof. exact enc_canonical. Qed.
Print Assumptions C08_enc_canonical.

(* and therefore parses back to exactly one canonical item *)
Theorem C08_enc_output_parses :
  forall kb g b,
  gv_plain g = true -> enc kb g = Acc b -> exists w, parse_full b = Some w /\ canonical w = true.
Proof. exact enc_output_parses. Qed.
Print Assumptions C08_enc_output_parses.

Theorem C08_enc_hmap_canonical :
  forall kb l b,
  gv_plain (GMap l) = true -> enc_hmap kb l = Acc b -> exists w, b = ser w /\ wf w = true /\ canonical w = true.
Proof. exact enc_hmap_canonical. Qed.
Print Assumptions C08_enc_hmap_canonical.

Theorem C08_canonical_example :
  enc false (GMap [GInt KInt 256; GStr [97]; GInt KInt64 (-1); GArr [GBytes []; GBool true]; GStr []; GInt KUint8 24]) =
  Acc [163; 25; 1; 0; 97; 97; 32; 130; 64; 245; 96; 24; 24].
Proof. exact canonical_example. Qed.
Print Assumptions C08_canonical_example.

(* float64 (the values gv_plain and simple now admit at any depth): NaN is written as f9 7e00, the infinities in half precision, every other bit pattern on 64 bits - each a well-formed item *)
Theorem C08_enc_float_ser :
  forall b,
  (enc_float b = ser (WSim W2 32256) /\ is_nan64 b = true) \/
  (enc_float b = ser (WSim W2 31744) /\ is_nan64 b = false /\ b = 2047 * 2 ^ 52) \/
  (enc_float b = ser (WSim W2 64512) /\ is_nan64 b = false /\ b = 2 ^ 63 + 2047 * 2 ^ 52) \/
  (enc_float b = ser (WSim W8 b) /\ is_nan64 b = false /\ b <> 2047 * 2 ^ 52 /\ b <> 2 ^ 63 + 2047 * 2 ^ 52).
Proof. exact enc_float_ser. Qed.
Print Assumptions C08_enc_float_ser.

Theorem C08_ssorted_unique :
  forall l m, ssorted l -> ssorted m -> Permutation l m -> l = m.
Proof. exact ssorted_unique. Qed.
Print Assumptions C08_ssorted_unique.

(* the protected bytes emitted are the bytes that were signed *)
Theorem C08_generated_protected_is_normal :
  forall m,
  short m -> det_bstr (enc_bstr m) = Acc (enc_bstr m).
Proof. exact generated_protected_is_normal. Qed.
Print Assumptions C08_generated_protected_is_normal.

Theorem C08_sign1_emits_what_it_signed :
  forall m b,
  marshal_sign1 m = Acc b ->
  exists p u, headers_marshal (s1_h m) = Acc (p, u) /\ marshal_protected (s1_h m) = Acc p /\
              b = enc_head 6 c_CBORTagSign1Message ++ enc_head 4 4 ++ p ++ u ++ enc_gobytes (s1_payload m) ++ enc_bstr (gor (s1_sig m)).
Proof. exact sign1_emits_what_it_signed. Qed.
Print Assumptions C08_sign1_emits_what_it_signed.

(* an encoding denotes one value *)
Theorem C08_ser_inj :
  forall x y r r',
  wf x = true -> wf y = true -> ser x ++ r = ser y ++ r' -> x = y /\ r = r'.
Proof. exact ser_inj. Qed.
Print Assumptions C08_ser_inj.

(* always decodable: by induction over arbitrarily nested values (integers of int64, UTF-8 text, byte strings, booleans, nil, float64 of any bit pattern, arrays, maps with integer / text keys) the encoder output is the serialisation of a canonical tree that the library decoder accepts, and it decodes to the same value (integer kinds come back as int64, a nil []byte as nil, every NaN as the quiet NaN, map entries in some order) *)
Theorem C08_enc_dec :
  forall kb g, encdec kb g.
Proof. exact enc_dec. Qed.
Print Assumptions C08_enc_dec.

Theorem C08_enc_dec_bytes :
  forall kb g b,
  simple g = true -> enc kb g = Acc b ->
  exists w d, parse_full b = Some w /\ canonical w = true /\ dec true w = Acc d /\ rel g d.
Proof. exact enc_dec_bytes. Qed.
Print Assumptions C08_enc_dec_bytes.

Theorem C08_enc_dec_example :
  let g := GMap [GInt KInt 256; GStr [97]; GInt KInt8 (-1); GArr [GBytes []; GBool true; GNilBytes]; GStr []; GMap [GInt KUint8 1; GNil]] in
  simple g = true /\
  match enc false g with
  | Acc b => match parse_full b with
             | Some w => dec true w = Acc (GMap [GInt KInt64 256; GStr [97]; GInt KInt64 (-1); GArr [GBytes []; GBool true; GNil];
                                                 GStr []; GMap [GInt KInt64 1; GNil]])
             | None => False
             end
  | _ => False
  end.
Proof. exact enc_dec_example. Qed.
Print Assumptions C08_enc_dec_example.

Theorem C08_enc_dec_float_example :
  let g := GMap [GInt KInt 33; GArr [GFloat 4609434218613702656; GFloat 9218868437227405312; GFloat 18442240474082181120;
                                     GFloat 9218868437227405313; GFloat 0; GFloat 9223372036854775808]] in
  simple g = true /\
  enc false g = Acc [161; 24; 33; 134; 251; 63; 248; 0; 0; 0; 0; 0; 0; 249; 124; 0; 249; 252; 0; 249; 126; 0;
                     251; 0; 0; 0; 0; 0; 0; 0; 0; 251; 128; 0; 0; 0; 0; 0; 0; 0] /\
  match enc false g with
  | Acc b => match parse_full b with
             | Some w => dec true w = Acc (GMap [GInt KInt64 33; GArr [GFloat 4609434218613702656; GFloat 9218868437227405312;
                                                 GFloat 18442240474082181120; GFloat nan64; GFloat 0; GFloat 9223372036854775808]])
             | None => False
             end
  | _ => False
  end.
Proof. exact enc_dec_float_example. Qed.
Print Assumptions C08_enc_dec_float_example.

(* header buckets: what ProtectedHeader.MarshalCBOR returns is accepted by ProtectedHeader.UnmarshalCBOR and has the same parameters *)
Theorem C08_protected_roundtrip :
  forall l pb,
  l <> [] -> simple (GMap l) = true -> (forall k v, entry_in k v l -> okval v) ->
  enc_protected (Some l) = Acc pb ->
  (forall m, enc_hmap true l = Acc m -> within_limits m) ->
  exists m dl, enc_hmap true l = Acc m /\ pb = enc_bstr m /\
               unmarshal_protected pb = Acc (cast_alg dl) /\ hrel l dl /\ validate_params dl true = true.
Proof. exact protected_roundtrip. Qed.
Print Assumptions C08_protected_roundtrip.

Theorem C08_unprotected_roundtrip :
  forall l ub,
  l <> [] -> simple (GMap l) = true -> (forall k v, entry_in k v l -> okval v) ->
  enc_unprotected (Some l) = Acc ub -> within_limits ub ->
  exists dl, unmarshal_unprotected ub = Acc dl /\ hrel l dl /\ validate_params dl false = true.
Proof. exact unprotected_roundtrip. Qed.
Print Assumptions C08_unprotected_roundtrip.

(* the option sets of the four CBOR modes, as translated from cbor.go's init() on this run *)
Theorem C08_modes_as_modelled :
  cbor_modes = expected_modes.
Proof. exact modes_as_modelled. Qed.
Print Assumptions C08_modes_as_modelled.

(* every use of a mode variable in the package (function, mode, method, argument), as translated on this run *)
Theorem C08_mode_uses_as_modelled :
  cbor_mode_uses = expected_mode_uses.
Proof. exact mode_uses_as_modelled. Qed.
Print Assumptions C08_mode_uses_as_modelled.

(* the map inside the protected bucket is encoded by the mode that keeps big integers as bignums, everything else by the other one *)
Theorem C08_bignum_modes :
  bignum_modes_hold.
Proof. exact bignum_modes. Qed.
Print Assumptions C08_bignum_modes.

(* every encoder sorts keys and forbids indefinite lengths; every decoder refuses duplicate keys and indefinite lengths; the message decoders refuse tags *)
Theorem C08_mode_options :
  mode_options_hold.
Proof. exact mode_options. Qed.
Print Assumptions C08_mode_options.
