(* C04 — No signing or verification under an algorithm other than the protected alg.
   Statements only (copied from coq/theories by bin/mkprops); each proof is `exact <lemma>`. *)
From Coq Require Import Ascii String ZArith List Bool Permutation.
From GoCose Require Import Bytes Cbor CborProofs Res GoVal Obs Ecdsa Fx Headers Enc Dec Msg HashEnv Key SigVer Run TbsProofs FlowProofs AskedOnce DecProofs HdrProofs.
From GoCose.Gen Require Import Generated.
Import ListNotations.
Open Scope Z_scope.

(* verification proceeds iff alg equals the verifier's, or alg is absent and external data is given *)
Theorem C04_verification_gate :
  forall h a ext,
  ensure_verification_alg h a ext = Acc tt <->
  alg_of (hP h) = Acc a \/ (alg_of (hP h) = Rej EAlgNotFound /\ 0 < glen ext).
Proof. exact verification_gate. Qed.
Print Assumptions C04_verification_gate.

Theorem C04_verification_mismatch :
  forall h a a' ext,
  alg_of (hP h) = Acc a' -> a' <> a -> ensure_verification_alg h a ext = Rej EAlgMismatch.
Proof. exact verification_mismatch. Qed.
Print Assumptions C04_verification_mismatch.

Theorem C04_verification_absent :
  forall h a ext,
  alg_of (hP h) = Rej EAlgNotFound -> glen ext = 0 -> ensure_verification_alg h a ext = Rej EAlgNotFound.
Proof. exact verification_absent. Qed.
Print Assumptions C04_verification_absent.

Theorem C04_signing_mismatch :
  forall h a a' ext,
  alg_of (hP h) = Acc a' -> a' <> a -> ensure_signing_alg h a ext = Rej EAlgMismatch.
Proof. exact signing_mismatch. Qed.
Print Assumptions C04_signing_mismatch.

(* signing: equal alg, or absent with external data, or absent and inserted into the protected header that is then signed *)
Theorem C04_signing_gate :
  forall h a ext h',
  ensure_signing_alg h a ext = Acc h' ->
  (alg_of (hP h) = Acc a /\ h' = h) \/
  (alg_of (hP h) = Rej EAlgNotFound /\ 0 < glen ext /\ h' = h) \/
  (alg_of (hP h) = Rej EAlgNotFound /\ glen ext = 0 /\ rawP h = None /\
   alg_of (hP h') = Acc a /\ rawP h' = None /\ rawU h' = rawU h /\ hU h' = hU h).
Proof. exact signing_gate. Qed.
Print Assumptions C04_signing_gate.

Theorem C04_signing_gate_alg :
  forall h a ext h',
  ensure_signing_alg h a ext = Acc h' ->
  alg_of (hP h') = Acc a \/ (alg_of (hP h') = Rej EAlgNotFound /\ 0 < glen ext).
Proof. exact signing_gate_alg. Qed.
Print Assumptions C04_signing_gate_alg.

(* the key is invoked only after the gate, on the to-be-signed bytes of the gated headers *)
Theorem C04_sign1_sign_cases :
  forall m ext sg,
  let o := sign1_sign m ext sg in
  (out_res o = Acc tt /\ exists h' t s pl,
      s1_payload m = Some pl /\ glen (s1_sig m) = 0 /\
      ensure_signing_alg (s1_h m) (sg_alg sg) ext = Acc h' /\
      tbs_sign1 h' (s1_payload m) ext = Acc t /\ sg_run sg t = SOk s /\
      out_post o = mkS1 h' (s1_payload m) s /\ out_calls o = [t]) \/
  (out_res o <> Acc tt /\ s1_sig (out_post o) = s1_sig m /\ s1_payload (out_post o) = s1_payload m).
Proof. exact sign1_sign_cases. Qed.
Print Assumptions C04_sign1_sign_cases.

Theorem C04_sign1_verify_calls :
  forall m ext vf,
  snd (sign1_verify m ext vf) = [] \/
  exists t, snd (sign1_verify m ext vf) = [(t, s1_sig m)] /\
            tbs_sign1 (s1_h m) (s1_payload m) ext = Acc t /\
            ensure_verification_alg (s1_h m) (vf_alg vf) ext = Acc tt /\ glen (s1_sig m) <> 0.
Proof. exact sign1_verify_calls. Qed.
Print Assumptions C04_sign1_verify_calls.

(* the inserted algorithm is what a later look-up finds *)
Theorem C04_alg_of_set_alg :
  forall p a,
  alg_of (Some (set_alg p a)) = Acc a.
Proof. exact alg_of_set_alg. Qed.
Print Assumptions C04_alg_of_set_alg.

(* decoded messages: the alg consulted is the one encoded in the protected bytes *)
Theorem C04_decoded_alg_is_wire_alg :
  forall p pm,
  dec_protected p = Acc pm ->
  (exists w, p = WStr false w [] /\ alg_of (Some pm) = Rej EAlgNotFound) \/
  (exists w c wm l ks vs, p = WStr false w c /\ lib_wf true c = Some (WMap wm l) /\
                          labels_pass l = Acc ks /\ values_pass l = Acc vs /\
                          alg_of (Some pm) = alg_of (Some (zip_flat ks vs))).
Proof. exact decoded_alg_is_wire_alg. Qed.
Print Assumptions C04_decoded_alg_is_wire_alg.

(* no algorithm in the protected bucket and no external data: the verifier is not consulted, the message does not verify *)
Theorem C04_sign1_verify_without_alg :
  forall m vf,
  alg_of (hP (s1_h m)) = Rej EAlgNotFound ->
  snd (sign1_verify m None vf) = [] /\ fst (sign1_verify m None vf) <> Acc tt.
Proof. exact sign1_verify_without_alg. Qed.
Print Assumptions C04_sign1_verify_without_alg.

(* VerifyHashEnvelope offers no external data: an envelope without alg is never returned, its verifier never asked, whatever algorithm the verifier is for *)
Theorem C04_verify_he_without_alg :
  forall vf env m0,
  unmarshal_sign1 env = Acc m0 -> alg_of (hP (s1_h m0)) = Rej EAlgNotFound ->
  snd (verify_he vf env) = [] /\ forall m, fst (verify_he vf env) <> Acc m.
Proof. exact verify_he_without_alg. Qed.
Print Assumptions C04_verify_he_without_alg.
