(* C13 — Generic header parameter rules are enforced identically on encode and decode.
   Statements only (copied from coq/theories by bin/mkprops); each proof is `exact <lemma>`. *)
From Coq Require Import Ascii String ZArith List Bool Permutation.
From GoCose Require Import Bytes Cbor CborProofs Res GoVal Obs Ecdsa Fx Headers RulesTie Enc Dec Msg HashEnv Key SigVer Run TbsProofs FlowProofs DecProofs HdrProofs EncProofs EncCanon EncDec HdrRoundTrip.
From GoCose.Gen Require Import Generated.
Import ListNotations.
Open Scope Z_scope.

Theorem C13_validated_labels :
  forall h prot k v,
  validate_params h prot = true -> entry_in k v h ->
  exists k', normalize_label k = Some k' /\ is_label k' /\ check_param prot h k' v = true.
Proof. exact validated_labels. Qed.
Print Assumptions C13_validated_labels.

Theorem C13_validated_rules :
  forall h prot k v n,
  validate_params h prot = true -> entry_in k v h -> normalize_label k = Some (lbl n) ->
  (n = c_HeaderLabelAlgorithm -> is_alg_typed v = true \/ can_int v = true \/ can_tstr v = true) /\
  (n = c_HeaderLabelCritical -> prot = true /\ ensure_critical v h = true) /\
  (n = c_HeaderLabelContentType \/ n = c_HeaderLabelType -> uint_or_media v = true) /\
  (n = c_HeaderLabelKeyID -> can_bstr v = true) /\
  (n = c_HeaderLabelIV -> can_bstr v = true /\ has_label h c_HeaderLabelPartialIV = false) /\
  (n = c_HeaderLabelPartialIV -> can_bstr v = true /\ has_label h c_HeaderLabelIV = false) /\
  (n = c_HeaderLabelCounterSignature \/ n = c_HeaderLabelCounterSignatureV2 -> prot = false /\ is_csig_value v = true) /\
  (n = c_HeaderLabelCounterSignature0 \/ n = c_HeaderLabelCounterSignature0V2 -> prot = false /\ can_bstr v = true).
Proof. exact validated_rules. Qed.
Print Assumptions C13_validated_rules.

Theorem C13_critical_rule :
  forall v h,
  ensure_critical v h = true ->
  exists labels, v = GArr labels /\ labels <> [] /\
    forall l, In l labels -> (can_int l = true \/ can_tstr l = true) /\ exists x, nlookup l h = Some x.
Proof. exact critical_rule. Qed.
Print Assumptions C13_critical_rule.

(* one validation function guards both directions *)
Theorem C13_encode_protected_validated :
  forall l b,
  l <> [] -> enc_protected (Some l) = Acc b -> validate_params l true = true.
Proof. exact encode_protected_validated. Qed.
Print Assumptions C13_encode_protected_validated.

Theorem C13_encode_unprotected_validated :
  forall l b,
  l <> [] -> enc_unprotected (Some l) = Acc b -> validate_params l false = true.
Proof. exact encode_unprotected_validated. Qed.
Print Assumptions C13_encode_unprotected_validated.

Theorem C13_decode_protected_validated :
  forall p pm,
  dec_protected p = Acc pm -> pm = [] \/ exists m, validate_params m true = true /\ pm = cast_alg m.
Proof. exact decode_protected_validated. Qed.
Print Assumptions C13_decode_protected_validated.

Theorem C13_decode_unprotected_validated :
  forall f u um,
  dec_unprotected f u = Acc um -> validate_params um false = true.
Proof. exact decode_unprotected_validated. Qed.
Print Assumptions C13_decode_unprotected_validated.

Theorem C13_iv_across_buckets_encode :
  forall h pu,
  headers_marshal h = Acc pu -> ensure_iv h = true.
Proof. exact iv_across_buckets_encode. Qed.
Print Assumptions C13_iv_across_buckets_encode.

Theorem C13_iv_across_buckets_decode :
  forall p u h,
  dec_headers p u = Acc h -> ensure_iv h = true.
Proof. exact iv_across_buckets_decode. Qed.
Print Assumptions C13_iv_across_buckets_decode.

Theorem C13_layers_share_validation :
  (forall m b, marshal_sign1 m = Acc b -> exists pu, headers_marshal (s1_h m) = Acc pu) /\
  (forall s b, marshal_signature s = Acc b -> exists pu, headers_marshal (sg_h s) = Acc pu) /\
  (forall m b, marshal_signmsg m = Acc b -> exists pu, headers_marshal (sm_h m) = Acc pu).
Proof. exact layers_share_validation. Qed.
Print Assumptions C13_layers_share_validation.

Theorem C13_normalize_spelling :
  forall k k' n,
  int_kind k -> int_kind k' -> normalize_label (GInt k n) = normalize_label (GInt k' n).
Proof. exact normalize_spelling. Qed.
Print Assumptions C13_normalize_spelling.

(* the verdict does not depend on which Go integer type spells a label *)
Theorem C13_validate_params_spelling :
  forall h h' prot,
  respelled h h' -> validate_params h prot = validate_params h' prot.
Proof. exact validate_params_spelling. Qed.
Print Assumptions C13_validate_params_spelling.

(* the direct-hit shortcut of the by-value look-up agrees with the scan when labels are unique *)
Theorem C13_nlookup_is_nfind :
  forall h ks l,
  norm_labels h = Some ks -> labels_nodup ks = true ->
  nlookup l h = match normalize_label l with Some want => nfind want h | None => None end.
Proof. exact nlookup_is_nfind. Qed.
Print Assumptions C13_nlookup_is_nfind.

Theorem C13_respelled_example :
  respelled [GInt KInt64 4; GBytes [1]; GInt KInt64 2; GArr [GInt KInt64 4]]
            [GInt KInt8 4; GBytes [1]; GInt KUint16 2; GArr [GInt KInt64 4]] /\
  validate_params [GInt KInt8 4; GBytes [1]; GInt KUint16 2; GArr [GInt KInt64 4]] true = true.
Proof. exact respelled_example. Qed.
Print Assumptions C13_respelled_example.

(* the per-label switch of validateHeaderParameters as translated from /repo on this run prescribes exactly the model's rule for every label, bucket and value *)
Theorem C13_translated_rules_agree :
  forall prot h label value,
  check_param_tbl tbl_header_rules prot h label value = check_param prot h label value.
Proof. exact translated_rules_agree. Qed.
Print Assumptions C13_translated_rules_agree.

(* a header set accepted on the encode side is accepted on the decode side: the RFC 9052 3.1 rules that hold for a bucket hold for the bucket rebuilt from its encoding (labels normalised, integer kinds widened, entries in any order) *)
Theorem C13_validate_params_transport :
  forall l dl prot,
  hrel l dl -> (forall k v, entry_in k v l -> okval v) ->
  validate_params l prot = true -> validate_params dl prot = true.
Proof. exact validate_params_transport. Qed.
Print Assumptions C13_validate_params_transport.

(* the protected bucket through MarshalCBOR / UnmarshalCBOR *)
Theorem C13_protected_roundtrip :
  forall l pb,
  l <> [] -> simple (GMap l) = true -> (forall k v, entry_in k v l -> okval v) ->
  enc_protected (Some l) = Acc pb ->
  (forall m, enc_hmap true l = Acc m -> within_limits m) ->
  exists m dl, enc_hmap true l = Acc m /\ pb = enc_bstr m /\
               unmarshal_protected pb = Acc (cast_alg dl) /\ hrel l dl /\ validate_params dl true = true.
Proof. exact protected_roundtrip. Qed.
Print Assumptions C13_protected_roundtrip.

(* the unprotected bucket *)
Theorem C13_unprotected_roundtrip :
  forall l ub,
  l <> [] -> simple (GMap l) = true -> (forall k v, entry_in k v l -> okval v) ->
  enc_unprotected (Some l) = Acc ub -> within_limits ub ->
  exists dl, unmarshal_unprotected ub = Acc dl /\ hrel l dl /\ validate_params dl false = true.
Proof. exact unprotected_roundtrip. Qed.
Print Assumptions C13_unprotected_roundtrip.

Theorem C13_roundtrip_example :
  let l := [GInt KInt 1; GInt KAlg (-7); GInt KInt8 4; GBytes [1; 2]; GInt KInt64 2; GArr [GInt KUint8 4]] in
  simple (GMap l) = true /\ validate_params l true = true /\
  enc_protected (Some l) = Acc (x "4aa3012602810404420102") /\
  unmarshal_protected (x "4aa3012602810404420102") =
    Acc [GInt KInt64 1; GInt KAlg (-7); GInt KInt64 2; GArr [GInt KInt64 4]; GInt KInt64 4; GBytes [1; 2]].
Proof. exact roundtrip_example. Qed.
Print Assumptions C13_roundtrip_example.
