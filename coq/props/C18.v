(* C18 — Verification and encoding are read-only and safe to run concurrently.
   Logical core only (see theories/Effects.v for what the model cannot exhibit). *)
From Coq Require Import ZArith List Bool Permutation.
From GoCose Require Import Effects.
Import ListNotations.

(* whatever the schedule of read-only operations on a shared value, the value is
   untouched and every operation returns what it returns when run alone *)
Theorem C18_readonly_any_schedule :
  forall (state result : Type) (rd : nat -> state -> result) (sched : list nat) (s : state),
  fst (exec state result rd sched s) = s /\
  Forall (fun p => snd p = rd (fst p) s) (snd (exec state result rd sched s)).
Proof. exact readonly_any_schedule. Qed.
Print Assumptions C18_readonly_any_schedule.

Theorem C18_schedules_agree :
  forall (state result : Type) (rd : nat -> state -> result) (sched sched' : list nat) (s : state),
  Permutation sched sched' ->
  Permutation (snd (exec state result rd sched s)) (snd (exec state result rd sched' s)).
Proof. exact readonly_schedules_agree. Qed.
Print Assumptions C18_schedules_agree.

(* concurrent Sign calls on distinct messages write distinct locations: every order gives the same store *)
Theorem C18_disjoint_writes_any_order :
  forall (value : Type) (ws ws' : list (nat * value)) (s : store value),
  NoDup (map fst ws) -> Permutation ws ws' ->
  forall x, apply_writes value ws s x = apply_writes value ws' s x.
Proof. exact disjoint_writes_any_order. Qed.
Print Assumptions C18_disjoint_writes_any_order.
