(* C03 — Verify accepts exactly the signatures valid over the received bytes.
   Statements only (copied from coq/theories by bin/mkprops); each proof is `exact <lemma>`. *)
From Coq Require Import Ascii String ZArith List Bool Permutation.
From GoCose Require Import Bytes Cbor CborProofs Res GoVal Obs Ecdsa EcdsaProofs Fx Headers Enc Dec Msg HashEnv Key SigVer Run TbsProofs FlowProofs DecProofs HdrProofs.
From GoCose.Gen Require Import Generated.
Import ListNotations.
Open Scope Z_scope.

(* Verify = nil iff the prechecks pass, the alg gate passes and the verifier accepts the signature over the Sig_structure *)
Theorem C03_sign1_verify_iff :
  forall m ext vf,
  fst (sign1_verify m ext vf) = Acc tt <->
  (exists pl, s1_payload m = Some pl) /\ glen (s1_sig m) <> 0 /\
  ensure_verification_alg (s1_h m) (vf_alg vf) ext = Acc tt /\
  exists t, tbs_sign1 (s1_h m) (s1_payload m) ext = Acc t /\ vf_run vf t (s1_sig m) = Acc tt.
Proof. exact sign1_verify_iff. Qed.
Print Assumptions C03_sign1_verify_iff.

(* the key is consulted at most once, with exactly those bytes *)
Theorem C03_sign1_verify_calls :
  forall m ext vf,
  snd (sign1_verify m ext vf) = [] \/
  exists t, snd (sign1_verify m ext vf) = [(t, s1_sig m)] /\
            tbs_sign1 (s1_h m) (s1_payload m) ext = Acc t /\
            ensure_verification_alg (s1_h m) (vf_alg vf) ext = Acc tt /\ glen (s1_sig m) <> 0.
Proof. exact sign1_verify_calls. Qed.
Print Assumptions C03_sign1_verify_calls.

Theorem C03_signature_verify_iff :
  forall s vf bp payload ext,
  fst (signature_verify s vf bp payload ext) = Acc tt <->
  (exists pl, payload = Some pl) /\ glen (sg_sig s) <> 0 /\ body_protected_ok bp = true /\
  ensure_verification_alg (sg_h s) (vf_alg vf) ext = Acc tt /\
  exists t, tbs_signature (sg_h s) bp payload ext = Acc t /\ vf_run vf t (sg_sig s) = Acc tt.
Proof. exact signature_verify_iff. Qed.
Print Assumptions C03_signature_verify_iff.

Theorem C03_csig_verify_iff :
  forall s vf target ext,
  fst (csig_verify s vf target ext) = Acc tt <->
  glen (sg_sig s) <> 0 /\ ensure_verification_alg (sg_h s) (vf_alg vf) ext = Acc tt /\
  exists t, csig_tbs s target ext = Acc t /\ vf_run vf t (sg_sig s) = Acc tt.
Proof. exact csig_verify_iff. Qed.
Print Assumptions C03_csig_verify_iff.

(* the signed bytes determine context, protected bytes, external data and payload *)
Theorem C03_sig1_injective :
  forall s bp e p s' bp' e' p',
  (String.length s < 1000)%nat -> (String.length s' < 1000)%nat ->
  short bp -> short e -> short p -> short bp' -> short e' -> short p' ->
  ser (sig1_tree s bp e p) = ser (sig1_tree s' bp' e' p') ->
  str_bytes s = str_bytes s' /\ bp = bp' /\ e = e' /\ p = p'.
Proof. exact sig1_injective. Qed.
Print Assumptions C03_sig1_injective.

Theorem C03_csign_injective :
  forall s bp sp e p o s' bp' sp' e' p' o',
  (String.length s < 1000)%nat -> (String.length s' < 1000)%nat ->
  short bp -> short sp -> short e -> short p -> (match o with Some sg => short sg | None => True end) ->
  short bp' -> short sp' -> short e' -> short p' -> (match o' with Some sg => short sg | None => True end) ->
  ser (csign_tree s bp sp e p o) = ser (csign_tree s' bp' sp' e' p' o') ->
  str_bytes s = str_bytes s' /\ bp = bp' /\ sp = sp' /\ e = e' /\ p = p' /\ o = o'.
Proof. exact csign_injective. Qed.
Print Assumptions C03_csign_injective.

(* structures of different kinds never coincide *)
Theorem C03_sig1_vs_sign :
  forall s bp e p s' bp' sp' e' p',
  (String.length s < 1000)%nat -> (String.length s' < 1000)%nat ->
  short bp -> short e -> short p -> short bp' -> short sp' -> short e' -> short p' ->
  ser (sig1_tree s bp e p) <> ser (sign_tree s' bp' sp' e' p').
Proof. exact sig1_vs_sign. Qed.
Print Assumptions C03_sig1_vs_sign.

Theorem C03_sign_vs_csign_ctx :
  forall s bp sp e p s' bp' sp' e' p' o',
  (String.length s < 1000)%nat -> (String.length s' < 1000)%nat ->
  short bp -> short sp -> short e -> short p ->
  short bp' -> short sp' -> short e' -> short p' -> (match o' with Some sg => short sg | None => True end) ->
  str_bytes s <> str_bytes s' ->
  ser (sign_tree s bp sp e p) <> ser (csign_tree s' bp' sp' e' p' o').
Proof. exact sign_vs_csign_ctx. Qed.
Print Assumptions C03_sign_vs_csign_ctx.

Theorem C03_contexts_distinct :
  let cs := map str_bytes ["Signature1"; "Signature"; "CounterSignature"; "CounterSignatureV2";
                            "CounterSignature0"; "CounterSignature0V2"]%string in
  NoDup cs.
Proof. exact contexts_distinct. Qed.
Print Assumptions C03_contexts_distinct.

(* changes confined to unprotected headers leave the verdict unchanged *)
Theorem C03_tbs_sign1_unprot_irrelevant :
  forall rp p ru u ru' u' payload ext,
  tbs_sign1 (mkH rp p ru u) payload ext = tbs_sign1 (mkH rp p ru' u') payload ext.
Proof. exact tbs_sign1_unprot_irrelevant. Qed.
Print Assumptions C03_tbs_sign1_unprot_irrelevant.

(* a built-in ECDSA refusal is always the verification error *)
Theorem C03_verify_digest_rej :
  forall n ok sig e,
  verify_digest n ok sig = Rej e -> e = EVerification.
Proof. exact verify_digest_rej. Qed.
Print Assumptions C03_verify_digest_rej.

(* hash envelopes: a message is returned exactly when the bytes decode, the rules hold, the signature verifies over the received bytes and the digest has the length of the named hash *)
Theorem C03_verify_he_iff :
  forall vf env,
  (exists m calls, verify_he vf env = (Acc m, calls)) <->
  (exists m0 a,
    unmarshal_sign1 env = Acc m0 /\ validate_he_headers (s1_h m0) = true /\
    fst (sign1_verify m0 None vf) = Acc tt /\
    payload_hash_alg_of (hP (s1_h m0)) = Acc a /\ validate_hash a (s1_payload m0) = true).
Proof. exact verify_he_iff. Qed.
Print Assumptions C03_verify_he_iff.
