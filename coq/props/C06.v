(* C06 — No input makes a decoder or a follow-up operation panic or hang.
   Statements only (copied from coq/theories by bin/mkprops); each proof is `exact <lemma>`. *)
From Coq Require Import Ascii String ZArith List Bool Permutation.
From GoCose Require Import Bytes Cbor CborProofs Res GoVal Obs Ecdsa Fx Headers Enc Dec Msg HashEnv Key SigVer Run TbsProofs FlowProofs DecProofs KeyProofs NoPanic MoreProofs SignNoPanic.
From GoCose.Gen Require Import Generated.
Import ListNotations.
Open Scope Z_scope.

Theorem C06_unmarshal_sign1_never_panics :
  forall data,
  unmarshal_sign1 data <> Panic.
Proof. exact unmarshal_sign1_never_panics. Qed.
Print Assumptions C06_unmarshal_sign1_never_panics.

Theorem C06_unmarshal_sign1_untagged_never_panics :
  forall data,
  unmarshal_sign1_untagged data <> Panic.
Proof. exact unmarshal_sign1_untagged_never_panics. Qed.
Print Assumptions C06_unmarshal_sign1_untagged_never_panics.

Theorem C06_unmarshal_signmsg_never_panics :
  forall data,
  unmarshal_signmsg data <> Panic.
Proof. exact unmarshal_signmsg_never_panics. Qed.
Print Assumptions C06_unmarshal_signmsg_never_panics.

Theorem C06_unmarshal_signature_never_panics :
  forall data,
  unmarshal_signature data <> Panic.
Proof. exact unmarshal_signature_never_panics. Qed.
Print Assumptions C06_unmarshal_signature_never_panics.

Theorem C06_unmarshal_protected_never_panics :
  forall data,
  unmarshal_protected data <> Panic.
Proof. exact unmarshal_protected_never_panics. Qed.
Print Assumptions C06_unmarshal_protected_never_panics.

Theorem C06_unmarshal_unprotected_never_panics :
  forall data,
  unmarshal_unprotected data <> Panic.
Proof. exact unmarshal_unprotected_never_panics. Qed.
Print Assumptions C06_unmarshal_unprotected_never_panics.

Theorem C06_key_unmarshal_never_panics :
  forall data,
  key_unmarshal data <> Panic.
Proof. exact key_unmarshal_never_panics. Qed.
Print Assumptions C06_key_unmarshal_never_panics.

(* the ed25519.NewKeyFromSeed site is guarded by validation *)
Theorem C06_key_private_never_panics :
  forall k,
  key_private k <> Panic.
Proof. exact key_private_never_panics. Qed.
Print Assumptions C06_key_private_never_panics.

Theorem C06_key_public_never_panics :
  forall k,
  key_public k <> Panic.
Proof. exact key_public_never_panics. Qed.
Print Assumptions C06_key_public_never_panics.

Theorem C06_key_signer_verifier_never_panic :
  forall k oc,
  key_signer k <> Panic /\ key_verifier k oc <> Panic.
Proof. exact key_signer_verifier_never_panic. Qed.
Print Assumptions C06_key_signer_verifier_never_panic.

(* follow-up operations: the encoder never panics on any Go value of the data model, at any nesting depth *)
Theorem C06_enc_np :
  forall g kb, np (enc kb g).
Proof. exact enc_np. Qed.
Print Assumptions C06_enc_np.

(* re-encoding any message value never panics *)
Theorem C06_marshal_never_panics :
  (forall m, marshal_sign1 m <> Panic) /\ (forall m, marshal_sign1_untagged m <> Panic) /\
  (forall s, marshal_signature s <> Panic) /\ (forall m, marshal_signmsg m <> Panic).
Proof. exact marshal_never_panics. Qed.
Print Assumptions C06_marshal_never_panics.

(* verification never panics unless the caller's verifier does *)
Theorem C06_sign1_verify_never_panics :
  forall m ext vf,
  (forall t s, vf_run vf t s <> Panic) -> fst (sign1_verify m ext vf) <> Panic.
Proof. exact sign1_verify_never_panics. Qed.
Print Assumptions C06_sign1_verify_never_panics.

(* COSE_Sign: the verifier list is length-checked before it is indexed *)
Theorem C06_signmsg_verify_never_panics :
  forall m ext vfs,
  Forall vf_total vfs -> fst (signmsg_verify m ext vfs) <> Panic.
Proof. exact signmsg_verify_never_panics. Qed.
Print Assumptions C06_signmsg_verify_never_panics.

Theorem C06_csig_verify_never_panics :
  forall s vf t e,
  vf_total vf -> fst (csig_verify s vf t e) <> Panic.
Proof. exact csig_verify_never_panics. Qed.
Print Assumptions C06_csig_verify_never_panics.

Theorem C06_verify_countersign0_never_panics :
  forall vf t e sig,
  vf_total vf -> fst (verify_countersign0 vf t e sig) <> Panic.
Proof. exact verify_countersign0_never_panics. Qed.
Print Assumptions C06_verify_countersign0_never_panics.

(* the producing follow-ups: Sign never reaches a panic site, for every message value, header content, external data and signer answer (bytes, error, or both) *)
Theorem C06_sign1_sign_never_panics :
  forall m ext sg,
  out_res (sign1_sign m ext sg) <> Panic.
Proof. exact sign1_sign_never_panics. Qed.
Print Assumptions C06_sign1_sign_never_panics.

(* COSE_Sign: the signer list is length-checked before it is indexed *)
Theorem C06_signmsg_sign_never_panics :
  forall m ext sgs,
  out_res (signmsg_sign m ext sgs) <> Panic.
Proof. exact signmsg_sign_never_panics. Qed.
Print Assumptions C06_signmsg_sign_never_panics.

Theorem C06_csig_sign_never_panics :
  forall s sg t e,
  out_res (csig_sign s sg t e) <> Panic.
Proof. exact csig_sign_never_panics. Qed.
Print Assumptions C06_csig_sign_never_panics.

Theorem C06_countersign0_never_panics :
  forall sg t e,
  fst (countersign0 sg t e) <> Panic.
Proof. exact countersign0_never_panics. Qed.
Print Assumptions C06_countersign0_never_panics.

(* cose.Sign1 / cose.Sign1Untagged *)
Theorem C06_helper_sign1_never_panics :
  forall tagged h p e sg,
  fst (fst (helper_sign1 tagged h p e sg)) <> Panic.
Proof. exact helper_sign1_never_panics. Qed.
Print Assumptions C06_helper_sign1_never_panics.

(* SignHashEnvelope *)
Theorem C06_sign_he_never_panics :
  forall sg h p,
  fst (sign_he sg h p) <> Panic.
Proof. exact sign_he_never_panics. Qed.
Print Assumptions C06_sign_he_never_panics.

(* VerifyHashEnvelope on arbitrary bytes, unless the caller's verifier panics *)
Theorem C06_verify_he_never_panics :
  forall vf envelope,
  vf_total vf -> fst (verify_he vf envelope) <> Panic.
Proof. exact verify_he_never_panics. Qed.
Print Assumptions C06_verify_he_never_panics.

Theorem C06_sign_flows_reach_the_signer :
  let sg := mkSigner (-7) (fun _ => SOk (Some [1; 2])) in
  let h := mkH None (Some [GInt KInt64 1; GInt KAlg (-7)]) None None in
  out_res (sign1_sign (mkS1 h (Some [112]) None) None sg) = Acc tt /\
  out_res (signmsg_sign (mkSM (mkH None None None None) (Some [112]) [Some (mkSig h None); Some (mkSig h None)]) None [sg; sg]) = Acc tt /\
  out_res (csig_sign (mkSig h None) sg (PSign1 (mkS1 h (Some [112]) (Some [9]))) None) = Acc tt /\
  fst (countersign0 sg (PSign1 (mkS1 h (Some [112]) (Some [9]))) None) = Acc (Some [1; 2]).
Proof. exact sign_flows_reach_the_signer. Qed.
Print Assumptions C06_sign_flows_reach_the_signer.
