(* C11 — COSE_Sign verification is positional and all-or-nothing.
   Statements only (copied from coq/theories by bin/mkprops); each proof is `exact <lemma>`. *)
From Coq Require Import Ascii String ZArith List Bool Permutation.
From GoCose Require Import Bytes Cbor Res GoVal Obs Ecdsa Fx Headers Enc Dec Msg HashEnv Key SigVer Run FlowProofs.
From GoCose.Gen Require Import Generated.
Import ListNotations.
Open Scope Z_scope.

Theorem C11_signmsg_verify_iff :
  forall m ext vfs,
  fst (signmsg_verify m ext vfs) = Acc tt <->
  (exists pl, sm_payload m = Some pl) /\ sm_sigs m <> [] /\ length (sm_sigs m) = length vfs /\
  exists bp, marshal_protected (sm_h m) = Acc bp /\ Forall2 (sig_ok bp (sm_payload m) ext) (sm_sigs m) vfs.
Proof. exact signmsg_verify_iff. Qed.
Print Assumptions C11_signmsg_verify_iff.

Theorem C11_verify_loop_iff :
  forall bp payload ext,
  forall sigs vfs,
  length sigs = length vfs ->
  (fst (verify_loop sigs vfs bp payload ext) = Acc tt <-> Forall2 (sig_ok bp payload ext) sigs vfs).
Proof. exact verify_loop_iff. Qed.
Print Assumptions C11_verify_loop_iff.

Theorem C11_verify_loop_first_error :
  forall bp payload ext,
  forall pre vpre s vf post vpost,
  Forall2 (sig_ok bp payload ext) pre vpre ->
  fst (signature_verify s vf bp payload ext) <> Acc tt ->
  fst (verify_loop (pre ++ Some s :: post) (vpre ++ vf :: vpost) bp payload ext) =
  fst (signature_verify s vf bp payload ext).
Proof. exact verify_loop_first_error. Qed.
Print Assumptions C11_verify_loop_first_error.

Theorem C11_sign_loop_success :
  forall bp payload ext,
  forall sigs sgs sigs' calls,
  length sigs = length sgs ->
  sign_loop sigs sgs bp payload ext = (Acc tt, sigs', calls) ->
  length sigs' = length sigs /\
  forall i s sg, nth_error sigs i = Some s -> nth_error sgs i = Some sg ->
                 exists s', nth_error sigs' i = Some s' /\ slot_signed bp payload ext s sg s'.
Proof. exact sign_loop_success. Qed.
Print Assumptions C11_sign_loop_success.

Theorem C11_signmsg_empty_slot_not_encodable :
  forall m,
  (sm_sigs m = [] \/ In None (sm_sigs m) \/ exists s, In (Some s) (sm_sigs m) /\ glen (sg_sig s) = 0) ->
  forall b, marshal_signmsg m <> Acc b.
Proof. exact signmsg_empty_slot_not_encodable. Qed.
Print Assumptions C11_signmsg_empty_slot_not_encodable.

Theorem C11_signmsg_no_signatures_errors :
  forall m,
  sm_sigs m = [] -> marshal_signmsg m = Rej ENoSigs.
Proof. exact signmsg_no_signatures_errors. Qed.
Print Assumptions C11_signmsg_no_signatures_errors.
