(* C11 — COSE_Sign verification is positional and all-or-nothing.
   Statements only (copied from coq/theories by bin/mkprops); each proof is `exact <lemma>`. *)
From Coq Require Import Ascii String ZArith List Bool Permutation.
From GoCose Require Import Bytes Cbor Res GoVal Obs Ecdsa Fx Headers Enc Dec Msg HashEnv Key SigVer Run FlowProofs AskedOnce.
From GoCose.Gen Require Import Generated.
Import ListNotations.
Open Scope Z_scope.

Theorem C11_signmsg_verify_iff :
  forall m ext vfs,
  fst (signmsg_verify m ext vfs) = Acc tt <->
  (exists pl, sm_payload m = Some pl) /\ sm_sigs m <> [] /\ length (sm_sigs m) = length vfs /\
  exists bp, marshal_protected (sm_h m) = Acc bp /\ Forall2 (sig_ok bp (sm_payload m) ext) (sm_sigs m) vfs.
Proof. exact signmsg_verify_iff. Qed.
Print Assumptions C11_signmsg_verify_iff.

Theorem C11_verify_loop_iff :
  forall bp payload ext,
  forall sigs vfs,
  length sigs = length vfs ->
  (fst (verify_loop sigs vfs bp payload ext) = Acc tt <-> Forall2 (sig_ok bp payload ext) sigs vfs).
Proof. exact verify_loop_iff. Qed.
Print Assumptions C11_verify_loop_iff.

Theorem C11_verify_loop_first_error :
  forall bp payload ext,
  forall pre vpre s vf post vpost,
  Forall2 (sig_ok bp payload ext) pre vpre ->
  fst (signature_verify s vf bp payload ext) <> Acc tt ->
  fst (verify_loop (pre ++ Some s :: post) (vpre ++ vf :: vpost) bp payload ext) =
  fst (signature_verify s vf bp payload ext).
Proof. exact verify_loop_first_error. Qed.
Print Assumptions C11_verify_loop_first_error.

Theorem C11_sign_loop_success :
  forall bp payload ext,
  forall sigs sgs sigs' calls,
  length sigs = length sgs ->
  sign_loop sigs sgs bp payload ext = (Acc tt, sigs', calls) ->
  length sigs' = length sigs /\
  forall i s sg, nth_error sigs i = Some s -> nth_error sgs i = Some sg ->
                 exists s', nth_error sigs' i = Some s' /\ slot_signed bp payload ext s sg s'.
Proof. exact sign_loop_success. Qed.
Print Assumptions C11_sign_loop_success.

Theorem C11_signmsg_empty_slot_not_encodable :
  forall m,
  (sm_sigs m = [] \/ In None (sm_sigs m) \/ exists s, In (Some s) (sm_sigs m) /\ glen (sg_sig s) = 0) ->
  forall b, marshal_signmsg m <> Acc b.
Proof. exact signmsg_empty_slot_not_encodable. Qed.
Print Assumptions C11_signmsg_empty_slot_not_encodable.

Theorem C11_signmsg_no_signatures_errors :
  forall m,
  sm_sigs m = [] -> marshal_signmsg m = Rej ENoSigs.
Proof. exact signmsg_no_signatures_errors. Qed.
Print Assumptions C11_signmsg_no_signatures_errors.

(* never more questions than signatures, and every question put to a verifier is about the signature at that verifier's own position *)
Theorem C11_signmsg_verify_calls :
  forall m ext vfs,
  (length (snd (signmsg_verify m ext vfs)) <= length (sm_sigs m))%nat /\
  forall c, In c (snd (signmsg_verify m ext vfs)) ->
    exists bp i s vf, marshal_protected (sm_h m) = Acc bp /\
      nth_error (sm_sigs m) i = Some (Some s) /\ nth_error vfs i = Some vf /\
      In c (snd (signature_verify s vf bp (sm_payload m) ext)).
Proof. exact signmsg_verify_calls. Qed.
Print Assumptions C11_signmsg_verify_calls.

(* after the first position that does not verify nobody else is asked *)
Theorem C11_verify_loop_stops_at_refusal :
  forall bp pl ext pre vpre s vf post vpost,
  Forall2 (sig_ok bp pl ext) pre vpre ->
  fst (signature_verify s vf bp pl ext) <> Acc tt ->
  snd (verify_loop (pre ++ Some s :: post) (vpre ++ vf :: vpost) bp pl ext) =
  snd (verify_loop pre vpre bp pl ext) ++ snd (signature_verify s vf bp pl ext).
Proof. exact verify_loop_stops_at_refusal. Qed.
Print Assumptions C11_verify_loop_stops_at_refusal.

(* a position is accepted only by its own verifier's answer about its own structure *)
Theorem C11_signature_verify_accepts_only_own :
  forall s vf bp pl ext,
  fst (signature_verify s vf bp pl ext) = Acc tt ->
  exists t, tbs_signature (sg_h s) bp pl ext = Acc t /\ vf_run vf t (sg_sig s) = Acc tt.
Proof. exact signature_verify_accepts_only_own. Qed.
Print Assumptions C11_signature_verify_accepts_only_own.

Theorem C11_asked_once_example :
  let vf_bad := mkVerifier (-7) (fun _ _ => Rej EVerification) in
  let vf_ok := mkVerifier (-7) (fun _ _ => Acc tt) in
  let h := mkH None (Some [GInt KInt64 1; GInt KAlg (-7)]) None None in
  let s1 := mkSig h (Some [1]) in
  let s2 := mkSig h (Some [2]) in
  let r := verify_loop [Some s1; Some s2] [vf_bad; vf_ok] [64] (Some [112]) None in
  fst r = Rej EVerification /\ length (snd r) = 1%nat /\
  snd r = snd (signature_verify s1 vf_bad [64] (Some [112]) None).
Proof. exact asked_once_example. Qed.
Print Assumptions C11_asked_once_example.
