(* C05 — Decoders accept only well-formed COSE of their own type.
   Statements only (copied from coq/theories by bin/mkprops); each proof is `exact <lemma>`. *)
From Coq Require Import Ascii String ZArith List Bool Permutation.
From GoCose Require Import Bytes Cbor CborProofs Res GoVal Obs Ecdsa Fx Headers RulesTie Enc Dec Msg HashEnv Key SigVer Run TbsProofs FlowProofs DecProofs CsigList KeyProofs HdrProofs NoPanic MoreProofs.
From GoCose.Gen Require Import Generated.
Import ListNotations.
Open Scope Z_scope.

Theorem C05_unmarshal_sign1_wellformed :
  forall data m,
  unmarshal_sign1 data = Acc m ->
  exists p u pl sg,
    data = 210 :: ser (WArr W0 [p; u; pl; sg]) /\
    wf (WArr W0 [p; u; pl; sg]) = true /\
    notags (WArr W0 [p; u; pl; sg]) = true /\
    depth_ok false (WArr W0 [p; u; pl; sg]) 0 = true /\
    bstr_or_nil pl = Acc (s1_payload m) /\
    (exists w b, sg = WStr false w b /\ s1_sig m = Some b /\ b <> []) /\
    exists pm um, s1_h m = mkH (Some (ser p)) (Some pm) (Some (ser u)) (Some um) /\
                  protected_wellformed p pm /\ unprotected_is_map u /\
                  validate_params um false = true /\ ensure_iv (s1_h m) = true.
Proof. exact unmarshal_sign1_wellformed. Qed.
Print Assumptions C05_unmarshal_sign1_wellformed.

Theorem C05_unmarshal_sign1_untagged_wellformed :
  forall data m,
  unmarshal_sign1_untagged data = Acc m ->
  exists p u pl sg,
    data = ser (WArr W0 [p; u; pl; sg]) /\ wf (WArr W0 [p; u; pl; sg]) = true /\
    notags (WArr W0 [p; u; pl; sg]) = true /\
    bstr_or_nil pl = Acc (s1_payload m) /\ bstr_or_nil sg = Acc (s1_sig m) /\ glen (s1_sig m) <> 0 /\
    dec_headers p u = Acc (s1_h m).
Proof. exact unmarshal_sign1_untagged_wellformed. Qed.
Print Assumptions C05_unmarshal_sign1_untagged_wellformed.

Theorem C05_unmarshal_signature_wellformed :
  forall data s,
  unmarshal_signature data = Acc s ->
  exists p u sg,
    data = ser (WArr W0 [p; u; sg]) /\ wf (WArr W0 [p; u; sg]) = true /\
    notags (WArr W0 [p; u; sg]) = true /\
    bstr_or_nil sg = Acc (sg_sig s) /\ glen (sg_sig s) <> 0 /\ dec_headers p u = Acc (sg_h s).
Proof. exact unmarshal_signature_wellformed. Qed.
Print Assumptions C05_unmarshal_signature_wellformed.

Theorem C05_unmarshal_signmsg_wellformed :
  forall data m,
  unmarshal_signmsg data = Acc m ->
  exists p u pl ws items,
    data = 216 :: 98 :: ser (WArr W0 [p; u; pl; WArr ws items]) /\
    wf (WArr W0 [p; u; pl; WArr ws items]) = true /\
    notags (WArr W0 [p; u; pl; WArr ws items]) = true /\
    bstr_or_nil pl = Acc (sm_payload m) /\ items <> [] /\
    dec_headers p u = Acc (sm_h m) /\
    exists sigs, mapM dec_signature_item items = Acc sigs /\ sm_sigs m = map Some sigs.
Proof. exact unmarshal_signmsg_wellformed. Qed.
Print Assumptions C05_unmarshal_signmsg_wellformed.

(* every layer: protected bstr empty or one map, unprotected a map, rules checked, IV split *)
Theorem C05_dec_headers_inv :
  forall p u h,
  dec_headers p u = Acc h ->
  exists pm um,
    h = mkH (Some (ser p)) (Some pm) (Some (ser u)) (Some um) /\
    protected_wellformed p pm /\ unprotected_is_map u /\ validate_params um false = true /\
    ensure_iv h = true.
Proof. exact dec_headers_inv. Qed.
Print Assumptions C05_dec_headers_inv.

(* no decoder accepts another kind's encoding *)
Theorem C05_sign1_tagged_vs_untagged :
  forall data m m',
  unmarshal_sign1 data = Acc m -> unmarshal_sign1_untagged data = Acc m' -> False.
Proof. exact sign1_tagged_vs_untagged. Qed.
Print Assumptions C05_sign1_tagged_vs_untagged.

Theorem C05_sign1_vs_signature :
  forall data m s,
  unmarshal_sign1 data = Acc m -> unmarshal_signature data = Acc s -> False.
Proof. exact sign1_vs_signature. Qed.
Print Assumptions C05_sign1_vs_signature.

Theorem C05_untagged_vs_signature :
  forall data m s,
  unmarshal_sign1_untagged data = Acc m -> unmarshal_signature data = Acc s -> False.
Proof. exact untagged_vs_signature. Qed.
Print Assumptions C05_untagged_vs_signature.

Theorem C05_signmsg_vs_others :
  forall data m,
  unmarshal_signmsg data = Acc m ->
  (forall x, unmarshal_sign1 data <> Acc x) /\ (forall x, unmarshal_sign1_untagged data <> Acc x) /\
  (forall x, unmarshal_signature data <> Acc x).
Proof. exact signmsg_vs_others. Qed.
Print Assumptions C05_signmsg_vs_others.

(* accepted bytes are the serialisation of one definite-length item (no indefinite constructor exists) *)
Theorem C05_ser_parse :
  forall d b x r,
  parse d b = Some (x, r) -> b = ser x ++ r /\ wf x = true.
Proof. exact ser_parse. Qed.
Print Assumptions C05_ser_parse.

(* the section 3.1 rules hold in every accepted bucket *)
Theorem C05_validated_rules :
  forall h prot k v n,
  validate_params h prot = true -> entry_in k v h -> normalize_label k = Some (lbl n) ->
  (n = c_HeaderLabelAlgorithm -> is_alg_typed v = true \/ can_int v = true \/ can_tstr v = true) /\
  (n = c_HeaderLabelCritical -> prot = true /\ ensure_critical v h = true) /\
  (n = c_HeaderLabelContentType \/ n = c_HeaderLabelType -> uint_or_media v = true) /\
  (n = c_HeaderLabelKeyID -> can_bstr v = true) /\
  (n = c_HeaderLabelIV -> can_bstr v = true /\ has_label h c_HeaderLabelPartialIV = false) /\
  (n = c_HeaderLabelPartialIV -> can_bstr v = true /\ has_label h c_HeaderLabelIV = false) /\
  (n = c_HeaderLabelCounterSignature \/ n = c_HeaderLabelCounterSignatureV2 -> prot = false /\ is_csig_value v = true) /\
  (n = c_HeaderLabelCounterSignature0 \/ n = c_HeaderLabelCounterSignature0V2 -> prot = false /\ can_bstr v = true).
Proof. exact validated_rules. Qed.
Print Assumptions C05_validated_rules.

(* the section 3.1 rules checked are those of the switch in /repo's validateHeaderParameters (translated table) *)
Theorem C05_translated_rules_agree :
  forall prot h label value,
  check_param_tbl tbl_header_rules prot h label value = check_param prot h label value.
Proof. exact translated_rules_agree. Qed.
Print Assumptions C05_translated_rules_agree.

(* no duplicate map key at any nesting depth: every map inside a decoded value (header values, nested containers) has pairwise distinct keys under Go equality *)
Theorem C05_dec_nodup :
  forall x strip g, dec strip x = Acc g -> gv_nodup g = true.
Proof. exact dec_nodup. Qed.
Print Assumptions C05_dec_nodup.

(* the countersignature part of the unprotected-bucket decoder restated with top-level functions (proved equal to the definition used everywhere else) *)
Theorem C05_dec_unprotected_unfold :
  forall f u,
  dec_unprotected (S f) u =
  match u with
  | WMap _ l =>
      let* ks := labels_pass l in
      if negb (keys_nodup ks) then Rej EOther
      else
        let* vs := dec_uvalues f l ks in
        let m := zip_flat ks vs in
        if validate_params m false then Acc m else Rej EOther
  | _ => Rej EOther
  end.
Proof. exact dec_unprotected_unfold. Qed.
Print Assumptions C05_dec_unprotected_unfold.

(* a list of countersignatures is accepted exactly when every element is, and holds at every position the countersignature decoded from the element at that position *)
Theorem C05_dec_sig_list_positional :
  forall f l cs,
  dec_sig_list f l = Acc cs <-> Forall2 (elem_ok f) l cs.
Proof. exact dec_sig_list_positional. Qed.
Print Assumptions C05_dec_sig_list_positional.

Theorem C05_dec_sig_list_nth :
  forall f l cs i y,
  dec_sig_list f l = Acc cs -> nth_error l i = Some y ->
  exists c, nth_error cs i = Some c /\ dec_sig_at f (strip_sd y) = Acc c.
Proof. exact dec_sig_list_nth. Qed.
Print Assumptions C05_dec_sig_list_nth.

Theorem C05_dec_sig_list_length :
  forall f l cs, dec_sig_list f l = Acc cs -> length cs = length l.
Proof. exact dec_sig_list_length. Qed.
Print Assumptions C05_dec_sig_list_length.

(* the value under label 7 / 11 is one object or such a list *)
Theorem C05_dec_csig_value_cases :
  forall f v g,
  dec_csig_value_at f v = Acc g ->
  dec_sig_at f (strip_sd v) = Acc g \/
  exists w y l cs, strip_sd v = WArr w (y :: l) /\ g = GCsigs cs /\ Forall2 (elem_ok f) (y :: l) cs.
Proof. exact dec_csig_value_cases. Qed.
Print Assumptions C05_dec_csig_value_cases.

Theorem C05_csig_list_example :
  let el k := WArr W0 [WStr false W0 [161; 4; 65; k]; WMap W0 []; WStr false W0 [k; 238]] in
  match dec_csig_value_at 5 (WArr W0 [el 97; el 98; el 99]) with
  | Acc (GCsigs [GCsig _ _ _ _ (Some [97; 238]); GCsig _ _ _ _ (Some [98; 238]); GCsig _ _ _ _ (Some [99; 238])]) => True
  | _ => False
  end.
Proof. exact csig_list_example. Qed.
Print Assumptions C05_csig_list_example.
