(* C14 — COSE_Key conversion round-trips every key and keeps coordinates full length.
   Statements only (copied from coq/theories by bin/mkprops); each proof is `exact <lemma>`. *)
From Coq Require Import Ascii String ZArith List Bool Permutation.
From GoCose Require Import Bytes Cbor CborProofs Res GoVal Obs Ecdsa Fx Headers Enc Dec Msg HashEnv Key SigVer Run TbsProofs KeyProofs KeyCbor.
From GoCose.Gen Require Import Generated.
Import ListNotations.
Open Scope Z_scope.

(* what the constructors store: non-empty, within the field size, the same integer (the value 0 as size zero octets) *)
Theorem C14_ec_coord_spec :
  forall v size,
  0 < size -> 0 <= v < 256 ^ size ->
  0 < len (ec_coord v size) <= size /\ bytes_ok (ec_coord v size) = true /\ be_dec (ec_coord v size) = v.
Proof. exact ec_coord_spec. Qed.
Print Assumptions C14_ec_coord_spec.

Theorem C14_pad_to_spec :
  forall size b,
  len b <= size -> len (pad_to size b) = size /\ be_dec (pad_to size b) = be_dec b.
Proof. exact pad_to_spec. Qed.
Print Assumptions C14_pad_to_spec.

Theorem C14_public_key_roundtrip :
  forall crv alg bits x y,
  curve_triple crv alg bits ->
  0 <= x < 256 ^ field_size bits -> 0 <= y < 256 ^ field_size bits ->
  exists k, new_key_from_public (PubEC bits x y) = Acc k /\ key_public k = Acc (PubEC bits x y) /\
            (exists cx cy, key_x k = Some cx /\ key_y k = Some cy /\
                           0 < len cx <= field_size bits /\ 0 < len cy <= field_size bits /\ be_dec cx = x /\ be_dec cy = y).
Proof. exact public_key_roundtrip. Qed.
Print Assumptions C14_public_key_roundtrip.

Theorem C14_field_sizes :
  curve_size c_CurveP256 = 32 /\ curve_size c_CurveP384 = 48 /\ curve_size c_CurveP521 = 66 /\
                      field_size 256 = 32 /\ field_size 384 = 48 /\ field_size 521 = 66.
Proof. exact field_sizes. Qed.
Print Assumptions C14_field_sizes.

(* the whole conversion through the wire, public half: Go key -> COSE_Key -> MarshalCBOR -> UnmarshalCBOR -> Go key is the identity for every point, and x, y travel as byte strings of exactly the field size *)
Theorem C14_go_public_key_cbor_roundtrip :
  forall crv alg bits x y,
  curve_triple crv alg bits ->
  0 <= x < 256 ^ field_size bits -> 0 <= y < 256 ^ field_size bits ->
  exists k k' px py,
    new_key_from_public (PubEC bits x y) = Acc k /\
    key_marshal k = Acc (ser (ec2_wire crv alg px py None)) /\      
    len px = field_size bits /\ len py = field_size bits /\        
    be_dec px = x /\ be_dec py = y /\
    key_unmarshal (ser (ec2_wire crv alg px py None)) = Acc k' /\   
    key_public k' = Acc (PubEC bits x y) /\                          
    key_public k = Acc (PubEC bits x y).
Proof. exact go_public_key_cbor_roundtrip. Qed.
Print Assumptions C14_go_public_key_cbor_roundtrip.

(* the same with private material, every scalar 0 < d < 2^(8 size) *)
Theorem C14_go_private_key_cbor_roundtrip :
  forall crv alg bits x y d,
  curve_triple crv alg bits ->
  0 <= x < 256 ^ field_size bits -> 0 <= y < 256 ^ field_size bits -> 0 < d < 256 ^ field_size bits ->
  exists k k' px py dd,
    new_key_from_private (PrivEC bits x y d) = Acc k /\
    key_marshal k = Acc (ser (ec2_wire crv alg px py (Some dd))) /\
    len px = field_size bits /\ len py = field_size bits /\
    key_unmarshal (ser (ec2_wire crv alg px py (Some dd))) = Acc k' /\
    key_private k' = Acc (PrivEC bits x y d) /\ key_private k = Acc (PrivEC bits x y d).
Proof. exact go_private_key_cbor_roundtrip. Qed.
Print Assumptions C14_go_private_key_cbor_roundtrip.

(* Ed25519 keys *)
Theorem C14_go_ed25519_key_cbor_roundtrip :
  forall sk,
  length sk = 64%nat -> bytes_ok sk = true ->
  exists k,
    new_key_from_private (PrivEd sk) = Acc k /\
    key_marshal k = Acc (ser (okp_wire (Some (skipn 32 sk)) (Some (firstn 32 sk)))) /\
    key_unmarshal (ser (okp_wire (Some (skipn 32 sk)) (Some (firstn 32 sk)))) = Acc k /\
    key_private k = Acc (PrivEd sk) /\ key_public k = Acc (PubEd (skipn 32 sk)).
Proof. exact go_ed25519_key_cbor_roundtrip. Qed.
Print Assumptions C14_go_ed25519_key_cbor_roundtrip.

(* MarshalCBOR of an EC2 key: the exact bytes, a deterministic map *)
Theorem C14_ec2_key_marshal :
  forall crv alg bits cx cy od,
  curve_triple crv alg bits -> 0 < len cx <= field_size bits -> 0 < len cy <= field_size bits ->
  key_marshal (ec2_key crv alg cx cy od) =
    Acc (ser (ec2_wire crv alg (pad_to (field_size bits) cx) (pad_to (field_size bits) cy) od)).
Proof. exact ec2_key_marshal. Qed.
Print Assumptions C14_ec2_key_marshal.

(* UnmarshalCBOR of those bytes: the same key *)
Theorem C14_ec2_key_unmarshal :
  forall crv alg bits cx cy od,
  curve_triple crv alg bits -> len cx = field_size bits -> len cy = field_size bits ->
  short cx -> short cy -> short_opt od ->
  match od with Some d => len d <= field_size bits | None => True end ->
  key_unmarshal (ser (ec2_wire crv alg cx cy od)) = Acc (ec2_key crv alg cx cy od).
Proof. exact ec2_key_unmarshal. Qed.
Print Assumptions C14_ec2_key_unmarshal.

Theorem C14_key_cbor_example :
  new_key_from_public (PubEC 256 1 2) = Acc (ec2_key 1 (-7) [1] [2] None) /\
  key_marshal (ec2_key 1 (-7) [1] [2] None) =
    Acc (x "a5010203262001215820" ++ repeat 0 31 ++ [1] ++ x "225820" ++ repeat 0 31 ++ [2]) /\
  new_key_from_public (PubEC 256 0 2) = Acc (ec2_key 1 (-7) (repeat 0 32) [2] None).
Proof. exact key_cbor_example. Qed.
Print Assumptions C14_key_cbor_example.
