(* C14 — COSE_Key conversion round-trips every key and keeps coordinates full length.
   Statements only (copied from coq/theories by bin/mkprops); each proof is `exact <lemma>`. *)
From Coq Require Import Ascii String ZArith List Bool Permutation.
From GoCose Require Import Bytes Cbor CborProofs Res GoVal Obs Ecdsa EcdsaProofs Fx Headers Enc Dec Msg HashEnv Key SigVer Run TbsProofs FlowProofs DecProofs KeyProofs HdrProofs EncProofs EncCanon NoPanic Effects MoreProofs.
From GoCose.Gen Require Import Generated.
Import ListNotations.
Open Scope Z_scope.

Theorem C14_ec_coord_full_width :
  forall v size,
  0 <= size -> 0 <= v < 256 ^ size ->
  len (ec_coord v size) = size /\ bytes_ok (ec_coord v size) = true /\ be_dec (ec_coord v size) = v.
Proof. exact ec_coord_full_width. Qed.
Print Assumptions C14_ec_coord_full_width.

Theorem C14_pad_to_spec :
  forall size b,
  len b <= size -> len (pad_to size b) = size /\ be_dec (pad_to size b) = be_dec b.
Proof. exact pad_to_spec. Qed.
Print Assumptions C14_pad_to_spec.

Theorem C14_public_key_roundtrip :
  forall crv alg bits x y,
  curve_triple crv alg bits ->
  0 <= x < 256 ^ field_size bits -> 0 <= y < 256 ^ field_size bits ->
  exists k, new_key_from_public (PubEC bits x y) = Acc k /\ key_public k = Acc (PubEC bits x y) /\
            (exists cx cy, key_x k = Some cx /\ key_y k = Some cy /\
                           len cx = field_size bits /\ len cy = field_size bits /\ be_dec cx = x /\ be_dec cy = y).
Proof. exact public_key_roundtrip. Qed.
Print Assumptions C14_public_key_roundtrip.

Theorem C14_field_sizes :
  curve_size c_CurveP256 = 32 /\ curve_size c_CurveP384 = 48 /\ curve_size c_CurveP521 = 66 /\
                      field_size 256 = 32 /\ field_size 384 = 48 /\ field_size 521 = 66.
Proof. exact field_sizes. Qed.
Print Assumptions C14_field_sizes.
