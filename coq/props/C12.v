(* C12 — Hash envelopes: only conforming envelopes are produced or accepted.
   Statements only (copied from coq/theories by bin/mkprops); each proof is `exact <lemma>`. *)
From Coq Require Import Ascii String ZArith List Bool Permutation.
From GoCose Require Import Bytes Cbor CborProofs Res GoVal Obs Ecdsa EcdsaProofs Fx Headers Enc Dec Msg HashEnv Key SigVer Run TbsProofs FlowProofs DecProofs KeyProofs HdrProofs EncProofs EncCanon NoPanic Effects MoreProofs KeyCbor EncDec HdrRoundTrip WireLeg RulesTie.
From GoCose.Gen Require Import Generated.
Import ListNotations.
Open Scope Z_scope.

Theorem C12_sign_he_produces :
  forall sg h p b calls,
  sign_he sg h p = (Acc b, calls) ->
  let h' := mkH None (Some (set_he_protected (hP h) p)) (rawU h) (hU h) in
  validate_hash (he_alg p) (he_value p) = true /\ validate_he_headers h' = true /\
  out_res (sign1_sign (mkS1 h' (he_value p) None) None sg) = Acc tt /\
  marshal_sign1 (out_post (sign1_sign (mkS1 h' (he_value p) None) None sg)) = Acc b /\
  s1_payload (out_post (sign1_sign (mkS1 h' (he_value p) None) None sg)) = he_value p.
Proof. exact sign_he_produces. Qed.
Print Assumptions C12_sign_he_produces.

Theorem C12_verify_he_accepts :
  forall vf env m calls,
  verify_he vf env = (Acc m, calls) ->
  exists m0 a,
    unmarshal_sign1 env = Acc m0 /\ validate_he_headers (s1_h m0) = true /\
    fst (sign1_verify m0 None vf) = Acc tt /\
    payload_hash_alg_of (hP (s1_h m0)) = Acc a /\ validate_hash a (s1_payload m0) = true /\
    s1_payload m = s1_payload m0 /\ s1_sig m = s1_sig m0 /\ rawP (s1_h m) = rawP (s1_h m0).
Proof. exact verify_he_accepts. Qed.
Print Assumptions C12_verify_he_accepts.

Theorem C12_he_rules :
  forall h,
  validate_he_headers h = true ->
  (exists k v, entry_in k v (hmap (hP h)) /\ normalize_label k = Some (lbl c_HeaderLabelPayloadHashAlgorithm) /\
               (is_alg_typed v = true \/ can_int v = true)) /\
  (forall k v n, entry_in k v (hmap (hP h)) -> normalize_label k = Some (lbl n) ->
                 n <> c_HeaderLabelContentType /\
                 (n = c_HeaderLabelPayloadPreimageContentType -> can_uint v = true \/ can_tstr v = true) /\
                 (n = c_HeaderLabelPayloadLocation -> can_tstr v = true)) /\
  (forall k v n, entry_in k v (hmap (hU h)) -> normalize_label k = Some (lbl n) ->
                 n <> c_HeaderLabelContentType /\ n <> c_HeaderLabelPayloadHashAlgorithm /\
                 n <> c_HeaderLabelPayloadPreimageContentType /\ n <> c_HeaderLabelPayloadLocation).
Proof. exact he_rules. Qed.
Print Assumptions C12_he_rules.

Theorem C12_validate_hash_length :
  forall a v,
  validate_hash a v = true ->
  (hash_func a = std_crypto_SHA256 -> glen v = 32) /\ (hash_func a = std_crypto_SHA384 -> glen v = 48) /\
  (hash_func a = std_crypto_SHA512 -> glen v = 64).
Proof. exact validate_hash_length. Qed.
Print Assumptions C12_validate_hash_length.

Theorem C12_set_he_protected_carries :
  forall base p,
  he_ctype p = GNil -> he_loc p = [] ->
  glookup (lbl c_HeaderLabelPayloadHashAlgorithm) (set_he_protected base p) = Some (GInt KAlg (he_alg p)).
Proof. exact set_he_protected_carries. Qed.
Print Assumptions C12_set_he_protected_carries.
