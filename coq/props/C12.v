(* C12 — Hash envelopes: only conforming envelopes are produced or accepted.
   Statements only (copied from coq/theories by bin/mkprops); each proof is `exact <lemma>`. *)
From Coq Require Import Ascii String ZArith List Bool Permutation.
From GoCose Require Import Bytes Cbor CborProofs Res GoVal Obs Ecdsa Fx Headers Enc Dec Msg HashEnv Key SigVer Run TbsProofs FlowProofs AskedOnce DecProofs KeyProofs HdrProofs EncProofs EncCanon NoPanic MoreProofs EncDec HdrRoundTrip WireLeg HeWire.
From GoCose.Gen Require Import Generated.
Import ListNotations.
Open Scope Z_scope.

Theorem C12_sign_he_produces :
  forall sg h p b calls,
  sign_he sg h p = (Acc b, calls) ->
  let h' := mkH None (Some (set_he_protected (hP h) p)) (rawU h) (hU h) in
  validate_hash (he_alg p) (he_value p) = true /\ validate_he_headers h' = true /\
  out_res (sign1_sign (mkS1 h' (he_value p) None) None sg) = Acc tt /\
  marshal_sign1 (out_post (sign1_sign (mkS1 h' (he_value p) None) None sg)) = Acc b /\
  s1_payload (out_post (sign1_sign (mkS1 h' (he_value p) None) None sg)) = he_value p.
Proof. exact sign_he_produces. Qed.
Print Assumptions C12_sign_he_produces.

Theorem C12_verify_he_accepts :
  forall vf env m calls,
  verify_he vf env = (Acc m, calls) ->
  exists m0 a,
    unmarshal_sign1 env = Acc m0 /\ validate_he_headers (s1_h m0) = true /\
    fst (sign1_verify m0 None vf) = Acc tt /\
    payload_hash_alg_of (hP (s1_h m0)) = Acc a /\ validate_hash a (s1_payload m0) = true /\
    s1_payload m = s1_payload m0 /\ s1_sig m = s1_sig m0 /\ rawP (s1_h m) = rawP (s1_h m0).
Proof. exact verify_he_accepts. Qed.
Print Assumptions C12_verify_he_accepts.

Theorem C12_he_rules :
  forall h,
  validate_he_headers h = true ->
  (exists k v, entry_in k v (hmap (hP h)) /\ normalize_label k = Some (lbl c_HeaderLabelPayloadHashAlgorithm) /\
               (is_alg_typed v = true \/ can_int v = true)) /\
  (forall k v n, entry_in k v (hmap (hP h)) -> normalize_label k = Some (lbl n) ->
                 n <> c_HeaderLabelContentType /\
                 (n = c_HeaderLabelPayloadPreimageContentType -> can_uint v = true \/ can_tstr v = true) /\
                 (n = c_HeaderLabelPayloadLocation -> can_tstr v = true)) /\
  (forall k v n, entry_in k v (hmap (hU h)) -> normalize_label k = Some (lbl n) ->
                 n <> c_HeaderLabelContentType /\ n <> c_HeaderLabelPayloadHashAlgorithm /\
                 n <> c_HeaderLabelPayloadPreimageContentType /\ n <> c_HeaderLabelPayloadLocation).
Proof. exact he_rules. Qed.
Print Assumptions C12_he_rules.

(* both directions: SignHashEnvelope returns bytes exactly when the digest and the headers obey the rules, Sign succeeded and the message encodes *)
Theorem C12_sign_he_iff :
  forall sg h p,
  let h' := mkH None (Some (set_he_protected (hP h) p)) (rawU h) (hU h) in
  let o := sign1_sign (mkS1 h' (he_value p) None) None sg in
  (exists b calls, sign_he sg h p = (Acc b, calls)) <->
  (validate_hash (he_alg p) (he_value p) = true /\ validate_he_headers h' = true /\
   out_res o = Acc tt /\ exists b, marshal_sign1 (out_post o) = Acc b).
Proof. exact sign_he_iff. Qed.
Print Assumptions C12_sign_he_iff.

(* both directions: VerifyHashEnvelope returns a message exactly when the bytes decode as COSE_Sign1, the headers obey the rules, the signature verifies over the received bytes and the digest has the length of the named hash *)
Theorem C12_verify_he_iff :
  forall vf env,
  (exists m calls, verify_he vf env = (Acc m, calls)) <->
  (exists m0 a,
    unmarshal_sign1 env = Acc m0 /\ validate_he_headers (s1_h m0) = true /\
    fst (sign1_verify m0 None vf) = Acc tt /\
    payload_hash_alg_of (hP (s1_h m0)) = Acc a /\ validate_hash a (s1_payload m0) = true).
Proof. exact verify_he_iff. Qed.
Print Assumptions C12_verify_he_iff.

Theorem C12_validate_hash_length :
  forall a v,
  validate_hash a v = true ->
  (hash_func a = std_crypto_SHA256 -> glen v = 32) /\ (hash_func a = std_crypto_SHA384 -> glen v = 48) /\
  (hash_func a = std_crypto_SHA512 -> glen v = 64).
Proof. exact validate_hash_length. Qed.
Print Assumptions C12_validate_hash_length.

Theorem C12_set_he_protected_carries :
  forall base p,
  he_ctype p = GNil -> he_loc p = [] ->
  glookup (lbl c_HeaderLabelPayloadHashAlgorithm) (set_he_protected base p) = Some (GInt KAlg (he_alg p)).
Proof. exact set_he_protected_carries. Qed.
Print Assumptions C12_set_he_protected_carries.

(* whatever SignHashEnvelope returns (typed buckets of simple values) is accepted by VerifyHashEnvelope under an accepting verifier, and the message it returns carries the digest and the payload hash algorithm that were asked for *)
Theorem C12_sign_he_then_verify_he :
  forall sg vf h p env calls x r sig,
  rawU h = None ->
  sign_he sg h p = (Acc env, calls) ->
  accepts vf sg ->
  let h' := mkH None (Some (set_he_protected (hP h) p)) None (hU h) in
  out_post (sign1_sign (mkS1 h' (he_value p) None) None sg) = mkS1 (mkH None (Some (x :: r)) None (hU h)) (he_value p) (Some sig) ->
  bucket_ok (Some (x :: r)) -> bucket_ok (hU h) -> prot_limits (Some (x :: r)) -> unprot_limits (hU h) ->
  (exists hv, he_value p = Some hv /\ short hv) -> short sig ->
  validate_he_headers (mkH None (Some (x :: r)) None (hU h)) = true ->
  payload_hash_alg_of (Some (x :: r)) = Acc (he_alg p) ->
  lib_wf false (tl env) <> None ->
  exists m', fst (verify_he vf env) = Acc m' /\ s1_payload m' = he_value p /\
             payload_hash_alg_of (hP (s1_h m')) = Acc (he_alg p).
Proof. exact sign_he_then_verify_he. Qed.
Print Assumptions C12_sign_he_then_verify_he.

Theorem C12_he_wire :
  forall x r ou hv sig env vf a,
  let lp := x :: r in
  let m1 := mkS1 (mkH None (Some lp) None ou) (Some hv) (Some sig) in
  bucket_ok (Some lp) -> bucket_ok ou -> prot_limits (Some lp) -> unprot_limits ou ->
  short hv -> short sig -> sig <> [] ->
  validate_he_headers (s1_h m1) = true ->
  payload_hash_alg_of (Some lp) = Acc a -> validate_hash a (Some hv) = true ->
  marshal_sign1 m1 = Acc env -> lib_wf false (tl env) <> None ->
  fst (sign1_verify m1 None vf) = Acc tt ->
  exists m', fst (verify_he vf env) = Acc m' /\ s1_payload m' = Some hv /\ s1_sig m' = Some sig /\
             payload_hash_alg_of (hP (s1_h m')) = Acc a.
Proof. exact he_wire. Qed.
Print Assumptions C12_he_wire.

Theorem C12_he_example :
  fst (sign_he ex_sg ex_h ex_p) = Acc ex_env /\
  match fst (verify_he ex_vf ex_env) with
  | Acc m => s1_payload m = Some (repeat 7 32) /\ payload_hash_alg_of (hP (s1_h m)) = Acc (-16)
  | _ => False
  end.
Proof. exact he_example. Qed.
Print Assumptions C12_he_example.

(* an envelope whose protected bucket names no algorithm is never returned *)
Theorem C12_verify_he_without_alg :
  forall vf env m0,
  unmarshal_sign1 env = Acc m0 -> alg_of (hP (s1_h m0)) = Rej EAlgNotFound ->
  snd (verify_he vf env) = [] /\ forall m, fst (verify_he vf env) <> Acc m.
Proof. exact verify_he_without_alg. Qed.
Print Assumptions C12_verify_he_without_alg.
