(* C16 — ECDSA signatures are fixed-width r||s and nothing else verifies.
   Statements only; proofs live in theories/EcdsaProofs.v. *)
From Coq Require Import ZArith List Bool.
From GoCose Require Import Bytes Res Ecdsa EcdsaProofs.
Import ListNotations.
Open Scope Z_scope.

(* every (r,s) in range — in particular all of [1,N-1]^2, N < 2^(8n) — is emitted
   as exactly 2n bytes, r then s, big-endian, zero-padded, and decodes back *)
Theorem C16_produced_form : forall n r s,
  0 <= r < 256 ^ Z.of_nat n -> 0 <= s < 256 ^ Z.of_nat n ->
  encode_sig n r s = Acc (be_enc n r ++ be_enc n s) /\
  length (be_enc n r ++ be_enc n s) = (2 * n)%nat /\
  bytes_ok (be_enc n r ++ be_enc n s) = true /\
  decode_sig n (be_enc n r ++ be_enc n s) = Some (r, s).
Proof. exact encode_sig_spec. Qed.
Print Assumptions C16_produced_form.

(* anything the encoder returns has that form (both signing paths call it) *)
Theorem C16_only_fixed_width : forall n r s b,
  encode_sig n r s = Acc b ->
  0 <= r < 256 ^ Z.of_nat n /\ 0 <= s < 256 ^ Z.of_nat n /\
  b = be_enc n r ++ be_enc n s /\ length b = (2 * n)%nat.
Proof. exact encode_sig_acc_inv. Qed.
Print Assumptions C16_only_fixed_width.

Theorem C16_out_of_range_refused : forall n r s,
  (r < 0 \/ 256 ^ Z.of_nat n <= r \/ s < 0 \/ 256 ^ Z.of_nat n <= s) ->
  encode_sig n r s = Rej EOther.
Proof. exact encode_sig_rejects. Qed.
Print Assumptions C16_out_of_range_refused.

(* the verifier accepts only exactly-2n-byte strings whose halves the primitive accepts *)
Theorem C16_verify_exact_form : forall n ok sig,
  verify_digest n ok sig = Acc tt <->
  length sig = (2 * n)%nat /\ ok (os2ip (firstn n sig)) (os2ip (skipn n sig)) = true.
Proof. exact verify_digest_acc. Qed.
Print Assumptions C16_verify_exact_form.

Theorem C16_other_lengths_rejected : forall n ok sig,
  length sig <> (2 * n)%nat -> verify_digest n ok sig = Rej EVerification.
Proof. exact verify_wrong_length. Qed.
Print Assumptions C16_other_lengths_rejected.

Theorem C16_rejection_is_verification_error : forall n ok sig e,
  verify_digest n ok sig = Rej e -> e = EVerification.
Proof. exact verify_digest_rej. Qed.
Print Assumptions C16_rejection_is_verification_error.

(* no two byte strings denote the same (r,s): DER, stripped or padded halves
   are different strings, hence different lengths or different values *)
Theorem C16_unique_representation : forall n a b p,
  bytes_ok a = true -> bytes_ok b = true ->
  decode_sig n a = Some p -> decode_sig n b = Some p -> a = b.
Proof. exact decode_sig_inj. Qed.
Print Assumptions C16_unique_representation.

Theorem C16_sign_then_verify : forall n r s ok b,
  sign_digest n (Some (r, s)) = Acc b -> ok r s = true -> verify_digest n ok b = Acc tt.
Proof. exact sign_then_verify. Qed.
Print Assumptions C16_sign_then_verify.
