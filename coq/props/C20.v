(* C20 — A failing signer or entropy source never yields a usable or half-signed message.
   Statements only (copied from coq/theories by bin/mkprops); each proof is `exact <lemma>`. *)
From Coq Require Import Ascii String ZArith List Bool Permutation.
From GoCose Require Import Bytes Cbor Res GoVal Obs Ecdsa Fx Headers Enc Dec Msg HashEnv Key SigVer Run FlowProofs.
From GoCose.Gen Require Import Generated.
Import ListNotations.
Open Scope Z_scope.

Theorem C20_sign1_failure_stores_nothing :
  forall m ext sg,
  out_res (sign1_sign m ext sg) <> Acc tt ->
  s1_sig (out_post (sign1_sign m ext sg)) = s1_sig m.
Proof. exact sign1_failure_stores_nothing. Qed.
Print Assumptions C20_sign1_failure_stores_nothing.

Theorem C20_sign1_signer_error_propagates :
  forall m ext sg t,
  out_calls (sign1_sign m ext sg) = [t] -> (forall s, sg_run sg t <> SOk s) ->
  out_res (sign1_sign m ext sg) = Rej ESigner.
Proof. exact sign1_signer_error_propagates. Qed.
Print Assumptions C20_sign1_signer_error_propagates.

Theorem C20_sign1_unsigned_not_encodable :
  forall m,
  glen (s1_sig m) = 0 -> marshal_sign1 m = Rej EEmptySig /\ marshal_sign1_untagged m = Rej EEmptySig.
Proof. exact sign1_unsigned_not_encodable. Qed.
Print Assumptions C20_sign1_unsigned_not_encodable.

Theorem C20_sign1_encoded_has_signature :
  forall m b (tagged : bool),
  (if tagged then marshal_sign1 m else marshal_sign1_untagged m) = Acc b -> glen (s1_sig m) <> 0.
Proof. exact sign1_encoded_has_signature. Qed.
Print Assumptions C20_sign1_encoded_has_signature.

Theorem C20_helper_sign1_bytes :
  forall tagged h payload ext sg b,
  fst (fst (helper_sign1 tagged h payload ext sg)) = Acc b ->
  out_res (sign1_sign (mkS1 h payload None) ext sg) = Acc tt /\
  glen (s1_sig (out_post (sign1_sign (mkS1 h payload None) ext sg))) <> 0.
Proof. exact helper_sign1_bytes. Qed.
Print Assumptions C20_helper_sign1_bytes.

Theorem C20_signature_sign_cases :
  forall s sg bp payload ext,
  let o := signature_sign s sg bp payload ext in
  (out_res o = Acc tt /\ exists h' t sig,
      payload <> None /\ glen (sg_sig s) = 0 /\ body_protected_ok bp = true /\
      ensure_signing_alg (sg_h s) (sg_alg sg) ext = Acc h' /\
      tbs_signature h' bp payload ext = Acc t /\ sg_run sg t = SOk sig /\
      out_post o = mkSig h' sig /\ out_calls o = [t]) \/
  (out_res o <> Acc tt /\ sg_sig (out_post o) = sg_sig s).
Proof. exact signature_sign_cases. Qed.
Print Assumptions C20_signature_sign_cases.

Theorem C20_csig_sign_cases :
  forall s sg target ext,
  let o := csig_sign s sg target ext in
  (out_res o = Acc tt /\ exists h' t sig,
      glen (sg_sig s) = 0 /\ ensure_signing_alg (sg_h s) (sg_alg sg) ext = Acc h' /\
      csig_tbs (mkSig h' (sg_sig s)) target ext = Acc t /\ sg_run sg t = SOk sig /\
      out_post o = mkSig h' sig /\ out_calls o = [t]) \/
  (out_res o <> Acc tt /\ sg_sig (out_post o) = sg_sig s).
Proof. exact csig_sign_cases. Qed.
Print Assumptions C20_csig_sign_cases.

Theorem C20_sign_loop_failure :
  forall bp payload ext,
  forall pre sgpre a sg post sgpost,
  length pre = length sgpre ->
  (forall i s g, nth_error pre i = Some s -> nth_error sgpre i = Some g ->
                 exists b, s = Some b /\ out_res (signature_sign b g bp payload ext) = Acc tt) ->
  out_res (signature_sign a sg bp payload ext) <> Acc tt ->
  exists pre' calls,
    sign_loop (pre ++ Some a :: post) (sgpre ++ sg :: sgpost) bp payload ext =
      (out_res (signature_sign a sg bp payload ext),
       pre' ++ Some (out_post (signature_sign a sg bp payload ext)) :: post, calls) /\
    length pre' = length pre /\
    sg_sig (out_post (signature_sign a sg bp payload ext)) = sg_sig a.
Proof. exact sign_loop_failure. Qed.
Print Assumptions C20_sign_loop_failure.

Theorem C20_signmsg_empty_slot_not_encodable :
  forall m,
  (sm_sigs m = [] \/ In None (sm_sigs m) \/ exists s, In (Some s) (sm_sigs m) /\ glen (sg_sig s) = 0) ->
  forall b, marshal_signmsg m <> Acc b.
Proof. exact signmsg_empty_slot_not_encodable. Qed.
Print Assumptions C20_signmsg_empty_slot_not_encodable.
