(* C09 — Re-encoding a decoded message preserves header bytes and signature validity.
   Statements only (copied from coq/theories by bin/mkprops); each proof is `exact <lemma>`. *)
From Coq Require Import Ascii String ZArith List Bool Permutation.
From GoCose Require Import Bytes Cbor CborProofs Res GoVal Obs Ecdsa Fx Headers Enc Dec Msg HashEnv Key SigVer Run TbsProofs FlowProofs DecProofs KeyProofs HdrProofs EncProofs EncCanon NoPanic MoreProofs EncDec Bignum FixedPoint HdrRoundTrip WireLeg HeWire ClearedForm CastAlg.
From GoCose.Gen Require Import Generated.
Import ListNotations.
Open Scope Z_scope.

Theorem C09_sign1_reencode :
  forall data m,
  unmarshal_sign1 data = Acc m ->
  exists p u pl sg,
    data = 210 :: 132 :: ser p ++ ser u ++ ser pl ++ ser sg /\
    marshal_sign1 m = Acc (210 :: 132 :: ser p ++ ser u ++ renorm_field pl ++ renorm_field sg).
Proof. exact sign1_reencode. Qed.
Print Assumptions C09_sign1_reencode.

Theorem C09_sign1_reencode_canonical :
  forall data m,
  unmarshal_sign1 data = Acc m ->
  exists p u pl sg,
    data = 210 :: 132 :: ser p ++ ser u ++ ser pl ++ ser sg /\
    (renorm_field pl = ser pl -> renorm_field sg = ser sg -> marshal_sign1 m = Acc data).
Proof. exact sign1_reencode_canonical. Qed.
Print Assumptions C09_sign1_reencode_canonical.

(* COSE_Signature and COSE_Countersignature *)
Theorem C09_signature_reencode :
  forall data s,
  unmarshal_signature data = Acc s ->
  exists p u sg,
    data = 131 :: ser p ++ ser u ++ ser sg /\
    marshal_signature s = Acc (131 :: ser p ++ ser u ++ renorm_field sg).
Proof. exact signature_reencode. Qed.
Print Assumptions C09_signature_reencode.

Theorem C09_headers_marshal_decoded :
  forall p u pm um,
  ensure_iv (mkH (Some (ser p)) (Some pm) (Some (ser u)) (Some um)) = true ->
  headers_marshal (mkH (Some (ser p)) (Some pm) (Some (ser u)) (Some um)) = Acc (ser p, ser u).
Proof. exact headers_marshal_decoded. Qed.
Print Assumptions C09_headers_marshal_decoded.

Theorem C09_renorm_field_shortest :
  forall b,
  short b -> parse_full (enc_bstr b) = Some (tbstr b) /\ renorm_field (tbstr b) = enc_bstr b.
Proof. exact renorm_field_shortest. Qed.
Print Assumptions C09_renorm_field_shortest.

(* COSE_Sign with any number of signers: every bucket of the body and of each signer reproduced byte for byte *)
Theorem C09_signmsg_reencode :
  forall data m,
  unmarshal_signmsg data = Acc m ->
  exists p u pl ws items,
    data = 216 :: 98 :: 132 :: ser p ++ ser u ++ ser pl ++ ser (WArr ws items) /\
    marshal_signmsg m =
      Acc (216 :: 98 :: 132 :: ser p ++ ser u ++ renorm_field pl ++
           enc_head 4 (len items) ++ concat (map renorm_sig_item items)).
Proof. exact signmsg_reencode. Qed.
Print Assumptions C09_signmsg_reencode.

(* cleared raw bytes: two values that are the same value (integer kinds aside, nil []byte = nil, map entries in any order) encode to the same bytes, at any nesting depth *)
Theorem C09_rel_enc :
  forall kb,
  forall g d b, rel g d -> enc kb g = Acc b -> enc kb d = Acc b.
Proof. exact rel_enc. Qed.
Print Assumptions C09_rel_enc.

(* hence the encoder output is a canonical form: decoding it and encoding the decoded value gives the same bytes again *)
Theorem C09_canonical_fixed_point :
  forall kb g b,
  simple g = true -> enc kb g = Acc b ->
  exists w d, parse_full b = Some w /\ dec true w = Acc d /\ enc kb d = Acc b.
Proof. exact canonical_fixed_point. Qed.
Print Assumptions C09_canonical_fixed_point.

Theorem C09_fixed_point_example :
  let g := GMap [GInt KInt 256; GStr [97]; GInt KInt8 (-1); GArr [GBytes []; GBool true; GNilBytes]; GStr []; GMap [GInt KUint8 1; GNil]] in
  match enc true g with
  | Acc b => match parse_full b with
             | Some w => match dec true w with Acc d => enc true d = Acc b /\ d <> g | _ => False end
             | None => False
             end
  | _ => False
  end.
Proof. exact fixed_point_example. Qed.
Print Assumptions C09_fixed_point_example.

(* floats: the decoder's normal form of a float64 (NaNs collapsed) encodes to the bytes of the float itself *)
Theorem C09_enc_float_norm :
  forall b,
  enc_float (norm_f64 b) = enc_float b.
Proof. exact enc_float_norm. Qed.
Print Assumptions C09_enc_float_norm.

(* bucket level: what UnprotectedHeader.MarshalCBOR emits is accepted by UnmarshalCBOR, and MarshalCBOR of the decoded bucket returns the same bytes *)
Theorem C09_unprotected_cleared_fixed_point :
  forall l ub,
  l <> [] -> simple (GMap l) = true -> (forall k v, entry_in k v l -> okval v) ->
  enc_unprotected (Some l) = Acc ub -> within_limits ub ->
  exists dl, unmarshal_unprotected ub = Acc dl /\ enc_unprotected (Some dl) = Acc ub.
Proof. exact unprotected_cleared_fixed_point. Qed.
Print Assumptions C09_unprotected_cleared_fixed_point.

(* the same for the protected bucket exactly as ProtectedHeader.UnmarshalCBOR returns it (alg re-typed to Algorithm): still accepted by the validator, same bytes *)
Theorem C09_protected_cleared_fixed_point_decoded :
  forall l pb,
  l <> [] -> simple (GMap l) = true -> (forall k v, entry_in k v l -> okval v) ->
  enc_protected (Some l) = Acc pb ->
  (forall m, enc_hmap true l = Acc m -> within_limits m) ->
  exists dp, unmarshal_protected pb = Acc dp /\ validate_params dp true = true /\ enc_protected (Some dp) = Acc pb.
Proof. exact protected_cleared_fixed_point_decoded. Qed.
Print Assumptions C09_protected_cleared_fixed_point_decoded.

Theorem C09_validate_cast_alg :
  forall dl,
  Nat.even (length dl) = true -> (forall k v, entry_in k v dl -> normalize_label k = Some k /\ is_label k) ->
  validate_params dl true = true -> validate_params (cast_alg dl) true = true.
Proof. exact validate_cast_alg. Qed.
Print Assumptions C09_validate_cast_alg.

Theorem C09_enc_cast_alg :
  forall dl,
  Nat.even (length dl) = true -> (forall k v, entry_in k v dl -> normalize_label k = Some k /\ is_label k) ->
  validate_params dl true = true -> forall kb, enc_hmap kb (cast_alg dl) = enc_hmap kb dl.
Proof. exact enc_cast_alg. Qed.
Print Assumptions C09_enc_cast_alg.

(* big integers (header values outside int64): in the protected bucket always a tag 2 / 3 bignum, which decodes to the same integer *)
Theorem C09_big_protected_roundtrip :
  forall n,
  len (zbytes (if 0 <=? n then n else -1 - n)) < two64 ->
  enc true (GBig n) = Acc (ser (big_wire_tag n)) /\ wf (big_wire_tag n) = true /\ canonical (big_wire_tag n) = true /\
  dec true (big_wire_tag n) = Acc (GBig n).
Proof. exact big_protected_roundtrip. Qed.
Print Assumptions C09_big_protected_roundtrip.

(* elsewhere a plain 64-bit integer, tag-free *)
Theorem C09_big_unprotected_encoding :
  forall n,
  - two64 <= n < two64 ->
  enc false (GBig n) = Acc (ser (big_wire_int n)) /\ good (big_wire_int n) /\ notags (big_wire_int n) = true.
Proof. exact big_unprotected_encoding. Qed.
Print Assumptions C09_big_unprotected_encoding.

(* which decodes to the same big integer below -2^63 (and is refused above MaxInt64: no tag-free input produces such a value) *)
Theorem C09_big_unprotected_decoding :
  forall n,
  - two64 <= n < two64 ->
  (n < - 2 ^ 63 -> dec true (big_wire_int n) = Acc (GBig n)) /\
  (- 2 ^ 63 <= n <= maxint64 -> dec true (big_wire_int n) = Acc (GInt KInt64 n)) /\
  (maxint64 < n -> dec true (big_wire_int n) = Rej EOther).
Proof. exact big_unprotected_decoding. Qed.
Print Assumptions C09_big_unprotected_decoding.

Theorem C09_big_from_tagfree :
  forall w n,
  wf w = true -> notags w = true -> dec true w = Acc (GBig n) -> - two64 <= n < - 2 ^ 63.
Proof. exact big_from_tagfree. Qed.
Print Assumptions C09_big_from_tagfree.

(* so the cleared re-encoding of every big integer the decoders can have produced decodes to itself, in both buckets *)
Theorem C09_big_reencode_fixed_point :
  (forall n, len (zbytes (if 0 <=? n then n else -1 - n)) < two64 ->
     exists w, enc true (GBig n) = Acc (ser w) /\ wf w = true /\ dec true w = Acc (GBig n)) /\
  (forall w n, wf w = true -> notags w = true -> dec true w = Acc (GBig n) ->
     exists w', enc false (GBig n) = Acc (ser w') /\ wf w' = true /\ notags w' = true /\ dec true w' = Acc (GBig n)).
Proof. exact big_reencode_fixed_point. Qed.
Print Assumptions C09_big_reencode_fixed_point.

Theorem C09_big_examples :
  enc true (GBig (2 ^ 63)) = Acc [194; 72; 128; 0; 0; 0; 0; 0; 0; 0] /\
  enc false (GBig (- 2 ^ 63 - 1)) = Acc [59; 128; 0; 0; 0; 0; 0; 0; 0] /\
  dec true (WInt true W8 (2 ^ 63)) = Acc (GBig (- 2 ^ 63 - 1)) /\
  enc true (GBig (- 2 ^ 63 - 1)) = Acc [195; 72; 128; 0; 0; 0; 0; 0; 0; 0].
Proof. exact big_examples. Qed.
Print Assumptions C09_big_examples.
