(* C09 — Re-encoding a decoded message preserves header bytes and signature validity.
   Statements only (copied from coq/theories by bin/mkprops); each proof is `exact <lemma>`. *)
From Coq Require Import Ascii String ZArith List Bool Permutation.
From GoCose Require Import Bytes Cbor CborProofs Res GoVal Obs Ecdsa EcdsaProofs Fx Headers Enc Dec Msg HashEnv Key SigVer Run TbsProofs FlowProofs DecProofs KeyProofs HdrProofs EncProofs EncCanon NoPanic Effects MoreProofs KeyCbor EncDec HdrRoundTrip WireLeg RulesTie HeWire.
From GoCose.Gen Require Import Generated.
Import ListNotations.
Open Scope Z_scope.

Theorem C09_sign1_reencode :
  forall data m,
  unmarshal_sign1 data = Acc m ->
  exists p u pl sg,
    data = 210 :: 132 :: ser p ++ ser u ++ ser pl ++ ser sg /\
    marshal_sign1 m = Acc (210 :: 132 :: ser p ++ ser u ++ renorm_field pl ++ renorm_field sg).
Proof. exact sign1_reencode. Qed.
Print Assumptions C09_sign1_reencode.

Theorem C09_sign1_reencode_canonical :
  forall data m,
  unmarshal_sign1 data = Acc m ->
  exists p u pl sg,
    data = 210 :: 132 :: ser p ++ ser u ++ ser pl ++ ser sg /\
    (renorm_field pl = ser pl -> renorm_field sg = ser sg -> marshal_sign1 m = Acc data).
Proof. exact sign1_reencode_canonical. Qed.
Print Assumptions C09_sign1_reencode_canonical.

(* COSE_Signature and COSE_Countersignature *)
Theorem C09_signature_reencode :
  forall data s,
  unmarshal_signature data = Acc s ->
  exists p u sg,
    data = 131 :: ser p ++ ser u ++ ser sg /\
    marshal_signature s = Acc (131 :: ser p ++ ser u ++ renorm_field sg).
Proof. exact signature_reencode. Qed.
Print Assumptions C09_signature_reencode.

Theorem C09_headers_marshal_decoded :
  forall p u pm um,
  ensure_iv (mkH (Some (ser p)) (Some pm) (Some (ser u)) (Some um)) = true ->
  headers_marshal (mkH (Some (ser p)) (Some pm) (Some (ser u)) (Some um)) = Acc (ser p, ser u).
Proof. exact headers_marshal_decoded. Qed.
Print Assumptions C09_headers_marshal_decoded.

Theorem C09_renorm_field_shortest :
  forall b,
  short b -> parse_full (enc_bstr b) = Some (tbstr b) /\ renorm_field (tbstr b) = enc_bstr b.
Proof. exact renorm_field_shortest. Qed.
Print Assumptions C09_renorm_field_shortest.

(* COSE_Sign with any number of signers: every bucket of the body and of each signer reproduced byte for byte *)
Theorem C09_signmsg_reencode :
  forall data m,
  unmarshal_signmsg data = Acc m ->
  exists p u pl ws items,
    data = 216 :: 98 :: 132 :: ser p ++ ser u ++ ser pl ++ ser (WArr ws items) /\
    marshal_signmsg m =
      Acc (216 :: 98 :: 132 :: ser p ++ ser u ++ renorm_field pl ++
           enc_head 4 (len items) ++ concat (map renorm_sig_item items)).
Proof. exact signmsg_reencode. Qed.
Print Assumptions C09_signmsg_reencode.
