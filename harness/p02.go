package main

import (
	"bytes"
	"fmt"
	"github.com/fxamacker/cbor/v2"
	"io"
	"math/big"

	cose "github.com/veraison/go-cose"
)

func init() {
	runners["C02"] = runC02
}

// headerAlg reads the protected alg the way a caller would (nil error only).
func headerAlg(h cose.ProtectedHeader) (cose.Algorithm, bool) {
	a, err := h.Algorithm()
	return a, err == nil
}

func cloneHeaders(h cose.Headers) cose.Headers {
	c := h
	if h.Protected != nil {
		c.Protected = cose.ProtectedHeader{}
		for k, v := range h.Protected {
			c.Protected[k] = v
		}
	}
	if h.Unprotected != nil {
		c.Unprotected = cose.UnprotectedHeader{}
		for k, v := range h.Unprotected {
			c.Unprotected[k] = v
		}
	}
	return c
}

func runC02(c *Collector, r *Rng, thorough bool) {
	c.Rule = "recording Signer/Verifier: the content handed over is compared byte-for-byte with the harness's own RFC 9052 Sig_structure encoder and with the Coq model, for messages built in memory (typed and raw buckets) and decoded from wire trees with random head widths/map orders; also nil-vs-empty external, unprotected-bucket edits and tagged-vs-untagged must not change a byte; non-trivial = the key was invoked; distinct by op term"
	n := 120
	if thorough {
		n = 6000
	}
	cfg := BucketCfg{Spell: false, Max: 5, Csig: 1}
	for i := 0; i < n; i++ {
		alg := pick(r, goAlgs)
		// ---- built in memory, Sign ----
		m := &cose.Sign1Message{Headers: genGoHeaders(r, cfg, alg, r.Chance(2, 3), r.Chance(1, 4)), Payload: genGoPayload(r)}
		ext := genGoExternal(r)
		sg := &spySigner{alg: alg, kind: SOk, sig: genSigBytes(r)}
		pre := *m
		pre.Headers = cloneHeaders(m.Headers)
		op, obs, err, p := execSign1(m, ext, sg)
		if p {
			c.Fail("C02/panic", "Sign panicked", map[string]any{"op": op})
			continue
		}
		addCase(c, "sign1/built", op, obs, len(sg.calls) > 0)
		if err == nil && len(sg.calls) == 1 {
			want, rerr := refSig1(&m.Headers, ext, m.Payload)
			if rerr != nil || !bytes.Equal(want, sg.calls[0]) {
				c.Fail("C02/sign1-structure", fmt.Sprintf("signer got %x, RFC Sig_structure is %x", sg.calls[0], want), map[string]any{"op": op})
			}
			// nil and empty external data are equivalent; unprotected headers and the tag contribute nothing
			for _, variant := range []string{"ext-swap", "unprotected-edit", "untagged"} {
				m2 := &cose.Sign1Message{Headers: cloneHeaders(pre.Headers), Payload: pre.Payload}
				ext2 := ext
				switch variant {
				case "ext-swap":
					if len(ext) != 0 {
						continue
					}
					if ext == nil {
						ext2 = []byte{}
					} else {
						ext2 = nil
					}
				case "unprotected-edit":
					if len(m2.Headers.RawUnprotected) > 0 {
						continue
					}
					if m2.Headers.Unprotected == nil {
						m2.Headers.Unprotected = cose.UnprotectedHeader{}
					}
					m2.Headers.Unprotected[int64(999)] = "added later"
					delete(m2.Headers.Unprotected, int64(4))
				}
				sg2 := &spySigner{alg: alg, kind: SOk, sig: sg.sig}
				var err2 error
				if variant == "untagged" {
					err2 = (*cose.UntaggedSign1Message)(m2).Sign(nil, ext2, sg2)
				} else {
					err2 = m2.Sign(nil, ext2, sg2)
				}
				c.Eval("sign1/invariance/"+variant, op, true)
				if err2 != nil || len(sg2.calls) != 1 || !bytes.Equal(sg2.calls[0], sg.calls[0]) {
					c.Fail("C02/invariance/"+variant, "to-be-signed bytes changed under "+variant, map[string]any{"op": op})
				}
			}
		}

		// ---- decoded from a wire tree, Verify ----
		kind := pick(r, []string{"DSign1", "DSign1U"})
		t := genTreeOfKind(r, kind, GenCfg{MaxEntries: 5, ValDepth: 2, Csig: 1, Tags: true, Floats: true})
		t.RandWidths(r, 1, 2, isEnvelopeHead(kind, t))
		t.ShuffleMaps(r)
		data := t.Ser()
		d := decodeKind(kind, data)
		if d.err == nil && !d.paniced && d.s1 != nil && d.s1.Payload != nil {
			va, ok := headerAlg(d.s1.Headers.Protected)
			ext := genGoExternal(r)
			if !ok {
				va = alg
				if len(ext) == 0 {
					ext = []byte("x")
				}
			}
			vf := &spyVerifier{alg: va}
			op, obs, verr, p := execVerify1(d.s1, ext, vf)
			if p {
				c.Fail("C02/panic", "Verify panicked", map[string]any{"data": hx(data)})
				continue
			}
			addCase(c, "verify1/decoded", op, obs, len(vf.calls) > 0)
			if verr == nil && len(vf.calls) == 1 {
				// the protected field is the wire bstr, head normalised, content untouched
				body := t
				if kind == "DSign1" {
					body = t.Kids[0]
				}
				want := refArray(refTstr("Signature1"), refBstr(body.Kids[0].Str), refBstr(orEmpty(ext)), refBstr(body.Kids[2].Str))
				if !bytes.Equal(want, vf.calls[0].content) {
					c.Fail("C02/verify1-structure", fmt.Sprintf("verifier got %x, RFC Sig_structure over the wire bytes is %x", vf.calls[0].content, want), map[string]any{"data": hx(data), "ext": hx(ext)})
				}
			}
		}

		// ---- COSE_Sign: every signer position ----
		if i%2 == 0 {
			nsig := 1 + r.Intn(3)
			sm := &cose.SignMessage{Headers: genGoHeaders(r, cfg, 0, false, r.Chance(1, 5)), Payload: genGoPayload(r)}
			var sgs []*spySigner
			for j := 0; j < nsig; j++ {
				a := pick(r, goAlgs)
				s := &cose.Signature{Headers: genGoHeaders(r, cfg, a, r.Chance(2, 3), r.Chance(1, 5))}
				sm.Signatures = append(sm.Signatures, s)
				sgs = append(sgs, &spySigner{alg: a, kind: SOk, sig: genSigBytes(r)})
			}
			ext := genGoExternal(r)
			op, obs, err, p := execSignMsg(sm, ext, sgs)
			if p {
				c.Fail("C02/panic", "SignMessage.Sign panicked", map[string]any{"op": op})
				continue
			}
			called := 0
			for _, s := range sgs {
				called += len(s.calls)
			}
			addCase(c, "signmsg/built", op, obs, called > 0)
			if err == nil {
				for j, s := range sgs {
					want, rerr := refSigN(&sm.Headers, &sm.Signatures[j].Headers, ext, sm.Payload)
					if len(s.calls) != 1 || rerr != nil || !bytes.Equal(want, s.calls[0]) {
						c.Fail("C02/signature-structure", fmt.Sprintf("signer %d got %x, RFC Sig_structure is %x", j, s.calls, want), map[string]any{"op": op})
					}
				}
			}
		}
		// decoded COSE_Sign, Verify
		if i%3 == 0 {
			t := genSignMsgTree(r, GenCfg{MaxEntries: 4, ValDepth: 1, Csig: 0, Tags: true})
			t.RandWidths(r, 1, 2, isEnvelopeHead("DSignMsg", t))
			data := t.Ser()
			d := decodeKind("DSignMsg", data)
			if d.err == nil && !d.paniced && d.sm.Payload != nil {
				ext := []byte("e")
				var vfs []*spyVerifier
				for _, s := range d.sm.Signatures {
					a, ok := headerAlg(s.Headers.Protected)
					if !ok {
						a = -7
					}
					vfs = append(vfs, &spyVerifier{alg: a})
				}
				op, obs, verr, p := execVerifyMsg(d.sm, ext, vfs)
				if p {
					c.Fail("C02/panic", "SignMessage.Verify panicked", map[string]any{"data": hx(data)})
					continue
				}
				addCase(c, "verifymsg/decoded", op, obs, true)
				if verr == nil {
					body := t.Kids[0]
					for j, v := range vfs {
						sj := body.Kids[3].Kids[j]
						want := refArray(refTstr("Signature"), refBstr(body.Kids[0].Str), refBstr(sj.Kids[0].Str), refBstr(ext), refBstr(body.Kids[2].Str))
						if len(v.calls) != 1 || !bytes.Equal(want, v.calls[0].content) {
							c.Fail("C02/signature-structure-decoded", fmt.Sprintf("verifier %d got %x, want %x", j, v.calls, want), map[string]any{"data": hx(data)})
						}
						// the per-signer entry points called directly (threshold policies do), with the body's
						// protected bytes exactly as they were received (any head width): same structure
						bodyRaw := body.Kids[0].Ser()
						v2 := &spyVerifier{alg: v.alg}
						e2 := d.sm.Signatures[j].Verify(v2, bodyRaw, d.sm.Payload, ext)
						c.Eval("signature-verify/direct", hx(data)+fmt.Sprint(j), true)
						if e2 != nil || len(v2.calls) != 1 || !bytes.Equal(want, v2.calls[0].content) {
							c.Fail("C02/signature-structure-direct", fmt.Sprintf("Signature.Verify called directly with the received body protected bytes %x: err=%v, verifier got %x, want %x", bodyRaw, e2, v2.calls, want), map[string]any{"data": hx(data)})
						}
						s3 := &cose.Signature{Headers: cose.Headers{RawProtected: d.sm.Signatures[j].Headers.RawProtected, Protected: d.sm.Signatures[j].Headers.Protected}}
						g3 := &spySigner{alg: v.alg, kind: SOk, sig: []byte{1}}
						e3 := s3.Sign(r, g3, bodyRaw, d.sm.Payload, ext)
						if e3 != nil || len(g3.calls) != 1 || !bytes.Equal(want, g3.calls[0]) {
							c.Fail("C02/signature-structure-direct", fmt.Sprintf("Signature.Sign called directly with the received body protected bytes %x: err=%v, signer got %x, want %x", bodyRaw, e3, g3.calls, want), map[string]any{"data": hx(data)})
						}
					}
				}
			}
		}
	}
	// protected bstr heads of every width, content lengths at the fast-path boundaries
	for _, ln := range []int{0, 1, 23, 24, 25, 255, 256, 257, 65535, 65536, 65537} {
		for _, wd := range []int{0, 1, 2, 4, 8} {
			if wd < minWidth(uint64(ln)) {
				continue
			}
			// a protected map {1: -7, "pad": h'..'} of exactly ln bytes is not always possible: use RawProtected directly
			content := make([]byte, ln)
			if ln > 0 {
				// make the content a valid map when it fits: a1 01 26 ... else opaque bytes (Sign accepts any raw bstr)
				copy(content, []byte{0xa1, 0x01, 0x26})
			}
			raw := append(head(2, wd, uint64(ln)), content...)
			for _, payloadLen := range []int{0, 24} {
				m := &cose.Sign1Message{Headers: cose.Headers{RawProtected: raw}, Payload: make([]byte, payloadLen)}
				sg := &spySigner{alg: -7, kind: SOk, sig: []byte{1}}
				ext := []byte("x")
				op, obs, err, p := execSign1(m, ext, sg)
				if p {
					c.Fail("C02/panic", "Sign panicked", map[string]any{"op": op})
					continue
				}
				addCase(c, fmt.Sprintf("sign1/raw-protected-width-%d", wd), op, obs, len(sg.calls) > 0)
				if err == nil {
					want := refArray(refTstr("Signature1"), refBstr(content), refBstr(ext), refBstr(m.Payload))
					if len(sg.calls) != 1 || !bytes.Equal(want, sg.calls[0]) {
						c.Fail("C02/bstr-head-normalisation", fmt.Sprintf("protected bstr of %d bytes with a %d-byte length field is not normalised to shortest form", ln, wd), map[string]any{"op": trunc(op, 300)})
					}
				}
			}
		}
	}
	// ---- every signing entry point x every initial state of the header buckets (nil maps, empty maps, alg present or
	// to be inserted): the protected bytes handed to the signer are the protected bytes of the serialised message, and
	// after the wire round trip the verifier is handed the same structure ----
	for _, entry := range []string{"Sign1Message.Sign", "UntaggedSign1Message.Sign", "Sign1", "Sign1Untagged"} {
		for hi, mk := range []func() cose.Headers{
			func() cose.Headers { return cose.Headers{} },
			func() cose.Headers { return cose.Headers{Protected: cose.ProtectedHeader{}} },
			func() cose.Headers { return cose.Headers{Unprotected: cose.UnprotectedHeader{}} },
			func() cose.Headers {
				return cose.Headers{Protected: cose.ProtectedHeader{}, Unprotected: cose.UnprotectedHeader{}}
			},
			func() cose.Headers {
				return cose.Headers{Protected: cose.ProtectedHeader{cose.HeaderLabelAlgorithm: cose.AlgorithmES256}}
			},
			func() cose.Headers { return cose.Headers{Protected: cose.ProtectedHeader{int64(4): []byte("kid")}} },
			func() cose.Headers { return cose.Headers{Unprotected: cose.UnprotectedHeader{int64(4): []byte("kid")}} },
			// the protected bucket supplied as bytes: alone, next to a map that mirrors them, next to a map that does not
			func() cose.Headers { return cose.Headers{RawProtected: []byte{0x43, 0xa1, 0x01, 0x26}} },
			func() cose.Headers {
				return cose.Headers{RawProtected: []byte{0x43, 0xa1, 0x01, 0x26}, Protected: cose.ProtectedHeader{cose.HeaderLabelAlgorithm: cose.AlgorithmES256}}
			},
			func() cose.Headers {
				return cose.Headers{RawProtected: []byte{0x47, 0xa2, 0x01, 0x26, 0x04, 0x42, 0x6b, 0x31}, Protected: cose.ProtectedHeader{cose.HeaderLabelAlgorithm: cose.AlgorithmES256}}
			},
			func() cose.Headers {
				return cose.Headers{RawProtected: []byte{0x58, 0x03, 0xa1, 0x01, 0x26}, Unprotected: cose.UnprotectedHeader{int64(4): []byte("kid")}, RawUnprotected: []byte{0xa0}}
			},
			// the unprotected bucket says something about label 1: it contributes nothing
			func() cose.Headers {
				return cose.Headers{Unprotected: cose.UnprotectedHeader{int64(1): cose.AlgorithmES256}}
			},
			func() cose.Headers {
				return cose.Headers{Unprotected: cose.UnprotectedHeader{int8(1): int64(-7), int64(4): []byte("kid")}}
			},
			func() cose.Headers {
				return cose.Headers{Protected: cose.ProtectedHeader{}, Unprotected: cose.UnprotectedHeader{int64(1): int64(-35)}}
			},
		} {
			for _, ext := range [][]byte{nil, {}, []byte("ext")} {
				h := mk()
				sg := &spySigner{alg: cose.AlgorithmES256, kind: SOk, sig: []byte{1, 2, 3}}
				payload := []byte("payload")
				var out []byte
				var err error
				untagged := entry == "UntaggedSign1Message.Sign" || entry == "Sign1Untagged"
				switch entry {
				case "Sign1Message.Sign":
					m := &cose.Sign1Message{Headers: h, Payload: payload}
					if err = m.Sign(nil, ext, sg); err == nil {
						out, err = m.MarshalCBOR()
					}
				case "UntaggedSign1Message.Sign":
					m := &cose.UntaggedSign1Message{Headers: h, Payload: payload}
					if err = m.Sign(nil, ext, sg); err == nil {
						out, err = m.MarshalCBOR()
					}
				case "Sign1":
					out, err = cose.Sign1(nil, sg, h, payload, ext)
				case "Sign1Untagged":
					out, err = cose.Sign1Untagged(nil, sg, h, payload, ext)
				}
				c.Eval("entry-points/"+entry, fmt.Sprint(hi, ext == nil, len(ext)), true)
				if err != nil || len(sg.calls) != 1 {
					continue
				}
				rep := map[string]any{"entry": entry, "headers": hi, "ext": hx(ext), "out": hx(out)}
				w, perr := refParseFull(out)
				if perr != nil {
					continue
				}
				body := w
				if !untagged {
					body = w.Kids[0]
				}
				if len(body.Kids) != 4 {
					continue
				}
				// (only the length prefix may differ: the structure carries the shortest form)
				if signed, perr := refParseFull(tbsElement(sg.calls[0], 1)); perr != nil || signed.Maj != 2 || !bytes.Equal(signed.Str, body.Kids[0].Str) {
					c.Fail("C02/sign1-structure", fmt.Sprintf("%s: the signer was handed protected bytes %x, the serialised message carries %x", entry, tbsElement(sg.calls[0], 1), body.Kids[0].Ser()), rep)
					continue
				}
				// the same headers with nothing in the unprotected bucket: the same bytes are signed
				if hb := mk(); len(hb.Unprotected) > 0 && len(hb.RawUnprotected) == 0 {
					hb.Unprotected = nil
					sgb := &spySigner{alg: cose.AlgorithmES256, kind: SOk, sig: []byte{1, 2, 3}}
					mb := &cose.Sign1Message{Headers: hb, Payload: payload}
					if errb := mb.Sign(nil, ext, sgb); (errb == nil) != (err == nil) || (errb == nil && len(sgb.calls) == 1 && !bytes.Equal(sgb.calls[0], sg.calls[0])) {
						c.Fail("C02/invariance/unprotected-edit", fmt.Sprintf("%s: with the unprotected bucket %v the signer is handed %x, with an empty one %x (%v)", entry, mk().Unprotected, sg.calls[0], sgb.calls, errb), rep)
					}
				}
				want := refArray(refTstr("Signature1"), refBstr(body.Kids[0].Str), refBstr(orEmpty(ext)), refBstr(payload))
				if !bytes.Equal(want, sg.calls[0]) {
					c.Fail("C02/sign1-structure", fmt.Sprintf("%s: signer got %x, the structure of the serialised message is %x", entry, sg.calls[0], want), rep)
					continue
				}
				var back cose.Sign1Message
				if untagged {
					err = (*cose.UntaggedSign1Message)(&back).UnmarshalCBOR(out)
				} else {
					err = back.UnmarshalCBOR(out)
				}
				if err != nil {
					continue
				}
				vf := &spyVerifier{alg: cose.AlgorithmES256}
				if untagged {
					err = (*cose.UntaggedSign1Message)(&back).Verify(ext, vf)
				} else {
					err = back.Verify(ext, vf)
				}
				if len(ext) > 0 || headerHasAlg(body.Kids[0].Str) {
					if err != nil || len(vf.calls) != 1 || !bytes.Equal(vf.calls[0].content, sg.calls[0]) {
						c.Fail("C02/verify1-structure", fmt.Sprintf("%s: after the wire round trip the verifier was handed %x (%v), the signer had signed %x", entry, vfirst(vf), err, sg.calls[0]), rep)
					}
				}
			}
		}
	}
	// ---- decoded COSE_Sign and COSE_Sign1 whose protected buckets have length prefixes wider than needed, presented to
	// a verifier that refuses: the verifier is asked once per signature, with the RFC structure and nothing else ----
	rnW := 20
	if thorough {
		rnW = 500
	}
	for i := 0; i < rnW; i++ {
		alg := pick(r, goAlgs)
		bp := wBstr(wMap(-1, wInt(4, -1), wBstr([]byte("body"), -1)).Ser(), -1)
		sp := wBstr(wMap(-1, wInt(1, -1), wInt(int64(alg), -1)).Ser(), -1)
		bp.Width = pick(r, widthsFor(uint64(len(bp.Str))))
		sp.Width = pick(r, widthsFor(uint64(len(sp.Str))))
		if i%5 == 0 {
			bp = wBstr(nil, pick(r, []int{0, 1, 2, 4, 8}))
		}
		pl, ext := r.Bytes(r.Intn(30)), genGoExternal(r)
		data := wTag(98, -1, wArr(-1, bp, wMap(-1), wBstr(pl, -1), wArr(-1, wArr(-1, sp, wMap(-1), wBstr([]byte{9, 9, 9}, -1))))).Ser()
		var sm cose.SignMessage
		if err := sm.UnmarshalCBOR(data); err != nil {
			continue
		}
		want := refArray(refTstr("Signature"), refBstr(bp.Str), refBstr(sp.Str), refBstr(orEmpty(ext)), refBstr(pl))
		for _, verr := range []error{cose.ErrVerification, errScripted, nil} {
			vf := &spyVerifier{alg: alg, err: verr}
			err := sm.Verify(ext, vf)
			c.Eval("verifymsg/wide-prefix-refusing-verifier", fmt.Sprint(i, verr), true)
			rep := map[string]any{"data": hx(data), "ext": hx(ext), "verifier_returns": fmt.Sprint(verr)}
			if (err == nil) != (verr == nil) {
				c.Fail("C02/signature-structure-decoded", fmt.Sprintf("COSE_Sign.Verify returned %v although the verifier returned %v", err, verr), rep)
			}
			if len(vf.calls) != 1 || !bytes.Equal(vf.calls[0].content, want) {
				var got [][]byte
				for _, cl := range vf.calls {
					got = append(got, cl.content)
				}
				c.Fail("C02/signature-structure-decoded", fmt.Sprintf("the verifier was handed %x; the RFC structure (asked once) is %x", got, want), rep)
			}
			v2 := &spyVerifier{alg: alg, err: verr}
			sm.Signatures[0].Verify(v2, bp.Ser(), pl, ext)
			if len(v2.calls) != 1 || !bytes.Equal(v2.calls[0].content, want) {
				c.Fail("C02/signature-structure-direct", fmt.Sprintf("Signature.Verify called directly: the verifier was asked %d times, first with %x; the RFC structure is %x", len(v2.calls), vfirst(v2), want), rep)
			}
		}
		// COSE_Sign1 the same way
		s1 := wTag(18, -1, wArr(-1, sp, wMap(-1), wBstr(pl, -1), wBstr([]byte{9, 9}, -1))).Ser()
		var m1 cose.Sign1Message
		if err := m1.UnmarshalCBOR(s1); err == nil {
			want1 := refArray(refTstr("Signature1"), refBstr(sp.Str), refBstr(orEmpty(ext)), refBstr(pl))
			for _, verr := range []error{cose.ErrVerification, errScripted} {
				vf := &spyVerifier{alg: alg, err: verr}
				m1.Verify(ext, vf)
				if len(vf.calls) != 1 || !bytes.Equal(vf.calls[0].content, want1) {
					c.Fail("C02/verify1-structure", fmt.Sprintf("a refusing verifier was asked %d times, first with %x; the RFC structure is %x", len(vf.calls), vfirst(vf), want1), map[string]any{"data": hx(s1), "ext": hx(ext)})
				}
			}
		}
	}
	// ---- one message value used again after the application wrote into its byte slices in place (payload, a kid held
	// in the protected bucket, the external data buffer): what the key is handed next is the structure of the bytes as
	// they are now ----
	for _, kindName := range []string{"COSE_Sign1", "COSE_Sign1 untagged", "COSE_Sign"} {
		for _, edit := range []string{"payload", "protected kid", "external"} {
			payload := []byte("payload-0")
			kid := []byte("kid-0")
			ext := []byte("ext-0")
			hdrs := func() cose.Headers {
				return cose.Headers{Protected: cose.ProtectedHeader{cose.HeaderLabelAlgorithm: cose.AlgorithmES256, cose.HeaderLabelKeyID: kid}, Unprotected: cose.UnprotectedHeader{}}
			}
			var signAgain func(sg *spySigner) error
			var verify func(vf *spyVerifier) error
			var want func() []byte
			switch kindName {
			case "COSE_Sign":
				sm := &cose.SignMessage{Headers: cose.Headers{Protected: cose.ProtectedHeader{}}, Payload: payload, Signatures: []*cose.Signature{{Headers: hdrs()}}}
				signAgain = func(sg *spySigner) error { sm.Signatures[0].Signature = nil; return sm.Sign(nil, ext, sg) }
				verify = func(vf *spyVerifier) error { return sm.Verify(ext, vf) }
				want = func() []byte { w, _ := refSigN(&sm.Headers, &sm.Signatures[0].Headers, ext, sm.Payload); return w }
			default:
				m := &cose.Sign1Message{Headers: hdrs(), Payload: payload}
				if kindName == "COSE_Sign1" {
					signAgain = func(sg *spySigner) error { m.Signature = nil; return m.Sign(nil, ext, sg) }
					verify = func(vf *spyVerifier) error { return m.Verify(ext, vf) }
				} else {
					signAgain = func(sg *spySigner) error {
						m.Signature = nil
						return (*cose.UntaggedSign1Message)(m).Sign(nil, ext, sg)
					}
					verify = func(vf *spyVerifier) error { return (*cose.UntaggedSign1Message)(m).Verify(ext, vf) }
				}
				want = func() []byte { w, _ := refSig1(&m.Headers, ext, m.Payload); return w }
			}
			rep := map[string]any{"structure": kindName, "edited_in_place": edit}
			sg1 := &spySigner{alg: -7, kind: SOk, sig: []byte{1, 2, 3}}
			if err := signAgain(sg1); err != nil || len(sg1.calls) != 1 {
				continue
			}
			vf1 := &spyVerifier{alg: -7}
			verify(vf1)
			for round := 1; round <= 2; round++ {
				switch edit {
				case "payload":
					payload[len(payload)-1] = byte('0' + round)
				case "protected kid":
					kid[len(kid)-1] = byte('0' + round)
				case "external":
					ext[len(ext)-1] = byte('0' + round)
				}
				c.Eval("used-again-after-in-place-edit/"+kindName, fmt.Sprint(edit, round), true)
				vf := &spyVerifier{alg: -7}
				verify(vf)
				if w := want(); len(vf.calls) != 1 || !bytes.Equal(vf.calls[0].content, w) {
					c.Fail("C02/stale-structure", fmt.Sprintf("%s verified again after its %s was edited in place: the verifier was handed %x, the structure of the message as it is now is %x", kindName, edit, vfirst(vf), w), rep)
				}
				sg := &spySigner{alg: -7, kind: SOk, sig: []byte{1, 2, 3}}
				if err := signAgain(sg); err == nil {
					if w := want(); len(sg.calls) != 1 || !bytes.Equal(sg.calls[0], w) {
						c.Fail("C02/stale-structure", fmt.Sprintf("%s signed again after its %s was edited in place: the signer was handed %x, the structure of the message as it is now is %x", kindName, edit, sg.calls, w), rep)
					}
				}
			}
		}
	}
	// ---- decoded messages whose payload is the zero-length byte string (h'', in every head width): present, so the
	// verifier is consulted, with the structure over an empty payload ----
	for _, wd := range []int{0, 1, 2, 4, 8} {
		sp := wBstr(wMap(-1, wInt(1, -1), wInt(-7, -1)).Ser(), -1)
		pl := &W{Maj: 2, Width: wd, Str: []byte{}}
		ext := []byte("e")
		want1 := refArray(refTstr("Signature1"), refBstr(sp.Str), refBstr(ext), refBstr(nil))
		for _, tagged := range []bool{true, false} {
			body := wArr(-1, sp.Clone(), wMap(-1), pl.Clone(), wBstr([]byte{9, 9}, -1))
			data := body.Ser()
			if tagged {
				data = wTag(18, -1, body).Ser()
			}
			var m cose.Sign1Message
			var err error
			if tagged {
				err = m.UnmarshalCBOR(data)
			} else {
				err = (*cose.UntaggedSign1Message)(&m).UnmarshalCBOR(data)
			}
			c.Eval("verify1/empty-payload", fmt.Sprint(wd, tagged), true)
			if err != nil {
				continue
			}
			vf := &spyVerifier{alg: -7}
			verr := m.Verify(ext, vf)
			if verr != nil || len(vf.calls) != 1 || !bytes.Equal(vf.calls[0].content, want1) {
				c.Fail("C02/verify1-structure", fmt.Sprintf("a decoded message with a zero-length payload: Verify returned %v, the verifier was handed %x, the RFC structure is %x", verr, vfirst(vf), want1), map[string]any{"data": hx(data)})
			}
		}
		mdata := wTag(98, -1, wArr(-1, wBstr(nil, -1), wMap(-1), pl.Clone(), wArr(-1, wArr(-1, sp.Clone(), wMap(-1), wBstr([]byte{9}, -1))))).Ser()
		var sm cose.SignMessage
		if err := sm.UnmarshalCBOR(mdata); err == nil {
			wantN := refArray(refTstr("Signature"), refBstr(nil), refBstr(sp.Str), refBstr(ext), refBstr(nil))
			vf := &spyVerifier{alg: -7}
			verr := sm.Verify(ext, vf)
			if verr != nil || len(vf.calls) != 1 || !bytes.Equal(vf.calls[0].content, wantN) {
				c.Fail("C02/signature-structure-decoded", fmt.Sprintf("a decoded COSE_Sign with a zero-length payload: Verify returned %v, the verifier was handed %x, the RFC structure is %x", verr, vfirst(vf), wantN), map[string]any{"data": hx(mdata)})
			}
		}
	}
	// ---- keys that use the library themselves before reading their input (a KMS adapter signing an audit
	// record, a verifier checking a certificate chain of COSE objects): the bytes they finally read must
	// still be the structure of the outer operation ----
	otherWork := func() {
		in := &cose.Sign1Message{Headers: cose.Headers{Protected: cose.ProtectedHeader{cose.HeaderLabelAlgorithm: cose.AlgorithmES256}}, Payload: []byte("audit")}
		in.Sign(nil, []byte("aa"), &spySigner{alg: -7, kind: SOk, sig: []byte{7}})
		in.Verify([]byte("aa"), &spyVerifier{alg: -7})
		in.MarshalCBOR()
		sm := &cose.SignMessage{Headers: cose.Headers{Protected: cose.ProtectedHeader{}}, Payload: []byte("a"), Signatures: []*cose.Signature{{Headers: cose.Headers{Protected: cose.ProtectedHeader{cose.HeaderLabelAlgorithm: cose.AlgorithmES256}}}}}
		sm.Sign(nil, nil, &spySigner{alg: -7, kind: SOk, sig: []byte{8}})
		sm.Verify(nil, &spyVerifier{alg: -7})
		cose.Countersign0(nil, &spySigner{alg: -7, kind: SOk, sig: []byte{9}}, in, nil)
	}
	rn := 20
	if thorough {
		rn = 500
	}
	// ---- protected buckets holding integers beyond int64 (big.Int) and tagged values: the protected bytes handed to
	// the signer are the protected bytes of the serialised message, and after the wire round trip the verifier is
	// handed the same bytes again ----
	for i := 0; i < rn; i++ {
		alg := pick(r, goAlgs)
		bigv := new(big.Int)
		bigv.SetString(pick(r, []string{"9223372036854775808", "18446744073709551615", "18446744073709551616", "-9223372036854775809", "-18446744073709551617", "5"}), 10)
		extra := pick(r, []any{*bigv, bigv, cbor.Tag{Number: 32, Content: "https://example.org/x"}, cbor.Tag{Number: 100, Content: int64(7)}, []any{*bigv, int64(1)}, map[any]any{int64(1): *bigv}})
		ext := genGoExternal(r)
		rep := map[string]any{"alg": int64(alg), "value": fmt.Sprintf("%T %v", extra, extra)}
		c.Eval("protected-bignum-or-tag", fmt.Sprintf("%T", extra), true)
		// COSE_Sign1
		m := &cose.Sign1Message{Headers: cose.Headers{Protected: cose.ProtectedHeader{cose.HeaderLabelAlgorithm: alg, int64(-70010): extra}, Unprotected: cose.UnprotectedHeader{}}, Payload: []byte("payload")}
		sg := &spySigner{alg: alg, kind: SOk, sig: genSigBytes(r)}
		if err := m.Sign(nil, ext, sg); err == nil && len(sg.calls) == 1 {
			out, merr := m.MarshalCBOR()
			if merr != nil {
				continue
			}
			w, perr := refParseFull(out)
			if perr != nil {
				continue
			}
			if signed := tbsElement(sg.calls[0], 1); !bytes.Equal(signed, w.Kids[0].Kids[0].Ser()) {
				c.Fail("C02/sign1-structure", fmt.Sprintf("the signer was handed protected bytes %x, the serialised message carries %x", signed, w.Kids[0].Kids[0].Ser()), rep)
				continue
			}
			var back cose.Sign1Message
			if err := back.UnmarshalCBOR(out); err != nil {
				c.Fail("C02/own-output-refused", "a message with such a protected value is serialised but refused by the decoder: "+err.Error(), rep)
				continue
			}
			vf := &spyVerifier{alg: alg}
			if err := back.Verify(ext, vf); err != nil || len(vf.calls) != 1 || !bytes.Equal(vf.calls[0].content, sg.calls[0]) {
				c.Fail("C02/verify1-structure", fmt.Sprintf("after the wire round trip the verifier was handed %x (%v), the signer had signed %x", vfirst(vf), err, sg.calls[0]), rep)
			}
		}
		// COSE_Sign signer layer
		sm := &cose.SignMessage{Headers: cose.Headers{Protected: cose.ProtectedHeader{int64(-70011): extra}}, Payload: []byte("payload"),
			Signatures: []*cose.Signature{{Headers: cose.Headers{Protected: cose.ProtectedHeader{cose.HeaderLabelAlgorithm: alg, int64(-70012): extra}}}}}
		sg2 := &spySigner{alg: alg, kind: SOk, sig: genSigBytes(r)}
		if err := sm.Sign(nil, ext, sg2); err == nil && len(sg2.calls) == 1 {
			if out, merr := sm.MarshalCBOR(); merr == nil {
				if w, perr := refParseFull(out); perr == nil {
					body := w.Kids[0]
					if !bytes.Equal(tbsElement(sg2.calls[0], 1), body.Kids[0].Ser()) || !bytes.Equal(tbsElement(sg2.calls[0], 2), body.Kids[3].Kids[0].Kids[0].Ser()) {
						c.Fail("C02/signature-structure", fmt.Sprintf("COSE_Sign: the signer was handed body / signer protected bytes %x / %x, the serialised message carries %x / %x", tbsElement(sg2.calls[0], 1), tbsElement(sg2.calls[0], 2), body.Kids[0].Ser(), body.Kids[3].Kids[0].Kids[0].Ser()), rep)
					}
				}
			}
		}
	}
	// ---- a caller's Signer / Verifier that also offers SignDigest / VerifyDigest (as the built-in ones do): the
	// library still hands it the Sig_structure through Sign / Verify, for every structure ----
	for i := 0; i < rn; i++ {
		alg := pick(r, []cose.Algorithm{cose.AlgorithmES256, cose.AlgorithmES384, cose.AlgorithmPS256, cose.AlgorithmPS512, cose.AlgorithmEdDSA})
		ext := genGoExternal(r)
		m := &cose.Sign1Message{Headers: genGoHeaders(r, cfg, alg, true, false), Payload: genGoPayloadNonNil(r)}
		ds := &spyDigestSigner{spySigner: spySigner{alg: alg, kind: SOk, sig: genSigBytes(r)}}
		c.Eval("digest-capable-key/sign1", fmt.Sprint(i), true)
		rep := map[string]any{"alg": int64(alg), "i": i}
		if err := m.Sign(nil, ext, ds); err == nil {
			want, rerr := refSig1(&m.Headers, ext, m.Payload)
			if rerr == nil && (len(ds.calls) != 1 || ds.digestCalls != 0 || !bytes.Equal(want, ds.calls[0])) {
				c.Fail("C02/digest-capable-key-bypassed", fmt.Sprintf("a Signer that also has SignDigest: Sign called %d times, SignDigest %d times (with %x); the structure is %x", len(ds.calls), ds.digestCalls, trimTo(ds.lastDigest, 70), trimTo(want, 70)), rep)
			}
			dv := &spyDigestVerifier{spyVerifier: spyVerifier{alg: alg}}
			if err := m.Verify(ext, dv); err == nil || dv.digestCalls > 0 {
				if rerr == nil && (len(dv.calls) != 1 || dv.digestCalls != 0 || !bytes.Equal(want, dv.calls[0].content)) {
					c.Fail("C02/digest-capable-key-bypassed", fmt.Sprintf("a Verifier that also has VerifyDigest: Verify called %d times, VerifyDigest %d times; the structure is %x", len(dv.calls), dv.digestCalls, trimTo(want, 70)), rep)
				}
			}
		}
		sm := &cose.SignMessage{Headers: genGoHeaders(r, cfg, 0, false, false), Payload: genGoPayloadNonNil(r)}
		sm.Signatures = []*cose.Signature{{Headers: genGoHeaders(r, cfg, alg, true, false)}, {Headers: genGoHeaders(r, cfg, alg, true, false)}}
		d1, d2 := &spyDigestSigner{spySigner: spySigner{alg: alg, kind: SOk, sig: genSigBytes(r)}}, &spyDigestSigner{spySigner: spySigner{alg: alg, kind: SOk, sig: genSigBytes(r)}}
		if err := sm.Sign(nil, ext, d1, d2); err == nil {
			for j, sp := range []*spyDigestSigner{d1, d2} {
				if want, rerr := refSigN(&sm.Headers, &sm.Signatures[j].Headers, ext, sm.Payload); rerr == nil && (len(sp.calls) != 1 || sp.digestCalls != 0 || !bytes.Equal(want, sp.calls[0])) {
					c.Fail("C02/digest-capable-key-bypassed", fmt.Sprintf("COSE_Sign signer %d that also has SignDigest: Sign called %d times, SignDigest %d times", j, len(sp.calls), sp.digestCalls), rep)
				}
			}
		}
		cs := &cose.Countersignature{Headers: genGoHeaders(r, cfg, alg, true, false)}
		d3 := &spyDigestSigner{spySigner: spySigner{alg: alg, kind: SOk, sig: genSigBytes(r)}}
		if err := cs.Sign(nil, d3, m, ext); err == nil && (len(d3.calls) != 1 || d3.digestCalls != 0) {
			c.Fail("C02/digest-capable-key-bypassed", fmt.Sprintf("a countersigner that also has SignDigest: Sign called %d times, SignDigest %d times", len(d3.calls), d3.digestCalls), rep)
		}
	}
	// ---- hash envelopes made by another implementation (protected map in any order, any head widths):
	// VerifyHashEnvelope hands its verifier the structure over the protected bytes as received ----
	for i := 0; i < rn; i++ {
		alg := pick(r, goAlgs)
		pm := wMap(-1, wInt(1, -1), wInt(int64(alg), -1), wInt(258, -1), wInt(-16, -1), wInt(260, -1), wTstr("loc", -1), wInt(4, -1), wBstr(r.Bytes(1+r.Intn(20)), -1))
		if i%4 != 0 {
			pm.RandWidths(r, 1, 2, nil)
			pm.ShuffleMaps(r)
		}
		pb := wBstr(pm.Ser(), -1)
		pb.Width = pick(r, widthsFor(uint64(len(pb.Str))))
		digest := r.Bytes(32)
		env := wTag(18, -1, wArr(-1, pb, wMap(-1), wBstr(digest, pick(r, []int{-1, -1, 1, 2})), wBstr([]byte{1, 2, 3}, -1))).Ser()
		vf := &spyVerifier{alg: alg}
		op, obs, _, verr, p := execVerifyHE(vf, env)
		if p {
			c.Fail("C02/panic", "VerifyHashEnvelope panicked", map[string]any{"data": hx(env)})
			continue
		}
		addCase(c, "verify-hash-envelope/foreign", op, obs, len(vf.calls) > 0)
		if verr == nil {
			want := refArray(refTstr("Signature1"), refBstr(pb.Str), refBstr(nil), refBstr(digest))
			if len(vf.calls) != 1 || !bytes.Equal(want, vf.calls[0].content) {
				c.Fail("C02/hashenvelope-structure", fmt.Sprintf("VerifyHashEnvelope handed its verifier %x, the Sig_structure over the received protected bytes is %x", vf.calls, want), map[string]any{"data": hx(env)})
			}
		} else {
			c.Fail("C02/hashenvelope-refused", "a well-formed hash envelope is refused although the verifier accepts: "+verr.Error(), map[string]any{"data": hx(env)})
		}
	}
	for i := 0; i < rn; i++ {
		alg := pick(r, goAlgs)
		ext := genGoExternal(r)
		m := &cose.Sign1Message{Headers: genGoHeaders(r, cfg, alg, true, false), Payload: genGoPayloadNonNil(r)}
		sg := &spySigner{alg: alg, kind: SOk, sig: genSigBytes(r), before: otherWork}
		c.Eval("reentrant/sign1", fmt.Sprint(i), true)
		if err := m.Sign(nil, ext, sg); err == nil && len(sg.calls) == 1 {
			if want, rerr := refSig1(&m.Headers, ext, m.Payload); rerr == nil && !bytes.Equal(want, sg.calls[0]) {
				c.Fail("C02/reentrant-key-read-other-bytes", fmt.Sprintf("a signer that used the library before reading its input read %x, the structure is %x", trimTo(sg.calls[0], 80), trimTo(want, 80)), map[string]any{"i": i})
			}
			vf := &spyVerifier{alg: alg, before: otherWork}
			if err := m.Verify(ext, vf); err == nil && len(vf.calls) == 1 {
				if want, rerr := refSig1(&m.Headers, ext, m.Payload); rerr == nil && !bytes.Equal(want, vf.calls[0].content) {
					c.Fail("C02/reentrant-key-read-other-bytes", fmt.Sprintf("a verifier that used the library before reading its input read %x, the structure is %x", trimTo(vf.calls[0].content, 80), trimTo(want, 80)), map[string]any{"i": i})
				}
			}
		}
		sm := &cose.SignMessage{Headers: genGoHeaders(r, cfg, 0, false, false), Payload: genGoPayloadNonNil(r)}
		sm.Signatures = []*cose.Signature{{Headers: genGoHeaders(r, cfg, alg, true, false)}, {Headers: genGoHeaders(r, cfg, alg, true, false)}}
		s1, s2 := &spySigner{alg: alg, kind: SOk, sig: genSigBytes(r), before: otherWork}, &spySigner{alg: alg, kind: SOk, sig: genSigBytes(r), before: otherWork}
		c.Eval("reentrant/signmsg", fmt.Sprint(i), true)
		if err := sm.Sign(nil, ext, s1, s2); err == nil {
			for j, sp := range []*spySigner{s1, s2} {
				if want, rerr := refSigN(&sm.Headers, &sm.Signatures[j].Headers, ext, sm.Payload); rerr == nil && len(sp.calls) == 1 && !bytes.Equal(want, sp.calls[0]) {
					c.Fail("C02/reentrant-key-read-other-bytes", fmt.Sprintf("COSE_Sign signer %d that used the library before reading its input read %x, the structure is %x", j, trimTo(sp.calls[0], 80), trimTo(want, 80)), map[string]any{"i": i})
				}
			}
		}
	}
}

// spyDigestSigner / spyDigestVerifier: recording keys that also implement the digest entry points
type spyDigestSigner struct {
	spySigner
	digestCalls int
	lastDigest  []byte
}

func (s *spyDigestSigner) SignDigest(_ io.Reader, digest []byte) ([]byte, error) {
	s.digestCalls++
	s.lastDigest = append([]byte{}, digest...)
	return s.sig, nil
}

type spyDigestVerifier struct {
	spyVerifier
	digestCalls int
}

func (v *spyDigestVerifier) VerifyDigest(digest, sig []byte) error {
	v.digestCalls++
	return nil
}

func vfirst(v *spyVerifier) []byte {
	if len(v.calls) == 0 {
		return nil
	}
	return v.calls[0].content
}

// headerHasAlg: does the serialised protected map (content of the bstr) carry label 1?
func headerHasAlg(content []byte) bool {
	if len(content) == 0 {
		return false
	}
	w, err := refParseFull(content)
	if err != nil || w.Maj != 5 {
		return false
	}
	for i := 0; i+1 < len(w.Kids); i += 2 {
		if w.Kids[i].Maj == 0 && w.Kids[i].Val == 1 {
			return true
		}
	}
	return false
}
