package main

import (
	"fmt"
	"math"
)

// ---------- generators of (mostly) conforming COSE wire trees ----------

var boundaryInts = []int64{0, 1, 22, 23, 24, 25, 100, 255, 256, 257, 65535, 65536, 4294967295, 4294967296,
	math.MaxInt64, -1, -2, -24, -25, -256, -257, -65536, -65537, -4294967296, -4294967297, math.MinInt64}

var textLabels = []string{"", "a", "aa", "b", "alg", "x-custom", "é", "日本", "1"}

type GenCfg struct {
	MaxEntries int  // header entries per bucket
	ValDepth   int  // nesting of generic values
	Csig       int  // nesting levels of countersignatures still allowed
	Tags       bool // allow tags inside protected header values
	Floats     bool
	NoAlg      bool // never add a random alg entry (the caller controls label 1)
}

var defaultCfg = GenCfg{MaxEntries: 6, ValDepth: 3, Csig: 2, Tags: true, Floats: true}

func genText(r *Rng) string {
	switch r.Intn(6) {
	case 0:
		return ""
	case 1:
		return "text/plain"
	case 2:
		return string(r.Bytes(1)[0]%26 + 'a')
	case 3:
		return "héllo wörld"
	case 4:
		n := pick(r, []int{23, 24, 255, 256})
		b := make([]byte, n)
		for i := range b {
			b[i] = 'a' + byte(i%26)
		}
		return string(b)
	}
	return "some text"
}

func genBytes(r *Rng) []byte {
	switch r.Intn(6) {
	case 0:
		return []byte{}
	case 1:
		return r.Bytes(1)
	case 2:
		return r.Bytes(pick(r, []int{23, 24, 25}))
	case 3:
		return r.Bytes(pick(r, []int{255, 256}))
	}
	return r.Bytes(1 + r.Intn(12))
}

// genValue: a generic header value (no tags unless cfg.Tags)
func genValue(r *Rng, cfg GenCfg, depth int) *W {
	n := 9
	if depth <= 0 {
		n = 6
	}
	switch r.Intn(n) {
	case 0:
		return wInt(pick(r, boundaryInts), -1)
	case 1:
		return wInt(int64(r.Intn(2000))-1000, -1)
	case 2:
		return wBstr(genBytes(r), -1)
	case 3:
		return wTstr(genText(r), -1)
	case 4:
		return pick(r, []*W{wBool(true), wBool(false), wNull()})
	case 5:
		if cfg.Floats && r.Chance(1, 2) {
			return pick(r, []*W{wFloat64(1.5), wFloat64(-0.0), wFloat32(3.25), wFloat16bits(0x3c00), wFloat16bits(0x0001), wFloat64(math.Inf(1)), wFloat32(float32(math.Inf(-1))), wFloat64(1e300), wFloat16bits(0x7e00), wFloat32(1e-40)})
		}
		return wInt(int64(r.Intn(30)), -1)
	case 6:
		k := r.Intn(4)
		kids := make([]*W, k)
		for i := range kids {
			kids[i] = genValue(r, cfg, depth-1)
		}
		return wArr(-1, kids...)
	case 7:
		k := r.Intn(4)
		var kv []*W
		used := map[string]bool{}
		for i := 0; i < k; i++ {
			var key *W
			switch r.Intn(4) {
			case 0:
				key = wTstr(pick(r, textLabels), -1)
			case 1:
				key = wBstr(r.Bytes(1+r.Intn(3)), -1)
			default:
				key = wInt(int64(r.Intn(40))-20, -1)
			}
			ks := string(key.Ser())
			if used[ks] {
				continue
			}
			used[ks] = true
			kv = append(kv, key, genValue(r, cfg, depth-1))
		}
		return wMap(-1, kv...)
	default:
		if cfg.Tags {
			switch r.Intn(5) {
			case 0:
				return wTag(2, -1, wBstr(r.Bytes(1+r.Intn(10)), -1))
			case 1:
				return wTag(3, -1, wBstr(r.Bytes(1+r.Intn(10)), -1))
			case 2:
				return wTag(uint64(pick(r, []int{4, 23, 24, 99, 256, 65536})), -1, genValue(r, GenCfg{ValDepth: 1}, depth-1))
			case 3:
				return wTag(55799, -1, genValue(r, GenCfg{ValDepth: 1}, depth-1))
			}
		}
		return wInt(int64(r.Intn(100)), -1)
	}
}

func mediaOrUint(r *Rng) *W {
	if r.Bool() {
		return wUint(uint64(pick(r, []int{0, 1, 23, 24, 50, 65535, 100000})), -1)
	}
	return wTstr(pick(r, []string{"text/plain", "application/cbor", "a/b", "application/cose; cose-type=\"cose-sign1\""}), -1)
}

var algChoices = []int64{-7, -35, -36, -8, -37, -38, -39, -257, -65535, 0, 1, 99, -65536}

// genBucket builds a conforming header bucket. iv: 0 none allowed, 1 IV allowed, 2 PartialIV allowed (caller splits across buckets).
func genBucket(r *Rng, cfg GenCfg, protected bool, withAlg int64, haveAlg bool, ivMode int) []*W {
	type ent struct {
		k *W
		v *W
	}
	var ents []ent
	usedInt := map[int64]bool{}
	usedTxt := map[string]bool{}
	addInt := func(l int64, v *W) {
		if usedInt[l] {
			return
		}
		usedInt[l] = true
		ents = append(ents, ent{wInt(l, -1), v})
	}
	vcfg := cfg
	if !protected {
		vcfg.Tags = false
	}
	if haveAlg && protected {
		addInt(1, wInt(withAlg, -1))
	}
	n := r.Intn(cfg.MaxEntries + 1)
	if cfg.MaxEntries >= 6 && r.Chance(1, 25) {
		n = 17 + r.Intn(24) // dozens of entries
	}
	for i := 0; i < n; i++ {
		switch r.Intn(14) {
		case 0:
			if (!haveAlg || !protected) && !(cfg.NoAlg && protected) {
				if r.Chance(1, 4) {
					addInt(1, wTstr("ES256K-custom", -1))
				} else {
					addInt(1, wInt(pick(r, algChoices), -1))
				}
			}
		case 1:
			addInt(3, mediaOrUint(r))
		case 2:
			addInt(4, wBstr(genBytes(r), -1))
		case 3:
			if ivMode == 1 {
				addInt(5, wBstr(r.Bytes(8), -1))
			} else if ivMode == 2 {
				addInt(6, wBstr(r.Bytes(3), -1))
			}
		case 4:
			addInt(16, mediaOrUint(r))
		case 5:
			if !protected {
				addInt(pick(r, []int64{9, 12}), wBstr(r.Bytes(1+r.Intn(64)), -1))
			}
		case 6:
			if !protected && cfg.Csig > 0 {
				sub := cfg
				sub.Csig--
				sub.MaxEntries = 2
				if r.Chance(2, 3) {
					addInt(pick(r, []int64{7, 11}), genSignatureTree(r, sub))
				} else {
					k := 1 + r.Intn(3)
					kids := make([]*W, k)
					for j := range kids {
						kids[j] = genSignatureTree(r, sub)
					}
					addInt(pick(r, []int64{7, 11}), wArr(-1, kids...))
				}
			}
		case 7:
			addInt(15, wMap(-1, wInt(1, -1), wTstr("issuer", -1), wInt(2, -1), wTstr("subject", -1)))
		case 8:
			addInt(pick(r, []int64{32, 33, 34, 35, 258, 259, 260}), genValue(r, vcfg, 1))
		case 9, 10:
			l := pick(r, boundaryInts)
			if l >= 0 && l <= 16 || l == 32 || l == 33 || l == 34 || l == 35 {
				l += 1000
			}
			addInt(l, genValue(r, vcfg, cfg.ValDepth))
		case 11:
			t := pick(r, textLabels)
			if !usedTxt[t] {
				usedTxt[t] = true
				ents = append(ents, ent{wTstr(t, -1), genValue(r, vcfg, cfg.ValDepth)})
			}
		default:
			l := int64(r.Intn(400)) + 40
			addInt(l, genValue(r, vcfg, 1))
		}
	}
	// crit: protected only, non-empty list of labels present in this bucket
	if protected && len(ents) > 0 && r.Chance(1, 5) && !usedInt[2] {
		k := 1 + r.Intn(len(ents))
		var labels []*W
		for j := 0; j < k; j++ {
			labels = append(labels, ents[r.Intn(len(ents))].k.Clone())
		}
		usedInt[2] = true
		ents = append(ents, ent{wInt(2, -1), wArr(-1, labels...)})
	}
	var kv []*W
	for _, e := range ents {
		kv = append(kv, e.k, e.v)
	}
	return kv
}

// genHeadersTree returns the protected item (a bstr) and the unprotected map.
func genHeadersTree(r *Rng, cfg GenCfg, alg int64, haveAlg bool) (*W, *W) {
	ivP, ivU := 0, 0
	switch r.Intn(6) {
	case 0:
		ivP = 1
	case 1:
		ivP = 2
	case 2:
		ivU = 1
	case 3:
		ivU = 2
	}
	pkv := genBucket(r, cfg, true, alg, haveAlg, ivP)
	ukv := genBucket(r, cfg, false, 0, false, ivU)
	var p *W
	if len(pkv) == 0 {
		if r.Bool() {
			p = wBstr([]byte{}, -1)
		} else {
			p = wBstr([]byte{0xa0}, -1)
		}
	} else {
		p = wBstr(wMap(-1, pkv...).Ser(), -1)
	}
	return p, wMap(-1, ukv...)
}

func genSigBytes(r *Rng) []byte { return r.Bytes(pick(r, []int{1, 8, 23, 24, 64, 255, 256})) }

func genPayloadTree(r *Rng) *W {
	switch r.Intn(8) {
	case 0:
		return wNull()
	case 1:
		return wBstr([]byte{}, -1)
	case 2:
		return wBstr(r.Bytes(pick(r, []int{23, 24, 255, 256})), -1)
	}
	return wBstr(r.Bytes(1+r.Intn(40)), -1)
}

// COSE_Signature / COSE_Countersignature
func genSignatureTree(r *Rng, cfg GenCfg) *W {
	alg := pick(r, algChoices)
	p, u := genHeadersTree(r, cfg, alg, r.Chance(3, 4))
	return wArr(-1, p, u, wBstr(genSigBytes(r), -1))
}

// COSE_Sign1 body (4-array)
func genSign1Body(r *Rng, cfg GenCfg) *W {
	alg := pick(r, algChoices)
	p, u := genHeadersTree(r, cfg, alg, r.Chance(3, 4))
	return wArr(-1, p, u, genPayloadTree(r), wBstr(genSigBytes(r), -1))
}

func genSign1Tagged(r *Rng, cfg GenCfg) *W { return wTag(18, -1, genSign1Body(r, cfg)) }

func genSignMsgTree(r *Rng, cfg GenCfg) *W {
	p, u := genHeadersTree(r, cfg, 0, false)
	n := 1 + r.Intn(3)
	sigs := make([]*W, n)
	sub := cfg
	sub.MaxEntries = 3
	for i := range sigs {
		sigs[i] = genSignatureTree(r, sub)
	}
	return wTag(98, -1, wArr(-1, p, u, genPayloadTree(r), wArr(-1, sigs...)))
}

// coordBytes: mostly size random octets; sometimes the same integer written by another serialiser (leading zero
// octets added or dropped), or a wrong length
func coordBytes(r *Rng, size int) []byte {
	switch r.Intn(12) {
	case 0:
		return append([]byte{0}, r.Bytes(size)...) // size+1 octets, a value that fits
	case 1:
		return append([]byte{0, 0, 0}, r.Bytes(size-1)...)
	case 2:
		return append([]byte{0}, r.Bytes(size-1)...) // size octets with a leading zero
	case 3:
		return r.Bytes(size - 1 - r.Intn(3))
	case 4:
		return make([]byte, size+1+r.Intn(30))
	}
	return r.Bytes(size)
}

// otherCurve: mostly the curve asked for; sometimes one this library does not implement, a reserved or
// private-use identifier, or one at the edge of the integer range
func otherCurve(r *Rng, crv int64) int64 {
	if r.Chance(5, 6) {
		return crv
	}
	return pick(r, []int64{0, 1, 2, 3, 4, 5, 6, 7, 8, 9, 99, -1, -2, -3, -7, -65536, -65537, 1 << 31, -(1 << 31) - 1, 1<<63 - 1, -1 << 63})
}

// a COSE_Key map
func genKeyTree(r *Rng) *W {
	var kv []*W
	switch r.Intn(5) {
	case 0, 1: // EC2
		crv := pick(r, []int64{1, 2, 3})
		size := map[int64]int{1: 32, 2: 48, 3: 66}[crv]
		kv = append(kv, wInt(1, -1), wInt(2, -1), wInt(-1, -1), wInt(otherCurve(r, crv), -1))
		if r.Chance(4, 5) {
			if r.Chance(1, 8) { // compressed point: y is the sign bit
				kv = append(kv, wInt(-2, -1), wBstr(coordBytes(r, size), -1), wInt(-3, -1), wBool(r.Bool()))
			} else {
				kv = append(kv, wInt(-2, -1), wBstr(coordBytes(r, size), -1), wInt(-3, -1), wBstr(coordBytes(r, size), -1))
			}
		}
		if r.Bool() {
			kv = append(kv, wInt(-4, -1), wBstr(coordBytes(r, size), -1))
		}
		if r.Chance(1, 2) {
			kv = append(kv, wInt(3, -1), wInt(map[int64]int64{1: -7, 2: -35, 3: -36}[crv], -1))
		}
	case 2: // OKP
		kv = append(kv, wInt(1, -1), wInt(1, -1), wInt(-1, -1), wInt(otherCurve(r, 6), -1))
		if r.Chance(4, 5) {
			kv = append(kv, wInt(-2, -1), wBstr(r.Bytes(32), -1))
		}
		if r.Bool() || len(kv) == 4 {
			kv = append(kv, wInt(-4, -1), wBstr(r.Bytes(32), -1))
		}
		if r.Bool() {
			kv = append(kv, wInt(3, -1), wInt(-8, -1))
		}
	case 3: // symmetric
		kv = append(kv, wInt(1, -1), wInt(4, -1), wInt(-1, -1), wBstr(r.Bytes(16), -1))
	default: // custom key type
		kv = append(kv, wInt(1, -1), wInt(int64(pick(r, []int{3, 5, 99, -1, 70000})), -1))
		if r.Bool() {
			kv = append(kv, wInt(-1, -1), genValue(r, GenCfg{ValDepth: 1}, 1))
		}
		if r.Bool() {
			kv = append(kv, wTstr("custom", -1), genValue(r, GenCfg{ValDepth: 1}, 1))
		}
	}
	if r.Chance(1, 3) {
		kv = append(kv, wInt(2, -1), wBstr(genBytes(r), -1))
	}
	if r.Chance(1, 3) {
		n := r.Intn(4)
		var ops []*W
		for i := 0; i < n; i++ {
			if r.Bool() {
				ops = append(ops, wInt(int64(1+r.Intn(10)), -1))
			} else {
				ops = append(ops, wTstr(pick(r, []string{"sign", "verify", "encrypt", "decrypt", "wrapKey", "unwrapKey", "deriveKey", "deriveBits"}), -1))
			}
		}
		kv = append(kv, wInt(4, -1), wArr(-1, ops...))
	}
	if r.Chance(1, 4) {
		kv = append(kv, wInt(5, -1), wBstr(r.Bytes(8), -1))
	}
	if r.Chance(1, 4) {
		kv = append(kv, wInt(int64(-10-r.Intn(10)), -1), genValue(r, GenCfg{ValDepth: 1}, 1))
	}
	return wMap(-1, kv...)
}

func genTreeOfKind(r *Rng, kind string, cfg GenCfg) *W {
	switch kind {
	case "DSign1":
		return genSign1Tagged(r, cfg)
	case "DSign1U":
		return genSign1Body(r, cfg)
	case "DSignature":
		return genSignatureTree(r, cfg)
	case "DSignMsg":
		return genSignMsgTree(r, cfg)
	case "DProt":
		p, _ := genHeadersTree(r, cfg, pick(r, algChoices), r.Bool())
		return p
	case "DUnprot":
		_, u := genHeadersTree(r, cfg, 0, false)
		return u
	case "DKey":
		return genKeyTree(r)
	}
	panic("kind")
}

// the structural heads of the COSE envelope must stay shortest-form (documented limit)
func isEnvelopeHead(kind string, root *W) func(*W) bool {
	fixed := map[*W]bool{}
	switch kind {
	case "DSign1":
		fixed[root] = true
		fixed[root.Kids[0]] = true
	case "DSign1U", "DSignature":
		fixed[root] = true
	case "DSignMsg":
		fixed[root] = true
		body := root.Kids[0]
		fixed[body] = true
		if len(body.Kids) == 4 && body.Kids[3].Maj == 4 {
			for _, s := range body.Kids[3].Kids {
				fixed[s] = true
			}
		}
	}
	// nested countersignature arrays also need a 1-byte head (prefix test)
	var walk func(n *W, inUnprot bool)
	walk = func(n *W, inUnprot bool) {
		if n.Maj == 5 {
			for i := 0; i+1 < len(n.Kids); i += 2 {
				k, v := n.Kids[i], n.Kids[i+1]
				if k.Maj == 0 && (k.Val == 7 || k.Val == 11) {
					if v.Maj == 4 && len(v.Kids) == 3 && v.Kids[0].Maj == 2 {
						fixed[v] = true
						walk(v.Kids[1], true)
					} else if v.Maj == 4 {
						for _, e := range v.Kids {
							fixed[e] = true
							if e.Maj == 4 && len(e.Kids) == 3 {
								walk(e.Kids[1], true)
							}
						}
					}
				}
			}
		}
		for _, c := range n.Kids {
			if c.Maj == 4 || c.Maj == 6 {
				walk(c, inUnprot)
			} else if c.Maj == 5 {
				walk(c, inUnprot)
			}
		}
	}
	walk(root, false)
	return func(n *W) bool { return fixed[n] }
}

// ---------- mutations ----------

func randomNode(r *Rng, depth int) *W {
	return genValue(r, GenCfg{ValDepth: 1, Tags: true, Floats: true}, depth)
}

// mutateTree applies one structural fault at a random node and returns a description.
func mutateTree(r *Rng, root **W) string {
	if r.Chance(1, 4) {
		if desc, ok := mutateInProtected(r, *root); ok {
			return desc
		}
	}
	return mutateTreeShallow(r, root)
}

// protectedSlots: the bstr items that hold an encoded protected header map (first element of every
// [bstr, map, ...] array at any depth, or the root itself when it is a bstr).
func protectedSlots(root *W) []*W {
	var out []*W
	if root.Maj == 2 {
		out = append(out, root)
	}
	var walk func(n *W)
	walk = func(n *W) {
		if n.Maj == 4 && len(n.Kids) >= 3 && n.Kids[0].Maj == 2 && n.Kids[1].Maj == 5 {
			out = append(out, n.Kids[0])
		}
		for _, k := range n.Kids {
			walk(k)
		}
	}
	walk(root)
	return out
}

// mutateInProtected applies a structural fault inside an encoded protected header map.
func mutateInProtected(r *Rng, root *W) (string, bool) {
	slots := protectedSlots(root)
	if len(slots) == 0 {
		return "", false
	}
	if r.Chance(1, 4) {
		if desc, ok := ivSplit(r, root); ok {
			return "in-protected/" + desc, true
		}
	}
	p := slots[r.Intn(len(slots))]
	inner, err := refParseFull(p.Str)
	if err != nil || inner.Maj != 5 {
		inner = wMap(-1)
	}
	var desc string
	if r.Chance(1, 3) {
		desc = critFault(r, inner)
	} else {
		desc = mutateTreeShallow(r, &inner)
	}
	p.Str = inner.Ser()
	p.Width = pickW(uint64(len(p.Str)), p.Width)
	return "in-protected/" + desc, true
}

// ivSplit puts IV into one bucket and Partial IV into the other bucket of one layer (both well-typed),
// which RFC 9052 3.1 forbids although each bucket is valid alone.
func ivSplit(r *Rng, root *W) (string, bool) {
	var envs []*W
	var walk func(n *W)
	walk = func(n *W) {
		if n.Maj == 4 && len(n.Kids) >= 3 && n.Kids[0].Maj == 2 && n.Kids[1].Maj == 5 {
			envs = append(envs, n)
		}
		for _, k := range n.Kids {
			walk(k)
		}
	}
	walk(root)
	if len(envs) == 0 {
		return "", false
	}
	e := envs[r.Intn(len(envs))]
	inner, err := refParseFull(e.Kids[0].Str)
	if err != nil || inner.Maj != 5 {
		inner = wMap(-1)
	}
	strip := func(m *W) {
		var kv []*W
		for i := 0; i+1 < len(m.Kids); i += 2 {
			if k := m.Kids[i]; k.Maj == 0 && (k.Val == 5 || k.Val == 6) {
				continue
			}
			kv = append(kv, m.Kids[i], m.Kids[i+1])
		}
		m.Kids = kv
	}
	strip(inner)
	strip(e.Kids[1])
	a, b := int64(5), int64(6)
	if r.Bool() {
		a, b = b, a
	}
	inner.Kids = append(inner.Kids, wInt(a, -1), wBstr(r.Bytes(1+r.Intn(8)), -1))
	e.Kids[1].Kids = append(e.Kids[1].Kids, wInt(b, -1), wBstr(r.Bytes(1+r.Intn(8)), -1))
	inner.Width = pickW(uint64(len(inner.Kids)/2), -1)
	e.Kids[1].Width = pickW(uint64(len(e.Kids[1].Kids)/2), -1)
	e.Kids[0].Str = inner.Ser()
	e.Kids[0].Width = pickW(uint64(len(e.Kids[0].Str)), e.Kids[0].Width)
	return fmt.Sprintf("iv-split-%d-protected", a), true
}

// critFault rewrites the crit parameter of a protected map: a list of 1..4 entries naming labels of
// the map, with (usually) one faulty entry at a random position, not necessarily the last.
func critFault(r *Rng, m *W) string {
	var kv []*W
	var labels []*W
	for i := 0; i+1 < len(m.Kids); i += 2 {
		if k := m.Kids[i]; k.Maj == 0 && k.Val == 2 {
			continue
		}
		kv = append(kv, m.Kids[i], m.Kids[i+1])
		if m.Kids[i].Maj == 0 || m.Kids[i].Maj == 1 || m.Kids[i].Maj == 3 {
			labels = append(labels, m.Kids[i])
		}
	}
	if len(labels) == 0 {
		kv = append(kv, wInt(4, -1), wBstr([]byte("k"), -1))
		labels = append(labels, kv[len(kv)-2])
	}
	n := 1 + r.Intn(4)
	var ents []*W
	for j := 0; j < n; j++ {
		ents = append(ents, labels[r.Intn(len(labels))].Clone())
	}
	desc := "crit-valid"
	if r.Chance(4, 5) {
		bad := pick(r, []*W{wInt(9999, -1), wInt(-9999, -1), wTstr("absent", -1), wBstr([]byte{4}, -1), wFloat64(4), wArr(-1, wInt(4, -1)), wNull(), wBool(true), wMap(-1)})
		if l := labels[0]; r.Chance(1, 4) && (l.Maj == 0 || l.Maj == 1) {
			// the decimal text of a present integer label
			v := int64(l.Val)
			if l.Maj == 1 {
				v = -1 - v
			}
			bad = wTstr(fmt.Sprint(v), -1)
		}
		pos := r.Intn(len(ents) + 1)
		ents = append(ents[:pos], append([]*W{bad}, ents[pos:]...)...)
		desc = fmt.Sprintf("crit-fault-at-%d-of-%d", pos, len(ents))
	}
	kv = append(kv, wInt(2, -1), wArr(-1, ents...))
	m.Kids = kv
	m.Width = pickW(uint64(len(kv)/2), -1)
	return desc
}

func mutateTreeShallow(r *Rng, root **W) string {
	nodes := (*root).Nodes()
	p := nodes[r.Intn(len(nodes))]
	// Nodes() returns the slot of a copy of the root pointer for index 0: handle root specially
	isRoot := *p == *root
	set := func(n *W) {
		if isRoot {
			*root = n
		} else {
			*p = n
		}
	}
	n := *p
	switch r.Intn(19) {
	case 18:
		if n.Maj == 4 && len(n.Kids) > 0 {
			n.Kids[r.Intn(len(n.Kids))] = pick(r, []*W{wNull(), wUndef()})
			return "array-element-to-null"
		}
		if n.Maj == 5 && len(n.Kids) >= 2 {
			n.Kids[2*r.Intn(len(n.Kids)/2)+1] = pick(r, []*W{wNull(), wUndef()})
			return "map-value-to-null"
		}
		set(wUndef())
		return "to-undefined"
	case 16:
		if n.Maj == 5 {
			n.Kids = append(n.Kids, wInt(pick(r, []int64{3, 16}), -1), wTstr(pick(r, []string{"", " a/b", "a/b ", "ab", "a/b/c", "/", " "}), -1))
			n.Width = pickW(uint64(len(n.Kids)/2), n.Width)
			return "media-type-fault"
		}
		set(wTstr("", -1))
		return "to-empty-text"
	case 17:
		if n.Maj == 5 {
			n.Kids = append(n.Kids, wInt(pick(r, []int64{5, 6}), -1), wBstr([]byte{1, 2}, -1))
			n.Width = pickW(uint64(len(n.Kids)/2), n.Width)
			return "add-iv-or-partial-iv"
		}
		set(wBstr([]byte{1}, -1))
		return "to-bstr"
	case 0:
		set(randomNode(r, 1))
		return "replace-node"
	case 1:
		set(wTag(uint64(pick(r, []int{0, 1, 2, 3, 18, 98, 99, 55799})), -1, n))
		return "insert-tag"
	case 2:
		if n.Maj == 2 {
			kids := make([]*W, len(n.Str))
			for i, b := range n.Str {
				kids[i] = wUint(uint64(b), -1)
			}
			set(wArr(-1, kids...))
			return "bstr-to-array"
		}
		set(wBstr(n.Ser(), -1))
		return "wrap-in-bstr"
	case 3:
		if n.Maj == 2 {
			set(&W{Maj: 3, Width: n.Width, Str: n.Str})
			return "bstr-to-tstr"
		}
		if n.Maj == 3 {
			set(&W{Maj: 2, Width: n.Width, Str: n.Str})
			return "tstr-to-bstr"
		}
		set(wNull())
		return "to-null"
	case 4:
		set(pick(r, []*W{wNull(), wUndef(), wBool(true), wSimple(0), wSimple(32), wSimple(255)}))
		return "to-simple"
	case 5:
		if n.Maj == 4 && len(n.Kids) > 0 {
			n.Kids = n.Kids[:len(n.Kids)-1]
			n.Width = pickW(uint64(len(n.Kids)), n.Width)
			return "array-drop-last"
		}
		if n.Maj == 5 && len(n.Kids) >= 2 {
			n.Kids = n.Kids[:len(n.Kids)-2]
			return "map-drop-last"
		}
		set(wArr(-1))
		return "to-empty-array"
	case 6:
		if n.Maj == 4 {
			n.Kids = append(n.Kids, randomNode(r, 0))
			n.Width = pickW(uint64(len(n.Kids)), n.Width)
			return "array-add"
		}
		if n.Maj == 5 {
			n.Kids = append(n.Kids, wInt(int64(r.Intn(300)), -1), randomNode(r, 0))
			n.Width = pickW(uint64(len(n.Kids)/2), n.Width)
			return "map-add"
		}
		set(wMap(-1))
		return "to-empty-map"
	case 7:
		if n.Maj == 5 && len(n.Kids) >= 2 {
			// duplicate an entry, re-spelling the key with another width
			i := 2 * r.Intn(len(n.Kids)/2)
			k := n.Kids[i].Clone()
			switch k.Maj {
			case 0, 1:
				k.Width = pick(r, widthsFor(k.Val))
			case 2, 3:
				k.Width = pick(r, widthsFor(uint64(len(k.Str))))
			}
			n.Kids = append(n.Kids, k, randomNode(r, 0))
			n.Width = pickW(uint64(len(n.Kids)/2), n.Width)
			return "map-duplicate-key"
		}
		fallthrough
	case 8:
		// indefinite-length re-spelling
		switch n.Maj {
		case 2, 3:
			set(wRaw(append(append([]byte{byte(n.Maj<<5) | 31}, head(n.Maj, minWidth(uint64(len(n.Str))), uint64(len(n.Str)))...), append(n.Str, 0xff)...)))
			return "indefinite-string"
		case 4, 5:
			b := []byte{byte(n.Maj<<5) | 31}
			for _, k := range n.Kids {
				b = append(b, k.Ser()...)
			}
			set(wRaw(append(b, 0xff)))
			return "indefinite-container"
		}
		set(wRaw([]byte{0xff}))
		return "break-code"
	case 9:
		// move a header entry to the other bucket / relabel with a registered label
		if n.Maj == 5 && len(n.Kids) >= 2 {
			i := 2 * r.Intn(len(n.Kids)/2)
			n.Kids[i] = wInt(pick(r, []int64{1, 2, 3, 4, 5, 6, 7, 9, 11, 12, 16, 258, 259, 260}), -1)
			return "relabel-entry"
		}
		set(wInt(pick(r, boundaryInts), -1))
		return "to-int"
	case 10:
		if n.Maj == 0 || n.Maj == 1 {
			set(&W{Maj: n.Maj, Width: 8, Val: pick(r, []uint64{1 << 63, 1<<63 - 1, math.MaxUint64})})
			return "int-extreme"
		}
		set(wFloat64(1.5))
		return "to-float"
	case 11:
		if n.Maj == 3 {
			n.Str = pick(r, [][]byte{{0xff}, {0xc0, 0x80}, {0xed, 0xa0, 0x80}, {0xf4, 0x90, 0x80, 0x80}, {0xe2, 0x82}})
			return "invalid-utf8"
		}
		set(wTstr(string([]byte{0xc3}), -1))
		return "to-invalid-utf8"
	case 12:
		// deep nesting
		d := pick(r, []int{28, 29, 30, 31, 32, 33, 40})
		x := wInt(1, -1)
		for i := 0; i < d; i++ {
			x = wArr(-1, x)
		}
		set(x)
		return "deep-nesting"
	case 13:
		if n.Maj == 4 && len(n.Kids) >= 2 {
			i, j := r.Intn(len(n.Kids)), r.Intn(len(n.Kids))
			n.Kids[i], n.Kids[j] = n.Kids[j], n.Kids[i]
			return "swap-fields"
		}
		set(wBstr([]byte{}, -1))
		return "to-empty-bstr"
	case 14:
		// reserved additional information / truncated head
		set(wRaw(pick(r, [][]byte{{0x1c}, {0x3d}, {0x5e}, {0x9f}, {0xbf}, {0xf8, 0x10}, {0xf8}, {0x18}, {0x59, 0x01}})))
		return "reserved-ai"
	default:
		if n.Maj == 5 && len(n.Kids) >= 2 {
			// put both IV and Partial IV
			n.Kids = append(n.Kids, wInt(5, -1), wBstr([]byte{1}, -1), wInt(6, -1), wBstr([]byte{2}, -1))
			n.Width = pickW(uint64(len(n.Kids)/2), n.Width)
			return "iv-and-partial-iv"
		}
		set(wTstr(genText(r), -1))
		return "to-text"
	}
}

// mutateBytes applies a byte-level fault.
func mutateBytes(r *Rng, b []byte) ([]byte, string) {
	b = append([]byte{}, b...)
	if len(b) == 0 {
		return []byte{byte(r.U64())}, "byte-insert"
	}
	switch r.Intn(6) {
	case 0:
		i := r.Intn(len(b))
		b[i] ^= 1 << uint(r.Intn(8))
		return b, "bit-flip"
	case 1:
		i := r.Intn(len(b) + 1)
		b = append(b[:i], append([]byte{byte(r.U64())}, b[i:]...)...)
		return b, "byte-insert"
	case 2:
		i := r.Intn(len(b))
		return append(b[:i], b[i+1:]...), "byte-delete"
	case 3:
		return b[:r.Intn(len(b))], "truncate"
	case 4:
		return append(b, pick(r, [][]byte{{0}, {0xf6}, {0xff}, {0x40}, b[:1]})...), "trailing-bytes"
	default:
		i := r.Intn(len(b))
		b[i] = byte(r.U64())
		return b, "byte-replace"
	}
}

// padProtectedTo pads the protected map wrapped by p (a bstr) with a kid so that
// the wrapped content has exactly target bytes; returns false when impossible.
func padProtectedTo(p *W, target int) bool {
	var kv []*W
	if len(p.Str) > 0 {
		m, err := refParseFull(p.Str)
		if err != nil || m.Maj != 5 {
			return false
		}
		for i := 0; i+1 < len(m.Kids); i += 2 {
			if m.Kids[i].Maj == 0 && m.Kids[i].Val == 4 {
				continue
			}
			kv = append(kv, m.Kids[i], m.Kids[i+1])
		}
	}
	for l := 0; l <= target; l++ {
		cand := wMap(-1, append(append([]*W{}, kv...), wInt(4, -1), wBstr(make([]byte, l), -1))...)
		if len(cand.Ser()) == target {
			p.Str = cand.Ser()
			p.Width = pickW(uint64(len(p.Str)), -1)
			return true
		}
		if len(cand.Ser()) > target {
			return false
		}
	}
	return false
}

var boundaryLens = []int{23, 24, 255, 256, 65535, 65536}
