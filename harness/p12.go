package main

import (
	"bytes"
	"crypto"
	"crypto/ecdsa"
	"crypto/rsa"
	"fmt"
	"github.com/fxamacker/cbor/v2"
	"math/big"
	"reflect"

	cose "github.com/veraison/go-cose"
)

func init() {
	runners["C12"] = runC12
	runners["C13"] = runC13
}

// ---------- C12 ----------

func deepCopyMap(m map[any]any) map[any]any {
	if m == nil {
		return nil
	}
	out := map[any]any{}
	for k, v := range m {
		switch t := v.(type) {
		case []byte:
			out[k] = append([]byte{}, t...)
		case map[any]any:
			out[k] = deepCopyMap(t)
		case []any:
			out[k] = append([]any{}, t...)
		default:
			out[k] = v
		}
	}
	return out
}

// heRulesOnWire: the hash-envelope rules checked on the bytes of an envelope
func heRulesOnWire(env []byte) error {
	w, err := refParseFull(env)
	if err != nil || w.Maj != 6 || w.Val != 18 || len(w.Kids[0].Kids) != 4 {
		return fmt.Errorf("not a COSE_Sign1")
	}
	body := w.Kids[0]
	pm := wMap(-1)
	if len(body.Kids[0].Str) > 0 {
		pm, err = refParseFull(body.Kids[0].Str)
		if err != nil || pm.Maj != 5 {
			return fmt.Errorf("protected is not a map")
		}
	}
	get := func(m *W, l uint64) *W {
		for i := 0; i+1 < len(m.Kids); i += 2 {
			if m.Kids[i].Maj == 0 && m.Kids[i].Val == l {
				return m.Kids[i+1]
			}
		}
		return nil
	}
	ha := get(pm, 258)
	if ha == nil || !(ha.Maj == 0 || ha.Maj == 1) {
		return fmt.Errorf("258 (payload hash alg) absent from protected or not an integer")
	}
	if v := get(pm, 259); v != nil && !(v.Maj == 0 || v.Maj == 3) {
		return fmt.Errorf("259 is not uint / tstr")
	}
	if v := get(pm, 260); v != nil && v.Maj != 3 {
		return fmt.Errorf("260 is not tstr")
	}
	if get(pm, 3) != nil {
		return fmt.Errorf("content type (3) in protected")
	}
	for _, l := range []uint64{3, 258, 259, 260} {
		if get(body.Kids[1], l) != nil {
			return fmt.Errorf("label %d in unprotected", l)
		}
	}
	if ha.Maj == 1 {
		size := map[uint64]int{15: 32, 42: 48, 43: 64}[ha.Val] // -16, -43, -44
		if size != 0 && (body.Kids[2].Maj != 2 || len(body.Kids[2].Str) != size) {
			return fmt.Errorf("digest length %d does not match the hash algorithm (%d)", len(body.Kids[2].Str), size)
		}
	}
	return nil
}

func runC12(c *Collector, r *Rng, thorough bool) {
	c.Rule = "SignHashEnvelope over base headers with every label spelling, raw and typed buckets, 6 hash ids (SHA-256/384/512, unknown, 0, negative), digest lengths 0..70, optional content type / location absent, present, mistyped: output parsed by the harness's own reader (258/259/260 in protected, none of 3/258/259/260 unprotected, digest length), VerifyHashEnvelope with the matching key returns the same values, caller's maps deep-compared before/after; verify side: validly framed envelopes with each governed label moved / added / removed / mistyped in either bucket; everything compared with the Coq model; non-trivial = passed the first validation; distinct by op term"
	n := 200
	if thorough {
		n = 8000
	}
	hashAlgs := []cose.Algorithm{cose.AlgorithmSHA256, cose.AlgorithmSHA384, cose.AlgorithmSHA512, -15, 0, -65540, 7}
	// corpus: caller-supplied raw unprotected bytes carrying a governed label (known finding)
	for _, raw := range []string{"a10300", "a119010220", "a1190103626162", "a11901046161"} {
		h := cose.Headers{Protected: cose.ProtectedHeader{cose.HeaderLabelAlgorithm: cose.AlgorithmES256}, RawUnprotected: unhex(raw)}
		sg := &spySigner{alg: -7, kind: SOk, sig: []byte{1, 2}}
		op, obs, out, err, p := execSignHE(sg, h, cose.HashEnvelopePayload{HashAlgorithm: cose.AlgorithmSHA256, HashValue: make([]byte, 32)})
		if p {
			c.Fail("C12/panic", "SignHashEnvelope panicked", map[string]any{"op": op})
			continue
		}
		addCase(c, "corpus/raw-unprotected", op, obs, true)
		if err == nil {
			if rerr := heRulesOnWire(out); rerr != nil {
				c.Fail("C12/raw-unprotected-not-validated", "SignHashEnvelope produced an envelope violating the rules: "+rerr.Error()+" in "+hx(out), map[string]any{"op": trunc(op, 900)})
			}
		}
	}
	// the caller's Headers are a template: SignHashEnvelope leaves them as they were, also when the maps are empty but
	// not nil (NewSign1Message().Headers), and the next envelope signed from the same template carries nothing of the
	// previous one
	for _, tmpl := range []cose.Headers{{Protected: cose.ProtectedHeader{}, Unprotected: cose.UnprotectedHeader{}}, cose.NewSign1Message().Headers, {Protected: cose.ProtectedHeader{int64(4): []byte("k")}}} {
		before := fmt.Sprint(len(tmpl.Protected), len(tmpl.Unprotected), tmpl.Protected == nil, tmpl.Unprotected == nil)
		o1, e1 := cose.SignHashEnvelope(nil, &spySigner{alg: -7, kind: SOk, sig: []byte{1}}, tmpl, cose.HashEnvelopePayload{HashAlgorithm: cose.AlgorithmSHA256, HashValue: make([]byte, 32), Location: "first", PreimageContentType: "a/b"})
		after := fmt.Sprint(len(tmpl.Protected), len(tmpl.Unprotected), tmpl.Protected == nil, tmpl.Unprotected == nil)
		o2, e2 := cose.SignHashEnvelope(nil, &spySigner{alg: -35, kind: SOk, sig: []byte{2}}, tmpl, cose.HashEnvelopePayload{HashAlgorithm: cose.AlgorithmSHA384, HashValue: make([]byte, 48)})
		c.Eval("template-headers", before, true)
		if before != after {
			c.Fail("C12/caller-maps-modified", fmt.Sprintf("SignHashEnvelope wrote into the caller's header maps: %s before, %s after (len protected, len unprotected, nil, nil)", before, after), map[string]any{"template": before})
		} else if e1 != nil || e2 != nil {
			c.Fail("C12/template-reuse-refused", fmt.Sprintf("two envelopes signed from one template: %v / %v", e1, e2), map[string]any{"template": before})
		} else if w, err := refParseFull(o2); err == nil {
			if pm, err := refParseFull(w.Kids[0].Kids[0].Str); err == nil {
				for q := 0; q+1 < len(pm.Kids); q += 2 {
					if pm.Kids[q].Maj == 0 && (pm.Kids[q].Val == 259 || pm.Kids[q].Val == 260) {
						c.Fail("C12/caller-maps-modified", fmt.Sprintf("the second envelope signed from the same template carries parameter %d of the first one: %x", pm.Kids[q].Val, o2), map[string]any{"template": before, "first": hx(o1)})
					}
				}
			}
		}
	}
	// a signer that uses the library itself before it reads what it was handed (signing an audit record as another hash
	// envelope, verifying one): what it then reads is still the structure of its own envelope
	for i := 0; i < 10; i++ {
		other := func() {
			cose.SignHashEnvelope(nil, &spySigner{alg: -7, kind: SOk, sig: []byte{9}}, cose.Headers{Protected: cose.ProtectedHeader{cose.HeaderLabelAlgorithm: cose.AlgorithmES256, int64(4): []byte("audit")}},
				cose.HashEnvelopePayload{HashAlgorithm: cose.AlgorithmSHA512, HashValue: make([]byte, 64), Location: "audit-log"})
			cose.VerifyHashEnvelope(&spyVerifier{alg: -7}, unhex("d28447a201260119010220a0f6"))
		}
		hv := r.Bytes(32)
		sg := &spySigner{alg: -7, kind: SOk, sig: []byte{1, 2}, before: other}
		out, err := cose.SignHashEnvelope(nil, sg, cose.Headers{Protected: cose.ProtectedHeader{cose.HeaderLabelAlgorithm: cose.AlgorithmES256}}, cose.HashEnvelopePayload{HashAlgorithm: cose.AlgorithmSHA256, HashValue: hv})
		c.Eval("reentrant-signer", fmt.Sprint(i), true)
		if err != nil || len(sg.calls) != 1 {
			continue
		}
		if w, perr := refParseFull(out); perr == nil {
			want := refArray(refTstr("Signature1"), refBstr(w.Kids[0].Kids[0].Str), refBstr(nil), refBstr(hv))
			if !bytes.Equal(want, sg.calls[0]) {
				c.Fail("C12/signed-bytes-differ", fmt.Sprintf("a signer that used the library before reading its input was handed %x, the structure of its envelope is %x", trimTo(sg.calls[0], 80), trimTo(want, 80)), map[string]any{"out": hx(out)})
			}
		}
		vf := &spyVerifier{alg: -7, before: other}
		if _, err := cose.VerifyHashEnvelope(vf, out); err == nil && len(vf.calls) == 1 {
			w, _ := refParseFull(out)
			want := refArray(refTstr("Signature1"), refBstr(w.Kids[0].Kids[0].Str), refBstr(nil), refBstr(hv))
			if !bytes.Equal(want, vf.calls[0].content) {
				c.Fail("C12/signed-bytes-differ", "a verifier that used the library before reading its input was handed other bytes than the structure of the envelope", map[string]any{"out": hx(out)})
			}
		}
	}
	// the preimage content type and the location are the caller's: whatever spelling the caller gives (upper case,
	// parameters, quoting, spacing, no slash at all, a CoAP content-format number) is what the protected bucket carries
	// and what VerifyHashEnvelope returns - octet for octet
	for ci, ct := range []any{"application/json", "Application/JSON", "text/plain;charset=utf-8", "text/plain; charset=UTF-8", "text/plain; Charset=\"utf-8\"", "TEXT/PLAIN ; charset=us-ascii",
		"application/vnd.example+cbor; version=1; q=0.5", "a/b", " a/b", "a/b ", "application/spdx+json", "x", "", "multipart/mixed; boundary=\"--x\"", "image/SVG+XML", uint64(50), uint(0), uint64(65535)} {
		for li, loc := range []string{"", "https://example.org/a?b=c#d", "HTTPS://EXAMPLE.ORG/%7Euser", " spaced out ", "\u00fcber/\u4e16\u754c"} {
			hv := r.Bytes(32)
			sg := &spySigner{alg: -7, kind: SOk, sig: []byte{1, 2}}
			hp := cose.HashEnvelopePayload{HashAlgorithm: cose.AlgorithmSHA256, HashValue: hv, PreimageContentType: ct, Location: loc}
			out, err := cose.SignHashEnvelope(nil, sg, cose.Headers{Protected: cose.ProtectedHeader{cose.HeaderLabelAlgorithm: cose.AlgorithmES256}}, hp)
			c.Eval("content-type-and-location-verbatim", fmt.Sprint(ci, li), true)
			if err != nil {
				continue
			}
			rep := map[string]any{"content_type": fmt.Sprintf("%T %v", ct, ct), "location": loc, "out": hx(out)}
			w, perr := refParseFull(out)
			if perr != nil || len(w.Kids) != 1 || len(w.Kids[0].Kids) != 4 {
				continue
			}
			pm, perr := refParseFull(w.Kids[0].Kids[0].Str)
			if perr != nil {
				continue
			}
			var got259, got260 *W
			for q := 0; q+1 < len(pm.Kids); q += 2 {
				if pm.Kids[q].Maj == 0 && pm.Kids[q].Val == 259 {
					got259 = pm.Kids[q+1]
				}
				if pm.Kids[q].Maj == 0 && pm.Kids[q].Val == 260 {
					got260 = pm.Kids[q+1]
				}
			}
			switch t := ct.(type) {
			case string:
				if got259 == nil || got259.Maj != 3 || string(got259.Str) != t {
					c.Fail("C12/not-the-given-values", fmt.Sprintf("the envelope's preimage content type is %x, the caller gave the text %q", serOrNil(got259), t), rep)
				}
			default:
				if got259 == nil || got259.Maj != 0 || fmt.Sprint(got259.Val) != fmt.Sprint(ct) {
					c.Fail("C12/not-the-given-values", fmt.Sprintf("the envelope's preimage content type is %x, the caller gave the number %v", serOrNil(got259), ct), rep)
				}
			}
			if loc != "" && (got260 == nil || got260.Maj != 3 || string(got260.Str) != loc) {
				c.Fail("C12/not-the-given-values", fmt.Sprintf("the envelope's location is %x, the caller gave %q", serOrNil(got260), loc), rep)
			}
			if m, verr := cose.VerifyHashEnvelope(&spyVerifier{alg: -7}, out); verr == nil && m != nil {
				back := m.Headers.Protected[cose.HeaderLabelPayloadPreimageContentType]
				if s, ok := ct.(string); ok && back != s {
					c.Fail("C12/not-the-given-values", fmt.Sprintf("VerifyHashEnvelope returns the content type %v, the caller gave %q", back, s), rep)
				}
				if l, _ := m.Headers.Protected[cose.HeaderLabelPayloadLocation].(string); loc != "" && l != loc {
					c.Fail("C12/not-the-given-values", fmt.Sprintf("VerifyHashEnvelope returns the location %q, the caller gave %q", l, loc), rep)
				}
			}
		}
	}
	// a message is returned only with a nil error: envelopes that a verifier accepts but that break one rule each (digest
	// of another length, 258 missing, 258 in the unprotected bucket, content type present, 259 not text / uint) give
	// an error and NO message
	{
		mkEnv := func(pm, um *W, digest []byte) []byte {
			return wTag(18, -1, wArr(-1, wBstr(pm.Ser(), -1), um, wBstr(digest, -1), wBstr([]byte{1, 2, 3}, -1))).Ser()
		}
		good := func() *W { return wMap(-1, wInt(1, -1), wInt(-7, -1), wInt(258, -1), wInt(-16, -1)) }
		type bc struct {
			name string
			env  []byte
		}
		var cases []bc
		for _, ln := range []int{0, 1, 31, 33, 48, 64} {
			cases = append(cases, bc{fmt.Sprintf("digest of %d octets under SHA-256", ln), mkEnv(good(), wMap(-1), make([]byte, ln))})
		}
		cases = append(cases,
			bc{"258 missing", mkEnv(wMap(-1, wInt(1, -1), wInt(-7, -1)), wMap(-1), make([]byte, 32))},
			bc{"258 in the unprotected bucket too", mkEnv(good(), wMap(-1, wInt(258, -1), wInt(-16, -1)), make([]byte, 32))},
			bc{"content type in the protected bucket", mkEnv(wMap(-1, wInt(1, -1), wInt(-7, -1), wInt(3, -1), wInt(0, -1), wInt(258, -1), wInt(-16, -1)), wMap(-1), make([]byte, 32))},
			bc{"259 a byte string", mkEnv(wMap(-1, wInt(1, -1), wInt(-7, -1), wInt(258, -1), wInt(-16, -1), wInt(259, -1), wBstr([]byte{1}, -1)), wMap(-1), make([]byte, 32))},
			bc{"unknown hash algorithm", mkEnv(wMap(-1, wInt(1, -1), wInt(-7, -1), wInt(258, -1), wInt(-999, -1)), wMap(-1), make([]byte, 32))},
		)
		for _, cs := range cases {
			vf := &spyVerifier{alg: -7}
			var m *cose.Sign1Message
			var err error
			if p, _ := protect(func() { m, err = cose.VerifyHashEnvelope(vf, cs.env) }); p {
				continue
			}
			c.Eval("message-only-with-nil-error", cs.name, true)
			if err != nil && m != nil {
				c.Fail("C12/accepted-unverified", fmt.Sprintf("VerifyHashEnvelope returned an error (%v) together with a message for an envelope with: %s", err, cs.name), map[string]any{"data": hx(cs.env)})
			}
		}
	}
	// the caller's Headers with retained unprotected bytes that are empty but not nil (a buffer reset for reuse) next to
	// typed parameters: the envelope is a COSE_Sign1 with a map in the unprotected position, accepted by VerifyHashEnvelope
	for ri, raw := range [][]byte{{}, make([]byte, 0, 16), nil} {
		h := cose.Headers{Protected: cose.ProtectedHeader{cose.HeaderLabelAlgorithm: cose.AlgorithmES256}, Unprotected: cose.UnprotectedHeader{int64(4): []byte("kid")}, RawUnprotected: raw, RawProtected: pick(r, [][]byte{nil, {}})}
		out, err := cose.SignHashEnvelope(nil, &spySigner{alg: -7, kind: SOk, sig: []byte{1, 2}}, h, cose.HashEnvelopePayload{HashAlgorithm: cose.AlgorithmSHA256, HashValue: make([]byte, 32)})
		c.Eval("empty-non-nil-raw-buckets", fmt.Sprint(ri), true)
		if err != nil {
			continue
		}
		rep := map[string]any{"out": hx(out), "raw_unprotected_nil": raw == nil}
		if w, perr := refParseFull(out); perr != nil || len(w.Kids) != 1 || len(w.Kids[0].Kids) != 4 || w.Kids[0].Kids[1].Maj != 5 {
			c.Fail("C12/not-a-sign1", "SignHashEnvelope returned bytes whose unprotected position does not hold a map: "+hx(out), rep)
			continue
		}
		if m, verr := cose.VerifyHashEnvelope(&spyVerifier{alg: -7}, out); verr != nil || m == nil {
			c.Fail("C12/verify-refused", fmt.Sprintf("an envelope produced from headers whose retained unprotected bytes are empty but not nil is refused: %v", verr), rep)
		} else if kid, _ := m.Headers.Unprotected[int64(4)].([]byte); string(kid) != "kid" {
			c.Fail("C12/not-the-given-values", "the caller's unprotected kid is not in the envelope", rep)
		}
	}
	// envelopes whose buckets hold 0 .. 40 additional parameters (the protected one crosses 15 / 16 / 23 / 24 entries,
	// where the map head changes its form): what SignHashEnvelope produces, VerifyHashEnvelope accepts
	for _, where := range []string{"protected", "unprotected", "both"} {
		for extra := 0; extra <= 40; extra++ {
			h := cose.Headers{Protected: cose.ProtectedHeader{cose.HeaderLabelAlgorithm: cose.AlgorithmES256}, Unprotected: cose.UnprotectedHeader{}}
			for j := 0; j < extra; j++ {
				if where != "unprotected" {
					h.Protected[int64(-70200-j)] = int64(j)
				}
				if where != "protected" {
					h.Unprotected[int64(-70300-j)] = int64(j)
				}
			}
			hv := r.Bytes(32)
			sg := &spySigner{alg: -7, kind: SOk, sig: []byte{1, 2}}
			out, err := cose.SignHashEnvelope(nil, sg, h, cose.HashEnvelopePayload{HashAlgorithm: cose.AlgorithmSHA256, HashValue: hv, Location: "l", PreimageContentType: "a/b"})
			c.Eval("many-parameters/"+where, fmt.Sprint(extra), true)
			if err != nil {
				c.Fail("C12/sign-refused", fmt.Sprintf("SignHashEnvelope refused headers with %d additional parameters (%s): %v", extra, where, err), map[string]any{"extra": extra, "where": where})
				continue
			}
			m, verr := cose.VerifyHashEnvelope(&spyVerifier{alg: -7}, out)
			if verr != nil || m == nil {
				c.Fail("C12/verify-refused", fmt.Sprintf("an envelope produced by SignHashEnvelope with %d additional parameters (%s) is refused by VerifyHashEnvelope: %v", extra, where, verr), map[string]any{"extra": extra, "where": where, "out": hx(trimTo(out, 300))})
			} else if !bytes.Equal(m.Payload, hv) {
				c.Fail("C12/not-the-given-values", "VerifyHashEnvelope returns another digest", map[string]any{"extra": extra, "where": where})
			}
		}
	}
	// envelopes with a real signature of the right key over the right structure, but not a signature of the algorithm the
	// protected bucket names: RSASSA-PSS with another salt length than the digest length (RFC 8230 section 2), ECDSA
	// over the digest of another hash: no message is returned
	for _, k := range realKeySet(r) {
		pcontent := wMap(-1, wInt(1, -1), wInt(int64(k.alg), -1), wInt(258, -1), wInt(-16, -1)).Ser()
		digest := r.Bytes(32)
		tbs := refArray(refTstr("Signature1"), refBstr(pcontent), refBstr(nil), refBstr(digest))
		env := func(sig []byte) []byte {
			return wTag(18, -1, wArr(-1, wBstr(pcontent, -1), wMap(-1), wBstr(digest, -1), wBstr(sig, -1))).Ser()
		}
		good := refSign(r, k, tbs)
		if _, err := cose.VerifyHashEnvelope(k.verifier(), env(good)); err != nil {
			c.Fail("C12/verify-refused", "an envelope signed by the standard library over the RFC structure is refused: "+err.Error(), map[string]any{"alg": k.alg.String(), "data": hx(env(good))})
			continue
		}
		h := algHash(k.alg)
		type odd struct {
			what string
			sig  []byte
		}
		var odds []odd
		switch pk := k.priv.(type) {
		case *rsa.PrivateKey:
			for _, salt := range []int{0, 1, 20, h.Size() - 1, h.Size() + 1, rsa.PSSSaltLengthAuto} {
				if sig, err := rsa.SignPSS(r, pk, h, digestOf(h, tbs), &rsa.PSSOptions{SaltLength: salt, Hash: h}); err == nil {
					odds = append(odds, odd{fmt.Sprintf("RSASSA-PSS with salt length %d (digest length %d)", salt, h.Size()), sig})
				}
			}
		case *ecdsa.PrivateKey:
			for _, oh := range []crypto.Hash{crypto.SHA256, crypto.SHA384, crypto.SHA512} {
				if oh == h {
					continue
				}
				if rr, ss, err := ecdsa.Sign(r, pk, digestOf(oh, tbs)); err == nil {
					n := (pk.Curve.Params().N.BitLen() + 7) / 8
					sig := make([]byte, 2*n)
					rr.FillBytes(sig[:n])
					ss.FillBytes(sig[n:])
					odds = append(odds, odd{fmt.Sprintf("ECDSA over the %v digest", oh), sig})
				}
			}
		}
		for _, o := range odds {
			c.Eval("signature-of-another-algorithm/"+k.alg.String(), o.what, true)
			if m, err := cose.VerifyHashEnvelope(k.verifier(), env(o.sig)); err == nil || m != nil {
				c.Fail("C12/accepted-unverified", fmt.Sprintf("VerifyHashEnvelope returned a message for an envelope under %v whose signature is %s", k.alg, o.what), map[string]any{"alg": k.alg.String(), "data": hx(trimTo(env(o.sig), 400))})
			}
		}
	}
	// digest length x hash algorithm, both directions, against the registered digest sizes (SHA-256: 32, SHA-384: 48,
	// SHA-512: 64 octets)
	for _, ha := range []struct {
		alg  cose.Algorithm
		size int
	}{{cose.AlgorithmSHA256, 32}, {cose.AlgorithmSHA384, 48}, {cose.AlgorithmSHA512, 64}} {
		for _, ln := range []int{0, 1, 31, 32, 33, 47, 48, 49, 63, 64, 65, 96, 128} {
			hv := r.Bytes(ln)
			sg := &spySigner{alg: -7, kind: SOk, sig: []byte{1, 2}}
			h := cose.Headers{Protected: cose.ProtectedHeader{cose.HeaderLabelAlgorithm: cose.AlgorithmES256}}
			op, obs, _, err, p := execSignHE(sg, h, cose.HashEnvelopePayload{HashAlgorithm: ha.alg, HashValue: hv})
			rep := map[string]any{"hash_alg": int64(ha.alg), "digest_len": ln}
			if p {
				c.Fail("C12/panic", "SignHashEnvelope panicked", rep)
				continue
			}
			addCase(c, "digest-size/sign", op, obs, true)
			if (err == nil) != (ln == ha.size) {
				c.Fail("C12/digest-size", fmt.Sprintf("SignHashEnvelope with %v and a %d-octet digest: err=%v; the digest size of that algorithm is %d", ha.alg, ln, err, ha.size), rep)
			}
			// the same envelope made by another implementation, offered to VerifyHashEnvelope
			pm := wMap(-1, wInt(1, -1), wInt(-7, -1), wInt(258, -1), wInt(int64(ha.alg), -1))
			env := wTag(18, -1, wArr(-1, wBstr(pm.Ser(), -1), wMap(-1), wBstr(hv, -1), wBstr([]byte{1, 2}, -1))).Ser()
			vop, vobs, _, verr, vp := execVerifyHE(&spyVerifier{alg: -7}, env)
			if vp {
				c.Fail("C12/panic", "VerifyHashEnvelope panicked", rep)
				continue
			}
			addCase(c, "digest-size/verify", vop, vobs, true)
			if (verr == nil) != (ln == ha.size) {
				c.Fail("C12/digest-size", fmt.Sprintf("VerifyHashEnvelope with %v and a %d-octet digest: err=%v; the digest size of that algorithm is %d", ha.alg, ln, verr, ha.size), rep)
			}
		}
	}
	for i := 0; i < n; i++ {
		alg := pick(r, []cose.Algorithm{-7, -37, -8})
		cfg := BucketCfg{Spell: r.Bool(), Max: 4, Csig: 0, Invalid: r.Chance(1, 8)}
		h := genGoHeaders(r, cfg, alg, r.Chance(2, 3), r.Chance(1, 5))
		// plant governed labels in the base headers now and then
		if r.Chance(1, 4) {
			l := pick(r, []int64{3, 258, 259, 260})
			v := pick(r, []any{"text/plain", int64(-16), uint(5), true, nil, nil})
			if r.Bool() {
				if h.Protected == nil {
					h.Protected = cose.ProtectedHeader{}
				}
				h.Protected[spellInt(r, l, cfg.Spell)] = v
			} else {
				if h.Unprotected == nil {
					h.Unprotected = cose.UnprotectedHeader{}
				}
				h.Unprotected[spellInt(r, l, cfg.Spell)] = v
			}
		}
		ha := pick(r, hashAlgs)
		ln := pick(r, []int{0, 1, 31, 32, 33, 47, 48, 49, 63, 64, 65, 70, 32, 32, 48, 64})
		hp := cose.HashEnvelopePayload{HashAlgorithm: ha, HashValue: r.Bytes(ln)}
		if r.Chance(1, 12) {
			hp.HashValue = nil
		}
		switch r.Intn(8) {
		case 4:
			hp.PreimageContentType = *big.NewInt(42) // a bignum is not a uint
		case 5:
			hp.PreimageContentType = big.NewInt(42)
		case 0:
			hp.PreimageContentType = "application/json"
		case 1:
			hp.PreimageContentType = uint(50)
		case 2:
			hp.PreimageContentType = int64(-1)
		case 3:
			hp.PreimageContentType = []byte{1}
		}
		if r.Bool() {
			hp.Location = pick(r, []string{"https://example.com/x", "loc", "é"})
		}
		beforeP, beforeU := deepCopyMap(h.Protected), deepCopyMap(h.Unprotected)
		sg := &spySigner{alg: alg, kind: SOk, sig: genSigBytes(r)}
		op, obs, out, err, p := execSignHE(sg, h, hp)
		rep := map[string]any{"op": trunc(op, 900)}
		if p {
			c.Fail("C12/panic", "SignHashEnvelope panicked", rep)
			continue
		}
		addCase(c, "sign", op, obs, err == nil)
		if !reflect.DeepEqual(beforeP, map[any]any(h.Protected)) || !reflect.DeepEqual(beforeU, map[any]any(h.Unprotected)) {
			c.Fail("C12/caller-map-modified", "SignHashEnvelope modified the caller's header maps", rep)
		}
		if err != nil {
			continue
		}
		rawU := len(h.RawUnprotected) > 0
		if rerr := heRulesOnWire(out); rerr != nil {
			key := "C12/nonconforming-envelope-produced"
			if rawU {
				key = "C12/raw-unprotected-not-validated"
			}
			c.Fail(key, "SignHashEnvelope produced an envelope violating the rules: "+rerr.Error()+" in "+hx(out), rep)
			continue
		}
		// the verifier with the matching key accepts it and returns the same values
		vf := &spyVerifier{alg: alg}
		vop, vobs, m, verr, vp := execVerifyHE(vf, out)
		if vp {
			c.Fail("C12/panic", "VerifyHashEnvelope panicked", rep)
			continue
		}
		addCase(c, "verify-own-output", vop, vobs, true)
		if verr != nil {
			var probe cose.Sign1Message
			if probe.UnmarshalCBOR(out) != nil {
				c.Eval("own-output-outside-data-model", hx(out), false)
				continue
			}
			key := "C12/own-envelope-rejected"
			if rawU {
				key = "C12/raw-unprotected-not-validated"
			}
			c.Fail(key, "VerifyHashEnvelope refuses an envelope SignHashEnvelope produced: "+verr.Error(), rep)
			continue
		}
		got, gerr := m.Headers.Protected.PayloadHashAlgorithm()
		if gerr != nil || got != ha || !bytes.Equal(m.Payload, hp.HashValue) {
			c.Fail("C12/values-differ", fmt.Sprintf("returned hash alg %v / value %x differ from what was signed (%v / %x)", got, m.Payload, ha, hp.HashValue), rep)
		}
		if hp.Location != "" && m.Headers.Protected[cose.HeaderLabelPayloadLocation] != hp.Location {
			c.Fail("C12/values-differ", "returned location differs", rep)
		}
		if hp.PreimageContentType != nil {
			want := hp.PreimageContentType
			if u, ok := want.(uint); ok {
				want = int64(u)
			}
			if !reflect.DeepEqual(m.Headers.Protected[cose.HeaderLabelPayloadPreimageContentType], want) {
				c.Fail("C12/values-differ", "returned preimage content type differs", rep)
			}
		}
	}
	// ---- verify side, exhaustively: each governed label in the unprotected bucket of an otherwise good envelope,
	// with every kind of value, alone and next to other parameters ----
	for _, l := range []int64{3, 258, 259, 260} {
		for vi, v := range []*W{wTstr("a/b", -1), wUint(0, -1), wUint(50, -1), wUint(1<<63-1, -1), wUint(1<<63, -1), wUint(1<<64-1, -1), wInt(-16, -1), wInt(-1<<63, -1),
			wNint(1<<64-1, -1), wBstr([]byte{1}, -1), wBool(true), wNull(), wArr(-1), wMap(-1), wFloat64(1.5)} {
			for _, withKid := range []bool{false, true} {
				ukv := []*W{wInt(l, -1), v.Clone()}
				if withKid {
					ukv = append(ukv, wInt(4, -1), wBstr([]byte("kid"), -1))
				}
				t := wTag(18, -1, wArr(-1, wBstr(wMap(-1, wInt(1, -1), wInt(-7, -1), wInt(258, -1), wInt(-16, -1)).Ser(), -1), wMap(-1, ukv...), wBstr(r.Bytes(32), -1), wBstr([]byte{1, 2, 3}, -1)))
				data := t.Ser()
				vf := &spyVerifier{alg: -7}
				op, obs, msg, err, p := execVerifyHE(vf, data)
				if p {
					c.Fail("C12/panic", "VerifyHashEnvelope panicked", map[string]any{"data": hx(data)})
					continue
				}
				addCase(c, fmt.Sprintf("verify/governed-label-unprotected/%d", l), op, obs, true)
				_ = vi
				if err == nil || msg != nil {
					c.Fail("C12/nonconforming-envelope-accepted", fmt.Sprintf("VerifyHashEnvelope accepted an envelope with label %d in the unprotected bucket (value %x)", l, v.Ser()), map[string]any{"data": hx(data)})
				}
			}
		}
	}
	// ---- verify side: the optional parameters with every kind of value, and envelopes without alg: VerifyHashEnvelope
	// has no external data to offer, so a message without a protected alg is never verified, hence never returned ----
	for _, l := range []int64{259, 260} {
		for _, v := range []*W{wNull(), wUndef(), wBool(true), wArr(-1), wMap(-1), wFloat64(1.5), wInt(-1, -1), wBstr([]byte{1}, -1), wTag(2, -1, wBstr([]byte{1}, -1))} {
			t := wTag(18, -1, wArr(-1, wBstr(wMap(-1, wInt(1, -1), wInt(-7, -1), wInt(258, -1), wInt(-16, -1), wInt(l, -1), v.Clone()).Ser(), -1), wMap(-1), wBstr(r.Bytes(32), -1), wBstr([]byte{1, 2, 3}, -1)))
			data := t.Ser()
			op, obs, msg, err, p := execVerifyHE(&spyVerifier{alg: -7}, data)
			if p {
				c.Fail("C12/panic", "VerifyHashEnvelope panicked", map[string]any{"data": hx(data)})
				continue
			}
			addCase(c, fmt.Sprintf("verify/optional-parameter-type/%d", l), op, obs, true)
			if err == nil || msg != nil {
				c.Fail("C12/nonconforming-envelope-accepted", fmt.Sprintf("VerifyHashEnvelope accepted an envelope whose parameter %d is %x", l, v.Ser()), map[string]any{"data": hx(data)})
			}
		}
	}
	for _, pkv := range [][]*W{{wInt(258, -1), wInt(-16, -1)}, {wInt(258, -1), wInt(-16, -1), wInt(260, -1), wTstr("loc", -1)}, {wInt(258, -1), wInt(-16, -1), wInt(4, -1), wBstr([]byte("kid"), -1)}} {
		for _, sig := range [][]byte{{1, 2, 3}, bytes.Repeat([]byte{0x42}, 64)} {
			t := wTag(18, -1, wArr(-1, wBstr(wMap(-1, pkv...).Ser(), -1), wMap(-1), wBstr(r.Bytes(32), -1), wBstr(sig, -1)))
			data := t.Ser()
			vf := &spyVerifier{alg: -7}
			op, obs, msg, err, p := execVerifyHE(vf, data)
			if p {
				c.Fail("C12/panic", "VerifyHashEnvelope panicked", map[string]any{"data": hx(data)})
				continue
			}
			addCase(c, "verify/no-alg", op, obs, true)
			if err == nil || msg != nil {
				c.Fail("C12/accepted-without-valid-signature", fmt.Sprintf("VerifyHashEnvelope returned a message for an envelope without alg (its verifier was consulted %d times)", len(vf.calls)), map[string]any{"data": hx(data)})
			}
		}
	}
	// ---- verify side: edits of a well-formed envelope ----
	m := 150
	if thorough {
		m = 5000
	}
	for i := 0; i < m; i++ {
		ha := pick(r, []int64{-16, -43, -44, -15, 5})
		size := map[int64]int{-16: 32, -43: 48, -44: 64}[ha]
		if size == 0 || r.Chance(1, 5) {
			size = pick(r, []int{0, 31, 32, 33, 48, 64})
		}
		pkv := []*W{wInt(1, -1), wInt(-7, -1), wInt(258, -1), wInt(ha, -1)}
		if r.Bool() {
			pkv = append(pkv, wInt(259, -1), pick(r, []*W{wTstr("a/b", -1), wUint(50, -1), wInt(-1, -1), wBstr([]byte{1}, -1), wTag(2, -1, wBstr([]byte{42}, -1)), wTag(3, -1, wBstr([]byte{1}, -1)), wNull(), wUndef()}))
		}
		if r.Bool() {
			pkv = append(pkv, wInt(260, -1), pick(r, []*W{wTstr("loc", -1), wTstr("loc", -1), wUint(1, -1), wNull(), wBool(false)}))
		}
		ukv := []*W{wInt(4, -1), wBstr([]byte("kid"), -1)}
		class := "wellformed"
		switch r.Intn(9) {
		case 0: // move a governed label to the unprotected bucket
			idx := 2 * (1 + r.Intn(len(pkv)/2-1))
			ukv = append(ukv, pkv[idx], pkv[idx+1])
			pkv = append(pkv[:idx], pkv[idx+2:]...)
			class = "moved-to-unprotected"
		case 1:
			// ... whatever its value: text, integers up to the largest the wire can carry, other kinds
			ukv = append(ukv, wInt(pick(r, []int64{3, 258, 259, 260}), -1), pick(r, []*W{wTstr("a/b", -1), wTstr("a/b", -1), wUint(1<<64-1, -1), wUint(1<<63, -1), wInt(-16, -1), wBool(true), wArr(-1), wInt(-1<<63, -1)}))
			class = "added-to-unprotected"
		case 2:
			pkv = append(pkv, wInt(3, -1), wTstr("a/b", -1))
			class = "content-type-in-protected"
		case 3:
			pkv = append(pkv[:2], pkv[4:]...)
			class = "hash-alg-removed"
		case 4:
			pkv[3] = pick(r, []*W{wTstr("SHA-256", -1), wBstr([]byte{1}, -1), wBool(true)})
			class = "hash-alg-mistyped"
		}
		t := wTag(18, -1, wArr(-1, wBstr(wMap(-1, pkv...).Ser(), -1), wMap(-1, ukv...), wBstr(r.Bytes(size), -1), wBstr([]byte{1, 2, 3}, -1)))
		if r.Chance(1, 10) {
			t.Kids[0].Kids[2] = wNull()
			class += "+nil-payload"
		}
		data := t.Ser()
		verr := pick(r, []error{nil, nil, nil, cose.ErrVerification})
		vf := &spyVerifier{alg: pick(r, []cose.Algorithm{-7, -7, -7, -35}), err: verr}
		op, obs, msg, err, p := execVerifyHE(vf, data)
		if p {
			c.Fail("C12/panic", "VerifyHashEnvelope panicked", map[string]any{"data": hx(data)})
			continue
		}
		addCase(c, "verify/"+class, op, obs, true)
		if err == nil {
			if msg == nil || verr != nil || vf.alg != -7 {
				c.Fail("C12/accepted-without-valid-signature", "VerifyHashEnvelope returned a message although the signature check did not pass", map[string]any{"data": hx(data)})
			}
			if rerr := heRulesOnWire(data); rerr != nil {
				c.Fail("C12/nonconforming-envelope-accepted", "VerifyHashEnvelope accepted an envelope violating the rules: "+rerr.Error(), map[string]any{"data": hx(data)})
			}
		} else if msg != nil {
			c.Fail("C12/message-returned-with-error", "VerifyHashEnvelope returned both a message and an error", map[string]any{"data": hx(data)})
		}
	}
}

// ---------- C13 ----------

type hvalue struct {
	name string
	goV  any
	wire *W
}

func c13Values() []hvalue {
	cs := cose.NewCountersignature()
	cs.Headers.Protected.SetAlgorithm(-7)
	cs.Signature = []byte{1, 2}
	csW := wArr(-1, wBstr([]byte{0xa1, 0x01, 0x26}, -1), wMap(-1), wBstr([]byte{1, 2}, -1))
	return []hvalue{
		{"uint", int64(7), wUint(7, -1)},
		{"nint", int64(-7), wInt(-7, -1)},
		{"uint-typed", uint16(7), wUint(7, -1)},
		{"uint8-typed", uint8(5), wUint(5, -1)},
		{"uint-typed-plain", uint(24), wUint(24, -1)},
		{"uint64-typed", uint64(300), wUint(300, -1)},
		{"int8-typed", int8(-7), wInt(-7, -1)},
		{"Algorithm-typed", cose.AlgorithmES256, wInt(-7, -1)},
		{"tstr-media", "text/plain", wTstr("text/plain", -1)},
		{"tstr-plain", "plain", wTstr("plain", -1)},
		{"tstr-empty", "", wTstr("", -1)},
		{"tstr-space", " a/b", wTstr(" a/b", -1)},
		{"bstr", []byte{1, 2}, wBstr([]byte{1, 2}, -1)},
		{"bstr-empty", []byte{}, wBstr([]byte{}, -1)},
		{"bstr-nil", []byte(nil), nil}, // a nil byte slice would be written as null: not a bstr (F12)
		{"bool", true, wBool(true)},
		{"null", nil, wNull()},
		{"array-empty", []any{}, wArr(-1)},
		{"array-labels", []any{int64(4)}, wArr(-1, wUint(4, -1))},
		{"array-missing", []any{int64(77)}, wArr(-1, wUint(77, -1))},
		{"array-badlabel", []any{true}, wArr(-1, wBool(true))},
		{"map", map[any]any{int64(1): int64(2)}, wMap(-1, wUint(1, -1), wUint(2, -1))},
		{"countersignature", cs, csW},
		{"countersignature-list", []*cose.Countersignature{cs}, wArr(-1, csW)},
		{"countersignature-list-of-2", []*cose.Countersignature{cs, cs}, wArr(-1, csW, csW)},
		{"countersignature-list-of-3", []*cose.Countersignature{cs, cs, cs}, wArr(-1, csW, csW, csW)},
		{"countersignature-list-of-4", []*cose.Countersignature{cs, cs, cs, cs}, wArr(-1, csW, csW, csW, csW)},
		{"countersignature-list-empty", []*cose.Countersignature{}, wArr(-1)},
		{"countersignature-list-nil", []*cose.Countersignature{nil}, wArr(-1, wNull())},
		{"float", 1.5, wFloat64(1.5)},
		{"bignum-pos", *big.NewInt(42), wTag(2, -1, wBstr([]byte{42}, -1))},
		{"bignum-neg", *big.NewInt(-7), wTag(3, -1, wBstr([]byte{6}, -1))},
		{"bignum-ptr", big.NewInt(42), nil},
		// Go-only kinds: byte-slice-like types that are not []byte; what they put on the wire is not (always) a bstr
		{"named-byte-slice", namedBytes{1, 2}, nil},
		{"raw-cbor-uint", cbor.RawMessage{0x01}, nil},
		{"raw-cbor-tstr", cbor.RawMessage{0x61, 0x61}, nil},
		{"raw-cbor-bstr", cbor.RawMessage{0x41, 0x61}, nil},
		{"cbor-bytestring", cbor.ByteString("ab"), nil},
		{"byte-array", [2]byte{1, 2}, nil},
		{"named-string", namedString("a/b"), nil},
		{"named-int", namedInt(7), nil},
		// byte strings and typed slices whose elements happen to be the numbers of labels that are present (4 = kid is
		// always there, 2 = crit itself): not an array of labels
		{"bstr-naming-kid", []byte{4}, wBstr([]byte{4}, -1)},
		{"bstr-naming-kid-and-crit", []byte{4, 2}, wBstr([]byte{4, 2}, -1)},
		{"named-bytes-naming-kid", namedBytes{4}, nil},
		{"raw-cbor-uint-4", cbor.RawMessage{0x04}, nil},
		{"int64-slice-naming-kid", []int64{4}, nil},
		{"string-slice", []string{"a"}, nil},
		{"tstr-naming-kid", "\x04", wTstr("\x04", -1)},
	}
}

type namedBytes []byte
type namedString string
type namedInt int64

func runC13(c *Collector, r *Rng, thorough bool) {
	c.Rule = "exhaustive grid: 16 registered labels + 5 unknown labels (small/large/negative int, text) x 22 value kinds x {protected, unprotected} x {encode, decode} x 11 Go spellings of the label on the encode side (kid 4 always present so that crit can refer to it); all IV / Partial IV pairs within and across buckets at message level; crit x present-label combinations; the encode verdict, the decode verdict of the same header set, the verdict for every spelling and the Coq model must all agree; an accepted set must satisfy RFC 9052 3.1 by the harness's own checker; non-trivial = the rule switch was reached; distinct by op term"
	c.Exhaustive = true
	labels := []int64{1, 2, 3, 4, 5, 6, 7, 9, 11, 12, 15, 16, 32, 33, 34, 35, 258, 1000, -1, 65536}
	spell := []func(int64) (any, bool){
		func(n int64) (any, bool) { return n, true },
		func(n int64) (any, bool) { return int(n), true },
		func(n int64) (any, bool) { return int8(n), n >= -128 && n <= 127 },
		func(n int64) (any, bool) { return int16(n), n >= -32768 && n <= 32767 },
		func(n int64) (any, bool) { return int32(n), true },
		func(n int64) (any, bool) { return uint(n), n >= 0 },
		func(n int64) (any, bool) { return uint8(n), n >= 0 && n <= 255 },
		func(n int64) (any, bool) { return uint16(n), n >= 0 && n <= 65535 },
		func(n int64) (any, bool) { return uint32(n), n >= 0 },
		func(n int64) (any, bool) { return uint64(n), n >= 0 },
	}
	vals := c13Values()
	for _, protected := range []bool{true, false} {
		for _, l := range labels {
			for _, v := range vals {
				// ---- encode, every spelling ----
				var verdicts []bool
				var first string
				for si, sp := range spell {
					key, ok := sp(l)
					if !ok {
						continue
					}
					if !thorough && si > 0 && (int(l)+si+len(v.name))%2 == 0 {
						continue
					}
					m := map[any]any{key: v.goV}
					if l != 4 {
						m[int64(4)] = []byte("kid")
					}
					var op, obs string
					var err error
					var p bool
					var out []byte
					if protected {
						op, obs, out, err, p = execEncProt(cose.ProtectedHeader(m))
					} else {
						op, obs, out, err, p = execEncUnprot(cose.UnprotectedHeader(m))
					}
					_ = out
					if p {
						c.Fail("C13/panic", "header encoder panicked", map[string]any{"op": trunc(op, 500)})
						continue
					}
					addCase(c, fmt.Sprintf("encode/protected=%v", protected), op, obs, true)
					verdicts = append(verdicts, err == nil)
					if si == 0 {
						first = op
					}
					if err == nil {
						// whatever is produced must obey 3.1 (harness's own checker on the bytes)
						kind := "DUnprot"
						if protected {
							kind = "DProt"
						}
						if rerr := refMessageOK(kind, out); rerr != nil {
							c.Fail("C13/encoded-violates-3.1", "encoder produced a header violating RFC 9052 3.1: "+rerr.Error(), map[string]any{"op": trunc(op, 500), "out": hx(out)})
						}
					}
				}
				for _, vd := range verdicts[1:] {
					if vd != verdicts[0] {
						c.Fail("C13/spelling-dependent", "the encode verdict depends on the Go integer type spelling the label", map[string]any{"op": trunc(first, 500)})
						break
					}
				}
				// ---- decode the same header set ----
				if v.wire == nil {
					continue
				}
				kv := []*W{wInt(l, -1), v.wire.Clone()}
				if l != 4 {
					kv = append(kv, wInt(4, -1), wBstr([]byte("kid"), -1))
				}
				var data []byte
				kind := "DUnprot"
				if protected {
					kind = "DProt"
					data = wBstr(wMap(-1, kv...).Ser(), -1).Ser()
				} else {
					data = wMap(-1, kv...).Ser()
				}
				d := decodeCase(c, fmt.Sprintf("decode/protected=%v", protected), kind, data)
				if d.paniced {
					continue
				}
				if len(verdicts) > 0 && (d.err == nil) != verdicts[0] && v.name != "null" {
					// `null` on the wire decodes to untyped nil, which is the same in-memory value: compared too, except
					// that for []byte-typed positions Go's typed nil does not exist on the wire
					c.Fail("C13/direction-asymmetry", fmt.Sprintf("label %d value %s in %s bucket: encode accepted=%v, decode accepted=%v", l, v.name, kind, verdicts[0], d.err == nil), map[string]any{"data": hx(data), "op": trunc(first, 400)})
				}
				if d.err == nil {
					if rerr := refMessageOK(kind, data); rerr != nil {
						c.Fail("C13/decoded-violates-3.1", "decoder accepted a header violating RFC 9052 3.1: "+rerr.Error(), map[string]any{"data": hx(data)})
					}
				}
			}
		}
	}
	// ---- a bucket holding exactly one governed parameter whose value is one octet (every octet value for alg, the
	// heads of every major type for the others: integers, empty and truncated strings, arrays, maps, tags, simple
	// values, break): the shortest headers there are, in the protected and the unprotected position and inside
	// messages - accepted only when well-formed and within section 3.1 ----
	{
		few := []byte{0x00, 0x01, 0x17, 0x18, 0x20, 0x26, 0x37, 0x38, 0x40, 0x41, 0x57, 0x58, 0x60, 0x61, 0x77, 0x80, 0x81, 0x9f, 0xa0, 0xa1, 0xbf, 0xc0, 0xc2, 0xd8, 0xe0, 0xf4, 0xf5, 0xf6, 0xf7, 0xf8, 0xf9, 0xff}
		for _, l := range []byte{1, 2, 3, 4, 5, 6, 7, 9, 11, 12, 16} {
			var octets []byte
			if l == 1 {
				for x := 0; x < 256; x++ {
					octets = append(octets, byte(x))
				}
			} else {
				octets = few
			}
			for _, x := range octets {
				content := []byte{0xa1, l, x}
				pb := append([]byte{0x43}, content...)
				cases := []struct {
					kind string
					data []byte
				}{
					{"DProt", pb},
					{"DUnprot", content},
				}
				if l == 1 || x >= 0x40 {
					cases = append(cases,
						struct {
							kind string
							data []byte
						}{"DSign1", append(append([]byte{0xd2, 0x84}, pb...), 0xa0, 0x41, 0x70, 0x41, 0x01)},
						struct {
							kind string
							data []byte
						}{"DSignature", append(append([]byte{0x83}, pb...), 0xa0, 0x41, 0x01)})
				}
				for _, cs := range cases {
					d := decodeCase(c, fmt.Sprintf("decode/one-octet-value/label-%d", l), cs.kind, cs.data)
					if d.paniced {
						c.Fail("C13/panic", "decoder panicked", map[string]any{"data": hx(cs.data)})
						continue
					}
					if d.err == nil {
						if rerr := refMessageOK(cs.kind, cs.data); rerr != nil {
							c.Fail("C13/decoded-violates-3.1", "decoder accepted a header violating RFC 9052 3.1: "+rerr.Error(), map[string]any{"data": hx(cs.data), "kind": cs.kind})
						}
					}
				}
			}
		}
	}
	// ---- text labels and non-label keys on the encode side ----
	for _, k := range []any{"", "a", "alg", 1.5, true, nil, []byte("x")} {
		func() {
			defer func() { recover() }() // unhashable keys cannot be put in a Go map
			m := map[any]any{k: int64(1)}
			op, obs, _, _, p := execEncProt(cose.ProtectedHeader(m))
			if p {
				c.Fail("C13/panic", "header encoder panicked", map[string]any{"op": op})
				return
			}
			addCase(c, "encode/label-kinds", op, obs, true)
			op, obs, _, _, _ = execEncUnprot(cose.UnprotectedHeader(m))
			addCase(c, "encode/label-kinds", op, obs, true)
		}()
	}
	// ---- one label under two Go integer kinds, for every label around the small-integer and width boundaries ----
	for _, l := range []int64{0, 1, 7, 8, 15, 16, 23, 24, 31, 32, 33, 62, 63, 64, 65, 66, 100, 127, 128, 129, 255, 256, 257, 1000, 65535, 65536} {
		for _, protected := range []bool{true, false} {
			var sps []any
			for _, sp := range spell {
				if k, ok := sp(l); ok {
					sps = append(sps, k)
				}
			}
			bad := ""
			for a := 0; a < len(sps) && bad == ""; a++ {
				for b := a + 1; b < len(sps) && bad == ""; b++ {
					v := any(int64(1))
					if l == 4 || l == 5 || l == 6 || l == 9 || l == 12 {
						v = []byte{1}
					} else if l == 2 || l == 7 || l == 11 {
						continue
					}
					m := map[any]any{sps[a]: v, sps[b]: v}
					var err error
					if protected {
						_, err = cose.ProtectedHeader(m).MarshalCBOR()
					} else {
						_, err = cose.UnprotectedHeader(m).MarshalCBOR()
					}
					if err == nil {
						bad = fmt.Sprintf("%T and %T", sps[a], sps[b])
					}
				}
			}
			c.Eval(fmt.Sprintf("label-twice-by-spelling/protected=%v", protected), fmt.Sprint(l), true)
			if bad != "" {
				c.Fail("C13/duplicate-label-encoded", fmt.Sprintf("label %d present twice (as %s) is accepted by the encoder", l, bad), map[string]any{"label": l, "protected": protected})
			}
		}
	}
	// ---- duplicates by spelling ----
	for _, pair := range [][2]any{{int64(42), int8(42)}, {int8(42), uint16(42)}, {int32(1000), uint32(1000)}, {int(1), int64(1)}, {uint(5), int(5)}} {
		m := map[any]any{pair[0]: int64(1), pair[1]: int64(1)}
		op, obs, out, err, _ := execEncProt(cose.ProtectedHeader(m))
		addCase(c, "encode/duplicate-by-spelling", op, obs, true)
		if err == nil {
			c.Fail("C13/duplicate-label-encoded", fmt.Sprintf("two spellings of one label were both encoded: %x", out), map[string]any{"op": op})
		}
		op, obs, out, err, _ = execEncUnprot(cose.UnprotectedHeader(m))
		addCase(c, "encode/duplicate-by-spelling", op, obs, true)
		if err == nil {
			c.Fail("C13/duplicate-label-encoded", fmt.Sprintf("two spellings of one label were both encoded: %x", out), map[string]any{"op": op})
		}
	}
	// ---- IV / Partial IV pairs, same and across buckets, at message level, both directions ----
	ivs := []struct {
		name string
		p, u []int64
	}{{"none", nil, nil}, {"p5", []int64{5}, nil}, {"p6", []int64{6}, nil}, {"u5", nil, []int64{5}}, {"u6", nil, []int64{6}},
		{"p5p6", []int64{5, 6}, nil}, {"u5u6", nil, []int64{5, 6}}, {"p5u6", []int64{5}, []int64{6}}, {"p6u5", []int64{6}, []int64{5}},
		{"p5u5", []int64{5}, []int64{5}}, {"p6u6", []int64{6}, []int64{6}}}
	for _, iv := range ivs {
		for si, sp := range spell {
			if !thorough && si%3 != 0 {
				continue
			}
			h := cose.Headers{Protected: cose.ProtectedHeader{cose.HeaderLabelAlgorithm: cose.AlgorithmES256}, Unprotected: cose.UnprotectedHeader{}}
			for _, l := range iv.p {
				k, _ := sp(l)
				h.Protected[k] = []byte{1, 2, 3}
			}
			for _, l := range iv.u {
				k, _ := sp(l)
				h.Unprotected[k] = []byte{4, 5, 6}
			}
			bad := len(iv.p)+len(iv.u) == 2 && iv.name != "p5u5" && iv.name != "p6u6"
			typed := h
			for _, rawMode := range []string{"typed", "raw-protected-kept", "raw-unprotected-kept"} {
				h := cloneHeaders(typed)
				// a layer that was decoded earlier keeps the raw bytes of a bucket next to the typed map; the rule
				// concerns the layer, whichever representation of a bucket is going to be emitted
				switch rawMode {
				case "raw-protected-kept":
					b, err := typed.MarshalProtected()
					if err != nil {
						continue
					}
					h.RawProtected = b
				case "raw-unprotected-kept":
					b, err := typed.MarshalUnprotected()
					if err != nil {
						continue
					}
					h.RawUnprotected = b
				}
				for _, structure := range []string{"sign1", "signature", "signmsg", "signmsg-signer", "signmsg-second-signer", "nested-countersignature", "countersignature-in-list"} {
					var op, obs string
					var err error
					switch structure {
					case "sign1":
						op, obs, _, err, _ = execEncSign1(true, &cose.Sign1Message{Headers: h, Payload: []byte("p"), Signature: []byte{1}})
					case "signature":
						op, obs, _, err, _ = execEncSignature(&cose.Signature{Headers: h, Signature: []byte{1}})
					case "signmsg":
						op, obs, _, err, _ = execEncSignMsg(&cose.SignMessage{Headers: h, Payload: []byte("p"), Signatures: []*cose.Signature{{Headers: cose.Headers{Protected: cose.ProtectedHeader{cose.HeaderLabelAlgorithm: cose.AlgorithmES256}}, Signature: []byte{1}}}})
					case "signmsg-signer":
						op, obs, _, err, _ = execEncSignMsg(&cose.SignMessage{Headers: cose.Headers{Protected: cose.ProtectedHeader{}}, Payload: []byte("p"), Signatures: []*cose.Signature{{Headers: h, Signature: []byte{1}}}})
					case "signmsg-second-signer":
						op, obs, _, err, _ = execEncSignMsg(&cose.SignMessage{Headers: cose.Headers{Protected: cose.ProtectedHeader{}}, Payload: []byte("p"), Signatures: []*cose.Signature{{Headers: cose.Headers{Protected: cose.ProtectedHeader{cose.HeaderLabelAlgorithm: cose.AlgorithmES256}}, Signature: []byte{1}}, {Headers: h, Signature: []byte{2}}}})
					case "nested-countersignature":
						op, obs, _, err, _ = execEncSign1(true, &cose.Sign1Message{Headers: cose.Headers{Protected: cose.ProtectedHeader{cose.HeaderLabelAlgorithm: cose.AlgorithmES256}, Unprotected: cose.UnprotectedHeader{int64(11): &cose.Countersignature{Headers: h, Signature: []byte{3}}}}, Payload: []byte("p"), Signature: []byte{1}})
					case "countersignature-in-list":
						op, obs, _, err, _ = execEncSign1(true, &cose.Sign1Message{Headers: cose.Headers{Protected: cose.ProtectedHeader{cose.HeaderLabelAlgorithm: cose.AlgorithmES256}, Unprotected: cose.UnprotectedHeader{int64(7): []*cose.Countersignature{{Headers: cose.Headers{Protected: cose.ProtectedHeader{cose.HeaderLabelAlgorithm: cose.AlgorithmES256}}, Signature: []byte{4}}, {Headers: h, Signature: []byte{3}}}}}, Payload: []byte("p"), Signature: []byte{1}})
					}
					addCase(c, "iv/"+iv.name+"/"+structure+"/"+rawMode, op, obs, true)
					if (err != nil) != bad {
						c.Fail("C13/iv-encode", fmt.Sprintf("IV/Partial IV combination %s in %s (%s): encode refused=%v, expected refused=%v", iv.name, structure, rawMode, err != nil, bad), map[string]any{"op": trunc(op, 600)})
					}
				}
			}
		}
		// decode direction
		var pkv, ukv []*W
		pkv = append(pkv, wInt(1, -1), wInt(-7, -1))
		for _, l := range iv.p {
			pkv = append(pkv, wInt(l, -1), wBstr([]byte{1, 2, 3}, -1))
		}
		for _, l := range iv.u {
			ukv = append(ukv, wInt(l, -1), wBstr([]byte{4, 5, 6}, -1))
		}
		bad := len(iv.p)+len(iv.u) == 2 && iv.name != "p5u5" && iv.name != "p6u6"
		p, u := wBstr(wMap(-1, pkv...).Ser(), -1), wMap(-1, ukv...)
		for kind, t := range map[string]*W{
			"DSign1":                         wTag(18, -1, wArr(-1, p, u, wBstr([]byte("p"), -1), wBstr([]byte{1}, -1))),
			"DSign1U":                        wArr(-1, p, u, wBstr([]byte("p"), -1), wBstr([]byte{1}, -1)),
			"DSignature":                     wArr(-1, p, u, wBstr([]byte{1}, -1)),
			"DSignMsg":                       wTag(98, -1, wArr(-1, p, u, wBstr([]byte("p"), -1), wArr(-1, wArr(-1, wBstr([]byte{0xa1, 1, 0x26}, -1), wMap(-1), wBstr([]byte{1}, -1))))),
			"DSignMsg/signer":                wTag(98, -1, wArr(-1, wBstr(nil, -1), wMap(-1), wBstr([]byte("p"), -1), wArr(-1, wArr(-1, p, u, wBstr([]byte{1}, -1))))),
			"DSign1/nested-countersignature": wTag(18, -1, wArr(-1, wBstr([]byte{0xa1, 1, 0x26}, -1), wMap(-1, wInt(7, -1), wArr(-1, p, u, wBstr([]byte{1}, -1))), wBstr([]byte("p"), -1), wBstr([]byte{1}, -1))),
		} {
			k := kind
			if i := bytes.IndexByte([]byte(kind), '/'); i >= 0 {
				k = kind[:i]
			}
			d := decodeCase(c, "iv-decode/"+iv.name+"/"+kind, k, t.Ser())
			if d.paniced {
				continue
			}
			if (d.err != nil) != bad {
				c.Fail("C13/iv-decode", fmt.Sprintf("IV/Partial IV combination %s in %s: decode refused=%v, expected refused=%v", iv.name, kind, d.err != nil, bad), map[string]any{"data": hx(t.Ser()), "kind": k})
			}
		}
	}
	// ---- buckets with many parameters (17 .. 60 unique labels, each with a valid value; a nested map value with as
	// many entries): accepted on encoding means accepted on decoding, with every parameter still there ----
	for _, np := range []int{15, 16, 17, 18, 24, 33, 60} {
		for _, protected := range []bool{true, false} {
			m := map[any]any{int64(4): []byte("kid")}
			for q := 0; q < np-2; q++ {
				m[int64(1000+q)] = int64(q)
			}
			claims := map[any]any{}
			for q := 0; q < np; q++ {
				claims[int64(q+1)] = "v"
			}
			m[int64(15)] = claims
			var out []byte
			var err error
			if protected {
				out, err = cose.ProtectedHeader(m).MarshalCBOR()
			} else {
				out, err = cose.UnprotectedHeader(m).MarshalCBOR()
			}
			c.Eval(fmt.Sprintf("many-parameters/protected=%v", protected), fmt.Sprint(np), true)
			if err != nil {
				c.Fail("C13/many-parameters-refused", fmt.Sprintf("a bucket with %d unique valid parameters is refused by the encoder: %v", np, err), map[string]any{"n": np, "protected": protected})
				continue
			}
			kind := "DUnprot"
			if protected {
				kind = "DProt"
			}
			d := decodeCase(c, "decode/many-parameters", kind, out)
			if d.paniced {
				continue
			}
			got := len(d.unprot)
			if protected {
				got = len(d.prot)
			}
			if d.err != nil || got != np {
				c.Fail("C13/direction-asymmetry", fmt.Sprintf("a bucket with %d parameters is accepted by the encoder; the decoder says %v and returns %d parameters", np, d.err, got), map[string]any{"data": hx(out), "protected": protected})
			}
			// inside a message, and in a signer of a COSE_Sign
			if !protected {
				msg := &cose.Sign1Message{Headers: cose.Headers{Protected: cose.ProtectedHeader{cose.HeaderLabelAlgorithm: cose.AlgorithmES256}, Unprotected: cose.UnprotectedHeader(m)}, Payload: []byte("p"), Signature: []byte{1}}
				if b, err := msg.MarshalCBOR(); err == nil {
					var back cose.Sign1Message
					if err := back.UnmarshalCBOR(b); err != nil || len(back.Headers.Unprotected) != np {
						c.Fail("C13/direction-asymmetry", fmt.Sprintf("a message whose unprotected bucket has %d parameters is emitted but not read back: %v", np, err), map[string]any{"data": hx(b)})
					}
				}
			}
		}
	}
	// ---- one valid parameter of each rule kind next to one invalid entry, encoded and decoded repeatedly (Go visits
	// the map in another order each time): the invalid entry is refused every time, whatever was visited before it ----
	goodOnes := []struct {
		name string
		l    int64
		v    any
		w    *W
		prot bool // protected bucket only
	}{
		{"alg", 1, cose.AlgorithmES256, wInt(-7, -1), false},
		{"crit", 2, []any{int64(4)}, wArr(-1, wUint(4, -1)), true},
		{"content-type", 3, "a/b", wTstr("a/b", -1), false},
		{"iv", 5, []byte{1}, wBstr([]byte{1}, -1), false},
		{"typ", 16, uint(7), wUint(7, -1), false},
		{"x5t", 34, []any{int64(-16), []byte{1}}, wArr(-1, wInt(-16, -1), wBstr([]byte{1}, -1)), false},
	}
	badOnes := []struct {
		name string
		l    int64
		v    any
		w    *W
	}{
		{"kid-int", 4, int64(1), wUint(1, -1)},
		{"partial-iv-text", 6, "x", wTstr("x", -1)},
		{"typ-bool", 16, true, wBool(true)},
		{"content-type-plain", 3, "plain", wTstr("plain", -1)},
		{"alg-bstr", 1, []byte{1}, wBstr([]byte{1}, -1)},
	}
	for _, g := range goodOnes {
		for _, b := range badOnes {
			if g.l == b.l || (g.l == 5 && b.l == 6) {
				continue
			}
			for _, protected := range []bool{true, false} {
				if g.prot && !protected {
					continue
				}
				m := map[any]any{g.l: g.v, b.l: b.v}
				kv := []*W{wInt(g.l, -1), g.w.Clone(), wInt(b.l, -1), b.w.Clone()}
				if b.l != 4 {
					m[int64(4)] = []byte("kid")
					kv = append(kv, wInt(4, -1), wBstr([]byte("kid"), -1))
				}
				data := wMap(-1, kv...).Ser()
				if protected {
					data = wBstr(data, -1).Ser()
				}
				accE, accD := 0, 0
				for rep := 0; rep < 24; rep++ {
					var err error
					if protected {
						_, err = cose.ProtectedHeader(m).MarshalCBOR()
						if err == nil {
							accE++
						}
						var ph cose.ProtectedHeader
						if ph.UnmarshalCBOR(data) == nil {
							accD++
						}
					} else {
						_, err = cose.UnprotectedHeader(m).MarshalCBOR()
						if err == nil {
							accE++
						}
						var uh cose.UnprotectedHeader
						if uh.UnmarshalCBOR(data) == nil {
							accD++
						}
					}
				}
				c.Eval(fmt.Sprintf("valid-next-to-invalid/%s/%s/protected=%v", g.name, b.name, protected), hx(data), true)
				if accE+accD > 0 {
					c.Fail("C13/invalid-entry-accepted", fmt.Sprintf("a bucket with a valid %s and an invalid %s entry was accepted in %d of 24 encodings and %d of 24 decodings", g.name, b.name, accE, accD), map[string]any{"data": hx(data), "protected": protected})
				}
			}
		}
	}
	// ---- crit x present labels ----
	for _, crit := range [][]any{{int64(4)}, {int64(4), int64(16)}, {int64(99)}, {"txt"}, {"missing"}, {int8(4)}, {uint64(16)}, {}, {1.5}} {
		for si, sp := range spell {
			if !thorough && si%3 != 0 {
				continue
			}
			k4, _ := sp(4)
			k16, _ := sp(16)
			m := cose.ProtectedHeader{k4: []byte("kid"), k16: "a/b", "txt": int64(1), int64(2): crit}
			op, obs, _, _, p := execEncProt(m)
			if p {
				c.Fail("C13/panic", "encoder panicked on crit", map[string]any{"op": op})
				continue
			}
			addCase(c, "crit", op, obs, true)
		}
	}
	// crit entries are compared with the labels by value and by type: the text "4" does not name the
	// integer label 4 and vice versa. Expected verdict computed here, independently of the library.
	type critCase struct {
		labels []any // labels present next to crit (each with a valid value)
		crit   []any
	}
	val := func(l any) any {
		switch l {
		case int64(4), int8(4):
			return []byte("kid")
		case int64(16), int64(3):
			return "a/b"
		}
		return int64(1)
	}
	norm := func(l any) any {
		switch v := l.(type) {
		case int8:
			return int64(v)
		case uint64:
			return int64(v)
		}
		return l
	}
	for _, cc := range []critCase{
		{[]any{int64(4), int64(16)}, []any{"4"}}, {[]any{int64(4), int64(16)}, []any{int64(4), "16"}}, {[]any{int64(4), int64(16)}, []any{"16", int64(4)}},
		{[]any{"4", "16"}, []any{int64(4)}}, {[]any{"4", "16"}, []any{"4", int64(16)}}, {[]any{"4", "16"}, []any{"4", "16"}},
		{[]any{int64(3), "3"}, []any{int64(3), "3"}}, {[]any{int64(3)}, []any{"3"}}, {[]any{"3"}, []any{int64(3)}}, {[]any{"-70", int64(70)}, []any{int64(-70)}},
		{[]any{int64(-70)}, []any{"-70"}}, {[]any{int8(4), "x"}, []any{uint64(4), "x"}}, {[]any{int64(4), int64(16), "x"}, []any{int64(4), int64(99), int64(16)}},
		{[]any{int64(4), int64(16), "x"}, []any{int64(99), int64(4)}}, {[]any{int64(4), int64(16), "x"}, []any{[]byte{4}, int64(4)}}, {[]any{int64(4), int64(16), "x"}, []any{"y", "x"}},
		{[]any{int64(4), int64(16), "x"}, []any{int64(4), int64(16), "x"}}, {[]any{int64(4), int64(16), "x"}, []any{int64(4), int64(4)}},
	} {
		m := cose.ProtectedHeader{int64(2): cc.crit}
		present := map[any]bool{}
		for _, l := range cc.labels {
			m[l] = val(l)
			present[norm(l)] = true
		}
		want := true
		for _, e := range cc.crit {
			switch e.(type) {
			case int64, int8, uint64, string:
				if !present[norm(e)] {
					want = false
				}
			default:
				want = false
			}
		}
		op, obs, out, err, p := execEncProt(m)
		if p {
			c.Fail("C13/panic", "encoder panicked on crit", map[string]any{"op": op})
			continue
		}
		addCase(c, "crit-by-value", op, obs, true)
		if (err == nil) != want {
			c.Fail("C13/crit-membership", fmt.Sprintf("crit %v next to labels %v: encode accepted=%v, RFC 9052 3.1 says %v", cc.crit, cc.labels, err == nil, want), map[string]any{"op": trunc(op, 400)})
		}
		// the same header set on the decode side (built by the harness's own encoder when the library refuses)
		var wire []byte
		if err == nil {
			wire = out
		} else if b, e2 := refEnc.Marshal(map[any]any(m)); e2 == nil {
			wire = refBstr(b)
		}
		if wire != nil {
			d := decodeCase(c, "crit-by-value/decode", "DProt", wire)
			if !d.paniced && (d.err == nil) != want {
				c.Fail("C13/crit-membership-decode", fmt.Sprintf("crit %v next to labels %v: decode accepted=%v, RFC 9052 3.1 says %v", cc.crit, cc.labels, d.err == nil, want), map[string]any{"data": hx(wire)})
			}
		}
	}
}

func serOrNil(w *W) []byte {
	if w == nil {
		return nil
	}
	return w.Ser()
}
