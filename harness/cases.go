package main

import (
	"crypto/sha256"
	"encoding/hex"
	"encoding/json"
	"fmt"
	"os"
	"path/filepath"
	"sort"
	"strings"
)

// Case is one correspondence case: an operation (Coq term of type op) with the
// observation recorded from the implementation (Coq term of type ot).
type Case struct {
	Op   string `json:"op"`
	Obs  string `json:"obs"`
	Desc string `json:"desc,omitempty"`
}

// Failure is a violation of the property observed directly on the
// implementation (by a property oracle of the harness).
type Failure struct {
	Key    string         `json:"key"`  // classifier: matched against KNOWN_FINDINGS.json
	Desc   string         `json:"desc"` // what failed
	Replay map[string]any `json:"replay"`
}

type Collector struct {
	Prop       string
	Cases      []Case
	Failures   []Failure
	Dist       map[string]int
	seen       map[[32]byte]bool
	nontrivial map[[32]byte]bool
	Samples    []any
	Rule       string
	Exhaustive bool
	Notes      []string
	Evals      int
}

func NewCollector(prop string) *Collector {
	return &Collector{Prop: prop, Dist: map[string]int{}, seen: map[[32]byte]bool{}, nontrivial: map[[32]byte]bool{}}
}

// Add records a correspondence case. nontrivial: the case gets past the first
// rejection test of the operation (by the property's own rule).
func (c *Collector) Add(class string, op, obs string, nontrivial bool) {
	c.Evals++
	c.Dist[class]++
	h := sha256.Sum256([]byte(op))
	if c.seen[h] {
		return
	}
	c.seen[h] = true
	if nontrivial {
		c.nontrivial[h] = true
	}
	c.Cases = append(c.Cases, Case{Op: op, Obs: obs, Desc: class})
	if len(c.Samples) < 6 && (c.Dist[class] == 1) {
		c.Samples = append(c.Samples, map[string]string{"class": class, "op": trunc(op, 400), "observed": trunc(obs, 400)})
	}
}

// Eval records an implementation-only evaluation (property oracle) that has no
// model counterpart.
func (c *Collector) Eval(class string, key string, nontrivial bool) {
	c.Evals++
	c.Dist[class]++
	h := sha256.Sum256([]byte(class + "|" + key))
	if c.seen[h] {
		return
	}
	c.seen[h] = true
	if nontrivial {
		c.nontrivial[h] = true
	}
	if len(c.Samples) < 6 && c.Dist[class] == 1 {
		c.Samples = append(c.Samples, map[string]string{"class": class, "case": trunc(key, 400)})
	}
}

func (c *Collector) Fail(key, desc string, replay map[string]any) {
	if len(c.Failures) < 200 {
		c.Failures = append(c.Failures, Failure{Key: key, Desc: desc, Replay: replay})
	}
}

func trunc(s string, n int) string {
	if len(s) <= n {
		return s
	}
	return s[:n] + "..."
}

const shardSize = 200

func (c *Collector) Write(dir string, seed uint64, tier string) error {
	if err := os.MkdirAll(dir, 0o755); err != nil {
		return err
	}
	var shards []string
	for i := 0; i*shardSize < len(c.Cases); i++ {
		lo, hi := i*shardSize, (i+1)*shardSize
		if hi > len(c.Cases) {
			hi = len(c.Cases)
		}
		name := fmt.Sprintf("cases_%03d", i)
		var sb strings.Builder
		sb.WriteString("From Coq Require Import String ZArith List.\nFrom GoCose Require Import Bytes Cbor Res GoVal Obs Headers Dec Msg HashEnv Key SigVer Run.\nImport ListNotations.\nOpen Scope string_scope.\nOpen Scope Z_scope.\n")
		sb.WriteString("Definition cases : list (op * ot) := [\n")
		for j, cs := range c.Cases[lo:hi] {
			if j > 0 {
				sb.WriteString(";\n")
			}
			sb.WriteString("(" + cs.Op + ",\n " + cs.Obs + ")")
		}
		sb.WriteString("\n].\nDefinition M := Eval vm_compute in mismatches cases.\nPrint M.\n")
		if err := os.WriteFile(filepath.Join(dir, name+".v"), []byte(sb.String()), 0o644); err != nil {
			return err
		}
		js, _ := json.Marshal(c.Cases[lo:hi])
		if err := os.WriteFile(filepath.Join(dir, name+".json"), js, 0o644); err != nil {
			return err
		}
		shards = append(shards, name)
	}
	classes := make([]string, 0, len(c.Dist))
	for k := range c.Dist {
		classes = append(classes, k)
	}
	sort.Strings(classes)
	res := map[string]any{
		"property":            c.Prop,
		"seed":                seed,
		"tier":                tier,
		"evaluations":         c.Evals,
		"distinct":            len(c.seen),
		"distinct_nontrivial": len(c.nontrivial),
		"rule":                c.Rule,
		"samples":             c.Samples,
		"distribution":        c.Dist,
		"shards":              shards,
		"model_cases":         len(c.Cases),
		"failures":            c.Failures,
		"exhaustive":          c.Exhaustive,
		"notes":               c.Notes,
	}
	js, _ := json.MarshalIndent(res, "", " ")
	return os.WriteFile(filepath.Join(dir, "result.json"), js, 0o644)
}

func hx(b []byte) string { return hex.EncodeToString(b) }

func unhex(s string) []byte {
	b, err := hex.DecodeString(s)
	if err != nil {
		panic(err)
	}
	return b
}
