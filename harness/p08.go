package main

import (
	"bytes"
	"encoding/binary"
	"fmt"
	"github.com/fxamacker/cbor/v2"
	"math"
	"math/big"

	cose "github.com/veraison/go-cose"
)

func init() {
	runners["C08"] = runC08
	runners["C09"] = runC09
}

// inDataModel: the documented data model of header values (what the decoder can give back)
func inDataModel(v any, depth int) bool {
	switch t := v.(type) {
	case nil, bool, int64, string:
		if s, ok := v.(string); ok {
			return validUTF8(s)
		}
		return true
	case int, int8, int16, int32, uint8, uint16, uint32:
		return true
	case uint:
		return uint64(t) < 1<<63
	case uint64:
		return t < 1<<63
	case cose.Algorithm:
		return true
	case []byte:
		return t != nil
	case float64: // any bit pattern (EncDec.simple admits floats since the float case of enc_dec was proved)
		return true
	case []any:
		for _, e := range t {
			if !inDataModel(e, depth+1) {
				return false
			}
		}
		return true
	case map[any]any:
		seen := map[string]bool{}
		for k, e := range t {
			if !inDataModel(k, depth+1) || !inDataModel(e, depth+1) {
				return false
			}
			switch k.(type) {
			case []any, map[any]any, []byte, nil, bool:
				return false
			}
			id := fmt.Sprint(normKey(k))
			if seen[id] {
				return false
			}
			seen[id] = true
		}
		return true
	case cose.CWTClaims:
		return inDataModel(map[any]any(t), depth)
	case *cose.Countersignature:
		return t != nil && headersInModel(&t.Headers)
	case []*cose.Countersignature:
		for _, e := range t {
			if e == nil || !headersInModel(&e.Headers) {
				return false
			}
		}
		return true
	}
	return false
}

func normKey(k any) any {
	if n, ok := asInt64(k); ok {
		return n
	}
	return k
}

func validUTF8(s string) bool {
	for _, r := range s {
		if r == 0xFFFD {
			return false
		}
	}
	return true
}

func headersInModel(h *cose.Headers) bool {
	if len(h.RawProtected) > 0 || len(h.RawUnprotected) > 0 {
		return false
	}
	return inDataModel(map[any]any(h.Protected), 0) && inDataModel(map[any]any(h.Unprotected), 0)
}

func runC08(c *Collector, r *Rng, thorough bool) {
	c.Rule = "in-memory messages / buckets / keys from the Go-value generator (labels spelled with all Go integer kinds, up to 40 entries, nested containers, countersignature values single/list): each value is encoded 12 times (Go re-randomises map iteration per encoding) and all outputs must be identical, canonical by the harness's own walker (shortest heads, strictly sorted keys), accepted by the matching decoder, and equal to the Coq model's bytes; Sign helpers: emitted protected bytes = signed bytes; non-trivial = encoder returned bytes; distinct by op term"
	n := 150
	if thorough {
		n = 6000
	}
	reps := 12
	genBigInts = true
	defer func() { genBigInts = false }()
	for i := 0; i < n; i++ {
		cfg := BucketCfg{Spell: true, Max: pick(r, []int{3, 6, 6, 40}), Csig: 1, Invalid: r.Chance(1, 4)}
		alg := pick(r, goAlgs)
		// ---- buckets ----
		ph := cose.ProtectedHeader(genGoBucket(r, cfg, true, alg, r.Bool(), pick(r, []int{0, 1, 2})))
		op, obs, out, err, p := execEncProt(ph)
		c08Check(c, "enc/protected", op, obs, out, err, p, "DProt", func() ([]byte, error) { return ph.MarshalCBOR() }, reps, inDataModel(map[any]any(ph), 0))
		uh := cose.UnprotectedHeader(genGoBucket(r, cfg, false, 0, false, pick(r, []int{0, 1, 2})))
		op, obs, out, err, p = execEncUnprot(uh)
		c08Check(c, "enc/unprotected", op, obs, out, err, p, "DUnprot", func() ([]byte, error) { return uh.MarshalCBOR() }, reps, inDataModel(map[any]any(uh), 0))
		// ---- values that only the protected bucket can carry across the wire (tags are refused elsewhere by the message
		// decoders): integers beyond int64 and tagged items; whatever the protected encoder emits, its decoder accepts ----
		if i%6 == 0 {
			bigv := new(big.Int)
			bigv.SetString(pick(r, []string{"9223372036854775808", "18446744073709551615", "18446744073709551616", "-9223372036854775809", "-18446744073709551617"}), 10)
			extra := pick(r, []any{*bigv, bigv, cbor.Tag{Number: 32, Content: "https://example.org/x"}, cbor.Tag{Number: 100, Content: int64(7)}, []any{*bigv}})
			ph := cose.ProtectedHeader{cose.HeaderLabelAlgorithm: alg, int64(-70030): extra}
			out, err := ph.MarshalCBOR()
			c.Eval("enc/protected-tagged-values", fmt.Sprintf("%T", extra), err == nil)
			if err == nil {
				var back cose.ProtectedHeader
				if derr := back.UnmarshalCBOR(out); derr != nil || len(back) != 2 {
					c.Fail("C08/not-decodable", fmt.Sprintf("ProtectedHeader.MarshalCBOR emitted %x for a bucket holding %T, ProtectedHeader.UnmarshalCBOR says: %v", out, extra, derr), map[string]any{"out": hx(out)})
				}
				msg := &cose.Sign1Message{Headers: cose.Headers{Protected: ph}, Payload: []byte("p"), Signature: []byte{1}}
				if mb, err := msg.MarshalCBOR(); err == nil {
					var mback cose.Sign1Message
					if derr := mback.UnmarshalCBOR(mb); derr != nil {
						c.Fail("C08/not-decodable", fmt.Sprintf("Sign1Message.MarshalCBOR emitted %x, UnmarshalCBOR says: %v", mb, derr), map[string]any{"out": hx(mb)})
					}
				}
			}
		}
		// ---- messages ----
		deepV := func() any { // a deeply nested extension parameter: the encoders take any depth the decoders admit
			var v any = int64(1)
			for dd := pick(r, []int{5, 7, 8, 10, 14, 20}); dd > 0; dd-- {
				if dd%2 == 0 {
					v = []any{v}
				} else {
					v = map[any]any{int64(dd): v}
				}
			}
			return v
		}
		m := &cose.Sign1Message{Headers: genGoHeaders(r, cfg, alg, true, r.Chance(1, 3)), Payload: genGoPayload(r), Signature: pick(r, [][]byte{genSigBytes(r), genSigBytes(r), nil, {}})}
		if i%5 == 2 && len(m.Headers.RawUnprotected) == 0 && len(m.Headers.RawProtected) == 0 {
			if m.Headers.Unprotected == nil {
				m.Headers.Unprotected = cose.UnprotectedHeader{}
			}
			m.Headers.Unprotected[int64(-700002)] = deepV()
			if m.Headers.Protected != nil && r.Bool() {
				m.Headers.Protected[int64(-700003)] = deepV()
			}
		}
		if i%5 == 3 && len(m.Headers.RawUnprotected) == 0 && headersInModel(&m.Headers) {
			// countersignatures that are countersigned in turn, as lists
			inner := &cose.Countersignature{Headers: cose.Headers{Protected: cose.ProtectedHeader{cose.HeaderLabelAlgorithm: alg}, Unprotected: cose.UnprotectedHeader{}}, Signature: []byte{7}}
			for dd := 1 + r.Intn(4); dd > 0; dd-- {
				inner = &cose.Countersignature{Headers: cose.Headers{Protected: cose.ProtectedHeader{cose.HeaderLabelAlgorithm: alg}, Unprotected: cose.UnprotectedHeader{int64(11): []*cose.Countersignature{inner}}}, Signature: []byte{8}}
			}
			if m.Headers.Unprotected == nil {
				m.Headers.Unprotected = cose.UnprotectedHeader{}
			}
			delete(m.Headers.Unprotected, int64(7))
			m.Headers.Unprotected[int64(11)] = []*cose.Countersignature{inner}
		}
		tagged := r.Bool()
		kind := "DSign1U"
		if tagged {
			kind = "DSign1"
		}
		op, obs, out, err, p = execEncSign1(tagged, m)
		c08Check(c, "enc/sign1", op, obs, out, err, p, kind, func() ([]byte, error) {
			if tagged {
				return m.MarshalCBOR()
			}
			return (*cose.UntaggedSign1Message)(m).MarshalCBOR()
		}, reps, headersInModel(&m.Headers))
		if err == nil && !p {
			if d := decodeKind(kind, out); d.err == nil && d.s1 != nil {
				if !bytes.Equal(d.s1.Payload, m.Payload) || (d.s1.Payload == nil) != (m.Payload == nil) || !bytes.Equal(d.s1.Signature, m.Signature) {
					c.Fail("C08/decodes-to-another-value", fmt.Sprintf("encoded payload %s / signature %x, decoded payload %s / signature %x", nilOrHex(m.Payload), m.Signature, nilOrHex(d.s1.Payload), d.s1.Signature), map[string]any{"op": trunc(op, 600), "out": hx(out)})
				}
			}
		}
		s := &cose.Signature{Headers: genGoHeaders(r, cfg, alg, true, r.Chance(1, 3)), Signature: pick(r, [][]byte{genSigBytes(r), genSigBytes(r), nil})}
		op, obs, out, err, p = execEncSignature(s)
		c08Check(c, "enc/signature", op, obs, out, err, p, "DSignature", func() ([]byte, error) { return s.MarshalCBOR() }, reps, headersInModel(&s.Headers))
		if i%3 == 0 {
			sm := &cose.SignMessage{Headers: genGoHeaders(r, cfg, 0, false, r.Chance(1, 3)), Payload: genGoPayload(r)}
			ok := headersInModel(&sm.Headers)
			for j := r.Intn(4); j > 0; j-- {
				sj := &cose.Signature{Headers: genGoHeaders(r, BucketCfg{Spell: true, Max: 3}, alg, true, false), Signature: genSigBytes(r)}
				if r.Chance(1, 12) {
					sj.Signature = nil
				}
				if r.Chance(1, 20) {
					sj = nil
				}
				if sj != nil {
					ok = ok && headersInModel(&sj.Headers)
				}
				sm.Signatures = append(sm.Signatures, sj)
			}
			op, obs, out, err, p = execEncSignMsg(sm)
			c08Check(c, "enc/signmsg", op, obs, out, err, p, "DSignMsg", func() ([]byte, error) { return sm.MarshalCBOR() }, reps, ok)
			if err == nil && !p {
				if d := decodeKind("DSignMsg", out); d.err == nil && d.sm != nil {
					same := bytes.Equal(d.sm.Payload, sm.Payload) && (d.sm.Payload == nil) == (sm.Payload == nil) && len(d.sm.Signatures) == len(sm.Signatures)
					for j := 0; same && j < len(sm.Signatures); j++ {
						same = d.sm.Signatures[j] != nil && sm.Signatures[j] != nil && bytes.Equal(d.sm.Signatures[j].Signature, sm.Signatures[j].Signature)
					}
					if !same {
						c.Fail("C08/decodes-to-another-value", fmt.Sprintf("COSE_Sign: encoded payload %s with %d signatures, decoded payload %s with %d", nilOrHex(sm.Payload), len(sm.Signatures), nilOrHex(d.sm.Payload), len(d.sm.Signatures)), map[string]any{"op": trunc(op, 600), "out": hx(out)})
					}
				}
			}
		}
		// ---- Sign helpers: signed bytes == emitted bytes ----
		if i%2 == 0 {
			h := genGoHeaders(r, BucketCfg{Spell: true, Max: 6, Csig: 1}, alg, r.Bool(), false)
			sg := &spySigner{alg: alg, kind: SOk, sig: genSigBytes(r)}
			tg := r.Bool()
			ext := genGoExternal(r)
			op, obs, out, err, p := execHelperSign1(tg, h, genGoPayloadNonNil(r), ext, sg)
			if p {
				c.Fail("C08/panic", "Sign1 helper panicked", map[string]any{"op": trunc(op, 500)})
				continue
			}
			addCase(c, "helper/sign1", op, obs, err == nil)
			if err == nil && len(sg.calls) == 1 {
				w, perr := refParseFull(out)
				if perr != nil {
					c.Fail("C08/helper-malformed", "Sign helper returned malformed CBOR", map[string]any{"op": trunc(op, 500), "out": hx(out)})
					continue
				}
				body := w
				if tg {
					body = w.Kids[0]
				}
				signedProt := tbsElement(sg.calls[0], 1)
				if !bytes.Equal(signedProt, body.Kids[0].Ser()) {
					c.Fail("C08/signed-vs-emitted", fmt.Sprintf("protected bytes on the wire %x differ from the bytes that were signed %x", body.Kids[0].Ser(), signedProt), map[string]any{"op": trunc(op, 500)})
				}
				if err := w.canonical(); err != nil {
					c.Fail("C08/helper-not-canonical", "Sign helper output is not deterministic CBOR: "+err.Error(), map[string]any{"op": trunc(op, 500), "out": hx(out)})
				}
				k := "DSign1U"
				if tg {
					k = "DSign1"
				}
				if d := decodeKind(k, out); d.err != nil && headersInModel(&h) {
					c.Fail("C08/helper-not-decodable", "Sign helper output is refused by the decoder: "+d.err.Error(), map[string]any{"op": trunc(op, 500), "out": hx(out)})
				}
			}
		}
		// ---- a caller that supplies the protected bucket as bytes another encoder produced (longer length prefix,
		// unsorted map): the bucket on the wire holds exactly the bytes that were signed, however often the message
		// is signed, verified and encoded ----
		if i%2 == 1 {
			pm := wMap(-1, wInt(1, -1), wInt(int64(alg), -1), wInt(4, -1), wBstr(r.Bytes(1+r.Intn(30)), -1))
			if r.Bool() {
				pm.RandWidths(r, 1, 2, nil)
				pm.ShuffleMaps(r)
			}
			pb := wBstr(pm.Ser(), -1)
			ws := widthsFor(uint64(len(pb.Str)))
			pb.Width = ws[r.Intn(len(ws))]
			raw := pb.Ser()
			keep := append([]byte{}, raw...)
			sg := &spySigner{alg: alg, kind: SOk, sig: genSigBytes(r)}
			vf := &spyVerifier{alg: alg}
			ext := genGoExternal(r)
			rep := map[string]any{"raw_protected": hx(keep), "alg": alg.String()}
			var outs [][]byte
			var tbs [][]byte
			okAll := true
			tbsIdx := 1
			switch r.Intn(3) {
			case 0:
				m := &cose.Sign1Message{Headers: cose.Headers{RawProtected: raw}, Payload: genGoPayloadNonNil(r)}
				if err := m.Sign(r, ext, sg); err != nil {
					okAll = false
					break
				}
				o1, e1 := m.MarshalCBOR()
				m.Verify(ext, vf)
				o2, e2 := m.MarshalCBOR()
				okAll = e1 == nil && e2 == nil
				outs = [][]byte{o1, o2}
				tbs = append(sg.calls, vcontents(vf)...)
				rep["structure"] = "COSE_Sign1"
			case 1:
				s := &cose.Signature{Headers: cose.Headers{RawProtected: raw}}
				body := []byte{0x40}
				if err := s.Sign(r, sg, body, []byte("p"), ext); err != nil {
					okAll = false
					break
				}
				o1, e1 := s.MarshalCBOR()
				s.Verify(vf, body, []byte("p"), ext)
				o2, e2 := s.MarshalCBOR()
				okAll = e1 == nil && e2 == nil
				outs = [][]byte{o1, o2}
				tbs = append(sg.calls, vcontents(vf)...)
				rep["structure"] = "COSE_Signature"
				tbsIdx = 2
			default:
				sm := &cose.SignMessage{Headers: cose.Headers{RawProtected: raw}, Payload: genGoPayloadNonNil(r),
					Signatures: []*cose.Signature{{Headers: cose.Headers{Protected: cose.ProtectedHeader{cose.HeaderLabelAlgorithm: alg}}}}}
				if err := sm.Sign(r, ext, sg); err != nil {
					okAll = false
					break
				}
				o1, e1 := sm.MarshalCBOR()
				sm.Verify(ext, vf)
				o2, e2 := sm.MarshalCBOR()
				okAll = e1 == nil && e2 == nil
				outs = [][]byte{o1, o2}
				tbs = append(sg.calls, vcontents(vf)...)
				rep["structure"] = "COSE_Sign"
			}
			c.Eval("caller-raw-protected/"+fmt.Sprint(rep["structure"]), hx(keep)+hx(ext), okAll)
			if !bytes.Equal(raw, keep) {
				c.Fail("C08/caller-bytes-changed", fmt.Sprintf("the caller's protected bytes %x were rewritten to %x by Sign / Verify / MarshalCBOR", keep, raw), rep)
			} else if okAll {
				if len(outs) == 2 && !bytes.Equal(outs[0], outs[1]) {
					c.Fail("C08/nondeterministic", fmt.Sprintf("the same message encodes to %x before and to %x after Verify", outs[0], outs[1]), rep)
				}
				for _, o := range outs {
					w, perr := refParseFull(o)
					if perr != nil {
						c.Fail("C08/malformed", "encoder output is not one well-formed CBOR item: "+hx(o), rep)
						break
					}
					if w.Maj == 6 {
						w = w.Kids[0]
					}
					if len(w.Kids) == 0 || w.Kids[0].Maj != 2 {
						c.Fail("C08/malformed", "first element of the encoded structure is not a byte string: "+hx(o), rep)
						break
					}
					for _, t := range tbs {
						if signed, err := refParseFull(tbsElement(t, tbsIdx)); err != nil || !bytes.Equal(signed.Str, w.Kids[0].Str) {
							c.Fail("C08/signed-vs-emitted", fmt.Sprintf("protected bucket on the wire %x differs from the one inside the signed bytes %x", w.Kids[0].Str, tbsElement(t, tbsIdx)), rep)
							break
						}
					}
				}
			}
		}
		// ---- countersignatures over parents (and by holders) whose protected bucket was supplied as bytes another
		// encoder produced: the parent's protected bytes inside the Countersign_structure are the bytes the parent
		// emits, and the holder's are the bytes the holder emits ----
		if i%2 == 1 {
			mkRaw := func() []byte {
				pm := wMap(-1, wInt(1, -1), wInt(int64(alg), -1), wInt(4, -1), wBstr(r.Bytes(1+r.Intn(30)), -1))
				if r.Bool() {
					pm.RandWidths(r, 1, 2, nil)
				}
				pm.ShuffleMaps(r)
				pb := wBstr(pm.Ser(), -1)
				ws := widthsFor(uint64(len(pb.Str)))
				pb.Width = ws[r.Intn(len(ws))]
				return pb.Ser()
			}
			for _, pk := range []string{"COSE_Sign1", "COSE_Sign", "COSE_Signature", "COSE_Countersignature"} {
				praw, hraw := mkRaw(), mkRaw()
				ext := genGoExternal(r)
				var parent any
				var emit func() ([]byte, error)
				switch pk {
				case "COSE_Sign1":
					m := &cose.Sign1Message{Headers: cose.Headers{RawProtected: praw}, Payload: []byte("p"), Signature: []byte{1, 2}}
					parent, emit = m, m.MarshalCBOR
				case "COSE_Sign":
					m := &cose.SignMessage{Headers: cose.Headers{RawProtected: praw}, Payload: []byte("p"), Signatures: []*cose.Signature{{Headers: cose.Headers{Protected: cose.ProtectedHeader{cose.HeaderLabelAlgorithm: alg}}, Signature: []byte{3}}}}
					parent, emit = m, m.MarshalCBOR
				case "COSE_Signature":
					m := &cose.Signature{Headers: cose.Headers{RawProtected: praw}, Signature: []byte{1, 2}}
					parent, emit = m, m.MarshalCBOR
				default:
					m := &cose.Countersignature{Headers: cose.Headers{RawProtected: praw}, Signature: []byte{1, 2}}
					parent, emit = m, m.MarshalCBOR
				}
				for _, holderRaw := range []bool{false, true} {
					holder := &cose.Countersignature{Headers: cose.Headers{Protected: cose.ProtectedHeader{cose.HeaderLabelAlgorithm: alg}}}
					if holderRaw {
						holder = &cose.Countersignature{Headers: cose.Headers{RawProtected: hraw}}
					}
					sg := &spySigner{alg: alg, kind: SOk, sig: genSigBytes(r)}
					rep := map[string]any{"parent": pk, "parent_raw_protected": hx(praw), "holder_raw": holderRaw, "alg": alg.String()}
					c.Eval("countersign-raw-protected/"+pk, hx(praw)+fmt.Sprint(holderRaw), true)
					if err := holder.Sign(r, sg, parent, ext); err != nil || len(sg.calls) != 1 {
						continue
					}
					vf := &spyVerifier{alg: alg}
					holder.Verify(vf, parent, ext)
					po, e1 := emit()
					ho, e2 := holder.MarshalCBOR()
					if e1 != nil || e2 != nil {
						continue
					}
					pw, pe := refParseFull(po)
					hw, he := refParseFull(ho)
					if pe != nil || he != nil {
						continue
					}
					if pw.Maj == 6 {
						pw = pw.Kids[0]
					}
					for _, t := range append(append([][]byte{}, sg.calls...), vcontents(vf)...) {
						if el, err := refParseFull(tbsElement(t, 1)); err != nil || !bytes.Equal(el.Str, pw.Kids[0].Str) {
							c.Fail("C08/signed-vs-emitted", fmt.Sprintf("countersignature over a %s: the parent's protected bucket on the wire is %x, inside the countersigned bytes it is %x", pk, pw.Kids[0].Str, tbsElement(t, 1)), rep)
							break
						}
						if el, err := refParseFull(tbsElement(t, 2)); err != nil || !bytes.Equal(el.Str, hw.Kids[0].Str) {
							c.Fail("C08/signed-vs-emitted", fmt.Sprintf("countersignature over a %s: the holder's protected bucket on the wire is %x, inside the countersigned bytes it is %x", pk, hw.Kids[0].Str, tbsElement(t, 2)), rep)
							break
						}
					}
				}
			}
		}
		// ---- SignHashEnvelope: whatever the caller's Headers carry (typed maps, stale raw bytes of a message it
		// decoded earlier), the returned envelope is accepted by VerifyHashEnvelope and says what was asked for ----
		if i%3 == 0 {
			h := cose.Headers{Protected: cose.ProtectedHeader{cose.HeaderLabelAlgorithm: alg}}
			if r.Bool() {
				h.Protected[int64(4)] = genBytes(r)
			}
			mode := r.Intn(5)
			forceLoc := false
			switch mode {
			case 4: // headers of an envelope the caller decoded earlier, re-issued for a new artifact: typed map and
				// retained bytes agree with each other and already hold every hash-envelope label
				h.Protected[cose.HeaderLabelPayloadHashAlgorithm] = cose.AlgorithmSHA384
				h.Protected[cose.HeaderLabelPayloadLocation] = "old"
				if b, err := h.MarshalProtected(); err == nil {
					h.RawProtected = b
				}
				forceLoc = true
			case 1: // raw bytes of the same typed map
				if b, err := h.MarshalProtected(); err == nil {
					h.RawProtected = b
				}
			case 2: // raw bytes left over from another message
				h.RawProtected = []byte{0x43, 0xa1, 0x01, 0x26}
				h.RawUnprotected = []byte{0xa0}
			case 3: // raw bytes of another hash envelope (SHA-384 digest of another artifact)
				h.RawProtected = wBstr(wMap(-1, wInt(1, -1), wInt(int64(alg), -1), wInt(258, 2), wInt(-43, -1), wInt(260, 2), wTstr("old", -1)).Ser(), -1).Ser()
			}
			hv := r.Bytes(32)
			hp := cose.HashEnvelopePayload{HashAlgorithm: cose.AlgorithmSHA256, HashValue: hv, Location: pick(r, []string{"", "new-location"})}
			if forceLoc {
				hp.Location = "new-location"
			}
			sg := &spySigner{alg: alg, kind: SOk, sig: genSigBytes(r)}
			op, obs, out, err, p := execSignHE(sg, h, hp)
			if p {
				c.Fail("C08/panic", "SignHashEnvelope panicked", map[string]any{"op": trunc(op, 500)})
				continue
			}
			addCase(c, fmt.Sprintf("helper/hashenvelope/raw-mode-%d", mode), op, obs, err == nil)
			if err == nil {
				rep := map[string]any{"op": trunc(op, 600), "out": hx(out)}
				if w, perr := refParseFull(out); perr != nil {
					c.Fail("C08/helper-malformed", "SignHashEnvelope returned malformed CBOR", rep)
				} else if err := w.canonical(); err != nil {
					c.Fail("C08/helper-not-canonical", "SignHashEnvelope output is not deterministic CBOR: "+err.Error(), rep)
				} else if len(sg.calls) == 1 && !bytes.Equal(tbsElement(sg.calls[0], 1), w.Kids[0].Kids[0].Ser()) {
					c.Fail("C08/signed-vs-emitted", "hash envelope: protected bytes on the wire differ from the bytes that were signed", rep)
				}
				vf := &spyVerifier{alg: alg}
				vop, vobs, m, verr, vp := execVerifyHE(vf, out)
				if vp {
					c.Fail("C08/panic", "VerifyHashEnvelope panicked on SignHashEnvelope output", rep)
					continue
				}
				addCase(c, "helper/hashenvelope/verify-own-output", vop, vobs, true)
				if verr != nil {
					c.Fail("C08/helper-not-decodable", "SignHashEnvelope output is refused by VerifyHashEnvelope: "+verr.Error(), rep)
				} else {
					ha, _ := m.Headers.Protected.PayloadHashAlgorithm()
					loc, _ := m.Headers.Protected[int64(260)].(string)
					if ha != cose.AlgorithmSHA256 || !bytes.Equal(m.Payload, hv) || loc != hp.Location {
						c.Fail("C08/helper-not-equivalent", fmt.Sprintf("the decoded envelope says hash alg %v, location %q, digest %x; asked for SHA-256, %q, %x", ha, loc, m.Payload, hp.Location, hv), rep)
					}
				}
			}
		}
		// ---- keys ----
		if i%4 == 0 {
			t := genKeyTree(r)
			var k cose.Key
			if err := k.UnmarshalCBOR(t.Ser()); err == nil {
				if r.Bool() && k.Params != nil {
					// respell parameter labels with other Go integer kinds
					np := map[any]any{}
					for kk, v := range k.Params {
						if n, ok := kk.(int64); ok {
							np[spellInt(r, n, true)] = v
						} else {
							np[kk] = v
						}
					}
					if len(np) > 0 && r.Chance(1, 3) {
						// the same label a second time under another Go integer kind: one COSE label twice
						for kk := range np {
							if n, ok := toI64(kk); ok {
								for tries := 0; tries < 8; tries++ {
									if alt := spellInt(r, n, true); alt != kk {
										np[alt] = []byte{1}
										break
									}
								}
								break
							}
						}
					}
					k.Params = np
				}
				op, obs, out, err, p := execEncKey(&k)
				c08Check(c, "enc/key", op, obs, out, err, p, "DKey", func() ([]byte, error) { return k.MarshalCBOR() }, reps, false)
				if err == nil && !p {
					// the serialisation parses back, also into a Key variable that held another key before
					decodeKind("DKey", out)
				}
			}
		}
	}
	c08Keys(c)
	c08KeyOps(c)
	c08KeyLabelTwice(c)
	c08CsigLists(c)
	c08ByteLikeValues(c)
	c08Floats(c)
}

func genGoPayloadNonNil(r *Rng) []byte {
	p := genGoPayload(r)
	if p == nil {
		return []byte{}
	}
	return p
}

// held: encoder results a caller kept while it went on encoding other values; they must never change
var held []struct {
	out, copy []byte
	op        string
}

func c08Held(c *Collector, out []byte, op string) {
	for _, h := range held {
		if !bytes.Equal(h.out, h.copy) {
			c.Fail("C08/earlier-output-changed", fmt.Sprintf("bytes returned by an earlier encoder call changed while other values were encoded: were %x, now %x", trimTo(h.copy, 60), trimTo(h.out, 60)), map[string]any{"op": trunc(h.op, 400)})
			held = nil
			break
		}
	}
	if out != nil {
		held = append(held, struct {
			out, copy []byte
			op        string
		}{out, append([]byte{}, out...), op})
		if len(held) > 64 {
			held = held[1:]
		}
	}
}

func c08Check(c *Collector, class, op, obs string, out []byte, err error, panicked bool, kind string, again func() ([]byte, error), reps int, inModel bool) {
	rep := map[string]any{"op": trunc(op, 700)}
	if panicked {
		c.Fail("C08/panic", "encoder panicked", rep)
		return
	}
	c08Held(c, out, op)
	addCase(c, class, op, obs, err == nil)
	for i := 0; i < reps; i++ {
		o2, e2 := again()
		if (e2 != nil) != (err != nil) || !bytes.Equal(o2, out) {
			c.Fail("C08/nondeterministic", fmt.Sprintf("two encodings of the same value differ: %x (%v) vs %x (%v)", out, err, o2, e2), rep)
			return
		}
	}
	if err != nil {
		return
	}
	if !inModel || hasRawBuckets(op) {
		return
	}
	w, perr := refParseFull(out)
	if perr != nil {
		c.Fail("C08/malformed", "encoder output is not one well-formed CBOR item", rep)
		return
	}
	if err := w.canonical(); err != nil {
		c.Fail("C08/not-canonical", "encoder output is not deterministic CBOR: "+err.Error()+" in "+hx(out), rep)
	}
	// protected bucket content must be canonical too
	if kind != "DKey" && kind != "DUnprot" {
		for _, pb := range protectedBstrs(kind, w) {
			if len(pb) > 0 {
				if pm, err := refParseFull(pb); err != nil {
					c.Fail("C08/protected-malformed", "protected content is not one CBOR item", rep)
				} else if err := pm.canonical(); err != nil {
					c.Fail("C08/protected-not-canonical", "protected content is not deterministic CBOR: "+err.Error(), rep)
				}
			}
		}
	}
	if d := decodeKind(kind, out); d.err != nil || d.paniced {
		c.Fail("C08/not-decodable", fmt.Sprintf("output %x is refused by the %s decoder: %v", out, kind, d.err), rep)
	}
}

func hasRawBuckets(op string) bool { return false }

func protectedBstrs(kind string, w *W) [][]byte {
	body := w
	if kind == "DSign1" || kind == "DSignMsg" {
		body = w.Kids[0]
	}
	switch kind {
	case "DProt":
		return [][]byte{w.Str}
	case "DSign1", "DSign1U", "DSignature":
		if len(body.Kids) > 0 && body.Kids[0].Maj == 2 {
			return [][]byte{body.Kids[0].Str}
		}
	case "DSignMsg":
		var out [][]byte
		if len(body.Kids) == 4 {
			out = append(out, body.Kids[0].Str)
			for _, s := range body.Kids[3].Kids {
				if len(s.Kids) == 3 {
					out = append(out, s.Kids[0].Str)
				}
			}
		}
		return out
	}
	return nil
}

// ---------- C09 ----------

// renorm: what Marshal(Unmarshal(b)) must be: header buckets byte-for-byte, payload / signature
// / signatures-array heads shortest.
func renorm(kind string, w *W) []byte {
	short := func(n *W) *W {
		c := *n
		switch n.Maj {
		case 2:
			c.Width = minWidth(uint64(len(n.Str)))
		case 4:
			c.Width = minWidth(uint64(len(n.Kids)))
		}
		return &c
	}
	sigItem := func(s *W) *W { return wArr(0, s.Kids[0], s.Kids[1], short(s.Kids[2])) }
	if (kind == "DSign1" || kind == "DSignMsg") && w.Maj != 6 {
		// accepted without its tag: the faithful re-encoding has no tag either
		if kind == "DSign1" && len(w.Kids) == 4 {
			return wArr(0, w.Kids[0], w.Kids[1], short(w.Kids[2]), short(w.Kids[3])).Ser()
		}
		return w.Ser()
	}
	switch kind {
	case "DSign1":
		b := w.Kids[0]
		return wTag(18, -1, wArr(0, b.Kids[0], b.Kids[1], short(b.Kids[2]), short(b.Kids[3]))).Ser()
	case "DSign1U":
		return wArr(0, w.Kids[0], w.Kids[1], short(w.Kids[2]), short(w.Kids[3])).Ser()
	case "DSignature":
		return sigItem(w).Ser()
	case "DSignMsg":
		b := w.Kids[0]
		var sigs []*W
		for _, s := range b.Kids[3].Kids {
			sigs = append(sigs, sigItem(s))
		}
		return wTag(98, -1, wArr(0, b.Kids[0], b.Kids[1], short(b.Kids[2]), wArr(-1, sigs...))).Ser()
	}
	return w.Ser()
}

func runC09(c *Collector, r *Rng, thorough bool) {
	c.Rule = "accepted wire messages from the tree generator (random head widths, map orders, nested countersignatures): Marshal(Unmarshal(b)) must equal the harness's prediction (both header buckets of every layer byte-for-byte; only payload/signature/signatures-array heads shortened), stay fixed over 4 further cycles, keep real signatures valid, equal b for canonical input; with the retained raw bytes cleared, re-encoding must reach a fixed point after one cycle; model and implementation compared on decode+re-encode; non-trivial = input accepted; distinct by input bytes"
	n := 150
	if thorough {
		n = 8000
	}
	keys := realKeySet(r)
	// header values outside int64 (big.Int in memory): bignums and plain integers of 64 bits, in either bucket of the
	// body, of a signer and of a countersignature; whatever the decoder accepts survives the clearing of the raw bytes
	bigs := []string{"00", "20", "1b7fffffffffffffff", "c2488000000000000000", "c248ffffffffffffffff", "c249010000000000000000", "c24105", "c240", "3b8000000000000000", "3bffffffffffffffff",
		"3b7fffffffffffffff", "1b7fffffffffffffff", "1b8000000000000000", "c3488000000000000000", "c349010000000000000000", "c34105", "c348ffffffffffffffff"}
	for _, bv := range bigs {
		val, _ := refParseFull(unhex(bv))
		for _, where := range []string{"body-protected", "body-unprotected", "signer-protected", "signer-unprotected", "countersignature-protected", "countersignature-unprotected"} {
			pm := func(on bool) *W {
				if on {
					return wBstr(wMap(-1, wInt(1, -1), wInt(-7, -1), wInt(99, -1), val.Clone()).Ser(), -1)
				}
				return wBstr(wMap(-1, wInt(1, -1), wInt(-7, -1)).Ser(), -1)
			}
			um := func(on bool, extra ...*W) *W {
				kv := append([]*W{}, extra...)
				if on {
					kv = append(kv, wInt(99, -1), val.Clone())
				}
				return wMap(-1, kv...)
			}
			var t *W
			kind := "DSign1"
			switch where {
			case "body-protected", "body-unprotected":
				t = wTag(18, -1, wArr(-1, pm(where == "body-protected"), um(where == "body-unprotected"), wBstr([]byte("p"), -1), wBstr([]byte{1, 2}, -1)))
			case "signer-protected", "signer-unprotected":
				kind = "DSignMsg"
				sg := wArr(-1, pm(where == "signer-protected"), um(where == "signer-unprotected"), wBstr([]byte{1, 2}, -1))
				t = wTag(98, -1, wArr(-1, wBstr(nil, -1), wMap(-1), wBstr([]byte("p"), -1), wArr(-1, sg)))
			default:
				cs := wArr(-1, pm(where == "countersignature-protected"), um(where == "countersignature-unprotected"), wBstr([]byte{3, 4}, -1))
				t = wTag(18, -1, wArr(-1, pm(false), um(false, wInt(11, -1), cs), wBstr([]byte("p"), -1), wBstr([]byte{1, 2}, -1)))
			}
			data := t.Ser()
			d := decodeCase(c, "bignum/"+where, kind, data)
			if d.err != nil || d.paniced {
				continue
			}
			rep := map[string]any{"kind": kind, "data": hx(data), "value": bv, "where": where}
			if d.reerr != nil || !bytes.Equal(d.reenc, data) {
				c.Fail("C09/reencode-differs", fmt.Sprintf("re-encoding a canonical message changed it: %x (%v)", d.reenc, d.reerr), rep)
				continue
			}
			c09Cleared(c, kind, data, rep)
			c09Partial(c, kind, data, d.reenc, rep)
		}
	}
	// IV in one bucket and Partial IV in the other, in every layer: refused by the decoders; if one of them ever
	// accepts such a message it must also be able to produce its canonical form
	for _, cs := range []struct{ kind, hex string }{
		{"DSign1", "d28444a1054101a1064102f64100"}, {"DSign1", "d28444a1064101a1054102f64100"}, {"DSign1U", "8444a1054101a1064102f64100"}, {"DSignature", "8344a1054101a10641024100"},
		{"DSignMsg", "d8628444a1054101a1064102f6818340a04100"}, {"DSignMsg", "d8628440a0f6818344a1064101a10541024100"}, {"DSign1", "d28440a1078344a1054101a10641024100f64100"},
	} {
		data := unhex(cs.hex)
		d := decodeCase(c, "iv-split/"+cs.kind, cs.kind, data)
		if d.err != nil || d.paniced {
			continue
		}
		c09Cleared(c, cs.kind, data, map[string]any{"kind": cs.kind, "data": cs.hex})
		c09Partial(c, cs.kind, data, d.reenc, map[string]any{"kind": cs.kind, "data": cs.hex})
	}
	// indefinite-length items (chunked payload or signature, one chunk or several; indefinite arrays and maps; a chunked
	// string inside a header value): not "the same bytes apart from length-prefix widths" whatever they would be
	// re-encoded to - a decoder that accepts one must give it back unchanged, which no definite-length encoder does
	for _, cs := range []struct{ kind, hex string }{
		{"DSign1", "d28443a10126a0" + "5f426865436c6c6fff" + "420102"}, {"DSign1", "d28443a10126a0" + "5f4568656c6c6fff" + "420102"}, {"DSign1", "d28443a10126a0" + "5fff" + "420102"},
		{"DSign1", "d28443a10126a0" + "4568656c6c6f" + "5f41014102ff"}, {"DSign1U", "8443a10126a0" + "5f426865436c6c6fff" + "420102"}, {"DSign1", "d2" + "9f43a10126a0" + "4568656c6c6f" + "420102" + "ff"},
		{"DSign1", "d28443a10126" + "bfff" + "4568656c6c6f" + "420102"}, {"DSign1", "d28443a10126" + "a1187b5f4101ff" + "4568656c6c6f" + "420102"}, {"DSign1", "d28443a10126" + "a1187b7f6161ff" + "4568656c6c6f" + "420102"},
		{"DSign1", "d284" + "5f43a10126ff" + "a0" + "4568656c6c6f" + "420102"}, {"DSign1", "d28444bf0126ffa0" + "4568656c6c6f" + "420102"},
		{"DSignature", "8343a10126a0" + "5f41014102ff"}, {"DSignature", "9f43a10126a0420102ff"},
		{"DSignMsg", "d8628440a0" + "5f426865436c6c6fff" + "818343a10126a0420102"}, {"DSignMsg", "d8628440a0" + "4568656c6c6f" + "818343a10126a0" + "5f41014102ff"}, {"DSignMsg", "d8628440a0" + "4568656c6c6f" + "9f8343a10126a0420102ff"},
	} {
		data := unhex(cs.hex)
		d := decodeCase(c, "indefinite-length/"+cs.kind, cs.kind, data)
		if d.err != nil || d.paniced {
			continue
		}
		rep := map[string]any{"kind": cs.kind, "data": cs.hex}
		if d.reerr != nil || !bytes.Equal(d.reenc, data) {
			c.Fail("C09/reencode-differs", fmt.Sprintf("an accepted message with an indefinite-length item is re-encoded to %x (%v): more than the width of a length prefix has changed", d.reenc, d.reerr), rep)
		}
	}
	// a countersignature nested in an unprotected bucket, its own buckets spelled by another encoder (map entries in
	// another order, a length prefix wider than needed, an integer in a wider head), one level and two levels deep: the
	// decoded holder retains exactly the bytes of its element, and they come out again when only the enclosing bucket's
	// retained bytes are discarded
	for _, label := range []int64{11, 7} {
		innerP := wBstr(wMap(-1, wInt(4, -1), &W{Maj: 2, Width: 1, Str: []byte("11")}, wInt(1, -1), wInt(-7, 1)).Ser(), 1)
		innerU := wMap(-1, wInt(-70060, 2), wTstr("x", 1))
		inner := wArr(-1, innerP.Clone(), innerU.Clone(), &W{Maj: 2, Width: 1, Str: []byte{5, 5}})
		mid := wArr(-1, innerP.Clone(), wMap(-1, wInt(label, -1), inner.Clone()), &W{Maj: 2, Width: 0, Str: []byte{6, 6}})
		pb := wBstr(wMap(-1, wInt(1, -1), wInt(-7, -1)).Ser(), -1)
		for depth, nested := range []*W{inner, mid} {
			data := wTag(18, -1, wArr(-1, pb.Clone(), wMap(-1, wInt(label, -1), nested.Clone()), wBstr([]byte("p"), -1), wBstr([]byte{1, 2}, -1))).Ser()
			d := decodeCase(c, "nested-countersignature-spelling", "DSign1", data)
			if d.err != nil || d.paniced {
				continue
			}
			rep := map[string]any{"data": hx(data), "label": label, "depth": depth + 1}
			cs, _ := d.s1.Headers.Unprotected[label].(*cose.Countersignature)
			if cs == nil {
				continue
			}
			wantP, wantU := nested.Kids[0].Ser(), nested.Kids[1].Ser()
			if !bytes.Equal(cs.Headers.RawProtected, wantP) || !bytes.Equal(cs.Headers.RawUnprotected, wantU) {
				c.Fail("C09/decoded-differs", fmt.Sprintf("a nested countersignature retains protected bytes %x and unprotected bytes %x; its element on the wire has %x and %x", cs.Headers.RawProtected, cs.Headers.RawUnprotected, wantP, wantU), rep)
			}
			if d.reerr != nil || !bytes.Equal(d.reenc, renorm("DSign1", mustParse(data))) {
				c.Fail("C09/reencode-differs", fmt.Sprintf("re-encoding changed more than length prefixes of payload / signature: %x (%v)", d.reenc, d.reerr), rep)
			}
			// only the enclosing bucket's retained bytes discarded: the nested holder still reproduces its element
			d2 := decodeKind("DSign1", data)
			d2.s1.Headers.RawUnprotected = nil
			if out, err := d2.s1.MarshalCBOR(); err == nil {
				if w, perr := refParseFull(out); perr == nil && len(w.Kids) == 1 && len(w.Kids[0].Kids) == 4 {
					um := w.Kids[0].Kids[1]
					found := false
					for q := 0; q+1 < len(um.Kids); q += 2 {
						if um.Kids[q].Maj == 0 && int64(um.Kids[q].Val) == label {
							found = true
							el := um.Kids[q+1]
							if el.Maj != 4 || len(el.Kids) != 3 || !bytes.Equal(el.Kids[0].Ser(), wantP) || !bytes.Equal(el.Kids[1].Ser(), wantU) {
								c.Fail("C09/reencode-differs", fmt.Sprintf("with the enclosing bucket's retained bytes discarded the nested countersignature is written as %x; its buckets on the wire were %x and %x", el.Ser(), wantP, wantU), rep)
							}
						}
					}
					if !found {
						c.Fail("C09/reencode-differs", "with the enclosing bucket's retained bytes discarded the nested countersignature is gone", rep)
					}
				}
			}
		}
	}
	// null and undefined in the signatures array of a COSE_Sign, alone and next to real signatures: refused, or
	// reproduced
	for _, hexs := range []string{"d8628440a0456865" + "6c6c6f81f6", "d8628440a04568656c6c6f81f7", "d8628440a04568656c6c6f82" + "8343a10126a0420102" + "f6", "d8628440a04568656c6c6f82f6" + "8343a10126a0420102", "d8628440a04568656c6c6f83" + "8343a10126a0420102" + "f7" + "8343a10126a0420102"} {
		data := unhex(hexs)
		d := decodeCase(c, "null-signature-entries", "DSignMsg", data)
		if d.err != nil || d.paniced {
			continue
		}
		if d.reerr != nil || !bytes.Equal(d.reenc, data) {
			c.Fail("C09/reencode-refused", fmt.Sprintf("a COSE_Sign with a null / undefined entry in its signatures array was accepted; re-encoding the decoded message gives %x (%v)", d.reenc, d.reerr), map[string]any{"data": hexs})
		}
	}
	// lists of two and three different countersignatures (labels 7 and 11) in every layer of canonical messages: every
	// decoded entry is the wire's entry at its position, and the canonical input comes out identical, with the retained
	// bytes and without them
	for _, label := range []int64{7, 11} {
		for _, nent := range []int{2, 3} {
			var ents []*W
			for e := 0; e < nent; e++ {
				ents = append(ents, wArr(-1, wBstr(wMap(-1, wInt(1, -1), wInt(-7, -1), wInt(4, -1), wBstr([]byte{byte('a' + e)}, -1)).Ser(), -1), wMap(-1, wInt(4, -1), wBstr([]byte{byte('u' + e)}, -1)), wBstr([]byte{byte(0x10 + e), 0xcc}, -1)))
			}
			lst := func() *W {
				var cp []*W
				for _, e := range ents {
					cp = append(cp, e.Clone())
				}
				return wArr(-1, cp...)
			}
			pb := wBstr(wMap(-1, wInt(1, -1), wInt(-7, -1)).Ser(), -1)
			for _, tk := range []struct {
				kind string
				t    *W
			}{
				{"DSign1", wTag(18, -1, wArr(-1, pb.Clone(), wMap(-1, wInt(label, -1), lst()), wBstr([]byte("p"), -1), wBstr([]byte{1, 2}, -1)))},
				{"DSign1U", wArr(-1, pb.Clone(), wMap(-1, wInt(label, -1), lst()), wBstr([]byte("p"), -1), wBstr([]byte{1, 2}, -1))},
				{"DSignature", wArr(-1, pb.Clone(), wMap(-1, wInt(label, -1), lst()), wBstr([]byte{1, 2}, -1))},
				{"DSignMsg", wTag(98, -1, wArr(-1, wBstr(nil, -1), wMap(-1, wInt(label, -1), lst()), wBstr([]byte("p"), -1), wArr(-1, wArr(-1, pb.Clone(), wMap(-1, wInt(label, -1), lst()), wBstr([]byte{1, 2}, -1)))))},
				{"DSign1", wTag(18, -1, wArr(-1, pb.Clone(), wMap(-1, wInt(label, -1), wArr(-1, pb.Clone(), wMap(-1, wInt(label, -1), lst()), wBstr([]byte{7}, -1))), wBstr([]byte("p"), -1), wBstr([]byte{1, 2}, -1)))},
			} {
				data := tk.t.Ser()
				d := decodeCase(c, "countersignature-lists/"+tk.kind, tk.kind, data)
				if d.err != nil || d.paniced {
					continue
				}
				rep := map[string]any{"kind": tk.kind, "data": hx(data), "label": label, "entries": nent}
				if d.reerr != nil || !bytes.Equal(d.reenc, data) {
					c.Fail("C09/reencode-differs", fmt.Sprintf("re-encoding a canonical message changed it: %x (%v)", d.reenc, d.reerr), rep)
					continue
				}
				// each decoded entry is the wire's entry at its position
				for li, h := range layersOf(&d) {
					if got, ok := h.Unprotected[label].([]*cose.Countersignature); ok {
						for e, cs := range got {
							if e >= len(ents) || cs == nil {
								continue
							}
							wantKid := []byte{byte('a' + e)}
							kid, _ := cs.Headers.Protected[int64(4)].([]byte)
							if !bytes.Equal(kid, wantKid) || !bytes.Equal(cs.Signature, []byte{byte(0x10 + e), 0xcc}) {
								c.Fail("C09/decoded-differs", fmt.Sprintf("entry %d of a countersignature list in layer %d decodes to kid %x, signature %x; the wire has kid %x, signature %x", e, li, kid, cs.Signature, wantKid, []byte{byte(0x10 + e), 0xcc}), rep)
							}
						}
					}
				}
				// the canonical input comes out identical once the retained bytes are discarded
				dc := decodeKind(tk.kind, data)
				for _, h := range layersOf(&dc) {
					clearRaw(h)
				}
				if out, err := encodeDecoded(tk.kind, &dc); err != nil || !bytes.Equal(out, data) {
					c.Fail("C09/cleared-differs", fmt.Sprintf("a canonical message decoded, its retained bytes discarded, encoded again: %x (%v)", out, err), rep)
				}
				c09Cleared(c, tk.kind, data, rep)
			}
		}
	}
	// registered and unregistered alg values (the reserved value 0, private use, large) in the protected bucket of every
	// layer: accepted on decoding means encodable again from the decoded form
	for _, av := range []int64{0, -7, -65537, 1 << 31, -1 << 40} {
		pb := wBstr(wMap(-1, wInt(1, -1), wInt(av, -1)).Ser(), -1)
		for _, tk := range []struct {
			kind string
			t    *W
		}{
			{"DSign1", wTag(18, -1, wArr(-1, pb, wMap(-1), wBstr([]byte("p"), -1), wBstr([]byte{1, 2}, -1)))},
			{"DSign1U", wArr(-1, pb, wMap(-1), wBstr([]byte("p"), -1), wBstr([]byte{1, 2}, -1))},
			{"DSignature", wArr(-1, pb, wMap(-1), wBstr([]byte{1, 2}, -1))},
			{"DSignMsg", wTag(98, -1, wArr(-1, pb, wMap(-1), wBstr([]byte("p"), -1), wArr(-1, wArr(-1, pb, wMap(-1), wBstr([]byte{1, 2}, -1)))))},
			{"DSign1", wTag(18, -1, wArr(-1, wBstr(nil, -1), wMap(-1, wInt(11, -1), wArr(-1, pb, wMap(-1), wBstr([]byte{3}, -1))), wBstr([]byte("p"), -1), wBstr([]byte{1, 2}, -1)))},
		} {
			data := tk.t.Ser()
			d := decodeCase(c, "alg-values/"+tk.kind, tk.kind, data)
			if d.err != nil || d.paniced {
				continue
			}
			rep := map[string]any{"kind": tk.kind, "data": hx(data), "alg": av}
			if d.reerr != nil || !bytes.Equal(d.reenc, data) {
				c.Fail("C09/reencode-differs", fmt.Sprintf("re-encoding a canonical message changed it: %x (%v)", d.reenc, d.reerr), rep)
				continue
			}
			c09Cleared(c, tk.kind, data, rep)
		}
	}
	// a message obtained through VerifyHashEnvelope is a decoded message like any other: re-encoding it reproduces
	// the received header bytes (here a protected map another implementation spelled differently) and stays valid
	for i := 0; i < n/5+2; i++ {
		k := keys[i%len(keys)]
		env, err := cose.SignHashEnvelope(r, k.signer(), cose.Headers{Protected: cose.ProtectedHeader{cose.HeaderLabelAlgorithm: k.alg, int64(4): r.Bytes(3)}},
			cose.HashEnvelopePayload{HashAlgorithm: cose.AlgorithmSHA256, HashValue: r.Bytes(32), Location: "loc"})
		if err != nil {
			continue
		}
		t, perr := refParseFull(env)
		if perr != nil {
			continue
		}
		b := t.Kids[0]
		if pm, err := refParseFull(b.Kids[0].Str); err == nil && pm.Maj == 5 && i%3 != 0 {
			pm.RandWidths(r, 1, 1, nil)
			pm.ShuffleMaps(r)
			b.Kids[0].Str = pm.Ser()
			b.Kids[0].Width = pickW(uint64(len(b.Kids[0].Str)), pick(r, []int{-1, 1, 2}))
			tbs := refArray(refTstr("Signature1"), refBstr(b.Kids[0].Str), refBstr(nil), refBstr(b.Kids[2].Str))
			b.Kids[3] = wBstr(refSign(r, k, tbs), -1)
		}
		in := t.Ser()
		m, verr := cose.VerifyHashEnvelope(k.verifier(), append([]byte{}, in...))
		c.Eval("reencode/hashenvelope", hx(in), verr == nil)
		if verr != nil {
			continue
		}
		rep := map[string]any{"kind": "VerifyHashEnvelope", "data": hx(in)}
		out, merr := m.MarshalCBOR()
		if merr != nil {
			c.Fail("C09/reencode-refused", "the message returned by VerifyHashEnvelope cannot be encoded again: "+merr.Error(), rep)
			continue
		}
		if want := renorm("DSign1", t); !bytes.Equal(want, out) {
			c.Fail("C09/reencode-differs", fmt.Sprintf("re-encoding the message returned by VerifyHashEnvelope changed header bytes: got %x want %x", out, want), rep)
		}
		if err := m.Verify(nil, k.verifier()); err != nil {
			c.Fail("C09/verify-after-reencode", "the message returned by VerifyHashEnvelope does not verify: "+err.Error(), rep)
		}
		var m2 cose.Sign1Message
		if err := m2.UnmarshalCBOR(out); err != nil || m2.Verify(nil, k.verifier()) != nil {
			c.Fail("C09/reencoded-rejected", "the re-encoded hash envelope no longer decodes and verifies", rep)
		}
	}
	for i := 0; i < n; i++ {
		kind := pick(r, []string{"DSign1", "DSign1U", "DSignature", "DSignMsg"})
		t := genTreeOfKind(r, kind, defaultCfg)
		canonicalInput := r.Chance(1, 4)
		if !canonicalInput {
			t.RandWidths(r, 1, 2, isEnvelopeHead(kind, t))
			t.ShuffleMaps(r)
			// protected bstr with a wider head than needed, at every layer
			for _, pp := range t.Nodes() {
				n := *pp
				if n.Maj == 4 && len(n.Kids) >= 3 && n.Kids[0].Maj == 2 && n.Kids[1].Maj == 5 && r.Bool() {
					ws := widthsFor(uint64(len(n.Kids[0].Str)))
					n.Kids[0].Width = ws[r.Intn(len(ws))]
				}
			}
		}
		data := t.Ser()
		if (kind == "DSign1" || kind == "DSignMsg") && t.Maj == 6 && i%7 == 3 {
			// the same structure without its tag, offered to the decoder of the tagged kind: whatever a decoder
			// accepts, it reproduces
			data = t.Kids[0].Ser()
		}
		d := decodeCase(c, "reencode/"+kind, kind, data)
		if d.err != nil || d.paniced {
			continue
		}
		rep := map[string]any{"kind": kind, "data": hx(data)}
		if d.reerr != nil {
			c.Fail("C09/reencode-refused", "a decoded, untouched message cannot be encoded again: "+d.reerr.Error(), rep)
			continue
		}
		w, _ := refParseFull(data)
		want := renorm(kind, w)
		if !bytes.Equal(want, d.reenc) {
			c.Fail("C09/reencode-differs", fmt.Sprintf("re-encoding changed more than payload/signature length prefixes: got %x want %x", d.reenc, want), rep)
			continue
		}
		// read-only use of the decoded message (Verify, Countersign0) must not change what it encodes to
		if d.s1 != nil || d.sig != nil || d.sm != nil {
			vf := &spyVerifier{alg: -7}
			sg := &spySigner{alg: -7, kind: SOk, sig: []byte{1}}
			var after []byte
			var aerr error
			switch {
			case d.s1 != nil:
				d.s1.Verify([]byte("x"), vf)
				cose.Countersign0(nil, sg, d.s1, nil)
				if kind == "DSign1" {
					after, aerr = d.s1.MarshalCBOR()
				} else {
					after, aerr = (*cose.UntaggedSign1Message)(d.s1).MarshalCBOR()
				}
			case d.sig != nil:
				d.sig.Verify(vf, []byte{0x40}, []byte("p"), []byte("x"))
				cose.Countersign0(nil, sg, d.sig, nil)
				after, aerr = d.sig.MarshalCBOR()
			case d.sm != nil:
				vfs := make([]cose.Verifier, len(d.sm.Signatures))
				for j := range vfs {
					vfs[j] = vf
				}
				d.sm.Verify([]byte("x"), vfs...)
				cose.Countersign0(nil, sg, d.sm, nil)
				after, aerr = d.sm.MarshalCBOR()
			}
			c.Eval("verify-then-encode/"+kind, hx(data), true)
			if aerr != nil || !bytes.Equal(after, want) {
				c.Fail("C09/encode-after-verify-differs", fmt.Sprintf("after Verify / Countersign0 the decoded message encodes to %x (%v), expected %x", after, aerr, want), rep)
				continue
			}
		}
		// further cycles are the identity
		cur := d.reenc
		for cyc := 0; cyc < 4; cyc++ {
			d2 := decodeKind(kind, cur)
			if d2.err != nil || d2.reerr != nil || !bytes.Equal(d2.reenc, cur) {
				c.Fail("C09/cycle-not-stable", fmt.Sprintf("decode/encode cycle %d changed the message", cyc+2), rep)
				break
			}
			cur = d2.reenc
		}
		c.Eval("cycles/"+kind, hx(data), true)
		// cleared raw bytes: canonical form is a fixed point
		c09Cleared(c, kind, data, rep)
		// one bucket's retained bytes cleared: the other bucket of every layer is still reproduced
		c09Partial(c, kind, data, d.reenc, rep)
	}
	// real signatures made over non-canonical bytes survive re-encoding
	m := 20
	if thorough {
		m = 800
	}
	for i := 0; i < m; i++ {
		k := pick(r, keys)
		ext := genGoExternal(r)
		p, u := genHeadersTree(r, GenCfg{MaxEntries: 5, ValDepth: 2, Csig: 1, Tags: true, NoAlg: true}, int64(k.alg), true)
		payload := wBstr(r.Bytes(pick(r, []int{0, 5, 24, 256})), -1)
		if pm, err := refParseFull(p.Str); err == nil && len(p.Str) > 0 {
			pm.RandWidths(r, 1, 2, nil)
			pm.ShuffleMaps(r)
			p.Str = pm.Ser()
			p.Width = pickW(uint64(len(p.Str)), -1)
		}
		sig := refSign(r, k, refArray(refTstr("Signature1"), refBstr(p.Str), refBstr(orEmpty(ext)), refBstr(payload.Str)))
		t := wTag(18, -1, wArr(-1, p, u, payload, wBstr(sig, -1)))
		t.RandWidths(r, 1, 1, isEnvelopeHead("DSign1", t))
		data := t.Ser()
		d := decodeKind("DSign1", data)
		rep := map[string]any{"kind": "DSign1", "data": hx(data), "alg": k.alg.String()}
		if d.err != nil || d.reerr != nil {
			c.Fail("C09/real-rejected", fmt.Sprintf("validly signed non-canonical message refused: %v %v", d.err, d.reerr), rep)
			continue
		}
		c.Eval("real-signature-survives/"+k.alg.String(), hx(data), true)
		if err := d.s1.Verify(ext, k.verifier()); err != nil {
			c.Fail("C09/verify-before", "signature over the received bytes does not verify: "+err.Error(), rep)
			continue
		}
		var m2 cose.Sign1Message
		if err := m2.UnmarshalCBOR(d.reenc); err != nil {
			c.Fail("C09/reencoded-rejected", "re-encoded message refused: "+err.Error(), rep)
			continue
		}
		if err := m2.Verify(ext, k.verifier()); err != nil {
			c.Fail("C09/verify-after", "signature no longer verifies after decode/encode: "+err.Error(), rep)
		}
		// the receiver adds an unprotected parameter: it clears the retained unprotected bytes only, and the
		// protected bucket, which it did not touch, still carries the signature
		d3 := decodeKind("DSign1", data)
		if d3.err == nil && d3.s1 != nil {
			d3.s1.Headers.RawUnprotected = nil
			if d3.s1.Headers.Unprotected == nil {
				d3.s1.Headers.Unprotected = cose.UnprotectedHeader{}
			}
			d3.s1.Headers.Unprotected["receiver-note"] = "seen"
			out3, err := d3.s1.MarshalCBOR()
			if err != nil {
				continue
			}
			c.Eval("real-signature-survives-unprotected-edit/"+k.alg.String(), hx(data), true)
			var m3 cose.Sign1Message
			if err := m3.UnmarshalCBOR(out3); err != nil {
				c.Fail("C09/reencoded-rejected", "message re-encoded after an unprotected edit is refused: "+err.Error(), rep)
			} else if err := m3.Verify(ext, k.verifier()); err != nil {
				c.Fail("C09/verify-after", "signature no longer verifies after an edit of the unprotected bucket only: "+err.Error(), rep)
			} else if v, ok := m3.Headers.Unprotected["receiver-note"]; !ok || v != "seen" {
				c.Fail("C09/edit-lost", "the unprotected parameter added after clearing RawUnprotected is not in the re-encoded message", rep)
			}
		}
	}
}

// clearRawEmpty: discard the retained bytes by truncation instead of by nil (callers do both)
var clearRawEmpty bool

func clearRaw(h *cose.Headers) {
	h.RawProtected, h.RawUnprotected = nil, nil
	if clearRawEmpty {
		h.RawProtected, h.RawUnprotected = []byte{}, []byte{}
	}
	for _, v := range h.Unprotected {
		switch t := v.(type) {
		case *cose.Countersignature:
			clearRaw(&t.Headers)
		case []*cose.Countersignature:
			for _, e := range t {
				clearRaw(&e.Headers)
			}
		}
	}
}

func c09Cleared(c *Collector, kind string, data []byte, rep map[string]any) {
	enc := func(d *decoded) ([]byte, error) {
		switch {
		case d.s1 != nil:
			clearRaw(&d.s1.Headers)
			if kind == "DSign1" {
				return d.s1.MarshalCBOR()
			}
			return (*cose.UntaggedSign1Message)(d.s1).MarshalCBOR()
		case d.sig != nil:
			clearRaw(&d.sig.Headers)
			return d.sig.MarshalCBOR()
		case d.sm != nil:
			clearRaw(&d.sm.Headers)
			for _, s := range d.sm.Signatures {
				clearRaw(&s.Headers)
			}
			return d.sm.MarshalCBOR()
		}
		return nil, errRef
	}
	d := decodeKind(kind, data)
	c1, err := enc(&d)
	// discarding by truncation (raw[:0]) is the same as discarding by nil
	{
		clearRawEmpty = true
		de := decodeKind(kind, data)
		ce, eerr := enc(&de)
		clearRawEmpty = false
		if (eerr == nil) != (err == nil) || !bytes.Equal(ce, c1) {
			c.Fail("C09/cleared-by-truncation-differs", fmt.Sprintf("raw bytes set to an empty slice: %x (%v); set to nil: %x (%v)", ce, eerr, c1, err), rep)
		}
	}
	if err != nil {
		// an accepted message whose decoded form cannot be encoded has no canonical form
		c.Eval("cleared/unencodable", hx(data), true)
		c.Fail("C09/cleared-not-encodable", "a decoded message cannot be encoded any more once its retained raw bytes are discarded: "+err.Error(), rep)
		return
	}
	// the model's view of the cleared encoding
	switch {
	case d.s1 != nil:
		op, obs, _, _, _ := execEncSign1(kind == "DSign1", d.s1)
		addCase(c, "cleared/enc-sign1", op, obs, true)
	case d.sig != nil:
		op, obs, _, _, _ := execEncSignature(d.sig)
		addCase(c, "cleared/enc-signature", op, obs, true)
	case d.sm != nil:
		op, obs, _, _, _ := execEncSignMsg(d.sm)
		addCase(c, "cleared/enc-signmsg", op, obs, true)
	}
	d1 := decodeKind(kind, c1)
	if d1.err != nil {
		c.Fail("C09/cleared-not-decodable", "canonical re-encoding is refused by the decoder: "+d1.err.Error(), rep)
		return
	}
	c2, err := enc(&d1)
	if err != nil || !bytes.Equal(c1, c2) {
		c.Fail("C09/cleared-not-idempotent", fmt.Sprintf("canonical form is not a fixed point: %x then %x (%v)", c1, c2, err), rep)
	}
	c.Eval("cleared/"+kind, hx(data), true)
}

func toI64(k any) (int64, bool) {
	switch v := k.(type) {
	case int:
		return int64(v), true
	case int8:
		return int64(v), true
	case int16:
		return int64(v), true
	case int32:
		return int64(v), true
	case int64:
		return v, true
	case uint:
		return int64(v), true
	case uint8:
		return int64(v), true
	case uint16:
		return int64(v), true
	case uint32:
		return int64(v), true
	case uint64:
		return int64(v), true
	}
	return 0, false
}

func vcontents(v *spyVerifier) [][]byte {
	var out [][]byte
	for _, c := range v.calls {
		out = append(out, c.content)
	}
	return out
}

// layers lists the header sets of a decoded value in a fixed order: the body, its countersignatures
// (recursively), then each signer with its countersignatures.
func layersOf(d *decoded) []*cose.Headers {
	var out []*cose.Headers
	var walk func(h *cose.Headers)
	walk = func(h *cose.Headers) {
		out = append(out, h)
		for _, lbl := range []int64{11, 7} {
			switch t := h.Unprotected[lbl].(type) {
			case *cose.Countersignature:
				if t != nil {
					walk(&t.Headers)
				}
			case []*cose.Countersignature:
				for _, e := range t {
					if e != nil {
						walk(&e.Headers)
					}
				}
			}
		}
	}
	switch {
	case d.s1 != nil:
		walk(&d.s1.Headers)
	case d.sig != nil:
		walk(&d.sig.Headers)
	case d.sm != nil:
		walk(&d.sm.Headers)
		for _, s := range d.sm.Signatures {
			if s != nil {
				walk(&s.Headers)
			}
		}
	}
	return out
}

func encodeDecoded(kind string, d *decoded) ([]byte, error) {
	switch {
	case d.s1 != nil:
		if kind == "DSign1" {
			return d.s1.MarshalCBOR()
		}
		return (*cose.UntaggedSign1Message)(d.s1).MarshalCBOR()
	case d.sig != nil:
		return d.sig.MarshalCBOR()
	case d.sm != nil:
		return d.sm.MarshalCBOR()
	}
	return nil, errRef
}

// c09Partial clears the retained bytes of one bucket only, in every layer, re-encodes and decodes again: the
// bucket whose retained bytes were kept is the same as in the untouched re-encoding, layer by layer.
func c09Partial(c *Collector, kind string, data, untouched []byte, rep map[string]any) {
	ref := decodeKind(kind, untouched)
	if ref.err != nil {
		return
	}
	refLayers := layersOf(&ref)
	for _, which := range []string{"unprotected-cleared", "protected-cleared"} {
		d := decodeKind(kind, data)
		if d.err != nil {
			return
		}
		for _, h := range layersOf(&d) {
			if which == "unprotected-cleared" {
				h.RawUnprotected = nil
			} else {
				h.RawProtected = nil
			}
		}
		out, err := encodeDecoded(kind, &d)
		if err != nil {
			c.Eval("partial/"+which+"/unencodable", hx(data), false)
			continue
		}
		c.Eval("partial/"+which+"/"+kind, hx(data), true)
		d2 := decodeKind(kind, out)
		if d2.err != nil {
			c.Fail("C09/partial-not-decodable", which+": the re-encoding is refused by the decoder: "+d2.err.Error(), rep)
			continue
		}
		got := layersOf(&d2)
		if len(got) != len(refLayers) {
			c.Fail("C09/partial-differs", fmt.Sprintf("%s: %d header layers after re-encoding, %d before", which, len(got), len(refLayers)), rep)
			continue
		}
		for i := range got {
			a, b := got[i].RawProtected, refLayers[i].RawProtected
			if which == "protected-cleared" {
				a, b = got[i].RawUnprotected, refLayers[i].RawUnprotected
			}
			if !bytes.Equal(a, b) {
				c.Fail("C09/partial-differs", fmt.Sprintf("%s: layer %d: the bucket whose retained bytes were kept came out as %x, received %x", which, i, a, b), rep)
				break
			}
		}
	}
}

func nilOrHex(b []byte) string {
	if b == nil {
		return "nil"
	}
	return "h'" + hx(b) + "'"
}

// c08Keys: EC2 / OKP keys built in memory with every combination of absent, empty, short, full-width and boolean (sign
// bit of a compressed point) coordinates: the serialisation carries the parameters the key has and no others - nothing
// absent is invented, a boolean stays a boolean, given octets stay the low-order octets of what is written.
func c08Keys(c *Collector) {
	type cv struct {
		name string
		v    any
		has  bool
	}
	coord := func(size int) []cv {
		full := bytes.Repeat([]byte{0x5a}, size)
		return []cv{{"absent", nil, false}, {"empty", []byte{}, true}, {"short", []byte{1, 2, 3, 4, 5}, true}, {"full", full, true}, {"true", true, true}, {"false", false, true}}
	}
	for _, crv := range []struct {
		id   int64
		size int
		kty  cose.KeyType
	}{{1, 32, cose.KeyTypeEC2}, {2, 48, cose.KeyTypeEC2}, {3, 66, cose.KeyTypeEC2}, {9, 32, cose.KeyTypeEC2}, {6, 32, cose.KeyTypeOKP}} {
		for _, x := range coord(crv.size) {
			for _, y := range coord(crv.size) {
				for _, d := range coord(crv.size)[:3] {
					if crv.kty == cose.KeyTypeOKP && y.has {
						continue
					}
					params := map[any]any{int64(-1): cose.Curve(crv.id)}
					given := map[int64]any{}
					for lbl, cvv := range map[int64]cv{-2: x, -3: y, -4: d} {
						if cvv.has {
							params[lbl] = cvv.v
							given[lbl] = cvv.v
						}
					}
					k := cose.Key{Type: crv.kty, Params: params}
					op, obs, out, err, p := execEncKey(&k)
					c08Check(c, "enc/key-coordinates", op, obs, out, err, p, "DKey", func() ([]byte, error) { return k.MarshalCBOR() }, 1, false)
					if err != nil || p {
						continue
					}
					rep := map[string]any{"crv": crv.id, "x": x.name, "y": y.name, "d": d.name, "out": hx(out)}
					w, perr := refParseFull(out)
					if perr != nil || w.Maj != 5 {
						continue
					}
					seen := map[int64]*W{}
					for j := 0; j+1 < len(w.Kids); j += 2 {
						kk := w.Kids[j]
						var lbl int64
						switch kk.Maj {
						case 0:
							lbl = int64(kk.Val)
						case 1:
							lbl = -1 - int64(kk.Val)
						default:
							continue
						}
						seen[lbl] = w.Kids[j+1]
					}
					for _, lbl := range []int64{-2, -3, -4} {
						gv, has := given[lbl]
						wv, onWire := seen[lbl]
						switch {
						case !has && onWire:
							c.Fail("C08/key-parameter-invented", fmt.Sprintf("the key has no parameter %d; its serialisation carries one (%x)", lbl, wv.Ser()), rep)
						case has && !onWire:
							c.Fail("C08/key-parameter-dropped", fmt.Sprintf("the key has parameter %d; its serialisation has none", lbl), rep)
						case has && onWire:
							if b, isBool := gv.(bool); isBool {
								if wv.Maj != 7 || (b && wv.Val != 21) || (!b && wv.Val != 20) {
									c.Fail("C08/key-parameter-changed", fmt.Sprintf("parameter %d is the boolean %v; its serialisation carries %x", lbl, b, wv.Ser()), rep)
								}
							} else if gb, isBytes := gv.([]byte); isBytes {
								if wv.Maj != 2 || !bytes.HasSuffix(wv.Str, gb) || len(bytes.Trim(wv.Str[:len(wv.Str)-len(gb)], "\x00")) != 0 {
									c.Fail("C08/key-parameter-changed", fmt.Sprintf("parameter %d is %x; its serialisation carries %x", lbl, gb, wv.Ser()), rep)
								}
							}
						}
					}
				}
			}
		}
	}
}

// c08KeyOps: key_ops in every state a key can hold them (nil, empty but present, one entry, several, repeated entries,
// values outside the registry): the serialisation carries parameter 4 exactly when the key has the list, with the same
// entries in the same order, and parses back to a key with the same restrictions.
func c08KeyOps(c *Collector) {
	for oi, ops := range [][]cose.KeyOp{nil, {}, {cose.KeyOpSign}, {cose.KeyOpVerify}, {cose.KeyOpSign, cose.KeyOpVerify}, {cose.KeyOpVerify, cose.KeyOpVerify}, {99}, {-1, 2}} {
		for _, kty := range []cose.KeyType{cose.KeyTypeOKP, cose.KeyTypeEC2, cose.KeyTypeSymmetric} {
			k := cose.Key{Type: kty, Ops: ops, Params: map[any]any{}}
			switch kty {
			case cose.KeyTypeOKP:
				k.Params[cose.KeyLabelOKPCurve] = cose.CurveEd25519
				k.Params[cose.KeyLabelOKPX] = bytes.Repeat([]byte{3}, 32)
			case cose.KeyTypeEC2:
				k.Params[cose.KeyLabelEC2Curve] = cose.CurveP256
				k.Params[cose.KeyLabelEC2X] = bytes.Repeat([]byte{3}, 32)
				k.Params[cose.KeyLabelEC2Y] = bytes.Repeat([]byte{4}, 32)
			default:
				k.Params[cose.KeyLabelSymmetricK] = []byte{1, 2, 3}
			}
			op, obs, out, err, p := execEncKey(&k)
			c08Check(c, "enc/key-ops", op, obs, out, err, p, "DKey", func() ([]byte, error) { return k.MarshalCBOR() }, 1, false)
			if err != nil || p {
				continue
			}
			rep := map[string]any{"kty": int64(kty), "ops": fmt.Sprint(ops), "ops_nil": ops == nil, "out": hx(out), "case": oi}
			w, perr := refParseFull(out)
			if perr != nil || w.Maj != 5 {
				continue
			}
			var onWire *W
			for j := 0; j+1 < len(w.Kids); j += 2 {
				if w.Kids[j].Maj == 0 && w.Kids[j].Val == 4 {
					onWire = w.Kids[j+1]
				}
			}
			switch {
			case ops == nil && onWire != nil:
				c.Fail("C08/key-parameter-invented", fmt.Sprintf("the key has no key_ops; its serialisation carries %x", onWire.Ser()), rep)
			case ops != nil && onWire == nil:
				c.Fail("C08/key-parameter-dropped", fmt.Sprintf("the key has key_ops %v (present, %d entries); its serialisation has no parameter 4", ops, len(ops)), rep)
			case ops != nil && (onWire.Maj != 4 || len(onWire.Kids) != len(ops)):
				c.Fail("C08/key-parameter-changed", fmt.Sprintf("the key has key_ops %v; its serialisation carries %x", ops, onWire.Ser()), rep)
			}
			var back cose.Key
			if err := back.UnmarshalCBOR(out); err != nil {
				c.Fail("C08/not-decodable", "a serialised key cannot be parsed back: "+err.Error(), rep)
			} else if (back.Ops == nil) != (ops == nil) || len(back.Ops) != len(ops) {
				c.Fail("C08/not-equivalent", fmt.Sprintf("key_ops %v (nil=%v) come back as %v (nil=%v)", ops, ops == nil, back.Ops, back.Ops == nil), rep)
			}
		}
	}
}

// c08CsigLists: unprotected buckets holding lists of two to four different countersignatures (labels 7 and 11): the
// serialisation is canonical, parses back, and every parsed entry is the entry at that position - same protected
// bucket, same unprotected bucket, same signature.
func c08CsigLists(c *Collector) {
	for _, label := range []int64{7, 11} {
		for n := 2; n <= 4; n++ {
			var list []*cose.Countersignature
			for e := 0; e < n; e++ {
				list = append(list, &cose.Countersignature{Headers: cose.Headers{
					Protected:   cose.ProtectedHeader{cose.HeaderLabelAlgorithm: cose.AlgorithmES256, cose.HeaderLabelKeyID: []byte{byte('a' + e)}},
					Unprotected: cose.UnprotectedHeader{int64(-70050): int64(e)}}, Signature: []byte{byte(0x20 + e), 0xdd}})
			}
			u := cose.UnprotectedHeader{label: list}
			op, obs, out, err, p := execEncUnprot(u)
			c08Check(c, "enc/countersignature-list", op, obs, out, err, p, "DUnprot", func() ([]byte, error) { return u.MarshalCBOR() }, 1, false)
			if err != nil || p {
				continue
			}
			rep := map[string]any{"label": label, "entries": n, "out": hx(out)}
			var back cose.UnprotectedHeader
			if err := back.UnmarshalCBOR(out); err != nil {
				c.Fail("C08/not-decodable", "an encoded list of countersignatures cannot be parsed back: "+err.Error(), rep)
				continue
			}
			got, ok := back[label].([]*cose.Countersignature)
			if !ok || len(got) != n {
				c.Fail("C08/not-equivalent", fmt.Sprintf("a list of %d countersignatures comes back as %T of %d", n, back[label], len(got)), rep)
				continue
			}
			for e, cs := range got {
				kid, _ := cs.Headers.Protected[cose.HeaderLabelKeyID].([]byte)
				idx, _ := cs.Headers.Unprotected[int64(-70050)].(int64)
				if cs == nil || !bytes.Equal(kid, []byte{byte('a' + e)}) || idx != int64(e) || !bytes.Equal(cs.Signature, []byte{byte(0x20 + e), 0xdd}) {
					c.Fail("C08/not-equivalent", fmt.Sprintf("entry %d of %d comes back with kid %x, index %d, signature %x", e, n, kid, idx, cs.Signature), rep)
					break
				}
			}
			// ... and inside a message
			m := &cose.Sign1Message{Headers: cose.Headers{Protected: cose.ProtectedHeader{cose.HeaderLabelAlgorithm: cose.AlgorithmES256}, Unprotected: u}, Payload: []byte("p"), Signature: []byte{1}}
			if mb, err := m.MarshalCBOR(); err == nil {
				var mback cose.Sign1Message
				if err := mback.UnmarshalCBOR(mb); err == nil {
					if got, ok := mback.Headers.Unprotected[label].([]*cose.Countersignature); ok && len(got) == n {
						for e, cs := range got {
							if !bytes.Equal(cs.Signature, []byte{byte(0x20 + e), 0xdd}) {
								c.Fail("C08/not-equivalent", fmt.Sprintf("inside a COSE_Sign1: entry %d of %d comes back with signature %x", e, n, cs.Signature), rep)
								break
							}
						}
					}
				}
			}
		}
	}
}

type c08Named []byte

// c08ByteLikeValues: the byte-string parameters (kid, IV, Partial IV, abbreviated countersignatures) given as Go values
// that look like byte slices but are not []byte - named slices, raw CBOR, cbor.ByteString, byte arrays: whatever an
// encoder or Sign helper accepts and emits, the decoder accepts, and the parameter comes back as the octets that went in.
func c08ByteLikeValues(c *Collector) {
	vals := []struct {
		name   string
		v      any
		octets []byte
	}{
		{"[]byte", []byte{1, 2}, []byte{1, 2}}, {"named slice", c08Named{1, 2}, []byte{1, 2}}, {"raw CBOR of an integer", cbor.RawMessage{0x01}, []byte{0x01}},
		{"raw CBOR of a byte string", cbor.RawMessage{0x41, 0x01}, []byte{0x41, 0x01}}, {"raw CBOR of a map", cbor.RawMessage{0xa0}, []byte{0xa0}}, {"cbor.ByteString", cbor.ByteString("ab"), []byte("ab")},
		{"byte array", [2]byte{1, 2}, []byte{1, 2}}, {"[]uint8 nil", []byte(nil), nil}, {"string", "ab", nil},
	}
	for _, label := range []int64{4, 5, 6, 9, 12} {
		for _, v := range vals {
			for _, inProtected := range []bool{true, false} {
				if inProtected && (label == 9 || label == 12) {
					continue
				}
				h := cose.Headers{Protected: cose.ProtectedHeader{cose.HeaderLabelAlgorithm: cose.AlgorithmES256}, Unprotected: cose.UnprotectedHeader{}}
				if inProtected {
					h.Protected[label] = v.v
				} else {
					h.Unprotected[label] = v.v
				}
				sg := &spySigner{alg: -7, kind: SOk, sig: []byte{1, 2}}
				var out []byte
				var err error
				if p, _ := protect(func() { out, err = cose.Sign1(nil, sg, h, []byte("p"), nil) }); p {
					c.Fail("C08/panic", "Sign1 panicked", map[string]any{"label": label, "value": v.name})
					continue
				}
				c.Eval("byte-like-values", fmt.Sprint(label, v.name, inProtected), true)
				if err != nil {
					continue
				}
				rep := map[string]any{"label": label, "value": v.name, "protected": inProtected, "out": hx(out)}
				var back cose.Sign1Message
				if derr := back.UnmarshalCBOR(out); derr != nil {
					c.Fail("C08/helper-not-decodable", fmt.Sprintf("Sign1 accepted parameter %d given as %s and returned bytes its own decoder refuses: %v", label, v.name, derr), rep)
					continue
				}
				var got any
				if inProtected {
					got = back.Headers.Protected[label]
				} else {
					got = back.Headers.Unprotected[label]
				}
				if gb, ok := got.([]byte); !ok || !bytes.Equal(gb, v.octets) {
					c.Fail("C08/not-equivalent", fmt.Sprintf("parameter %d given as %s (octets %x) comes back as %T %v", label, v.name, v.octets, got, got), rep)
				}
			}
		}
	}
	// the body layer of a COSE_Sign is a layer like any other: IV in one bucket and Partial IV in the other is refused by
	// the encoder, as it is by the decoder
	for _, swap := range []bool{false, true} {
		p, u := cose.ProtectedHeader{int64(5): []byte{1}}, cose.UnprotectedHeader{int64(6): []byte{2}}
		if swap {
			p, u = cose.ProtectedHeader{int64(6): []byte{1}}, cose.UnprotectedHeader{int64(5): []byte{}}
		}
		sm := &cose.SignMessage{Headers: cose.Headers{Protected: p, Unprotected: u}, Payload: []byte("p"), Signatures: []*cose.Signature{{Headers: cose.Headers{Protected: cose.ProtectedHeader{cose.HeaderLabelAlgorithm: cose.AlgorithmES256}}, Signature: []byte{1}}}}
		out, err := sm.MarshalCBOR()
		c.Eval("signmsg-body-iv-split", fmt.Sprint(swap), true)
		if err == nil {
			var back cose.SignMessage
			if derr := back.UnmarshalCBOR(out); derr != nil {
				c.Fail("C08/not-decodable", "SignMessage.MarshalCBOR returned bytes its own decoder refuses: "+derr.Error(), map[string]any{"out": hx(out)})
			}
		}
	}
}

// c08Floats: float64 header values of every class of bit pattern (finite, +-0, subnormal, largest, the infinities,
// quiet / signalling NaNs with payloads and either sign), alone, in an array and in a nested map, in both buckets:
// the bytes are the ones the rule of the encoder mode prescribes (NaN -> f9 7e00, infinities -> half precision,
// everything else fb + the 64 bits), canonical, equal to the model's, accepted by the decoder, the value comes back
// (a NaN as a NaN), and the decoded bucket encodes to the same bytes again (EncDec.enc_dec / FixedPoint.rel_enc,
// float case).
func c08Floats(c *Collector) {
	bits := []uint64{0x3ff8000000000000, 0xbff8000000000000, 0, 0x8000000000000000, 1, 0x800fffffffffffff, 0x0010000000000000,
		0x7fefffffffffffff, 0xffefffffffffffff, 0x7ff0000000000000, 0xfff0000000000000, 0x7ff8000000000000, 0x7ff8000000000001,
		0x7ff0000000000001, 0xfff8000000000000, 0xffffffffffffffff, 0x7ff4000000000000, 0x3c00000000000000, 0x7e00000000000000,
		0x40091eb851eb851f, 0x4170000000000000, 0x47efffffe0000000, 0x3810000000000000, 0x7fefffffffffffff - 1, 0x7ff0000000000000 - 1,
		0x7ff0000000000000 + (1 << 51), 0xfff0000000000000 + 1}
	want := func(b uint64) []byte {
		f := math.Float64frombits(b)
		switch {
		case math.IsNaN(f):
			return []byte{0xf9, 0x7e, 0x00}
		case math.IsInf(f, 1):
			return []byte{0xf9, 0x7c, 0x00}
		case math.IsInf(f, -1):
			return []byte{0xf9, 0xfc, 0x00}
		}
		out := []byte{0xfb, 0, 0, 0, 0, 0, 0, 0, 0}
		binary.BigEndian.PutUint64(out[1:], b)
		return out
	}
	same := func(a any, b uint64) bool {
		f, ok := a.(float64)
		if !ok {
			return false
		}
		if math.IsNaN(math.Float64frombits(b)) {
			return math.IsNaN(f)
		}
		return math.Float64bits(f) == b
	}
	cGvRawNaN = true
	defer func() { cGvRawNaN = false }()
	for _, b := range bits {
		f := math.Float64frombits(b)
		for shape := 0; shape < 3; shape++ {
			var v any = f
			var item []byte
			switch shape {
			case 1:
				v = []any{int64(1), f, "x"}
				item = append(append([]byte{0x83, 0x01}, want(b)...), 0x61, 'x')
			case 2:
				v = map[any]any{"f": f, int64(2): []any{f}}
				item = append(append(append([]byte{0xa2, 0x02, 0x81}, want(b)...), 0x61, 'f'), want(b)...)
			default:
				item = want(b)
			}
			pick1 := func(got any) (any, bool) {
				switch shape {
				case 1:
					a, ok := got.([]any)
					if !ok || len(a) != 3 {
						return nil, false
					}
					return a[1], true
				case 2:
					m, ok := got.(map[any]any)
					if !ok || len(m) != 2 {
						return nil, false
					}
					a, ok := m[int64(2)].([]any)
					if !ok || len(a) != 1 || !same(a[0], b) {
						return nil, false
					}
					return m["f"], true
				}
				return got, true
			}
			for _, prot := range []bool{true, false} {
				rep := map[string]any{"bits": fmt.Sprintf("%016x", b), "shape": shape, "protected": prot}
				var op, obs string
				var out []byte
				var err error
				var p bool
				var exp []byte
				if prot {
					ph := cose.ProtectedHeader{cose.HeaderLabelAlgorithm: cose.AlgorithmES256, int64(300): v}
					op, obs, out, err, p = execEncProt(ph)
					c08Check(c, "enc/protected-float", op, obs, out, err, p, "DProt", func() ([]byte, error) { return ph.MarshalCBOR() }, 3, true)
					content := append([]byte{0xa2, 0x01, 0x26, 0x19, 0x01, 0x2c}, item...)
					exp = refBstr(content)
				} else {
					uh := cose.UnprotectedHeader{int64(300): v}
					op, obs, out, err, p = execEncUnprot(uh)
					c08Check(c, "enc/unprotected-float", op, obs, out, err, p, "DUnprot", func() ([]byte, error) { return uh.MarshalCBOR() }, 3, true)
					exp = append([]byte{0xa1, 0x19, 0x01, 0x2c}, item...)
				}
				c.Eval("float-values", fmt.Sprintf("%016x/%d/%v", b, shape, prot), err == nil)
				if p {
					continue
				}
				rep["out"] = hx(out)
				if err != nil {
					c.Fail("C08/float-refused", fmt.Sprintf("a bucket holding the float64 %016x is refused by the encoder: %v", b, err), rep)
					continue
				}
				if !bytes.Equal(out, exp) {
					c.Fail("C08/float-bytes", fmt.Sprintf("float64 %016x: encoder wrote %x, the encoding rule (NaN f97e00, infinities in half precision, otherwise 64 bits) gives %x", b, out, exp), rep)
					continue
				}
				var got any
				var again []byte
				var e2 error
				if prot {
					var back cose.ProtectedHeader
					if back.UnmarshalCBOR(out) != nil {
						continue // reported by c08Check
					}
					got = back[int64(300)]
					again, e2 = back.MarshalCBOR()
				} else {
					var back cose.UnprotectedHeader
					if back.UnmarshalCBOR(out) != nil {
						continue
					}
					got = back[int64(300)]
					again, e2 = back.MarshalCBOR()
				}
				if g1, ok := pick1(got); !ok || !same(g1, b) {
					c.Fail("C08/not-equivalent", fmt.Sprintf("float64 %016x comes back as %T %v", b, got, got), rep)
				}
				if e2 != nil || !bytes.Equal(again, out) {
					c.Fail("C08/float-not-fixed-point", fmt.Sprintf("the decoded bucket encodes to %x (%v), not to the bytes it was decoded from", again, e2), rep)
				}
			}
		}
	}
}

func mustParse(b []byte) *W {
	w, err := refParseFull(b)
	if err != nil {
		return &W{}
	}
	return w
}

// c08KeyLabelTwice: a COSE_Key whose Params hold one label under two Go integer kinds (the normal form int64 and any
// other): one COSE label twice. Every one of 64 encodings (Go's map order differs from call to call) is refused;
// none ever returns bytes with one of the two values silently dropped.
func c08KeyLabelTwice(c *Collector) {
	for li, label := range []int64{-1, -2, -3, -4, -70000, 70000} {
		for ai, alt := range []func(int64) any{
			func(n int64) any { return int(n) }, func(n int64) any { return int8(n) }, func(n int64) any { return int32(n) },
			func(n int64) any { return uint16(n) }, func(n int64) any { return uint64(n) },
		} {
			other := alt(label)
			if n, ok := toI64(other); !ok || n != label {
				continue // the label does not fit that kind
			}
			k := cose.Key{Type: cose.KeyTypeEC2, Params: map[any]any{
				cose.KeyLabelEC2Curve: cose.CurveP256, cose.KeyLabelEC2X: bytes.Repeat([]byte{3}, 32), cose.KeyLabelEC2Y: bytes.Repeat([]byte{4}, 32),
				int64(-70001): "a", int64(-70002): "b", int64(-70003): "c", int64(-70004): "d"}}
			k.Params[label] = k.Params[label]
			if k.Params[label] == nil {
				k.Params[label] = []byte{1}
			}
			k.Params[other] = []byte{2}
			accepted := 0
			var sample []byte
			for rep := 0; rep < 64; rep++ {
				if out, err := k.MarshalCBOR(); err == nil {
					accepted++
					sample = out
				}
			}
			c.Eval("enc/key-label-twice", fmt.Sprint(li, ai), true)
			if accepted > 0 {
				c.Fail("C08/nondeterministic", fmt.Sprintf("a key holding label %d under int64 and under %T: %d of 64 encodings succeeded (one of the two values dropped), the others were refused", label, other, accepted), map[string]any{"label": label, "second_kind": fmt.Sprintf("%T", other), "out": hx(sample)})
			}
		}
	}
}
