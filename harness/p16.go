package main

import (
	"bytes"
	"crypto"
	"crypto/ecdsa"
	"crypto/elliptic"
	"encoding/asn1"
	"fmt"
	"io"
	"math/big"
	"sync"

	cose "github.com/veraison/go-cose"
)

func init() { runners["C16"] = runC16 }

type curveInfo struct {
	name  string
	curve elliptic.Curve
	alg   cose.Algorithm
	n     int // byte length of the curve order
	hash  crypto.Hash
}

var curves = []curveInfo{
	{"P-256", elliptic.P256(), cose.AlgorithmES256, 32, crypto.SHA256},
	{"P-384", elliptic.P384(), cose.AlgorithmES384, 48, crypto.SHA384},
	{"P-521", elliptic.P521(), cose.AlgorithmES512, 66, crypto.SHA512},
}

// stubSigner is a crypto.Signer that returns a scripted ASN.1 signature.
type stubSigner struct {
	pub crypto.PublicKey
	out []byte
	err error
}

func (s *stubSigner) Public() crypto.PublicKey { return s.pub }
func (s *stubSigner) Sign(io.Reader, []byte, crypto.SignerOpts) ([]byte, error) {
	return s.out, s.err
}

// stubMessageSigner: a stubSigner that also has the SignMessage method of message-signing key handles
type stubMessageSigner struct{ stubSigner }

func (s *stubMessageSigner) SignMessage(io.Reader, []byte, crypto.SignerOpts) ([]byte, error) {
	return s.out, s.err
}

func prm0(c elliptic.Curve) *elliptic.CurveParams { return c.Params() }

func derRS(r, s *big.Int) []byte {
	b, err := asn1.Marshal(struct{ R, S *big.Int }{r, s})
	if err != nil {
		panic(err)
	}
	return b
}

func digestOf(h crypto.Hash, msg []byte) []byte {
	hh := h.New()
	hh.Write(msg)
	return hh.Sum(nil)
}

// interesting (r or s) values for a curve of order-size n bytes
func rsCandidates(r *Rng, ci curveInfo) []*big.Int {
	N := ci.curve.Params().N
	one := big.NewInt(1)
	out := []*big.Int{
		big.NewInt(0), big.NewInt(1), big.NewInt(255), big.NewInt(256),
		new(big.Int).Sub(N, one),
		new(big.Int).Sub(new(big.Int).Lsh(one, uint(8*ci.n)), one), // 2^(8n)-1
		new(big.Int).Lsh(one, uint(8*ci.n)),                        // 2^(8n): too large
		new(big.Int).Lsh(one, uint(8*ci.n+3)),
		big.NewInt(-1), big.NewInt(-256),
	}
	// leading zero classes: j leading zero bytes
	for _, j := range []int{1, 2, 3, ci.n / 2, ci.n - 1} {
		lim := new(big.Int).Lsh(one, uint(8*(ci.n-j)))
		v := r.BigBelow(lim)
		// force the top byte of the remaining part to be non-zero
		v.SetBit(v, 8*(ci.n-j)-1, 1)
		out = append(out, v)
	}
	for k := 0; k < 4; k++ {
		out = append(out, r.BigBelow(N))
	}
	for _, k := range []uint{7, 8, 15, 16, uint(8*ci.n - 8), uint(8*ci.n - 1)} {
		out = append(out, new(big.Int).Lsh(one, k))
	}
	return out
}

func runC16(c *Collector, r *Rng, thorough bool) {
	c.Rule = "stub crypto.Signer returning DER(r,s) for boundary classes of r,s on 3 curves; native signing until leading-zero halves occur; verifier fed every length 0..2n+4, DER, stripped/padded halves; a case is non-trivial if 0<=r,s<2^(8n) (sign) or the offered signature has length 2n or is derived from a valid one (verify); distinct by op term"
	msg := []byte("to be signed")
	for _, ci := range curves {
		key, err := ecdsa.GenerateKey(ci.curve, r)
		if err != nil {
			panic(err)
		}
		digest := digestOf(ci.hash, msg)
		lim := new(big.Int).Lsh(big.NewInt(1), uint(8*ci.n))

		signVia := func(class string, rr, ss *big.Int, fail bool) {
			st := &stubSigner{pub: &key.PublicKey}
			if fail {
				st.err = errScripted
			} else {
				st.out = derRS(rr, ss)
			}
			sg, err := cose.NewSigner(ci.alg, st)
			if err != nil {
				c.Fail("C16/newsigner", "NewSigner refused a crypto.Signer with an ECDSA public key: "+err.Error(), map[string]any{"curve": ci.name})
				return
			}
			var sig []byte
			var serr error
			if p, v := protect(func() { sig, serr = sg.Sign(r, msg) }); p {
				c.Add(class, fmt.Sprintf("OpEcdsaSign %d %s", ci.n, cOptPairZ(rr, ss, !fail)), oPanic(), true)
				c.Fail("C16/panic", fmt.Sprint("Sign panicked: ", v), map[string]any{"curve": ci.name, "r": rr.String(), "s": ss.String()})
				return
			}
			inRange := !fail && rr.Sign() >= 0 && ss.Sign() >= 0 && rr.Cmp(lim) < 0 && ss.Cmp(lim) < 0
			obs := ""
			if serr != nil {
				obs = oErr(serr)
				if inRange {
					c.Fail("C16/sign-refused", "in-range (r,s) refused: "+serr.Error(), map[string]any{"curve": ci.name, "r": rr.String(), "s": ss.String()})
				}
			} else {
				obs = oOk(oB(sig))
				// property oracle: exactly 2n bytes, r then s, big-endian, left-padded
				want := append(rr.FillBytes(make([]byte, ci.n)), ss.FillBytes(make([]byte, ci.n))...)
				if !inRange || len(sig) != 2*ci.n || string(want) != string(sig) {
					c.Fail("C16/sign-format", fmt.Sprintf("signature is not fixed-width r||s: got %x", sig), map[string]any{"curve": ci.name, "r": rr.String(), "s": ss.String()})
				}
			}
			c.Add(class, fmt.Sprintf("OpEcdsaSign %d %s", ci.n, cOptPairZ(rr, ss, !fail)), obs, inRange)
		}

		cands := rsCandidates(r, ci)
		for _, rr := range cands {
			for _, ss := range cands {
				if !thorough && r.Intn(3) != 0 {
					continue
				}
				signVia("sign/stub/"+ci.name, rr, ss, false)
			}
		}
		// (r, s) chosen by the length of their DER encoding: every split of the integer lengths for which
		// the whole DER signature is 2n-1, 2n or 2n+1 bytes long (as long as the fixed-width form itself)
		withLen := func(a int, top bool) *big.Int {
			v := r.BigBelow(new(big.Int).Lsh(big.NewInt(1), uint(8*a)))
			v.SetBit(v, 8*a-2, 1) // exactly a significant bytes
			if top {
				v.SetBit(v, 8*a-1, 1)
			} else {
				v.SetBit(v, 8*a-1, 0)
			}
			return v
		}
		for a := 1; a <= ci.n; a++ {
			if !thorough && a%3 != r.Intn(3) && a > 4 && a < ci.n-4 {
				continue
			}
			for _, ta := range []bool{false, true} {
				rr := withLen(a, ta)
				for _, target := range []int{2*ci.n - 1, 2 * ci.n, 2*ci.n + 1} {
				search:
					for b := 1; b <= ci.n; b++ {
						for _, tb := range []bool{false, true} {
							ss := withLen(b, tb)
							if len(derRS(rr, ss)) == target {
								signVia(fmt.Sprintf("sign/stub-der-length-%+d/%s", target-2*ci.n, ci.name), rr, ss, false)
								signVia(fmt.Sprintf("sign/stub-der-length-%+d/%s", target-2*ci.n, ci.name), ss, rr, false)
								break search
							}
						}
					}
				}
			}
		}
		signVia("sign/stub-fails/"+ci.name, big.NewInt(1), big.NewInt(1), true)
		// algorithm / curve combinations the library allows: the width follows the key's curve on both paths
		for _, other := range curves {
			if other.alg == ci.alg {
				continue
			}
			for _, rs := range [][2]*big.Int{{big.NewInt(1), big.NewInt(1)}, {new(big.Int).Sub(ci.curve.Params().N, big.NewInt(1)), big.NewInt(255)}} {
				st := &stubSigner{pub: &key.PublicKey, out: derRS(rs[0], rs[1])}
				sgx, err := cose.NewSigner(other.alg, st)
				if err != nil {
					continue
				}
				sig, serr := sgx.Sign(r, msg)
				obs := ""
				if serr != nil {
					obs = oErr(serr)
				} else {
					obs = oOk(oB(sig))
				}
				c.Add("sign/stub-cross-alg/"+ci.name+"/"+other.alg.String(), fmt.Sprintf("OpEcdsaSign %d %s", ci.n, cOptPairZ(rs[0], rs[1], true)), obs, true)
				want := append(rs[0].FillBytes(make([]byte, ci.n)), rs[1].FillBytes(make([]byte, ci.n))...)
				if serr != nil || string(sig) != string(want) {
					c.Fail("C16/sign-format-cross-alg", fmt.Sprintf("key on %s used with %v through a crypto.Signer: got %x (%v), want %d-byte r||s", ci.name, other.alg, sig, serr, 2*ci.n), map[string]any{"curve": ci.name, "alg": other.alg.String()})
				}
			}
			// native path with the same combination must give the same width
			if nsg, err := cose.NewSigner(other.alg, key); err == nil {
				if sig, err := nsg.Sign(r, msg); err == nil && len(sig) != 2*ci.n {
					c.Fail("C16/native-format-cross-alg", fmt.Sprintf("native %s key with %v: %d bytes", ci.name, other.alg, len(sig)), map[string]any{"curve": ci.name})
				}
			}
		}

		// native path: real signatures; compare with the stub path on the same (r,s)
		native, err := cose.NewSigner(ci.alg, key)
		if err != nil {
			panic(err)
		}
		verifier, err := cose.NewVerifier(ci.alg, &key.PublicKey)
		if err != nil {
			panic(err)
		}
		nNative := 150
		if thorough {
			nNative = 3000
		}
		var validSigs [][]byte
		lz := 0
		for i := 0; i < nNative; i++ {
			sig, err := native.Sign(r, msg)
			if err != nil {
				c.Fail("C16/native-sign", "native signing failed: "+err.Error(), map[string]any{"curve": ci.name})
				continue
			}
			class := "sign/native/" + ci.name
			ok := len(sig) == 2*ci.n
			if ok {
				rr := new(big.Int).SetBytes(sig[:ci.n])
				ss := new(big.Int).SetBytes(sig[ci.n:])
				ok = ecdsa.Verify(&key.PublicKey, digest, rr, ss)
				if sig[0] == 0 || sig[ci.n] == 0 {
					lz++
					class = "sign/native-leading-zero/" + ci.name
					// the ASN.1 path must produce the same bytes for this (r,s)
					signVia("sign/stub-from-native-lz/"+ci.name, rr, ss, false)
					validSigs = append(validSigs, sig)
				} else if i < 3 {
					signVia("sign/stub-from-native/"+ci.name, rr, ss, false)
					validSigs = append(validSigs, sig)
				}
			}
			c.Eval(class, hx(sig), true)
			if !ok {
				c.Fail("C16/native-format", fmt.Sprintf("native signature is not a valid fixed-width r||s: %x", sig), map[string]any{"curve": ci.name})
			}
			if verr := verifier.Verify(msg, sig); verr != nil {
				c.Fail("C16/native-verify", "own signature does not verify: "+verr.Error(), map[string]any{"curve": ci.name, "sig": hx(sig)})
			}
		}
		c.Notes = append(c.Notes, fmt.Sprintf("%s: %d native signatures, %d with a leading-zero half", ci.name, nNative, lz))

		// verifier: offered byte strings
		offer := func(class string, sig []byte, derived bool) {
			var verr error
			if p, v := protect(func() { verr = verifier.Verify(msg, sig) }); p {
				c.Fail("C16/panic", fmt.Sprint("Verify panicked: ", v), map[string]any{"curve": ci.name, "sig": hx(sig)})
				return
			}
			oracle := false
			if len(sig) == 2*ci.n {
				oracle = ecdsa.Verify(&key.PublicKey, digest, new(big.Int).SetBytes(sig[:ci.n]), new(big.Int).SetBytes(sig[ci.n:]))
			}
			obs := oOk()
			if verr != nil {
				obs = oErr(verr)
			}
			// the digest entry point of the same verifier decides alike
			if dv, ok := verifier.(cose.DigestVerifier); ok {
				var derr error
				if p, v := protect(func() { derr = dv.VerifyDigest(digest, sig) }); p {
					c.Fail("C16/panic", fmt.Sprint("VerifyDigest panicked: ", v), map[string]any{"curve": ci.name, "sig": hx(sig)})
				} else if (derr == nil) != oracle {
					c.Fail("C16/verify-verdict", fmt.Sprintf("VerifyDigest=%v but fixed-width validity=%v", derr, oracle), map[string]any{"curve": ci.name, "sig": hx(sig)})
				}
			}
			// property oracle
			if (verr == nil) != oracle {
				c.Fail("C16/verify-verdict", fmt.Sprintf("Verify=%v but fixed-width validity=%v", verr, oracle), map[string]any{"curve": ci.name, "sig": hx(sig)})
			} else if verr != nil && errClass(verr) != "Verification" {
				c.Fail("C16/verify-errclass", "rejection is not ErrVerification: "+verr.Error(), map[string]any{"curve": ci.name, "sig": hx(sig)})
			}
			c.Add(class, fmt.Sprintf("OpEcdsaVerify %d %s %s", ci.n, cBytes(sig), cBool(oracle)), obs, derived || len(sig) == 2*ci.n)
		}
		for _, sig := range validSigs {
			offer("verify/valid/"+ci.name, sig, true)
			rr := new(big.Int).SetBytes(sig[:ci.n])
			ss := new(big.Int).SetBytes(sig[ci.n:])
			offer("verify/der/"+ci.name, derRS(rr, ss), true)
			offer("verify/minimal-halves/"+ci.name, append(rr.Bytes(), ss.Bytes()...), true)
			offer("verify/extra-zero-r/"+ci.name, append([]byte{0}, sig...), true)
			offer("verify/extra-zero-both/"+ci.name, append(append(append([]byte{0}, sig[:ci.n]...), 0), sig[ci.n:]...), true)
			offer("verify/trailing-zero/"+ci.name, append(append([]byte{}, sig...), 0), true)
			offer("verify/swapped/"+ci.name, append(append([]byte{}, sig[ci.n:]...), sig[:ci.n]...), true)
			fl := append([]byte{}, sig...)
			fl[r.Intn(len(fl))] ^= 1 << uint(r.Intn(8))
			offer("verify/bitflip/"+ci.name, fl, true)
			for _, k := range []int{1, 2} { // both halves padded alike: r and s are still the same integers, the form is not
				pad := make([]byte, k)
				offer("verify/both-halves-padded/"+ci.name, append(append(append(append([]byte{}, pad...), sig[:ci.n]...), pad...), sig[ci.n:]...), true)
			}
			if sig[0] == 0 && sig[ci.n] == 0 {
				offer("verify/both-halves-stripped/"+ci.name, append(append([]byte{}, sig[1:ci.n]...), sig[ci.n+1:]...), true)
			}
			if sig[0] == 0 {
				offer("verify/stripped-r/"+ci.name, sig[1:], true)
			}
			if sig[ci.n] == 0 {
				offer("verify/stripped-s/"+ci.name, append(append([]byte{}, sig[:ci.n]...), sig[ci.n+1:]...), true)
			}
		}
		if len(validSigs) > 0 {
			// every single bit of one valid signature flipped in turn (the unused high bits of a P-521 half among them)
			vs := validSigs[0]
			for bit := 0; bit < 8*len(vs); bit++ {
				fl := append([]byte{}, vs...)
				fl[bit/8] ^= 0x80 >> uint(bit%8)
				offer("verify/every-bit-flipped/"+ci.name, fl, true)
			}
		}
		if len(validSigs) > 0 {
			// one extra zero byte at every position of a valid signature (2n+1 bytes) must be refused
			vs := validSigs[0]
			for pos := 0; pos <= len(vs); pos++ {
				b := append(append(append([]byte{}, vs[:pos]...), 0), vs[pos:]...)
				offer("verify/zero-inserted/"+ci.name, b, true)
			}
		}
		if len(validSigs) > 0 {
			base := validSigs[0]
			for l := 0; l <= 2*ci.n+4; l++ {
				b := make([]byte, l)
				copy(b, base)
				offer("verify/length-sweep/"+ci.name, b, false)
			}
		}
		for i := 0; i < 20; i++ {
			offer("verify/random/"+ci.name, r.Bytes(2*ci.n), false)
		}
		// a key handle that also offers to sign whole messages itself (SignMessage, as newer crypto.Signers do): whatever
		// entry point the library uses, what it returns is the fixed-width form
		{
			rr, ss := big.NewInt(7), new(big.Int).Sub(prm0(ci.curve).N, big.NewInt(3))
			ms := &stubMessageSigner{stubSigner: stubSigner{pub: &key.PublicKey, out: derRS(rr, ss)}}
			if sg, err := cose.NewSigner(ci.alg, ms); err == nil {
				want := append(rr.FillBytes(make([]byte, ci.n)), ss.FillBytes(make([]byte, ci.n))...)
				sig, serr := sg.Sign(r, msg)
				c.Eval("sign/message-signing-key/"+ci.name, "Sign", true)
				if serr != nil || string(sig) != string(want) {
					c.Fail("C16/sign-format", fmt.Sprintf("a crypto.Signer that also has SignMessage: Sign returned %x (%v), want the %d-byte r||s %x", sig, serr, 2*ci.n, want), map[string]any{"curve": ci.name})
				}
				if ds, ok := sg.(cose.DigestSigner); ok {
					if sig2, err := ds.SignDigest(r, digest); err != nil || string(sig2) != string(want) {
						c.Fail("C16/sign-format", fmt.Sprintf("a crypto.Signer that also has SignMessage: SignDigest returned %x (%v), want %x", sig2, err, want), map[string]any{"curve": ci.name})
					}
				}
			}
		}
		// one verifier shared by goroutines that offer it, at the same time, the valid signature and byte strings that
		// are not (halves swapped, one bit flipped, zeros): every verdict is the one it gives when asked alone
		if len(validSigs) > 0 {
			good := validSigs[0]
			swapped := append(append([]byte{}, good[ci.n:]...), good[:ci.n]...)
			flipped := append([]byte{}, good...)
			flipped[ci.n-1] ^= 1
			offers := [][]byte{good, swapped, flipped, make([]byte, 2*ci.n), good}
			var wg sync.WaitGroup
			var mu sync.Mutex
			wrong := ""
			for g := 0; g < 16; g++ {
				wg.Add(1)
				go func(g int) {
					defer wg.Done()
					for round := 0; round < 60; round++ {
						o := offers[(g+round)%len(offers)]
						var err error
						protect(func() { err = verifier.Verify(msg, o) })
						valid := string(o) == string(good)
						if (err == nil) != valid {
							mu.Lock()
							if wrong == "" {
								wrong = fmt.Sprintf("offered %x concurrently: Verify=%v, alone it is valid=%v", trimTo(o, 24), err, valid)
							}
							mu.Unlock()
						}
					}
				}(g)
			}
			wg.Wait()
			c.Eval("verify/shared-verifier/"+ci.name, "", true)
			if wrong != "" {
				c.Fail("C16/verify-verdict", "one verifier shared by 16 goroutines: "+wrong, map[string]any{"curve": ci.name})
			}
		}
		// valid signatures whose s has a prescribed number of significant octets (1 .. n), each under a key made for
		// it: k random, r = x(kG) mod N, s chosen, d = (s*k - z) / r mod N. Every total length of the two integers occurs,
		// among them the ones where an ASN.1 re-encoding changes its length form.
		prm := ci.curve.Params()
		z := new(big.Int).SetBytes(digest)
		if excess := len(digest)*8 - prm.N.BitLen(); excess > 0 {
			z.Rsh(z, uint(excess))
		}
		for sl := 1; sl <= ci.n; sl++ {
			for _, topSet := range []bool{true, false} {
				for _, rlen := range []int{ci.n, ci.n - 1} {
					var kk, rr, ss, dd *big.Int
					for tries := 0; tries < 50; tries++ {
						kk = new(big.Int).SetBytes(r.Bytes(ci.n))
						kk.Mod(kk, prm.N)
						if kk.Sign() == 0 {
							continue
						}
						x, _ := ci.curve.ScalarBaseMult(kk.Bytes())
						rr = new(big.Int).Mod(x, prm.N)
						sb := r.Bytes(sl)
						sb[0] |= 1
						if topSet {
							sb[0] |= 0x80
						} else {
							sb[0] &= 0x7f
							if sb[0] == 0 {
								sb[0] = 1
							}
						}
						if sl == ci.n {
							sb[0] &= byte(0xff >> uint(8*ci.n-prm.N.BitLen()+1)) // stay below N
							if sb[0] == 0 {
								sb[0] = 1
							}
						}
						ss = new(big.Int).SetBytes(sb)
						if rr.Sign() == 0 || ss.Sign() == 0 || ss.Cmp(prm.N) >= 0 || len(ss.Bytes()) != sl || len(rr.Bytes()) != rlen || (ss.Bytes()[0]&0x80 != 0) != topSet {
							dd = nil
							continue
						}
						dd = new(big.Int).Mul(ss, kk)
						dd.Sub(dd, z)
						dd.Mul(dd, new(big.Int).ModInverse(rr, prm.N))
						dd.Mod(dd, prm.N)
						if dd.Sign() != 0 {
							break
						}
						dd = nil
					}
					if dd == nil {
						continue
					}
					qx, qy := ci.curve.ScalarBaseMult(dd.Bytes())
					pub := &ecdsa.PublicKey{Curve: ci.curve, X: qx, Y: qy}
					if !ecdsa.Verify(pub, digest, rr, ss) {
						continue // the construction is checked against the standard library first
					}
					vf2, err := cose.NewVerifier(ci.alg, pub)
					if err != nil {
						continue
					}
					sig := append(rr.FillBytes(make([]byte, ci.n)), ss.FillBytes(make([]byte, ci.n))...)
					rep := map[string]any{"curve": ci.name, "sig": hx(sig), "x": qx.String(), "y": qy.String(), "s_octets": sl, "r_octets": len(rr.Bytes())}
					c.Eval("verify/crafted-s-length/"+ci.name, fmt.Sprint(sl, topSet, rlen), true)
					var e1, e2 error
					if p, v := protect(func() { e1 = vf2.Verify(msg, sig); e2 = vf2.(cose.DigestVerifier).VerifyDigest(digest, sig) }); p {
						c.Fail("C16/panic", fmt.Sprint("Verify panicked: ", v), rep)
						continue
					}
					if e1 != nil || e2 != nil {
						c.Fail("C16/verify-verdict", fmt.Sprintf("a valid fixed-width signature whose s has %d significant octets (r: %d) is refused: Verify=%v VerifyDigest=%v", sl, len(rr.Bytes()), e1, e2), rep)
					}
				}
			}
		}
	}
	c16CurveValuesAndResidues(c, r)
	c16HeldSignatures(c, r)
}

// wrappedCurve: what key stores hand out - a value that implements elliptic.Curve by delegating to the standard curve
// but is not the crypto/elliptic singleton
type wrappedCurve struct{ elliptic.Curve }

// c16CurveValuesAndResidues: (1) the width of r and s is a property of the curve order, not of the Go value that holds
// the curve: crypto.Signers whose public key names the curve through *elliptic.CurveParams or through a wrapper value
// give signatures of exactly 2n octets, r then s. (2) r and s are taken as written: a valid signature whose r or s
// was replaced by another representative of the same residue modulo the group order (r+N, s+N, where that fits in the
// field width - always on P-521) is another byte string and is refused, as the standard library refuses it.
func c16CurveValuesAndResidues(c *Collector, r *Rng) {
	msg := []byte("to be signed")
	for _, ci := range curves {
		key, err := ecdsa.GenerateKey(ci.curve, r)
		if err != nil {
			continue
		}
		order := ci.curve.Params().N
		nm1 := new(big.Int).Sub(order, big.NewInt(1))
		for cname, cv := range map[string]elliptic.Curve{"*elliptic.CurveParams": ci.curve.Params(), "wrapper value": wrappedCurve{ci.curve}} {
			pub := &ecdsa.PublicKey{Curve: cv, X: key.X, Y: key.Y}
			for _, p := range [][2]*big.Int{{big.NewInt(1), big.NewInt(1)}, {nm1, nm1}, {big.NewInt(1), nm1}, {new(big.Int).Rsh(nm1, 16), nm1}, {nm1, big.NewInt(0x1234)}, {new(big.Int).Rsh(nm1, 8), new(big.Int).Rsh(nm1, 9)}} {
				var sg cose.Signer
				var nerr error
				if pn, _ := protect(func() { sg, nerr = cose.NewSigner(ci.alg, &stubSigner{pub: pub, out: derRS(p[0], p[1])}) }); pn || nerr != nil {
					continue
				}
				var sig []byte
				var serr error
				rep := map[string]any{"curve": ci.name, "curve_value": cname, "r": p[0].String(), "s": p[1].String()}
				c.Eval("sign/curve-value/"+ci.name, cname+p[0].String()+p[1].String(), true)
				if pn, v := protect(func() { sig, serr = sg.Sign(r, msg) }); pn {
					c.Fail("C16/panic", fmt.Sprint("Sign panicked: ", v), rep)
					continue
				}
				if serr != nil {
					c.Fail("C16/sign-refused", "in-range (r,s) refused when the key's curve is held in another Go value: "+serr.Error(), rep)
					continue
				}
				want := append(p[0].FillBytes(make([]byte, ci.n)), p[1].FillBytes(make([]byte, ci.n))...)
				if !bytes.Equal(sig, want) {
					rep["sig"] = hx(sig)
					c.Fail("C16/sign-form", fmt.Sprintf("signature of %d octets is not r||s at %d octets each when the key's curve is held in a %s", len(sig), ci.n, cname), rep)
				}
			}
		}
		// residues
		vf, err := cose.NewVerifier(ci.alg, &key.PublicKey)
		if err != nil {
			continue
		}
		digest := digestOf(ci.hash, msg)
		lim := new(big.Int).Lsh(big.NewInt(1), uint(8*ci.n))
		tried := 0
		for attempt := 0; attempt < 64 && tried < 8; attempt++ {
			rr, ss, err := ecdsa.Sign(r, key, digest)
			if err != nil {
				break
			}
			good := append(rr.FillBytes(make([]byte, ci.n)), ss.FillBytes(make([]byte, ci.n))...)
			if vf.Verify(msg, good) != nil {
				c.Fail("C16/verify-verdict", "a valid fixed-width signature is refused", map[string]any{"curve": ci.name, "sig": hx(good)})
				break
			}
			for _, which := range []string{"r", "s", "both"} {
				r2, s2 := new(big.Int).Set(rr), new(big.Int).Set(ss)
				if which != "s" {
					r2.Add(r2, order)
				}
				if which != "r" {
					s2.Add(s2, order)
				}
				if r2.Cmp(lim) >= 0 || s2.Cmp(lim) >= 0 {
					continue
				}
				tried++
				sig := append(r2.FillBytes(make([]byte, ci.n)), s2.FillBytes(make([]byte, ci.n))...)
				rep := map[string]any{"curve": ci.name, "sig": hx(sig), "valid_sig": hx(good), "replaced": which}
				c.Eval("verify/other-residue/"+ci.name, which+fmt.Sprint(attempt), true)
				if ecdsa.Verify(&key.PublicKey, digest, r2, s2) {
					continue // the standard library decides
				}
				var e1, e2 error
				if pn, v := protect(func() { e1 = vf.Verify(msg, sig); e2 = vf.(cose.DigestVerifier).VerifyDigest(digest, sig) }); pn {
					c.Fail("C16/panic", fmt.Sprint("Verify panicked: ", v), rep)
					continue
				}
				if e1 == nil || e2 == nil {
					c.Fail("C16/verify-verdict", fmt.Sprintf("a signature whose %s was replaced by itself plus the group order (another byte string, out of range) is accepted: Verify=%v VerifyDigest=%v", which, e1, e2), rep)
				}
			}
		}
	}
}

// c16HeldSignatures: one cose.Signer over a crypto.Signer that answers with a different (r, s) each time, asked several
// times while the caller keeps the earlier results: every result is, and stays, r||s of the (r, s) it was made from.
func c16HeldSignatures(c *Collector, r *Rng) {
	msg := []byte("to be signed")
	for _, ci := range curves {
		key, err := ecdsa.GenerateKey(ci.curve, r)
		if err != nil {
			continue
		}
		st := &stubSigner{pub: &key.PublicKey}
		sg, err := cose.NewSigner(ci.alg, st)
		if err != nil {
			continue
		}
		order := ci.curve.Params().N
		type held struct {
			sig, want []byte
		}
		var hs []held
		for i := 0; i < 5; i++ {
			rr := new(big.Int).SetBytes(r.Bytes(ci.n))
			rr.Mod(rr, order)
			ss := new(big.Int).SetBytes(r.Bytes(ci.n - i)) // shorter and shorter s
			ss.Mod(ss, order)
			if rr.Sign() == 0 || ss.Sign() == 0 {
				continue
			}
			st.out = derRS(rr, ss)
			var sig []byte
			var serr error
			if i%2 == 0 {
				sig, serr = sg.Sign(r, msg)
			} else if ds, ok := sg.(cose.DigestSigner); ok {
				sig, serr = ds.SignDigest(r, digestOf(ci.hash, msg))
			}
			if serr != nil || sig == nil {
				continue
			}
			hs = append(hs, held{sig, append(rr.FillBytes(make([]byte, ci.n)), ss.FillBytes(make([]byte, ci.n))...)})
			c.Eval("sign/held-signatures/"+ci.name, fmt.Sprint(i), true)
			for j, h := range hs {
				if !bytes.Equal(h.sig, h.want) {
					c.Fail("C16/sign-form", fmt.Sprintf("signature %d returned by one signer over a crypto.Signer is no longer r||s of its own (r, s) after signature %d was made: %x, expected %x", j, i, trimTo(h.sig, 24), trimTo(h.want, 24)), map[string]any{"curve": ci.name})
					return
				}
			}
		}
	}
}
