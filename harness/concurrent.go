package main

import (
	"bufio"
	"fmt"
	"os"
	"os/exec"
	"strings"
	"sync"
	"time"

	cose "github.com/veraison/go-cose"
)

// plainDecode decodes data with the decoder of the given kind into a fresh value (no shared state of the harness)
// and renders the result.
func plainDecode(kind string, data []byte) string {
	in := append([]byte{}, data...)
	switch kind {
	case "DSign1":
		var m cose.Sign1Message
		if err := m.UnmarshalCBOR(in); err != nil {
			return "err:" + errClass(err)
		}
		return oSign1(&m)
	case "DSign1U":
		var m cose.UntaggedSign1Message
		if err := m.UnmarshalCBOR(in); err != nil {
			return "err:" + errClass(err)
		}
		return oSign1((*cose.Sign1Message)(&m))
	case "DSignature":
		var s cose.Signature
		if err := s.UnmarshalCBOR(in); err != nil {
			return "err:" + errClass(err)
		}
		return oSigv(&s)
	case "DSignMsg":
		var m cose.SignMessage
		if err := m.UnmarshalCBOR(in); err != nil {
			return "err:" + errClass(err)
		}
		return oSignMsg(&m)
	case "DProt":
		var h cose.ProtectedHeader
		if err := h.UnmarshalCBOR(in); err != nil {
			return "err:" + errClass(err)
		}
		return cFlatMap(h)
	case "DUnprot":
		var h cose.UnprotectedHeader
		if err := h.UnmarshalCBOR(in); err != nil {
			return "err:" + errClass(err)
		}
		return cFlatMap(h)
	case "DKey":
		var k cose.Key
		if err := k.UnmarshalCBOR(in); err != nil {
			return "err:" + errClass(err)
		}
		return oKey(&k)
	case "VerifyHE":
		m, err := cose.VerifyHashEnvelope(&spyVerifier{alg: -7}, in)
		if err != nil {
			return "err:" + errClass(err)
		}
		return oSign1(m)
	}
	return "?"
}

// concurrentDecodeChild: run in a child process (a fatal runtime error such as "concurrent map writes" cannot be
// recovered): decode every input once, then from 16 goroutines at the same time; every result must be the
// sequential one. Exit status 0 = all equal, 3 = a result differed; anything else = the process died.
func concurrentDecodeChild(path string) {
	f, err := os.Open(path)
	if err != nil {
		os.Exit(2)
	}
	type in struct {
		kind string
		data []byte
		want string
	}
	var ins []in
	sc := bufio.NewScanner(f)
	sc.Buffer(make([]byte, 1<<20), 1<<26)
	for sc.Scan() {
		p := strings.SplitN(sc.Text(), " ", 2)
		if len(p) == 2 {
			ins = append(ins, in{kind: p[0], data: unhex(p[1])})
		}
	}
	for i := range ins {
		ins[i].want = plainDecode(ins[i].kind, ins[i].data)
	}
	var wg sync.WaitGroup
	var mu sync.Mutex
	bad := ""
	for g := 0; g < 16; g++ {
		wg.Add(1)
		go func(g int) {
			defer wg.Done()
			for round := 0; round < 6; round++ {
				for i := range ins {
					j := (i + g*7) % len(ins)
					if got := plainDecode(ins[j].kind, ins[j].data); got != ins[j].want {
						mu.Lock()
						if bad == "" {
							bad = fmt.Sprintf("MISMATCH %s %s: concurrently %s, alone %s", ins[j].kind, hx(ins[j].data), trunc(got, 200), trunc(ins[j].want, 200))
						}
						mu.Unlock()
					}
				}
			}
		}(g)
	}
	wg.Wait()
	if bad != "" {
		fmt.Fprintln(os.Stderr, bad)
		os.Exit(3)
	}
	os.Exit(0)
}

// concurrentDecoders runs the child over the given inputs and reports what happened to it.
func concurrentDecoders(c *Collector, key string, inputs []string) {
	if len(inputs) == 0 {
		return
	}
	dir := os.Getenv("HARNESS_OUT") // the run's own output directory (falls back to the system's temporary directory)
	if dir != "" {
		os.MkdirAll(dir, 0o755)
	}
	f, err := os.CreateTemp(dir, "harness-concurrent-*.txt")
	if err != nil {
		return
	}
	defer os.Remove(f.Name())
	f.WriteString(strings.Join(inputs, "\n") + "\n")
	f.Close()
	cmd := exec.Command(os.Args[0])
	cmd.Env = append(os.Environ(), "HARNESS_CHILD=concurrent-decode", "HARNESS_CHILD_INPUT="+f.Name())
	var errb strings.Builder
	cmd.Stderr = &errb
	done := make(chan error, 1)
	if err := cmd.Start(); err != nil {
		return
	}
	go func() { done <- cmd.Wait() }()
	var werr error
	select {
	case werr = <-done:
	case <-time.After(120 * time.Second):
		cmd.Process.Kill()
		werr = fmt.Errorf("no result after 120 s (deadlock?)")
	}
	c.Eval("concurrent-decoders", fmt.Sprint(len(inputs)), true)
	if werr != nil {
		msg := errb.String()
		if i := strings.Index(msg, "\n\n"); i > 0 {
			msg = msg[:i]
		}
		show := inputs
		if len(show) > 12 {
			show = show[:12]
		}
		c.Fail(key, "decoding the same inputs from 16 goroutines at once did not behave like decoding them one after the other: "+werr.Error()+": "+trunc(msg, 400), map[string]any{"inputs (kind hex)": show, "count": len(inputs)})
	}
}

// inflight leaves a note of the operation about to run (in the run's output directory): if the process dies in it
// (a fatal runtime error cannot be recovered) the checker reports the note as the failing input.
func inflight(what, kind string, data []byte) {
	dir := os.Getenv("HARNESS_OUT")
	if dir == "" {
		return
	}
	os.MkdirAll(dir, 0o755)
	os.WriteFile(dir+"/inflight.json", []byte(fmt.Sprintf(`{"operation": %q, "kind": %q, "data": %q}`, what, kind, hx(data))), 0o644)
}
