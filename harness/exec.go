package main

import (
	"fmt"
	"io"
	"strings"

	cose "github.com/veraison/go-cose"
)

// ---------- scripted signer / verifier (spies) ----------

type SigOut int

const (
	SOk SigOut = iota
	SErr
	SErrWith
)

type spySigner struct {
	alg    cose.Algorithm
	kind   SigOut
	sig    []byte
	calls  [][]byte
	before func() // work the key does before it reads its input (e.g. signing an audit record with the same library)
}

func (s *spySigner) Algorithm() cose.Algorithm { return s.alg }
func (s *spySigner) Sign(_ io.Reader, content []byte) ([]byte, error) {
	if s.before != nil {
		s.before()
	}
	s.calls = append(s.calls, append([]byte{}, content...))
	switch s.kind {
	case SOk:
		return s.sig, nil
	case SErr:
		return nil, errScripted
	default:
		return s.sig, errScripted
	}
}

func (s *spySigner) coq() string {
	switch s.kind {
	case SOk:
		return "(" + cZ(int64(s.alg)) + ", SOk " + cGoBytes(s.sig) + ")"
	case SErr:
		return "(" + cZ(int64(s.alg)) + ", SErr)"
	default:
		return "(" + cZ(int64(s.alg)) + ", SErrWith " + cGoBytes(s.sig) + ")"
	}
}

type vcall struct{ content, sig []byte }

type spyVerifier struct {
	alg    cose.Algorithm
	err    error // nil, cose.ErrVerification, errScripted
	calls  []vcall
	before func()
}

func (v *spyVerifier) Algorithm() cose.Algorithm { return v.alg }
func (v *spyVerifier) Verify(content, sig []byte) error {
	if v.before != nil {
		v.before()
	}
	var sc []byte
	if sig != nil {
		sc = append([]byte{}, sig...)
	}
	v.calls = append(v.calls, vcall{append([]byte{}, content...), sc})
	return v.err
}
func (v *spyVerifier) coq() string {
	r := "Acc tt"
	if v.err != nil {
		r = "Rej E" + errClass(v.err)
	}
	return "(" + cZ(int64(v.alg)) + ", " + r + ")"
}

// ---------- Coq terms for structures ----------

func cH(h *cose.Headers) string {
	rp, p, ru, u := cHeaders(h)
	return "(mkH " + rp + " " + p + " " + ru + " " + u + ")"
}
func cSign1(m *cose.Sign1Message) string {
	return "(mkS1 " + cH(&m.Headers) + " " + cGoBytes(m.Payload) + " " + cGoBytes(m.Signature) + ")"
}
func cSigv(s *cose.Signature) string {
	return "(mkSig " + cH(&s.Headers) + " " + cGoBytes(s.Signature) + ")"
}
func cOptSigv(s *cose.Signature) string {
	if s == nil {
		return "None"
	}
	return "(Some " + cSigv(s) + ")"
}
func cSignMsg(m *cose.SignMessage) string {
	items := make([]string, len(m.Signatures))
	for i, s := range m.Signatures {
		items[i] = cOptSigv(s)
	}
	return "(mkSM " + cH(&m.Headers) + " " + cGoBytes(m.Payload) + " " + cList(items) + ")"
}
func cKey(k *cose.Key) string {
	ops := "None"
	if k.Ops != nil {
		items := make([]string, len(k.Ops))
		for i, o := range k.Ops {
			items[i] = cZ(int64(o))
		}
		ops = "(Some " + cList(items) + ")"
	}
	return "(mkKey " + cZ(int64(k.Type)) + " " + cGoBytes(k.ID) + " " + cZ(int64(k.Algorithm)) + " " + ops + " " +
		cGoBytes(k.BaseIV) + " " + cOptMap(k.Params, k.Params == nil) + ")"
}

// parent for countersigning: Coq term plus the Go value (pointer or value form)
type Parent struct {
	coq string
	val any
}

func parentOf(v any, ptr bool) Parent {
	switch t := v.(type) {
	case *cose.Sign1Message:
		if ptr {
			return Parent{"(PSign1 " + cSign1(t) + ")", t}
		}
		return Parent{"(PSign1 " + cSign1(t) + ")", *t}
	case *cose.SignMessage:
		if ptr {
			return Parent{"(PSignMsg " + cSignMsg(t) + ")", t}
		}
		return Parent{"(PSignMsg " + cSignMsg(t) + ")", *t}
	case *cose.Signature:
		if ptr {
			return Parent{"(PSig " + cSigv(t) + ")", t}
		}
		return Parent{"(PSig " + cSigv(t) + ")", *t}
	case *cose.Countersignature:
		if ptr {
			return Parent{"(PCsig " + cSigv((*cose.Signature)(t)) + ")", t}
		}
		return Parent{"(PCsig " + cSigv((*cose.Signature)(t)) + ")", *t}
	}
	return Parent{"POther", v}
}

// ---------- observation renderers (mirror Run.v) ----------

func oMap(m map[any]any, isNil bool) string {
	if isNil {
		return oT("nil")
	}
	return "OG (GMap " + cFlatMap(m) + ")"
}
func oHeaders(h *cose.Headers) string {
	return oT("H", oGoBytes(h.RawProtected), oMap(h.Protected, h.Protected == nil), oGoBytes(h.RawUnprotected), oMap(h.Unprotected, h.Unprotected == nil))
}
func oSign1(m *cose.Sign1Message) string {
	return oT("S1", oHeaders(&m.Headers), oGoBytes(m.Payload), oGoBytes(m.Signature))
}
func oSigv(s *cose.Signature) string {
	if s == nil {
		return oT("nil")
	}
	return oT("SG", oHeaders(&s.Headers), oGoBytes(s.Signature))
}
func oSignMsg(m *cose.SignMessage) string {
	items := make([]string, len(m.Signatures))
	for i, s := range m.Signatures {
		items[i] = oSigv(s)
	}
	return oT("SM", oHeaders(&m.Headers), oGoBytes(m.Payload), oT("sigs", items...))
}
func oKey(k *cose.Key) string {
	ops := oT("nil")
	if k.Ops != nil {
		items := make([]string, len(k.Ops))
		for i, o := range k.Ops {
			items[i] = oZ(int64(o))
		}
		ops = oT("ops", items...)
	}
	return oT("K", oZ(int64(k.Type)), oGoBytes(k.ID), oZ(int64(k.Algorithm)), ops, oGoBytes(k.BaseIV), oMap(k.Params, k.Params == nil))
}
func oCalls(calls [][]byte) string {
	items := make([]string, len(calls))
	for i, c := range calls {
		items[i] = oB(c)
	}
	return oT("calls", items...)
}
func oVCalls(calls []vcall) string {
	items := make([]string, len(calls))
	for i, c := range calls {
		items[i] = oT("c", oB(c.content), oGoBytes(c.sig))
	}
	return oT("vcalls", items...)
}
func oUnitRes(err error) string {
	if err != nil {
		return oErr(err)
	}
	return oOk()
}
func oBytesRes(b []byte, err error) string {
	if err != nil {
		return oErr(err)
	}
	return oOk(oB(b))
}

// ---------- executors ----------

var deckinds = []string{"DSign1", "DSign1U", "DSignature", "DSignMsg", "DProt", "DUnprot", "DKey"}

// decodeValue decodes data with the decoder of the given kind into a fresh
// destination (or dst if non-nil) and returns renderers.
type decoded struct {
	err     error
	value   string // observation of the value
	reenc   []byte
	reerr   error
	s1      *cose.Sign1Message
	sig     *cose.Signature
	sm      *cose.SignMessage
	key     *cose.Key
	prot    cose.ProtectedHeader
	unprot  cose.UnprotectedHeader
	paniced bool
	panicv  any
}

// reused destinations: every input of a run is also decoded into one long-lived variable per decoder kind, and a
// struct copy of the previous content is kept; what an accepted decode leaves there must render like the fresh
// decode, and the copy taken earlier must not change (decoders must not depend on, or write into, what the
// destination held before)
var (
	reS1, reS1U  cose.Sign1Message
	reSM         cose.SignMessage
	reSig        cose.Signature
	reProt       cose.ProtectedHeader
	reUnprot     cose.UnprotectedHeader
	reCopyRender = map[string]func() string{}
	reCopyWant   = map[string]string{}
)

func reuseCheck(kind string, orig []byte, fresh *decoded) {
	if len(reuseAnomalies) >= 5 || fresh.paniced {
		return
	}
	var err error
	var render func() string
	var takeCopy func() func() string
	p, _ := protect(func() {
		switch kind {
		case "DSign1":
			err = reS1.UnmarshalCBOR(append([]byte{}, orig...))
			render = func() string { return oSign1(&reS1) }
			takeCopy = func() func() string { cp := reS1; return func() string { return oSign1(&cp) } }
		case "DSign1U":
			err = (*cose.UntaggedSign1Message)(&reS1U).UnmarshalCBOR(append([]byte{}, orig...))
			render = func() string { return oSign1(&reS1U) }
			takeCopy = func() func() string { cp := reS1U; return func() string { return oSign1(&cp) } }
		case "DSignMsg":
			err = reSM.UnmarshalCBOR(append([]byte{}, orig...))
			render = func() string { return oSignMsg(&reSM) }
			takeCopy = func() func() string { cp := reSM; return func() string { return oSignMsg(&cp) } }
		case "DSignature":
			err = reSig.UnmarshalCBOR(append([]byte{}, orig...))
			render = func() string { return oSigv(&reSig) }
			takeCopy = func() func() string { cp := reSig; return func() string { return oSigv(&cp) } }
		case "DProt":
			err = reProt.UnmarshalCBOR(append([]byte{}, orig...))
			render = func() string { return "OG (GMap " + cFlatMap(reProt) + ")" }
			takeCopy = func() func() string { return func() string { return "" } }
		case "DUnprot":
			err = reUnprot.UnmarshalCBOR(append([]byte{}, orig...))
			render = func() string { return "OG (GMap " + cFlatMap(reUnprot) + ")" }
			takeCopy = func() func() string { return func() string { return "" } }
		}
	})
	if p || render == nil {
		return
	}
	rep := map[string]any{"kind": kind, "data": trunc(hx(orig), 600)}
	// the struct copy taken after the previous accepted decode must be untouched, whatever this decode did
	if cr, ok := reCopyRender[kind]; ok {
		if got := cr(); got != reCopyWant[kind] {
			reuseAnomalies = append(reuseAnomalies, anomaly{"a copy of a decoded " + kind + " value was changed by a later decode into the same variable: " + trunc(got, 300) + " was " + trunc(reCopyWant[kind], 300), rep})
			delete(reCopyRender, kind)
			return
		}
	}
	if (err == nil) != (fresh.err == nil) {
		reuseAnomalies = append(reuseAnomalies, anomaly{fmt.Sprintf("decoding %s into a used variable gives %v, into a fresh one %v", kind, err, fresh.err), rep})
		return
	}
	if err == nil {
		if got := render(); got != fresh.value {
			reuseAnomalies = append(reuseAnomalies, anomaly{"a " + kind + " decoded into a used variable differs from the same bytes decoded into a fresh one: " + trunc(got, 300) + " vs " + trunc(fresh.value, 300), rep})
			return
		}
		cr := takeCopy()
		reCopyRender[kind] = cr
		reCopyWant[kind] = cr()
	}
}

func decodeKind(kind string, data []byte) (d decoded) {
	origInput := append([]byte{}, data...)
	defer func() { reuseCheck(kind, origInput, &d) }()
	// the decoder reads a private copy of the input which is overwritten as soon as the decoder returns
	// (a receive buffer being reused): nothing the caller keeps may depend on the buffer afterwards
	data = append(make([]byte, 0, len(data)+8), data...)
	scrib := func(err error) error {
		for i := range data {
			data[i] ^= 0xa5
		}
		return err
	}
	d.paniced, d.panicv = protect(func() {
		switch kind {
		case "DSign1":
			var m cose.Sign1Message
			if d.err = scrib(m.UnmarshalCBOR(data)); d.err == nil {
				d.s1 = &m
				d.value = oSign1(&m)
				d.reenc, d.reerr = m.MarshalCBOR()
			}
		case "DSign1U":
			var m cose.UntaggedSign1Message
			if d.err = scrib(m.UnmarshalCBOR(data)); d.err == nil {
				d.s1 = (*cose.Sign1Message)(&m)
				d.value = oSign1(d.s1)
				d.reenc, d.reerr = m.MarshalCBOR()
			}
		case "DSignature":
			var s cose.Signature
			if d.err = scrib(s.UnmarshalCBOR(data)); d.err == nil {
				d.sig = &s
				d.value = oSigv(&s)
				d.reenc, d.reerr = s.MarshalCBOR()
			}
		case "DSignMsg":
			var m cose.SignMessage
			if d.err = scrib(m.UnmarshalCBOR(data)); d.err == nil {
				d.sm = &m
				d.value = oSignMsg(&m)
				d.reenc, d.reerr = m.MarshalCBOR()
			}
		case "DProt":
			var h cose.ProtectedHeader
			if d.err = scrib(h.UnmarshalCBOR(data)); d.err == nil {
				d.prot = h
				d.value = "OG (GMap " + cFlatMap(h) + ")"
				d.reenc, d.reerr = h.MarshalCBOR()
			}
		case "DUnprot":
			var h cose.UnprotectedHeader
			if d.err = scrib(h.UnmarshalCBOR(data)); d.err == nil {
				d.unprot = h
				d.value = "OG (GMap " + cFlatMap(h) + ")"
				d.reenc, d.reerr = h.MarshalCBOR()
			}
		case "DKey":
			var k cose.Key
			orig := append([]byte{}, data...)
			if d.err = scrib(k.UnmarshalCBOR(data)); d.err == nil {
				d.key = &k
				d.value = oKey(&k)
				d.reenc, d.reerr = k.MarshalCBOR()
			}
			// the same bytes into a Key variable that has been used for every earlier key of the run
			err2 := reusedKey.UnmarshalCBOR(append([]byte{}, orig...))
			if len(reuseAnomalies) < 5 {
				if (err2 == nil) != (d.err == nil) {
					reuseAnomalies = append(reuseAnomalies, anomaly{fmt.Sprintf("decoding a COSE_Key into a used variable gives %v, into a fresh one %v", err2, d.err), map[string]any{"data": hx(orig), "previous": reusedKeyPrev}})
				} else if err2 == nil && oKey(&reusedKey) != d.value {
					reuseAnomalies = append(reuseAnomalies, anomaly{"a COSE_Key decoded into a used variable differs from the same bytes decoded into a fresh one: " + trunc(oKey(&reusedKey), 300) + " vs " + trunc(d.value, 300), map[string]any{"data": hx(orig), "previous": reusedKeyPrev}})
				}
			}
			if err2 == nil {
				reusedKeyPrev = hx(orig)
			}
		default:
			panic("bad kind " + kind)
		}
	})
	return
}

func (d *decoded) obs() string {
	if d.paniced {
		return oPanic()
	}
	if d.err != nil {
		return oErr(d.err)
	}
	return oOk(d.value, oBytesRes(d.reenc, d.reerr))
}

func opDec(kind string, data []byte) string { return "OpDec " + kind + " " + cBytes(data) }

// unsupported Go values make a term the model cannot read
func hasOther(term string) bool { return strings.Contains(term, "GOther") }

func fmtPanic(v any) string { return fmt.Sprint(v) }

type anomaly struct {
	desc string
	rep  map[string]any
}

var (
	reusedKey      cose.Key
	reusedKeyPrev  string
	reuseAnomalies []anomaly
)
