package main

import (
	"bytes"
	"errors"
	"fmt"
	"unicode/utf8"

	"github.com/fxamacker/cbor/v2"
	cose "github.com/veraison/go-cose"
)

// ---------- reference CBOR reader (independent of go-cose) ----------

var errRef = errors.New("ref: malformed")

// refParse reads one definite-length item; no limits, no semantic checks.
func refParse(b []byte) (*W, []byte, error) {
	if len(b) == 0 {
		return nil, nil, errRef
	}
	maj := int(b[0] >> 5)
	ai := b[0] & 0x1f
	var val uint64
	width := 0
	rest := b[1:]
	switch {
	case ai < 24:
		val = uint64(ai)
	case ai == 24, ai == 25, ai == 26, ai == 27:
		width = 1 << (ai - 24)
		if len(rest) < width {
			return nil, nil, errRef
		}
		for i := 0; i < width; i++ {
			val = val<<8 | uint64(rest[i])
		}
		rest = rest[width:]
	default:
		return nil, nil, errRef
	}
	w := &W{Maj: maj, Width: width, Val: val}
	switch maj {
	case 0, 1:
	case 2, 3:
		if uint64(len(rest)) < val {
			return nil, nil, errRef
		}
		w.Str = rest[:val]
		rest = rest[val:]
	case 4, 5:
		n := val
		if maj == 5 {
			n = 2 * val
		}
		if n > uint64(len(rest)) {
			return nil, nil, errRef
		}
		for i := uint64(0); i < n; i++ {
			k, r2, err := refParse(rest)
			if err != nil {
				return nil, nil, err
			}
			w.Kids = append(w.Kids, k)
			rest = r2
		}
	case 6:
		k, r2, err := refParse(rest)
		if err != nil {
			return nil, nil, err
		}
		w.Kids = []*W{k}
		rest = r2
	case 7:
		if width == 1 && val < 32 {
			return nil, nil, errRef
		}
	}
	return w, rest, nil
}

func refParseFull(b []byte) (*W, error) {
	w, rest, err := refParse(b)
	if err != nil {
		return nil, err
	}
	if len(rest) != 0 {
		return nil, errRef
	}
	return w, nil
}

func (w *W) isBstr() bool { return w.Maj == 2 }
func (w *W) isNull() bool { return w.Maj == 7 && w.Width == 0 && w.Val == 22 }
func (w *W) hasTag() bool {
	if w.Maj == 6 {
		return true
	}
	for _, k := range w.Kids {
		if k.hasTag() {
			return true
		}
	}
	return false
}

// canonical: every head shortest, map keys strictly increasing bytewise, recursively.
// Protected bstrs are not opened here.
func (w *W) canonical() error {
	var v uint64
	switch w.Maj {
	case 0, 1, 6:
		v = w.Val
	case 2, 3:
		v = uint64(len(w.Str))
	case 4:
		v = uint64(len(w.Kids))
	case 5:
		v = uint64(len(w.Kids) / 2)
	case 7:
		if w.Width == 2 || w.Width == 4 || w.Width == 8 {
			v = w.Val
			if w.Width != minWidth(v) && false {
				return nil
			}
			return nil // floats keep their width
		}
		v = w.Val
	}
	if w.Width != minWidth(v) {
		return fmt.Errorf("non-shortest head for major %d value %d", w.Maj, v)
	}
	if w.Maj == 5 {
		var prev []byte
		for i := 0; i+1 < len(w.Kids); i += 2 {
			k := w.Kids[i].Ser()
			if prev != nil && bytes.Compare(prev, k) >= 0 {
				return fmt.Errorf("map keys not strictly increasing: %x then %x", prev, k)
			}
			prev = k
		}
	}
	for _, k := range w.Kids {
		if err := k.canonical(); err != nil {
			return err
		}
	}
	return nil
}

// ---------- reference encoders ----------

func refBstr(b []byte) []byte { return append(head(2, minWidth(uint64(len(b))), uint64(len(b))), b...) }
func refTstr(s string) []byte {
	return append(head(3, minWidth(uint64(len(s))), uint64(len(s))), s...)
}
func refArray(items ...[]byte) []byte {
	out := head(4, minWidth(uint64(len(items))), uint64(len(items)))
	for _, it := range items {
		out = append(out, it...)
	}
	return out
}

var refEnc = func() cbor.EncMode {
	m, err := cbor.CoreDetEncOptions().EncMode()
	if err != nil {
		panic(err)
	}
	return m
}()

// refProtectedBstr: the protected header as the shortest-form bstr the RFC
// puts into the Sig_structure, computed without go-cose's encoder paths:
// raw bytes given (content kept, head normalised), else the typed map.
func refProtectedBstr(h *cose.Headers) ([]byte, error) {
	if len(h.RawProtected) > 0 {
		w, err := refParseFull(h.RawProtected)
		if err != nil || !w.isBstr() {
			return nil, errRef
		}
		return refBstr(w.Str), nil
	}
	if len(h.Protected) == 0 {
		return []byte{0x40}, nil
	}
	b, err := refEnc.Marshal(map[any]any(h.Protected))
	if err != nil {
		return nil, err
	}
	return refBstr(b), nil
}

func orEmpty(b []byte) []byte {
	if b == nil {
		return []byte{}
	}
	return b
}

func refSig1(h *cose.Headers, ext, payload []byte) ([]byte, error) {
	bp, err := refProtectedBstr(h)
	if err != nil {
		return nil, err
	}
	return refArray(refTstr("Signature1"), bp, refBstr(orEmpty(ext)), refBstr(payload)), nil
}

func refSigN(body *cose.Headers, sig *cose.Headers, ext, payload []byte) ([]byte, error) {
	bp, err := refProtectedBstr(body)
	if err != nil {
		return nil, err
	}
	sp, err := refProtectedBstr(sig)
	if err != nil {
		return nil, err
	}
	return refArray(refTstr("Signature"), bp, sp, refBstr(orEmpty(ext)), refBstr(payload)), nil
}

// refCountersign: RFC 9338 Countersign_structure for the four parent kinds.
func refCountersign(abbreviated bool, parent any, signProt []byte, ext []byte) ([]byte, error) {
	var ph *cose.Headers
	var payload, other []byte
	switch p := parent.(type) {
	case *cose.Sign1Message:
		return refCountersign(abbreviated, *p, signProt, ext)
	case cose.Sign1Message:
		ph, payload, other = &p.Headers, p.Payload, p.Signature
	case *cose.SignMessage:
		return refCountersign(abbreviated, *p, signProt, ext)
	case cose.SignMessage:
		ph, payload = &p.Headers, p.Payload
	case *cose.Signature:
		return refCountersign(abbreviated, *p, signProt, ext)
	case cose.Signature:
		ph, payload = &p.Headers, p.Signature
	case *cose.Countersignature:
		return refCountersign(abbreviated, *p, signProt, ext)
	case cose.Countersignature:
		ph, payload = &p.Headers, p.Signature
	default:
		return nil, errRef
	}
	bp, err := refProtectedBstr(ph)
	if err != nil {
		return nil, err
	}
	ctx := "CounterSignature"
	if abbreviated {
		ctx = "CounterSignature0"
	}
	if other != nil {
		ctx += "V2"
		return refArray(refTstr(ctx), bp, signProt, refBstr(orEmpty(ext)), refBstr(payload), refArray(refBstr(other))), nil
	}
	return refArray(refTstr(ctx), bp, signProt, refBstr(orEmpty(ext)), refBstr(payload)), nil
}

// ---------- reference well-formedness of an accepted message (C05 oracle) ----------

func refLabelOK(k *W) bool {
	switch k.Maj {
	case 0:
		return k.Val <= 1<<63-1
	case 1:
		return k.Val <= 1<<63-1
	case 3:
		return utf8.Valid(k.Str)
	}
	return false
}

// data-model identity of a key (ints by value, text by content)
func refKeyID(k *W) string {
	switch k.Maj {
	case 0:
		return fmt.Sprintf("i%d", k.Val)
	case 1:
		return fmt.Sprintf("n%d", k.Val)
	case 2:
		return "b" + string(k.Str)
	case 3:
		return "t" + string(k.Str)
	}
	return "o" + string(k.Ser())
}

func refNoDupDeep(w *W) error {
	if w.Maj == 5 {
		seen := map[string]bool{}
		for i := 0; i+1 < len(w.Kids); i += 2 {
			id := refKeyID(w.Kids[i])
			if seen[id] {
				return fmt.Errorf("duplicate map key %x", w.Kids[i].Ser())
			}
			seen[id] = true
		}
	}
	for _, k := range w.Kids {
		if err := refNoDupDeep(k); err != nil {
			return err
		}
	}
	return nil
}

func isUintW(w *W) bool { return w.Maj == 0 }
func isMediaText(w *W) bool {
	if w.Maj != 3 || len(w.Str) == 0 || w.Str[0] == ' ' || w.Str[len(w.Str)-1] == ' ' {
		return false
	}
	return bytes.Count(w.Str, []byte("/")) == 1
}

// refBucketOK checks RFC 9052 3.1 on one header map (wire level).
func refBucketOK(m *W, protected bool, depth int) error {
	if m.Maj != 5 {
		return errors.New("header bucket is not a map")
	}
	labels := map[string]bool{}
	has := func(n uint64) bool { return labels[fmt.Sprintf("i%d", n)] }
	for i := 0; i+1 < len(m.Kids); i += 2 {
		k := m.Kids[i]
		if !refLabelOK(k) {
			return fmt.Errorf("label %x is not int-within-int64 / tstr", k.Ser())
		}
		id := refKeyID(k)
		if labels[id] {
			return fmt.Errorf("duplicate label %x", k.Ser())
		}
		labels[id] = true
	}
	for i := 0; i+1 < len(m.Kids); i += 2 {
		k, v := m.Kids[i], m.Kids[i+1]
		if k.Maj != 0 {
			continue
		}
		switch k.Val {
		case 1:
			if !(v.Maj == 0 || v.Maj == 1 || v.Maj == 3) {
				return errors.New("alg is not int / tstr")
			}
		case 2:
			if !protected {
				return errors.New("crit in unprotected bucket")
			}
			if v.Maj != 4 || len(v.Kids) == 0 {
				return errors.New("crit is not a non-empty array")
			}
			for _, l := range v.Kids {
				if !(l.Maj == 0 || l.Maj == 1 || l.Maj == 3) || !labels[refKeyID(l)] {
					return errors.New("crit lists a label that is absent or not a label")
				}
			}
		case 3, 16:
			if !(isUintW(v) || isMediaText(v)) {
				return fmt.Errorf("label %d is not uint / media type text", k.Val)
			}
		case 4:
			if v.Maj != 2 {
				return errors.New("kid is not a bstr")
			}
		case 5:
			if v.Maj != 2 {
				return errors.New("IV is not a bstr")
			}
			if has(6) {
				return errors.New("IV and Partial IV in one bucket")
			}
		case 6:
			if v.Maj != 2 {
				return errors.New("Partial IV is not a bstr")
			}
		case 9, 12:
			if protected {
				return errors.New("countersignature0 in protected bucket")
			}
			if v.Maj != 2 {
				return errors.New("countersignature0 is not a bstr")
			}
		case 7, 11:
			if protected {
				return errors.New("countersignature in protected bucket")
			}
			if err := refCountersigOrList(v, depth); err != nil {
				return err
			}
		}
	}
	return nil
}

func refCountersigOrList(v *W, depth int) error {
	if v.Maj == 4 && len(v.Kids) == 3 && v.Kids[0].Maj == 2 {
		return refSignatureOK(v, depth+1)
	}
	if v.Maj != 4 || len(v.Kids) == 0 {
		return errors.New("countersignature value is neither an object nor a non-empty list")
	}
	for _, e := range v.Kids {
		if err := refSignatureOK(e, depth+1); err != nil {
			return err
		}
	}
	return nil
}

// refHeadersOK: protected is a bstr that is empty or wraps exactly one map; unprotected is a map; 3.1 rules; IV split.
func refHeadersOK(p, u *W, depth int) error {
	if p.Maj != 2 {
		return errors.New("protected header is not a bstr")
	}
	hasIV := map[string]bool{}
	if len(p.Str) > 0 {
		pm, err := refParseFull(p.Str)
		if err != nil {
			return errors.New("protected bstr does not wrap exactly one CBOR item")
		}
		if pm.Maj != 5 {
			return errors.New("protected bstr does not wrap a map")
		}
		if err := refBucketOK(pm, true, depth); err != nil {
			return fmt.Errorf("protected: %w", err)
		}
		if err := refNoDupDeep(pm); err != nil {
			return fmt.Errorf("protected: %w", err)
		}
		for i := 0; i+1 < len(pm.Kids); i += 2 {
			if pm.Kids[i].Maj == 0 && (pm.Kids[i].Val == 5 || pm.Kids[i].Val == 6) {
				hasIV[fmt.Sprintf("p%d", pm.Kids[i].Val)] = true
			}
		}
	}
	if err := refBucketOK(u, false, depth); err != nil {
		return fmt.Errorf("unprotected: %w", err)
	}
	if err := refNoDupDeep(u); err != nil {
		return fmt.Errorf("unprotected: %w", err)
	}
	for i := 0; i+1 < len(u.Kids); i += 2 {
		if u.Kids[i].Maj == 0 && (u.Kids[i].Val == 5 || u.Kids[i].Val == 6) {
			hasIV[fmt.Sprintf("u%d", u.Kids[i].Val)] = true
		}
	}
	if (hasIV["p5"] && hasIV["u6"]) || (hasIV["p6"] && hasIV["u5"]) {
		return errors.New("IV and Partial IV split across the two buckets")
	}
	return nil
}

func refSignatureOK(s *W, depth int) error {
	if s.Maj != 4 || s.Width != 0 || len(s.Kids) != 3 {
		return errors.New("COSE_Signature is not a 3-array with a one-byte head")
	}
	if s.hasTag() {
		return errors.New("tag inside a COSE_Signature")
	}
	if s.Kids[2].Maj != 2 || len(s.Kids[2].Str) == 0 {
		return errors.New("signature is not a non-empty bstr")
	}
	return refHeadersOK(s.Kids[0], s.Kids[1], depth)
}

// refMessageOK: the C05 conditions for an accepted input of the given decoder kind.
func refMessageOK(kind string, data []byte) error {
	w, err := refParseFull(data)
	if err != nil {
		return errors.New("not exactly one definite-length CBOR item")
	}
	body := w
	switch kind {
	case "DSign1":
		if w.Maj != 6 || w.Val != 18 || w.Width != 0 {
			return errors.New("not tag 18")
		}
		body = w.Kids[0]
	case "DSignMsg":
		if w.Maj != 6 || w.Val != 98 || w.Width != 1 {
			return errors.New("not tag 98")
		}
		body = w.Kids[0]
	}
	switch kind {
	case "DSign1", "DSign1U":
		if body.Maj != 4 || body.Width != 0 || len(body.Kids) != 4 {
			return errors.New("body is not a 4-array")
		}
		if body.hasTag() {
			return errors.New("tag inside the envelope")
		}
		if !(body.Kids[2].isBstr() || body.Kids[2].isNull()) {
			return errors.New("payload is not bstr / nil")
		}
		if body.Kids[3].Maj != 2 || len(body.Kids[3].Str) == 0 {
			return errors.New("signature is not a non-empty bstr")
		}
		return refHeadersOK(body.Kids[0], body.Kids[1], 0)
	case "DSignMsg":
		if body.Maj != 4 || body.Width != 0 || len(body.Kids) != 4 {
			return errors.New("body is not a 4-array")
		}
		if body.hasTag() {
			return errors.New("tag inside the envelope")
		}
		if !(body.Kids[2].isBstr() || body.Kids[2].isNull()) {
			return errors.New("payload is not bstr / nil")
		}
		sigs := body.Kids[3]
		if sigs.Maj != 4 || len(sigs.Kids) == 0 {
			return errors.New("signatures is not a non-empty array")
		}
		for _, s := range sigs.Kids {
			if err := refSignatureOK(s, 0); err != nil {
				return err
			}
		}
		return refHeadersOK(body.Kids[0], body.Kids[1], 0)
	case "DSignature":
		return refSignatureOK(w, 0)
	case "DProt":
		return refHeadersOK(w, wMap(-1), 0)
	case "DUnprot":
		return refHeadersOK(wBstr(nil, -1), w, 0)
	}
	return nil
}
