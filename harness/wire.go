package main

import (
	"encoding/binary"
	"math"
)

// W is a byte-exact CBOR syntax tree (the harness's own encoder: every head
// width is chosen explicitly, maps keep their entry order).
type W struct {
	Maj   int    // 0..7
	Width int    // 0 (immediate),1,2,4,8 bytes of argument
	Val   uint64 // argument (int value, length, count, tag number, simple/float bits)
	Str   []byte // content for major 2/3
	Kids  []*W   // array elements, map k,v,k,v..., tag content
	Raw   []byte // if non-nil: emitted verbatim (malformed fragments)
}

func minWidth(v uint64) int {
	switch {
	case v < 24:
		return 0
	case v < 1<<8:
		return 1
	case v < 1<<16:
		return 2
	case v < 1<<32:
		return 4
	}
	return 8
}

func head(maj, width int, v uint64) []byte {
	switch width {
	case 0:
		return []byte{byte(maj<<5) | byte(v)}
	case 1:
		return []byte{byte(maj<<5) | 24, byte(v)}
	case 2:
		b := []byte{byte(maj<<5) | 25, 0, 0}
		binary.BigEndian.PutUint16(b[1:], uint16(v))
		return b
	case 4:
		b := []byte{byte(maj<<5) | 26, 0, 0, 0, 0}
		binary.BigEndian.PutUint32(b[1:], uint32(v))
		return b
	}
	b := []byte{byte(maj<<5) | 27, 0, 0, 0, 0, 0, 0, 0, 0}
	binary.BigEndian.PutUint64(b[1:], v)
	return b
}

func (w *W) Ser() []byte {
	if w.Raw != nil {
		return w.Raw
	}
	switch w.Maj {
	case 0, 1, 7:
		return head(w.Maj, w.Width, w.Val)
	case 2, 3:
		return append(head(w.Maj, w.Width, uint64(len(w.Str))), w.Str...)
	case 4:
		out := head(4, w.Width, uint64(len(w.Kids)))
		for _, k := range w.Kids {
			out = append(out, k.Ser()...)
		}
		return out
	case 5:
		out := head(5, w.Width, uint64(len(w.Kids)/2))
		for _, k := range w.Kids {
			out = append(out, k.Ser()...)
		}
		return out
	case 6:
		return append(head(6, w.Width, w.Val), w.Kids[0].Ser()...)
	}
	panic("bad major")
}

func (w *W) Clone() *W {
	c := *w
	if w.Str != nil {
		c.Str = append([]byte{}, w.Str...)
	}
	if w.Raw != nil {
		c.Raw = append([]byte{}, w.Raw...)
	}
	c.Kids = make([]*W, len(w.Kids))
	for i, k := range w.Kids {
		c.Kids[i] = k.Clone()
	}
	return &c
}

// Nodes lists all nodes of the tree (pre-order) with a pointer to the slot that holds each.
func (w *W) Nodes() []**W {
	var out []**W
	var walk func(p **W)
	walk = func(p **W) {
		out = append(out, p)
		for i := range (*p).Kids {
			walk(&(*p).Kids[i])
		}
	}
	root := w
	walk(&root)
	return out
}

// ---- constructors; wd < 0 means "shortest" ----
func pickW(v uint64, wd int) int {
	if wd < 0 || wd < minWidth(v) {
		return minWidth(v)
	}
	return wd
}
func wInt(n int64, wd int) *W {
	if n >= 0 {
		return &W{Maj: 0, Width: pickW(uint64(n), wd), Val: uint64(n)}
	}
	return &W{Maj: 1, Width: pickW(uint64(-1-n), wd), Val: uint64(-1 - n)}
}
func wUint(n uint64, wd int) *W { return &W{Maj: 0, Width: pickW(n, wd), Val: n} }
func wNint(n uint64, wd int) *W { return &W{Maj: 1, Width: pickW(n, wd), Val: n} } // value -1-n
func wBstr(b []byte, wd int) *W {
	return &W{Maj: 2, Width: pickW(uint64(len(b)), wd), Str: b}
}
func wTstr(s string, wd int) *W {
	return &W{Maj: 3, Width: pickW(uint64(len(s)), wd), Str: []byte(s)}
}
func wArr(wd int, kids ...*W) *W {
	return &W{Maj: 4, Width: pickW(uint64(len(kids)), wd), Kids: kids}
}
func wMap(wd int, kv ...*W) *W {
	return &W{Maj: 5, Width: pickW(uint64(len(kv)/2), wd), Kids: kv}
}
func wTag(t uint64, wd int, c *W) *W { return &W{Maj: 6, Width: pickW(t, wd), Val: t, Kids: []*W{c}} }
func wSimple(v uint64) *W {
	if v < 24 {
		return &W{Maj: 7, Width: 0, Val: v}
	}
	return &W{Maj: 7, Width: 1, Val: v}
}
func wNull() *W  { return wSimple(22) }
func wUndef() *W { return wSimple(23) }
func wBool(b bool) *W {
	if b {
		return wSimple(21)
	}
	return wSimple(20)
}
func wFloat64(f float64) *W    { return &W{Maj: 7, Width: 8, Val: math.Float64bits(f)} }
func wFloat32(f float32) *W    { return &W{Maj: 7, Width: 4, Val: uint64(math.Float32bits(f))} }
func wFloat16bits(b uint16) *W { return &W{Maj: 7, Width: 2, Val: uint64(b)} }
func wRaw(b []byte) *W         { return &W{Raw: b} }

// widths valid for v, in increasing order
func widthsFor(v uint64) []int {
	all := []int{0, 1, 2, 4, 8}
	var out []int
	for _, w := range all {
		if w >= minWidth(v) {
			out = append(out, w)
		}
	}
	return out
}

// RandWidths re-spells every head of the tree with a random valid width
// (probability num/den per node to deviate from the current one).
func (w *W) RandWidths(r *Rng, num, den int, skip func(*W) bool) {
	for _, p := range w.Nodes() {
		n := *p
		if n.Raw != nil || (skip != nil && skip(n)) || !r.Chance(num, den) {
			continue
		}
		switch n.Maj {
		case 0, 1, 6:
			n.Width = pick(r, widthsFor(n.Val))
		case 2, 3:
			n.Width = pick(r, widthsFor(uint64(len(n.Str))))
		case 4:
			n.Width = pick(r, widthsFor(uint64(len(n.Kids))))
		case 5:
			n.Width = pick(r, widthsFor(uint64(len(n.Kids)/2)))
		}
	}
}

// ShuffleMaps permutes the entries of every map of the tree.
func (w *W) ShuffleMaps(r *Rng) {
	for _, p := range w.Nodes() {
		n := *p
		if n.Maj != 5 || n.Raw != nil {
			continue
		}
		k := len(n.Kids) / 2
		for i := k - 1; i > 0; i-- {
			j := r.Intn(i + 1)
			n.Kids[2*i], n.Kids[2*j] = n.Kids[2*j], n.Kids[2*i]
			n.Kids[2*i+1], n.Kids[2*j+1] = n.Kids[2*j+1], n.Kids[2*i+1]
		}
	}
}
