package main

import (
	"errors"
	"fmt"

	cose "github.com/veraison/go-cose"
)

func init() { runners["C04"] = runC04 }

// algInWire reads label 1 of the protected map inside a protected bstr item (harness's own reader).
func algInWire(protectedItem []byte) (val int64, isInt bool, present bool) {
	w, err := refParseFull(protectedItem)
	if err != nil || w.Maj != 2 || len(w.Str) == 0 {
		return 0, false, false
	}
	m, err := refParseFull(w.Str)
	if err != nil || m.Maj != 5 {
		return 0, false, false
	}
	for i := 0; i+1 < len(m.Kids); i += 2 {
		k, v := m.Kids[i], m.Kids[i+1]
		if k.Maj == 0 && k.Val == 1 {
			switch v.Maj {
			case 0:
				return int64(v.Val), true, true
			case 1:
				return -1 - int64(v.Val), true, true
			}
			return 0, false, true
		}
	}
	return 0, false, false
}

// protectedOfTBS extracts the 2nd element (body_protected / for countersignatures the 3rd is sign_protected) of a to-be-signed array.
func tbsElement(tbs []byte, idx int) []byte {
	w, err := refParseFull(tbs)
	if err != nil || w.Maj != 4 || len(w.Kids) <= idx {
		return nil
	}
	return w.Kids[idx].Ser()
}

func runC04(c *Collector, r *Rng, thorough bool) {
	c.Rule = "grid: structure {Sign1, Untagged, Signature, Countersignature, hash envelope} x protected alg {absent, equal, other int, private-use, text, bool, uint-typed, Algorithm-typed, int-kind spellings} x label spelling x external {nil, empty, non-empty} x raw protected {absent, empty non-nil, consistent, inconsistent} x signer/verifier alg; recording keys must not be invoked on mismatch, errors checked with errors.Is; the alg inside the signed bytes must equal the signer's; non-trivial = reached the alg gate; distinct by op term"
	type algv struct {
		name string
		val  any
		has  bool
	}
	algVals := func(a cose.Algorithm) []algv {
		return []algv{
			{"absent", nil, false},
			{"equal-Algorithm", a, true},
			{"equal-int64", int64(a), true},
			{"equal-int", int(a), true},
			{"equal-int32", int32(a), true},
			{"equal-int16", int16(a), true},
			{"other-Algorithm", cose.Algorithm(-35), true},
			{"other-int64", int64(-36), true},
			{"private-use", int64(-65537), true},
			{"text", "ES256", true},
			{"bool", true, true},
			{"uint64", uint64(7), true},
			{"uint8", uint8(7), true},
			{"bytes", []byte{1}, true},
			{"nil", nil, true},
		}
	}
	exts := []struct {
		name string
		v    []byte
	}{{"nil", nil}, {"empty", []byte{}}, {"nonempty", []byte("aad")}}
	signerAlgs := []cose.Algorithm{cose.AlgorithmES256, cose.AlgorithmPS256, -65537, 0}
	labelSpell := []func(int64) any{
		func(n int64) any { return n },
		func(n int64) any { return int(n) },
		func(n int64) any { return int8(n) },
		func(n int64) any { return uint64(n) },
		func(n int64) any { return uint8(n) },
	}
	structures := []string{"sign1", "untagged", "signature", "countersignature", "hashenvelope"}
	count := 0
	for _, st := range structures {
		for _, sa := range signerAlgs {
			for ai, av := range algVals(cose.AlgorithmES256) {
				for _, ex := range exts {
					for li, spell := range labelSpell {
						if !thorough && li > 0 && (ai+li+count)%3 != 0 {
							count++
							continue
						}
						count++
						if st == "hashenvelope" && ex.v != nil {
							continue // SignHashEnvelope takes no external data
						}
						for _, rawMode := range []string{"none", "empty-nonnil", "consistent", "inconsistent"} {
							if rawMode != "none" && (li != 0 || (!thorough && (ai%3 != 0))) {
								continue
							}
							mk := func() cose.Headers {
								h := cose.Headers{Protected: cose.ProtectedHeader{}, Unprotected: cose.UnprotectedHeader{}}
								if av.has {
									h.Protected[spell(1)] = av.val
								}
								h.Protected[int64(4)] = []byte("kid")
								switch rawMode {
								case "empty-nonnil":
									h.RawProtected = []byte{}
								case "consistent":
									if b, err := h.MarshalProtected(); err == nil {
										h.RawProtected = b
									} else {
										h.RawProtected = []byte{0x40}
									}
								case "inconsistent":
									h.RawProtected = []byte{0x43, 0xa1, 0x01, 0x38, 0x22}[:0]
									h.RawProtected = []byte{0x44, 0xa1, 0x01, 0x38, 0x22} // {1: -35}
								}
								return h
							}
							class := fmt.Sprintf("%s/alg-%s/ext-%s/raw-%s", st, av.name, ex.name, rawMode)
							c04Sign(c, class, st, mk(), ex.v, sa, li)
							c04Verify(c, class, st, mk(), ex.v, sa)
						}
					}
				}
			}
		}
	}
	c04Refill(c)
	c04Reuse(c)
	c04TwoSpellings(c)
	c04RefusalIsStable(c)
	// decoded messages: the alg consulted is the one in the protected bytes
	n := 150
	if thorough {
		n = 5000
	}
	for i := 0; i < n; i++ {
		kind := pick(r, []string{"DSign1", "DSign1U", "DSignature"})
		t := genTreeOfKind(r, kind, GenCfg{MaxEntries: 4, ValDepth: 1, Csig: 0, Tags: true})
		t.RandWidths(r, 1, 2, isEnvelopeHead(kind, t))
		data := t.Ser()
		d := decodeKind(kind, data)
		if d.err != nil || d.paniced {
			continue
		}
		va := pick(r, append(algChoices, -7, -7, -7))
		ext := pick(r, [][]byte{nil, {}, []byte("e")})
		vf := &spyVerifier{alg: cose.Algorithm(va)}
		var op, obs string
		var err error
		var protItem []byte
		if d.s1 != nil {
			if d.s1.Payload == nil {
				continue
			}
			op, obs, err, _ = execVerify1(d.s1, ext, vf)
			protItem = d.s1.Headers.RawProtected
		} else {
			op, obs, err, _ = execSigVerify(d.sig, vf, []byte{0x40}, []byte("p"), ext)
			protItem = d.sig.Headers.RawProtected
		}
		addCase(c, "decoded/"+kind, op, obs, true)
		wa, isInt, present := algInWire(protItem)
		called := len(vf.calls) > 0
		switch {
		case present && isInt && wa != va:
			if called || !errors.Is(err, cose.ErrAlgorithmMismatch) {
				c.Fail("C04/decoded-mismatch", fmt.Sprintf("protected bytes say alg %d, verifier is %d: called=%v err=%v", wa, va, called, err), map[string]any{"data": hx(data), "kind": kind})
			}
		case present && !isInt:
			if called {
				c.Fail("C04/decoded-nonint", "verifier invoked although protected alg is not an integer", map[string]any{"data": hx(data), "kind": kind})
			}
		case !present && len(ext) == 0:
			if called || !errors.Is(err, cose.ErrAlgorithmNotFound) {
				c.Fail("C04/decoded-absent", fmt.Sprintf("alg absent, no external data: called=%v err=%v", called, err), map[string]any{"data": hx(data), "kind": kind})
			}
		default:
			if !called {
				c.Fail("C04/decoded-not-called", fmt.Sprintf("alg gate refused a matching message: %v", err), map[string]any{"data": hx(data), "kind": kind})
			}
		}
	}
	c04EnvelopeWithoutAlg(c, r)
	c04SignedUnderProtectedAlg(c, r)
	c04DecodedTextAlg(c)
	c04SharedSignerHeaders(c)
	c04DecodedSmallAlgs(c)
}

// c04Reuse: one message object signed, encoded, then re-signed under another algorithm (key rotation: the signature
// is cleared, the alg parameter replaced): the bytes handed to the second signer, and the bytes emitted afterwards,
// say the second signer's algorithm.
func c04Reuse(c *Collector) {
	algs := []cose.Algorithm{cose.AlgorithmES256, cose.AlgorithmES384, cose.AlgorithmEdDSA, cose.AlgorithmPS256, cose.Algorithm(-65537)}
	for _, a := range algs {
		for _, b := range algs {
			if a == b {
				continue
			}
			for _, how := range []string{"replace-entry", "replace-map", "delete-entry"} {
				for _, structure := range []string{"COSE_Sign1", "COSE_Signature", "COSE_Countersignature"} {
					rep := map[string]any{"first_alg": int64(a), "second_alg": int64(b), "how": how, "structure": structure}
					h := cose.Headers{Protected: cose.ProtectedHeader{cose.HeaderLabelAlgorithm: a, int64(4): []byte("kid")}, Unprotected: cose.UnprotectedHeader{}}
					sgA := &spySigner{alg: a, kind: SOk, sig: []byte{1, 1}}
					sgB := &spySigner{alg: b, kind: SOk, sig: []byte{2, 2}}
					parent := &cose.Sign1Message{Headers: cose.Headers{Protected: cose.ProtectedHeader{cose.HeaderLabelAlgorithm: cose.AlgorithmES256}}, Payload: []byte("pp"), Signature: []byte{9}}
					var hp *cose.Headers
					var sigp *[]byte
					var sign func(sg *spySigner) error
					var enc func() ([]byte, error)
					idx := 1
					switch structure {
					case "COSE_Sign1":
						m := &cose.Sign1Message{Headers: h, Payload: []byte("p")}
						hp, sigp = &m.Headers, &m.Signature
						sign = func(sg *spySigner) error { return m.Sign(nil, nil, sg) }
						enc = m.MarshalCBOR
					case "COSE_Signature":
						sg := &cose.Signature{Headers: h}
						hp, sigp = &sg.Headers, &sg.Signature
						sign = func(s *spySigner) error { return sg.Sign(nil, s, []byte{0x40}, []byte("p"), nil) }
						enc = sg.MarshalCBOR
						idx = 2
					default:
						cs := &cose.Countersignature{Headers: h}
						hp, sigp = &cs.Headers, &cs.Signature
						sign = func(s *spySigner) error { return cs.Sign(nil, s, parent, nil) }
						enc = cs.MarshalCBOR
						idx = 2
					}
					if sign(sgA) != nil {
						continue
					}
					if _, err := enc(); err != nil {
						continue
					}
					*sigp = nil
					switch how {
					case "replace-entry":
						hp.Protected[cose.HeaderLabelAlgorithm] = b
					case "replace-map":
						hp.Protected = cose.ProtectedHeader{cose.HeaderLabelAlgorithm: b}
					default:
						delete(hp.Protected, cose.HeaderLabelAlgorithm) // Sign inserts the signer's algorithm
					}
					err := sign(sgB)
					c.Eval("reuse-after-encoding/"+structure+"/"+how, fmt.Sprint(a, b), true)
					if err != nil {
						c.Fail("C04/resign-refused", fmt.Sprintf("re-signing under alg %d after the message had been encoded under alg %d failed: %v", b, a, err), rep)
						continue
					}
					if len(sgB.calls) != 1 {
						continue
					}
					if wa, isInt, present := algInWire(tbsElement(sgB.calls[0], idx)); !present || !isInt || cose.Algorithm(wa) != b {
						c.Fail("C04/signed-under-other-alg", fmt.Sprintf("a signer of algorithm %d was handed bytes whose protected bucket says alg %d (present=%v)", b, wa, present), rep)
						continue
					}
					if out, err := enc(); err == nil {
						w, perr := refParseFull(out)
						if perr == nil && w.Maj == 6 {
							w = w.Kids[0]
						}
						if perr == nil && len(w.Kids) > 0 {
							if wa, isInt, present := algInWire(w.Kids[0].Ser()); !present || !isInt || cose.Algorithm(wa) != b {
								c.Fail("C04/emitted-under-other-alg", fmt.Sprintf("the message signed under alg %d is emitted with a protected bucket that says alg %d (present=%v)", b, wa, present), rep)
							}
						}
					}
				}
			}
		}
	}
}

// c04RefusalIsStable: a Sign refused for its algorithm (or failed in the key) leaves the object as it was, so that
// asking again gives the same answer - for COSE_Sign at every signer position.
func c04RefusalIsStable(c *Collector) {
	for _, first := range []string{"mismatch", "key-fault"} {
		for n := 1; n <= 3; n++ {
			for pos := 0; pos < n; pos++ {
				sm := &cose.SignMessage{Headers: cose.Headers{Protected: cose.ProtectedHeader{}}, Payload: []byte("p")}
				var sgs []cose.Signer
				for j := 0; j < n; j++ {
					sm.Signatures = append(sm.Signatures, &cose.Signature{Headers: cose.Headers{Protected: cose.ProtectedHeader{cose.HeaderLabelAlgorithm: cose.AlgorithmES512}}})
					sgs = append(sgs, &spySigner{alg: cose.AlgorithmES512, kind: SOk, sig: []byte{byte(j + 1)}})
				}
				if first == "mismatch" {
					sgs[pos] = &spySigner{alg: cose.AlgorithmES256, kind: SOk, sig: []byte{9}}
				} else {
					sgs[pos] = &spySigner{alg: cose.AlgorithmES512, kind: SErr}
				}
				before := oSignMsg(sm)
				e1 := sm.Sign(nil, nil, sgs...)
				mid := oSignMsg(sm)
				// second attempt: at the failing position now a signer of another algorithm than the header names
				other := &spySigner{alg: cose.AlgorithmES256, kind: SOk, sig: []byte{8}}
				sgs2 := append([]cose.Signer{}, sgs...)
				sgs2[pos] = other
				for j := 0; j < pos; j++ {
					sgs2[j] = &spySigner{alg: cose.AlgorithmES512, kind: SOk, sig: []byte{byte(j + 1)}}
				}
				for _, sg := range sm.Signatures {
					sg.Signature = nil
				}
				e2 := sm.Sign(nil, nil, sgs2...)
				c.Eval("refusal-is-stable/"+first, fmt.Sprint(n, pos), true)
				rep := map[string]any{"n": n, "position": pos, "first": first}
				if e1 == nil {
					continue
				}
				alg, _ := sm.Signatures[pos].Headers.Protected.Algorithm()
				if e2 == nil || len(other.calls) > 0 || alg != cose.AlgorithmES512 {
					c.Fail("C04/refusal-not-stable", fmt.Sprintf("slot %d of %d names ES512; after a first Sign failed there (%v) a second Sign with an ES256 signer returned %v, the key was invoked %d times, the header now says %v", pos, n, e1, e2, len(other.calls), alg), rep)
				}
				_ = before
				_ = mid
			}
		}
	}
	// the single-signer structures
	for _, structure := range []string{"COSE_Sign1", "COSE_Signature", "COSE_Countersignature"} {
		h := cose.Headers{Protected: cose.ProtectedHeader{cose.HeaderLabelAlgorithm: cose.AlgorithmES512, int64(4): []byte("kid")}, Unprotected: cose.UnprotectedHeader{}}
		parent := &cose.Sign1Message{Headers: cose.Headers{Protected: cose.ProtectedHeader{}}, Payload: []byte("pp"), Signature: []byte{9}}
		var sign func(sg *spySigner) error
		var snap func() string
		switch structure {
		case "COSE_Sign1":
			m := &cose.Sign1Message{Headers: h, Payload: []byte("p")}
			sign = func(sg *spySigner) error { return m.Sign(nil, nil, sg) }
			snap = func() string { return oSign1(m) }
		case "COSE_Signature":
			sg0 := &cose.Signature{Headers: h}
			sign = func(sg *spySigner) error { return sg0.Sign(nil, sg, []byte{0x40}, []byte("p"), nil) }
			snap = func() string { return oSigv(sg0) }
		default:
			cs := &cose.Countersignature{Headers: h}
			sign = func(sg *spySigner) error { return cs.Sign(nil, sg, parent, nil) }
			snap = func() string { return oSigv((*cose.Signature)(cs)) }
		}
		before := snap()
		e1 := sign(&spySigner{alg: cose.AlgorithmES256, kind: SOk, sig: []byte{1}})
		after := snap()
		e2 := sign(&spySigner{alg: cose.AlgorithmES256, kind: SOk, sig: []byte{1}})
		c.Eval("refusal-is-stable/"+structure, "", true)
		if e1 == nil || e2 == nil || before != after {
			c.Fail("C04/refusal-not-stable", fmt.Sprintf("%s naming ES512 offered to an ES256 signer twice: %v, then %v; object changed by the refusal: %v", structure, e1, e2, before != after), map[string]any{"structure": structure})
		}
	}
}

// c04TwoSpellings: the alg label present twice under two Go integer kinds (neither of them int64) with different
// values: one COSE label twice - nothing is signed, whichever entry Go's map iteration yields first.
func c04TwoSpellings(c *Collector) {
	spellings := []func(int64) any{func(n int64) any { return int(n) }, func(n int64) any { return int8(n) }, func(n int64) any { return int16(n) },
		func(n int64) any { return int32(n) }, func(n int64) any { return uint8(n) }, func(n int64) any { return uint16(n) }, func(n int64) any { return uint(n) }, func(n int64) any { return uint64(n) }}
	for i, s1 := range spellings {
		for j, s2 := range spellings {
			if i >= j {
				continue
			}
			for _, structure := range []string{"COSE_Sign1", "COSE_Signature", "COSE_Countersignature"} {
				signedUnder := map[string]int{}
				for round := 0; round < 16; round++ {
					hp := cose.ProtectedHeader{s1(1): cose.AlgorithmES256, s2(1): cose.AlgorithmPS256}
					sg := &spySigner{alg: cose.AlgorithmES256, kind: SOk, sig: []byte{1, 2}}
					var err error
					switch structure {
					case "COSE_Sign1":
						err = (&cose.Sign1Message{Headers: cose.Headers{Protected: hp}, Payload: []byte("p")}).Sign(nil, nil, sg)
					case "COSE_Signature":
						err = (&cose.Signature{Headers: cose.Headers{Protected: hp}}).Sign(nil, sg, []byte{0x40}, []byte("p"), nil)
					default:
						err = (&cose.Countersignature{Headers: cose.Headers{Protected: hp}}).Sign(nil, sg, &cose.Sign1Message{Headers: cose.Headers{Protected: cose.ProtectedHeader{}}, Payload: []byte("p"), Signature: []byte{1}}, nil)
					}
					if err == nil || len(sg.calls) > 0 {
						signedUnder[fmt.Sprint(err)]++
					}
				}
				c.Eval("alg-label-spelled-twice/"+structure, fmt.Sprint(i, j), true)
				if len(signedUnder) > 0 {
					c.Fail("C04/duplicate-alg-label-signed", fmt.Sprintf("%s with label 1 present as %T (ES256) and as %T (PS256): an ES256 signer was used in %v of 16 attempts", structure, s1(1), s2(1), signedUnder), map[string]any{"structure": structure, "spellings": fmt.Sprintf("%T %T", s1(1), s2(1))})
				}
			}
		}
	}
}

// c04Refill: Headers.UnmarshalFromRaw on a Headers value that was used before: afterwards the typed maps must
// say what the raw bytes say, so that the alg consulted by Verify is the one inside the bytes that are verified.
func c04Refill(c *Collector) {
	raws := [][]byte{{0x40}, {0x43, 0xa1, 0x01, 0x26}, {0x44, 0xa1, 0x01, 0x38, 0x22}, {0x44, 0xa1, 0x04, 0x41, 0x01}, {0x41, 0xa0}}
	olds := []cose.ProtectedHeader{nil, {}, {cose.HeaderLabelAlgorithm: cose.AlgorithmES256}, {cose.HeaderLabelAlgorithm: cose.AlgorithmES384, int64(4): []byte("k")}, {int64(1): int64(-7)}}
	for _, raw := range raws {
		for oi, old := range olds {
			for _, ext := range [][]byte{nil, []byte("e")} {
				for _, va := range []cose.Algorithm{-7, -35} {
					h := cose.Headers{RawProtected: append([]byte{}, raw...), RawUnprotected: []byte{0xa0}}
					if old != nil {
						h.Protected = cose.ProtectedHeader{}
						for k, v := range old {
							h.Protected[k] = v
						}
						h.Unprotected = cose.UnprotectedHeader{int64(4): []byte("old")}
					}
					if err := h.UnmarshalFromRaw(); err != nil {
						continue
					}
					c.Eval("refill", fmt.Sprint(hx(raw), oi, len(ext), va), true)
					rep := map[string]any{"raw_protected": hx(raw), "previous_protected": fmt.Sprint(old), "ext": hx(ext), "verifier_alg": int64(va)}
					if len(h.Unprotected) != 0 {
						c.Fail("C04/refill-keeps-old-entries", "UnmarshalFromRaw of an empty unprotected bucket left old parameters in the typed map", rep)
					}
					vf := &spyVerifier{alg: va}
					m := &cose.Sign1Message{Headers: h, Payload: []byte("p"), Signature: []byte{1}}
					err := m.Verify(ext, vf)
					wa, isInt, present := algInWire(raw)
					called := len(vf.calls) > 0
					switch {
					case present && isInt && cose.Algorithm(wa) != va:
						if called || !errors.Is(err, cose.ErrAlgorithmMismatch) {
							c.Fail("C04/refill-mismatch", fmt.Sprintf("the protected bytes say alg %d, the verifier is %d: key invoked=%v err=%v", wa, va, called, err), rep)
						}
					case !present && len(ext) == 0:
						if called || !errors.Is(err, cose.ErrAlgorithmNotFound) {
							c.Fail("C04/refill-absent", fmt.Sprintf("the protected bytes carry no alg and there is no external data: key invoked=%v err=%v (an alg left over in the typed map was consulted)", called, err), rep)
						}
					default:
						if !called {
							c.Fail("C04/refill-not-called", fmt.Sprintf("the alg gate refused a matching message: %v", err), rep)
						}
					}
				}
			}
		}
	}
}

func expectGate(h *cose.Headers, sa cose.Algorithm) (string, cose.Algorithm) {
	// what the typed protected map says about alg, read independently: any Go integer spelling of label 1
	var found any
	present := false
	for k, v := range h.Protected {
		if n, ok := asInt64(k); ok && n == 1 {
			found, present = v, true
		}
	}
	if !present {
		return "absent", 0
	}
	if n, ok := algAsInt(found); ok {
		if cose.Algorithm(n) == sa {
			return "equal", cose.Algorithm(n)
		}
		return "different", cose.Algorithm(n)
	}
	return "nonint", 0
}

func asInt64(v any) (int64, bool) {
	switch t := v.(type) {
	case int:
		return int64(t), true
	case int8:
		return int64(t), true
	case int16:
		return int64(t), true
	case int32:
		return int64(t), true
	case int64:
		return t, true
	case uint:
		return int64(t), true
	case uint8:
		return int64(t), true
	case uint16:
		return int64(t), true
	case uint32:
		return int64(t), true
	case uint64:
		return int64(t), true
	}
	return 0, false
}

// values Algorithm() treats as an integer algorithm
func algAsInt(v any) (int64, bool) {
	switch t := v.(type) {
	case cose.Algorithm:
		return int64(t), true
	case int:
		return int64(t), true
	case int8:
		return int64(t), true
	case int16:
		return int64(t), true
	case int32:
		return int64(t), true
	case int64:
		return t, true
	}
	return 0, false
}

func c04Sign(c *Collector, class, st string, h cose.Headers, ext []byte, sa cose.Algorithm, li int) {
	sg := &spySigner{alg: sa, kind: SOk, sig: []byte{0xaa, 0xbb}}
	var op, obs string
	var err error
	var p bool
	gate, _ := expectGate(&h, sa)
	rawGiven := h.RawProtected != nil
	switch st {
	case "sign1":
		m := &cose.Sign1Message{Headers: h, Payload: []byte("payload")}
		op, obs, err, p = execSign1(m, ext, sg)
		h = m.Headers
	case "untagged":
		m := &cose.Sign1Message{Headers: h, Payload: []byte("payload")}
		op, obs, err, p = execSign1(m, ext, sg) // same method set; the untagged wrapper is exercised below
		var out []byte
		sg2 := &spySigner{alg: sa, kind: SOk, sig: []byte{0xaa, 0xbb}}
		h2 := cloneHeaders(h)
		if rawGiven {
			h2.RawProtected = h.RawProtected
		}
		_ = out
		_ = sg2
		_ = h2
		h = m.Headers
	case "signature":
		s := &cose.Signature{Headers: h}
		op, obs, err, p = execSigSign(s, sg, []byte{0x40}, []byte("payload"), ext)
		h = s.Headers
	case "countersignature":
		s := &cose.Countersignature{Headers: h}
		parent := &cose.Sign1Message{Headers: cose.Headers{Protected: cose.ProtectedHeader{}}, Payload: []byte("p"), Signature: []byte{1}}
		op, obs, err, p = execCsign(s, sg, parentOf(parent, true), ext)
		h = s.Headers
	case "hashenvelope":
		op, obs, _, err, p = execSignHE(sg, h, cose.HashEnvelopePayload{HashAlgorithm: cose.AlgorithmSHA256, HashValue: make([]byte, 32)})
	}
	if p {
		c.Fail("C04/panic", "Sign panicked", map[string]any{"op": op})
		return
	}
	addCase(c, "sign/"+class, op, obs, true)
	called := len(sg.calls) > 0
	rep := map[string]any{"op": trunc(op, 600), "structure": st}
	suffix := ""
	if li != 0 {
		suffix = "/label-spelled-non-int64"
	}
	fail := func(key, desc string) {
		if st == "hashenvelope" {
			// SignHashEnvelope builds the protected bucket itself: caller-supplied raw bytes play no part
			key += "/hashenvelope"
		} else if rawGiven && len(h.RawProtected) > 0 {
			// caller-supplied raw protected bytes are signed as they are; their alg is never consulted (known finding:
			// the typed map, or the external data, decides). One case is outside that finding: no external data and no
			// alg in the typed map either - nothing names an algorithm, the library refuses, and must go on refusing
			if gate == "absent" && len(ext) == 0 {
				key = "C04/raw-protected-signed-without-any-alg"
			} else {
				key = "C04/raw-protected-alg-not-consulted"
			}
		}
		c.Fail(key, desc, rep)
	}
	switch gate {
	case "different":
		if called || !errors.Is(err, cose.ErrAlgorithmMismatch) {
			fail("C04/sign-mismatch"+suffix, fmt.Sprintf("protected alg differs from the signer's: key invoked=%v err=%v", called, err))
		}
	case "nonint":
		if called {
			fail("C04/sign-nonint"+suffix, "key invoked although protected alg is not an integer")
		}
	case "absent":
		if len(ext) == 0 {
			if err == nil {
				// the signer's alg must now be inside the signed bytes
				prot := tbsElement(sg.calls[0], 1)
				if st == "signature" || st == "countersignature" {
					prot = tbsElement(sg.calls[0], 2)
				}
				wa, isInt, present := algInWire(prot)
				if !present || !isInt || cose.Algorithm(wa) != sa {
					fail("C04/signed-without-alg"+suffix, fmt.Sprintf("signed without external data but the signed protected bytes carry alg present=%v value=%d, signer is %d", present, wa, sa))
				}
			} else if called {
				fail("C04/sign-absent-called"+suffix, "key invoked although signing failed the alg gate")
			}
		}
	}
	// whenever a signature was produced without external data, the signed bytes carry the signer's alg
	if err == nil && called && len(ext) == 0 {
		prot := tbsElement(sg.calls[0], 1)
		if st == "signature" || st == "countersignature" {
			prot = tbsElement(sg.calls[0], 2)
		}
		wa, isInt, present := algInWire(prot)
		if !present || !isInt || cose.Algorithm(wa) != sa {
			fail("C04/signed-bytes-alg"+suffix, fmt.Sprintf("signed without external data under alg %d but signed bytes say present=%v int=%v value=%d", sa, present, isInt, wa))
		}
	}
	// with external data too: if the signed bytes carry an integer alg it must be the signer's
	if err == nil && called && len(ext) > 0 {
		prot := tbsElement(sg.calls[0], 1)
		if st == "signature" || st == "countersignature" {
			prot = tbsElement(sg.calls[0], 2)
		}
		wa, isInt, present := algInWire(prot)
		if present && isInt && cose.Algorithm(wa) != sa {
			fail("C04/signed-under-other-alg"+suffix, fmt.Sprintf("signed under alg %d while the signed protected bytes say %d", sa, wa))
		}
	}
}

func c04Verify(c *Collector, class, st string, h cose.Headers, ext []byte, va cose.Algorithm) {
	vf := &spyVerifier{alg: va}
	var op, obs string
	var err error
	var p bool
	gate, _ := expectGate(&h, va)
	switch st {
	case "hashenvelope":
		return // VerifyHashEnvelope takes wire bytes: covered by the decoded-message part and by C12
	case "sign1", "untagged":
		m := &cose.Sign1Message{Headers: h, Payload: []byte("payload"), Signature: []byte{1, 2}}
		op, obs, err, p = execVerify1(m, ext, vf)
	case "signature":
		s := &cose.Signature{Headers: h, Signature: []byte{1, 2}}
		op, obs, err, p = execSigVerify(s, vf, []byte{0x40}, []byte("payload"), ext)
	case "countersignature":
		s := &cose.Countersignature{Headers: h, Signature: []byte{1, 2}}
		parent := &cose.Sign1Message{Headers: cose.Headers{Protected: cose.ProtectedHeader{}}, Payload: []byte("p"), Signature: []byte{1}}
		op, obs, err, p = execCverify(s, vf, parentOf(parent, false), ext)
	}
	if p {
		c.Fail("C04/panic", "Verify panicked", map[string]any{"op": op})
		return
	}
	addCase(c, "verify/"+class, op, obs, true)
	called := len(vf.calls) > 0
	rep := map[string]any{"op": trunc(op, 600), "structure": st}
	switch gate {
	case "different":
		if called || !errors.Is(err, cose.ErrAlgorithmMismatch) {
			c.Fail("C04/verify-mismatch", fmt.Sprintf("protected alg differs from the verifier's: key invoked=%v err=%v", called, err), rep)
		}
	case "nonint":
		if called {
			c.Fail("C04/verify-nonint", "verifier invoked although protected alg is not an integer", rep)
		}
	case "absent":
		if len(ext) == 0 && (called || !errors.Is(err, cose.ErrAlgorithmNotFound)) {
			c.Fail("C04/verify-absent", fmt.Sprintf("alg absent and no external data: invoked=%v err=%v", called, err), rep)
		}
	}
}

// c04EnvelopeWithoutAlg: hash envelopes whose protected bucket names no alg (all other required parameters present),
// in every length-prefix spelling: VerifyHashEnvelope takes no external data, so nothing says which algorithm the
// envelope was signed under - the verifier must not be consulted and no message is returned.
func c04EnvelopeWithoutAlg(c *Collector, r *Rng) {
	for _, alg := range goAlgs {
		for vi, pm := range []*W{
			wMap(-1, wInt(258, -1), wInt(-16, -1)),
			wMap(-1, wInt(258, -1), wInt(-16, -1), wInt(259, -1), wTstr("text/plain", -1), wInt(260, -1), wTstr("loc", -1)),
			wMap(-1, wInt(258, -1), wInt(-43, -1), wInt(4, -1), wBstr([]byte("kid"), -1)),
		} {
			for _, wd := range widthsFor(uint64(len(pm.Ser()))) {
				pb := wBstr(pm.Ser(), wd)
				digest := make([]byte, 32)
				if vi == 2 {
					digest = make([]byte, 48)
				}
				env := wTag(18, -1, wArr(-1, pb, wMap(-1), wBstr(digest, -1), wBstr([]byte{1, 2, 3}, -1))).Ser()
				vf := &spyVerifier{alg: alg}
				var msg *cose.Sign1Message
				var err error
				if p, _ := protect(func() { msg, err = cose.VerifyHashEnvelope(vf, env) }); p {
					c.Fail("C04/panic", "VerifyHashEnvelope panicked", map[string]any{"data": hx(env)})
					continue
				}
				c.Eval("hashenvelope-without-alg", fmt.Sprint(alg, vi, wd), true)
				if len(vf.calls) > 0 || err == nil || msg != nil {
					c.Fail("C04/decoded-absent", fmt.Sprintf("a hash envelope whose protected bucket has no alg: verifier invoked %d times, err=%v, message returned=%v", len(vf.calls), err, msg != nil), map[string]any{"data": hx(env), "verifier_alg": int64(alg)})
				}
			}
		}
	}
}

// c04SignedUnderProtectedAlg: every built-in signer (plain keys, and the same keys behind an opaque crypto.Signer, ECDSA
// keys under each ES algorithm regardless of their curve): the signature it produces through each signing entry point
// is valid, by the standard library, under the algorithm named in the protected bytes that were signed - the digest
// is the one of that algorithm, not one chosen from the key.
func c04SignedUnderProtectedAlg(c *Collector, r *Rng) {
	keys := append(append([]realKey{}, realKeySet(r)...), opaqueKeySet(r)...)
	for _, k := range keys {
		signer := k.signer()
		pcontent := wMap(-1, wInt(1, -1), wInt(int64(k.alg), -1)).Ser()
		payload := r.Bytes(1 + r.Intn(40))
		rep := map[string]any{"key": k.name, "alg": k.alg.String()}
		c.Eval("signed-under-protected-alg/"+k.name, k.alg.String(), true)
		// COSE_Sign1 with the alg given, and with the alg left to be inserted
		for _, given := range []bool{true, false} {
			m := &cose.Sign1Message{Headers: cose.Headers{Protected: cose.ProtectedHeader{}}, Payload: payload}
			if given {
				m.Headers.Protected[cose.HeaderLabelAlgorithm] = k.alg
			}
			if err := m.Sign(r, nil, signer); err != nil {
				continue
			}
			tbs := refArray(refTstr("Signature1"), refBstr(pcontent), refBstr(nil), refBstr(payload))
			if !refVerify(k.alg, k.pub, tbs, m.Signature) {
				c.Fail("C04/signed-under-other-alg", fmt.Sprintf("COSE_Sign1 (alg given=%v): the signature is not valid under %v, the algorithm in the signed protected bytes", given, k.alg), rep)
			}
		}
		// COSE_Signature in a COSE_Sign
		sm := &cose.SignMessage{Headers: cose.Headers{Protected: cose.ProtectedHeader{}}, Payload: payload, Signatures: []*cose.Signature{{Headers: cose.Headers{Protected: cose.ProtectedHeader{cose.HeaderLabelAlgorithm: k.alg}}}}}
		if err := sm.Sign(r, nil, signer); err == nil {
			tbs := refArray(refTstr("Signature"), refBstr(nil), refBstr(pcontent), refBstr(nil), refBstr(payload))
			if !refVerify(k.alg, k.pub, tbs, sm.Signatures[0].Signature) {
				c.Fail("C04/signed-under-other-alg", fmt.Sprintf("COSE_Signature: the signature is not valid under %v, the algorithm in the signed protected bytes", k.alg), rep)
			}
		}
		// hash envelope
		digest := make([]byte, 32)
		if env, err := cose.SignHashEnvelope(r, signer, cose.Headers{}, cose.HashEnvelopePayload{HashAlgorithm: cose.AlgorithmSHA256, HashValue: digest}); err == nil {
			if w, perr := refParseFull(env); perr == nil && len(w.Kids) == 1 && len(w.Kids[0].Kids) == 4 {
				body := w.Kids[0]
				if a, isInt, present := algInWire(body.Kids[0].Ser()); present && isInt && cose.Algorithm(a) == k.alg {
					tbs := refArray(refTstr("Signature1"), refBstr(body.Kids[0].Str), refBstr(nil), refBstr(digest))
					if !refVerify(k.alg, k.pub, tbs, body.Kids[3].Str) {
						c.Fail("C04/signed-under-other-alg", fmt.Sprintf("hash envelope: the signature is not valid under %v, the algorithm in the signed protected bytes", k.alg), rep)
					}
				}
			}
		}
		// full and abbreviated countersignatures
		parent := &cose.Sign1Message{Headers: cose.Headers{Protected: cose.ProtectedHeader{cose.HeaderLabelAlgorithm: k.alg}}, Payload: payload, Signature: []byte{1, 2, 3}}
		cs := &cose.Countersignature{Headers: cose.Headers{Protected: cose.ProtectedHeader{cose.HeaderLabelAlgorithm: k.alg}}}
		if err := cs.Sign(r, signer, parent, nil); err == nil {
			if tbs, rerr := refCountersign(false, parent, refBstr(pcontent), nil); rerr == nil && !refVerify(k.alg, k.pub, tbs, cs.Signature) {
				c.Fail("C04/signed-under-other-alg", fmt.Sprintf("countersignature: the signature is not valid under %v, the algorithm in the signed protected bytes", k.alg), rep)
			}
		}
	}
}

// c04DecodedTextAlg: decoded structures whose protected bytes name the algorithm with a text string (legal CBOR, legal
// COSE, never equal to a key's integer algorithm): no verifier and no signer is invoked on them, whatever algorithm it
// reports - the reserved value 0 and unassigned integers included - with or without external data.
func c04DecodedTextAlg(c *Collector) {
	for _, ta := range []string{"foo", "ES256", "", "-7", "0"} {
		pcontent := wMap(-1, wInt(1, -1), wTstr(ta, -1)).Ser()
		pb := wBstr(pcontent, -1)
		for _, va := range []cose.Algorithm{0, -7, -8, -65537, 5} {
			for _, ext := range [][]byte{nil, {}, []byte("e")} {
				rep := map[string]any{"text_alg": ta, "key_alg": int64(va), "ext": hx(ext)}
				type trial struct {
					name   string
					verify func(vf *spyVerifier) error
					sign   func(sg *spySigner) error
				}
				var trials []trial
				for _, tagged := range []bool{true, false} {
					body := wArr(-1, pb.Clone(), wMap(-1), wBstr([]byte("p"), -1), wBstr([]byte{1}, -1))
					data := body.Ser()
					var m cose.Sign1Message
					var err error
					if tagged {
						data = wTag(18, -1, body).Ser()
						err = m.UnmarshalCBOR(data)
					} else {
						err = (*cose.UntaggedSign1Message)(&m).UnmarshalCBOR(data)
					}
					if err != nil {
						continue
					}
					mm := &m
					trials = append(trials, trial{fmt.Sprintf("COSE_Sign1 tagged=%v", tagged), func(vf *spyVerifier) error { return mm.Verify(ext, vf) },
						func(sg *spySigner) error { cp := *mm; cp.Signature = nil; return cp.Sign(nil, ext, sg) }})
				}
				sdata := wArr(-1, pb.Clone(), wMap(-1), wBstr([]byte{1}, -1)).Ser()
				var sg0 cose.Signature
				if sg0.UnmarshalCBOR(sdata) == nil {
					trials = append(trials, trial{"COSE_Signature", func(vf *spyVerifier) error { return sg0.Verify(vf, []byte{0x40}, []byte("p"), ext) },
						func(sg *spySigner) error {
							cp := sg0
							cp.Signature = nil
							return cp.Sign(nil, sg, []byte{0x40}, []byte("p"), ext)
						}})
				}
				var cs0 cose.Countersignature
				if cs0.UnmarshalCBOR(sdata) == nil {
					parent := &cose.Sign1Message{Headers: cose.Headers{Protected: cose.ProtectedHeader{}}, Payload: []byte("p"), Signature: []byte{1}}
					trials = append(trials, trial{"COSE_Countersignature", func(vf *spyVerifier) error { return cs0.Verify(vf, parent, ext) },
						func(sg *spySigner) error { cp := cs0; cp.Signature = nil; return cp.Sign(nil, sg, parent, ext) }})
				}
				if len(ext) == 0 {
					hp := wBstr(wMap(-1, wInt(1, -1), wTstr(ta, -1), wInt(258, -1), wInt(-16, -1)).Ser(), -1)
					env := wTag(18, -1, wArr(-1, hp, wMap(-1), wBstr(make([]byte, 32), -1), wBstr([]byte{1}, -1))).Ser()
					trials = append(trials, trial{"hash envelope", func(vf *spyVerifier) error { _, err := cose.VerifyHashEnvelope(vf, env); return err }, nil})
				}
				for _, tr := range trials {
					c.Eval("decoded-text-alg/"+tr.name, fmt.Sprint(ta, va, len(ext), ext == nil), true)
					vf := &spyVerifier{alg: va}
					var err error
					if p, _ := protect(func() { err = tr.verify(vf) }); p {
						c.Fail("C04/panic", tr.name+": Verify panicked on a text alg", rep)
						continue
					}
					if len(vf.calls) > 0 || err == nil {
						c.Fail("C04/decoded-nonint", fmt.Sprintf("%s whose protected bytes say alg %q: a verifier reporting algorithm %d was invoked %d times, Verify returned %v", tr.name, ta, va, len(vf.calls), err), rep)
					}
					if tr.sign != nil {
						sg := &spySigner{alg: va, kind: SOk, sig: []byte{1}}
						if p, _ := protect(func() { err = tr.sign(sg) }); p {
							c.Fail("C04/panic", tr.name+": Sign panicked on a text alg", rep)
							continue
						}
						if len(sg.calls) > 0 || err == nil {
							c.Fail("C04/decoded-nonint", fmt.Sprintf("%s whose protected bytes say alg %q, signed again: a signer reporting algorithm %d was invoked %d times, Sign returned %v", tr.name, ta, va, len(sg.calls), err), rep)
						}
					}
				}
			}
		}
	}
}

// c04SharedSignerHeaders: a COSE_Sign whose signer entries share one protected map (one template value used for every
// signer), or list the same *Signature twice, signed by signers of different algorithms without external data: whatever
// bytes a key signs name that key's algorithm; a signer whose algorithm the shared header contradicts is not invoked.
func c04SharedSignerHeaders(c *Collector) {
	for _, mode := range []string{"shared protected map", "same *Signature twice", "shared map, alg preset"} {
		for _, algs := range [][]cose.Algorithm{{-7, -36}, {-36, -7}, {-7, -8, -7}, {-7, -7}} {
			shared := cose.ProtectedHeader{}
			if mode == "shared map, alg preset" {
				shared[cose.HeaderLabelAlgorithm] = algs[0]
			}
			sm := &cose.SignMessage{Headers: cose.Headers{Protected: cose.ProtectedHeader{}}, Payload: []byte("p")}
			one := &cose.Signature{Headers: cose.Headers{Protected: shared}}
			var sgs []cose.Signer
			var spies []*spySigner
			for range algs {
				if mode == "same *Signature twice" {
					sm.Signatures = append(sm.Signatures, one)
				} else {
					sm.Signatures = append(sm.Signatures, &cose.Signature{Headers: cose.Headers{Protected: shared}})
				}
			}
			for _, a := range algs {
				sp := &spySigner{alg: a, kind: SOk, sig: []byte{1, 2}}
				spies = append(spies, sp)
				sgs = append(sgs, sp)
			}
			var err error
			rep := map[string]any{"mode": mode, "signer_algs": fmt.Sprint(algs)}
			if p, _ := protect(func() { err = sm.Sign(nil, nil, sgs...) }); p {
				c.Fail("C04/panic", "SignMessage.Sign panicked", rep)
				continue
			}
			c.Eval("shared-signer-headers/"+mode, fmt.Sprint(algs), true)
			for j, sp := range spies {
				for _, call := range sp.calls {
					wa, isInt, present := algInWire(tbsElement(call, 2))
					if !present || !isInt || cose.Algorithm(wa) != sp.alg {
						c.Fail("C04/signed-under-other-alg", fmt.Sprintf("signer %d (algorithm %d) was handed a structure whose signer protected bytes %x name alg %d (present=%v): Sign returned %v", j, sp.alg, tbsElement(call, 2), wa, present, err), rep)
					}
				}
			}
		}
	}
}

// c04DecodedSmallAlgs: decoded structures whose protected bucket is exactly {1: a} for every a in -40 .. 40 and around
// the one-octet / two-octet boundaries (non-negative identifiers exist: HMAC, AES, private use): a key reporting a is
// consulted, a key reporting -1-a (the same argument under the other integer major type) or any neighbour is refused
// with ErrAlgorithmMismatch and not invoked.
func c04DecodedSmallAlgs(c *Collector) {
	var algs []int64
	for a := int64(-40); a <= 40; a++ {
		algs = append(algs, a)
	}
	algs = append(algs, 255, 256, -256, -257, 65535, -65536)
	for _, a := range algs {
		if a == 0 {
			continue // the reserved value is this library's "no algorithm"
		}
		pb := wBstr(wMap(-1, wInt(1, -1), wInt(a, -1)).Ser(), -1)
		for _, kind := range []string{"COSE_Sign1", "COSE_Sign1 untagged", "COSE_Signature", "COSE_Countersignature", "COSE_Sign signer"} {
			var verify func(vf *spyVerifier) error
			var data []byte
			switch kind {
			case "COSE_Sign1", "COSE_Sign1 untagged":
				body := wArr(-1, pb.Clone(), wMap(-1), wBstr([]byte("p"), -1), wBstr([]byte{1}, -1))
				var m cose.Sign1Message
				var err error
				if kind == "COSE_Sign1" {
					data = wTag(18, -1, body).Ser()
					err = m.UnmarshalCBOR(data)
				} else {
					data = body.Ser()
					err = (*cose.UntaggedSign1Message)(&m).UnmarshalCBOR(data)
				}
				if err != nil {
					continue
				}
				verify = func(vf *spyVerifier) error { return m.Verify(nil, vf) }
			case "COSE_Signature", "COSE_Countersignature":
				data = wArr(-1, pb.Clone(), wMap(-1), wBstr([]byte{1}, -1)).Ser()
				if kind == "COSE_Signature" {
					var sg cose.Signature
					if sg.UnmarshalCBOR(data) != nil {
						continue
					}
					verify = func(vf *spyVerifier) error { return sg.Verify(vf, []byte{0x40}, []byte("p"), nil) }
				} else {
					var cs cose.Countersignature
					if cs.UnmarshalCBOR(data) != nil {
						continue
					}
					parent := &cose.Sign1Message{Headers: cose.Headers{Protected: cose.ProtectedHeader{}}, Payload: []byte("p"), Signature: []byte{1}}
					verify = func(vf *spyVerifier) error { return cs.Verify(vf, parent, nil) }
				}
			default:
				data = wTag(98, -1, wArr(-1, wBstr(nil, -1), wMap(-1), wBstr([]byte("p"), -1), wArr(-1, wArr(-1, pb.Clone(), wMap(-1), wBstr([]byte{1}, -1))))).Ser()
				var sm cose.SignMessage
				if sm.UnmarshalCBOR(data) != nil {
					continue
				}
				verify = func(vf *spyVerifier) error { return sm.Verify(nil, vf) }
			}
			for _, va := range []int64{a, -1 - a, a + 1, a - 1, -a} {
				if va == 0 {
					continue
				}
				vf := &spyVerifier{alg: cose.Algorithm(va)}
				var err error
				if p, _ := protect(func() { err = verify(vf) }); p {
					c.Fail("C04/panic", "Verify panicked", map[string]any{"data": hx(data)})
					continue
				}
				c.Eval("decoded-small-alg/"+kind, fmt.Sprint(a, va), true)
				rep := map[string]any{"data": hx(data), "protected_alg": a, "key_alg": va, "structure": kind}
				if va == a {
					if len(vf.calls) != 1 || err != nil {
						c.Fail("C04/decoded-not-called", fmt.Sprintf("%s whose protected bytes say alg %d: a key of that algorithm was not consulted (%v)", kind, a, err), rep)
					}
				} else if len(vf.calls) > 0 || !errors.Is(err, cose.ErrAlgorithmMismatch) {
					c.Fail("C04/decoded-mismatch", fmt.Sprintf("%s whose protected bytes say alg %d: a key reporting %d was invoked %d times, Verify returned %v", kind, a, va, len(vf.calls), err), rep)
				}
			}
		}
	}
}
