package main

import (
	"crypto/ecdsa"
	"crypto/ed25519"
	"crypto/elliptic"
	"math/big"

	cose "github.com/veraison/go-cose"
)

// Every exec function prints the op term from the PRE-state, runs the
// implementation under recover, and prints the observation from the POST-state.

func execSign1(m *cose.Sign1Message, ext []byte, sg *spySigner) (op, obs string, err error, panicked bool) {
	op = "OpSign1 " + cSign1(m) + " " + cGoBytes(ext) + " " + sg.coq()
	sg.calls = nil
	panicked, _ = protect(func() { err = m.Sign(nil, ext, sg) })
	if panicked {
		return op, oPanic(), nil, true
	}
	obs = oT("out", oUnitRes(err), oSign1(m), oCalls(sg.calls))
	return
}

func execVerify1(m *cose.Sign1Message, ext []byte, vf *spyVerifier) (op, obs string, err error, panicked bool) {
	op = "OpVerify1 " + cSign1(m) + " " + cGoBytes(ext) + " " + vf.coq()
	vf.calls = nil
	panicked, _ = protect(func() { err = m.Verify(ext, vf) })
	if panicked {
		return op, oPanic(), nil, true
	}
	obs = oT("ver", oUnitRes(err), oVCalls(vf.calls))
	return
}

func execHelperSign1(tagged bool, h cose.Headers, payload, ext []byte, sg *spySigner) (op, obs string, out []byte, err error, panicked bool) {
	op = "OpHelperSign1 " + cBool(tagged) + " " + cH(&h) + " " + cGoBytes(payload) + " " + cGoBytes(ext) + " " + sg.coq()
	sg.calls = nil
	panicked, _ = protect(func() {
		if tagged {
			out, err = cose.Sign1(nil, sg, h, payload, ext)
		} else {
			out, err = cose.Sign1Untagged(nil, sg, h, payload, ext)
		}
	})
	if panicked {
		return op, oPanic(), nil, nil, true
	}
	obs = oT("helper", oBytesRes(out, err), oMap(h.Protected, h.Protected == nil), oCalls(sg.calls))
	return
}

func execSigSign(s *cose.Signature, sg *spySigner, bodyprot, payload, ext []byte) (op, obs string, err error, panicked bool) {
	op = "OpSigSign " + cSigv(s) + " " + sg.coq() + " " + cBytes(bodyprot) + " " + cGoBytes(payload) + " " + cGoBytes(ext)
	sg.calls = nil
	panicked, _ = protect(func() { err = s.Sign(nil, sg, bodyprot, payload, ext) })
	if panicked {
		return op, oPanic(), nil, true
	}
	obs = oT("out", oUnitRes(err), oSigv(s), oCalls(sg.calls))
	return
}

func execSigVerify(s *cose.Signature, vf *spyVerifier, bodyprot, payload, ext []byte) (op, obs string, err error, panicked bool) {
	op = "OpSigVerify " + cSigv(s) + " " + vf.coq() + " " + cBytes(bodyprot) + " " + cGoBytes(payload) + " " + cGoBytes(ext)
	vf.calls = nil
	panicked, _ = protect(func() { err = s.Verify(vf, bodyprot, payload, ext) })
	if panicked {
		return op, oPanic(), nil, true
	}
	obs = oT("ver", oUnitRes(err), oVCalls(vf.calls))
	return
}

func execSignMsg(m *cose.SignMessage, ext []byte, sgs []*spySigner) (op, obs string, err error, panicked bool) {
	items := make([]string, len(sgs))
	signers := make([]cose.Signer, len(sgs))
	for i, s := range sgs {
		items[i] = s.coq()
		s.calls = nil
		signers[i] = s
	}
	op = "OpSignMsg " + cSignMsg(m) + " " + cGoBytes(ext) + " " + cList(items)
	panicked, _ = protect(func() { err = m.Sign(nil, ext, signers...) })
	if panicked {
		return op, oPanic(), nil, true
	}
	var calls [][]byte
	for _, s := range sgs {
		calls = append(calls, s.calls...)
	}
	obs = oT("out", oUnitRes(err), oSignMsg(m), oCalls(calls))
	return
}

func execVerifyMsg(m *cose.SignMessage, ext []byte, vfs []*spyVerifier) (op, obs string, err error, panicked bool) {
	items := make([]string, len(vfs))
	verifiers := make([]cose.Verifier, len(vfs))
	for i, v := range vfs {
		items[i] = v.coq()
		v.calls = nil
		verifiers[i] = v
	}
	op = "OpVerifyMsg " + cSignMsg(m) + " " + cGoBytes(ext) + " " + cList(items)
	panicked, _ = protect(func() { err = m.Verify(ext, verifiers...) })
	if panicked {
		return op, oPanic(), nil, true
	}
	var calls []vcall
	for _, v := range vfs {
		calls = append(calls, v.calls...)
	}
	obs = oT("ver", oUnitRes(err), oVCalls(calls))
	return
}

func execCsign(s *cose.Countersignature, sg *spySigner, parent Parent, ext []byte) (op, obs string, err error, panicked bool) {
	op = "OpCsign " + cSigv((*cose.Signature)(s)) + " " + sg.coq() + " " + parent.coq + " " + cGoBytes(ext)
	sg.calls = nil
	panicked, _ = protect(func() { err = s.Sign(nil, sg, parent.val, ext) })
	if panicked {
		return op, oPanic(), nil, true
	}
	obs = oT("out", oUnitRes(err), oSigv((*cose.Signature)(s)), oCalls(sg.calls))
	return
}

func execCverify(s *cose.Countersignature, vf *spyVerifier, parent Parent, ext []byte) (op, obs string, err error, panicked bool) {
	op = "OpCverify " + cSigv((*cose.Signature)(s)) + " " + vf.coq() + " " + parent.coq + " " + cGoBytes(ext)
	vf.calls = nil
	panicked, _ = protect(func() { err = s.Verify(vf, parent.val, ext) })
	if panicked {
		return op, oPanic(), nil, true
	}
	obs = oT("ver", oUnitRes(err), oVCalls(vf.calls))
	return
}

func execCsign0(sg *spySigner, parent Parent, ext []byte) (op, obs string, out []byte, err error, panicked bool) {
	op = "OpCsign0 " + sg.coq() + " " + parent.coq + " " + cGoBytes(ext)
	sg.calls = nil
	panicked, _ = protect(func() { out, err = cose.Countersign0(nil, sg, parent.val, ext) })
	if panicked {
		return op, oPanic(), nil, nil, true
	}
	r := oErrOrNil(err)
	if err == nil {
		r = oOk(oGoBytes(out))
	}
	obs = oT("cs0", r, oCalls(sg.calls))
	return
}

func oErrOrNil(err error) string {
	if err == nil {
		return oOk()
	}
	return oErr(err)
}

func execCverify0(vf *spyVerifier, parent Parent, ext, sig []byte) (op, obs string, err error, panicked bool) {
	op = "OpCverify0 " + vf.coq() + " " + parent.coq + " " + cGoBytes(ext) + " " + cGoBytes(sig)
	vf.calls = nil
	panicked, _ = protect(func() { err = cose.VerifyCountersign0(vf, parent.val, ext, sig) })
	if panicked {
		return op, oPanic(), nil, true
	}
	obs = oT("ver", oUnitRes(err), oVCalls(vf.calls))
	return
}

func cHE(p *cose.HashEnvelopePayload) string {
	return "(mkHE " + cZ(int64(p.HashAlgorithm)) + " " + cGoBytes(p.HashValue) + " " + cGv(p.PreimageContentType) + " " + cBytes([]byte(p.Location)) + ")"
}

func execSignHE(sg *spySigner, h cose.Headers, p cose.HashEnvelopePayload) (op, obs string, out []byte, err error, panicked bool) {
	op = "OpSignHE " + sg.coq() + " " + cH(&h) + " " + cHE(&p)
	sg.calls = nil
	panicked, _ = protect(func() { out, err = cose.SignHashEnvelope(nil, sg, h, p) })
	if panicked {
		return op, oPanic(), nil, nil, true
	}
	obs = oT("he", oBytesRes(out, err), oCalls(sg.calls))
	return
}

func execVerifyHE(vf *spyVerifier, data []byte) (op, obs string, m *cose.Sign1Message, err error, panicked bool) {
	op = "OpVerifyHE " + vf.coq() + " " + cBytes(data)
	vf.calls = nil
	panicked, _ = protect(func() { m, err = cose.VerifyHashEnvelope(vf, data) })
	if panicked {
		return op, oPanic(), nil, nil, true
	}
	r := ""
	if err != nil {
		r = oErr(err)
	} else {
		r = oOk(oSign1(m))
	}
	obs = oT("vhe", r, oVCalls(vf.calls))
	return
}

// ---- encoders ----
func execEncSign1(tagged bool, m *cose.Sign1Message) (op, obs string, out []byte, err error, panicked bool) {
	op = "OpEncSign1 " + cBool(tagged) + " " + cSign1(m)
	panicked, _ = protect(func() {
		if tagged {
			out, err = m.MarshalCBOR()
		} else {
			out, err = (*cose.UntaggedSign1Message)(m).MarshalCBOR()
		}
	})
	if panicked {
		return op, oPanic(), nil, nil, true
	}
	return op, oBytesRes(out, err), out, err, false
}
func execEncSignature(s *cose.Signature) (op, obs string, out []byte, err error, panicked bool) {
	op = "OpEncSignature " + cSigv(s)
	panicked, _ = protect(func() { out, err = s.MarshalCBOR() })
	if panicked {
		return op, oPanic(), nil, nil, true
	}
	return op, oBytesRes(out, err), out, err, false
}
func execEncSignMsg(m *cose.SignMessage) (op, obs string, out []byte, err error, panicked bool) {
	op = "OpEncSignMsg " + cSignMsg(m)
	panicked, _ = protect(func() { out, err = m.MarshalCBOR() })
	if panicked {
		return op, oPanic(), nil, nil, true
	}
	return op, oBytesRes(out, err), out, err, false
}
func execEncProt(h cose.ProtectedHeader) (op, obs string, out []byte, err error, panicked bool) {
	op = "OpEncProt " + cOptMap(h, h == nil)
	panicked, _ = protect(func() { out, err = h.MarshalCBOR() })
	if panicked {
		return op, oPanic(), nil, nil, true
	}
	return op, oBytesRes(out, err), out, err, false
}
func execEncUnprot(h cose.UnprotectedHeader) (op, obs string, out []byte, err error, panicked bool) {
	op = "OpEncUnprot " + cOptMap(h, h == nil)
	panicked, _ = protect(func() { out, err = h.MarshalCBOR() })
	if panicked {
		return op, oPanic(), nil, nil, true
	}
	return op, oBytesRes(out, err), out, err, false
}
func execEncKey(k *cose.Key) (op, obs string, out []byte, err error, panicked bool) {
	op = "OpEncKey " + cKey(k)
	panicked, _ = protect(func() { out, err = k.MarshalCBOR() })
	if panicked {
		return op, oPanic(), nil, nil, true
	}
	return op, oBytesRes(out, err), out, err, false
}

// ---- keys ----
func curveBits(c elliptic.Curve) int64 {
	switch c {
	case elliptic.P256():
		return 256
	case elliptic.P384():
		return 384
	case elliptic.P521():
		return 521
	case elliptic.P224():
		return 224
	}
	return 0
}

func oPub(pub any) string {
	switch k := pub.(type) {
	case *ecdsa.PublicKey:
		return oT("ec", oZ(curveBits(k.Curve)), "OZ "+cBig(k.X), "OZ "+cBig(k.Y))
	case ed25519.PublicKey:
		return oT("ed", oB([]byte(k)))
	}
	return oT("other")
}
func oPriv(priv any) string {
	switch k := priv.(type) {
	case *ecdsa.PrivateKey:
		return oT("ec", oZ(curveBits(k.Curve)), "OZ "+cBig(k.X), "OZ "+cBig(k.Y), "OZ "+cBig(k.D))
	case ed25519.PrivateKey:
		return oT("ed", oB([]byte(k[:32])))
	}
	return oT("other")
}

func cPub(pub any) string {
	switch k := pub.(type) {
	case *ecdsa.PublicKey:
		return "(PubEC " + cZ(curveBits(k.Curve)) + " " + cBig(k.X) + " " + cBig(k.Y) + ")"
	case ed25519.PublicKey:
		return "(PubEd " + cBytes([]byte(k)) + ")"
	}
	return "PubOther"
}
func cPriv(priv any) string {
	switch k := priv.(type) {
	case *ecdsa.PrivateKey:
		return "(PrivEC " + cZ(curveBits(k.Curve)) + " " + cBig(k.X) + " " + cBig(k.Y) + " " + cBig(k.D) + ")"
	case ed25519.PrivateKey:
		return "(PrivEd " + cBytes([]byte(k)) + ")"
	}
	return "PrivOther"
}

func execKeyFromPub(pub any) (op, obs string, k *cose.Key, err error, panicked bool) {
	op = "OpKeyFromPub " + cPub(pub)
	panicked, _ = protect(func() { k, err = cose.NewKeyFromPublic(pub) })
	if panicked {
		return op, oPanic(), nil, nil, true
	}
	if err != nil {
		return op, oErr(err), nil, err, false
	}
	b, merr := k.MarshalCBOR()
	return op, oOk(oKey(k), oBytesRes(b, merr)), k, nil, false
}
func execKeyFromPriv(priv any) (op, obs string, k *cose.Key, err error, panicked bool) {
	op = "OpKeyFromPriv " + cPriv(priv)
	panicked, _ = protect(func() { k, err = cose.NewKeyFromPrivate(priv) })
	if panicked {
		return op, oPanic(), nil, nil, true
	}
	if err != nil {
		return op, oErr(err), nil, err, false
	}
	b, merr := k.MarshalCBOR()
	return op, oOk(oKey(k), oBytesRes(b, merr)), k, nil, false
}
func execKeyPublic(k *cose.Key) (op, obs string, pub any, err error, panicked bool) {
	op = "OpKeyPublic " + cKey(k)
	panicked, _ = protect(func() { pub, err = k.PublicKey() })
	if panicked {
		return op, oPanic(), nil, nil, true
	}
	if err != nil {
		return op, oErr(err), nil, err, false
	}
	return op, oOk(oPub(pub)), pub, nil, false
}
func execKeyPrivate(k *cose.Key) (op, obs string, priv any, err error, panicked bool) {
	op = "OpKeyPrivate " + cKey(k)
	panicked, _ = protect(func() { priv, err = k.PrivateKey() })
	if panicked {
		return op, oPanic(), nil, nil, true
	}
	if err != nil {
		return op, oErr(err), nil, err, false
	}
	return op, oOk(oPriv(priv)), priv, nil, false
}
func execKeySigner(k *cose.Key) (op, obs string, sg cose.Signer, err error, panicked bool) {
	op = "OpKeySigner " + cKey(k)
	panicked, _ = protect(func() { sg, err = k.Signer() })
	if panicked {
		return op, oPanic(), nil, nil, true
	}
	if err != nil {
		return op, oErr(err), nil, err, false
	}
	return op, oOk(oZ(int64(sg.Algorithm()))), sg, nil, false
}

// on-curve oracle: what ecdsa.PublicKey.ECDH() says about the point the key denotes
func keyPointValid(k *cose.Key) bool {
	ok := false
	protect(func() {
		pub, err := k.PublicKey()
		if err != nil {
			return
		}
		if e, isEC := pub.(*ecdsa.PublicKey); isEC {
			_, err := e.ECDH()
			ok = err == nil
		} else {
			ok = true
		}
	})
	return ok
}
func execKeyVerifier(k *cose.Key) (op, obs string, vf cose.Verifier, err error, panicked bool) {
	op = "OpKeyVerifier " + cKey(k) + " " + cBool(keyPointValid(k))
	panicked, _ = protect(func() { vf, err = k.Verifier() })
	if panicked {
		return op, oPanic(), nil, nil, true
	}
	if err != nil {
		return op, oErr(err), nil, err, false
	}
	return op, oOk(oZ(int64(vf.Algorithm()))), vf, nil, false
}

var _ = big.NewInt
